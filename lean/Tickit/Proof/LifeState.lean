import Tickit.Proof.LifeDestroy
/-
  C08 proofs, part 4: the whole state — windows with their pens, the pens' reference counts, the terminal.
  `SInv` is the invariant of the state between two operations of the application; every operation without event
  handlers keeps it and never fails (`step_plain_ok`).
-/
namespace Tickit.Life
open WinTree (Id Win Req Change Tree)

/-! ## who holds a pen -/

/-- Number of windows holding application pen `k`. -/
def holders (st : St) (k : Nat) : Nat := (st.wx.toList.filter (fun x => x.pen = .app k)).length

theorem filter_length_set {α : Type} (p : α → Bool) : ∀ (l : List α) (i : Nat) (a : α) (h : i < l.length),
    ((l.set i a).filter p).length + (if p l[i] then 1 else 0) = (l.filter p).length + (if p a then 1 else 0)
  | [], i, a, h => by simp at h
  | x :: xs, 0, a, _ => by
    simp only [List.set_cons_zero, List.filter_cons, List.getElem_cons_zero]
    by_cases hx : p x = true <;> by_cases ha : p a = true <;> simp [hx, ha] <;> omega
  | x :: xs, i + 1, a, h => by
    have ih := filter_length_set p xs i a (by simpa using h)
    simp only [List.set_cons_succ, List.filter_cons, List.getElem_cons_succ]
    by_cases hx : p x = true <;> simp [hx] <;> omega

theorem getX_of_lt {st : St} {i : Nat} (h : i < st.wx.size) : getX st i = st.wx[i] := by
  unfold getX
  simp [h]

/-- Changing the record of window `i`. -/
theorem holders_setX {st : St} {i : Nat} (x : WinX) (h : i < st.wx.size) (k : Nat) :
    holders (setX st i x) k + (if (getX st i).pen = .app k then 1 else 0) =
      holders st k + (if x.pen = .app k then 1 else 0) := by
  unfold holders setX
  simp only [Array.toList_setIfInBounds]
  have := filter_length_set (fun x : WinX => decide (x.pen = .app k)) st.wx.toList i x (by simpa using h)
  rw [getX_of_lt h]
  simpa using this

theorem holders_setX_same {st : St} {i : Nat} (x : WinX) (hp : x.pen = (getX st i).pen) (k : Nat) :
    holders (setX st i x) k = holders st k := by
  by_cases h : i < st.wx.size
  · have := holders_setX x h k
    rw [hp] at this
    omega
  · unfold holders setX
    have : st.wx.setIfInBounds i x = st.wx := by
      apply Array.ext
      · simp
      · intro j h1 h2
        rw [Array.getElem_setIfInBounds (hj := h2)]
        have : ¬ i = j := by omega
        simp [this]
    rw [this]

@[simp] theorem setX_tree (st : St) (i : Nat) (x : WinX) : (setX st i x).tree = st.tree := rfl
@[simp] theorem setX_pens (st : St) (i : Nat) (x : WinX) : (setX st i x).pens = st.pens := rfl
@[simp] theorem setX_term (st : St) (i : Nat) (x : WinX) : (setX st i x).term = st.term := rfl
@[simp] theorem setX_size (st : St) (i : Nat) (x : WinX) : (setX st i x).wx.size = st.wx.size := by simp [setX]

theorem getX_setX_self {st : St} {i : Nat} (x : WinX) (h : i < st.wx.size) : getX (setX st i x) i = x := by
  unfold getX setX; simp [h]

theorem getX_setX_ne {st : St} {i j : Nat} (x : WinX) (h : i ≠ j) : getX (setX st i x) j = getX st j := by
  unfold getX setX
  simp [h]

end Tickit.Life

namespace Tickit.Life
open WinTree (Id Win Req Change Tree)

/-! ## the invariant of the whole state -/

/-- References the library itself holds between two calls or while an entry point runs, which the window tree of this
    layer does not know about (`Model/LifeTop.lean`: the toplevel instance's references to the terminal and to the root
    window, the reference an input entry point of the terminal holds while it works).  A parameter of the invariant:
    no operation of this layer reads or changes it. -/
structure Ghost where
  term : Nat := 0
  win : Nat → Nat := fun _ => 0

/-- Nobody but the application and the windows holds anything. -/
def Ghost.none : Ghost := {}

/-- The windows whose count is known exactly: the root window (no dying parent can take a reference from it), and
    every window the library holds no reference of its own to. -/
def Ghost.covers (gh : Ghost) (i : Nat) : Prop := i = 0 ∨ gh.win i = 0

theorem Ghost.none_covers (i : Nat) : Ghost.none.covers i := .inr rfl

@[simp] theorem Ghost.none_term : Ghost.none.term = 0 := rfl
@[simp] theorem Ghost.none_win (i : Nat) : Ghost.none.win i = 0 := rfl

variable {gh : Ghost}

/-- The pens' counts: the application's references plus the windows holding the pen. -/
structure PensOk (st : St) : Prop where
  rc : ∀ (k : Nat) (p : Obj), st.pens[k]? = some p →
    (p.freed = false → p.refcount = (p.appRefs : Int) + (holders st k : Int)) ∧ (p.freed = true → holders st k = 0)
  ex : ∀ (k : Nat), st.pens[k]? = none → holders st k = 0
  /-- a live pen holds at least one reference (it is freed when the count reaches zero) -/
  pos : ∀ (k : Nat) (p : Obj), st.pens[k]? = some p → p.freed = false → 1 ≤ p.refcount

/-- Render buffers and strings are held by the application only: a live one's count is the application's tally. -/
def SimpleOk (st : St) : Prop :=
  (∀ (k : Nat) (b : RBObj), st.rbs[k]? = some b → b.freed = false → 1 ≤ b.refcount ∧ b.refcount = (b.appRefs : Int)) ∧
  (∀ (k : Nat) (s : StrObj), st.strs[k]? = some s → s.freed = false → 1 ≤ s.refcount ∧ s.refcount = (s.appRefs : Int))

/-- The state invariant without the account of the application's window references, generalised to the middle of
    `tickit_window_unref`: the windows in `pending` have been freed by the tree cascade but what they own (pen,
    terminal reference) has not been released yet. -/
structure SInvB (gh : Ghost) (st : St) (pending : List Nat) : Prop where
  tinv : TInv st.tree
  wx_size : st.wx.size = st.tree.wins.size
  /-- every live window holds at least one reference -/
  rc : ∀ (i : Nat) (w : Win), LiveW st.tree i w → 1 ≤ w.refcount
  pend_nodup : pending.Nodup
  pend_freed : ∀ i ∈ pending, ∃ w, st.tree.wins[i]? = some w ∧ w.freed = true
  /-- a freed window holds no pen -/
  dead_pen : ∀ (i : Nat) (w : Win), st.tree.wins[i]? = some w → w.freed = true → i ∉ pending → (getX st i).pen = .null
  pens : PensOk st
  /-- the terminal's count is the application's references plus the root window's -/
  term_held : st.term.freed = false → ((∃ r, LiveW st.tree 0 r) ∨ 0 ∈ pending) →
    st.term.refcount = (st.term.appRefs : Int) + (gh.term : Int) + 1
  term_free : st.term.freed = false → ¬ ((∃ r, LiveW st.tree 0 r) ∨ 0 ∈ pending) →
    st.term.refcount = (st.term.appRefs : Int) + (gh.term : Int) ∧ 1 ≤ st.term.refcount
  /-- a freed terminal: the root window is gone, nobody holds a reference -/
  term_dead : st.term.freed = true → ¬ ((∃ r, LiveW st.tree 0 r) ∨ 0 ∈ pending) ∧ st.term.appRefs = 0 ∧ gh.term = 0
  simple : SimpleOk st

/-- The state invariant: `SInvB`, and no live window holds more references than the application has taken and the
    library holds itself (no handler is running, so nobody else holds one), and exactly that many if the library holds
    none of its own or the window is the root window. -/
structure SInvG (gh : Ghost) (st : St) (pending : List Nat) : Prop extends SInvB gh st pending where
  wref : ∀ (i : Nat) (w : Win), LiveW st.tree i w → w.refcount ≤ ((getX st i).appRefs : Int) + (gh.win i : Int) ∧
    (gh.covers i → ((getX st i).appRefs : Int) + (gh.win i : Int) ≤ w.refcount)
  /-- a root window the library itself holds a reference to is alive -/
  glive : 0 < gh.win 0 → ∃ r, LiveW st.tree 0 r

/-- The state invariant between two operations. -/
abbrev SInv (gh : Ghost) (st : St) : Prop := SInvG gh st []

theorem SInvB.rb_rc {st : St} {pend : List Nat} (inv : SInvB gh st pend) (k : Nat) (b : RBObj) (hb : st.rbs[k]? = some b)
    (hf : b.freed = false) : 1 ≤ b.refcount := (inv.simple.1 k b hb hf).1

theorem getX_setX (st : St) (i : Nat) (x : WinX) (j : Nat) :
    getX (setX st i x) j = if i = j ∧ i < st.wx.size then x else getX st j := by
  unfold getX setX
  by_cases hij : i = j
  · subst hij
    by_cases hlt : i < st.wx.size
    · simp [hlt]
    · simp [hlt]
  · simp [hij]

theorem holders_congr {st st' : St} (h : st'.wx = st.wx) (k : Nat) : holders st' k = holders st k := by
  unfold holders; rw [h]

theorem holders_pos {st : St} {i k : Nat} (h : i < st.wx.size) (hp : (getX st i).pen = .app k) : 1 ≤ holders st k := by
  have := holders_setX (st := st) { getX st i with pen := .null } h k
  simp only [hp, if_true] at this
  have hne : (PenRef.null = PenRef.app k) = False := by simp
  simp only [hne, if_false] at this
  omega

/-- Forgetting the pen of window `i`: the holders of that pen go down by one. -/
theorem holders_forget {st : St} {i : Nat} (h : i < st.wx.size) (k : Nat) :
    holders (setX st i { getX st i with pen := .null }) k + (if (getX st i).pen = .app k then 1 else 0) = holders st k := by
  have := holders_setX (st := st) { getX st i with pen := .null } h k
  have hne : (PenRef.null = PenRef.app k) = False := by simp
  simp only [hne, if_false, Nat.add_zero] at this
  exact this

@[simp] theorem dropped_refcount (p : Obj) : p.dropped.refcount = p.refcount - 1 := rfl
@[simp] theorem dropped_appRefs (p : Obj) : p.dropped.appRefs = p.appRefs := rfl
@[simp] theorem dropped_freed (p : Obj) : p.dropped.freed = decide (p.refcount - 1 = 0) := rfl

/-- `if(win->pen) tickit_pen_unref(win->pen); win->pen = NULL` keeps the pens' counts right. -/
theorem release_pen {st : St} (P : PensOk st) {i : Nat} (hi : i < st.wx.size) :
    ∃ st1, dropWinPen st i = .ok st1 ∧ st1.tree = st.tree ∧ st1.wx = st.wx ∧ st1.term = st.term ∧ st1.rbs = st.rbs ∧
      st1.strs = st.strs ∧ PensOk (setX st1 i { getX st1 i with pen := .null }) := by
  unfold dropWinPen
  cases hpen : (getX st i).pen with
  | null =>
    refine ⟨st, rfl, rfl, rfl, rfl, rfl, rfl, ?_, ?_, P.pos⟩
    · intro k p hp
      have := holders_forget hi k
      simp only [hpen, show (PenRef.null = PenRef.app k) = False by simp, if_false, Nat.add_zero] at this
      rw [this]; exact P.rc k p hp
    · intro k hk
      have := holders_forget hi k
      simp only [hpen, show (PenRef.null = PenRef.app k) = False by simp, if_false, Nat.add_zero] at this
      rw [this]; exact P.ex k hk
  | own =>
    refine ⟨st, rfl, rfl, rfl, rfl, rfl, rfl, ?_, ?_, P.pos⟩
    · intro k p hp
      have := holders_forget hi k
      simp only [hpen, show (PenRef.own = PenRef.app k) = False by simp, if_false, Nat.add_zero] at this
      rw [this]; exact P.rc k p hp
    · intro k hk
      have := holders_forget hi k
      simp only [hpen, show (PenRef.own = PenRef.app k) = False by simp, if_false, Nat.add_zero] at this
      rw [this]; exact P.ex k hk
  | app k0 =>
    have hpos := holders_pos hi hpen
    cases hpk : st.pens[k0]? with
    | none => have := P.ex k0 hpk; omega
    | some p0 =>
      obtain ⟨hlive, hdead⟩ := P.rc k0 p0 hpk
      have hf : p0.freed = false := by
        cases hf : p0.freed with
        | false => rfl
        | true => have := hdead hf; omega
      have hrc := hlive hf
      have hk0 : k0 < st.pens.size := by
        by_cases hlt : k0 < st.pens.size
        · exact hlt
        · have := Array.getElem?_eq_none (xs := st.pens) (Nat.le_of_not_lt hlt)
          rw [hpk] at this; cases this
      unfold penUnref
      simp only [hpk, hf, Bool.false_eq_true, if_false]
      have hge : ¬ p0.refcount < 1 := by omega
      simp only [hge, if_false, pure_ok]
      refine ⟨_, rfl, rfl, rfl, rfl, rfl, rfl, ?_, ?_, ?_⟩
      rotate_left 2
      · intro k p hp hfp
        simp only [setX_pens, Array.getElem?_setIfInBounds] at hp
        by_cases hkk : k0 = k
        · subst hkk
          simp only [if_true, hk0, Option.some.injEq] at hp
          subst hp
          simp only [dropped_freed, decide_eq_false_iff_not] at hfp
          simp only [dropped_refcount]
          omega
        · simp only [hkk, if_false] at hp
          exact P.pos k p hp hfp
      · intro k p hp
        have hh := holders_forget hi k
        rw [hpen] at hh
        have hcg : holders (setX { st with pens := st.pens.setIfInBounds k0 p0.dropped } i
            { getX { st with pens := st.pens.setIfInBounds k0 p0.dropped } i with pen := .null }) k =
            holders (setX st i { getX st i with pen := .null }) k := holders_congr rfl k
        rw [hcg]
        simp only [setX_pens, Array.getElem?_setIfInBounds] at hp
        by_cases hkk : k0 = k
        · subst hkk
          simp only [if_true, hk0, Option.some.injEq] at hp
          subst hp
          simp only [if_true] at hh
          simp only [dropped_refcount, dropped_appRefs, dropped_freed, decide_eq_false_iff_not, decide_eq_true_eq]
          constructor
          · intro _; omega
          · intro _; omega
        · simp only [hkk, if_false] at hp
          have e : (PenRef.app k0 = PenRef.app k) = False := by simp [hkk]
          simp only [e, if_false, Nat.add_zero] at hh
          rw [hh]
          exact P.rc k p hp
      · intro k hk
        have hh := holders_forget hi k
        rw [hpen] at hh
        have hcg : holders (setX { st with pens := st.pens.setIfInBounds k0 p0.dropped } i
            { getX { st with pens := st.pens.setIfInBounds k0 p0.dropped } i with pen := .null }) k =
            holders (setX st i { getX st i with pen := .null }) k := holders_congr rfl k
        rw [hcg]
        simp only [setX_pens, Array.getElem?_setIfInBounds] at hk
        by_cases hkk : k0 = k
        · subst hkk
          simp [hk0] at hk
        · simp only [hkk, if_false] at hk
          have e : (PenRef.app k0 = PenRef.app k) = False := by simp [hkk]
          simp only [e, if_false, Nat.add_zero] at hh
          rw [hh]
          exact P.ex k hk

end Tickit.Life

namespace Tickit.Life
open WinTree (Id Win Req Change Tree)
variable {gh : Ghost}

/-! ## changes that leave every window's pen alone -/

theorem holders_eq_map {st : St} (k : Nat) :
    holders st k = ((st.wx.toList.map (·.pen)).filter (fun q => q = PenRef.app k)).length := by
  unfold holders
  rw [List.filter_map]
  simp [Function.comp_def]

theorem holders_of_pens_eq {st st' : St} (h : st'.wx.toList.map (·.pen) = st.wx.toList.map (·.pen)) (k : Nat) :
    holders st' k = holders st k := by
  rw [holders_eq_map, holders_eq_map, h]

theorem getX_pen_of_map {st st' : St} (h : st'.wx.toList.map (·.pen) = st.wx.toList.map (·.pen)) (j : Nat) :
    (getX st' j).pen = (getX st j).pen := by
  have hlen : st'.wx.size = st.wx.size := by
    have := congrArg List.length h
    simpa using this
  unfold getX
  by_cases hj : j < st.wx.size
  · have hj' : j < st'.wx.size := by omega
    have h1 : (st'.wx.toList.map (·.pen))[j]? = (st.wx.toList.map (·.pen))[j]? := by rw [h]
    simp only [List.getElem?_map, Array.getElem?_toList] at h1
    rw [Array.getElem?_eq_getElem hj, Array.getElem?_eq_getElem hj'] at h1 ⊢
    simpa using h1
  · have hj' : ¬ j < st'.wx.size := by omega
    rw [Array.getElem?_eq_none (Nat.le_of_not_lt hj), Array.getElem?_eq_none (Nat.le_of_not_lt hj')]

/-- A change of the windows' records that leaves every pen (and everything else) alone keeps the invariant. -/
theorem SInvB.of_wx {st st' : St} {pend : List Nat} (inv : SInvB gh st pend) (ht : st'.tree = st.tree)
    (hp : st'.pens = st.pens) (htm : st'.term = st.term) (hrb : st'.rbs = st.rbs) (hstr : st'.strs = st.strs)
    (hm : st'.wx.toList.map (·.pen) = st.wx.toList.map (·.pen)) : SInvB gh st' pend := by
  have hh := holders_of_pens_eq hm
  have hg := getX_pen_of_map hm
  have hlen : st'.wx.size = st.wx.size := by
    have := congrArg List.length hm
    simpa using this
  refine ⟨by rw [ht]; exact inv.tinv, by rw [hlen, ht]; exact inv.wx_size, by rw [ht]; exact inv.rc, inv.pend_nodup,
    by rw [ht]; exact inv.pend_freed, ?_, ⟨?_, ?_, by rw [hp]; exact inv.pens.pos⟩, ?_, ?_, ?_,
    ⟨by rw [hrb]; exact inv.simple.1, by rw [hstr]; exact inv.simple.2⟩⟩
  · intro i w hw hf hi; rw [hg]; rw [ht] at hw; exact inv.dead_pen i w hw hf hi
  · intro k p hk; rw [hh]; rw [hp] at hk; exact inv.pens.rc k p hk
  · intro k hk; rw [hh]; rw [hp] at hk; exact inv.pens.ex k hk
  · rw [htm, ht]; exact inv.term_held
  · rw [htm, ht]; exact inv.term_free
  · rw [htm, ht]; exact inv.term_dead

theorem setX_map_pen {st : St} {i : Nat} (x : WinX) (hp : x.pen = (getX st i).pen) :
    (setX st i x).wx.toList.map (·.pen) = st.wx.toList.map (·.pen) := by
  unfold setX
  simp only [Array.toList_setIfInBounds]
  apply List.ext_getElem?
  intro j
  simp only [List.getElem?_map, List.getElem?_set]
  by_cases hij : i = j
  · subst hij
    by_cases hlt : i < st.wx.toList.length
    · simp only [hlt, if_true, Option.map_some]
      have : st.wx.toList[i]? = some (getX st i) := by
        unfold getX
        have hlt' : i < st.wx.size := by simpa using hlt
        simp [hlt']
      rw [this]; simp [hp]
    · simp only [if_true, hlt, if_false]
      have : st.wx.toList[i]? = none := by
        apply List.getElem?_eq_none; omega
      simp [this]
  · simp [hij]

theorem consume_map_pen : ∀ (dropped : List Nat) (st : St),
    (consume st dropped).wx.toList.map (·.pen) = st.wx.toList.map (·.pen)
  | [], _ => rfl
  | i :: rest, st => by
    unfold consume
    simp only [List.foldl_cons]
    have := consume_map_pen rest (setX st i { getX st i with appRefs := (getX st i).appRefs - 1 })
    unfold consume at this
    rw [this]
    exact setX_map_pen _ rfl

theorem consume_frame : ∀ (dropped : List Nat) (st : St),
    (consume st dropped).tree = st.tree ∧ (consume st dropped).pens = st.pens ∧ (consume st dropped).term = st.term ∧
    (consume st dropped).rbs = st.rbs ∧ (consume st dropped).strs = st.strs ∧ (consume st dropped).penx = st.penx
  | [], _ => ⟨rfl, rfl, rfl, rfl, rfl, rfl⟩
  | i :: rest, st => by
    unfold consume
    simp only [List.foldl_cons]
    have := consume_frame rest (setX st i { getX st i with appRefs := (getX st i).appRefs - 1 })
    unfold consume at this
    exact this

end Tickit.Life

namespace Tickit.Life
open WinTree (Id Win Req Change Tree)
variable {gh : Ghost}

/-! ## releasing what a destroyed window owned -/

theorem releaseWin_ok {st : St} {d : Nat} {rest : List Nat} (inv : SInvB gh st (d :: rest)) :
    ∃ st', releaseWin st d = .ok st' ∧ SInvB gh st' rest ∧ st'.tree = st.tree ∧
      ∀ (j : Nat), (getX st' j).appRefs = (getX st j).appRefs := by
  obtain ⟨dw, hdw, hdf⟩ := inv.pend_freed d (by simp)
  have hd : d < st.wx.size := by
    rw [inv.wx_size]
    by_cases hlt : d < st.tree.wins.size
    · exact hlt
    · have := Array.getElem?_eq_none (xs := st.tree.wins) (Nat.le_of_not_lt hlt)
      rw [hdw] at this; cases this
  have hnd := List.nodup_cons.1 inv.pend_nodup
  -- step 1: the bindings go
  have inv1 : SInvB gh (setX st d { getX st d with binds := [] }) (d :: rest) :=
    inv.of_wx rfl rfl rfl rfl rfl (setX_map_pen _ rfl)
  have hd1 : d < (setX st d { getX st d with binds := [] }).wx.size := by simpa using hd
  -- step 2: the pen goes
  obtain ⟨st2, hdrop, ht2, hwx2, htm2, hrb2, hstr2, P3⟩ := release_pen inv1.pens hd1
  -- facts about the state after forgetting the pen
  have hget_d : (getX (setX st2 d { getX st2 d with pen := .null }) d).pen = .null := by
    rw [getX_setX_self _ (by rw [hwx2]; exact hd1)]
  have hget_ne : ∀ (j : Nat), j ≠ d → getX (setX st2 d { getX st2 d with pen := .null }) j = getX st j := by
    intro j hj
    rw [getX_setX_ne _ (Ne.symm hj)]
    unfold getX
    rw [hwx2]
    show (setX st d _).wx[j]?.getD {} = _
    have := getX_setX_ne (st := st) ({ getX st d with binds := [] }) (Ne.symm hj)
    unfold getX at this
    exact this
  have happ : ∀ (j : Nat), (getX (setX st2 d { getX st2 d with pen := .null }) j).appRefs = (getX st j).appRefs := by
    intro j
    by_cases hj : j = d
    · subst hj
      rw [getX_setX_self _ (by rw [hwx2]; exact hd1)]
      have e : getX st2 j = getX (setX st j { getX st j with binds := [] }) j := by
        show st2.wx[j]?.getD {} = _
        rw [hwx2]; rfl
      show (getX st2 j).appRefs = _
      rw [e, getX_setX_self _ hd]
    · rw [hget_ne j hj]
  have base : SInvB gh (setX st2 d { getX st2 d with pen := .null }) rest ∨ d = 0 := by
    by_cases hd0 : d = 0
    · exact .inr hd0
    · left
      refine ⟨by simp only [setX_tree, ht2]; exact inv.tinv, by simp only [setX_size, setX_tree, ht2, hwx2]; exact inv.wx_size,
        by simp only [setX_tree, ht2]; exact inv.rc, hnd.2,
        by simp only [setX_tree, ht2]; exact fun i hi => inv.pend_freed i (by simp [hi]), ?_, P3, ?_, ?_, ?_,
        ⟨by simp only [setX, hrb2]; exact inv.simple.1, by simp only [setX, hstr2]; exact inv.simple.2⟩⟩
      · intro i w hw hf hi
        simp only [setX_tree, ht2] at hw
        by_cases hid : i = d
        · subst hid; exact hget_d
        · rw [hget_ne i hid]
          exact inv.dead_pen i w hw hf (by simp [hid, hi])
      · simp only [setX_term, setX_tree, htm2, ht2]
        intro hf h
        exact inv.term_held hf (by
          rcases h with h | h
          · exact .inl h
          · exact .inr (by simp [h]))
      · simp only [setX_term, setX_tree, htm2, ht2]
        intro hf h
        exact inv.term_free hf (by
          intro h'
          apply h
          rcases h' with h' | h'
          · exact .inl h'
          · simp only [List.mem_cons] at h'
            rcases h' with h' | h'
            · exact absurd h'.symm hd0
            · exact .inr h')
      · simp only [setX_term, setX_tree, htm2, ht2]
        intro hf
        refine ⟨fun h => (inv.term_dead hf).1 (by
          rcases h with h | h
          · exact .inl h
          · exact .inr (by simp [h])), (inv.term_dead hf).2⟩
  unfold releaseWin
  simp only [hdrop, bind_ok]
  by_cases hd0 : d = 0
  · subst hd0
    simp only [if_true]
    -- the root window: its terminal reference goes as well
    have htf : st.term.freed = false := by
      cases htf : st.term.freed with
      | false => rfl
      | true => exact absurd (.inr (by simp)) (inv.term_dead htf).1
    have hheld := inv.term_held htf (.inr (by simp))
    have hterm : (setX st2 0 { getX st2 0 with pen := .null }).term = st.term := by simp [htm2]
    rw [hterm]
    simp only [htf, Bool.false_eq_true, if_false]
    unfold termUnref
    rw [hterm]
    simp only [htf, Bool.false_eq_true, if_false]
    have hge : ¬ st.term.refcount < 1 := by omega
    simp only [hge, if_false, pure_ok]
    have hnoroot : ¬ ((∃ r, LiveW st.tree 0 r) ∨ 0 ∈ rest) := by
      rintro (⟨r, hl⟩ | h)
      · rw [hl.1] at hdw; cases hdw; rw [hl.2] at hdf; cases hdf
      · exact hnd.1 h
    refine ⟨_, rfl, ?_, by simp [ht2], fun j => happ j⟩
    refine ⟨by simp only [setX_tree, ht2]; exact inv.tinv, by simp only [setX_size, setX_tree, ht2, hwx2]; exact inv.wx_size,
      by simp only [setX_tree, ht2]; exact inv.rc, hnd.2,
      by simp only [setX_tree, ht2]; exact fun i hi => inv.pend_freed i (by simp [hi]), ?_, ?_, ?_, ?_, ?_,
      ⟨by simp only [setX, hrb2]; exact inv.simple.1, by simp only [setX, hstr2]; exact inv.simple.2⟩⟩
    · intro i w hw hf hi
      simp only [setX_tree, ht2] at hw
      by_cases hid : i = 0
      · subst hid; exact hget_d
      · have := hget_ne i hid
        unfold getX at this ⊢
        simp only [setX] at this ⊢
        rw [this]
        exact inv.dead_pen i w hw hf (by simp [hid, hi])
    · exact ⟨fun k p hk => by
        have := P3.rc k p (by simpa [setX] using hk)
        simpa [holders, setX] using this, fun k hk => by
        have := P3.ex k (by simpa [setX] using hk)
        simpa [holders, setX] using this, fun k p hk hf => P3.pos k p (by simpa [setX] using hk) hf⟩
    · intro _ h
      exact absurd (by simpa [setX, ht2] using h) hnoroot
    · intro hf _
      simp only [dropped_freed, decide_eq_false_iff_not] at hf
      simp only [dropped_refcount, dropped_appRefs]
      constructor <;> omega
    · intro hf
      refine ⟨fun h => hnoroot (by simpa [setX, ht2] using h), ?_⟩
      simp only [dropped_freed, decide_eq_true_eq] at hf
      simp only [dropped_appRefs]
      constructor <;> omega
  · simp only [hd0, if_false, pure_ok]
    rcases base with b | b
    · exact ⟨_, rfl, b, by simp [ht2], happ⟩
    · exact absurd b hd0

end Tickit.Life

namespace Tickit.Life
open WinTree (Id Win Req Change Tree)
variable {gh : Ghost}

/-! ## `tickit_window_unref` on the whole state -/

theorem release_all : ∀ (dead : List Nat) {st : St}, SInvB gh st dead →
    ∃ st', dead.foldlM releaseWin st = .ok st' ∧ SInvB gh st' [] ∧ st'.tree = st.tree ∧
      ∀ (j : Nat), (getX st' j).appRefs = (getX st j).appRefs
  | [], st, inv => ⟨st, rfl, inv, rfl, fun _ => rfl⟩
  | d :: rest, st, inv => by
    obtain ⟨st1, h1, inv1, ht1, ha1⟩ := releaseWin_ok inv
    obtain ⟨st2, h2, inv2, ht2, ha2⟩ := release_all rest inv1
    refine ⟨st2, ?_, inv2, ht2.trans ht1, fun j => (ha2 j).trans (ha1 j)⟩
    rw [List.foldlM_cons, h1]
    exact h2

/-- The flags of the source tree the theorems need. -/
structure Repaired (cfg : Cfg) : Prop where
  closePurges : cfg.closePurges = true
  dragForgottenOnClose : cfg.dragForgottenOnClose = true
  destroyClosesChildren : cfg.destroyClosesChildren = true
  spanExactFit : cfg.spanExactFit = true
  penCopyKeepsSrc : cfg.penCopyKeepsSrc = true
  snapshotRouting : cfg.snapshotRouting = true
  mouseKeepsRoot : cfg.mouseKeepsRoot = true

theorem live_or_freed_root {t t' : Tree} (ev : TEv t t') (dead : List Nat) (hd : DeadOk t t' dead) :
    ((∃ r, LiveW t' 0 r) ∨ 0 ∈ dead) ↔ (∃ r, LiveW t 0 r) := by
  constructor
  · rintro (⟨r', hl'⟩ | h)
    · cases h0 : t.wins[0]? with
      | none =>
        have hlt : ¬ 0 < t.wins.size := by
          intro hlt
          have := Array.getElem?_eq_getElem (xs := t.wins) hlt
          rw [h0] at this; cases this
        have := hl'.lt
        rw [ev.1] at this
        omega
      | some r =>
        obtain ⟨r'', hr'', e⟩ := ev.2 0 r h0
        rw [hl'.1] at hr''; cases hr''
        refine ⟨r, h0, ?_⟩
        cases hf : r.freed with
        | false => rfl
        | true => have := e.1 hf; rw [hl'.2] at this; cases this
    · exact ((hd.2 0).1 h).1
  · rintro ⟨r, hl⟩
    obtain ⟨r', hr', _⟩ := ev.2 0 r hl.1
    cases hf : r'.freed with
    | false => exact .inl ⟨r', hr', hf⟩
    | true => exact .inr ((hd.2 0).2 ⟨⟨r, hl⟩, r', hr', hf⟩)

/-- The tree part of `tickit_window_unref` of a live window: it never fails; what it leaves behind. -/
theorem unrefT_ok {cfg : Cfg} (R : Repaired cfg) {st : St} (inv : SInvB gh st []) {x : Nat} {xw : Win}
    (hl : LiveW st.tree x xw) :
    ∃ t' dead dropped, unrefT cfg st.tree x = .ok (t', dead, dropped) ∧ SInvB gh { st with tree := t' } dead ∧
      t'.wins.size = st.tree.wins.size ∧
      (∀ (i : Nat) (w : Win), st.tree.wins[i]? = some w → w.freed = true → ∃ w', t'.wins[i]? = some w' ∧ w'.freed = true) ∧
      (dropped.Nodup ∧ ∀ i ∈ dropped, x < i) ∧
      (∀ (i : Nat) (w' : Win), LiveW t' i w' → ∃ w, LiveW st.tree i w ∧
        w'.refcount + (if i = x then 1 else 0) + (if i ∈ dropped then 1 else 0) ≤ w.refcount) ∧
      (∀ (i : Nat) (w w' : Win), LiveW st.tree i w → LiveW t' i w' →
        w.refcount ≤ w'.refcount + (if i = x then 1 else 0) + (if i ∈ dropped then 1 else 0)) ∧
      (∀ (w : Win), LiveW st.tree 0 w → (x ≠ 0 ∨ 2 ≤ w.refcount) → ∃ w', LiveW t' 0 w') ∧
      -- where the cascade reaches: below `x`; what is not listed dead lives on; links are only removed; and a cascade
      -- there is only if that was the last reference
      ((∀ (i : Nat), i ∈ dead ∨ i ∈ dropped → Reach st.tree i x) ∧
       (∀ (i : Nat) (w : Win), LiveW st.tree i w → i ∉ dead → ∃ w', LiveW t' i w') ∧
       PSub st.tree t' ∧
       ((dead ≠ [] ∨ dropped ≠ []) → xw.refcount = 1)) := by
  have hr1 := inv.rc x xw hl
  obtain ⟨inv0, _⟩ := inv.tinv.set_refcount hl (xw.refcount - 1)
  have hl0 : LiveW (WinTree.set st.tree x { xw with refcount := xw.refcount - 1 }) x { xw with refcount := xw.refcount - 1 } :=
    ⟨set_get_self _ hl.lt, hl.2⟩
  -- the tree part
  unfold unrefT unrefTWith
  simp only [get_live hl, bind_ok]
  have : ¬ xw.refcount < 1 := by omega
  simp only [this, if_false]
  by_cases hz : xw.refcount - 1 = 0
  · simp only [hz, if_true]
    have hrca : RCabove (WinTree.set st.tree x { xw with refcount := xw.refcount - 1 }) x := by
      intro i w hxi hli
      have hne : x ≠ i := by omega
      exact inv.rc i w ⟨by rw [← set_get_ne _ hne]; exact hli.1, hli.2⟩
    obtain ⟨t', dead, dropped, hd, C⟩ := destroyT_ok R.closePurges R.dragForgottenOnClose R.destroyClosesChildren
      (chainFuel st.tree) _ x _ inv0 hl0 (by simp [chainFuel]) hrca
    rw [show chainFuel st.tree = chainFuel (WinTree.set st.tree x { xw with refcount := xw.refcount - 1 }) by simp] at hd ⊢
    rw [hz] at hd hl0 C
    refine ⟨t', dead, dropped, by simpa using hd, ?_⟩
    -- relate the tree before the decrement to the final one
    have evs : ∀ (i : Nat) (w : Win), st.tree.wins[i]? = some w →
        ∃ w', t'.wins[i]? = some w' ∧ (w.freed = true → w'.freed = true) ∧
          (w'.freed = false → i ≠ x ∧ w.freed = false ∧ 1 ≤ w'.refcount) := by
      intro i w hw
      by_cases hix : i = x
      · subst hix
        obtain ⟨w', hw', hf'⟩ := C.freed
        exact ⟨w', hw', fun _ => hf', fun h => by rw [hf'] at h; cases h⟩
      · obtain ⟨w', hw', e⟩ := C.ev.2 i w (by rw [set_get_ne _ (Ne.symm hix)]; exact hw)
        refine ⟨w', hw', e.1, fun h => ⟨hix, ?_, ?_⟩⟩
        · cases hf : w.freed with
          | false => rfl
          | true => rw [e.1 hf] at h; cases h
        · have hf : w.freed = false := by
            cases hf : w.freed with
            | false => rfl
            | true => rw [e.1 hf] at h; cases h
          exact e.2.1 h (inv.rc i w ⟨hw, hf⟩)
    have hsz : t'.wins.size = st.tree.wins.size := by rw [C.ev.1]; simp
    have hroot : ((∃ r, LiveW t' 0 r) ∨ 0 ∈ dead) ↔ (∃ r, LiveW st.tree 0 r) := by
      rw [live_or_freed_root C.ev dead C.dead]
      constructor
      · rintro ⟨r, hr⟩
        by_cases h0 : (0 : Nat) = x
        · subst h0; exact ⟨xw, hl⟩
        · exact ⟨r, by rw [← set_get_ne _ (Ne.symm h0)]; exact hr.1, hr.2⟩
      · rintro ⟨r, hr⟩
        by_cases h0 : (0 : Nat) = x
        · subst h0; exact ⟨_, hl0⟩
        · exact ⟨r, by rw [set_get_ne _ (Ne.symm h0)]; exact hr.1, hr.2⟩
    have psub0 : PSub st.tree (WinTree.set st.tree x { xw with refcount := 0 }) := by
      intro i w' p hw' hp'
      by_cases hix : x = i
      · subst hix
        rw [set_get_self _ hl.lt] at hw'; cases hw'
        exact ⟨xw, hl.1, hp'⟩
      · rw [set_get_ne _ hix] at hw'; exact ⟨w', hw', hp'⟩
    have hX : (∀ (i : Nat), i ∈ dead ∨ i ∈ dropped → Reach st.tree i x) ∧
        (∀ (i : Nat) (w : Win), LiveW st.tree i w → i ∉ dead → ∃ w', LiveW t' i w') ∧ PSub st.tree t' ∧
        ((dead ≠ [] ∨ dropped ≠ []) → xw.refcount = 1) := by
      refine ⟨fun i hi => psub0.reach (C.reach i hi), ?_, psub0.trans C.psub, fun _ => by omega⟩
      intro i w hlw hnd
      obtain ⟨w', hw', _, _⟩ := evs i w hlw.1
      refine ⟨w', hw', ?_⟩
      cases hf' : w'.freed with
      | false => rfl
      | true =>
        exfalso
        apply hnd
        refine (C.dead.2 i).2 ⟨?_, w', hw', hf'⟩
        by_cases hix : i = x
        · subst hix; exact ⟨_, hl0⟩
        · exact ⟨w, by rw [set_get_ne _ (Ne.symm hix)]; exact hlw.1, hlw.2⟩
    refine ⟨?_, hsz, fun i w hw hf => by obtain ⟨w', hw', h1, _⟩ := evs i w hw; exact ⟨w', hw', h1 hf⟩,
      ⟨C.drop.1, fun i hi => (C.drop.2 i hi).1⟩, ?_, ?_, ?_, hX⟩
    rotate_right 2
    · -- the mirror of the upper bound: only `x` and the dropped children lose a reference, and exactly one
      intro i w w' hlw hlw'
      obtain ⟨w'', hw'', _, h3⟩ := evs i w hlw.1
      have e1 : w'' = w' := by rw [hlw'.1] at hw''; exact (Option.some.inj hw'').symm
      subst e1
      obtain ⟨hix, _, _⟩ := h3 hlw'.2
      have ht0 : (WinTree.set st.tree x { xw with refcount := 0 }).wins[i]? = some w := by
        rw [set_get_ne _ (Ne.symm hix)]; exact hlw.1
      simp only [hix, if_false]
      by_cases hd' : i ∈ dropped
      · have := ((C.drop.2 i hd').2.2 w w'' ht0 hlw'.1 hlw'.2).1
        simp only [hd', if_true]; omega
      · simp only [hd', if_false]
        have := C.conv i w w'' hix ht0 hlw'.1 hlw'.2 hd'
        omega
    · -- the root window is not below `x`: it stays
      intro w hlw hcase
      have hx0 : x ≠ 0 := by
        rcases hcase with h | h
        · exact h
        · intro e; subst e
          have := LiveW.unique hlw hl; subst this
          omega
      have hxpos : 0 < x := Nat.pos_of_ne_zero hx0
      have ht0 : (WinTree.set st.tree x { xw with refcount := 0 }).wins[0]? = some w := by
        rw [set_get_ne _ hx0]; exact hlw.1
      rcases C.below 0 w hxpos ht0 with ⟨_, h⟩ | ⟨_, h⟩
      · exact ⟨w, h, hlw.2⟩
      · exact ⟨_, h, hlw.2⟩
    refine ⟨C.inv, by simp only; rw [hsz]; exact inv.wx_size, ?_, C.dead.1, ?_, ?_, ?_, ?_, ?_, ?_, inv.simple⟩
    · intro i w hli
      cases h0 : st.tree.wins[i]? with
      | none =>
        have hlt : ¬ i < st.tree.wins.size := by
          intro hlt
          have := Array.getElem?_eq_getElem (xs := st.tree.wins) hlt
          rw [h0] at this; cases this
        have := hli.lt
        simp only at this
        omega
      | some w0 =>
        obtain ⟨w', hw', _, h3⟩ := evs i w0 h0
        have : w' = w := by have := hli.1; simp only at this; rw [this] at hw'; exact (Option.some.inj hw').symm
        subst this
        exact (h3 hli.2).2.2
    · intro i hi
      exact ((C.dead.2 i).1 hi).2
    · intro i w hw hf hi
      simp only at hw
      have hnot : ¬ ((∃ w0, LiveW (WinTree.set st.tree x { xw with refcount := 0 }) i w0)) := by
        intro hlive
        exact hi ((C.dead.2 i).2 ⟨hlive, w, hw, hf⟩)
      cases h0 : st.tree.wins[i]? with
      | none =>
        have hlt : ¬ i < st.tree.wins.size := by
          intro hlt
          have := Array.getElem?_eq_getElem (xs := st.tree.wins) hlt
          rw [h0] at this; cases this
        have : t'.wins[i]? = none := Array.getElem?_eq_none (by rw [hsz]; exact Nat.le_of_not_lt hlt)
        rw [hw] at this; cases this
      | some w0 =>
        have hf0 : w0.freed = true := by
          cases hf0 : w0.freed with
          | true => rfl
          | false =>
            exfalso
            apply hnot
            by_cases hix : i = x
            · subst hix; exact ⟨_, hl0⟩
            · exact ⟨w0, by rw [set_get_ne _ (Ne.symm hix)]; exact h0, hf0⟩
        exact inv.dead_pen i w0 h0 hf0 (by simp)
    · exact ⟨inv.pens.rc, inv.pens.ex, inv.pens.pos⟩
    · intro hf h
      exact inv.term_held hf (.inl (hroot.1 h))
    · intro hf h
      exact inv.term_free hf (by
        rintro (h' | h')
        · exact h (hroot.2 h')
        · simp at h')
    · intro hf
      exact ⟨fun h => (inv.term_dead hf).1 (.inl (hroot.1 h)), (inv.term_dead hf).2⟩
    · -- the counts of the survivors
      intro i w' hli
      cases h0 : st.tree.wins[i]? with
      | none =>
        have hlt : ¬ i < st.tree.wins.size := by
          intro hlt
          have := Array.getElem?_eq_getElem (xs := st.tree.wins) hlt
          rw [h0] at this; cases this
        have := hli.lt
        omega
      | some w =>
        obtain ⟨w'', hw'', _, h3⟩ := evs i w h0
        have e1 : w'' = w' := by rw [hli.1] at hw''; exact (Option.some.inj hw'').symm
        subst e1
        obtain ⟨hix, hfw, _⟩ := h3 hli.2
        have ht0 : (WinTree.set st.tree x { xw with refcount := 0 }).wins[i]? = some w := by
          rw [set_get_ne _ (Ne.symm hix)]; exact h0
        obtain ⟨w2, hw2, e⟩ := C.ev.2 i w ht0
        have e2 : w2 = w'' := by rw [hli.1] at hw2; exact (Option.some.inj hw2).symm
        subst e2
        refine ⟨w, ⟨h0, hfw⟩, ?_⟩
        simp only [hix, if_false]
        by_cases hd' : i ∈ dropped
        · have := ((C.drop.2 i hd').2.2 w w2 ht0 hli.1 hli.2).1
          simp only [hd', if_true]; omega
        · simp only [hd', if_false]
          rcases e.2.2.1 hli.2 with h | ⟨h, _, _⟩ <;> omega
  · simp only [hz, if_false, pure_ok]
    have hX : (∀ (i : Nat), i ∈ ([] : List Nat) ∨ i ∈ ([] : List Nat) → Reach st.tree i x) ∧
        (∀ (i : Nat) (w : Win), LiveW st.tree i w → i ∉ ([] : List Nat) →
          ∃ w', LiveW (WinTree.set st.tree x { xw with refcount := xw.refcount - 1 }) i w') ∧
        PSub st.tree (WinTree.set st.tree x { xw with refcount := xw.refcount - 1 }) ∧
        ((([] : List Nat) ≠ [] ∨ ([] : List Nat) ≠ []) → xw.refcount = 1) := by
      refine ⟨fun i hi => (by rcases hi with h | h <;> cases h), ?_, ?_, fun h => (by rcases h with h | h <;> exact absurd rfl h)⟩
      · intro i w hlw _
        by_cases hix : i = x
        · subst hix; exact ⟨_, hl0⟩
        · exact ⟨w, by rw [set_get_ne _ (Ne.symm hix)]; exact hlw.1, hlw.2⟩
      · intro i w' p hw' hp'
        by_cases hix : x = i
        · subst hix
          rw [set_get_self _ hl.lt] at hw'; cases hw'
          exact ⟨xw, hl.1, hp'⟩
        · rw [set_get_ne _ hix] at hw'; exact ⟨w', hw', hp'⟩
    refine ⟨_, [], [], rfl, ?_, by simp only [set_size], ?_, ⟨List.nodup_nil, by intro i hi; cases hi⟩, ?_, ?_, ?_, hX⟩
    rotate_right 2
    · intro i w w' hlw hlw'
      by_cases hix : i = x
      · subst hix
        have := LiveW.unique hlw' hl0; subst this
        have := LiveW.unique hlw hl; subst this
        simp only [if_true, List.not_mem_nil, if_false]
        show w.refcount ≤ w.refcount - 1 + 1 + 0
        omega
      · have : LiveW st.tree i w' := ⟨by rw [← set_get_ne _ (Ne.symm hix)]; exact hlw'.1, hlw'.2⟩
        have := LiveW.unique hlw this; subst this
        simp only [hix, if_false, List.not_mem_nil]; omega
    · intro w hlw _
      by_cases h0x : x = 0
      · subst h0x; exact ⟨_, hl0⟩
      · exact ⟨w, by rw [set_get_ne _ h0x]; exact hlw.1, hlw.2⟩
    rotate_left
    · intro i w hw hf
      by_cases hix : i = x
      · subst hix; rw [hl.1] at hw; cases hw; rw [hl.2] at hf; cases hf
      · exact ⟨w, by rw [set_get_ne _ (Ne.symm hix)]; exact hw, hf⟩
    · intro i w' hli
      by_cases hix : i = x
      · subst hix
        have := LiveW.unique hli hl0; subst this
        refine ⟨xw, hl, ?_⟩
        simp only [if_true, List.not_mem_nil, if_false]
        show xw.refcount - 1 + 1 + 0 ≤ xw.refcount
        omega
      · refine ⟨w', ⟨by rw [← set_get_ne _ (Ne.symm hix)]; exact hli.1, hli.2⟩, ?_⟩
        simp only [hix, if_false, List.not_mem_nil]
        omega
    refine ⟨inv0, by simp only [set_size]; exact inv.wx_size, ?_, List.nodup_nil, by intro i hi; simp at hi, ?_,
      ⟨inv.pens.rc, inv.pens.ex, inv.pens.pos⟩, ?_, ?_, ?_, inv.simple⟩
    · intro i w hli
      by_cases hix : i = x
      · subst hix
        have := LiveW.unique hli hl0; subst this
        show 1 ≤ xw.refcount - 1
        omega
      · exact inv.rc i w ⟨by rw [← set_get_ne _ (Ne.symm hix)]; exact hli.1, hli.2⟩
    · intro i w hw hf hi
      by_cases hix : i = x
      · subst hix
        simp only at hw
        rw [hl0.1] at hw; cases hw
        rw [hl.2] at hf; cases hf
      · exact inv.dead_pen i w (by simp only at hw; rw [← set_get_ne _ (Ne.symm hix)]; exact hw) hf (by simp)
    all_goals
      have hroot : (∃ r, LiveW (WinTree.set st.tree x { xw with refcount := xw.refcount - 1 }) 0 r) ↔ (∃ r, LiveW st.tree 0 r) := by
        constructor
        · rintro ⟨r, hr⟩
          by_cases h0 : (0 : Nat) = x
          · subst h0; exact ⟨xw, hl⟩
          · exact ⟨r, by rw [← set_get_ne _ (Ne.symm h0)]; exact hr.1, hr.2⟩
        · rintro ⟨r, hr⟩
          by_cases h0 : (0 : Nat) = x
          · subst h0; exact ⟨_, hl0⟩
          · exact ⟨r, by rw [set_get_ne _ (Ne.symm h0)]; exact hr.1, hr.2⟩
      intro hf
    · intro h; exact inv.term_held hf (by rcases h with h | h; exact .inl (hroot.1 h); simp at h)
    · intro h; exact inv.term_free hf (by rintro (h' | h'); exact h (.inl (hroot.2 h')); simp at h')
    · exact ⟨fun h => (inv.term_dead hf).1 (by rcases h with h | h; exact .inl (hroot.1 h); simp at h), (inv.term_dead hf).2⟩

theorem heldW_spec {st : St} {i : Nat} (h : heldW st i = true) : ∃ w, LiveW st.tree i w ∧ 0 < (getX st i).appRefs := by
  unfold heldW at h
  cases hw : st.tree.wins[i]? with
  | none => simp [hw] at h
  | some w =>
    simp only [hw, Bool.and_eq_true, Bool.not_eq_true', decide_eq_true_eq] at h
    exact ⟨w, ⟨hw, h.1⟩, h.2⟩

/-- `consume` takes at most one reference of each window, and only of the windows listed. -/
theorem consume_appRefs : ∀ (dropped : List Nat) (st : St) (j : Nat), dropped.Nodup →
    (getX (consume st dropped) j).appRefs ≤ (getX st j).appRefs ∧
    (getX st j).appRefs ≤ (getX (consume st dropped) j).appRefs + (if j ∈ dropped then 1 else 0)
  | [], _, _, _ => ⟨Nat.le_refl _, by simp [consume]⟩
  | i :: rest, st, j, hnd => by
    obtain ⟨hni, hnd'⟩ := List.nodup_cons.1 hnd
    have ih := consume_appRefs rest (setX st i { getX st i with appRefs := (getX st i).appRefs - 1 }) j hnd'
    have e : consume st (i :: rest) = consume (setX st i { getX st i with appRefs := (getX st i).appRefs - 1 }) rest := rfl
    rw [e]
    rw [getX_setX] at ih
    by_cases hij : i = j
    · subst hij
      simp only [hni, if_false, Nat.add_zero, List.mem_cons, true_or, if_true] at ih ⊢
      by_cases hlt : i < st.wx.size
      · simp only [hlt, and_self, if_true] at ih
        omega
      · simp only [hlt, and_false, if_false] at ih
        omega
    · have hji : ¬ j = i := fun h => hij h.symm
      simp only [hij, false_and, if_false] at ih
      simp only [List.mem_cons, hji, false_or]
      exact ih

/-- `consume` takes exactly one reference of a listed window the application holds. -/
theorem consume_dec : ∀ (dropped : List Nat) (st : St) (j : Nat), dropped.Nodup → j ∈ dropped → j < st.wx.size →
    (getX (consume st dropped) j).appRefs = (getX st j).appRefs - 1
  | [], _, _, _, hj, _ => by cases hj
  | i :: rest, st, j, hnd, hj, hlt => by
    obtain ⟨hni, hnd'⟩ := List.nodup_cons.1 hnd
    have e : consume st (i :: rest) = consume (setX st i { getX st i with appRefs := (getX st i).appRefs - 1 }) rest := rfl
    rw [e]
    simp only [List.mem_cons] at hj
    by_cases hij : j = i
    · subst hij
      -- the rest does not touch `j`
      have h1 := consume_appRefs rest (setX st j { getX st j with appRefs := (getX st j).appRefs - 1 }) j hnd'
      simp only [hni, if_false, Nat.add_zero] at h1
      rw [getX_setX_self _ hlt] at h1
      have : (getX (consume (setX st j { getX st j with appRefs := (getX st j).appRefs - 1 }) rest) j).appRefs =
          (getX st j).appRefs - 1 := Nat.le_antisymm h1.1 h1.2
      exact this
    · have hjr : j ∈ rest := by rcases hj with h | h; exact absurd h hij; exact h
      have ih := consume_dec rest (setX st i { getX st i with appRefs := (getX st i).appRefs - 1 }) j hnd' hjr (by simpa using hlt)
      rw [ih, getX_setX_ne _ (fun h => hij h.symm)]

/-- `tickit_window_unref` by the application on a window it holds: never fails, keeps the invariant; the tree keeps
    its size, what was freed stays freed, and the application has one reference less. -/
theorem unrefW_ok {cfg : Cfg} (R : Repaired cfg) {st : St} (inv : SInv gh st) {x : Nat} (hh : heldW st x = true) :
    ∃ st', unrefW cfg (setX st x { getX st x with appRefs := (getX st x).appRefs - 1 }) x = .ok st' ∧ SInv gh st' ∧
      st'.tree.wins.size = st.tree.wins.size ∧
      (∀ (i : Nat) (w : Win), st.tree.wins[i]? = some w → w.freed = true →
        ∃ w', st'.tree.wins[i]? = some w' ∧ w'.freed = true) ∧
      (getX st' x).appRefs + 1 ≤ (getX st x).appRefs ∧ (∀ (j : Nat), (getX st' j).appRefs ≤ (getX st j).appRefs) ∧
      -- the same in detail: who has died (`dead`), whose reference a dying parent has taken (`dropped`)
      (∃ dead dropped : List Nat,
        (∀ (i : Nat) (w' : Win), LiveW st'.tree i w' → ∃ w, LiveW st.tree i w ∧
          w.refcount = w'.refcount + (if i = x then 1 else 0) + (if i ∈ dropped then 1 else 0)) ∧
        (∀ (i : Nat), i < st.wx.size → (getX st' i).appRefs = (getX st i).appRefs - (if i = x then 1 else 0) - (if i ∈ dropped then 1 else 0)) ∧
        (∀ (i : Nat), i ∈ dead ∨ i ∈ dropped → Reach st.tree i x ∧ i ≠ x ∨ i = x ∧ i ∈ dead) ∧
        (∀ (i : Nat) (w : Win), LiveW st.tree i w → i ∉ dead → ∃ w', LiveW st'.tree i w') ∧
        PSub st.tree st'.tree ∧
        ((dead ≠ [] ∨ dropped ≠ []) → ∀ (w : Win), LiveW st.tree x w → w.refcount = 1) ∧
        (∀ i ∈ dropped, x < i) ∧ (∀ i ∈ dead, ∀ (w' : Win), ¬ LiveW st'.tree i w')) := by
  obtain ⟨xw, hl, hpos⟩ := heldW_spec hh
  have hxlt : x < st.wx.size := by rw [inv.wx_size]; exact hl.lt
  have inv0 : SInvB gh (setX st x { getX st x with appRefs := (getX st x).appRefs - 1 }) [] :=
    inv.toSInvB.of_wx rfl rfl rfl rfl rfl (setX_map_pen _ rfl)
  obtain ⟨t', dead, dropped, ht, invG, hsz, hfr, ⟨hnd, hdgt⟩, hcnt, hlow, hrootl, hXt⟩ := unrefT_ok R inv0 (x := x) (xw := xw) hl
  have hf := consume_frame dropped { (setX st x { getX st x with appRefs := (getX st x).appRefs - 1 }) with tree := t' }
  have invC : SInvB gh (consume { (setX st x { getX st x with appRefs := (getX st x).appRefs - 1 }) with tree := t' } dropped) dead :=
    invG.of_wx hf.1 hf.2.1 hf.2.2.1 hf.2.2.2.1 hf.2.2.2.2.1 (consume_map_pen dropped _)
  obtain ⟨st2, hfold, inv2, ht2, ha2⟩ := release_all dead invC
  have htree : st2.tree = t' := by rw [ht2, hf.1]
  -- the application's tally, window by window
  have happ : ∀ (j : Nat), (getX st2 j).appRefs ≤ (getX st j).appRefs - (if x = j then 1 else 0) ∧
      (getX st j).appRefs ≤ (getX st2 j).appRefs + (if x = j then 1 else 0) + (if j ∈ dropped then 1 else 0) := by
    intro j
    have hc := consume_appRefs dropped { (setX st x { getX st x with appRefs := (getX st x).appRefs - 1 }) with tree := t' } j hnd
    have e0 : getX { (setX st x { getX st x with appRefs := (getX st x).appRefs - 1 }) with tree := t' } j =
        getX (setX st x { getX st x with appRefs := (getX st x).appRefs - 1 }) j := rfl
    rw [e0, getX_setX] at hc
    rw [ha2 j]
    by_cases hxj : x = j
    · subst hxj
      simp only [hxlt, and_self, if_true] at hc ⊢
      omega
    · simp only [hxj, false_and, if_false] at hc ⊢
      omega
  have hgl : 0 < gh.win 0 → ∃ r, LiveW st2.tree 0 r := by
    -- a root window the library holds survives the application's unref
    intro hg
    rw [htree]
    obtain ⟨r, hr⟩ := inv.glive hg
    refine hrootl r hr ?_
    by_cases hx0 : x = 0
    · right
      subst hx0
      have := LiveW.unique hr hl; subst this
      have h2 := (inv.wref 0 r hr).2 (.inl rfl)
      have : (1 : Int) ≤ ((getX st 0).appRefs : Int) := by exact_mod_cast hpos
      have : (1 : Int) ≤ (gh.win 0 : Int) := by exact_mod_cast hg
      omega
    · exact .inl hx0
  refine ⟨st2, ?_, ⟨inv2, ?_, hgl⟩, by rw [htree]; exact hsz, ?_, ?_⟩
  · unfold unrefW
    simp only [setX_tree] at ht
    simp only [setX_tree, ht, bind_ok]
    exact hfold
  · intro i w' hli
    rw [htree] at hli
    obtain ⟨w, hlw, hle⟩ := hcnt i w' hli
    have h1 := (inv.wref i w hlw).1
    have h2 := happ i
    refine ⟨?_, ?_⟩
    · by_cases hxi : x = i
      · subst hxi
        simp only [if_true] at hle h2
        by_cases hd' : x ∈ dropped <;> simp only [hd', if_true, if_false] at hle h2 <;> omega
      · have hix : ¬ i = x := fun h => hxi h.symm
        simp only [hxi, hix, if_false] at hle h2
        by_cases hd' : i ∈ dropped <;> simp only [hd', if_true, if_false] at hle h2 <;> omega
    · intro hcov
      have h3 := (inv.wref i w hlw).2 hcov
      have h4 := hlow i w w' hlw hli
      by_cases hxi : x = i
      · subst hxi
        have hxd : x ∉ dropped := fun hd' => by have := hdgt x hd'; omega
        simp only [if_true, hxd, if_false] at h4 h2
        omega
      · have hix : ¬ i = x := fun h => hxi h.symm
        simp only [hix, if_false] at h4
        by_cases hd' : i ∈ dropped
        · simp only [hd', if_true] at h4
          have hilt : i < st.wx.size := by rw [inv.wx_size]; exact hlw.lt
          have hdec := consume_dec dropped { (setX st x { getX st x with appRefs := (getX st x).appRefs - 1 }) with tree := t' } i hnd hd'
            (by simpa using hilt)
          have e0 : getX { (setX st x { getX st x with appRefs := (getX st x).appRefs - 1 }) with tree := t' } i =
              getX (setX st x { getX st x with appRefs := (getX st x).appRefs - 1 }) i := rfl
          rw [e0, getX_setX_ne _ hxi] at hdec
          rw [ha2 i, hdec]
          have h5 := inv.rc i w hlw
          have hrc' : 1 ≤ w'.refcount := by
            have := inv2.rc i w' (by rw [htree]; exact hli)
            exact this
          -- the child had two references at least, so the application held one
          rcases hcov with h0 | hg
          · subst h0
            have := hdgt 0 hd'
            omega
          · rw [hg] at h3 ⊢
            have : (1 : Int) ≤ ((getX st i).appRefs : Int) := by omega
            omega
        · simp only [hd', if_false] at h4
          have := (happ i).1
          simp only [hxi, if_false] at this
          have h7 : ((getX st2 i).appRefs : Int) ≤ ((getX st i).appRefs : Int) := by exact_mod_cast this
          omega
  · intro i w hw hfw
    rw [htree]
    exact hfr i w hw hfw
  · refine ⟨?_, fun j => ?_, dead, dropped, ?_, ?_, ?_, ?_, ?_, ?_, hdgt, ?_⟩
    rotate_right
    · intro i hi w' hlw'
      rw [htree] at hlw'
      obtain ⟨w, hw, hf⟩ := invG.pend_freed i hi
      have hw2 : t'.wins[i]? = some w := hw
      rw [hlw'.1] at hw2; cases hw2
      rw [hlw'.2] at hf; cases hf
    · have := (happ x).1
      simp only [if_true] at this
      omega
    · have := (happ j).1
      omega
    · intro i w' hli
      rw [htree] at hli
      obtain ⟨w, hlw, hle⟩ := hcnt i w' hli
      have := hlow i w w' hlw hli
      exact ⟨w, hlw, by omega⟩
    · intro i hilt
      rw [ha2 i]
      have e0 : getX { (setX st x { getX st x with appRefs := (getX st x).appRefs - 1 }) with tree := t' } i =
          getX (setX st x { getX st x with appRefs := (getX st x).appRefs - 1 }) i := rfl
      by_cases hd' : i ∈ dropped
      · have hdec := consume_dec dropped { (setX st x { getX st x with appRefs := (getX st x).appRefs - 1 }) with tree := t' } i hnd hd'
          (by simpa using hilt)
        rw [hdec, e0, getX_setX]
        have hxi : ¬ x = i := fun e => by have := hdgt i hd'; omega
        have hix : ¬ i = x := fun e => hxi e.symm
        simp only [hxi, false_and, if_false, hix, hd', if_true]
        omega
      · have hc := consume_appRefs dropped { (setX st x { getX st x with appRefs := (getX st x).appRefs - 1 }) with tree := t' } i hnd
        simp only [hd', if_false, Nat.add_zero] at hc
        have : (getX (consume { (setX st x { getX st x with appRefs := (getX st x).appRefs - 1 }) with tree := t' } dropped) i).appRefs =
            (getX { (setX st x { getX st x with appRefs := (getX st x).appRefs - 1 }) with tree := t' } i).appRefs :=
          Nat.le_antisymm hc.1 hc.2
        rw [this, e0, getX_setX]
        by_cases hxi : x = i
        · subst hxi
          simp only [hxlt, and_self, if_true, hd', if_false]
          omega
        · have hix : ¬ i = x := fun e => hxi e.symm
          simp only [hxi, false_and, if_false, hix, hd']
          omega
    · intro i hi
      by_cases hix : i = x
      · right
        refine ⟨hix, ?_⟩
        rcases hi with h | h
        · exact h
        · exfalso; have := hdgt i h; omega
      · exact .inl ⟨hXt.1 i hi, hix⟩
    · intro i w hlw hnd'
      rw [htree]
      exact hXt.2.1 i w hlw hnd'
    · rw [htree]; exact hXt.2.2.1
    · intro hne w hlw
      have := LiveW.unique hlw hl; subst this
      exact hXt.2.2.2 hne

end Tickit.Life
