import Tickit.Proof.LifeOps
import Tickit.Proof.LifeCopy
/-
  C08 proofs, part 6: one step of the application (`Life.step`) for every operation that runs no event handler.
-/
namespace Tickit.Life
open WinTree (Id Win Req Change Tree)
variable {gh : Ghost}

/-! ## changes of a window's record that keep its pen -/

theorem SInv.setX_same {st : St} (inv : SInv gh st) (i : Nat) (x : WinX) (hp : x.pen = (getX st i).pen)
    (ha : x.appRefs = (getX st i).appRefs) : SInv gh (setX st i x) := by
  refine ⟨inv.toSInvB.of_wx rfl rfl rfl rfl rfl (setX_map_pen x hp), ?_, inv.glive⟩
  intro j w hl
  rw [getX_setX]
  split
  · rename_i h; rw [ha, h.1]; exact inv.wref j w hl
  · exact inv.wref j w hl

/-! ## pens -/

theorem pens_size_lt {st : St} {k : Nat} {p : Obj} (h : st.pens[k]? = some p) : k < st.pens.size := by
  by_cases hlt : k < st.pens.size
  · exact hlt
  · have := Array.getElem?_eq_none (xs := st.pens) (Nat.le_of_not_lt hlt)
    rw [h] at this; cases this

/-- A change of one pen object that keeps `refcount - appRefs` and liveness consistent. -/
theorem SInv.set_pen {st : St} (inv : SInv gh st) {k : Nat} {p p' : Obj} (hk : st.pens[k]? = some p)
    (h1 : p'.freed = false → p.freed = false ∧ p'.refcount - (p'.appRefs : Int) = p.refcount - (p.appRefs : Int))
    (h2 : p'.freed = true → holders st k = 0) (h3 : p'.freed = false → 1 ≤ p'.refcount) :
    SInv gh { st with pens := st.pens.setIfInBounds k p' } := by
  have hlt := pens_size_lt hk
  have hh : ∀ (j : Nat), holders { st with pens := st.pens.setIfInBounds k p' } j = holders st j := fun j => holders_congr rfl j
  refine ⟨⟨inv.tinv, inv.wx_size, inv.rc, List.nodup_nil, by intro i hi; simp at hi, inv.dead_pen, ⟨?_, ?_, ?_⟩,
    inv.term_held, inv.term_free, inv.term_dead, inv.simple⟩, inv.wref, inv.glive⟩
  rotate_left 2
  · intro j q hq hfq
    simp only [Array.getElem?_setIfInBounds] at hq
    by_cases hkj : k = j
    · subst hkj
      simp only [if_true, hlt, Option.some.injEq] at hq
      subst hq
      exact h3 hfq
    · simp only [hkj, if_false] at hq
      exact inv.pens.pos j q hq hfq
  · intro j q hq
    rw [hh]
    simp only [Array.getElem?_setIfInBounds] at hq
    by_cases hkj : k = j
    · subst hkj
      simp only [if_true, hlt, Option.some.injEq] at hq
      subst hq
      refine ⟨fun hf => ?_, h2⟩
      obtain ⟨hpf, he⟩ := h1 hf
      have := (inv.pens.rc k p hk).1 hpf
      omega
    · simp only [hkj, if_false] at hq
      exact inv.pens.rc j q hq
  · intro j hj
    rw [hh]
    simp only [Array.getElem?_setIfInBounds] at hj
    by_cases hkj : k = j
    · subst hkj; simp [hlt] at hj
    · simp only [hkj, if_false] at hj
      exact inv.pens.ex j hj

theorem heldP_spec {st : St} {k : Nat} (h : heldP st k = true) : ∃ p, st.pens[k]? = some p ∧ p.freed = false ∧ 0 < p.appRefs := by
  unfold heldP at h
  cases hp : st.pens[k]? with
  | none => simp [hp] at h
  | some p =>
    simp only [hp, Bool.and_eq_true, Bool.not_eq_true', decide_eq_true_eq] at h
    exact ⟨p, rfl, h.1, h.2⟩

/-- `tickit_pen_ref` by the application. -/
theorem pref_ok {st : St} (inv : SInv gh st) {k : Nat} (h : heldP st k = true) :
    ∃ st', penRef { st with pens := st.pens.setIfInBounds k { (st.pens[k]?.getD {}) with appRefs := (st.pens[k]?.getD {}).appRefs + 1 } } k = .ok st' ∧
      SInv gh st' := by
  obtain ⟨p, hp, hf, _⟩ := heldP_spec h
  have hlt := pens_size_lt hp
  unfold penRef
  simp only [hp, Option.getD_some, Array.getElem?_setIfInBounds, if_true, hlt, hf, Bool.false_eq_true, if_false, pure_ok]
  refine ⟨_, rfl, ?_⟩
  rw [Array.setIfInBounds_setIfInBounds]
  exact inv.set_pen (p' := { refcount := p.refcount + 1, appRefs := p.appRefs + 1 }) hp
    (fun _ => ⟨hf, by show p.refcount + 1 - ((p.appRefs + 1 : Nat) : Int) = _; omega⟩) (fun h' => by cases h')
    (fun _ => by have := inv.pens.pos k p hp hf; show 1 ≤ p.refcount + 1; omega)

/-- `tickit_pen_unref` by the application. -/
theorem punref_ok {st : St} (inv : SInv gh st) {k : Nat} (h : heldP st k = true) :
    ∃ st' p p', penUnref { st with pens := st.pens.setIfInBounds k { (st.pens[k]?.getD {}) with appRefs := (st.pens[k]?.getD {}).appRefs - 1 } } k = .ok st' ∧
      SInv gh st' ∧ st.pens[k]? = some p ∧ st' = { st with pens := st.pens.setIfInBounds k p' } ∧ p'.appRefs + 1 = p.appRefs := by
  obtain ⟨p, hp, hf, hpos⟩ := heldP_spec h
  have hlt := pens_size_lt hp
  have hrc := (inv.pens.rc k p hp).1 hf
  unfold penUnref
  simp only [hp, Option.getD_some, Array.getElem?_setIfInBounds, if_true, hlt, hf, Bool.false_eq_true, if_false]
  have hge : ¬ p.refcount < 1 := by omega
  simp only [hge, if_false, pure_ok]
  refine ⟨_, p, ({ refcount := p.refcount, appRefs := p.appRefs - 1 } : Obj).dropped, rfl, ?_, rfl,
    by rw [Array.setIfInBounds_setIfInBounds], by simp only [dropped_appRefs]; omega⟩
  rw [Array.setIfInBounds_setIfInBounds]
  exact inv.set_pen (p' := ({ refcount := p.refcount, appRefs := p.appRefs - 1 } : Obj).dropped) hp
    (fun _ => ⟨hf, by simp only [dropped_refcount, dropped_appRefs]; omega⟩)
    (fun h' => by
      simp only [dropped_freed, decide_eq_true_eq] at h'
      have : (holders st k : Int) = 0 := by omega
      omega)
    (fun h' => by
      simp only [dropped_freed, decide_eq_false_iff_not] at h'
      simp only [dropped_refcount]
      omega)

/-- `tickit_pen_new`. -/
theorem pen_new_ok {st : St} (inv : SInv gh st) : SInv gh { st with pens := st.pens.push {} } := by
  have hh : ∀ (j : Nat), holders { st with pens := st.pens.push {} } j = holders st j := fun j => holders_congr rfl j
  refine ⟨⟨inv.tinv, inv.wx_size, inv.rc, List.nodup_nil, by intro i hi; simp at hi, inv.dead_pen, ⟨?_, ?_, ?_⟩,
    inv.term_held, inv.term_free, inv.term_dead, inv.simple⟩, inv.wref, inv.glive⟩
  rotate_left 2
  · intro j q hq hfq
    simp only [Array.getElem?_push] at hq
    by_cases hj : j = st.pens.size
    · subst hj
      simp only [if_true, Option.some.injEq] at hq
      subst hq
      show (1 : Int) ≤ 1
      omega
    · simp only [hj, if_false] at hq
      exact inv.pens.pos j q hq hfq
  · intro j q hq
    rw [hh]
    simp only [Array.getElem?_push] at hq
    by_cases hj : j = st.pens.size
    · subst hj
      simp only [if_true, Option.some.injEq] at hq
      subst hq
      have h0 := inv.pens.ex st.pens.size (Array.getElem?_eq_none (Nat.le_refl _))
      refine ⟨fun _ => ?_, fun h' => by cases h'⟩
      show (1 : Int) = ((1 : Nat) : Int) + _
      rw [h0]; simp
    · simp only [hj, if_false] at hq
      exact inv.pens.rc j q hq
  · intro j hj
    rw [hh]
    simp only [Array.getElem?_push] at hj
    by_cases hjs : j = st.pens.size
    · subst hjs; simp at hj
    · simp only [hjs, if_false] at hj
      exact inv.pens.ex j hj

end Tickit.Life

namespace Tickit.Life
open WinTree (Id Win Req Change Tree)
variable {gh : Ghost}

/-- `tickit_pen_unref` on a live pen with a positive count: what changes. -/
theorem penUnref_spec {st : St} {k : Nat} {p : Obj} (hp : st.pens[k]? = some p) (hf : p.freed = false) (hr : 1 ≤ p.refcount) :
    ∃ st1, penUnref st k = .ok st1 ∧ st1.tree = st.tree ∧ st1.wx = st.wx ∧ st1.term = st.term ∧ st1.rbs = st.rbs ∧
      st1.strs = st.strs ∧ st1.pens[k]? = some p.dropped ∧ ∀ (j : Nat), j ≠ k → st1.pens[j]? = st.pens[j]? := by
  unfold penUnref
  simp only [hp, hf, Bool.false_eq_true, if_false]
  have hge : ¬ p.refcount < 1 := by omega
  simp only [hge, if_false, pure_ok]
  refine ⟨_, rfl, rfl, rfl, rfl, rfl, rfl, ?_, ?_⟩
  · simp [pens_size_lt hp]
  · intro j hj
    simp only [Array.getElem?_setIfInBounds]
    have : ¬ k = j := fun h => hj h.symm
    simp [this]

/-- `tickit_pen_ref` on a live pen: what changes. -/
theorem penRef_spec {st : St} {k : Nat} {p : Obj} (hp : st.pens[k]? = some p) (hf : p.freed = false) :
    ∃ st1 p1, penRef st k = .ok st1 ∧ st1.tree = st.tree ∧ st1.wx = st.wx ∧ st1.term = st.term ∧ st1.rbs = st.rbs ∧
      st1.strs = st.strs ∧ st1.pens[k]? = some p1 ∧ p1.freed = false ∧ p1.appRefs = p.appRefs ∧ p1.refcount = p.refcount + 1 ∧
      ∀ (j : Nat), j ≠ k → st1.pens[j]? = st.pens[j]? := by
  unfold penRef
  simp only [hp, hf, Bool.false_eq_true, if_false, pure_ok]
  refine ⟨_, { p with refcount := p.refcount + 1 }, rfl, rfl, rfl, rfl, rfl, rfl, ?_, hf, rfl, rfl, ?_⟩
  · simp [pens_size_lt hp, hf]
  · intro j hj
    simp only [Array.getElem?_setIfInBounds]
    have : ¬ k = j := fun h => hj h.symm
    simp [this]

/-- Dropping a window's pen does not free a pen the application still holds. -/
theorem dropWinPen_keeps_held {st : St} (P : PensOk st) {i : Nat} (hi : i < st.wx.size) {st1 : St}
    (hd : dropWinPen st i = .ok st1) {k : Nat} {p : Obj} (hp : st.pens[k]? = some p) (hf : p.freed = false)
    (hpos : 0 < p.appRefs) : ∃ p1, st1.pens[k]? = some p1 ∧ p1.freed = false := by
  unfold dropWinPen at hd
  cases hpen : (getX st i).pen with
  | null => simp only [hpen, pure_ok, Out.ok.injEq] at hd; subst hd; exact ⟨p, hp, hf⟩
  | own => simp only [hpen, pure_ok, Out.ok.injEq] at hd; subst hd; exact ⟨p, hp, hf⟩
  | app k0 =>
    simp only [hpen] at hd
    have hpos0 := holders_pos hi hpen
    cases hpk : st.pens[k0]? with
    | none => have := P.ex k0 hpk; omega
    | some p0 =>
      obtain ⟨hlive, hdead⟩ := P.rc k0 p0 hpk
      have hf0 : p0.freed = false := by
        cases hf0 : p0.freed with
        | false => rfl
        | true => have := hdead hf0; omega
      have hrc := hlive hf0
      obtain ⟨st1', hu, _, _, _, _, _, hk0, hother⟩ := penUnref_spec hpk hf0 (by omega)
      rw [hu] at hd
      simp only [Out.ok.injEq] at hd
      subst hd
      by_cases hkk : k = k0
      · subst hkk
        have : p = p0 := by rw [hpk] at hp; exact (Option.some.inj hp).symm
        subst this
        refine ⟨_, hk0, ?_⟩
        simp only [dropped_freed, decide_eq_false_iff_not]
        omega
      · exact ⟨p, by rw [hother k hkk]; exact hp, hf⟩

/-- `win->pen = tickit_pen_ref(pen)` for a window that holds no pen. -/
theorem assignPen_ok {st : St} (inv : SInv gh st) {win : Nat} {ww : Win} (hw : LiveW st.tree win ww)
    (hnull : (getX st win).pen = .null) {k : Nat} {p : Obj} (hp : st.pens[k]? = some p) (hf : p.freed = false) :
    ∃ st', assignPen st win k = .ok st' ∧ SInv gh st' := by
  have hwin : win < st.wx.size := by rw [inv.wx_size]; exact hw.lt
  obtain ⟨st1, p1, href, ht1, hwx1, htm1, hrb1, hstr1, hk1, hf1, ha1, hr1, hother⟩ := penRef_spec hp hf
  unfold assignPen
  simp only [href, bind_ok, pure_ok]
  refine ⟨_, rfl, ?_⟩
  have hwin1 : win < st1.wx.size := by rw [hwx1]; exact hwin
  have hgx1 : getX st1 win = getX st win := by unfold getX; rw [hwx1]
  have hh : ∀ (j : Nat), holders (setX st1 win { getX st1 win with pen := .app k }) j = holders st j + (if k = j then 1 else 0) := by
    intro j
    have := holders_setX (st := st1) { getX st1 win with pen := .app k } hwin1 j
    rw [hgx1, hnull] at this
    have e : (PenRef.null = PenRef.app j) = False := by simp
    have e2 : (PenRef.app k = PenRef.app j) = (k = j) := by simp
    simp only [e, if_false, Nat.add_zero, e2] at this
    rw [← hgx1] at this
    rw [this, holders_congr hwx1]
  have hgx : ∀ (j : Nat), j ≠ win → getX (setX st1 win { getX st1 win with pen := .app k }) j = getX st j := by
    intro j hj
    rw [getX_setX_ne _ (Ne.symm hj)]
    unfold getX; rw [hwx1]
  have happ : ∀ (j : Nat), (getX (setX st1 win { getX st1 win with pen := .app k }) j).appRefs = (getX st j).appRefs := by
    intro j
    by_cases hj : j = win
    · subst hj; rw [getX_setX_self _ hwin1]; show (getX st1 j).appRefs = _; rw [hgx1]
    · rw [hgx j hj]
  refine ⟨⟨by simp only [setX_tree, ht1]; exact inv.tinv, by simp only [setX_size, setX_tree, ht1, hwx1]; exact inv.wx_size,
    by simp only [setX_tree, ht1]; exact inv.rc, List.nodup_nil, by intro i hi; simp at hi, ?_, ⟨?_, ?_, ?_⟩,
    by simp only [setX_term, setX_tree, htm1, ht1]; exact inv.term_held,
    by simp only [setX_term, setX_tree, htm1, ht1]; exact inv.term_free,
    by simp only [setX_term, setX_tree, htm1, ht1]; exact inv.term_dead,
    ⟨by simp only [setX, hrb1]; exact inv.simple.1, by simp only [setX, hstr1]; exact inv.simple.2⟩⟩, ?_,
    by simp only [setX_tree, ht1]; exact inv.glive⟩
  rotate_right
  · intro i w hl
    rw [happ i]
    simp only [setX_tree, ht1] at hl
    exact inv.wref i w hl
  · intro i w hwi hfi _
    simp only [setX_tree, ht1] at hwi
    have hiw : i ≠ win := by
      intro h; subst h
      rw [hw.1] at hwi; cases hwi
      rw [hw.2] at hfi; cases hfi
    rw [hgx i hiw]
    exact inv.dead_pen i w hwi hfi (by simp)
  · intro j q hq
    rw [hh]
    simp only [setX_pens] at hq
    by_cases hkj : k = j
    · subst hkj
      rw [hk1] at hq; cases hq
      have := (inv.pens.rc k p hp).1 hf
      refine ⟨fun _ => ?_, fun h' => by rw [hf1] at h'; cases h'⟩
      simp only [if_true]
      rw [hr1, ha1]; omega
    · rw [hother j (Ne.symm hkj)] at hq
      simp only [hkj, if_false, Nat.add_zero]
      exact inv.pens.rc j q hq
  · intro j hj
    rw [hh]
    simp only [setX_pens] at hj
    by_cases hkj : k = j
    · subst hkj; rw [hk1] at hj; cases hj
    · rw [hother j (Ne.symm hkj)] at hj
      simp only [hkj, if_false, Nat.add_zero]
      exact inv.pens.ex j hj
  · intro j q hq hfq
    simp only [setX_pens] at hq
    by_cases hkj : k = j
    · subst hkj
      rw [hk1] at hq; cases hq
      have := inv.pens.pos k p hp hf
      rw [hr1]; omega
    · rw [hother j (Ne.symm hkj)] at hq
      exact inv.pens.pos j q hq hfq

/-- `tickit_window_set_pen`. -/
theorem setPen_ok {st : St} (inv : SInv gh st) {win : Nat} {ww : Win} (hw : LiveW st.tree win ww) (pen : Option Nat)
    (hpen : ∀ (k : Nat), pen = some k → heldP st k = true) :
    ∃ st', setPen st win pen = .ok st' ∧ SInv gh st' := by
  have hwin : win < st.wx.size := by rw [inv.wx_size]; exact hw.lt
  unfold setPen
  simp only [getW, get_live hw, bind_ok]
  obtain ⟨st1, hdrop, ht1, hwx1, htm1, hrb1, hstr1, P2⟩ := release_pen inv.pens hwin
  simp only [hdrop, bind_ok]
  have hwin1 : win < st1.wx.size := by rw [hwx1]; exact hwin
  have hgx : ∀ (j : Nat), j ≠ win → getX (setX st1 win { getX st1 win with pen := .null }) j = getX st j := by
    intro j hj
    rw [getX_setX_ne _ (Ne.symm hj)]
    unfold getX; rw [hwx1]
  have inv2 : SInv gh (setX st1 win { getX st1 win with pen := .null }) := by
    have happ : ∀ (j : Nat), (getX (setX st1 win { getX st1 win with pen := .null }) j).appRefs = (getX st j).appRefs := by
      intro j
      by_cases hj : j = win
      · subst hj
        rw [getX_setX_self _ hwin1]
        show (getX st1 j).appRefs = _
        have : getX st1 j = getX st j := by unfold getX; rw [hwx1]
        rw [this]
      · rw [hgx j hj]
    refine ⟨⟨by simp only [setX_tree, ht1]; exact inv.tinv, by simp only [setX_size, setX_tree, ht1, hwx1]; exact inv.wx_size,
      by simp only [setX_tree, ht1]; exact inv.rc, List.nodup_nil, by intro i hi; simp at hi, ?_, P2,
      by simp only [setX_term, setX_tree, htm1, ht1]; exact inv.term_held,
      by simp only [setX_term, setX_tree, htm1, ht1]; exact inv.term_free,
      by simp only [setX_term, setX_tree, htm1, ht1]; exact inv.term_dead,
      ⟨by simp only [setX, hrb1]; exact inv.simple.1, by simp only [setX, hstr1]; exact inv.simple.2⟩⟩, ?_,
      by simp only [setX_tree, ht1]; exact inv.glive⟩
    rotate_right
    · intro i w hl
      rw [happ i]
      simp only [setX_tree, ht1] at hl
      exact inv.wref i w hl
    intro i w hwi hfi _
    simp only [setX_tree, ht1] at hwi
    have hiw : i ≠ win := by
      intro h; subst h
      rw [hw.1] at hwi; cases hwi
      rw [hw.2] at hfi; cases hfi
    rw [hgx i hiw]
    exact inv.dead_pen i w hwi hfi (by simp)
  cases pen with
  | none => exact ⟨_, rfl, inv2⟩
  | some k =>
    obtain ⟨p, hp, hf, hpos⟩ := heldP_spec (hpen k rfl)
    obtain ⟨p1, hp1, hf1⟩ := dropWinPen_keeps_held inv.pens hwin hdrop hp hf hpos
    have hw2 : LiveW (setX st1 win { getX st1 win with pen := .null }).tree win ww := by simp only [setX_tree, ht1]; exact hw
    exact assignPen_ok inv2 hw2 (by rw [getX_setX_self _ hwin1]) (by simpa using hp1) hf1

end Tickit.Life

namespace Tickit.Life
open WinTree (Id Win Req Change Tree)
variable {gh : Ghost}

/-! ## the terminal -/

theorem heldT_spec {st : St} (h : heldT st = true) : st.term.freed = false ∧ 0 < st.term.appRefs := by
  unfold heldT at h
  simp only [Bool.and_eq_true, Bool.not_eq_true', decide_eq_true_eq] at h
  exact h

/-- A change of the terminal object. -/
theorem SInv.set_term {st : St} (inv : SInv gh st) (tm : Obj)
    (h1 : tm.freed = false → (∃ r, LiveW st.tree 0 r) → tm.refcount = (tm.appRefs : Int) + (gh.term : Int) + 1)
    (h2 : tm.freed = false → (¬ ∃ r, LiveW st.tree 0 r) → tm.refcount = (tm.appRefs : Int) + (gh.term : Int) ∧ 1 ≤ tm.refcount)
    (h3 : tm.freed = true → (¬ ∃ r, LiveW st.tree 0 r) ∧ tm.appRefs = 0 ∧ gh.term = 0) : SInv gh { st with term := tm } := by
  refine ⟨⟨inv.tinv, inv.wx_size, inv.rc, List.nodup_nil, by intro i hi; simp at hi, inv.dead_pen,
    ⟨inv.pens.rc, inv.pens.ex, inv.pens.pos⟩, ?_, ?_, ?_, inv.simple⟩, inv.wref, inv.glive⟩
  · intro hf h; exact h1 hf (by rcases h with h | h; exact h; simp at h)
  · intro hf h; exact h2 hf (fun h' => h (.inl h'))
  · intro hf; exact ⟨fun h => (h3 hf).1 (by rcases h with h | h; exact h; simp at h), (h3 hf).2⟩

/-- `tickit_term_ref` by the application. -/
theorem tref_ok {st : St} (inv : SInv gh st) (h : heldT st = true) :
    SInv gh { st with term := { st.term with appRefs := st.term.appRefs + 1, refcount := st.term.refcount + 1 } } := by
  obtain ⟨hf, _⟩ := heldT_spec h
  refine inv.set_term _ ?_ ?_ ?_
  · intro _ hr
    have := inv.term_held hf (.inl hr)
    show st.term.refcount + 1 = ((st.term.appRefs + 1 : Nat) : Int) + (gh.term : Int) + 1
    omega
  · intro _ hr
    have := inv.term_free hf (by rintro (h' | h'); exact hr h'; simp at h')
    show st.term.refcount + 1 = ((st.term.appRefs + 1 : Nat) : Int) + (gh.term : Int) ∧ 1 ≤ st.term.refcount + 1
    omega
  · intro h'; rw [show ({ st.term with appRefs := st.term.appRefs + 1, refcount := st.term.refcount + 1 } : Obj).freed = st.term.freed from rfl, hf] at h'; cases h'

/-- `tickit_term_unref` by the application. -/
theorem tunref_ok {st : St} (inv : SInv gh st) (h : heldT st = true) :
    ∃ st' tm, termUnref { st with term := { st.term with appRefs := st.term.appRefs - 1 } } = .ok st' ∧ SInv gh st' ∧
      st' = { st with term := tm } ∧ tm.appRefs + 1 = st.term.appRefs := by
  obtain ⟨hf, hpos⟩ := heldT_spec h
  have hr1 : 1 ≤ st.term.refcount := by
    by_cases hr : ∃ r, LiveW st.tree 0 r
    · have := inv.term_held hf (.inl hr); omega
    · exact (inv.term_free hf (by rintro (h' | h'); exact hr h'; simp at h')).2
  unfold termUnref
  simp only [hf, Bool.false_eq_true, if_false]
  have hge : ¬ st.term.refcount < 1 := by omega
  simp only [hge, if_false, pure_ok]
  refine ⟨_, _, rfl, ?_, rfl, by simp only [dropped_appRefs]; omega⟩
  refine inv.set_term _ ?_ ?_ ?_
  · intro _ hr
    have := inv.term_held hf (.inl hr)
    simp only [dropped_refcount, dropped_appRefs]
    show st.term.refcount - 1 = ((st.term.appRefs - 1 : Nat) : Int) + (gh.term : Int) + 1
    omega
  · intro hf' hr
    have := inv.term_free hf (by rintro (h' | h'); exact hr h'; simp at h')
    simp only [dropped_freed, decide_eq_false_iff_not] at hf'
    simp only [dropped_refcount, dropped_appRefs]
    show st.term.refcount - 1 = ((st.term.appRefs - 1 : Nat) : Int) + (gh.term : Int) ∧ 1 ≤ st.term.refcount - 1
    have hf'' : ¬ st.term.refcount - 1 = 0 := hf'
    omega
  · intro hf'
    simp only [dropped_freed, decide_eq_true_eq] at hf'
    have hf'' : st.term.refcount - 1 = 0 := hf'
    refine ⟨fun hr => ?_, ?_⟩
    · have := inv.term_held hf (.inl hr)
      omega
    · simp only [dropped_appRefs]
      show st.term.appRefs - 1 = 0 ∧ gh.term = 0
      by_cases hr : ∃ r, LiveW st.tree 0 r
      · have := inv.term_held hf (.inl hr); omega
      · have := inv.term_free hf (by rintro (h' | h'); exact hr h'; simp at h'); omega

/-! ## render buffers and strings -/

theorem heldB_spec {st : St} {k : Nat} (h : heldB st k = true) : ∃ b, st.rbs[k]? = some b ∧ b.freed = false := by
  unfold heldB at h
  cases hb : st.rbs[k]? with
  | none => simp [hb] at h
  | some b =>
    simp only [hb, Bool.and_eq_true, Bool.not_eq_true'] at h
    exact ⟨b, rfl, h.1⟩

theorem heldB_pos {st : St} {k : Nat} {b : RBObj} (h : heldB st k = true) (hb : st.rbs[k]? = some b) : 0 < b.appRefs := by
  unfold heldB at h
  simp only [hb, Bool.and_eq_true, Bool.not_eq_true', decide_eq_true_eq] at h
  exact h.2

theorem SInv.set_simple {st : St} (inv : SInv gh st) (r : Array RBObj) (s : Array StrObj)
    (h : SimpleOk { st with rbs := r, strs := s }) : SInv gh { st with rbs := r, strs := s } :=
  ⟨⟨inv.tinv, inv.wx_size, inv.rc, List.nodup_nil, by intro i hi; simp at hi, inv.dead_pen,
    ⟨inv.pens.rc, inv.pens.ex, inv.pens.pos⟩, inv.term_held, inv.term_free, inv.term_dead, h⟩, inv.wref, inv.glive⟩

/-- A change of one buffer object. -/
theorem SInv.set_rb {st : St} (inv : SInv gh st) (k : Nat) (b' : RBObj)
    (h : b'.freed = false → 1 ≤ b'.refcount ∧ b'.refcount = (b'.appRefs : Int)) :
    SInv gh { st with rbs := st.rbs.setIfInBounds k b' } := by
  refine inv.set_simple _ st.strs ⟨?_, inv.simple.2⟩
  intro j b hb hf
  simp only [Array.getElem?_setIfInBounds] at hb
  by_cases hkj : k = j
  · subst hkj
    simp only [if_true] at hb
    split at hb
    · cases hb; exact h hf
    · cases hb
  · simp only [hkj, if_false] at hb
    exact inv.simple.1 j b hb hf

/-- A change of one string object. -/
theorem SInv.set_str {st : St} (inv : SInv gh st) (k : Nat) (s' : StrObj)
    (h : s'.freed = false → 1 ≤ s'.refcount ∧ s'.refcount = (s'.appRefs : Int)) :
    SInv gh { st with strs := st.strs.setIfInBounds k s' } := by
  refine inv.set_simple st.rbs _ ⟨inv.simple.1, ?_⟩
  intro j b hb hf
  simp only [Array.getElem?_setIfInBounds] at hb
  by_cases hkj : k = j
  · subst hkj
    simp only [if_true] at hb
    split at hb
    · cases hb; exact h hf
    · cases hb
  · simp only [hkj, if_false] at hb
    exact inv.simple.2 j b hb hf

theorem SInv.set_penx {st : St} (inv : SInv gh st) (x : Array PenX) : SInv gh { st with penx := x } :=
  ⟨⟨inv.tinv, inv.wx_size, inv.rc, List.nodup_nil, by intro i hi; simp at hi, inv.dead_pen,
    ⟨inv.pens.rc, inv.pens.ex, inv.pens.pos⟩, inv.term_held, inv.term_free, inv.term_dead, inv.simple⟩, inv.wref, inv.glive⟩

theorem heldS_spec {st : St} {k : Nat} (h : heldS st k = true) :
    ∃ s, st.strs[k]? = some s ∧ s.freed = false ∧ 0 < s.appRefs ∧ k < st.strs.size := by
  unfold heldS at h
  cases hs : st.strs[k]? with
  | none => simp [hs] at h
  | some s =>
    simp only [hs, Bool.and_eq_true, Bool.not_eq_true', decide_eq_true_eq] at h
    refine ⟨s, rfl, h.1, h.2, ?_⟩
    by_cases hlt : k < st.strs.size
    · exact hlt
    · have := Array.getElem?_eq_none (xs := st.strs) (Nat.le_of_not_lt hlt)
      rw [hs] at this; cases this

theorem rbUpd_ok {st : St} (inv : SInv gh st) (k : Nat) (f : RBObj → Out RBObj)
    (hf : ∀ b, ∃ b', f b = .ok b' ∧ b'.freed = b.freed ∧ b'.refcount = b.refcount ∧ b'.appRefs = b.appRefs) :
    ∃ st' r, rbUpd st k f = .ok (st', r) ∧ SInv gh st' := by
  unfold rbUpd
  by_cases hh : heldB st k = true
  · obtain ⟨b, hb, hfb⟩ := heldB_spec hh
    simp only [hh, Bool.not_true, Bool.false_eq_true, if_false, hb, Option.getD_some]
    obtain ⟨b', hfb', h1, h2, h3⟩ := hf b
    simp only [hfb', bind_ok, pure_ok]
    exact ⟨_, _, rfl, inv.set_rb k b' (fun h => by rw [h2, h3]; exact inv.simple.1 k b hb (by rw [← h1]; exact h))⟩
  · simp only [hh, Bool.not_false, if_true, skipR, pure_ok]
    exact ⟨_, _, rfl, inv⟩

/-! ## copy-out calls -/

theorem extent_le {c : CopyOut} {n : Nat} (h : c.Bounded n) : c.extent ≤ n := by
  unfold CopyOut.extent
  have : ∀ (l : List (Nat × UInt8)) (m : Nat), m ≤ n → (∀ p ∈ l, p.1 < n) → l.foldl (fun m p => max m (p.1 + 1)) m ≤ n := by
    intro l
    induction l with
    | nil => intro m hm _; simpa using hm
    | cons x xs ih =>
      intro m hm hl
      simp only [List.foldl_cons]
      refine ih _ ?_ (fun p hp => hl p (by simp [hp]))
      have := hl x (by simp)
      omega
  exact this c.stores 0 (by omega) h

theorem showBuffer_some {len : Int} {c : CopyOut} (h : c.Bounded len.toNat) : ∃ s, showBuffer len c = some s := by
  unfold showBuffer
  by_cases hl : len < 0
  · simp [hl]
  · simp only [hl, if_false]
    have := extent_le h
    have h2 : ¬ c.extent > max len.toNat 1 := by omega
    simp only [h2, if_false]
    split <;> exact ⟨_, rfl⟩

end Tickit.Life

namespace Tickit.Life
open WinTree (Id Win Req Change Tree)
variable {gh : Ghost}

/-! ## one step -/

theorem SInv.init (lines cols : Int) (hgt : gh.term = 0) (hgw : gh.win 0 = 0) :
    SInv gh ({ tree := { wins := #[({ rect := ⟨0, 0, lines, cols⟩, isRoot := true } : Win)], root := {} }, wx := #[{}], term := { refcount := 2 } } : St) := by
  have hget : ∀ (i : Nat) (w : Win), (#[({ rect := ⟨0, 0, lines, cols⟩, isRoot := true } : Win)])[i]? = some w →
      i = 0 ∧ w = { rect := ⟨0, 0, lines, cols⟩, isRoot := true } := by
    intro i w h
    cases i with
    | zero => simp at h; exact ⟨rfl, h.symm⟩
    | succ n => simp at h
  have hlive : ∀ (i : Nat) (w : Win), LiveW ({ wins := #[({ rect := ⟨0, 0, lines, cols⟩, isRoot := true } : Win)], root := {} } : Tree) i w →
      i = 0 ∧ w = { rect := ⟨0, 0, lines, cols⟩, isRoot := true } := fun i w h => hget i w h.1
  have tinv : TInv ({ wins := #[({ rect := ⟨0, 0, lines, cols⟩, isRoot := true } : Win)], root := {} } : Tree) := by
    refine ⟨⟨{ rect := ⟨0, 0, lines, cols⟩, isRoot := true }, by simp, rfl, rfl⟩, ?_, ?_, ?_, ?_, ?_, ?_, ?_, ?_⟩
    · intro i w h _; exact (hget i w h).1
    · intro c cw hl p hp; obtain ⟨_, rfl⟩ := hlive c cw hl; cases hp
    · intro p pw hl c hc; obtain ⟨_, rfl⟩ := hlive p pw hl; simp at hc
    · intro p pw hl; obtain ⟨_, rfl⟩ := hlive p pw hl; exact List.nodup_nil
    · intro i w hl _; obtain ⟨_, rfl⟩ := hlive i w hl; rfl
    · intro r hr; simp at hr
    · intro p pw hl c hf; obtain ⟨_, rfl⟩ := hlive p pw hl; cases hf
    · intro s hs; cases hs
  have hroot : ∃ r, LiveW ({ wins := #[({ rect := ⟨0, 0, lines, cols⟩, isRoot := true } : Win)], root := {} } : Tree) 0 r :=
    ⟨{ rect := ⟨0, 0, lines, cols⟩, isRoot := true }, by simp, rfl⟩
  refine ⟨⟨tinv, rfl, ?_, List.nodup_nil, by intro i hi; simp at hi, ?_, ⟨?_, ?_, ?_⟩, ?_, ?_, ?_, ?_⟩, ?_, fun _ => hroot⟩
  rotate_right
  · intro i w hl; obtain ⟨rfl, rfl⟩ := hlive i w hl
    refine ⟨?_, fun _ => ?_⟩
    · show (1 : Int) ≤ ((1 : Nat) : Int) + (gh.win 0 : Int); omega
    · show ((1 : Nat) : Int) + (gh.win 0 : Int) ≤ 1; rw [hgw]; decide
  · intro i w hl; obtain ⟨_, rfl⟩ := hlive i w hl; show (1 : Int) ≤ 1; omega
  · intro i w h hf _; obtain ⟨_, rfl⟩ := hget i w h; cases hf
  · intro k p hk; simp at hk
  · intro k _; simp [holders]
  · intro k p hk; simp at hk
  · intro _ _; show (2 : Int) = ((1 : Nat) : Int) + (gh.term : Int) + 1; rw [hgt]; rfl
  · intro _ h; exact absurd (.inl hroot) h
  · intro h; cases h
  · exact ⟨by intro k b hb; simp at hb, by intro k b hb; simp at hb⟩

theorem liftT_ok {st : St} {r : Out Tree} {t' : Tree} (h : r = .ok t') : liftT st r = .ok { st with tree := t' } := by
  unfold liftT; rw [h]; rfl

/-- Every operation that runs no handler keeps the invariant and never fails. -/
theorem step_plain_ok {cfg : Cfg} (R : Repaired cfg) {st : St} (inv : SInv gh st) (op : Op) (hp : op.plain = true)
    (hnew : ∀ l c m, op = .newTerm l c m → gh.term = 0 ∧ gh.win 0 = 0) :
    ∃ st' r, step cfg st op = .ok (st', r) ∧ SInv gh st' := by
  cases op <;> simp only [Op.plain, Bool.false_eq_true] at hp <;> unfold step
  case newTerm lines cols mock => exact ⟨_, _, rfl, SInv.init lines cols (hnew _ _ _ rfl).1 (hnew _ _ _ rfl).2⟩
  case win p r f =>
    by_cases hu : usableW st p = true
    · obtain ⟨⟨pw, hpl⟩, _⟩ := usableW_spec inv.tinv hu
      simp only [hu, Bool.not_true, Bool.false_eq_true, if_false]
      obtain ⟨st', id, hn, inv'⟩ := newWin_ok inv hpl r (flagBit f 0) (flagBit f 1) (flagBit f 2) (flagBit f 3)
      simp only [hn, bind_ok, pure_ok]
      exact ⟨_, _, rfl, inv'⟩
    · simp only [hu, Bool.not_false, if_true, skipR, pure_ok]; exact ⟨_, _, rfl, inv⟩
  case act a =>
    cases a <;> simp only [simpleOp]
    case unref w =>
      by_cases hh : heldW st w = true
      · simp only [hh, if_true]
        obtain ⟨st', hu, inv', _⟩ := unrefW_ok R inv hh
        simp only [okR, hu, bind_ok, pure_ok]
        exact ⟨_, _, rfl, inv'⟩
      · simp only [hh, Bool.false_eq_true, if_false, skipR, pure_ok]; exact ⟨_, _, rfl, inv⟩
    case ref w =>
      by_cases hh : heldW st w = true
      · obtain ⟨ww, hw⟩ := heldW_live hh
        simp only [hh, if_true]
        obtain ⟨st', hu, inv'⟩ := refW_ok inv (win := w) (ww := ww) hw
        simp only [okR, hu, bind_ok, pure_ok]
        exact ⟨_, _, rfl, inv'⟩
      · simp only [hh, Bool.false_eq_true, if_false, skipR, pure_ok]; exact ⟨_, _, rfl, inv⟩
    case close w =>
      by_cases hh : heldW st w = true
      · obtain ⟨ww, hw⟩ := heldW_live hh
        simp only [hh, if_true]
        obtain ⟨t', hc, C⟩ := closeT_ok R.closePurges R.dragForgottenOnClose inv.tinv hw
        simp only [okR, liftT_ok hc, bind_ok, pure_ok]
        exact ⟨_, _, rfl, inv.of_closed hw C⟩
      · simp only [hh, Bool.false_eq_true, if_false, skipR, pure_ok]; exact ⟨_, _, rfl, inv⟩
    case restack c w =>
      by_cases hh : (usableW st w && isRestack c) = true
      · simp only [hh, if_true]
        simp only [Bool.and_eq_true] at hh
        obtain ⟨⟨ww, hw⟩, hreach⟩ := usableW_spec inv.tinv hh.1
        obtain ⟨t', hq, inv', hwins⟩ := request_ok inv.tinv hh.2 hw hreach
        simp only [okR, liftT_ok hq, bind_ok, pure_ok]
        refine ⟨_, _, rfl, inv.of_tree inv' (by rw [hwins]) ?_⟩
        intro i x hx
        exact ⟨x, by rw [hwins]; exact hx, rfl, fun _ => rfl⟩
      · simp only [hh, Bool.false_eq_true, if_false, skipR, pure_ok]; exact ⟨_, _, rfl, inv⟩
    case hide w =>
      by_cases hh : usableW st w = true
      · simp only [hh, if_true]
        obtain ⟨⟨ww, hw⟩, _⟩ := usableW_spec inv.tinv hh
        obtain ⟨t', hq, inv', hrel, hrc⟩ := hideT_ok inv.tinv hw
        simp only [okR, liftT_ok hq, bind_ok, pure_ok]
        exact ⟨_, _, rfl, inv.of_rel' inv' hrel hrc⟩
      · simp only [hh, Bool.false_eq_true, if_false, skipR, pure_ok]; exact ⟨_, _, rfl, inv⟩
    case «show» w =>
      by_cases hh : usableW st w = true
      · simp only [hh, if_true]
        obtain ⟨⟨ww, hw⟩, _⟩ := usableW_spec inv.tinv hh
        obtain ⟨t', hq, inv', hrel, hrc⟩ := showT_ok inv.tinv hw
        simp only [okR, liftT_ok hq, bind_ok, pure_ok]
        exact ⟨_, _, rfl, inv.of_rel' inv' hrel hrc⟩
      · simp only [hh, Bool.false_eq_true, if_false, skipR, pure_ok]; exact ⟨_, _, rfl, inv⟩
    case flush =>
      by_cases hh : heldW st 0 = true
      · simp only [hh, if_true]
        obtain ⟨r, hr⟩ := heldW_live hh
        obtain ⟨t', hq, inv', hrel, _, _, hrc⟩ := flushT_ok inv.tinv hr
        simp only [okR, liftT_ok hq, bind_ok, pure_ok]
        exact ⟨_, _, rfl, inv.of_rel' inv' hrel hrc⟩
      · simp only [hh, Bool.false_eq_true, if_false, skipR, pure_ok]; exact ⟨_, _, rfl, inv⟩
    case unbindSelf => simp only [skipR, pure_ok]; exact ⟨_, _, rfl, inv⟩
  case geom w r =>
    by_cases hu : usableW st w = true
    · obtain ⟨⟨ww, hw⟩, _⟩ := usableW_spec inv.tinv hu
      simp only [hu, Bool.not_true, Bool.false_eq_true, if_false]
      obtain ⟨t', hq, inv', hrel, hrc⟩ := setGeomT_ok inv.tinv hw r
      simp only [okR, liftT_ok hq, bind_ok, pure_ok]
      exact ⟨_, _, rfl, inv.of_rel' inv' hrel hrc⟩
    · simp only [hu, Bool.not_false, if_true, skipR, pure_ok]; exact ⟨_, _, rfl, inv⟩
  case expose w =>
    by_cases hu : usableW st w = true
    · obtain ⟨⟨ww, hw⟩, _⟩ := usableW_spec inv.tinv hu
      simp only [hu, Bool.not_true, Bool.false_eq_true, if_false, okR,
        exposeWalk_ok inv.tinv w ww hw _ (chainFuel_gt hw), bind_ok, pure_ok]
      exact ⟨_, _, rfl, inv⟩
    · simp only [hu, Bool.not_false, if_true, skipR, pure_ok]; exact ⟨_, _, rfl, inv⟩
  case bind w ev ret acts =>
    by_cases hu : usableW st w = true
    · obtain ⟨⟨ww, hw⟩, _⟩ := usableW_spec inv.tinv hu
      simp only [hu, Bool.not_true, Bool.false_eq_true, if_false]
      unfold bindEvent
      simp only [getW, get_live hw, bind_ok, pure_ok]
      exact ⟨_, _, rfl, inv.setX_same w _ rfl rfl⟩
    · simp only [hu, Bool.not_false, if_true, skipR, pure_ok]; exact ⟨_, _, rfl, inv⟩
  case unbind w id =>
    by_cases hu : usableW st w = true
    · obtain ⟨⟨ww, hw⟩, _⟩ := usableW_spec inv.tinv hu
      simp only [hu, Bool.not_true, Bool.false_eq_true, if_false, okR]
      unfold unbindEvent
      simp only [getW, get_live hw, bind_ok]
      split
      · simp only [pure_ok, bind_ok]; exact ⟨_, _, rfl, inv.setX_same w _ rfl rfl⟩
      · simp only [pure_ok, bind_ok]; exact ⟨_, _, rfl, inv.setX_same w _ rfl rfl⟩
    · simp only [hu, Bool.not_false, if_true, skipR, pure_ok]; exact ⟨_, _, rfl, inv⟩
  case pen => exact ⟨_, _, rfl, (pen_new_ok inv).set_penx _⟩
  case pref k =>
    by_cases hh : heldP st k = true
    · simp only [hh, Bool.not_true, Bool.false_eq_true, if_false]
      obtain ⟨st', h1, inv'⟩ := pref_ok inv hh
      simp only [okR, h1, bind_ok, pure_ok]
      exact ⟨_, _, rfl, inv'⟩
    · simp only [hh, Bool.not_false, if_true, skipR, pure_ok]; exact ⟨_, _, rfl, inv⟩
  case punref k =>
    by_cases hh : heldP st k = true
    · simp only [hh, Bool.not_true, Bool.false_eq_true, if_false]
      obtain ⟨st', _, _, h1, inv', _⟩ := punref_ok inv hh
      simp only [okR, h1, bind_ok, pure_ok]
      exact ⟨_, _, rfl, inv'⟩
    · simp only [hh, Bool.not_false, if_true, skipR, pure_ok]; exact ⟨_, _, rfl, inv⟩
  case setpen w p =>
    by_cases hu : usableW st w = true
    · obtain ⟨⟨ww, hw⟩, _⟩ := usableW_spec inv.tinv hu
      simp only [hu, Bool.not_true, Bool.false_eq_true, if_false]
      cases p with
      | none =>
        obtain ⟨st', h1, inv'⟩ := setPen_ok inv hw none (by intro k hk; cases hk)
        simp only [okR, h1, bind_ok, pure_ok]
        exact ⟨_, _, rfl, inv'⟩
      | some k =>
        by_cases hh : heldP st k = true
        · simp only [hh, Bool.not_true, Bool.false_eq_true, if_false]
          obtain ⟨st', h1, inv'⟩ := setPen_ok inv hw (some k) (by intro k' hk; cases hk; exact hh)
          simp only [okR, h1, bind_ok, pure_ok]
          exact ⟨_, _, rfl, inv'⟩
        · simp only [hh, Bool.not_false, if_true, skipR, pure_ok]; exact ⟨_, _, rfl, inv⟩
    · simp only [hu, Bool.not_false, if_true, skipR, pure_ok]; exact ⟨_, _, rfl, inv⟩
  case tref =>
    by_cases hh : heldT st = true
    · simp only [hh, Bool.not_true, Bool.false_eq_true, if_false, pure_ok]; exact ⟨_, _, rfl, tref_ok inv hh⟩
    · simp only [hh, Bool.not_false, if_true, skipR, pure_ok]; exact ⟨_, _, rfl, inv⟩
  case tunref =>
    by_cases hh : heldT st = true
    · simp only [hh, Bool.not_true, Bool.false_eq_true, if_false]
      obtain ⟨st', _, h1, inv', _⟩ := tunref_ok inv hh
      simp only [okR, h1, bind_ok, pure_ok]
      exact ⟨_, _, rfl, inv'⟩
    · simp only [hh, Bool.not_false, if_true, skipR, pure_ok]; exact ⟨_, _, rfl, inv⟩
  case str bytes =>
    refine ⟨_, _, rfl, ?_⟩
    unfold strNew
    refine inv.set_simple st.rbs _ ⟨inv.simple.1, ?_⟩
    intro j b hb hf
    simp only [Array.getElem?_push] at hb
    split at hb
    · cases hb; exact ⟨by show (1 : Int) ≤ 1; omega, by show (1 : Int) = ((1 : Nat) : Int); omega⟩
    · exact inv.simple.2 j b hb hf
  case sref k =>
    by_cases hh : heldS st k = true
    · simp only [hh, Bool.not_true, Bool.false_eq_true, if_false]
      obtain ⟨s, hs, hfs, hpos, hlt⟩ := heldS_spec hh
      have hrc := inv.simple.2 k s hs hfs
      unfold strRef
      simp only [okR, hs, Option.getD_some, Array.getElem?_setIfInBounds, if_true, hlt, hfs, Bool.false_eq_true, if_false,
        pure_ok, bind_ok]
      refine ⟨_, _, rfl, ?_⟩
      rw [Array.setIfInBounds_setIfInBounds]
      refine inv.set_str k _ (fun _ => ⟨?_, ?_⟩)
      · show 1 ≤ s.refcount + 1; omega
      · show s.refcount + 1 = ((s.appRefs + 1 : Nat) : Int); omega
    · simp only [hh, Bool.not_false, if_true, skipR, pure_ok]; exact ⟨_, _, rfl, inv⟩
  case sunref k =>
    by_cases hh : heldS st k = true
    · simp only [hh, Bool.not_true, Bool.false_eq_true, if_false]
      obtain ⟨s, hs, hfs, hpos, hlt⟩ := heldS_spec hh
      have hrc := inv.simple.2 k s hs hfs
      unfold strUnref
      simp only [okR, hs, Option.getD_some, Array.getElem?_setIfInBounds, if_true, hlt, hfs, Bool.false_eq_true, if_false]
      split
      · rename_i hgt
        simp only [pure_ok, bind_ok]
        refine ⟨_, _, rfl, ?_⟩
        rw [Array.setIfInBounds_setIfInBounds]
        refine inv.set_str k _ (fun _ => ⟨?_, ?_⟩)
        · show 1 ≤ s.refcount - 1; omega
        · show s.refcount - 1 = ((s.appRefs - 1 : Nat) : Int); omega
      · simp only [pure_ok, bind_ok]
        refine ⟨_, _, rfl, ?_⟩
        rw [Array.setIfInBounds_setIfInBounds]
        exact inv.set_str k _ (fun h => by cases h)
    · simp only [hh, Bool.not_false, if_true, skipR, pure_ok]; exact ⟨_, _, rfl, inv⟩
  case sget k =>
    by_cases hh : heldS st k = true
    · simp only [hh, Bool.not_true, Bool.false_eq_true, if_false, pure_ok]; exact ⟨_, _, rfl, inv⟩
    · simp only [hh, Bool.not_false, if_true, skipR, pure_ok]; exact ⟨_, _, rfl, inv⟩
  case rb lines cols =>
    refine ⟨_, _, rfl, ?_⟩
    unfold rbNew
    refine inv.set_simple _ st.strs ⟨?_, inv.simple.2⟩
    intro j b hb hf
    simp only [Array.getElem?_push] at hb
    split at hb
    · cases hb; exact ⟨by show (1 : Int) ≤ 1; omega, by show (1 : Int) = ((1 : Nat) : Int); omega⟩
    · exact inv.simple.1 j b hb hf
  case bref k =>
    by_cases hh : heldB st k = true
    · obtain ⟨b, hb, hfb⟩ := heldB_spec hh
      have hlt : k < st.rbs.size := by
        by_cases hlt : k < st.rbs.size
        · exact hlt
        · have := Array.getElem?_eq_none (xs := st.rbs) (Nat.le_of_not_lt hlt)
          rw [hb] at this; cases this
      simp only [hh, Bool.not_true, Bool.false_eq_true, if_false, hb, Option.getD_some]
      unfold rbRef
      simp only [okR, Array.getElem?_setIfInBounds, if_true, hlt, hfb, Bool.false_eq_true, if_false, pure_ok, bind_ok]
      refine ⟨_, _, rfl, ?_⟩
      rw [Array.setIfInBounds_setIfInBounds]
      have hrc := inv.simple.1 k b hb hfb
      refine inv.set_rb k _ (fun _ => ⟨?_, ?_⟩)
      · show 1 ≤ b.refcount + 1; omega
      · show b.refcount + 1 = ((b.appRefs + 1 : Nat) : Int); omega
    · simp only [hh, Bool.not_false, if_true, skipR, pure_ok]; exact ⟨_, _, rfl, inv⟩
  case bunref k =>
    by_cases hh : heldB st k = true
    · obtain ⟨b, hb, hfb⟩ := heldB_spec hh
      have hlt : k < st.rbs.size := by
        by_cases hlt : k < st.rbs.size
        · exact hlt
        · have := Array.getElem?_eq_none (xs := st.rbs) (Nat.le_of_not_lt hlt)
          rw [hb] at this; cases this
      have hr := inv.rb_rc k b hb hfb
      simp only [hh, Bool.not_true, Bool.false_eq_true, if_false, hb, Option.getD_some]
      unfold rbUnref
      simp only [okR, Array.getElem?_setIfInBounds, if_true, hlt, hfb, Bool.false_eq_true, if_false]
      have hge : ¬ b.refcount < 1 := by omega
      simp only [hge, if_false, pure_ok, bind_ok]
      refine ⟨_, _, rfl, ?_⟩
      rw [Array.setIfInBounds_setIfInBounds]
      refine inv.set_rb k _ ?_
      intro hf'
      have hrc := (inv.simple.1 k b hb hfb).2
      have hpos := heldB_pos hh hb
      by_cases hz : b.refcount - 1 = 0
      · simp [hz] at hf'
      · simp only [hz, if_false]
        refine ⟨?_, ?_⟩
        · show 1 ≤ b.refcount - 1; omega
        · show b.refcount - 1 = ((b.appRefs - 1 : Nat) : Int); omega
    · simp only [hh, Bool.not_false, if_true, skipR, pure_ok]; exact ⟨_, _, rfl, inv⟩
  case breset k => exact rbUpd_ok inv k _ (fun b => ⟨_, rfl, rfl, rfl, rfl⟩)
  case bsave k => exact rbUpd_ok inv k _ (fun b => ⟨_, rfl, rfl, rfl, rfl⟩)
  case bsavepen k => exact rbUpd_ok inv k _ (fun b => ⟨_, rfl, rfl, rfl, rfl⟩)
  case brestore k => exact rbUpd_ok inv k _ (fun b => ⟨_, rfl, rfl, rfl, rfl⟩)
  case bsetpen k p =>
    by_cases hh : heldB st k = true
    · simp only [hh, Bool.not_true, Bool.false_eq_true, if_false]
      cases p with
      | none => exact ⟨_, _, rfl, inv⟩
      | some q =>
        by_cases hq : heldP st q = true
        · simp only [hq, Bool.not_true, Bool.false_eq_true, if_false, pure_ok]; exact ⟨_, _, rfl, inv⟩
        · simp only [hq, Bool.not_false, if_true, skipR, pure_ok]; exact ⟨_, _, rfl, inv⟩
    · simp only [hh, Bool.not_false, if_true, skipR, pure_ok]; exact ⟨_, _, rfl, inv⟩
  case bflush k =>
    by_cases hh : heldB st k = true
    · simp only [hh, Bool.not_true, Bool.false_eq_true, if_false]
      by_cases ht : heldT st = true
      · simp only [ht, Bool.not_true, Bool.false_eq_true, if_false]
        exact rbUpd_ok inv k _ (fun b => ⟨_, rfl, rfl, rfl, rfl⟩)
      · simp only [ht, Bool.not_false, if_true, skipR, pure_ok]; exact ⟨_, _, rfl, inv⟩
    · simp only [hh, Bool.not_false, if_true, skipR, pure_ok]; exact ⟨_, _, rfl, inv⟩
  case bcell k line col len =>
    by_cases hh : heldB st k = true
    · simp only [hh, Bool.not_true, Bool.false_eq_true, if_false]
      have hb0 : ∀ (r : Int), ∃ s, showBuffer len ⟨r, []⟩ = some s :=
        fun r => showBuffer_some (bounded_nil r _)
      -- whatever the cell, the call either reports an error without storing or stays inside the buffer
      split
      · exact ⟨_, _, rfl, inv⟩
      · rename_i c hc
        have hbd : ∃ s, showBuffer len c = some s := by
          split at hc
          · cases hc; exact hb0 _
          · split at hc
            · cases hc; exact hb0 _
            · rw [R.spanExactFit] at hc
              exact showBuffer_some (bounded_getSpanText hc)
        obtain ⟨s, hs⟩ := hbd
        simp only [hs, pure_ok]
        exact ⟨_, _, rfl, inv⟩
    · simp only [hh, Bool.not_false, if_true, skipR, pure_ok]; exact ⟨_, _, rfl, inv⟩
  case bspan k line col len =>
    by_cases hh : heldB st k = true
    · simp only [hh, Bool.not_true, Bool.false_eq_true, if_false]
      split
      · exact ⟨_, _, rfl, inv⟩
      · split
        · exact ⟨_, _, rfl, inv⟩
        · split
          · exact ⟨_, _, rfl, inv⟩
          · split
            · exact ⟨_, _, rfl, inv⟩
            · rename_i c hc
              rw [R.spanExactFit] at hc
              obtain ⟨s, hs⟩ := showBuffer_some (len := len) (bounded_getSpanText hc)
              simp only [hs, pure_ok]
              exact ⟨_, _, rfl, inv⟩
    · simp only [hh, Bool.not_false, if_true, skipR, pure_ok]; exact ⟨_, _, rfl, inv⟩

end Tickit.Life

namespace Tickit.Life
open WinTree (Id Win Req Change Tree)
variable {gh : Ghost}

/-! ## dropping everything (`end`) -/

/-- A fold over the handles of one kind: `I` is kept, and every handle visited ends up in the state `D`. -/
theorem foldlM_phase {α : Type} (f : St → α → Out St) (I : St → Prop) (D : α → St → Prop)
    (hstep : ∀ (st : St) (a : α), I st → ∃ st', f st a = .ok st' ∧ I st' ∧ D a st' ∧ ∀ b, D b st → D b st') :
    ∀ (l : List α) (st : St), I st →
      ∃ st', l.foldlM f st = .ok st' ∧ I st' ∧ (∀ a ∈ l, D a st') ∧ ∀ b, D b st → D b st'
  | [], st, hi => ⟨st, rfl, hi, by intro a ha; simp at ha, fun _ h => h⟩
  | a :: rest, st, hi => by
    obtain ⟨st1, h1, i1, d1, p1⟩ := hstep st a hi
    obtain ⟨st2, h2, i2, d2, p2⟩ := foldlM_phase f I D hstep rest st1 i1
    refine ⟨st2, by rw [List.foldlM_cons, h1]; exact h2, i2, ?_, fun b h => p2 b (p1 b h)⟩
    intro b hb
    simp only [List.mem_cons] at hb
    rcases hb with rfl | hb
    · exact p2 _ d1
    · exact d2 b hb

/-- What stays true of the windows while the application drops its references: the tree keeps its size and what
    was freed stays freed. -/
structure WLater (st st' : St) : Prop where
  size : st'.tree.wins.size = st.tree.wins.size
  freed : ∀ (i : Nat) (w : Win), st.tree.wins[i]? = some w → w.freed = true →
    ∃ w', st'.tree.wins[i]? = some w' ∧ w'.freed = true
  /-- the application takes no reference -/
  apps : ∀ (i : Nat), (getX st' i).appRefs ≤ (getX st i).appRefs

theorem WLater.refl (st : St) : WLater st st := ⟨rfl, fun _ w h hf => ⟨w, h, hf⟩, fun _ => Nat.le_refl _⟩

theorem WLater.trans {a b c : St} (h1 : WLater a b) (h2 : WLater b c) : WLater a c :=
  ⟨h2.size.trans h1.size, fun i w hw hf => by
    obtain ⟨w', hw', hf'⟩ := h1.freed i w hw hf
    exact h2.freed i w' hw' hf', fun i => Nat.le_trans (h2.apps i) (h1.apps i)⟩

/-- A window the application no longer holds stays so. -/
theorem not_heldW_later {st st' : St} (L : WLater st st') {b : Nat} (h : heldW st b = false) :
    heldW st' b = false := by
  cases hb' : heldW st' b with
  | false => rfl
  | true =>
    exfalso
    obtain ⟨w', hl', hpos'⟩ := heldW_spec hb'
    have hlt : b < st.tree.wins.size := by have := hl'.lt; rw [L.size] at this; exact this
    cases hw : st.tree.wins[b]? with
    | none =>
      have := Array.getElem?_eq_getElem (xs := st.tree.wins) hlt
      rw [hw] at this; cases this
    | some w =>
      cases hf : w.freed with
      | true =>
        obtain ⟨w'', hw'', hf''⟩ := L.freed b w hw hf
        rw [hl'.1] at hw''; cases hw''
        rw [hl'.2] at hf''; cases hf''
      | false =>
        unfold heldW at h
        simp only [hw, hf, Bool.not_false, Bool.true_and, decide_eq_false_iff_not, Nat.not_lt, Nat.le_zero_eq] at h
        have := L.apps b
        omega

theorem dropW_ok {cfg : Cfg} (R : Repaired cfg) (i : Nat) : ∀ (n : Nat) (st : St), SInv gh st → (getX st i).appRefs < n →
    ∃ st', dropAll.dropW cfg n st i = .ok st' ∧ SInv gh st' ∧ WLater st st' ∧ heldW st' i = false
  | 0, _, _, h => absurd h (Nat.not_lt_zero _)
  | n + 1, st, inv, h => by
    unfold dropAll.dropW
    by_cases hh : heldW st i = true
    · simp only [hh, if_true]
      obtain ⟨st1, hu, inv1, hsz, hfr, hle, hmono, _⟩ := unrefW_ok R inv hh
      simp only [hu, bind_ok]
      obtain ⟨st2, h2, inv2, L2, hd⟩ := dropW_ok R i n st1 inv1 (by omega)
      exact ⟨st2, h2, inv2, WLater.trans ⟨hsz, hfr, hmono⟩ L2, hd⟩
    · simp only [hh, Bool.false_eq_true, if_false, pure_ok]
      exact ⟨st, rfl, inv, WLater.refl st, by simpa using hh⟩

theorem dropP_ok (k : Nat) : ∀ (n : Nat) (st : St), SInv gh st → (st.pens[k]?.getD {}).appRefs < n →
    ∃ st' ps, dropAll.dropP n st k = .ok st' ∧ SInv gh st' ∧ heldP st' k = false ∧ st' = { st with pens := ps } ∧
      ps.size = st.pens.size ∧ (∀ (j : Nat), j ≠ k → ps[j]? = st.pens[j]?) ∧ (heldP st k = false → ps = st.pens)
  | 0, _, _, h => absurd h (Nat.not_lt_zero _)
  | n + 1, st, inv, h => by
    unfold dropAll.dropP
    by_cases hh : heldP st k = true
    · simp only [hh, if_true]
      obtain ⟨st1, p, p', hu, inv1, hp, he, ha⟩ := punref_ok inv hh
      simp only [hu, bind_ok]
      have hlt := pens_size_lt hp
      have hk1 : st1.pens[k]? = some p' := by rw [he]; simp [hlt]
      obtain ⟨st2, ps, h2, inv2, hd, he2, hsz2, ho2, _⟩ := dropP_ok k n st1 inv1 (by
        rw [hk1, Option.getD_some]; rw [hp, Option.getD_some] at h; omega)
      refine ⟨st2, ps, h2, inv2, hd, by rw [he2, he], by rw [hsz2, he]; simp, ?_, fun h' => by cases h'⟩
      intro j hj
      rw [ho2 j hj, he]
      simp only [Array.getElem?_setIfInBounds]
      have : ¬ k = j := fun h' => hj h'.symm
      simp [this]
    · simp only [hh, Bool.false_eq_true, if_false, pure_ok]
      exact ⟨st, st.pens, rfl, inv, by simpa using hh, rfl, rfl, fun _ _ => rfl, fun _ => rfl⟩

/-- `tickit_string_unref` by the application. -/
theorem sunref_ok {st : St} (inv : SInv gh st) {k : Nat} (h : heldS st k = true) :
    ∃ st' s s', strUnref { st with strs := st.strs.setIfInBounds k { (st.strs[k]?.getD {}) with appRefs := (st.strs[k]?.getD {}).appRefs - 1 } } k = .ok st' ∧
      SInv gh st' ∧ st.strs[k]? = some s ∧ st' = { st with strs := st.strs.setIfInBounds k s' } ∧ s'.appRefs + 1 = s.appRefs := by
  obtain ⟨s, hs, hfs, hpos, hlt⟩ := heldS_spec h
  have hrc := inv.simple.2 k s hs hfs
  unfold strUnref
  simp only [hs, Option.getD_some, Array.getElem?_setIfInBounds, if_true, hlt, hfs, Bool.false_eq_true, if_false]
  split
  · rename_i hgt
    simp only [pure_ok]
    refine ⟨_, s, _, rfl, ?_, rfl, by rw [Array.setIfInBounds_setIfInBounds], by show s.appRefs - 1 + 1 = s.appRefs; omega⟩
    rw [Array.setIfInBounds_setIfInBounds]
    refine inv.set_str k _ (fun _ => ⟨?_, ?_⟩)
    · show 1 ≤ s.refcount - 1; omega
    · show s.refcount - 1 = ((s.appRefs - 1 : Nat) : Int); omega
  · simp only [pure_ok]
    refine ⟨_, s, _, rfl, ?_, rfl, by rw [Array.setIfInBounds_setIfInBounds], by show s.appRefs - 1 + 1 = s.appRefs; omega⟩
    rw [Array.setIfInBounds_setIfInBounds]
    exact inv.set_str k _ (fun h => by cases h)

theorem strs_size_lt {st : St} {k : Nat} {s : StrObj} (h : st.strs[k]? = some s) : k < st.strs.size := by
  by_cases hlt : k < st.strs.size
  · exact hlt
  · have := Array.getElem?_eq_none (xs := st.strs) (Nat.le_of_not_lt hlt)
    rw [h] at this; cases this

theorem dropS_ok (k : Nat) : ∀ (n : Nat) (st : St), SInv gh st → (st.strs[k]?.getD {}).appRefs < n →
    ∃ st' ss, dropAll.dropS n st k = .ok st' ∧ SInv gh st' ∧ heldS st' k = false ∧ st' = { st with strs := ss } ∧
      ss.size = st.strs.size ∧ (∀ (j : Nat), j ≠ k → ss[j]? = st.strs[j]?) ∧ (heldS st k = false → ss = st.strs)
  | 0, _, _, h => absurd h (Nat.not_lt_zero _)
  | n + 1, st, inv, h => by
    unfold dropAll.dropS
    by_cases hh : heldS st k = true
    · simp only [hh, if_true]
      obtain ⟨st1, p, p', hu, inv1, hp, he, ha⟩ := sunref_ok inv hh
      simp only [hu, bind_ok]
      have hlt := strs_size_lt hp
      have hk1 : st1.strs[k]? = some p' := by rw [he]; simp [hlt]
      obtain ⟨st2, ps, h2, inv2, hd, he2, hsz2, ho2, _⟩ := dropS_ok k n st1 inv1 (by
        rw [hk1, Option.getD_some]; rw [hp, Option.getD_some] at h; omega)
      refine ⟨st2, ps, h2, inv2, hd, by rw [he2, he], by rw [hsz2, he]; simp, ?_, fun h' => by cases h'⟩
      intro j hj
      rw [ho2 j hj, he]
      simp only [Array.getElem?_setIfInBounds]
      have : ¬ k = j := fun h' => hj h'.symm
      simp [this]
    · simp only [hh, Bool.false_eq_true, if_false, pure_ok]
      exact ⟨st, st.strs, rfl, inv, by simpa using hh, rfl, rfl, fun _ _ => rfl, fun _ => rfl⟩

theorem rbs_size_lt {st : St} {k : Nat} {b : RBObj} (h : st.rbs[k]? = some b) : k < st.rbs.size := by
  by_cases hlt : k < st.rbs.size
  · exact hlt
  · have := Array.getElem?_eq_none (xs := st.rbs) (Nat.le_of_not_lt hlt)
    rw [h] at this; cases this

/-- `tickit_renderbuffer_unref` by the application. -/
theorem bunref_ok {st : St} (inv : SInv gh st) {k : Nat} (h : heldB st k = true) :
    ∃ st' b b', rbUnref { st with rbs := st.rbs.setIfInBounds k { (st.rbs[k]?.getD {}) with appRefs := (st.rbs[k]?.getD {}).appRefs - 1 } } k = .ok st' ∧
      SInv gh st' ∧ st.rbs[k]? = some b ∧ st' = { st with rbs := st.rbs.setIfInBounds k b' } ∧ b'.appRefs + 1 = b.appRefs := by
  obtain ⟨b, hb, hfb⟩ := heldB_spec h
  have hpos := heldB_pos h hb
  have hlt := rbs_size_lt hb
  have hrc := inv.simple.1 k b hb hfb
  unfold rbUnref
  simp only [hb, Option.getD_some, Array.getElem?_setIfInBounds, if_true, hlt, hfb, Bool.false_eq_true, if_false]
  have hge : ¬ b.refcount < 1 := by omega
  simp only [hge, if_false, pure_ok]
  refine ⟨_, b, _, rfl, ?_, rfl, by rw [Array.setIfInBounds_setIfInBounds], ?_⟩
  · rw [Array.setIfInBounds_setIfInBounds]
    refine inv.set_rb k _ ?_
    intro hf'
    by_cases hz : b.refcount - 1 = 0
    · simp [hz] at hf'
    · simp only [hz, if_false]
      refine ⟨?_, ?_⟩
      · show 1 ≤ b.refcount - 1; omega
      · show b.refcount - 1 = ((b.appRefs - 1 : Nat) : Int); omega
  · by_cases hz : b.refcount - 1 = 0
    · simp only [hz, if_true]; show b.appRefs - 1 + 1 = b.appRefs; omega
    · simp only [hz, if_false]; show b.appRefs - 1 + 1 = b.appRefs; omega

theorem dropB_ok (k : Nat) : ∀ (n : Nat) (st : St), SInv gh st → (st.rbs[k]?.getD {}).appRefs < n →
    ∃ st' bs, dropAll.dropB n st k = .ok st' ∧ SInv gh st' ∧ heldB st' k = false ∧ st' = { st with rbs := bs } ∧
      bs.size = st.rbs.size ∧ (∀ (j : Nat), j ≠ k → bs[j]? = st.rbs[j]?) ∧ (heldB st k = false → bs = st.rbs)
  | 0, _, _, h => absurd h (Nat.not_lt_zero _)
  | n + 1, st, inv, h => by
    unfold dropAll.dropB
    by_cases hh : heldB st k = true
    · simp only [hh, if_true]
      obtain ⟨st1, p, p', hu, inv1, hp, he, ha⟩ := bunref_ok inv hh
      simp only [hu, bind_ok]
      have hlt := rbs_size_lt hp
      have hk1 : st1.rbs[k]? = some p' := by rw [he]; simp [hlt]
      obtain ⟨st2, ps, h2, inv2, hd, he2, hsz2, ho2, _⟩ := dropB_ok k n st1 inv1 (by
        rw [hk1, Option.getD_some]; rw [hp, Option.getD_some] at h; omega)
      refine ⟨st2, ps, h2, inv2, hd, by rw [he2, he], by rw [hsz2, he]; simp, ?_, fun h' => by cases h'⟩
      intro j hj
      rw [ho2 j hj, he]
      simp only [Array.getElem?_setIfInBounds]
      have : ¬ k = j := fun h' => hj h'.symm
      simp [this]
    · simp only [hh, Bool.false_eq_true, if_false, pure_ok]
      exact ⟨st, st.rbs, rfl, inv, by simpa using hh, rfl, rfl, fun _ _ => rfl, fun _ => rfl⟩

theorem dropT_ok : ∀ (n : Nat) (st : St), SInv gh st → st.term.appRefs < n →
    ∃ st' tm, dropAll.dropT n st = .ok st' ∧ SInv gh st' ∧ heldT st' = false ∧ st' = { st with term := tm }
  | 0, _, _, h => absurd h (Nat.not_lt_zero _)
  | n + 1, st, inv, h => by
    unfold dropAll.dropT
    by_cases hh : heldT st = true
    · simp only [hh, if_true]
      obtain ⟨st1, tm, hu, inv1, he, ha⟩ := tunref_ok inv hh
      simp only [hu, bind_ok]
      obtain ⟨st2, tm2, h2, inv2, hd, he2⟩ := dropT_ok n st1 inv1 (by rw [he]; show tm.appRefs < n; omega)
      exact ⟨st2, tm2, h2, inv2, hd, by rw [he2, he]⟩
    · simp only [hh, Bool.false_eq_true, if_false, pure_ok]
      exact ⟨st, st.term, rfl, inv, by simpa using hh, rfl⟩

/-- The application holds nothing any more. -/
structure NoneHeld (st : St) : Prop where
  w : ∀ (i : Nat), heldW st i = false
  p : ∀ (k : Nat), heldP st k = false
  s : ∀ (k : Nat), heldS st k = false
  b : ∀ (k : Nat), heldB st k = false
  t : heldT st = false

theorem mem_range_reverse {n i : Nat} (h : i < n) : i ∈ (List.range n).reverse := by
  simp [h]

/-- Dropping every reference the application holds never fails, and afterwards it holds nothing. -/
theorem dropAll_ok {cfg : Cfg} (R : Repaired cfg) {st : St} (inv : SInv gh st) :
    ∃ st', dropAll cfg st = .ok st' ∧ SInv gh st' ∧ NoneHeld st' := by
  unfold dropAll
  -- windows, from the highest handle down to the root
  obtain ⟨s1, h1, ⟨i1, z1⟩, d1, _⟩ := foldlM_phase (fun st i => dropAll.dropW cfg ((getX st i).appRefs + 1) st i)
    (fun s => SInv gh s ∧ s.tree.wins.size = st.tree.wins.size) (fun i s => heldW s i = false)
    (fun s i hi => by
      obtain ⟨s', hs', inv', L, hd⟩ := dropW_ok R i _ s hi.1 (Nat.lt_succ_self _)
      exact ⟨s', hs', ⟨inv', L.size.trans hi.2⟩, hd, fun b hb => not_heldW_later L hb⟩)
    (List.range st.tree.wins.size).reverse st ⟨inv, rfl⟩
  simp only [h1, bind_ok]
  have W1 : ∀ (i : Nat), heldW s1 i = false := by
    intro i
    by_cases hi : i < st.tree.wins.size
    · exact d1 i (mem_range_reverse hi)
    · unfold heldW
      rw [Array.getElem?_eq_none (by rw [z1]; exact Nat.le_of_not_lt hi)]
  -- pens
  obtain ⟨s2, h2, ⟨i2, w2, z2⟩, d2, _⟩ := foldlM_phase (fun st k => dropAll.dropP ((st.pens[k]?.getD {}).appRefs + 1) st k)
    (fun s => SInv gh s ∧ (∀ (i : Nat), heldW s i = false) ∧ s.pens.size = s1.pens.size) (fun k s => heldP s k = false)
    (fun s k hi => by
      obtain ⟨s', ps, hs', inv', hd, he, hsz, ho, hsame⟩ := dropP_ok k _ s hi.1 (Nat.lt_succ_self _)
      refine ⟨s', hs', ⟨inv', fun i => by rw [he]; exact hi.2.1 i, by rw [he]; exact hsz.trans hi.2.2⟩, hd, ?_⟩
      intro b hb
      by_cases hbk : b = k
      · subst hbk; exact hd
      · rw [he]; unfold heldP at hb ⊢; simp only; rw [ho b hbk]; exact hb)
    (List.range s1.pens.size).reverse s1 ⟨i1, W1, rfl⟩
  simp only [h2, bind_ok]
  have P2 : ∀ (k : Nat), heldP s2 k = false := by
    intro k
    by_cases hk : k < s1.pens.size
    · exact d2 k (mem_range_reverse hk)
    · unfold heldP
      rw [Array.getElem?_eq_none (by rw [z2]; exact Nat.le_of_not_lt hk)]
  -- strings
  obtain ⟨s3, h3, ⟨i3, w3, p3, z3⟩, d3, _⟩ := foldlM_phase (fun st k => dropAll.dropS ((st.strs[k]?.getD {}).appRefs + 1) st k)
    (fun s => SInv gh s ∧ (∀ (i : Nat), heldW s i = false) ∧ (∀ (k : Nat), heldP s k = false) ∧ s.strs.size = s2.strs.size)
    (fun k s => heldS s k = false)
    (fun s k hi => by
      obtain ⟨s', ps, hs', inv', hd, he, hsz, ho, hsame⟩ := dropS_ok k _ s hi.1 (Nat.lt_succ_self _)
      refine ⟨s', hs', ⟨inv', fun i => by rw [he]; exact hi.2.1 i, fun i => by rw [he]; exact hi.2.2.1 i,
        by rw [he]; exact hsz.trans hi.2.2.2⟩, hd, ?_⟩
      intro b hb
      by_cases hbk : b = k
      · subst hbk; exact hd
      · rw [he]; unfold heldS at hb ⊢; simp only; rw [ho b hbk]; exact hb)
    (List.range s2.strs.size).reverse s2 ⟨i2, w2, P2, rfl⟩
  simp only [h3, bind_ok]
  have S3 : ∀ (k : Nat), heldS s3 k = false := by
    intro k
    by_cases hk : k < s2.strs.size
    · exact d3 k (mem_range_reverse hk)
    · unfold heldS
      rw [Array.getElem?_eq_none (by rw [z3]; exact Nat.le_of_not_lt hk)]
  -- render buffers
  obtain ⟨s4, h4, ⟨i4, w4, p4, q4, z4⟩, d4, _⟩ := foldlM_phase (fun st k => dropAll.dropB ((st.rbs[k]?.getD {}).appRefs + 1) st k)
    (fun s => SInv gh s ∧ (∀ (i : Nat), heldW s i = false) ∧ (∀ (k : Nat), heldP s k = false) ∧ (∀ (k : Nat), heldS s k = false) ∧
      s.rbs.size = s3.rbs.size)
    (fun k s => heldB s k = false)
    (fun s k hi => by
      obtain ⟨s', ps, hs', inv', hd, he, hsz, ho, hsame⟩ := dropB_ok k _ s hi.1 (Nat.lt_succ_self _)
      refine ⟨s', hs', ⟨inv', fun i => by rw [he]; exact hi.2.1 i, fun i => by rw [he]; exact hi.2.2.1 i,
        fun i => by rw [he]; exact hi.2.2.2.1 i, by rw [he]; exact hsz.trans hi.2.2.2.2⟩, hd, ?_⟩
      intro b hb
      by_cases hbk : b = k
      · subst hbk; exact hd
      · rw [he]; unfold heldB at hb ⊢; simp only; rw [ho b hbk]; exact hb)
    (List.range s3.rbs.size).reverse s3 ⟨i3, w3, p3, S3, rfl⟩
  simp only [h4, bind_ok]
  have B4 : ∀ (k : Nat), heldB s4 k = false := by
    intro k
    by_cases hk : k < s3.rbs.size
    · exact d4 k (mem_range_reverse hk)
    · unfold heldB
      rw [Array.getElem?_eq_none (by rw [z4]; exact Nat.le_of_not_lt hk)]
  -- the terminal
  obtain ⟨s5, tm, h5, i5, hd, he⟩ := dropT_ok _ s4 i4 (Nat.lt_succ_self _)
  exact ⟨s5, h5, i5, ⟨fun i => by rw [he]; exact w4 i, fun k => by rw [he]; exact p4 k, fun k => by rw [he]; exact q4 k,
    fun k => by rw [he]; exact B4 k, hd⟩⟩

/-- Once the application holds nothing, nothing is left: every window, pen, string, buffer and the terminal is freed
    and no request is queued. -/
theorem nothing_left {st : St} (inv : SInv gh st) (H : NoneHeld st) (hgt : gh.term = 0) (hgw : ∀ i, gh.win i = 0) :
    anythingLeft st = false := by
  -- every window is freed
  have hw : ∀ (i : Nat) (w : Win), st.tree.wins[i]? = some w → w.freed = true := by
    intro i w hw
    cases hf : w.freed with
    | true => rfl
    | false =>
      exfalso
      have h1 := inv.rc i w ⟨hw, hf⟩
      have h2 := inv.wref i w ⟨hw, hf⟩
      have h3 := H.w i
      unfold heldW at h3
      simp only [hw, hf, Bool.not_false, Bool.true_and, decide_eq_false_iff_not, Nat.not_lt, Nat.le_zero_eq] at h3
      rw [h3, hgw i] at h2
      omega
  -- so no window holds a pen
  have hh : ∀ (k : Nat), holders st k = 0 := by
    intro k
    unfold holders
    rw [List.length_eq_zero_iff, List.filter_eq_nil_iff]
    intro x hx
    obtain ⟨i, hi, rfl⟩ := List.getElem_of_mem hx
    have hi' : i < st.wx.size := by simpa using hi
    have hlt : i < st.tree.wins.size := by rw [← inv.wx_size]; exact hi'
    have hwi := Array.getElem?_eq_getElem (xs := st.tree.wins) hlt
    have := inv.dead_pen i _ hwi (hw i _ hwi) (by simp)
    rw [getX_of_lt hi'] at this
    simp [this]
  have hroot : ¬ ((∃ r, LiveW st.tree 0 r) ∨ 0 ∈ ([] : List Nat)) := by
    rintro (⟨r, hr⟩ | h)
    · have := hw 0 r hr.1; rw [hr.2] at this; cases this
    · simp at h
  unfold anythingLeft
  simp only [Bool.or_eq_false_iff, Bool.not_eq_false', List.isEmpty_iff]
  refine ⟨⟨⟨⟨⟨?_, ?_⟩, ?_⟩, ?_⟩, ?_⟩, ?_⟩
  · rw [Array.any_eq_false]
    intro i hi
    have := hw i _ (Array.getElem?_eq_getElem hi)
    simp [this]
  · rw [Array.any_eq_false]
    intro k hk
    have hp := Array.getElem?_eq_getElem (xs := st.pens) hk
    cases hf : (st.pens[k]).freed with
    | true => simp
    | false =>
      exfalso
      have h1 := (inv.pens.rc k _ hp).1 hf
      have h2 := inv.pens.pos k _ hp hf
      have h3 := H.p k
      unfold heldP at h3
      simp only [hp, hf, Bool.not_false, Bool.true_and, decide_eq_false_iff_not, Nat.not_lt, Nat.le_zero_eq] at h3
      rw [hh k, h3] at h1
      omega
  · rw [Array.any_eq_false]
    intro k hk
    have hp := Array.getElem?_eq_getElem (xs := st.strs) hk
    cases hf : (st.strs[k]).freed with
    | true => simp
    | false =>
      exfalso
      have h1 := inv.simple.2 k _ hp hf
      have h3 := H.s k
      unfold heldS at h3
      simp only [hp, hf, Bool.not_false, Bool.true_and, decide_eq_false_iff_not, Nat.not_lt, Nat.le_zero_eq] at h3
      rw [h3] at h1
      omega
  · rw [Array.any_eq_false]
    intro k hk
    have hp := Array.getElem?_eq_getElem (xs := st.rbs) hk
    cases hf : (st.rbs[k]).freed with
    | true => simp
    | false =>
      exfalso
      have h1 := inv.simple.1 k _ hp hf
      have h3 := H.b k
      unfold heldB at h3
      simp only [hp, hf, Bool.not_false, Bool.true_and, decide_eq_false_iff_not, Nat.not_lt, Nat.le_zero_eq] at h3
      rw [h3] at h1
      omega
  · cases hf : st.term.freed with
    | true => rfl
    | false =>
      exfalso
      have h1 := inv.term_free hf hroot
      have h3 := H.t
      unfold heldT at h3
      simp only [hf, Bool.not_false, Bool.true_and, decide_eq_false_iff_not, Nat.not_lt, Nat.le_zero_eq] at h3
      rw [h3, hgt] at h1
      omega
  · cases hc : st.tree.root.changes with
    | nil => rfl
    | cons r rest =>
      exfalso
      obtain ⟨_, w, hlw, _, _⟩ := inv.tinv.req_ok r (by rw [hc]; simp)
      have := hw r.win w hlw.1
      rw [hlw.2] at this; cases this

end Tickit.Life
