import Tickit.Proof.LifeOps
import Tickit.Proof.LifeCopy
/-
  C08 proofs, part 6: one step of the application (`Life.step`) for every operation that runs no event handler.
-/
namespace Tickit.Life
open WinTree (Id Win Req Change Tree)

/-! ## changes of a window's record that keep its pen -/

theorem SInv.setX_same {st : St} (inv : SInv st) (i : Nat) (x : WinX) (hp : x.pen = (getX st i).pen) :
    SInv (setX st i x) :=
  inv.of_wx rfl rfl rfl rfl (setX_map_pen x hp)

/-! ## pens -/

theorem pens_size_lt {st : St} {k : Nat} {p : Obj} (h : st.pens[k]? = some p) : k < st.pens.size := by
  by_cases hlt : k < st.pens.size
  · exact hlt
  · have := Array.getElem?_eq_none (xs := st.pens) (Nat.le_of_not_lt hlt)
    rw [h] at this; cases this

/-- A change of one pen object that keeps `refcount - appRefs` and liveness consistent. -/
theorem SInv.set_pen {st : St} (inv : SInv st) {k : Nat} {p p' : Obj} (hk : st.pens[k]? = some p)
    (h1 : p'.freed = false → p.freed = false ∧ p'.refcount - (p'.appRefs : Int) = p.refcount - (p.appRefs : Int))
    (h2 : p'.freed = true → holders st k = 0) :
    SInv { st with pens := st.pens.setIfInBounds k p' } := by
  have hlt := pens_size_lt hk
  have hh : ∀ (j : Nat), holders { st with pens := st.pens.setIfInBounds k p' } j = holders st j := fun j => holders_congr rfl j
  refine ⟨inv.tinv, inv.wx_size, inv.rc, List.nodup_nil, by intro i hi; simp at hi, inv.dead_pen, ⟨?_, ?_⟩,
    inv.term_held, inv.term_free, inv.term_dead, inv.rb_rc⟩
  · intro j q hq
    rw [hh]
    simp only [Array.getElem?_setIfInBounds] at hq
    by_cases hkj : k = j
    · subst hkj
      simp only [if_true, hlt, Option.some.injEq] at hq
      subst hq
      refine ⟨fun hf => ?_, h2⟩
      obtain ⟨hpf, he⟩ := h1 hf
      have := (inv.pens.rc k p hk).1 hpf
      omega
    · simp only [hkj, if_false] at hq
      exact inv.pens.rc j q hq
  · intro j hj
    rw [hh]
    simp only [Array.getElem?_setIfInBounds] at hj
    by_cases hkj : k = j
    · subst hkj; simp [hlt] at hj
    · simp only [hkj, if_false] at hj
      exact inv.pens.ex j hj

theorem heldP_spec {st : St} {k : Nat} (h : heldP st k = true) : ∃ p, st.pens[k]? = some p ∧ p.freed = false ∧ 0 < p.appRefs := by
  unfold heldP at h
  cases hp : st.pens[k]? with
  | none => simp [hp] at h
  | some p =>
    simp only [hp, Bool.and_eq_true, Bool.not_eq_true', decide_eq_true_eq] at h
    exact ⟨p, rfl, h.1, h.2⟩

/-- `tickit_pen_ref` by the application. -/
theorem pref_ok {st : St} (inv : SInv st) {k : Nat} (h : heldP st k = true) :
    ∃ st', penRef { st with pens := st.pens.setIfInBounds k { (st.pens[k]?.getD {}) with appRefs := (st.pens[k]?.getD {}).appRefs + 1 } } k = .ok st' ∧
      SInv st' := by
  obtain ⟨p, hp, hf, _⟩ := heldP_spec h
  have hlt := pens_size_lt hp
  unfold penRef
  simp only [hp, Option.getD_some, Array.getElem?_setIfInBounds, if_true, hlt, hf, Bool.false_eq_true, if_false, pure_ok]
  refine ⟨_, rfl, ?_⟩
  rw [Array.setIfInBounds_setIfInBounds]
  exact inv.set_pen (p' := { refcount := p.refcount + 1, appRefs := p.appRefs + 1 }) hp
    (fun _ => ⟨hf, by show p.refcount + 1 - ((p.appRefs + 1 : Nat) : Int) = _; omega⟩) (fun h' => by cases h')

/-- `tickit_pen_unref` by the application. -/
theorem punref_ok {st : St} (inv : SInv st) {k : Nat} (h : heldP st k = true) :
    ∃ st', penUnref { st with pens := st.pens.setIfInBounds k { (st.pens[k]?.getD {}) with appRefs := (st.pens[k]?.getD {}).appRefs - 1 } } k = .ok st' ∧
      SInv st' := by
  obtain ⟨p, hp, hf, hpos⟩ := heldP_spec h
  have hlt := pens_size_lt hp
  have hrc := (inv.pens.rc k p hp).1 hf
  unfold penUnref
  simp only [hp, Option.getD_some, Array.getElem?_setIfInBounds, if_true, hlt, hf, Bool.false_eq_true, if_false]
  have hge : ¬ p.refcount < 1 := by omega
  simp only [hge, if_false, pure_ok]
  refine ⟨_, rfl, ?_⟩
  rw [Array.setIfInBounds_setIfInBounds]
  exact inv.set_pen (p' := ({ refcount := p.refcount, appRefs := p.appRefs - 1 } : Obj).dropped) hp
    (fun _ => ⟨hf, by simp only [dropped_refcount, dropped_appRefs]; omega⟩)
    (fun h' => by
      simp only [dropped_freed, decide_eq_true_eq] at h'
      have : (holders st k : Int) = 0 := by omega
      omega)

/-- `tickit_pen_new`. -/
theorem pen_new_ok {st : St} (inv : SInv st) : SInv { st with pens := st.pens.push {} } := by
  have hh : ∀ (j : Nat), holders { st with pens := st.pens.push {} } j = holders st j := fun j => holders_congr rfl j
  refine ⟨inv.tinv, inv.wx_size, inv.rc, List.nodup_nil, by intro i hi; simp at hi, inv.dead_pen, ⟨?_, ?_⟩,
    inv.term_held, inv.term_free, inv.term_dead, inv.rb_rc⟩
  · intro j q hq
    rw [hh]
    simp only [Array.getElem?_push] at hq
    by_cases hj : j = st.pens.size
    · subst hj
      simp only [if_true, Option.some.injEq] at hq
      subst hq
      have h0 := inv.pens.ex st.pens.size (Array.getElem?_eq_none (Nat.le_refl _))
      refine ⟨fun _ => ?_, fun h' => by cases h'⟩
      show (1 : Int) = ((1 : Nat) : Int) + _
      rw [h0]; simp
    · simp only [hj, if_false] at hq
      exact inv.pens.rc j q hq
  · intro j hj
    rw [hh]
    simp only [Array.getElem?_push] at hj
    by_cases hjs : j = st.pens.size
    · subst hjs; simp at hj
    · simp only [hjs, if_false] at hj
      exact inv.pens.ex j hj

end Tickit.Life

namespace Tickit.Life
open WinTree (Id Win Req Change Tree)

/-- `tickit_pen_unref` on a live pen with a positive count: what changes. -/
theorem penUnref_spec {st : St} {k : Nat} {p : Obj} (hp : st.pens[k]? = some p) (hf : p.freed = false) (hr : 1 ≤ p.refcount) :
    ∃ st1, penUnref st k = .ok st1 ∧ st1.tree = st.tree ∧ st1.wx = st.wx ∧ st1.term = st.term ∧ st1.rbs = st.rbs ∧
      st1.pens[k]? = some p.dropped ∧ ∀ (j : Nat), j ≠ k → st1.pens[j]? = st.pens[j]? := by
  unfold penUnref
  simp only [hp, hf, Bool.false_eq_true, if_false]
  have hge : ¬ p.refcount < 1 := by omega
  simp only [hge, if_false, pure_ok]
  refine ⟨_, rfl, rfl, rfl, rfl, rfl, ?_, ?_⟩
  · simp [pens_size_lt hp]
  · intro j hj
    simp only [Array.getElem?_setIfInBounds]
    have : ¬ k = j := fun h => hj h.symm
    simp [this]

/-- `tickit_pen_ref` on a live pen: what changes. -/
theorem penRef_spec {st : St} {k : Nat} {p : Obj} (hp : st.pens[k]? = some p) (hf : p.freed = false) :
    ∃ st1 p1, penRef st k = .ok st1 ∧ st1.tree = st.tree ∧ st1.wx = st.wx ∧ st1.term = st.term ∧ st1.rbs = st.rbs ∧
      st1.pens[k]? = some p1 ∧ p1.freed = false ∧ p1.appRefs = p.appRefs ∧ p1.refcount = p.refcount + 1 ∧
      ∀ (j : Nat), j ≠ k → st1.pens[j]? = st.pens[j]? := by
  unfold penRef
  simp only [hp, hf, Bool.false_eq_true, if_false, pure_ok]
  refine ⟨_, { p with refcount := p.refcount + 1 }, rfl, rfl, rfl, rfl, rfl, ?_, hf, rfl, rfl, ?_⟩
  · simp [pens_size_lt hp, hf]
  · intro j hj
    simp only [Array.getElem?_setIfInBounds]
    have : ¬ k = j := fun h => hj h.symm
    simp [this]

/-- Dropping a window's pen does not free a pen the application still holds. -/
theorem dropWinPen_keeps_held {st : St} (P : PensOk st) {i : Nat} (hi : i < st.wx.size) {st1 : St}
    (hd : dropWinPen st i = .ok st1) {k : Nat} {p : Obj} (hp : st.pens[k]? = some p) (hf : p.freed = false)
    (hpos : 0 < p.appRefs) : ∃ p1, st1.pens[k]? = some p1 ∧ p1.freed = false := by
  unfold dropWinPen at hd
  cases hpen : (getX st i).pen with
  | null => simp only [hpen, pure_ok, Out.ok.injEq] at hd; subst hd; exact ⟨p, hp, hf⟩
  | own => simp only [hpen, pure_ok, Out.ok.injEq] at hd; subst hd; exact ⟨p, hp, hf⟩
  | app k0 =>
    simp only [hpen] at hd
    have hpos0 := holders_pos hi hpen
    cases hpk : st.pens[k0]? with
    | none => have := P.ex k0 hpk; omega
    | some p0 =>
      obtain ⟨hlive, hdead⟩ := P.rc k0 p0 hpk
      have hf0 : p0.freed = false := by
        cases hf0 : p0.freed with
        | false => rfl
        | true => have := hdead hf0; omega
      have hrc := hlive hf0
      obtain ⟨st1', hu, _, _, _, _, hk0, hother⟩ := penUnref_spec hpk hf0 (by omega)
      rw [hu] at hd
      simp only [Out.ok.injEq] at hd
      subst hd
      by_cases hkk : k = k0
      · subst hkk
        have : p = p0 := by rw [hpk] at hp; exact (Option.some.inj hp).symm
        subst this
        refine ⟨_, hk0, ?_⟩
        simp only [dropped_freed, decide_eq_false_iff_not]
        omega
      · exact ⟨p, by rw [hother k hkk]; exact hp, hf⟩

/-- `win->pen = tickit_pen_ref(pen)` for a window that holds no pen. -/
theorem assignPen_ok {st : St} (inv : SInv st) {win : Nat} {ww : Win} (hw : LiveW st.tree win ww)
    (hnull : (getX st win).pen = .null) {k : Nat} {p : Obj} (hp : st.pens[k]? = some p) (hf : p.freed = false) :
    ∃ st', assignPen st win k = .ok st' ∧ SInv st' := by
  have hwin : win < st.wx.size := by rw [inv.wx_size]; exact hw.lt
  obtain ⟨st1, p1, href, ht1, hwx1, htm1, hrb1, hk1, hf1, ha1, hr1, hother⟩ := penRef_spec hp hf
  unfold assignPen
  simp only [href, bind_ok, pure_ok]
  refine ⟨_, rfl, ?_⟩
  have hwin1 : win < st1.wx.size := by rw [hwx1]; exact hwin
  have hgx1 : getX st1 win = getX st win := by unfold getX; rw [hwx1]
  have hh : ∀ (j : Nat), holders (setX st1 win { getX st1 win with pen := .app k }) j = holders st j + (if k = j then 1 else 0) := by
    intro j
    have := holders_setX (st := st1) { getX st1 win with pen := .app k } hwin1 j
    rw [hgx1, hnull] at this
    have e : (PenRef.null = PenRef.app j) = False := by simp
    have e2 : (PenRef.app k = PenRef.app j) = (k = j) := by simp
    simp only [e, if_false, Nat.add_zero, e2] at this
    rw [← hgx1] at this
    rw [this, holders_congr hwx1]
  have hgx : ∀ (j : Nat), j ≠ win → getX (setX st1 win { getX st1 win with pen := .app k }) j = getX st j := by
    intro j hj
    rw [getX_setX_ne _ (Ne.symm hj)]
    unfold getX; rw [hwx1]
  refine ⟨by simp only [setX_tree, ht1]; exact inv.tinv, by simp only [setX_size, setX_tree, ht1, hwx1]; exact inv.wx_size,
    by simp only [setX_tree, ht1]; exact inv.rc, List.nodup_nil, by intro i hi; simp at hi, ?_, ⟨?_, ?_⟩,
    by simp only [setX_term, setX_tree, htm1, ht1]; exact inv.term_held,
    by simp only [setX_term, setX_tree, htm1, ht1]; exact inv.term_free,
    by simp only [setX_term, setX_tree, htm1, ht1]; exact inv.term_dead,
    by simp only [setX, hrb1]; exact inv.rb_rc⟩
  · intro i w hwi hfi _
    simp only [setX_tree, ht1] at hwi
    have hiw : i ≠ win := by
      intro h; subst h
      rw [hw.1] at hwi; cases hwi
      rw [hw.2] at hfi; cases hfi
    rw [hgx i hiw]
    exact inv.dead_pen i w hwi hfi (by simp)
  · intro j q hq
    rw [hh]
    simp only [setX_pens] at hq
    by_cases hkj : k = j
    · subst hkj
      rw [hk1] at hq; cases hq
      have := (inv.pens.rc k p hp).1 hf
      refine ⟨fun _ => ?_, fun h' => by rw [hf1] at h'; cases h'⟩
      simp only [if_true]
      rw [hr1, ha1]; omega
    · rw [hother j (Ne.symm hkj)] at hq
      simp only [hkj, if_false, Nat.add_zero]
      exact inv.pens.rc j q hq
  · intro j hj
    rw [hh]
    simp only [setX_pens] at hj
    by_cases hkj : k = j
    · subst hkj; rw [hk1] at hj; cases hj
    · rw [hother j (Ne.symm hkj)] at hj
      simp only [hkj, if_false, Nat.add_zero]
      exact inv.pens.ex j hj

/-- `tickit_window_set_pen`. -/
theorem setPen_ok {st : St} (inv : SInv st) {win : Nat} {ww : Win} (hw : LiveW st.tree win ww) (pen : Option Nat)
    (hpen : ∀ (k : Nat), pen = some k → heldP st k = true) :
    ∃ st', setPen st win pen = .ok st' ∧ SInv st' := by
  have hwin : win < st.wx.size := by rw [inv.wx_size]; exact hw.lt
  unfold setPen
  simp only [getW, get_live hw, bind_ok]
  obtain ⟨st1, hdrop, ht1, hwx1, htm1, hrb1, _, P2⟩ := release_pen inv.pens hwin
  simp only [hdrop, bind_ok]
  have hwin1 : win < st1.wx.size := by rw [hwx1]; exact hwin
  have hgx : ∀ (j : Nat), j ≠ win → getX (setX st1 win { getX st1 win with pen := .null }) j = getX st j := by
    intro j hj
    rw [getX_setX_ne _ (Ne.symm hj)]
    unfold getX; rw [hwx1]
  have inv2 : SInv (setX st1 win { getX st1 win with pen := .null }) := by
    refine ⟨by simp only [setX_tree, ht1]; exact inv.tinv, by simp only [setX_size, setX_tree, ht1, hwx1]; exact inv.wx_size,
      by simp only [setX_tree, ht1]; exact inv.rc, List.nodup_nil, by intro i hi; simp at hi, ?_, P2,
      by simp only [setX_term, setX_tree, htm1, ht1]; exact inv.term_held,
      by simp only [setX_term, setX_tree, htm1, ht1]; exact inv.term_free,
      by simp only [setX_term, setX_tree, htm1, ht1]; exact inv.term_dead,
      by simp only [setX, hrb1]; exact inv.rb_rc⟩
    intro i w hwi hfi _
    simp only [setX_tree, ht1] at hwi
    have hiw : i ≠ win := by
      intro h; subst h
      rw [hw.1] at hwi; cases hwi
      rw [hw.2] at hfi; cases hfi
    rw [hgx i hiw]
    exact inv.dead_pen i w hwi hfi (by simp)
  cases pen with
  | none => exact ⟨_, rfl, inv2⟩
  | some k =>
    obtain ⟨p, hp, hf, hpos⟩ := heldP_spec (hpen k rfl)
    obtain ⟨p1, hp1, hf1⟩ := dropWinPen_keeps_held inv.pens hwin hdrop hp hf hpos
    have hw2 : LiveW (setX st1 win { getX st1 win with pen := .null }).tree win ww := by simp only [setX_tree, ht1]; exact hw
    exact assignPen_ok inv2 hw2 (by rw [getX_setX_self _ hwin1]) (by simpa using hp1) hf1

end Tickit.Life
