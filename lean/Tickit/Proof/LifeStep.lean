import Tickit.Proof.LifeOps
import Tickit.Proof.LifeCopy
/-
  C08 proofs, part 6: one step of the application (`Life.step`) for every operation that runs no event handler.
-/
namespace Tickit.Life
open WinTree (Id Win Req Change Tree)

/-! ## changes of a window's record that keep its pen -/

theorem SInv.setX_same {st : St} (inv : SInv st) (i : Nat) (x : WinX) (hp : x.pen = (getX st i).pen) :
    SInv (setX st i x) :=
  inv.of_wx rfl rfl rfl rfl (setX_map_pen x hp)

/-! ## pens -/

theorem pens_size_lt {st : St} {k : Nat} {p : Obj} (h : st.pens[k]? = some p) : k < st.pens.size := by
  by_cases hlt : k < st.pens.size
  · exact hlt
  · have := Array.getElem?_eq_none (xs := st.pens) (Nat.le_of_not_lt hlt)
    rw [h] at this; cases this

/-- A change of one pen object that keeps `refcount - appRefs` and liveness consistent. -/
theorem SInv.set_pen {st : St} (inv : SInv st) {k : Nat} {p p' : Obj} (hk : st.pens[k]? = some p)
    (h1 : p'.freed = false → p.freed = false ∧ p'.refcount - (p'.appRefs : Int) = p.refcount - (p.appRefs : Int))
    (h2 : p'.freed = true → holders st k = 0) (h3 : p'.freed = false → 1 ≤ p'.refcount) :
    SInv { st with pens := st.pens.setIfInBounds k p' } := by
  have hlt := pens_size_lt hk
  have hh : ∀ (j : Nat), holders { st with pens := st.pens.setIfInBounds k p' } j = holders st j := fun j => holders_congr rfl j
  refine ⟨inv.tinv, inv.wx_size, inv.rc, List.nodup_nil, by intro i hi; simp at hi, inv.dead_pen, ⟨?_, ?_, ?_⟩,
    inv.term_held, inv.term_free, inv.term_dead, inv.rb_rc⟩
  rotate_left 2
  · intro j q hq hfq
    simp only [Array.getElem?_setIfInBounds] at hq
    by_cases hkj : k = j
    · subst hkj
      simp only [if_true, hlt, Option.some.injEq] at hq
      subst hq
      exact h3 hfq
    · simp only [hkj, if_false] at hq
      exact inv.pens.pos j q hq hfq
  · intro j q hq
    rw [hh]
    simp only [Array.getElem?_setIfInBounds] at hq
    by_cases hkj : k = j
    · subst hkj
      simp only [if_true, hlt, Option.some.injEq] at hq
      subst hq
      refine ⟨fun hf => ?_, h2⟩
      obtain ⟨hpf, he⟩ := h1 hf
      have := (inv.pens.rc k p hk).1 hpf
      omega
    · simp only [hkj, if_false] at hq
      exact inv.pens.rc j q hq
  · intro j hj
    rw [hh]
    simp only [Array.getElem?_setIfInBounds] at hj
    by_cases hkj : k = j
    · subst hkj; simp [hlt] at hj
    · simp only [hkj, if_false] at hj
      exact inv.pens.ex j hj

theorem heldP_spec {st : St} {k : Nat} (h : heldP st k = true) : ∃ p, st.pens[k]? = some p ∧ p.freed = false ∧ 0 < p.appRefs := by
  unfold heldP at h
  cases hp : st.pens[k]? with
  | none => simp [hp] at h
  | some p =>
    simp only [hp, Bool.and_eq_true, Bool.not_eq_true', decide_eq_true_eq] at h
    exact ⟨p, rfl, h.1, h.2⟩

/-- `tickit_pen_ref` by the application. -/
theorem pref_ok {st : St} (inv : SInv st) {k : Nat} (h : heldP st k = true) :
    ∃ st', penRef { st with pens := st.pens.setIfInBounds k { (st.pens[k]?.getD {}) with appRefs := (st.pens[k]?.getD {}).appRefs + 1 } } k = .ok st' ∧
      SInv st' := by
  obtain ⟨p, hp, hf, _⟩ := heldP_spec h
  have hlt := pens_size_lt hp
  unfold penRef
  simp only [hp, Option.getD_some, Array.getElem?_setIfInBounds, if_true, hlt, hf, Bool.false_eq_true, if_false, pure_ok]
  refine ⟨_, rfl, ?_⟩
  rw [Array.setIfInBounds_setIfInBounds]
  exact inv.set_pen (p' := { refcount := p.refcount + 1, appRefs := p.appRefs + 1 }) hp
    (fun _ => ⟨hf, by show p.refcount + 1 - ((p.appRefs + 1 : Nat) : Int) = _; omega⟩) (fun h' => by cases h')
    (fun _ => by have := inv.pens.pos k p hp hf; show 1 ≤ p.refcount + 1; omega)

/-- `tickit_pen_unref` by the application. -/
theorem punref_ok {st : St} (inv : SInv st) {k : Nat} (h : heldP st k = true) :
    ∃ st', penUnref { st with pens := st.pens.setIfInBounds k { (st.pens[k]?.getD {}) with appRefs := (st.pens[k]?.getD {}).appRefs - 1 } } k = .ok st' ∧
      SInv st' := by
  obtain ⟨p, hp, hf, hpos⟩ := heldP_spec h
  have hlt := pens_size_lt hp
  have hrc := (inv.pens.rc k p hp).1 hf
  unfold penUnref
  simp only [hp, Option.getD_some, Array.getElem?_setIfInBounds, if_true, hlt, hf, Bool.false_eq_true, if_false]
  have hge : ¬ p.refcount < 1 := by omega
  simp only [hge, if_false, pure_ok]
  refine ⟨_, rfl, ?_⟩
  rw [Array.setIfInBounds_setIfInBounds]
  exact inv.set_pen (p' := ({ refcount := p.refcount, appRefs := p.appRefs - 1 } : Obj).dropped) hp
    (fun _ => ⟨hf, by simp only [dropped_refcount, dropped_appRefs]; omega⟩)
    (fun h' => by
      simp only [dropped_freed, decide_eq_true_eq] at h'
      have : (holders st k : Int) = 0 := by omega
      omega)
    (fun h' => by
      simp only [dropped_freed, decide_eq_false_iff_not] at h'
      simp only [dropped_refcount]
      omega)

/-- `tickit_pen_new`. -/
theorem pen_new_ok {st : St} (inv : SInv st) : SInv { st with pens := st.pens.push {} } := by
  have hh : ∀ (j : Nat), holders { st with pens := st.pens.push {} } j = holders st j := fun j => holders_congr rfl j
  refine ⟨inv.tinv, inv.wx_size, inv.rc, List.nodup_nil, by intro i hi; simp at hi, inv.dead_pen, ⟨?_, ?_, ?_⟩,
    inv.term_held, inv.term_free, inv.term_dead, inv.rb_rc⟩
  rotate_left 2
  · intro j q hq hfq
    simp only [Array.getElem?_push] at hq
    by_cases hj : j = st.pens.size
    · subst hj
      simp only [if_true, Option.some.injEq] at hq
      subst hq
      show (1 : Int) ≤ 1
      omega
    · simp only [hj, if_false] at hq
      exact inv.pens.pos j q hq hfq
  · intro j q hq
    rw [hh]
    simp only [Array.getElem?_push] at hq
    by_cases hj : j = st.pens.size
    · subst hj
      simp only [if_true, Option.some.injEq] at hq
      subst hq
      have h0 := inv.pens.ex st.pens.size (Array.getElem?_eq_none (Nat.le_refl _))
      refine ⟨fun _ => ?_, fun h' => by cases h'⟩
      show (1 : Int) = ((1 : Nat) : Int) + _
      rw [h0]; simp
    · simp only [hj, if_false] at hq
      exact inv.pens.rc j q hq
  · intro j hj
    rw [hh]
    simp only [Array.getElem?_push] at hj
    by_cases hjs : j = st.pens.size
    · subst hjs; simp at hj
    · simp only [hjs, if_false] at hj
      exact inv.pens.ex j hj

end Tickit.Life

namespace Tickit.Life
open WinTree (Id Win Req Change Tree)

/-- `tickit_pen_unref` on a live pen with a positive count: what changes. -/
theorem penUnref_spec {st : St} {k : Nat} {p : Obj} (hp : st.pens[k]? = some p) (hf : p.freed = false) (hr : 1 ≤ p.refcount) :
    ∃ st1, penUnref st k = .ok st1 ∧ st1.tree = st.tree ∧ st1.wx = st.wx ∧ st1.term = st.term ∧ st1.rbs = st.rbs ∧
      st1.pens[k]? = some p.dropped ∧ ∀ (j : Nat), j ≠ k → st1.pens[j]? = st.pens[j]? := by
  unfold penUnref
  simp only [hp, hf, Bool.false_eq_true, if_false]
  have hge : ¬ p.refcount < 1 := by omega
  simp only [hge, if_false, pure_ok]
  refine ⟨_, rfl, rfl, rfl, rfl, rfl, ?_, ?_⟩
  · simp [pens_size_lt hp]
  · intro j hj
    simp only [Array.getElem?_setIfInBounds]
    have : ¬ k = j := fun h => hj h.symm
    simp [this]

/-- `tickit_pen_ref` on a live pen: what changes. -/
theorem penRef_spec {st : St} {k : Nat} {p : Obj} (hp : st.pens[k]? = some p) (hf : p.freed = false) :
    ∃ st1 p1, penRef st k = .ok st1 ∧ st1.tree = st.tree ∧ st1.wx = st.wx ∧ st1.term = st.term ∧ st1.rbs = st.rbs ∧
      st1.pens[k]? = some p1 ∧ p1.freed = false ∧ p1.appRefs = p.appRefs ∧ p1.refcount = p.refcount + 1 ∧
      ∀ (j : Nat), j ≠ k → st1.pens[j]? = st.pens[j]? := by
  unfold penRef
  simp only [hp, hf, Bool.false_eq_true, if_false, pure_ok]
  refine ⟨_, { p with refcount := p.refcount + 1 }, rfl, rfl, rfl, rfl, rfl, ?_, hf, rfl, rfl, ?_⟩
  · simp [pens_size_lt hp, hf]
  · intro j hj
    simp only [Array.getElem?_setIfInBounds]
    have : ¬ k = j := fun h => hj h.symm
    simp [this]

/-- Dropping a window's pen does not free a pen the application still holds. -/
theorem dropWinPen_keeps_held {st : St} (P : PensOk st) {i : Nat} (hi : i < st.wx.size) {st1 : St}
    (hd : dropWinPen st i = .ok st1) {k : Nat} {p : Obj} (hp : st.pens[k]? = some p) (hf : p.freed = false)
    (hpos : 0 < p.appRefs) : ∃ p1, st1.pens[k]? = some p1 ∧ p1.freed = false := by
  unfold dropWinPen at hd
  cases hpen : (getX st i).pen with
  | null => simp only [hpen, pure_ok, Out.ok.injEq] at hd; subst hd; exact ⟨p, hp, hf⟩
  | own => simp only [hpen, pure_ok, Out.ok.injEq] at hd; subst hd; exact ⟨p, hp, hf⟩
  | app k0 =>
    simp only [hpen] at hd
    have hpos0 := holders_pos hi hpen
    cases hpk : st.pens[k0]? with
    | none => have := P.ex k0 hpk; omega
    | some p0 =>
      obtain ⟨hlive, hdead⟩ := P.rc k0 p0 hpk
      have hf0 : p0.freed = false := by
        cases hf0 : p0.freed with
        | false => rfl
        | true => have := hdead hf0; omega
      have hrc := hlive hf0
      obtain ⟨st1', hu, _, _, _, _, hk0, hother⟩ := penUnref_spec hpk hf0 (by omega)
      rw [hu] at hd
      simp only [Out.ok.injEq] at hd
      subst hd
      by_cases hkk : k = k0
      · subst hkk
        have : p = p0 := by rw [hpk] at hp; exact (Option.some.inj hp).symm
        subst this
        refine ⟨_, hk0, ?_⟩
        simp only [dropped_freed, decide_eq_false_iff_not]
        omega
      · exact ⟨p, by rw [hother k hkk]; exact hp, hf⟩

/-- `win->pen = tickit_pen_ref(pen)` for a window that holds no pen. -/
theorem assignPen_ok {st : St} (inv : SInv st) {win : Nat} {ww : Win} (hw : LiveW st.tree win ww)
    (hnull : (getX st win).pen = .null) {k : Nat} {p : Obj} (hp : st.pens[k]? = some p) (hf : p.freed = false) :
    ∃ st', assignPen st win k = .ok st' ∧ SInv st' := by
  have hwin : win < st.wx.size := by rw [inv.wx_size]; exact hw.lt
  obtain ⟨st1, p1, href, ht1, hwx1, htm1, hrb1, hk1, hf1, ha1, hr1, hother⟩ := penRef_spec hp hf
  unfold assignPen
  simp only [href, bind_ok, pure_ok]
  refine ⟨_, rfl, ?_⟩
  have hwin1 : win < st1.wx.size := by rw [hwx1]; exact hwin
  have hgx1 : getX st1 win = getX st win := by unfold getX; rw [hwx1]
  have hh : ∀ (j : Nat), holders (setX st1 win { getX st1 win with pen := .app k }) j = holders st j + (if k = j then 1 else 0) := by
    intro j
    have := holders_setX (st := st1) { getX st1 win with pen := .app k } hwin1 j
    rw [hgx1, hnull] at this
    have e : (PenRef.null = PenRef.app j) = False := by simp
    have e2 : (PenRef.app k = PenRef.app j) = (k = j) := by simp
    simp only [e, if_false, Nat.add_zero, e2] at this
    rw [← hgx1] at this
    rw [this, holders_congr hwx1]
  have hgx : ∀ (j : Nat), j ≠ win → getX (setX st1 win { getX st1 win with pen := .app k }) j = getX st j := by
    intro j hj
    rw [getX_setX_ne _ (Ne.symm hj)]
    unfold getX; rw [hwx1]
  refine ⟨by simp only [setX_tree, ht1]; exact inv.tinv, by simp only [setX_size, setX_tree, ht1, hwx1]; exact inv.wx_size,
    by simp only [setX_tree, ht1]; exact inv.rc, List.nodup_nil, by intro i hi; simp at hi, ?_, ⟨?_, ?_, ?_⟩,
    by simp only [setX_term, setX_tree, htm1, ht1]; exact inv.term_held,
    by simp only [setX_term, setX_tree, htm1, ht1]; exact inv.term_free,
    by simp only [setX_term, setX_tree, htm1, ht1]; exact inv.term_dead,
    by simp only [setX, hrb1]; exact inv.rb_rc⟩
  · intro i w hwi hfi _
    simp only [setX_tree, ht1] at hwi
    have hiw : i ≠ win := by
      intro h; subst h
      rw [hw.1] at hwi; cases hwi
      rw [hw.2] at hfi; cases hfi
    rw [hgx i hiw]
    exact inv.dead_pen i w hwi hfi (by simp)
  · intro j q hq
    rw [hh]
    simp only [setX_pens] at hq
    by_cases hkj : k = j
    · subst hkj
      rw [hk1] at hq; cases hq
      have := (inv.pens.rc k p hp).1 hf
      refine ⟨fun _ => ?_, fun h' => by rw [hf1] at h'; cases h'⟩
      simp only [if_true]
      rw [hr1, ha1]; omega
    · rw [hother j (Ne.symm hkj)] at hq
      simp only [hkj, if_false, Nat.add_zero]
      exact inv.pens.rc j q hq
  · intro j hj
    rw [hh]
    simp only [setX_pens] at hj
    by_cases hkj : k = j
    · subst hkj; rw [hk1] at hj; cases hj
    · rw [hother j (Ne.symm hkj)] at hj
      simp only [hkj, if_false, Nat.add_zero]
      exact inv.pens.ex j hj
  · intro j q hq hfq
    simp only [setX_pens] at hq
    by_cases hkj : k = j
    · subst hkj
      rw [hk1] at hq; cases hq
      have := inv.pens.pos k p hp hf
      rw [hr1]; omega
    · rw [hother j (Ne.symm hkj)] at hq
      exact inv.pens.pos j q hq hfq

/-- `tickit_window_set_pen`. -/
theorem setPen_ok {st : St} (inv : SInv st) {win : Nat} {ww : Win} (hw : LiveW st.tree win ww) (pen : Option Nat)
    (hpen : ∀ (k : Nat), pen = some k → heldP st k = true) :
    ∃ st', setPen st win pen = .ok st' ∧ SInv st' := by
  have hwin : win < st.wx.size := by rw [inv.wx_size]; exact hw.lt
  unfold setPen
  simp only [getW, get_live hw, bind_ok]
  obtain ⟨st1, hdrop, ht1, hwx1, htm1, hrb1, _, P2⟩ := release_pen inv.pens hwin
  simp only [hdrop, bind_ok]
  have hwin1 : win < st1.wx.size := by rw [hwx1]; exact hwin
  have hgx : ∀ (j : Nat), j ≠ win → getX (setX st1 win { getX st1 win with pen := .null }) j = getX st j := by
    intro j hj
    rw [getX_setX_ne _ (Ne.symm hj)]
    unfold getX; rw [hwx1]
  have inv2 : SInv (setX st1 win { getX st1 win with pen := .null }) := by
    refine ⟨by simp only [setX_tree, ht1]; exact inv.tinv, by simp only [setX_size, setX_tree, ht1, hwx1]; exact inv.wx_size,
      by simp only [setX_tree, ht1]; exact inv.rc, List.nodup_nil, by intro i hi; simp at hi, ?_, P2,
      by simp only [setX_term, setX_tree, htm1, ht1]; exact inv.term_held,
      by simp only [setX_term, setX_tree, htm1, ht1]; exact inv.term_free,
      by simp only [setX_term, setX_tree, htm1, ht1]; exact inv.term_dead,
      by simp only [setX, hrb1]; exact inv.rb_rc⟩
    intro i w hwi hfi _
    simp only [setX_tree, ht1] at hwi
    have hiw : i ≠ win := by
      intro h; subst h
      rw [hw.1] at hwi; cases hwi
      rw [hw.2] at hfi; cases hfi
    rw [hgx i hiw]
    exact inv.dead_pen i w hwi hfi (by simp)
  cases pen with
  | none => exact ⟨_, rfl, inv2⟩
  | some k =>
    obtain ⟨p, hp, hf, hpos⟩ := heldP_spec (hpen k rfl)
    obtain ⟨p1, hp1, hf1⟩ := dropWinPen_keeps_held inv.pens hwin hdrop hp hf hpos
    have hw2 : LiveW (setX st1 win { getX st1 win with pen := .null }).tree win ww := by simp only [setX_tree, ht1]; exact hw
    exact assignPen_ok inv2 hw2 (by rw [getX_setX_self _ hwin1]) (by simpa using hp1) hf1

end Tickit.Life

namespace Tickit.Life
open WinTree (Id Win Req Change Tree)

/-! ## the terminal -/

theorem heldT_spec {st : St} (h : heldT st = true) : st.term.freed = false ∧ 0 < st.term.appRefs := by
  unfold heldT at h
  simp only [Bool.and_eq_true, Bool.not_eq_true', decide_eq_true_eq] at h
  exact h

/-- A change of the terminal object. -/
theorem SInv.set_term {st : St} (inv : SInv st) (tm : Obj)
    (h1 : tm.freed = false → (∃ r, LiveW st.tree 0 r) → tm.refcount = (tm.appRefs : Int) + 1)
    (h2 : tm.freed = false → (¬ ∃ r, LiveW st.tree 0 r) → tm.refcount = (tm.appRefs : Int) ∧ 1 ≤ tm.refcount)
    (h3 : tm.freed = true → ¬ ∃ r, LiveW st.tree 0 r) : SInv { st with term := tm } := by
  refine ⟨inv.tinv, inv.wx_size, inv.rc, List.nodup_nil, by intro i hi; simp at hi, inv.dead_pen,
    ⟨inv.pens.rc, inv.pens.ex, inv.pens.pos⟩, ?_, ?_, ?_, inv.rb_rc⟩
  · intro hf h; exact h1 hf (by rcases h with h | h; exact h; simp at h)
  · intro hf h; exact h2 hf (fun h' => h (.inl h'))
  · intro hf h; exact h3 hf (by rcases h with h | h; exact h; simp at h)

/-- `tickit_term_ref` by the application. -/
theorem tref_ok {st : St} (inv : SInv st) (h : heldT st = true) :
    SInv { st with term := { st.term with appRefs := st.term.appRefs + 1, refcount := st.term.refcount + 1 } } := by
  obtain ⟨hf, _⟩ := heldT_spec h
  refine inv.set_term _ ?_ ?_ ?_
  · intro _ hr
    have := inv.term_held hf (.inl hr)
    show st.term.refcount + 1 = ((st.term.appRefs + 1 : Nat) : Int) + 1
    omega
  · intro _ hr
    have := inv.term_free hf (by rintro (h' | h'); exact hr h'; simp at h')
    show st.term.refcount + 1 = ((st.term.appRefs + 1 : Nat) : Int) ∧ 1 ≤ st.term.refcount + 1
    omega
  · intro h'; rw [show ({ st.term with appRefs := st.term.appRefs + 1, refcount := st.term.refcount + 1 } : Obj).freed = st.term.freed from rfl, hf] at h'; cases h'

/-- `tickit_term_unref` by the application. -/
theorem tunref_ok {st : St} (inv : SInv st) (h : heldT st = true) :
    ∃ st', termUnref { st with term := { st.term with appRefs := st.term.appRefs - 1 } } = .ok st' ∧ SInv st' := by
  obtain ⟨hf, hpos⟩ := heldT_spec h
  have hr1 : 1 ≤ st.term.refcount := by
    by_cases hr : ∃ r, LiveW st.tree 0 r
    · have := inv.term_held hf (.inl hr); omega
    · exact (inv.term_free hf (by rintro (h' | h'); exact hr h'; simp at h')).2
  unfold termUnref
  simp only [hf, Bool.false_eq_true, if_false]
  have hge : ¬ st.term.refcount < 1 := by omega
  simp only [hge, if_false, pure_ok]
  refine ⟨_, rfl, ?_⟩
  refine inv.set_term _ ?_ ?_ ?_
  · intro _ hr
    have := inv.term_held hf (.inl hr)
    simp only [dropped_refcount, dropped_appRefs]
    omega
  · intro hf' hr
    have := inv.term_free hf (by rintro (h' | h'); exact hr h'; simp at h')
    simp only [dropped_freed, decide_eq_false_iff_not] at hf'
    simp only [dropped_refcount, dropped_appRefs]
    omega
  · intro hf' hr
    have := inv.term_held hf (.inl hr)
    simp only [dropped_freed, decide_eq_true_eq] at hf'
    omega

/-! ## render buffers and strings -/

theorem heldB_spec {st : St} {k : Nat} (h : heldB st k = true) : ∃ b, st.rbs[k]? = some b ∧ b.freed = false := by
  unfold heldB at h
  cases hb : st.rbs[k]? with
  | none => simp [hb] at h
  | some b =>
    simp only [hb, Bool.and_eq_true, Bool.not_eq_true'] at h
    exact ⟨b, rfl, h.1⟩

/-- A change of one buffer object. -/
theorem SInv.set_rb {st : St} (inv : SInv st) (k : Nat) (b' : RBObj) (h : b'.freed = false → 1 ≤ b'.refcount) :
    SInv { st with rbs := st.rbs.setIfInBounds k b' } := by
  refine ⟨inv.tinv, inv.wx_size, inv.rc, List.nodup_nil, by intro i hi; simp at hi, inv.dead_pen,
    ⟨inv.pens.rc, inv.pens.ex, inv.pens.pos⟩, inv.term_held, inv.term_free, inv.term_dead, ?_⟩
  intro j b hb hf
  simp only [Array.getElem?_setIfInBounds] at hb
  by_cases hkj : k = j
  · subst hkj
    simp only [if_true] at hb
    split at hb
    · cases hb; exact h hf
    · cases hb
  · simp only [hkj, if_false] at hb
    exact inv.rb_rc j b hb hf

theorem SInv.set_penx {st : St} (inv : SInv st) (x : Array PenX) : SInv { st with penx := x } :=
  ⟨inv.tinv, inv.wx_size, inv.rc, List.nodup_nil, by intro i hi; simp at hi, inv.dead_pen,
    ⟨inv.pens.rc, inv.pens.ex, inv.pens.pos⟩, inv.term_held, inv.term_free, inv.term_dead, inv.rb_rc⟩

theorem SInv.set_strs {st : St} (inv : SInv st) (s : Array StrObj) : SInv { st with strs := s } :=
  ⟨inv.tinv, inv.wx_size, inv.rc, List.nodup_nil, by intro i hi; simp at hi, inv.dead_pen,
    ⟨inv.pens.rc, inv.pens.ex, inv.pens.pos⟩, inv.term_held, inv.term_free, inv.term_dead, inv.rb_rc⟩

theorem rbUpd_ok {st : St} (inv : SInv st) (k : Nat) (f : RBObj → Out RBObj)
    (hf : ∀ b, ∃ b', f b = .ok b' ∧ b'.freed = b.freed ∧ b'.refcount = b.refcount) :
    ∃ st' r, rbUpd st k f = .ok (st', r) ∧ SInv st' := by
  unfold rbUpd
  by_cases hh : heldB st k = true
  · obtain ⟨b, hb, hfb⟩ := heldB_spec hh
    simp only [hh, Bool.not_true, Bool.false_eq_true, if_false, hb, Option.getD_some]
    obtain ⟨b', hfb', h1, h2⟩ := hf b
    simp only [hfb', bind_ok, pure_ok]
    exact ⟨_, _, rfl, inv.set_rb k b' (fun h => by rw [h2]; exact inv.rb_rc k b hb (by rw [← h1]; exact h))⟩
  · simp only [hh, Bool.not_false, if_true, skipR, pure_ok]
    exact ⟨_, _, rfl, inv⟩

/-! ## copy-out calls -/

theorem extent_le {c : CopyOut} {n : Nat} (h : c.Bounded n) : c.extent ≤ n := by
  unfold CopyOut.extent
  have : ∀ (l : List (Nat × UInt8)) (m : Nat), m ≤ n → (∀ p ∈ l, p.1 < n) → l.foldl (fun m p => max m (p.1 + 1)) m ≤ n := by
    intro l
    induction l with
    | nil => intro m hm _; simpa using hm
    | cons x xs ih =>
      intro m hm hl
      simp only [List.foldl_cons]
      refine ih _ ?_ (fun p hp => hl p (by simp [hp]))
      have := hl x (by simp)
      omega
  exact this c.stores 0 (by omega) h

theorem showBuffer_some {len : Int} {c : CopyOut} (h : c.Bounded len.toNat) : ∃ s, showBuffer len c = some s := by
  unfold showBuffer
  by_cases hl : len < 0
  · simp [hl]
  · simp only [hl, if_false]
    have := extent_le h
    have h2 : ¬ c.extent > max len.toNat 1 := by omega
    simp only [h2, if_false]
    split <;> exact ⟨_, rfl⟩

end Tickit.Life

namespace Tickit.Life
open WinTree (Id Win Req Change Tree)

/-! ## one step -/

theorem SInv.init (lines cols : Int) :
    SInv { tree := { wins := #[({ rect := ⟨0, 0, lines, cols⟩, isRoot := true } : Win)], root := {} }, wx := #[{}],
           term := { refcount := 2 } } := by
  have hget : ∀ (i : Nat) (w : Win), (#[({ rect := ⟨0, 0, lines, cols⟩, isRoot := true } : Win)])[i]? = some w →
      i = 0 ∧ w = { rect := ⟨0, 0, lines, cols⟩, isRoot := true } := by
    intro i w h
    cases i with
    | zero => simp at h; exact ⟨rfl, h.symm⟩
    | succ n => simp at h
  have hlive : ∀ (i : Nat) (w : Win), LiveW ({ wins := #[({ rect := ⟨0, 0, lines, cols⟩, isRoot := true } : Win)], root := {} } : Tree) i w →
      i = 0 ∧ w = { rect := ⟨0, 0, lines, cols⟩, isRoot := true } := fun i w h => hget i w h.1
  have tinv : TInv ({ wins := #[({ rect := ⟨0, 0, lines, cols⟩, isRoot := true } : Win)], root := {} } : Tree) := by
    refine ⟨⟨{ rect := ⟨0, 0, lines, cols⟩, isRoot := true }, by simp, rfl, rfl⟩, ?_, ?_, ?_, ?_, ?_, ?_, ?_, ?_⟩
    · intro i w h _; exact (hget i w h).1
    · intro c cw hl p hp; obtain ⟨_, rfl⟩ := hlive c cw hl; cases hp
    · intro p pw hl c hc; obtain ⟨_, rfl⟩ := hlive p pw hl; simp at hc
    · intro p pw hl; obtain ⟨_, rfl⟩ := hlive p pw hl; exact List.nodup_nil
    · intro i w hl _; obtain ⟨_, rfl⟩ := hlive i w hl; rfl
    · intro r hr; simp at hr
    · intro p pw hl c hf; obtain ⟨_, rfl⟩ := hlive p pw hl; cases hf
    · intro s hs; cases hs
  have hroot : ∃ r, LiveW ({ wins := #[({ rect := ⟨0, 0, lines, cols⟩, isRoot := true } : Win)], root := {} } : Tree) 0 r :=
    ⟨{ rect := ⟨0, 0, lines, cols⟩, isRoot := true }, by simp, rfl⟩
  refine ⟨tinv, rfl, ?_, List.nodup_nil, by intro i hi; simp at hi, ?_, ⟨?_, ?_, ?_⟩, ?_, ?_, ?_, ?_⟩
  · intro i w hl; obtain ⟨_, rfl⟩ := hlive i w hl; show (1 : Int) ≤ 1; omega
  · intro i w h hf _; obtain ⟨_, rfl⟩ := hget i w h; cases hf
  · intro k p hk; simp at hk
  · intro k _; simp [holders]
  · intro k p hk; simp at hk
  · intro _ _; rfl
  · intro _ h; exact absurd (.inl hroot) h
  · intro h; cases h
  · intro k b hb; simp at hb

theorem liftT_ok {st : St} {r : Out Tree} {t' : Tree} (h : r = .ok t') : liftT st r = .ok { st with tree := t' } := by
  unfold liftT; rw [h]; rfl

/-- Every operation that runs no handler keeps the invariant and never fails. -/
theorem step_plain_ok {cfg : Cfg} (R : Repaired cfg) {st : St} (inv : SInv st) (op : Op) (hp : op.plain = true) :
    ∃ st' r, step cfg st op = .ok (st', r) ∧ SInv st' := by
  cases op <;> simp only [Op.plain, Bool.false_eq_true] at hp <;> unfold step
  case newTerm lines cols mock => exact ⟨_, _, rfl, SInv.init lines cols⟩
  case win p r f =>
    by_cases hu : usableW st p = true
    · obtain ⟨⟨pw, hpl⟩, _⟩ := usableW_spec inv.tinv hu
      simp only [hu, Bool.not_true, Bool.false_eq_true, if_false]
      obtain ⟨st', id, hn, inv'⟩ := newWin_ok inv hpl r (flagBit f 0) (flagBit f 1) (flagBit f 2) (flagBit f 3)
      simp only [hn, bind_ok, pure_ok]
      exact ⟨_, _, rfl, inv'⟩
    · simp only [hu, Bool.not_false, if_true, skipR, pure_ok]; exact ⟨_, _, rfl, inv⟩
  case act a =>
    cases a <;> simp only [simpleOp]
    case unref w =>
      by_cases hh : heldW st w = true
      · obtain ⟨ww, hw⟩ := heldW_live hh
        simp only [hh, if_true]
        have inv1 := inv.setX_same w { getX st w with appRefs := (getX st w).appRefs - 1 } rfl
        obtain ⟨st', hu, inv'⟩ := unrefW_ok R inv1 (x := w) (xw := ww) (by simpa using hw)
        simp only [okR, hu, bind_ok, pure_ok]
        exact ⟨_, _, rfl, inv'⟩
      · simp only [hh, Bool.false_eq_true, if_false, skipR, pure_ok]; exact ⟨_, _, rfl, inv⟩
    case ref w =>
      by_cases hh : heldW st w = true
      · obtain ⟨ww, hw⟩ := heldW_live hh
        simp only [hh, if_true]
        have inv1 := inv.setX_same w { getX st w with appRefs := (getX st w).appRefs + 1 } rfl
        obtain ⟨st', hu, inv'⟩ := refW_ok inv1 (win := w) (ww := ww) (by simpa using hw)
        simp only [okR, hu, bind_ok, pure_ok]
        exact ⟨_, _, rfl, inv'⟩
      · simp only [hh, Bool.false_eq_true, if_false, skipR, pure_ok]; exact ⟨_, _, rfl, inv⟩
    case close w =>
      by_cases hh : heldW st w = true
      · obtain ⟨ww, hw⟩ := heldW_live hh
        simp only [hh, if_true]
        obtain ⟨t', hc, C⟩ := closeT_ok R.closePurges R.dragForgottenOnClose inv.tinv hw
        simp only [okR, liftT_ok hc, bind_ok, pure_ok]
        exact ⟨_, _, rfl, inv.of_closed hw C⟩
      · simp only [hh, Bool.false_eq_true, if_false, skipR, pure_ok]; exact ⟨_, _, rfl, inv⟩
    case restack c w =>
      by_cases hh : (usableW st w && isRestack c) = true
      · simp only [hh, if_true]
        simp only [Bool.and_eq_true] at hh
        obtain ⟨⟨ww, hw⟩, hreach⟩ := usableW_spec inv.tinv hh.1
        obtain ⟨t', hq, inv', hwins⟩ := request_ok inv.tinv hh.2 hw hreach
        simp only [okR, liftT_ok hq, bind_ok, pure_ok]
        refine ⟨_, _, rfl, inv.of_tree inv' (by rw [hwins]) ?_⟩
        intro i x hx
        exact ⟨x, by rw [hwins]; exact hx, rfl, fun _ h => h⟩
      · simp only [hh, Bool.false_eq_true, if_false, skipR, pure_ok]; exact ⟨_, _, rfl, inv⟩
    case hide w =>
      by_cases hh : usableW st w = true
      · simp only [hh, if_true]
        obtain ⟨⟨ww, hw⟩, _⟩ := usableW_spec inv.tinv hh
        obtain ⟨t', hq, inv', hrel, hrc⟩ := hideT_ok inv.tinv hw
        simp only [okR, liftT_ok hq, bind_ok, pure_ok]
        exact ⟨_, _, rfl, inv.of_rel' inv' hrel hrc⟩
      · simp only [hh, Bool.false_eq_true, if_false, skipR, pure_ok]; exact ⟨_, _, rfl, inv⟩
    case «show» w =>
      by_cases hh : usableW st w = true
      · simp only [hh, if_true]
        obtain ⟨⟨ww, hw⟩, _⟩ := usableW_spec inv.tinv hh
        obtain ⟨t', hq, inv', hrel, hrc⟩ := showT_ok inv.tinv hw
        simp only [okR, liftT_ok hq, bind_ok, pure_ok]
        exact ⟨_, _, rfl, inv.of_rel' inv' hrel hrc⟩
      · simp only [hh, Bool.false_eq_true, if_false, skipR, pure_ok]; exact ⟨_, _, rfl, inv⟩
    case flush =>
      by_cases hh : heldW st 0 = true
      · simp only [hh, if_true]
        obtain ⟨r, hr⟩ := heldW_live hh
        obtain ⟨t', hq, inv', hrel, _, _, hrc⟩ := flushT_ok inv.tinv hr
        simp only [okR, liftT_ok hq, bind_ok, pure_ok]
        exact ⟨_, _, rfl, inv.of_rel' inv' hrel hrc⟩
      · simp only [hh, Bool.false_eq_true, if_false, skipR, pure_ok]; exact ⟨_, _, rfl, inv⟩
    case unbindSelf => simp only [skipR, pure_ok]; exact ⟨_, _, rfl, inv⟩
  case geom w r =>
    by_cases hu : usableW st w = true
    · obtain ⟨⟨ww, hw⟩, _⟩ := usableW_spec inv.tinv hu
      simp only [hu, Bool.not_true, Bool.false_eq_true, if_false]
      obtain ⟨t', hq, inv', hrel, hrc⟩ := setGeomT_ok inv.tinv hw r
      simp only [okR, liftT_ok hq, bind_ok, pure_ok]
      exact ⟨_, _, rfl, inv.of_rel' inv' hrel hrc⟩
    · simp only [hu, Bool.not_false, if_true, skipR, pure_ok]; exact ⟨_, _, rfl, inv⟩
  case expose w =>
    by_cases hu : usableW st w = true
    · obtain ⟨⟨ww, hw⟩, _⟩ := usableW_spec inv.tinv hu
      simp only [hu, Bool.not_true, Bool.false_eq_true, if_false, okR,
        exposeWalk_ok inv.tinv w ww hw _ (chainFuel_gt hw), bind_ok, pure_ok]
      exact ⟨_, _, rfl, inv⟩
    · simp only [hu, Bool.not_false, if_true, skipR, pure_ok]; exact ⟨_, _, rfl, inv⟩
  case bind w ev ret acts =>
    by_cases hu : usableW st w = true
    · obtain ⟨⟨ww, hw⟩, _⟩ := usableW_spec inv.tinv hu
      simp only [hu, Bool.not_true, Bool.false_eq_true, if_false]
      unfold bindEvent
      simp only [getW, get_live hw, bind_ok, pure_ok]
      exact ⟨_, _, rfl, inv.setX_same w _ rfl⟩
    · simp only [hu, Bool.not_false, if_true, skipR, pure_ok]; exact ⟨_, _, rfl, inv⟩
  case unbind w id =>
    by_cases hu : usableW st w = true
    · obtain ⟨⟨ww, hw⟩, _⟩ := usableW_spec inv.tinv hu
      simp only [hu, Bool.not_true, Bool.false_eq_true, if_false, okR]
      unfold unbindEvent
      simp only [getW, get_live hw, bind_ok]
      split
      · simp only [pure_ok, bind_ok]; exact ⟨_, _, rfl, inv.setX_same w _ rfl⟩
      · simp only [pure_ok, bind_ok]; exact ⟨_, _, rfl, inv.setX_same w _ rfl⟩
    · simp only [hu, Bool.not_false, if_true, skipR, pure_ok]; exact ⟨_, _, rfl, inv⟩
  case pen => exact ⟨_, _, rfl, (pen_new_ok inv).set_penx _⟩
  case pref k =>
    by_cases hh : heldP st k = true
    · simp only [hh, Bool.not_true, Bool.false_eq_true, if_false]
      obtain ⟨st', h1, inv'⟩ := pref_ok inv hh
      simp only [okR, h1, bind_ok, pure_ok]
      exact ⟨_, _, rfl, inv'⟩
    · simp only [hh, Bool.not_false, if_true, skipR, pure_ok]; exact ⟨_, _, rfl, inv⟩
  case punref k =>
    by_cases hh : heldP st k = true
    · simp only [hh, Bool.not_true, Bool.false_eq_true, if_false]
      obtain ⟨st', h1, inv'⟩ := punref_ok inv hh
      simp only [okR, h1, bind_ok, pure_ok]
      exact ⟨_, _, rfl, inv'⟩
    · simp only [hh, Bool.not_false, if_true, skipR, pure_ok]; exact ⟨_, _, rfl, inv⟩
  case setpen w p =>
    by_cases hu : usableW st w = true
    · obtain ⟨⟨ww, hw⟩, _⟩ := usableW_spec inv.tinv hu
      simp only [hu, Bool.not_true, Bool.false_eq_true, if_false]
      cases p with
      | none =>
        obtain ⟨st', h1, inv'⟩ := setPen_ok inv hw none (by intro k hk; cases hk)
        simp only [okR, h1, bind_ok, pure_ok]
        exact ⟨_, _, rfl, inv'⟩
      | some k =>
        by_cases hh : heldP st k = true
        · simp only [hh, Bool.not_true, Bool.false_eq_true, if_false]
          obtain ⟨st', h1, inv'⟩ := setPen_ok inv hw (some k) (by intro k' hk; cases hk; exact hh)
          simp only [okR, h1, bind_ok, pure_ok]
          exact ⟨_, _, rfl, inv'⟩
        · simp only [hh, Bool.not_false, if_true, skipR, pure_ok]; exact ⟨_, _, rfl, inv⟩
    · simp only [hu, Bool.not_false, if_true, skipR, pure_ok]; exact ⟨_, _, rfl, inv⟩
  case tref =>
    by_cases hh : heldT st = true
    · simp only [hh, Bool.not_true, Bool.false_eq_true, if_false, pure_ok]; exact ⟨_, _, rfl, tref_ok inv hh⟩
    · simp only [hh, Bool.not_false, if_true, skipR, pure_ok]; exact ⟨_, _, rfl, inv⟩
  case tunref =>
    by_cases hh : heldT st = true
    · simp only [hh, Bool.not_true, Bool.false_eq_true, if_false]
      obtain ⟨st', h1, inv'⟩ := tunref_ok inv hh
      simp only [okR, h1, bind_ok, pure_ok]
      exact ⟨_, _, rfl, inv'⟩
    · simp only [hh, Bool.not_false, if_true, skipR, pure_ok]; exact ⟨_, _, rfl, inv⟩
  case str bytes => exact ⟨_, _, rfl, inv.set_strs _⟩
  case sref k =>
    by_cases hh : heldS st k = true
    · simp only [hh, Bool.not_true, Bool.false_eq_true, if_false]
      unfold heldS at hh
      cases hs : st.strs[k]? with
      | none => simp [hs] at hh
      | some s =>
        simp only [hs, Bool.and_eq_true, Bool.not_eq_true'] at hh
        have hlt : k < st.strs.size := by
          by_cases hlt : k < st.strs.size
          · exact hlt
          · have := Array.getElem?_eq_none (xs := st.strs) (Nat.le_of_not_lt hlt)
            rw [hs] at this; cases this
        unfold strRef
        simp only [okR, Option.getD_some, Array.getElem?_setIfInBounds, if_true, hlt, hh.1, Bool.false_eq_true, if_false,
          pure_ok, bind_ok]
        exact ⟨_, _, rfl, (inv.set_strs _).set_strs _⟩
    · simp only [hh, Bool.not_false, if_true, skipR, pure_ok]; exact ⟨_, _, rfl, inv⟩
  case sunref k =>
    by_cases hh : heldS st k = true
    · simp only [hh, Bool.not_true, Bool.false_eq_true, if_false]
      unfold heldS at hh
      cases hs : st.strs[k]? with
      | none => simp [hs] at hh
      | some s =>
        simp only [hs, Bool.and_eq_true, Bool.not_eq_true'] at hh
        have hlt : k < st.strs.size := by
          by_cases hlt : k < st.strs.size
          · exact hlt
          · have := Array.getElem?_eq_none (xs := st.strs) (Nat.le_of_not_lt hlt)
            rw [hs] at this; cases this
        unfold strUnref
        simp only [okR, Option.getD_some, Array.getElem?_setIfInBounds, if_true, hlt, hh.1, Bool.false_eq_true, if_false]
        split
        · simp only [pure_ok, bind_ok]; exact ⟨_, _, rfl, (inv.set_strs _).set_strs _⟩
        · simp only [pure_ok, bind_ok]; exact ⟨_, _, rfl, (inv.set_strs _).set_strs _⟩
    · simp only [hh, Bool.not_false, if_true, skipR, pure_ok]; exact ⟨_, _, rfl, inv⟩
  case sget k =>
    by_cases hh : heldS st k = true
    · simp only [hh, Bool.not_true, Bool.false_eq_true, if_false, pure_ok]; exact ⟨_, _, rfl, inv⟩
    · simp only [hh, Bool.not_false, if_true, skipR, pure_ok]; exact ⟨_, _, rfl, inv⟩
  case rb lines cols =>
    refine ⟨_, _, rfl, ?_⟩
    unfold rbNew
    refine ⟨inv.tinv, inv.wx_size, inv.rc, List.nodup_nil, by intro i hi; simp at hi, inv.dead_pen,
      ⟨inv.pens.rc, inv.pens.ex, inv.pens.pos⟩, inv.term_held, inv.term_free, inv.term_dead, ?_⟩
    intro j b hb hf
    simp only [Array.getElem?_push] at hb
    split at hb
    · cases hb; show (1 : Int) ≤ 1; omega
    · exact inv.rb_rc j b hb hf
  case bref k =>
    by_cases hh : heldB st k = true
    · obtain ⟨b, hb, hfb⟩ := heldB_spec hh
      have hlt : k < st.rbs.size := by
        by_cases hlt : k < st.rbs.size
        · exact hlt
        · have := Array.getElem?_eq_none (xs := st.rbs) (Nat.le_of_not_lt hlt)
          rw [hb] at this; cases this
      simp only [hh, Bool.not_true, Bool.false_eq_true, if_false, hb, Option.getD_some]
      unfold rbRef
      simp only [okR, Array.getElem?_setIfInBounds, if_true, hlt, hfb, Bool.false_eq_true, if_false, pure_ok, bind_ok]
      refine ⟨_, _, rfl, ?_⟩
      rw [Array.setIfInBounds_setIfInBounds]
      exact inv.set_rb k _ (fun _ => by have := inv.rb_rc k b hb hfb; show 1 ≤ b.refcount + 1; omega)
    · simp only [hh, Bool.not_false, if_true, skipR, pure_ok]; exact ⟨_, _, rfl, inv⟩
  case bunref k =>
    by_cases hh : heldB st k = true
    · obtain ⟨b, hb, hfb⟩ := heldB_spec hh
      have hlt : k < st.rbs.size := by
        by_cases hlt : k < st.rbs.size
        · exact hlt
        · have := Array.getElem?_eq_none (xs := st.rbs) (Nat.le_of_not_lt hlt)
          rw [hb] at this; cases this
      have hr := inv.rb_rc k b hb hfb
      simp only [hh, Bool.not_true, Bool.false_eq_true, if_false, hb, Option.getD_some]
      unfold rbUnref
      simp only [okR, Array.getElem?_setIfInBounds, if_true, hlt, hfb, Bool.false_eq_true, if_false]
      have hge : ¬ b.refcount < 1 := by omega
      simp only [hge, if_false, pure_ok, bind_ok]
      refine ⟨_, _, rfl, ?_⟩
      rw [Array.setIfInBounds_setIfInBounds]
      refine inv.set_rb k _ ?_
      intro hf'
      by_cases hz : b.refcount - 1 = 0
      · simp [hz] at hf'
      · simp only [hz, if_false]
        show 1 ≤ b.refcount - 1
        omega
    · simp only [hh, Bool.not_false, if_true, skipR, pure_ok]; exact ⟨_, _, rfl, inv⟩
  case breset k => exact rbUpd_ok inv k _ (fun b => ⟨_, rfl, rfl, rfl⟩)
  case bsave k => exact rbUpd_ok inv k _ (fun b => ⟨_, rfl, rfl, rfl⟩)
  case bsavepen k => exact rbUpd_ok inv k _ (fun b => ⟨_, rfl, rfl, rfl⟩)
  case brestore k => exact rbUpd_ok inv k _ (fun b => ⟨_, rfl, rfl, rfl⟩)
  case bsetpen k p =>
    by_cases hh : heldB st k = true
    · simp only [hh, Bool.not_true, Bool.false_eq_true, if_false]
      cases p with
      | none => exact ⟨_, _, rfl, inv⟩
      | some q =>
        by_cases hq : heldP st q = true
        · simp only [hq, Bool.not_true, Bool.false_eq_true, if_false, pure_ok]; exact ⟨_, _, rfl, inv⟩
        · simp only [hq, Bool.not_false, if_true, skipR, pure_ok]; exact ⟨_, _, rfl, inv⟩
    · simp only [hh, Bool.not_false, if_true, skipR, pure_ok]; exact ⟨_, _, rfl, inv⟩
  case bflush k =>
    by_cases hh : heldB st k = true
    · simp only [hh, Bool.not_true, Bool.false_eq_true, if_false]
      by_cases ht : heldT st = true
      · simp only [ht, Bool.not_true, Bool.false_eq_true, if_false]
        exact rbUpd_ok inv k _ (fun b => ⟨_, rfl, rfl, rfl⟩)
      · simp only [ht, Bool.not_false, if_true, skipR, pure_ok]; exact ⟨_, _, rfl, inv⟩
    · simp only [hh, Bool.not_false, if_true, skipR, pure_ok]; exact ⟨_, _, rfl, inv⟩
  case bcell k line col len =>
    by_cases hh : heldB st k = true
    · simp only [hh, Bool.not_true, Bool.false_eq_true, if_false]
      have hb0 : ∀ (r : Int), ∃ s, showBuffer len ⟨r, []⟩ = some s :=
        fun r => showBuffer_some (bounded_nil r _)
      -- whatever the cell, the call either reports an error without storing or stays inside the buffer
      split
      · exact ⟨_, _, rfl, inv⟩
      · rename_i c hc
        have hbd : ∃ s, showBuffer len c = some s := by
          split at hc
          · cases hc; exact hb0 _
          · split at hc
            · cases hc; exact hb0 _
            · rw [R.spanExactFit] at hc
              exact showBuffer_some (bounded_getSpanText hc)
        obtain ⟨s, hs⟩ := hbd
        simp only [hs, pure_ok]
        exact ⟨_, _, rfl, inv⟩
    · simp only [hh, Bool.not_false, if_true, skipR, pure_ok]; exact ⟨_, _, rfl, inv⟩
  case bspan k line col len =>
    by_cases hh : heldB st k = true
    · simp only [hh, Bool.not_true, Bool.false_eq_true, if_false]
      split
      · exact ⟨_, _, rfl, inv⟩
      · split
        · exact ⟨_, _, rfl, inv⟩
        · split
          · exact ⟨_, _, rfl, inv⟩
          · split
            · exact ⟨_, _, rfl, inv⟩
            · rename_i c hc
              rw [R.spanExactFit] at hc
              obtain ⟨s, hs⟩ := showBuffer_some (len := len) (bounded_getSpanText hc)
              simp only [hs, pure_ok]
              exact ⟨_, _, rfl, inv⟩
    · simp only [hh, Bool.not_false, if_true, skipR, pure_ok]; exact ⟨_, _, rfl, inv⟩

end Tickit.Life

namespace Tickit.Life
open WinTree (Id Win Req Change Tree)

/-! ## dropping everything (`end`) -/

theorem foldlM_inv {α : Type} (f : St → α → Out St) (h : ∀ (st : St) (a : α), SInv st → ∃ st', f st a = .ok st' ∧ SInv st') :
    ∀ (l : List α) (st : St), SInv st → ∃ st', l.foldlM f st = .ok st' ∧ SInv st'
  | [], st, inv => ⟨st, rfl, inv⟩
  | a :: rest, st, inv => by
    obtain ⟨st1, h1, inv1⟩ := h st a inv
    obtain ⟨st2, h2, inv2⟩ := foldlM_inv f h rest st1 inv1
    exact ⟨st2, by rw [List.foldlM_cons, h1]; exact h2, inv2⟩

theorem dropW_ok {cfg : Cfg} (R : Repaired cfg) (i : Nat) : ∀ (n : Nat) (st : St), SInv st →
    ∃ st', dropAll.dropW cfg n st i = .ok st' ∧ SInv st'
  | 0, st, inv => ⟨st, rfl, inv⟩
  | n + 1, st, inv => by
    unfold dropAll.dropW
    by_cases hh : heldW st i = true
    · obtain ⟨ww, hw⟩ := heldW_live hh
      simp only [hh, if_true]
      have inv1 := inv.setX_same i { getX st i with appRefs := (getX st i).appRefs - 1 } rfl
      obtain ⟨st1, hu, inv2⟩ := unrefW_ok R inv1 (x := i) (xw := ww) (by simpa using hw)
      simp only [hu, bind_ok]
      exact dropW_ok R i n st1 inv2
    · simp only [hh, Bool.false_eq_true, if_false, pure_ok]; exact ⟨st, rfl, inv⟩

theorem dropP_ok (k : Nat) : ∀ (n : Nat) (st : St), SInv st → ∃ st', dropAll.dropP n st k = .ok st' ∧ SInv st'
  | 0, st, inv => ⟨st, rfl, inv⟩
  | n + 1, st, inv => by
    unfold dropAll.dropP
    by_cases hh : heldP st k = true
    · simp only [hh, if_true]
      obtain ⟨st1, hu, inv1⟩ := punref_ok inv hh
      simp only [hu, bind_ok]
      exact dropP_ok k n st1 inv1
    · simp only [hh, Bool.false_eq_true, if_false, pure_ok]; exact ⟨st, rfl, inv⟩

theorem dropS_ok (k : Nat) : ∀ (n : Nat) (st : St), SInv st → ∃ st', dropAll.dropS n st k = .ok st' ∧ SInv st'
  | 0, st, inv => ⟨st, rfl, inv⟩
  | n + 1, st, inv => by
    unfold dropAll.dropS
    by_cases hh : heldS st k = true
    · simp only [hh, if_true]
      unfold heldS at hh
      cases hs : st.strs[k]? with
      | none => simp [hs] at hh
      | some s =>
        simp only [hs, Bool.and_eq_true, Bool.not_eq_true'] at hh
        have hlt : k < st.strs.size := by
          by_cases hlt : k < st.strs.size
          · exact hlt
          · have := Array.getElem?_eq_none (xs := st.strs) (Nat.le_of_not_lt hlt)
            rw [hs] at this; cases this
        unfold strUnref
        simp only [Option.getD_some, Array.getElem?_setIfInBounds, if_true, hlt, hh.1, Bool.false_eq_true, if_false]
        split
        · simp only [pure_ok, bind_ok]; exact dropS_ok k n _ ((inv.set_strs _).set_strs _)
        · simp only [pure_ok, bind_ok]; exact dropS_ok k n _ ((inv.set_strs _).set_strs _)
    · simp only [hh, Bool.false_eq_true, if_false, pure_ok]; exact ⟨st, rfl, inv⟩

theorem dropB_ok (k : Nat) : ∀ (n : Nat) (st : St), SInv st → ∃ st', dropAll.dropB n st k = .ok st' ∧ SInv st'
  | 0, st, inv => ⟨st, rfl, inv⟩
  | n + 1, st, inv => by
    unfold dropAll.dropB
    by_cases hh : heldB st k = true
    · obtain ⟨b, hb, hfb⟩ := heldB_spec hh
      have hlt : k < st.rbs.size := by
        by_cases hlt : k < st.rbs.size
        · exact hlt
        · have := Array.getElem?_eq_none (xs := st.rbs) (Nat.le_of_not_lt hlt)
          rw [hb] at this; cases this
      have hr := inv.rb_rc k b hb hfb
      simp only [hh, if_true, hb, Option.getD_some]
      unfold rbUnref
      simp only [Array.getElem?_setIfInBounds, if_true, hlt, hfb, Bool.false_eq_true, if_false]
      have hge : ¬ b.refcount < 1 := by omega
      simp only [hge, if_false, pure_ok, bind_ok]
      rw [Array.setIfInBounds_setIfInBounds]
      refine dropB_ok k n _ (inv.set_rb k _ ?_)
      intro hf'
      by_cases hz : b.refcount - 1 = 0
      · simp [hz] at hf'
      · simp only [hz, if_false]
        show 1 ≤ b.refcount - 1
        omega
    · simp only [hh, Bool.false_eq_true, if_false, pure_ok]; exact ⟨st, rfl, inv⟩

theorem dropT_ok : ∀ (n : Nat) (st : St), SInv st → ∃ st', dropAll.dropT n st = .ok st' ∧ SInv st'
  | 0, st, inv => ⟨st, rfl, inv⟩
  | n + 1, st, inv => by
    unfold dropAll.dropT
    by_cases hh : heldT st = true
    · simp only [hh, if_true]
      obtain ⟨st1, hu, inv1⟩ := tunref_ok inv hh
      simp only [hu, bind_ok]
      exact dropT_ok n st1 inv1
    · simp only [hh, Bool.false_eq_true, if_false, pure_ok]; exact ⟨st, rfl, inv⟩

/-- Dropping every reference the application holds never fails. -/
theorem dropAll_ok {cfg : Cfg} (R : Repaired cfg) {st : St} (inv : SInv st) :
    ∃ st', dropAll cfg st = .ok st' ∧ SInv st' := by
  unfold dropAll
  obtain ⟨s1, h1, i1⟩ := foldlM_inv (fun st i => dropAll.dropW cfg ((getX st i).appRefs + 1) st i)
    (fun st i inv => dropW_ok R i _ st inv) (List.range st.tree.wins.size).reverse st inv
  simp only [h1, bind_ok]
  obtain ⟨s2, h2, i2⟩ := foldlM_inv (fun st k => dropAll.dropP ((st.pens[k]?.getD {}).appRefs + 1) st k)
    (fun st k inv => dropP_ok k _ st inv) (List.range s1.pens.size).reverse s1 i1
  simp only [h2, bind_ok]
  obtain ⟨s3, h3, i3⟩ := foldlM_inv (fun st k => dropAll.dropS ((st.strs[k]?.getD {}).appRefs + 1) st k)
    (fun st k inv => dropS_ok k _ st inv) (List.range s2.strs.size).reverse s2 i2
  simp only [h3, bind_ok]
  obtain ⟨s4, h4, i4⟩ := foldlM_inv (fun st k => dropAll.dropB ((st.rbs[k]?.getD {}).appRefs + 1) st k)
    (fun st k inv => dropB_ok k _ st inv) (List.range s3.rbs.size).reverse s3 i3
  simp only [h4, bind_ok]
  exact dropT_ok _ s4 i4

end Tickit.Life
