import Tickit.Model.Rect
/-
  Helper lemmas for C06 (rect.c).  Core Lean only.
-/
namespace Tickit
namespace Rect

/-- Unfold the rectangle vocabulary everywhere and finish by linear arithmetic. -/
macro "rect_omega" : tactic =>
  `(tactic| ((try simp only [Rect.Mem, Rect.bottom, Rect.right, Rect.initBounded, Rect.Nonempty,
      Rect.translate] at *) <;> omega))

theorem memb_iff (r : Rect) (l c : Int) : r.memb l c = true ↔ r.Mem l c := by
  simp [memb, Mem]
  omega

theorem disjoint_comm {a b : Rect} : Disjoint a b ↔ Disjoint b a := by
  unfold Disjoint
  constructor <;> intro h l c hh <;> exact h l c ⟨hh.2, hh.1⟩

/-- What the band loop of `tickit_rect_add` maintains after having handled all rows `< t`:
    `U` is the target region. -/
structure BandInv (U : Int → Int → Prop) (acc : List Rect) (t : Int) : Prop where
  nonempty : ∀ p ∈ acc, p.Nonempty
  below    : ∀ p ∈ acc, p.bottom ≤ t
  disj     : acc.Pairwise Disjoint
  cover    : ∀ l c, (∃ p ∈ acc, p.Mem l c) ↔ (l < t ∧ U l c)
  lastBot  : ∀ p rest, acc = p :: rest → p.bottom = t

theorem pushBand_length (acc : List Rect) (t t' L R : Int) :
    (pushBand acc t t' L R).length ≤ acc.length + 1 := by
  unfold pushBand
  cases acc with
  | nil => simp
  | cons p rest => simp only; split <;> simp

theorem addBand_length (a b : Rect) (acc : List Rect) (t t' : Int) :
    (addBand a b acc t t').length ≤ acc.length + 1 := by
  unfold addBand
  split
  · omega
  · exact pushBand_length ..

/-- One non-empty band whose rows all have the cross-section `[L, R)`. -/
theorem bandInv_push {U : Int → Int → Prop} {acc : List Rect} {t t' L R : Int}
    (h : BandInv U acc t) (hlt : t < t') (hLR : L < R)
    (hsec : ∀ l c, t ≤ l → l < t' → (U l c ↔ (L ≤ c ∧ c < R))) :
    BandInv U (pushBand acc t t' L R) t' := by
  obtain ⟨hne, hbelow, hdisj, hcover, hlast⟩ := h
  unfold pushBand
  cases acc with
  | nil =>
    simp only
    refine ⟨?_, ?_, ?_, ?_, ?_⟩
    · intro p hp; simp at hp; subst hp; unfold Nonempty initBounded; simp; omega
    · intro p hp; simp at hp; subst hp; unfold bottom initBounded; simp <;> omega
    · simp
    · intro l c
      have hc := hcover l c
      simp only [List.not_mem_nil, false_and, exists_false, false_iff] at hc
      simp only [List.mem_singleton, exists_eq_left]
      constructor
      · intro hm
        have : t ≤ l ∧ l < t' ∧ L ≤ c ∧ c < R := by
          unfold Mem bottom right initBounded at hm; simp at hm; omega
        exact ⟨this.2.1, (hsec l c this.1 this.2.1).2 ⟨this.2.2.1, this.2.2.2⟩⟩
      · intro ⟨h1, h2⟩
        have h3 : t ≤ l := by
          rcases Int.lt_or_le l t with h | h
          · exact absurd ⟨h, h2⟩ hc
          · exact h
        have := (hsec l c h3 h1).1 h2
        unfold Mem bottom right initBounded; simp; omega
    · intro p rest he; simp at he; obtain ⟨rfl, _⟩ := he; unfold bottom initBounded; simp <;> omega
  | cons last rest =>
    have hlb : last.bottom = t := hlast last rest rfl
    have hlne : last.Nonempty := hne last (by simp)
    simp only
    split
    · -- extend the previous rectangle downwards
      rename_i hmerge
      obtain ⟨hm1, hm2⟩ := hmerge
      refine ⟨?_, ?_, ?_, ?_, ?_⟩
      · intro p hp
        simp at hp
        rcases hp with rfl | hp
        · unfold Nonempty at *; unfold bottom at hlb; simp; omega
        · exact hne p (by simp [hp])
      · intro p hp
        simp at hp
        rcases hp with rfl | hp
        · unfold bottom; simp <;> omega
        · have := hbelow p (by simp [hp]); omega
      · rw [List.pairwise_cons] at hdisj ⊢
        refine ⟨?_, hdisj.2⟩
        intro q hq l c ⟨h1, h2⟩
        have hqb := hbelow q (by simp [hq])
        have hq2 := hdisj.1 q hq l c
        apply hq2
        refine ⟨?_, h2⟩
        unfold Mem bottom right at *
        simp at h1
        omega
      · intro l c
        have hc := hcover l c
        constructor
        · rintro ⟨p, hp, hm⟩
          simp at hp
          rcases hp with rfl | hp
          · by_cases hl : l < t
            · have : last.Mem l c := by
                unfold Mem bottom right at *; simp at hm; omega
              have := hc.1 ⟨last, by simp, this⟩
              exact ⟨by omega, this.2⟩
            · have h4 : t ≤ l ∧ l < t' ∧ L ≤ c ∧ c < R := by
                unfold Mem bottom right at *; unfold Nonempty at hlne; simp at hm; omega
              exact ⟨h4.2.1, (hsec l c h4.1 h4.2.1).2 ⟨h4.2.2.1, h4.2.2.2⟩⟩
          · have := hc.1 ⟨p, by simp [hp], hm⟩
            exact ⟨by omega, this.2⟩
        · intro ⟨h1, h2⟩
          by_cases hl : l < t
          · obtain ⟨p, hp, hm⟩ := hc.2 ⟨hl, h2⟩
            simp at hp
            rcases hp with rfl | hp
            · refine ⟨{ p with lines := t' - p.top }, by simp, ?_⟩
              unfold Mem bottom right at *; simp; omega
            · exact ⟨p, by simp [hp], hm⟩
          · have h3 : t ≤ l := by omega
            have := (hsec l c h3 h1).1 h2
            refine ⟨{ last with lines := t' - last.top }, by simp, ?_⟩
            unfold Mem bottom right at *; unfold Nonempty at hlne; simp; omega
      · intro p rest' he
        simp at he
        obtain ⟨rfl, _⟩ := he
        unfold bottom; simp <;> omega
    · -- a new rectangle
      refine ⟨?_, ?_, ?_, ?_, ?_⟩
      · intro p hp
        simp at hp
        rcases hp with rfl | hp
        · unfold Nonempty initBounded; simp; omega
        · exact hne p (by simpa using hp)
      · intro p hp
        simp at hp
        rcases hp with rfl | hp
        · unfold bottom initBounded; simp <;> omega
        · have := hbelow p (by simpa using hp); omega
      · rw [List.pairwise_cons]
        refine ⟨?_, hdisj⟩
        intro q hq l c ⟨h1, h2⟩
        have hqb := hbelow q hq
        unfold Mem bottom right initBounded at *
        simp at h1
        omega
      · intro l c
        have hc := hcover l c
        constructor
        · rintro ⟨p, hp, hm⟩
          simp at hp
          rcases hp with rfl | hp
          · have h4 : t ≤ l ∧ l < t' ∧ L ≤ c ∧ c < R := by
              unfold Mem bottom right initBounded at hm; simp at hm; omega
            exact ⟨h4.2.1, (hsec l c h4.1 h4.2.1).2 ⟨h4.2.2.1, h4.2.2.2⟩⟩
          · have := hc.1 ⟨p, by simpa using hp, hm⟩
            exact ⟨by omega, this.2⟩
        · intro ⟨h1, h2⟩
          by_cases hl : l < t
          · obtain ⟨p, hp, hm⟩ := hc.2 ⟨hl, h2⟩
            exact ⟨p, by simp at hp ⊢; exact Or.inr hp, hm⟩
          · have h3 : t ≤ l := by omega
            have := (hsec l c h3 h1).1 h2
            refine ⟨initBounded t L t' R, by simp, ?_⟩
            unfold Mem bottom right initBounded; simp; omega
      · intro p rest' he
        simp at he
        obtain ⟨rfl, _⟩ := he
        unfold bottom initBounded; simp <;> omega

/-- The cross-section of `a ∪ b` on a band between two consecutive sorted edge rows. -/
theorem band_section {a b : Rect} {t t' : Int} (hlt : t < t')
    (hat : a.top ≤ t ∨ t' ≤ a.top) (hab : a.bottom ≤ t ∨ t' ≤ a.bottom)
    (hbt : b.top ≤ t ∨ t' ≤ b.top) (hbb : b.bottom ≤ t ∨ t' ≤ b.bottom)
    (hna : a.Nonempty) (hnb : b.Nonempty)
    (hsome : (a.top ≤ t ∧ t' ≤ a.bottom) ∨ (b.top ≤ t ∧ t' ≤ b.bottom))
    (htouch : a.left ≤ b.right ∧ b.left ≤ a.right) :
    bandLeft a b t t' < bandRight a b t t' ∧
    ∀ l c, t ≤ l → l < t' →
      ((a.Mem l c ∨ b.Mem l c) ↔ (bandLeft a b t t' ≤ c ∧ c < bandRight a b t t')) := by
  unfold Nonempty at hna hnb
  unfold bandLeft bandRight bandHas Mem
  unfold bottom right at *
  by_cases hA : a.top ≤ t ∧ t' ≤ a.top + a.lines <;> by_cases hB : b.top ≤ t ∧ t' ≤ b.top + b.lines
  · have e1 : (decide (t ≥ a.top) && decide (t' ≤ a.top + a.lines)) = true := by simp; omega
    have e2 : (decide (t ≥ b.top) && decide (t' ≤ b.top + b.lines)) = true := by simp; omega
    simp only [e1, e2, Bool.and_self, if_true]
    refine ⟨by omega, ?_⟩
    intro l c h1 h2; omega
  · have e1 : (decide (t ≥ a.top) && decide (t' ≤ a.top + a.lines)) = true := by simp; omega
    have e2 : (decide (t ≥ b.top) && decide (t' ≤ b.top + b.lines)) = false := by
      simp only [Bool.and_eq_false_iff, decide_eq_false_iff_not]; omega
    simp only [e1, e2, Bool.and_false, Bool.false_eq_true, if_false, if_true]
    refine ⟨by omega, ?_⟩
    intro l c h1 h2; omega
  · have e1 : (decide (t ≥ a.top) && decide (t' ≤ a.top + a.lines)) = false := by
      simp only [Bool.and_eq_false_iff, decide_eq_false_iff_not]; omega
    have e2 : (decide (t ≥ b.top) && decide (t' ≤ b.top + b.lines)) = true := by simp; omega
    simp only [e1, e2, Bool.false_and, Bool.false_eq_true, if_false]
    refine ⟨by omega, ?_⟩
    intro l c h1 h2; omega
  · omega

/-- One iteration of the band loop, for bands between consecutive sorted edge rows. -/
theorem bandInv_step {a b : Rect} {acc : List Rect} {t t' : Int}
    (h : BandInv (fun l c => a.Mem l c ∨ b.Mem l c) acc t) (hle : t ≤ t')
    (hat : a.top ≤ t ∨ t' ≤ a.top) (hab : a.bottom ≤ t ∨ t' ≤ a.bottom)
    (hbt : b.top ≤ t ∨ t' ≤ b.top) (hbb : b.bottom ≤ t ∨ t' ≤ b.bottom)
    (hna : a.Nonempty) (hnb : b.Nonempty)
    (hsome : t < t' → (a.top ≤ t ∧ t' ≤ a.bottom) ∨ (b.top ≤ t ∧ t' ≤ b.bottom))
    (htouch : a.left ≤ b.right ∧ b.left ≤ a.right) :
    BandInv (fun l c => a.Mem l c ∨ b.Mem l c) (addBand a b acc t t') t' := by
  unfold addBand
  split
  · rename_i heq; subst heq; exact h
  · have hlt : t < t' := by omega
    obtain ⟨h1, h2⟩ := band_section hlt hat hab hbt hbb hna hnb (hsome hlt) htouch
    exact bandInv_push h hlt h1 h2

end Rect
end Tickit
