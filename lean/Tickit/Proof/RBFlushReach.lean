import Tickit.Proof.RBFlushSpec
import Tickit.Proof.RBFlushCount
import Tickit.Proof.RBRefine
/-
  C04: from C03's invariant to the hypothesis of `flush_spec`.  The run structure demanded by `FlushWF` (runs tile every
  line, CONT cells point at their run start, LINE/CHAR runs are one column wide) is what engine rb's `WF` provides for
  every buffer a drawing program produces; what `WF` does not speak about is the *content* of the start cells
  (`ContentOK`: line masks 1 … 255, CHAR code points one column wide, TEXT runs inside accepted texts).
-/
namespace Tickit.RBFlush
open Tickit.RB

/-- What the start cells hold, as far as the flush cares. -/
def ContentOK (rb : RB) : Prop :=
  ∀ l c, rb.inGrid l c →
    ((rb.cell l c).state = .line → 1 ≤ (rb.cell l c).lmask ∧ (rb.cell l c).lmask < 256) ∧
    ((rb.cell l c).state = .char → CharOK (rb.cell l c).cp) ∧
    ((rb.cell l c).state = .text → TextOK (rb.cell l c))

theorem tiled_of_rowWF {rb : RB} {line : Int} (hl : 0 ≤ line ∧ line < rb.lines)
    (hrow : RowWF rb.cols (rb.cells line)) (hc : ContentOK rb) :
    ∀ (n : Nat) (col : Int), 0 ≤ col → col ≤ rb.cols → (rb.cols - col).toNat ≤ n →
      (col < rb.cols → (rb.cell line col).state ≠ .cont) → Tiled rb line col := by
  intro n
  induction n with
  | zero =>
    intro col h0 h1 h2 _
    have : col = rb.cols := by omega
    rw [this]; exact TiledP.done
  | succ k ih =>
    intro col h0 h1 h2 hnc
    by_cases hlt : col < rb.cols
    · have hs := hnc hlt
      have hcell : ∀ c, rb.cell line c = (rb.cells line).get c := fun _ => rfl
      obtain ⟨hpos, hfit⟩ := hrow.start_len col h0 hlt (by rw [← hcell]; exact hs)
      rw [← hcell] at hpos hfit
      have hg : rb.inGrid line col := by unfold RB.inGrid; omega
      obtain ⟨c1, c2, c3⟩ := hc line col hg
      refine TiledP.run hlt ⟨hs, hpos, hfit, ?_, ?_, c1, c2, c3⟩ ?_
      · intro j hj1 hj2
        have := hrow.start_run col j h0 hlt (by rw [← hcell]; exact hs) hj1 (by rw [← hcell]; exact hj2)
        rw [← hcell] at this
        exact this
      · intro hlc
        have := hrow.one col h0 hlt (by rw [← hcell]; exact hlc)
        rw [← hcell] at this
        exact this
      · apply ih (col + (rb.cell line col).cols) (by omega) hfit (by omega)
        intro hlt' hcont
        -- a CONT cell right after the run would belong to a run that overlaps this one
        have hn0 : 0 ≤ col + (rb.cell line col).cols := by omega
        obtain ⟨s0, s1⟩ := hrow.cont_lo _ hn0 hlt' (by rw [← hcell]; exact hcont)
        have s2 := hrow.cont_start _ hn0 hlt' (by rw [← hcell]; exact hcont)
        have s3 := hrow.cont_in _ hn0 hlt' (by rw [← hcell]; exact hcont)
        simp only [← hcell] at s0 s1 s2 s3
        generalize hsdef : (rb.cell line (col + (rb.cell line col).cols)).cols = s at s0 s1 s2 s3
        have hslt : s < rb.cols := by omega
        by_cases hc1 : s < col
        · have := hrow.start_run s col s0 hslt (by rw [← hcell]; exact s2) hc1 (by rw [← hcell]; omega)
          rw [← hcell] at this
          exact hs this.1
        · by_cases hc2 : s = col
          · rw [hc2] at s3; omega
          · have := hrow.start_run col s h0 hlt (by rw [← hcell]; exact hs) (by omega) (by rw [← hcell]; omega)
            rw [← hcell] at this
            exact s2 this.1
    · have : col = rb.cols := by omega
      rw [this]; exact TiledP.done

/-- C03's invariant plus presentable content give the hypothesis of `flush_spec`. -/
theorem flushWF_of_WF {rb : RB} (wf : WF rb) (hc : ContentOK rb) : FlushWF rb := by
  intro line h0 h1
  have hrow := wf.rows line h0 h1
  apply tiled_of_rowWF ⟨h0, h1⟩ hrow hc rb.cols.toNat 0 (by omega) (by have := wf.size.2; omega) (by omega)
  intro hlt hcont
  have := hrow.cont_lo 0 (by omega) hlt hcont
  omega

/-! ## `ContentOK` of every buffer a drawing program produces

  Shown at the level of C03's cell-wise specification (`RBAbs`), where every drawing operation is a `paint`, and carried
  to the concrete buffer by C03's refinement theorem. -/

open Tickit.RBAbs

/-- A cell content the flush can present. -/
def COK : Content → Prop
  | .text _ s k => ∃ cs, decode s = some cs ∧ 0 ≤ k ∧ k < chCols cs
  | .line _ m => 1 ≤ m ∧ m < 256
  | .char _ cp => CharOK cp
  | .skip => True
  | .erase _ => True

def AbsOK (a : AState) : Prop := ∀ L C, COK (a.content L C)

/-- What an operation may draw: CHAR code points one column wide (the negation is the known finding
    `char_not_one_column`) and line styles single / double / thick. -/
def OpOK : Op → Prop
  | .charAt _ _ cp => CharOK cp
  | .char cp => CharOK cp
  | .hlineAt _ _ _ st _ => 1 ≤ st ∧ st ≤ 3
  | .vlineAt _ _ _ st _ => 1 ≤ st ∧ st ≤ 3
  | _ => True

theorem absOK_paint {a : AState} (h : AbsOK a) (covers : Int → Int → Bool) (what : Int → Int → Content → Content)
    (hw : ∀ l c old, covers l c = true → COK old → COK (what l c old)) : AbsOK (paint a covers what) := by
  intro L C
  unfold paint
  simp only
  split
  · rename_i hc
    rw [Bool.and_eq_true] at hc
    exact hw _ _ _ hc.1 (h L C)
  · exact h L C

theorem absOK_content_eq {a a' : AState} (h : AbsOK a) (he : a'.content = a.content) : AbsOK a' := by
  intro L C; rw [he]; exact h L C

theorem absOK_textAt {a : AState} (h : AbsOK a) (line col : Int) (s : List UInt8) : AbsOK (RBAbs.textAt a line col s) := by
  unfold RBAbs.textAt
  cases hs : Utf8.stringColumns s with
  | none => exact h
  | some n =>
    obtain ⟨cs, hcs, hn⟩ := decode_of_stringColumns s n hs
    apply absOK_paint h
    intro l c old hc _
    unfold inRun at hc
    simp only [Bool.and_eq_true, decide_eq_true_eq] at hc
    exact ⟨cs, hcs, by omega, by omega⟩

theorem cok_mergeLine (pen : Pen) (bits : Nat) (old : Content) (hb : 1 ≤ bits ∧ bits < 256) (ho : COK old) :
    COK (mergeLine pen bits old) := by
  unfold mergeLine
  cases old with
  | line p m =>
    simp only [COK] at ho ⊢
    refine ⟨?_, ?_⟩
    · have : m ≤ m ||| bits := Nat.left_le_or
      omega
    · exact Nat.or_lt_two_pow (n := 8) ho.2 hb.2
  | skip => exact hb
  | text _ _ _ => exact hb
  | erase _ => exact hb
  | char _ _ => exact hb

theorem absOK_linecell {a : AState} (h : AbsOK a) (line col : Int) (bits : Nat) (hb : 1 ≤ bits ∧ bits < 256) :
    AbsOK (RBAbs.linecell a line col bits) := by
  unfold RBAbs.linecell
  exact absOK_paint h _ _ (fun _ _ old _ ho => cok_mergeLine _ _ old hb ho)

theorem absOK_lineLoop (cellAt : Int → Int × Int) (bits : Nat) (hb : 1 ≤ bits ∧ bits < 256) :
    ∀ (n : Nat) (a : AState) (from_ : Int), AbsOK a → AbsOK (RBAbs.lineLoop cellAt bits a from_ n) := by
  intro n
  induction n with
  | zero => intro a _ h; exact h
  | succ k ih => intro a f h; exact ih _ _ (absOK_linecell h _ _ _ hb)

open Tickit.Gen.RBWidth in
/-- The bits one call of `linecell` adds: a style shifted into one direction, possibly or-ed with the opposite one. -/
theorem lineBits_ok (st : Nat) (hst : 1 ≤ st ∧ st ≤ 3) (s1 s2 : Nat) (h1 : s1 = 0 ∨ s1 = 2 ∨ s1 = 4 ∨ s1 = 6)
    (h2 : s2 = 0 ∨ s2 = 2 ∨ s2 = 4 ∨ s2 = 6) (b : Bool) :
    1 ≤ (st <<< s1 ||| (if b then st <<< s2 else 0)) ∧ (st <<< s1 ||| (if b then st <<< s2 else 0)) < 256 ∧
    1 ≤ ((if b then st <<< s2 else 0) ||| st <<< s1) ∧ ((if b then st <<< s2 else 0) ||| st <<< s1) < 256 ∧
    1 ≤ (st <<< s1 ||| st <<< s2) ∧ (st <<< s1 ||| st <<< s2) < 256 := by
  have : st = 1 ∨ st = 2 ∨ st = 3 := by omega
  rcases this with rfl | rfl | rfl <;> rcases h1 with rfl | rfl | rfl | rfl <;> rcases h2 with rfl | rfl | rfl | rfl <;>
    cases b <;> decide

open Tickit.Gen.RBWidth in
theorem absOK_hlineAt {a : AState} (h : AbsOK a) (l c1 c2 : Int) (st caps : Nat) (hst : 1 ≤ st ∧ st ≤ 3) :
    AbsOK (RBAbs.hlineAt a l c1 c2 st caps) := by
  unfold RBAbs.hlineAt
  have e : c_EAST_SHIFT = 2 := rfl
  have w : c_WEST_SHIFT = 6 := rfl
  simp only [e, w]
  have k1 := lineBits_ok st hst 2 6 (by simp) (by simp) (decide (caps &&& c_TICKIT_LINECAP_START ≠ 0))
  have k2 := lineBits_ok st hst 6 2 (by simp) (by simp) (decide (caps &&& c_TICKIT_LINECAP_END ≠ 0))
  simp only [decide_eq_true_eq] at k1 k2
  apply absOK_linecell _ _ _ _ ⟨k2.2.2.1, k2.2.2.2.1⟩
  apply absOK_lineLoop _ _ ⟨k1.2.2.2.2.1, k1.2.2.2.2.2⟩
  exact absOK_linecell h _ _ _ ⟨k1.1, k1.2.1⟩

open Tickit.Gen.RBWidth in
theorem absOK_vlineAt {a : AState} (h : AbsOK a) (l1 l2 c : Int) (st caps : Nat) (hst : 1 ≤ st ∧ st ≤ 3) :
    AbsOK (RBAbs.vlineAt a l1 l2 c st caps) := by
  unfold RBAbs.vlineAt
  have e : c_NORTH_SHIFT = 0 := rfl
  have w : c_SOUTH_SHIFT = 4 := rfl
  simp only [e, w]
  have k1 := lineBits_ok st hst 4 0 (by simp) (by simp) (decide (caps &&& c_TICKIT_LINECAP_START ≠ 0))
  have k2 := lineBits_ok st hst 0 4 (by simp) (by simp) (decide (caps &&& c_TICKIT_LINECAP_END ≠ 0))
  simp only [decide_eq_true_eq] at k1 k2
  apply absOK_linecell _ _ _ _ ⟨k2.2.2.1, k2.2.2.2.1⟩
  apply absOK_lineLoop _ _ ⟨k1.2.2.2.2.1, k1.2.2.2.2.2⟩
  exact absOK_linecell h _ _ _ ⟨k1.1, k1.2.1⟩

theorem absOK_atCursor {a : AState} (h : AbsOK a) (draw : AState → Int → Int → AState) (adv : Int)
    (hd : ∀ l c, AbsOK (draw a l c)) : AbsOK (atCursor a draw adv) := by
  unfold atCursor
  cases a.vc with
  | none => exact h
  | some p => exact absOK_content_eq (hd p.1 p.2) rfl

theorem absOK_step {a : AState} (h : AbsOK a) (o : Op) (ho : OpOK o) : AbsOK (RBAbs.step a o) := by
  have perase : ∀ l c n, AbsOK (RBAbs.eraseAt a l c n) := by
    intro l c n
    unfold RBAbs.eraseAt
    exact absOK_paint h _ _ (fun _ _ _ _ _ => trivial)
  have pskip : ∀ l c n, AbsOK (RBAbs.skipAt a l c n) := by
    intro l c n
    unfold RBAbs.skipAt
    exact absOK_paint h _ _ (fun _ _ _ _ _ => trivial)
  have pchar : ∀ l c cp, CharOK cp → AbsOK (RBAbs.charAt a l c cp) := by
    intro l c cp hcp
    unfold RBAbs.charAt
    exact absOK_paint h _ _ (fun _ _ _ _ _ => hcp)
  have prect : ∀ r, AbsOK (RBAbs.eraserect a r) := by
    intro r
    unfold RBAbs.eraserect
    exact absOK_paint h _ _ (fun _ _ _ _ _ => trivial)
  cases o with
  | textAt l c s => exact absOK_textAt h l c s
  | text s => exact absOK_atCursor h _ _ (fun l c => absOK_textAt h l c s)
  | eraseAt l c n => exact perase l c n
  | erase n => exact absOK_atCursor h _ _ (fun l c => perase l c n)
  | eraseTo c =>
    simp only [RBAbs.step, RBAbs.eraseTo]
    cases a.vc with
    | none => exact h
    | some p => exact absOK_content_eq (perase p.1 p.2 (c - p.2)) rfl
  | skipAt l c n => exact pskip l c n
  | skip n => exact absOK_atCursor h _ _ (fun l c => pskip l c n)
  | skipTo c =>
    simp only [RBAbs.step, RBAbs.skipTo]
    cases a.vc with
    | none => exact h
    | some p => exact absOK_content_eq (pskip p.1 p.2 (c - p.2)) rfl
  | charAt l c cp => exact pchar l c cp ho
  | char cp => exact absOK_atCursor h _ _ (fun l c => pchar l c cp ho)
  | hlineAt l c1 c2 st caps => exact absOK_hlineAt h l c1 c2 st caps ho
  | vlineAt l1 l2 c st caps => exact absOK_vlineAt h l1 l2 c st caps ho
  | clear => exact prect _
  | eraserect r => exact prect r
  | skiprect r =>
    show AbsOK (RBAbs.skiprect a r)
    unfold RBAbs.skiprect
    exact absOK_paint h _ _ (fun _ _ _ _ _ => trivial)
  | goto l c => exact absOK_content_eq h rfl
  | ungoto => exact absOK_content_eq h rfl
  | translate d r => exact absOK_content_eq h rfl
  | clip r => exact absOK_content_eq h rfl
  | mask r => exact absOK_content_eq h rfl
  | setpen p =>
    simp only [RBAbs.step, RBAbs.setpen]
    cases a.stack <;> exact absOK_content_eq h rfl
  | save => exact absOK_content_eq h rfl
  | savepen => exact absOK_content_eq h rfl
  | restore =>
    simp only [RBAbs.step, RBAbs.restore]
    cases a.stack with
    | nil => exact h
    | cons f rest =>
      simp only
      split <;> exact absOK_content_eq h rfl
  | reset => intro L C; exact trivial

theorem absOK_run : ∀ (prog : List Op) (a : AState), AbsOK a → (∀ o ∈ prog, OpOK o) → AbsOK (RBAbs.run a prog) := by
  intro prog
  induction prog with
  | nil => intro a h _; exact h
  | cons o rest ih =>
    intro a h ho
    exact ih _ (absOK_step h o (ho o (by simp))) (fun o' h' => ho o' (by simp [h']))

/-! ## Back to the concrete buffer -/

theorem absContent_start {rb : RB} {l c : Int} (hg : rb.inGrid l c) (hs : (rb.cell l c).state ≠ .cont) :
    absContent rb l c =
      match (rb.cell l c).state with
      | .skip => .skip
      | .text => .text (rb.cell l c).pen (rb.cell l c).text ((rb.cell l c).offs + 0)
      | .erase => .erase (rb.cell l c).pen
      | .line => .line (rb.cell l c).pen (rb.cell l c).lmask
      | .char => .char (rb.cell l c).pen (rb.cell l c).cp
      | .cont => .skip := by
  unfold RB.inGrid at hg
  have hb : inBuf rb.lines rb.cols l c = true := by
    unfold inBuf; simp only [Bool.and_eq_true, decide_eq_true_eq]; omega
  unfold absContent
  rw [if_pos hb]
  simp only [hs, if_false]
  generalize (rb.cell l c).state = st
  cases st <;> rfl

theorem absContent_cont {rb : RB} {l c : Int} (hg : rb.inGrid l c) (hs : (rb.cell l c).state = .cont)
    (ht : (rb.cell l (rb.cell l c).cols).state = .text) :
    absContent rb l c = .text (rb.cell l (rb.cell l c).cols).pen (rb.cell l (rb.cell l c).cols).text
      ((rb.cell l (rb.cell l c).cols).offs + (c - (rb.cell l c).cols)) := by
  unfold RB.inGrid at hg
  have hb : inBuf rb.lines rb.cols l c = true := by
    unfold inBuf; simp only [Bool.and_eq_true, decide_eq_true_eq]; omega
  unfold absContent
  rw [if_pos hb]
  simp only [hs, if_true, ht]

/-- The content C03's specification assigns to the cells is presentable, so the start cells of the concrete buffer
    are. -/
theorem contentOK_of_abs {rb : RB} {a : AState} (wf : WF rb) (R : Refines rb a) (h : AbsOK a) : ContentOK rb := by
  intro l c hg
  have hg' := hg
  unfold RB.inGrid at hg'
  have hrow := wf.rows l hg'.1 hg'.2.1
  have hcell : ∀ k, rb.cell l k = (rb.cells l).get k := fun _ => rfl
  refine ⟨?_, ?_, ?_⟩
  · intro hs
    have := h l c
    rw [R.content, absContent_start hg (by rw [hs]; simp), hs] at this
    exact this
  · intro hs
    have := h l c
    rw [R.content, absContent_start hg (by rw [hs]; simp), hs] at this
    exact this
  · intro hs
    have h1 := h l c
    rw [R.content, absContent_start hg (by rw [hs]; simp), hs] at h1
    obtain ⟨cs, hcs, h0, _⟩ := h1
    have hnc : ((rb.cells l).get c).state ≠ .cont := by rw [← hcell, hs]; simp
    obtain ⟨hpos, hfit⟩ := hrow.start_len c hg'.2.2.1 hg'.2.2.2 hnc
    rw [← hcell] at hpos hfit
    refine ⟨cs, hcs, by omega, ?_⟩
    by_cases hone : (rb.cell l c).cols = 1
    · have h1' := h l c
      rw [R.content, absContent_start hg (by rw [hs]; simp), hs] at h1'
      obtain ⟨cs', hcs', _, hlt⟩ := h1'
      rw [hcs] at hcs'; cases hcs'
      omega
    · -- the last cell of the run is a CONT cell pointing at `c`
      have hlast := hrow.start_run c (c + (rb.cell l c).cols - 1) hg'.2.2.1 hg'.2.2.2 hnc (by omega)
        (by rw [← hcell]; omega)
      rw [← hcell] at hlast
      have hgl : rb.inGrid l (c + (rb.cell l c).cols - 1) := by unfold RB.inGrid; omega
      have h2 := h l (c + (rb.cell l c).cols - 1)
      rw [R.content, absContent_cont hgl hlast.1 (by rw [hlast.2]; exact hs), hlast.2] at h2
      obtain ⟨cs', hcs', _, hlt⟩ := h2
      rw [hcs] at hcs'; cases hcs'
      omega

/-- Every buffer a drawing program produces from a fresh one — with one-column CHAR code points and line styles
    1 … 3 — satisfies the hypothesis of `flush_spec`. -/
theorem flushWF_of_program (lines cols g1 g2 : Int) (hl : 0 ≤ lines) (hc : 0 < cols) (prog : List Op)
    (hok : ∀ o ∈ prog, OpOK o) : FlushWF (RB.run (RB.new lines cols g1 g2) prog) := by
  obtain ⟨wf0, r0⟩ := new_refines lines cols g1 g2 hl hc
  obtain ⟨wf, R⟩ := run_refines prog wf0 r0
  have habs : AbsOK (RBAbs.run (AState.new lines cols) prog) :=
    absOK_run prog _ (fun _ _ => trivial) hok
  exact flushWF_of_WF wf (contentOK_of_abs wf R habs)

end Tickit.RBFlush
