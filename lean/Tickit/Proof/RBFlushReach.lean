import Tickit.Proof.RBFlushSpec
import Tickit.Proof.RBRefine
/-
  C04: from C03's invariant to the hypothesis of `flush_spec`.  The run structure demanded by `FlushWF` (runs tile every
  line, CONT cells point at their run start, LINE/CHAR runs are one column wide) is what engine rb's `WF` provides for
  every buffer a drawing program produces; what `WF` does not speak about is the *content* of the start cells
  (`ContentOK`: line masks 1 … 255, CHAR code points one column wide, TEXT runs inside accepted texts).
-/
namespace Tickit.RBFlush
open Tickit.RB

/-- What the start cells hold, as far as the flush cares. -/
def ContentOK (rb : RB) : Prop :=
  ∀ l c, rb.inGrid l c →
    ((rb.cell l c).state = .line → 1 ≤ (rb.cell l c).lmask ∧ (rb.cell l c).lmask < 256) ∧
    ((rb.cell l c).state = .char → CharOK (rb.cell l c).cp) ∧
    ((rb.cell l c).state = .text → TextOK (rb.cell l c))

theorem tiled_of_rowWF {rb : RB} {line : Int} (hl : 0 ≤ line ∧ line < rb.lines)
    (hrow : RowWF rb.cols (rb.cells line)) (hc : ContentOK rb) :
    ∀ (n : Nat) (col : Int), 0 ≤ col → col ≤ rb.cols → (rb.cols - col).toNat ≤ n →
      (col < rb.cols → (rb.cell line col).state ≠ .cont) → Tiled rb line col := by
  intro n
  induction n with
  | zero =>
    intro col h0 h1 h2 _
    have : col = rb.cols := by omega
    rw [this]; exact TiledP.done
  | succ k ih =>
    intro col h0 h1 h2 hnc
    by_cases hlt : col < rb.cols
    · have hs := hnc hlt
      have hcell : ∀ c, rb.cell line c = (rb.cells line).get c := fun _ => rfl
      obtain ⟨hpos, hfit⟩ := hrow.start_len col h0 hlt (by rw [← hcell]; exact hs)
      rw [← hcell] at hpos hfit
      have hg : rb.inGrid line col := by unfold RB.inGrid; omega
      obtain ⟨c1, c2, c3⟩ := hc line col hg
      refine TiledP.run hlt ⟨hs, hpos, hfit, ?_, ?_, c1, c2, c3⟩ ?_
      · intro j hj1 hj2
        have := hrow.start_run col j h0 hlt (by rw [← hcell]; exact hs) hj1 (by rw [← hcell]; exact hj2)
        rw [← hcell] at this
        exact this
      · intro hlc
        have := hrow.one col h0 hlt (by rw [← hcell]; exact hlc)
        rw [← hcell] at this
        exact this
      · apply ih (col + (rb.cell line col).cols) (by omega) hfit (by omega)
        intro hlt' hcont
        -- a CONT cell right after the run would belong to a run that overlaps this one
        have hn0 : 0 ≤ col + (rb.cell line col).cols := by omega
        obtain ⟨s0, s1⟩ := hrow.cont_lo _ hn0 hlt' (by rw [← hcell]; exact hcont)
        have s2 := hrow.cont_start _ hn0 hlt' (by rw [← hcell]; exact hcont)
        have s3 := hrow.cont_in _ hn0 hlt' (by rw [← hcell]; exact hcont)
        simp only [← hcell] at s0 s1 s2 s3
        generalize hsdef : (rb.cell line (col + (rb.cell line col).cols)).cols = s at s0 s1 s2 s3
        have hslt : s < rb.cols := by omega
        by_cases hc1 : s < col
        · have := hrow.start_run s col s0 hslt (by rw [← hcell]; exact s2) hc1 (by rw [← hcell]; omega)
          rw [← hcell] at this
          exact hs this.1
        · by_cases hc2 : s = col
          · rw [hc2] at s3; omega
          · have := hrow.start_run col s h0 hlt (by rw [← hcell]; exact hs) (by omega) (by rw [← hcell]; omega)
            rw [← hcell] at this
            exact s2 this.1
    · have : col = rb.cols := by omega
      rw [this]; exact TiledP.done

/-- C03's invariant plus presentable content give the hypothesis of `flush_spec`. -/
theorem flushWF_of_WF {rb : RB} (wf : WF rb) (hc : ContentOK rb) : FlushWF rb := by
  intro line h0 h1
  have hrow := wf.rows line h0 h1
  apply tiled_of_rowWF ⟨h0, h1⟩ hrow hc rb.cols.toNat 0 (by omega) (by have := wf.size.2; omega) (by omega)
  intro hlt hcont
  have := hrow.cont_lo 0 (by omega) hlt hcont
  omega

end Tickit.RBFlush
