import Tickit.Model.WinTree
import Tickit.Proof.RectSet
import Tickit.Proof.RectSetInv
import Tickit.Props.C06
/-
  `tickit_window_expose` (`WinTree.expose`): the damage it adds is exactly the exposed area, clipped to the window and
  to every ancestor, translated to root coordinates — provided every window on the way is visible.
-/
namespace Tickit
namespace WinTree
open Tickit.Rect

/-- Cell `(l, c)` of window `id` (in `id`'s coordinates) lies inside `id` and inside every ancestor, all of them visible,
    and the parent chain ends in a root window, in whose coordinates the cell is `(L, C)`. -/
def ExposedAt (t : Tree) : Nat → Id → Int → Int → Int → Int → Prop
  | 0, _, _, _, _, _ => False
  | fuel + 1, id, l, c, L, C =>
    ∃ w : Win, t.wins[id]? = some w ∧ w.freed = false ∧ 0 ≤ l ∧ l < w.rect.lines ∧ 0 ≤ c ∧ c < w.rect.cols ∧ w.isVisible = true ∧
      ((w.isRoot = true ∧ l = L ∧ c = C) ∨
       (w.isRoot = false ∧ ∃ p, w.parent = some p ∧ ExposedAt t fuel p (l + w.rect.top) (c + w.rect.left) L C))

/-- Root windows have a positive size (a terminal has at least one cell). -/
def RootsPositive (t : Tree) : Prop :=
  ∀ (id : Id) (w : Win), t.wins[id]? = some w → w.isRoot = true → 0 < w.rect.lines ∧ 0 < w.rect.cols

theorem get_ok' {t : Tree} {id : Id} {w : Win} (h : get t id = .ok w) : t.wins[id]? = some w ∧ w.freed = false := by
  unfold get at h
  split at h
  · cases h
  · split at h
    · cases h
    · rename_i w' hw hf
      cases h
      exact ⟨hw, by simpa using hf⟩

/-- `damaged` of `tickit_window_expose`: the exposed rectangle clipped to the window (`none` = nothing to do). -/
def damagedOf (w : Win) (e : Option Rect) : Option Rect :=
  match e with
  | some e => Rect.intersect ⟨0, 0, w.rect.lines, w.rect.cols⟩ e
  | none => some ⟨0, 0, w.rect.lines, w.rect.cols⟩

/-- The rest of `tickit_window_expose` once `damaged` is known. -/
def exposeTail (t : Tree) (n : Nat) (w : Win) (damaged : Rect) : Res Tree :=
  if !w.isVisible then pure t
  else if !w.isRoot then
    match w.parent with
    | none => pure t
    | some p => expose t n p (some (damaged.translate w.rect.top w.rect.left))
  else
    match RectSet.contains rsFuel t.root.damage damaged with
    | none => .ub "rectset_contains out of fuel"
    | some true => pure t
    | some false =>
      match RectSet.add rsFuel t.root.damage damaged with
      | none => .ub "rectset_add out of fuel"
      | some d => pure { t with root := { t.root with damage := d, needsExpose := true, needsLater := true } }

theorem expose_succ (t : Tree) (n : Nat) (id : Id) (e : Option Rect) :
    expose t (n + 1) id e = (do
      let w ← get t id
      match damagedOf w e with
      | none => pure t
      | some damaged => exposeTail t n w damaged) := by
  simp only [expose, damagedOf, exposeTail]
  cases get t id with
  | ub w => rfl
  | ok w =>
    simp only [bind, Bind.bind]
    cases e with
    | none => rfl
    | some r => cases Rect.intersect ⟨0, 0, w.rect.lines, w.rect.cols⟩ r <;> rfl

/-- The region a call `expose id e` is about, in root coordinates. -/
def ExposedRegion (t : Tree) (fuel : Nat) (id : Id) (e : Option Rect) (L C : Int) : Prop :=
  ∃ l c, (∀ r, e = some r → r.Mem l c) ∧ ExposedAt t fuel id l c L C

theorem expose_spec : ∀ (fuel : Nat) (t : Tree) (id : Id) (e : Option Rect) (t' : Tree),
    expose t fuel id e = .ok t' → (∀ x ∈ t.root.damage, x.Nonempty) → RootsPositive t →
    t'.wins = t.wins ∧ (∀ x ∈ t'.root.damage, x.Nonempty) ∧
    (RectSet.Inv t.root.damage → RectSet.Inv t'.root.damage) ∧
    (t' = t ∨ (t'.root.needsExpose = true ∧ t'.root.needsLater = true ∧ t'.root.changes = t.root.changes)) ∧
    ∀ L C, Covered t'.root.damage L C ↔ (Covered t.root.damage L C ∨ ExposedRegion t fuel id e L C) := by
  intro fuel
  induction fuel with
  | zero => intro t id e t' h; simp [expose] at h
  | succ n ih =>
    intro t id e t' h hne hpos
    rw [expose_succ] at h
    cases hg : get t id with
    | ub w => rw [hg] at h; cases h
    | ok w =>
      rw [hg] at h
      have hw := get_ok' hg
      simp only [bind, Bind.bind] at h
      -- the damaged rectangle in the window's own coordinates
      generalize hd : damagedOf w e = damaged? at h
      unfold damagedOf at hd
      -- what `damaged?` means cell-wise
      have hdm : ∀ l c, (∃ d, damaged? = some d ∧ d.Mem l c) ↔
          ((∀ r, e = some r → r.Mem l c) ∧ 0 ≤ l ∧ l < w.rect.lines ∧ 0 ≤ c ∧ c < w.rect.cols) := by
        intro l c
        cases e with
        | none =>
          simp only at hd
          subst hd
          simp [Rect.Mem, Rect.bottom, Rect.right]
        | some r =>
          simp only at hd
          cases hi : Rect.intersect ⟨0, 0, w.rect.lines, w.rect.cols⟩ r with
          | none =>
            rw [hi] at hd; subst hd
            have := Props.C06.intersect_none _ _ hi l c
            simp only [Rect.Mem, Rect.bottom, Rect.right] at this ⊢
            constructor
            · rintro ⟨d, hd, _⟩; cases hd
            · rintro ⟨h1, h2⟩
              exact absurd ⟨by omega, h1 r rfl⟩ this
          | some d =>
            rw [hi] at hd; subst hd
            have := (Props.C06.intersect_some _ _ _ hi).2 l c
            simp only [Rect.Mem, Rect.bottom, Rect.right] at this ⊢
            constructor
            · rintro ⟨d', hd', hm⟩
              cases hd'
              have := this.1 hm
              exact ⟨fun r' hr' => by cases hr'; exact this.2, by omega⟩
            · rintro ⟨h1, h2⟩
              exact ⟨d, rfl, this.2 ⟨by omega, h1 r rfl⟩⟩
      -- unfolding of the region of this call
      have hreg : ∀ L C, ExposedRegion t (n + 1) id e L C ↔
          ∃ l c, (∃ d, damaged? = some d ∧ d.Mem l c) ∧ w.isVisible = true ∧
            ((w.isRoot = true ∧ l = L ∧ c = C) ∨
             (w.isRoot = false ∧ ∃ p, w.parent = some p ∧ ExposedAt t n p (l + w.rect.top) (c + w.rect.left) L C)) := by
        intro L C
        unfold ExposedRegion
        constructor
        · rintro ⟨l, c, he, hx⟩
          simp only [ExposedAt] at hx
          obtain ⟨w', hw', _, h1, h2, h3, h4, hv, hrest⟩ := hx
          rw [hw.1] at hw'
          cases hw'
          exact ⟨l, c, (hdm l c).2 ⟨he, h1, h2, h3, h4⟩, hv, hrest⟩
        · rintro ⟨l, c, hd', hv, hrest⟩
          obtain ⟨he, h1, h2, h3, h4⟩ := (hdm l c).1 hd'
          exact ⟨l, c, he, by
            simp only [ExposedAt]
            exact ⟨w, hw.1, hw.2, h1, h2, h3, h4, hv, hrest⟩⟩
      cases hdq : damaged? with
      | none =>
        rw [hdq] at h
        simp only [pure, Pure.pure] at h
        cases h
        refine ⟨rfl, hne, fun hi => hi, Or.inl rfl, fun L C => ⟨Or.inl, ?_⟩⟩
        rintro (h1 | h2)
        · exact h1
        · obtain ⟨l, c, ⟨d, hd', _⟩, _⟩ := (hreg L C).1 h2
          rw [hdq] at hd'; cases hd'
      | some damaged =>
        rw [hdq] at h
        simp only [exposeTail] at h
        cases hv : w.isVisible with
        | false =>
          simp only [hv, pure, Pure.pure] at h
          simp at h
          subst h
          refine ⟨rfl, hne, fun hi => hi, Or.inl rfl, fun L C => ⟨Or.inl, ?_⟩⟩
          rintro (h1 | h2)
          · exact h1
          · obtain ⟨l, c, _, hv', _⟩ := (hreg L C).1 h2
            rw [hv] at hv'; cases hv'
        | true =>
          simp only [hv] at h
          cases hr : w.isRoot with
          | false =>
            simp only [hr] at h
            cases hp : w.parent with
            | none =>
              rw [hp] at h
              simp only [pure, Pure.pure] at h
              simp at h
              subst h
              refine ⟨rfl, hne, fun hi => hi, Or.inl rfl, fun L C => ⟨Or.inl, ?_⟩⟩
              rintro (h1 | h2)
              · exact h1
              · obtain ⟨l, c, _, _, hrest⟩ := (hreg L C).1 h2
                rcases hrest with ⟨hr', _⟩ | ⟨_, p, hp', _⟩
                · rw [hr] at hr'; cases hr'
                · rw [hp] at hp'; cases hp'
            | some p =>
              rw [hp] at h
              simp at h
              obtain ⟨hwins, hne', hdi, hfl, hcov⟩ := ih t p _ t' h hne hpos
              refine ⟨hwins, hne', hdi, hfl, fun L C => ?_⟩
              rw [hcov L C, hreg L C]
              apply or_congr Iff.rfl
              unfold ExposedRegion
              constructor
              · rintro ⟨l', c', he', hx⟩
                have hm := he' _ rfl
                refine ⟨l' - w.rect.top, c' - w.rect.left, ⟨damaged, hdq, ?_⟩, hv, Or.inr ⟨hr, p, hp, ?_⟩⟩
                · simp only [Rect.Mem, Rect.translate, Rect.bottom, Rect.right] at hm ⊢; omega
                · have e1 : l' - w.rect.top + w.rect.top = l' := by omega
                  have e2 : c' - w.rect.left + w.rect.left = c' := by omega
                  rw [e1, e2]; exact hx
              · rintro ⟨l, c, ⟨d, hd', hm⟩, _, hrest⟩
                rw [hdq] at hd'; cases hd'
                rcases hrest with ⟨hr', _⟩ | ⟨_, p', hp', hx⟩
                · rw [hr] at hr'; cases hr'
                · rw [hp] at hp'
                  cases hp'
                  refine ⟨l + w.rect.top, c + w.rect.left, ?_, hx⟩
                  intro r hr'
                  cases hr'
                  simp only [Rect.Mem, Rect.translate, Rect.bottom, Rect.right] at hm ⊢; omega
          | true =>
            simp only [hr] at h
            simp at h
            -- the damaged rectangle of a root window is not empty
            have hdne : damaged.Nonempty := by
              cases e with
              | none =>
                simp only at hd
                rw [hdq] at hd
                cases hd
                exact (show ∀ (id : Id) (w : Win), t.wins[id]? = some w → w.isRoot = true → 0 < w.rect.lines ∧ 0 < w.rect.cols from hpos) id w hw.1 hr
              | some r =>
                simp only at hd
                rw [hdq] at hd
                exact (Props.C06.intersect_some _ _ _ hd).1
            -- in a root window the region is the damaged rectangle itself
            have hroot : ∀ L C, ExposedRegion t (n + 1) id e L C ↔ damaged.Mem L C := by
              intro L C
              rw [hreg L C]
              constructor
              · rintro ⟨l, c, ⟨d, hd', hm⟩, _, hrest⟩
                rw [hdq] at hd'; cases hd'
                rcases hrest with ⟨_, rfl, rfl⟩ | ⟨hr', _⟩
                · exact hm
                · rw [hr] at hr'; cases hr'
              · intro hm
                exact ⟨L, C, ⟨damaged, hdq, hm⟩, hv, Or.inl ⟨hr, rfl, rfl⟩⟩
            cases hc : RectSet.contains rsFuel t.root.damage damaged with
            | none => rw [hc] at h; cases h
            | some b =>
              rw [hc] at h
              cases b with
              | true =>
                simp only [pure, Pure.pure] at h
                simp at h
                subst h
                refine ⟨rfl, hne, fun hi => hi, Or.inl rfl, fun L C => ⟨Or.inl, ?_⟩⟩
                rintro (h1 | h2)
                · exact h1
                · exact RectSet.contains_sound rsFuel _ _ hc hdne L C ((hroot L C).1 h2)
              | false =>
                simp only at h
                cases ha : RectSet.add rsFuel t.root.damage damaged with
                | none => rw [ha] at h; cases h
                | some d =>
                  rw [ha] at h
                  simp only [pure, Pure.pure] at h
                  simp at h
                  subst h
                  obtain ⟨hne', hcov⟩ := RectSet.add_region ha hdne hne
                  refine ⟨rfl, hne', fun hi => (RectSet.inv_iff _).2 (RectSet.add_invS ha hdne ((RectSet.inv_iff _).1 hi)),
                    Or.inr ⟨rfl, rfl, rfl⟩, fun L C => ?_⟩
                  simp only
                  rw [hcov L C, hroot L C]

end WinTree
end Tickit
