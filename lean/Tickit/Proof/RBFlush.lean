import Tickit.Model.RBFlush
/-
  Helper lemmas for C04 (Props/C04.lean): the box-drawing table, `tickit_term_setpen`, the grid terminal's frame
  conditions, the per-line invariant of the flush loop, and the text-slicing lemmas.
-/
namespace Tickit.RBFlush
open Tickit.RB

/-! ## Box-drawing glyphs -/

set_option synthInstance.maxSize 1000 in
set_option synthInstance.maxHeartbeats 200000 in
/-- No two code points of the block have the same arms. -/
theorem boxArms_injective :
    ∀ i, i < 128 → ∀ j, j < 128 →
      (boxArms.getD i none = boxArms.getD j none ∧ (boxArms.getD i none).isSome = true → i = j) := by
  decide +kernel

theorem armsOf_some_range {cp : Nat} {a : Arms} (h : armsOf cp = some a) :
    0x2500 ≤ cp ∧ cp < 0x2580 ∧ boxArms.getD (cp - 0x2500) none = some a := by
  unfold armsOf at h
  split at h
  · rename_i hr; exact ⟨hr.1, hr.2, h⟩
  · cases h

theorem armsOf_inj {x y : Nat} {a : Arms} (hx : armsOf x = some a) (hy : armsOf y = some a) : x = y := by
  obtain ⟨hx1, hx2, hx3⟩ := armsOf_some_range hx
  obtain ⟨hy1, hy2, hy3⟩ := armsOf_some_range hy
  have := boxArms_injective (x - 0x2500) (by omega) (y - 0x2500) (by omega) ⟨by rw [hx3, hy3], by rw [hx3]; rfl⟩
  omega

theorem hasExact_of_armsOf {cp : Nat} {a : Arms} (h : armsOf cp = some a) : hasExact a = true := by
  obtain ⟨h1, h2, h3⟩ := armsOf_some_range h
  unfold hasExact
  rw [List.any_eq_true]
  exact ⟨cp - 0x2500, List.mem_range.mpr (by omega), by rw [h3]; exact beq_self_eq_true _⟩

/-! ## The buffer after a flush -/

theorem flushWith_rb_of_ok (txt : Cell → List Req) (rb : RB) (h : (flushWith txt rb).out = .ok) :
    (flushWith txt rb).rb = reset rb := by
  unfold flushWith at h ⊢
  simp only at h ⊢
  rw [if_pos h]

theorem reset_cell (rb : RB) (l c : Int) (h : rb.inGrid l c) :
    (reset rb).cell l c =
      if c = 0 then { contCell (rb.cell l c) 0 with state := .skip, maskdepth := -1, cols := rb.cols }
      else contCell (rb.cell l c) 0 := by
  unfold RB.inGrid at h
  simp only [reset, RB.cell]
  rw [if_pos ⟨h.1, h.2.1, h.2.2.1, h.2.2.2⟩]

/-- An empty buffer: every line is one SKIP run. -/
def IsEmpty (rb : RB) : Prop :=
  ∀ l c, rb.inGrid l c →
    (rb.cell l c).state = (if c = 0 then .skip else .cont) ∧ (rb.cell l c).maskdepth = -1 ∧
    (rb.cell l c).cols = (if c = 0 then rb.cols else 0)

theorem reset_isEmpty (rb : RB) : IsEmpty (reset rb) := by
  intro l c h
  have h' : rb.inGrid l c := h
  rw [reset_cell rb l c h']
  by_cases hc : c = 0
  · simp [hc, reset]
  · simp [hc, contCell]

theorem want_of_isEmpty (rb : RB) (he : IsEmpty rb) (l c : Int) : want rb l c = .keep := by
  unfold want
  by_cases hg : rb.inGrid l c
  · rw [if_neg (fun hn => hn hg)]
    have hg0 : rb.inGrid l 0 := by unfold RB.inGrid at hg ⊢; omega
    have h00 := he l 0 hg0
    simp only [if_true] at h00
    have hs : runStart rb l c = 0 := by
      unfold runStart
      by_cases h0 : c = 0
      · subst h0; simp [h00.1]
      · have hc := he l c hg
        simp only [if_neg h0] at hc
        simp [hc.1, hc.2.2]
    simp only [hs, h00.1]
  · rw [if_pos hg]

theorem flushCols_empty (txt : Cell → List Req) (rb : RB) (he : IsEmpty rb) (line : Int)
    (hl : 0 ≤ line ∧ line < rb.lines) (fuel : Nat) (phycol : Int) :
    flushCols txt rb line (fuel + 1) 0 phycol = ([], .ok) := by
  unfold flushCols
  by_cases hc : (0 : Int) < rb.cols
  · rw [if_neg (fun hn => hn hc)]
    have h0 := he line 0 (by unfold RB.inGrid; omega)
    simp only [if_true] at h0
    simp only [h0.1, h0.2.2]
    cases fuel with
    | zero => unfold flushCols; simp
    | succ n => unfold flushCols; simp
  · rw [if_pos hc]

theorem flushLines_empty (txt : Cell → List Req) (rb : RB) (he : IsEmpty rb) :
    ∀ (n : Nat) (line : Int), 0 ≤ line → line + n ≤ rb.lines → flushLines txt rb n line = ([], .ok) := by
  intro n
  induction n with
  | zero => intro line _ _; rfl
  | succ k ih =>
    intro line h0 h1
    unfold flushLines
    have := flushCols_empty txt rb he line (by omega) rb.cols.toNat (-1)
    simp only [this, andThen, List.nil_append]
    exact ih (line + 1) (by omega) (by omega)

end Tickit.RBFlush
