import Tickit.Model.RBFlush
import Tickit.Proof.RBFlushText
/-
  Helper lemmas for C04 (Props/C04.lean): the box-drawing table, `tickit_term_setpen`, the grid terminal's frame
  conditions, the per-line invariant of the flush loop, and the text-slicing lemmas.
-/
namespace Tickit.RBFlush
open Tickit.RB

/-! ## Box-drawing glyphs -/

set_option synthInstance.maxSize 1000 in
set_option synthInstance.maxHeartbeats 200000 in
/-- No two code points of the block have the same arms. -/
theorem boxArms_injective :
    ∀ i, i < 128 → ∀ j, j < 128 →
      (boxArms.getD i none = boxArms.getD j none ∧ (boxArms.getD i none).isSome = true → i = j) := by
  decide +kernel

theorem armsOf_some_range {cp : Nat} {a : Arms} (h : armsOf cp = some a) :
    0x2500 ≤ cp ∧ cp < 0x2580 ∧ boxArms.getD (cp - 0x2500) none = some a := by
  unfold armsOf at h
  split at h
  · rename_i hr; exact ⟨hr.1, hr.2, h⟩
  · cases h

theorem armsOf_inj {x y : Nat} {a : Arms} (hx : armsOf x = some a) (hy : armsOf y = some a) : x = y := by
  obtain ⟨hx1, hx2, hx3⟩ := armsOf_some_range hx
  obtain ⟨hy1, hy2, hy3⟩ := armsOf_some_range hy
  have := boxArms_injective (x - 0x2500) (by omega) (y - 0x2500) (by omega) ⟨by rw [hx3, hy3], by rw [hx3]; rfl⟩
  omega

theorem hasExact_of_armsOf {cp : Nat} {a : Arms} (h : armsOf cp = some a) : hasExact a = true := by
  obtain ⟨h1, h2, h3⟩ := armsOf_some_range h
  unfold hasExact
  rw [List.any_eq_true]
  exact ⟨cp - 0x2500, List.mem_range.mpr (by omega), by rw [h3]; exact beq_self_eq_true _⟩

/-! ## Pens: `tickit_pen_equiv` is equality of renditions; `tickit_term_setpen` establishes the rendition -/

theorem equivColour_iff (a b : Option Colour) :
    Pen.equivColour a b = true ↔ Pen.getColour a = Pen.getColour b ∧ Pen.getRgb a = Pen.getRgb b := by
  unfold Pen.equivColour
  by_cases h : Pen.getColour a = Pen.getColour b
  · rw [if_neg (fun hn => hn h)]
    cases ha : Pen.getRgb a with
    | none => cases hb : Pen.getRgb b <;> simp [h]
    | some x =>
      cases hb : Pen.getRgb b with
      | none => simp
      | some y =>
        cases x; cases y
        simp [h, and_assoc]
  · rw [if_pos h]; simp [h]

theorem equivBool_iff (a b : Option Bool) : Pen.equivBool a b = true ↔ Pen.getBool a = Pen.getBool b := by
  unfold Pen.equivBool; simp

theorem equivInt_iff (a b : Option Int) : Pen.equivInt a b = true ↔ Pen.getInt a = Pen.getInt b := by
  unfold Pen.equivInt; simp

/-- The rendition a pen stands for: every attribute with its default filled in. -/
structure Rendition where
  fg : Int
  fgRgb : Option RGB
  bg : Int
  bgRgb : Option RGB
  bold : Bool
  under : Int
  italic : Bool
  reverse : Bool
  strike : Bool
  altfont : Int
  blink : Bool
  sizepos : Int
deriving DecidableEq

def rendition (p : Pen) : Rendition :=
  { fg := Pen.getColour p.fg, fgRgb := Pen.getRgb p.fg, bg := Pen.getColour p.bg, bgRgb := Pen.getRgb p.bg
    bold := Pen.getBool p.bold, under := Pen.getInt p.under, italic := Pen.getBool p.italic
    reverse := Pen.getBool p.reverse, strike := Pen.getBool p.strike, altfont := Pen.getInt p.altfont
    blink := Pen.getBool p.blink, sizepos := Pen.getInt p.sizepos }

theorem equiv_iff_rendition (a b : Pen) : Pen.equiv a b = true ↔ rendition a = rendition b := by
  unfold Pen.equiv rendition
  simp only [Bool.and_eq_true, equivColour_iff, equivBool_iff, equivInt_iff, Rendition.mk.injEq]
  constructor
  · intro h; simp_all
  · intro h; simp_all

theorem penSame_iff (a b : Pen) : penSame a b = true ↔ rendition a = rendition b := equiv_iff_rendition a b

theorem setAttr_bool (t p : Option Bool) :
    Pen.getBool (setAttr Pen.equivBool Pen.getBool t p).1 = Pen.getBool p := by
  unfold setAttr
  by_cases h : (t.isSome && Pen.equivBool t p) = true
  · rw [if_pos h]
    rw [Bool.and_eq_true] at h
    exact (equivBool_iff t p).mp h.2
  · rw [if_neg h]; rfl

theorem setAttr_int (t p : Option Int) :
    Pen.getInt (setAttr Pen.equivInt Pen.getInt t p).1 = Pen.getInt p := by
  unfold setAttr
  by_cases h : (t.isSome && Pen.equivInt t p) = true
  · rw [if_pos h]
    rw [Bool.and_eq_true] at h
    exact (equivInt_iff t p).mp h.2
  · rw [if_neg h]; rfl

theorem setAttr_colour (t p : Option Colour) :
    Pen.getColour (setAttr Pen.equivColour colourVal t p).1 = Pen.getColour p ∧
    Pen.getRgb (setAttr Pen.equivColour colourVal t p).1 = Pen.getRgb p := by
  unfold setAttr
  by_cases h : (t.isSome && Pen.equivColour t p) = true
  · rw [if_pos h]
    rw [Bool.and_eq_true] at h
    exact (equivColour_iff t p).mp h.2
  · rw [if_neg h]; exact ⟨rfl, rfl⟩

/-- After `tickit_term_setpen(tt, p)` the terminal's pen stands for the rendition of `p`, whatever it was before. -/
theorem rendition_termSetpen (t p : Pen) : rendition (termSetpen t p) = rendition p := by
  unfold rendition termSetpen
  simp only [setAttr_bool, setAttr_int, (setAttr_colour _ _).1, (setAttr_colour _ _).2]

theorem penSame_termSetpen (t p : Pen) : penSame (termSetpen t p) p = true :=
  (penSame_iff _ _).mpr (rendition_termSetpen t p)

/-! ## The grid terminal: what each request does -/

namespace GridTerm

theorem run_append (t : GridTerm) (a b : List Req) : t.run (a ++ b) = (t.run a).run b := by
  induction a generalizing t with
  | nil => rfl
  | cons r rs ih => simp only [List.cons_append, run]; exact ih _

theorem run_cons (t : GridTerm) (r : Req) (rs : List Req) : t.run (r :: rs) = (t.step r).run rs := rfl

theorem run_nil (t : GridTerm) : t.run [] = t := rfl

theorem putGlyph_fit (t : GridTerm) (bs : List UInt8) (w : Int) (h : t.col + w ≤ t.cols) :
    t.putGlyph bs w = t.putGlyphRaw bs w := by
  unfold putGlyph
  rw [if_neg (by omega)]

/-- Printing characters that are all one column wide and fit on the line: one cell each, left to right. -/
theorem putChs_narrow (cs : List Ch) (hw : ∀ c ∈ cs, c.width = 1) : ∀ t : GridTerm, t.col + cs.length ≤ t.cols →
    (t.putChs cs).line = t.line ∧ (t.putChs cs).col = t.col + cs.length ∧ (t.putChs cs).pen = t.pen ∧
    (t.putChs cs).oracle = t.oracle ∧ (t.putChs cs).nmaybe = t.nmaybe ∧ (t.putChs cs).viaWriteStr = t.viaWriteStr ∧
    (t.putChs cs).cols = t.cols ∧
    (∀ l c, ¬ (l = t.line ∧ t.col ≤ c ∧ c < t.col + cs.length) → (t.putChs cs).cells l c = t.cells l c) ∧
    (∀ i : Nat, i < cs.length → (t.putChs cs).cells t.line (t.col + i) =
        { glyph := .chars (cs.getD i ⟨[], 0, 0⟩).bytes, pen := t.pen, writes := (t.cells t.line (t.col + i)).writes + 1 }) := by
  induction cs with
  | nil =>
    intro t _
    simp [putChs]
  | cons c cs ih =>
    intro t hfit
    have hc : c.width = 1 := hw c (by simp)
    have hlen : ((c :: cs).length : Int) = (cs.length : Int) + 1 := by simp
    rw [hlen] at hfit
    have g1 : (t.putGlyphRaw c.bytes 1).line = t.line := rfl
    have g2 : (t.putGlyphRaw c.bytes 1).col = t.col + 1 := rfl
    have g3 : (t.putGlyphRaw c.bytes 1).pen = t.pen := rfl
    have g4 : (t.putGlyphRaw c.bytes 1).cols = t.cols := rfl
    have ih' := ih (fun c' hc' => hw c' (by simp [hc'])) (t.putGlyphRaw c.bytes 1) (by rw [g2, g4]; omega)
    have hstep : t.putChs (c :: cs) = (t.putGlyphRaw c.bytes 1).putChs cs := by
      simp only [putChs, List.foldl_cons, putCh, hc]
      rw [if_neg (by omega), putGlyph_fit _ _ _ (by omega)]
    rw [hstep]
    obtain ⟨h1, h2, h3, h4, h5, h6, h6', h7, h8⟩ := ih'
    refine ⟨by rw [h1, g1], by rw [h2, g2, hlen]; omega, by rw [h3, g3], by rw [h4]; rfl,
      by rw [h5]; rfl, by rw [h6]; rfl, by rw [h6', g4], ?_, ?_⟩
    · intro l k hk
      rw [hlen] at hk
      rw [h7 l k (by rw [g1, g2]; omega)]
      simp only [putGlyphRaw]
      rw [if_neg (by omega)]
    · intro i hi
      cases i with
      | zero =>
        rw [h7 t.line (t.col + (0 : Nat)) (by rw [g1, g2]; omega)]
        simp [putGlyphRaw]
        intro hcontra; omega
      | succ j =>
        have := h8 j (by simp only [List.length_cons] at hi; omega)
        rw [g1, g2, g3] at this
        rw [show t.col + ((j + 1 : Nat) : Int) = t.col + 1 + (j : Int) by omega, this]
        simp only [putGlyphRaw, List.getD_cons_succ]
        rw [if_neg (by omega)]

end GridTerm

/-! ## The buffer after a flush -/

theorem flushWith_rb_of_ok (txt : Cell → List Req) (rb : RB) (h : (flushWith txt rb).out = .ok) :
    (flushWith txt rb).rb = reset rb := by
  unfold flushWith at h ⊢
  simp only at h ⊢
  rw [if_pos h]

theorem reset_cell (rb : RB) (l c : Int) (h : rb.inGrid l c) :
    (reset rb).cell l c =
      if c = 0 then { contCell (rb.cell l c) 0 with state := .skip, maskdepth := -1, cols := rb.cols }
      else contCell (rb.cell l c) 0 := by
  unfold RB.inGrid at h
  simp only [reset, RB.cell]
  rw [if_pos ⟨h.1, h.2.1, h.2.2.1, h.2.2.2⟩]

/-- An empty buffer: every line is one SKIP run. -/
def IsEmpty (rb : RB) : Prop :=
  ∀ l c, rb.inGrid l c →
    (rb.cell l c).state = (if c = 0 then .skip else .cont) ∧ (rb.cell l c).maskdepth = -1 ∧
    (rb.cell l c).cols = (if c = 0 then rb.cols else 0)

theorem reset_isEmpty (rb : RB) : IsEmpty (reset rb) := by
  intro l c h
  have h' : rb.inGrid l c := h
  rw [reset_cell rb l c h']
  by_cases hc : c = 0
  · simp [hc, reset]
  · simp [hc, contCell]

theorem want_of_isEmpty (rb : RB) (he : IsEmpty rb) (l c : Int) : want rb l c = .keep := by
  unfold want
  by_cases hg : rb.inGrid l c
  · rw [if_neg (fun hn => hn hg)]
    have hg0 : rb.inGrid l 0 := by unfold RB.inGrid at hg ⊢; omega
    have h00 := he l 0 hg0
    simp only [if_true] at h00
    have hs : runStart rb l c = 0 := by
      unfold runStart
      by_cases h0 : c = 0
      · subst h0; simp [h00.1]
      · have hc := he l c hg
        simp only [if_neg h0] at hc
        simp [hc.1, hc.2.2]
    simp only [hs, wantOf, h00.1]
  · rw [if_pos hg]

theorem flushCols_empty (txt : Cell → List Req) (rb : RB) (he : IsEmpty rb) (line : Int)
    (hl : 0 ≤ line ∧ line < rb.lines) (fuel : Nat) (phycol : Int) :
    flushCols txt rb line (fuel + 1) 0 phycol = ([], .ok) := by
  unfold flushCols
  by_cases hc : (0 : Int) < rb.cols
  · rw [if_neg (fun hn => hn hc)]
    have h0 := he line 0 (by unfold RB.inGrid; omega)
    simp only [if_true] at h0
    simp only [h0.1, h0.2.2]
    cases fuel with
    | zero => unfold flushCols; simp
    | succ n => unfold flushCols; simp
  · rw [if_pos hc]

theorem flushLines_empty (txt : Cell → List Req) (rb : RB) (he : IsEmpty rb) :
    ∀ (n : Nat) (line : Int), 0 ≤ line → line + n ≤ rb.lines → flushLines txt rb n line = ([], .ok) := by
  intro n
  induction n with
  | zero => intro line _ _; rfl
  | succ k ih =>
    intro line h0 h1
    unfold flushLines
    have := flushCols_empty txt rb he line (by omega) rb.cols.toNat (-1)
    simp only [this, andThen, List.nil_append]
    exact ih (line + 1) (by omega) (by omega)

end Tickit.RBFlush
