import Tickit.Proof.Bindings
import Tickit.Model.BindingsRoot
/-
  Helper lemmas for the root window as a client of its terminal's bindings (`Model/BindingsRoot.lean`):
  an identifier denotes the binding it was returned for as long as that binding is live; a client that hands the
  identifiers of its own live bindings to `unbind_event_id` removes exactly those bindings and nothing else.
-/
namespace Tickit.Bindings

/-! ### an identifier denotes its binding -/

theorem findId_of_mem {l : List Node} {b : Node} (hb : b ∈ l) : ∃ b', findId l b.id = some b' := by
  induction l with
  | nil => cases hb
  | cons x rest ih =>
    simp only [findId]
    by_cases hx : x.id = b.id
    · exact ⟨x, by simp [hx]⟩
    · simp only [hx, if_false]
      rcases List.mem_cons.1 hb with rfl | hb
      · exact absurd rfl hx
      · exact ih hb

/-- `unbind_event_id(id)` finds the live binding whose identifier is `id` — that one and no other. -/
theorem findId_of_node {st : St} (h : Inv st) {b : Node} (hb : b ∈ st.list) (hl : b.id ≠ TOMBSTONE) :
    findId st.list b.id = some b := by
  obtain ⟨b', hf⟩ := findId_of_mem hb
  obtain ⟨hm, hid⟩ := findId_some hf
  have hk := h.idsUnique b hb b' hm hl hid.symm
  have f1 := findKey_eq_of_mem h.keysNodup hb
  have f2 := findKey_eq_of_mem h.keysNodup hm
  rw [hk] at f1
  rw [f1] at f2
  injection f2 with f2
  rw [hf, f2]

/-- The identifier `bind_event` returned for binding `k` denotes `k` for as long as `k` is live (bound, not unbound, not a
    delivered one-shot): whatever else was bound and unbound meanwhile, `unbind_event_id` of that identifier finds `k`. -/
theorem id_denotes_binding {st : St} (h : Inv st) {k : Nat} {id : Int} {ev : Int} {f : Bool} {fl : BFlags}
    (hb : Ev.bound k id ev f fl ∈ st.log) (hl : liveAt st.log k) :
    ∃ b, findId st.list id = some b ∧ b ∈ st.list ∧ b.key = k ∧ b.id = id ∧ b.flags = fl ∧ b.id ≠ TOMBSTONE := by
  obtain ⟨b, hbm, hbk, hbl⟩ := (h.liveIff k).2 hl
  obtain ⟨id', ev', f', hm, hinfo⟩ := h.boundInfo b hbm
  rw [hbk] at hm
  obtain ⟨e1, _, _, e4⟩ := bound_unique h.trace hb hm
  have hid : b.id = id := by rw [e1]; exact ((hinfo hbl).2).symm
  refine ⟨b, ?_, hbm, hbk, hid, e4.symm, hbl⟩
  rw [← hid]
  exact findId_of_node h hbm hbl

/-! ### a client unbinding its own bindings -/

/-- the client's bindings: (key, identifier) pairs of distinct live nodes that did not ask for an unbind notification -/
def Owns (st : St) (ps : List (Nat × Int)) : Prop :=
  (ps.map (·.1)).Nodup ∧
  ∀ p ∈ ps, ∃ b ∈ st.list, b.key = p.1 ∧ b.id = p.2 ∧ b.id ≠ TOMBSTONE ∧ b.flags.unbind = false

section
variable (own : Owner) (beh : Behaviour)

/-- one `unbind_event_id` of a live binding that did not ask for a notification: no handler is called -/
theorem exec_unbindId_quiet {st : St} {b : Node} {fuel : Nat} (hf : findId st.list b.id = some b) (hu : b.flags.unbind = false) :
    exec Cfg.repaired own beh (fuel + 1) (.unbindId b.id) st = .ok ({ st with
      list := if (!st.isIter) = true then eraseKey st.list b.key
              else modifyKey st.list b.key (fun b => { b with id := TOMBSTONE, ev := -1, fn := none }),
      needsDelete := st.isIter || st.needsDelete, log := Ev.unbindReq b.key :: st.log }, 0) := by
  simp only [exec, repaired_notifyLast, if_true, hf, hu, Bool.false_eq_true, if_false]

/-- The client hands its identifiers to `unbind_event_id`, one after the other (`tickit_window_destroy` of a root window):
    every call finds the client's own binding, no handler is called, and the trace records exactly the client's keys. -/
theorem unbindAll_owns (fuel : Nat) : ∀ (ps : List (Nat × Int)) (st : St), Inv st → RefOk own st → Owns st ps →
    ∃ st', unbindAll Cfg.repaired own beh (fuel + 1) (ps.map (·.2)) st = .ok st' ∧
      st'.log = (ps.reverse.map fun p => Ev.unbindReq p.1) ++ st.log ∧
      Inv st' ∧ RefOk own st' ∧ st'.isIter = st.isIter ∧ st'.refs = st.refs ∧ st'.userRef = st.userRef ∧
      st'.slotIds = st.slotIds ∧ st'.nextOcc = st.nextOcc ∧ st'.frozenRefs = st.frozenRefs ∧
      (st.isIter = false → st'.list = st.list.filter fun b => !(ps.map (·.1)).contains b.key) := by
  intro ps
  induction ps with
  | nil =>
    intro st h hro _
    exact ⟨st, rfl, by simp, h, hro, rfl, rfl, rfl, rfl, rfl, rfl, fun _ => (List.filter_eq_self.2 (fun _ _ => by simp)).symm⟩
  | cons p ps ih =>
    intro st h hro ho
    obtain ⟨b, hbm, hbk, hbid, hbl, hbu⟩ := ho.2 p (List.mem_cons_self ..)
    have hf := findId_of_node h hbm hbl
    have hex := exec_unbindId_quiet own beh (fuel := fuel) hf hbu
    have h1 := h.of_unbind hbm hbl
    have hro1 : RefOk own { st with
        list := if (!st.isIter) = true then eraseKey st.list b.key
                else modifyKey st.list b.key (fun b => { b with id := TOMBSTONE, ev := -1, fn := none }),
        needsDelete := st.isIter || st.needsDelete, log := Ev.unbindReq b.key :: st.log } := hro.of_eq rfl rfl rfl
    have hnd : (ps.map (·.1)).Nodup ∧ p.1 ∉ ps.map (·.1) := by
      have := ho.1
      simp only [List.map_cons, List.nodup_cons] at this
      exact ⟨this.2, this.1⟩
    have ho1 : Owns { st with
        list := if (!st.isIter) = true then eraseKey st.list b.key
                else modifyKey st.list b.key (fun b => { b with id := TOMBSTONE, ev := -1, fn := none }),
        needsDelete := st.isIter || st.needsDelete, log := Ev.unbindReq b.key :: st.log } ps := by
      refine ⟨hnd.1, fun q hq => ?_⟩
      obtain ⟨c, hcm, hck, hcid, hcl, hcu⟩ := ho.2 q (List.mem_cons_of_mem _ hq)
      have hne : c.key ≠ b.key := by
        rw [hck, hbk]
        intro e
        exact hnd.2 (by rw [← e]; exact List.mem_map_of_mem hq)
      refine ⟨c, ?_, hck, hcid, hcl, hcu⟩
      simp only
      cases hi : st.isIter with
      | false => simp only [Bool.not_false, if_true]; exact mem_eraseKey.2 ⟨hcm, hne⟩
      | true =>
        simp only [Bool.not_true, Bool.false_eq_true, if_false]
        have := mem_modifyKey_of_mem (k := b.key) (f := fun b : Node => { b with id := TOMBSTONE, ev := -1, fn := none }) hcm
        simpa [hne] using this
    obtain ⟨st', he, hlog, h', hro', hi', hr', hu', hs', hn', hfz', hlist⟩ := ih _ h1 hro1 ho1
    refine ⟨st', ?_, ?_, h', hro', hi', hr', hu', hs', hn', hfz', fun hni => ?_⟩
    · simp only [List.map_cons, unbindAll]
      rw [← hbid, hex]
      exact he
    · rw [hlog]; simp [hbk]
    · have := hlist hni
      rw [this]
      simp only [hni, Bool.not_false, if_true, eraseKey, List.filter_filter, List.map_cons]
      apply List.filter_congr
      intro x _
      simp only [List.contains_cons, hbk]
      by_cases hx : x.key = p.1 <;> simp [hx]

end

end Tickit.Bindings

namespace Tickit.Bindings

/-! ### the root window's life on a terminal -/

/-- `Inv` looks at the length of the harness's slot table and at the sign of its entries only. -/
theorem Inv.of_slotIds {st : St} (h : Inv st) (l : List Int) (hlen : l.length = st.slotIds.length) (hpos : ∀ id ∈ l, 0 ≤ id) :
    Inv { st with slotIds := l } :=
  ⟨h.keysNodup, by simp only [hlen]; exact h.keysLt, h.idsUnique, h.idsPos, h.liveFn, h.tombIter, hpos,
    by simp only [hlen]; exact h.logKeys, h.boundInfo, h.liveIff, h.trace, h.order, h.alive⟩

theorem libBind_inv {st : St} (h : Inv st) (ev : Int) (i : Nat) : Inv (libBind st ev i) := by
  have hb := h.of_bind ev false noFlags (LIB_H + i)
  refine hb.of_slotIds (st.slotIds ++ [0]) (by simp [bindEvent]) ?_
  intro id hid
  rcases List.mem_append.1 hid with hid | hid
  · exact h.slotPos id hid
  · simp at hid; omega

theorem libBind_list (st : St) (ev : Int) (i : Nat) :
    (libBind st ev i).list = st.list ++ [⟨st.slotIds.length, nextId st, ev, noFlags, some (LIB_H + i)⟩] := by
  simp [libBind, bindEvent, nextId]

theorem libBind_log (st : St) (ev : Int) (i : Nat) :
    (libBind st ev i).log = Ev.bound st.slotIds.length (nextId st) ev false noFlags :: st.log := by
  simp [libBind, bindEvent, nextId]

theorem libBind_slotIds (st : St) (ev : Int) (i : Nat) : (libBind st ev i).slotIds = st.slotIds ++ [0] := rfl

theorem libBind_refOk {own : Owner} {st : St} (h : RefOk own st) (ev : Int) (i : Nat) : RefOk own (libBind st ev i) :=
  h.of_eq rfl rfl rfl

theorem nextId_pos (st : St) : 1 ≤ nextId st := by
  have := (maxId_ge st.list).1
  simp only [nextId]; omega

/-- more references never hurt the accounting -/
theorem RefOk.of_more_refs {own : Owner} {st : St} (h : RefOk own st) (n : Nat) (hn : st.refs ≤ n) : RefOk own { st with refs := n } :=
  ⟨h.1, fun ho => Nat.le_trans (h.2 ho) hn⟩

/-- nobody but the root window has unbound the root window's three bindings -/
def RootIntact (w : WSt) : Prop := ∀ r, w.root = some r → ∀ k ∈ r.keys, ¬ reqIn w.st.log k

/-- what holds of a terminal with a root window on it between operations -/
structure WInv (own : Owner) (w : WSt) : Prop where
  top : Top w.st
  ref : RefOk own w.st
  lib : ∀ r, w.root = some r →
    r.keys.length = r.ids.length ∧ r.keys.Nodup ∧ 1 ≤ r.refs ∧
    (∀ p ∈ r.keys.zip r.ids, ∃ ev, Ev.bound p.1 p.2 ev false noFlags ∈ w.st.log) ∧
    (∀ k ∈ r.keys, k ∈ w.libKeys) ∧
    -- the root window's reference on the terminal, besides the application's
    (own.holdsRef = true → b2n w.st.userRef + w.st.frozenRefs + 1 ≤ w.st.refs)
  /-- occurrence numbers start at 1 -/
  occ : 1 ≤ w.st.nextOcc

theorem WInv.init (own : Owner) : WInv own WSt.init :=
  ⟨Top.init, RefOk.init own, fun r hr => by simp [WSt.init] at hr, by simp [WSt.init, St.init]⟩

/-- unbind requests for other bindings do not change a binding's liveness -/
theorem liveAt_reqs (l : List Nat) (log : List Ev) (k : Nat) (h : k ∉ l) :
    liveAt (l.map Ev.unbindReq ++ log) k ↔ liveAt log k := by
  induction l with
  | nil => simp
  | cons x xs ih =>
    simp only [List.map_cons, List.cons_append]
    rw [liveAt_cons (by
      simp only [Ev.affects, ne_eq, Option.some.injEq]
      intro e; exact h (by rw [e]; exact List.mem_cons_self ..))]
    exact ih (fun hm => h (List.mem_cons_of_mem _ hm))

/-- the root window's bindings, as (key, identifier) pairs -/
def Root.pairs (r : Root) : List (Nat × Int) := r.keys.zip r.ids

theorem WInv.owns {own : Owner} {w : WSt} (h : WInv own w) (hi : RootIntact w) {r : Root} (hr : w.root = some r) :
    Owns w.st r.pairs := by
  obtain ⟨hlen, hnd, _, hb, _, _⟩ := h.lib r hr
  constructor
  · simp only [Root.pairs]
    rw [List.map_fst_zip (by omega)]
    exact hnd
  · intro p hp
    obtain ⟨ev, hbd⟩ := hb p hp
    have hk : p.1 ∈ r.keys := (List.of_mem_zip hp).1
    have hl : liveAt w.st.log p.1 := ⟨noFlags, ⟨_, _, _, hbd⟩, hi r hr p.1 hk, fun ho => by simp [noFlags] at ho⟩
    obtain ⟨b, _, hbm, hbk, hbid, hbf, hbl⟩ := id_denotes_binding h.top.1 hbd hl
    exact ⟨b, hbm, hbk, hbid, hbl, by rw [hbf]; rfl⟩

/-- `tickit_window_new_root` keeps the invariant and records what it bound -/
theorem rootNew_inv {own : Owner} {w : WSt} (h : WInv own w) : WInv own (rootNew w) := by
  unfold rootNew
  cases hr : w.root with
  | some r => simpa [hr] using h
  | none =>
    simp only
    have h0 : Inv { w.st with refs := w.st.refs + 1 } := h.top.1.of_refs _ (by omega)
    have hro0 : RefOk own { w.st with refs := w.st.refs + 1 } := h.ref.of_more_refs _ (by simp)
    have h1 := libBind_inv h0 1 0
    have h2 := libBind_inv h1 2 1
    have h3 := libBind_inv h2 3 2
    refine ⟨⟨h3, h.top.2⟩, libBind_refOk (libBind_refOk (libBind_refOk hro0 1 0) 2 1) 3 2, ?_, h.occ⟩
    intro r' hr'
    simp only [Option.some.injEq] at hr'
    subst hr'
    refine ⟨rfl, ?_, Nat.le_refl _, ?_, ?_, ?_⟩
    · simp [libBind_slotIds]
    · intro p hp
      simp only [List.zip_cons_cons, List.zip_nil_right, List.mem_cons, List.not_mem_nil, or_false] at hp
      rcases hp with rfl | rfl | rfl
      · exact ⟨1, by rw [libBind_log, libBind_log, libBind_log]; simp⟩
      · exact ⟨2, by rw [libBind_log, libBind_log]; simp⟩
      · exact ⟨3, by rw [libBind_log]; simp⟩
    · intro k hk; simp only [List.mem_append]; exact Or.inr hk
    · intro ho
      have := h.ref.2 ho
      rw [h.top.2] at this
      simp only [libBind, bindEvent] at this ⊢
      simp at this ⊢
      omega

section
variable (own : Owner) (beh : Behaviour)

/-- what an operation of the terminal-with-root-window configuration leaves behind -/
def PostW (own : Owner) (keep : Bool) : Res WSt → Prop
  | .ok w' => w'.st.dead = false → keep = true → WInv own w'
  | .ub _ => False
  | .outOfFuel => True

/-- **The root window goes** (`tickit_window_unref` to zero → `tickit_window_destroy`): as long as nobody else has unbound
    its three bindings, the three `tickit_term_unbind_event_id` calls find exactly these bindings, no handler is called,
    every other binding stays as it is, and the terminal loses one reference. -/
theorem rootUnref_spec (hs : Safe own beh) {w : WSt} (h : WInv own w) (hi : RootIntact w) {r : Root} (hr : w.root = some r)
    (hlast : r.refs = 1) (fuel : Nat) :
    ∃ st1, unbindAll Cfg.repaired own beh (fuel + 1) r.ids w.st = .ok st1 ∧
      st1.log = (r.keys.reverse.map Ev.unbindReq) ++ w.st.log ∧
      st1.list = w.st.list.filter (fun b => !r.keys.contains b.key) ∧
      Inv st1 ∧ RefOk own st1 ∧ st1.isIter = false ∧ st1.refs = w.st.refs ∧ st1.userRef = w.st.userRef ∧
      st1.nextOcc = w.st.nextOcc ∧
      match rootUnref Cfg.repaired own beh (fuel + 1) w with
      | .ok w' => w'.root = none ∧ w'.libKeys = w.libKeys ∧
          ((w'.st.dead = false ∧ w'.st = { st1 with refs := st1.refs - 1 } ∧ WInv own w') ∨
           (w'.st.dead = true ∧ TraceOk w'.st.log ∧ ∃ seg, w'.st.log = seg ++ st1.log))
      | .ub _ => False
      | .outOfFuel => True := by
  have ho := h.owns hi hr
  obtain ⟨hlen, hnd, _, _, _, hrefs⟩ := h.lib r hr
  obtain ⟨st1, he, hlog, h1, hro1, hi1, hr1, hu1, hs1, hn1, hf1, hlist⟩ := unbindAll_owns own beh fuel r.pairs w.st h.top.1 h.ref ho
  have hsnd : r.pairs.map (·.2) = r.ids := by simp only [Root.pairs]; rw [List.map_snd_zip (by omega)]
  have hfst : r.pairs.map (·.1) = r.keys := by simp only [Root.pairs]; rw [List.map_fst_zip (by omega)]
  rw [hsnd] at he
  have hlog' : st1.log = (r.keys.reverse.map Ev.unbindReq) ++ w.st.log := by
    rw [hlog, ← hfst]; simp [List.map_reverse]
  have hlist' := hlist h.top.2
  rw [hfst] at hlist'
  have hni1 : st1.isIter = false := hi1.trans h.top.2
  refine ⟨st1, he, hlog', hlist', h1, hro1, hni1, hr1, hu1, hn1, ?_⟩
  have hun := unref_post own beh (fuel := fuel) hs h1 hro1 (fun hit => by rw [hni1] at hit; cases hit)
  simp only [rootUnref, hr, hlast, Nat.lt_irrefl, if_false, he]
  cases hc : exec Cfg.repaired own beh (fuel + 1) .unref st1 with
  | outOfFuel => trivial
  | ub x => rw [hc] at hun; exact hun.elim
  | ok p =>
    obtain ⟨st2, x⟩ := p
    rw [hc] at hun
    simp only
    refine ⟨trivial, trivial, ?_⟩
    rcases hun with ⟨hd2, h2r, he2⟩ | ⟨hd2, _, htr, seg, hseg⟩
    · refine Or.inl ⟨hd2, he2, ?_⟩
      subst he2
      refine ⟨⟨h1.of_refs _ (by omega), hni1⟩, ⟨hro1.1, fun hh => ?_⟩, fun r' hr' => (by cases hr'), (by simp only; rw [hn1]; exact h.occ)⟩
      have := hrefs hh
      simp only [hni1, b2n_false, Nat.add_zero]
      rw [hu1, hf1, hr1]
      omega
    · exact Or.inr ⟨hd2, htr, seg, hseg⟩

theorem WInv.of_root {w : WSt} (h : WInv own w) {r r' : Root} (hr : w.root = some r) (hk : r'.keys = r.keys) (hids : r'.ids = r.ids)
    (hrefs : 1 ≤ r'.refs) : WInv own { w with root := some r' } := by
  refine ⟨h.top, h.ref, fun x hx => ?_, h.occ⟩
  simp only [Option.some.injEq] at hx
  subst hx
  obtain ⟨a, b, _, d, e, f⟩ := h.lib r hr
  exact ⟨by rw [hk, hids]; exact a, by rw [hk]; exact b, hrefs, by rw [hk, hids]; exact d, by rw [hk]; exact e, f⟩

theorem RootIntact.of_root {w : WSt} (h : RootIntact w) {r r' : Root} (hr : w.root = some r) (hk : r'.keys = r.keys) :
    RootIntact { w with root := some r' } := by
  intro x hx
  simp only [Option.some.injEq] at hx
  subst hx
  rw [hk]; exact h r hr

theorem rootUnref_good (hs : Safe own beh) (fuel : Nat) {w : WSt} (h : WInv own w) (hi : RootIntact w) :
    PostW own true (rootUnref Cfg.repaired own beh fuel w) := by
  cases hr : w.root with
  | none => simp only [rootUnref, hr, PostW]; exact fun _ _ => h
  | some r =>
    by_cases hgt : r.refs > 1
    · simp only [rootUnref, hr, hgt, if_true, PostW]
      exact fun _ _ => h.of_root own hr rfl rfl (by simp; omega)
    · have hlast : r.refs = 1 := by have := (h.lib r hr).2.2.1; omega
      cases fuel with
      | zero =>
        simp only [rootUnref, hr, hgt, if_false]
        cases hids : r.ids with
        | nil => simp [unbindAll, exec, PostW]
        | cons x xs => simp [unbindAll, exec, PostW]
      | succ fuel =>
        obtain ⟨st1, _, _, _, _, _, _, _, _, _, hres⟩ := rootUnref_spec own beh hs h hi hr hlast fuel
        cases hc : rootUnref Cfg.repaired own beh (fuel + 1) w with
        | outOfFuel => trivial
        | ub x => rw [hc] at hres; exact hres.elim
        | ok w' =>
          rw [hc] at hres
          intro hal _
          rcases hres.2.2 with ⟨_, _, hw⟩ | ⟨hd, _⟩
          · exact hw
          · rw [hd] at hal; cases hal

theorem rootRelease_none (fuel : Nat) : ∀ (n : Nat) (w : WSt), w.root = none → rootRelease Cfg.repaired own beh fuel n w = .ok w := by
  intro n
  induction n with
  | zero => intro w _; rfl
  | succ n ih => intro w hw; simp only [rootRelease, rootUnref, hw]; exact ih w hw

theorem rootUnref_root (fuel : Nat) {w w' : WSt} (he : rootUnref Cfg.repaired own beh fuel w = .ok w') :
    w'.root = none ∨ (w'.st = w.st ∧ ∃ r r', w.root = some r ∧ w'.root = some r' ∧ r'.keys = r.keys) := by
  unfold rootUnref at he
  cases hr : w.root with
  | none => rw [hr] at he; simp only at he; injection he with he; subst he; exact Or.inl hr
  | some r =>
    rw [hr] at he
    simp only at he
    by_cases hgt : r.refs > 1
    · simp only [hgt, if_true] at he
      injection he with he; subst he
      exact Or.inr ⟨rfl, r, _, rfl, rfl, rfl⟩
    · simp only [hgt, if_false] at he
      cases hu : unbindAll Cfg.repaired own beh fuel r.ids w.st with
      | outOfFuel => rw [hu] at he; cases he
      | ub x => rw [hu] at he; cases he
      | ok st1 =>
        rw [hu] at he
        simp only at he
        cases hx : exec Cfg.repaired own beh fuel .unref st1 with
        | outOfFuel => rw [hx] at he; cases he
        | ub x => rw [hx] at he; cases he
        | ok p =>
          rw [hx] at he
          simp only at he
          injection he with he; subst he
          exact Or.inl rfl

theorem rootRelease_good (hs : Safe own beh) (fuel : Nat) : ∀ (n : Nat) (w : WSt), WInv own w → RootIntact w →
    PostW own true (rootRelease Cfg.repaired own beh fuel n w) := by
  intro n
  induction n with
  | zero => intro w h _; exact fun _ _ => h
  | succ n ih =>
    intro w h hi
    simp only [rootRelease]
    have hp := rootUnref_good own beh hs fuel h hi
    cases hc : rootUnref Cfg.repaired own beh fuel w with
    | outOfFuel => trivial
    | ub x => rw [hc] at hp; exact hp.elim
    | ok w1 =>
      rw [hc] at hp
      simp only
      rcases rootUnref_root own beh fuel hc with hn | ⟨hst, r, r', hr, hr', hk⟩
      · rw [rootRelease_none own beh fuel n w1 hn]
        exact hp
      · have hal : w1.st.dead = false := by rw [hst]; exact h.top.1.alive.2
        have hi1 : RootIntact w1 := by
          intro x hx
          rw [hr'] at hx
          simp only [Option.some.injEq] at hx
          subst hx
          rw [hk, hst]; exact hi r hr
        exact ih w1 (hp hal rfl) hi1

/-- the identifiers handed to `unbind` by a history -/
def WOpOk : WOp → Prop
  | .base op => OpOk op
  | _ => True

theorem execW_good (hs : Safe own beh) (fuel : Nat) (op : WOp) (hop : WOpOk op) {w : WSt} (h : WInv own w) (hi : RootIntact w) :
    PostW own (decide (op ≠ .base .destroy)) (execW Cfg.repaired own beh fuel op w) := by
  cases op with
  | rootNew => simp only [execW, PostW]; exact fun _ _ => rootNew_inv h
  | rootRef =>
    simp only [execW, PostW, rootRef]
    cases hr : w.root with
    | none => exact fun _ _ => h
    | some r => exact fun _ _ => h.of_root own hr rfl rfl (by simp)
  | rootClose =>
    simp only [execW, PostW, rootClose]
    cases hr : w.root with
    | none => exact fun _ _ => h
    | some r => exact fun _ _ => h.of_root own hr rfl rfl (h.lib r hr).2.2.1
  | rootUnref =>
    have := rootUnref_good own beh hs fuel h hi
    simp only [execW]
    cases hc : rootUnref Cfg.repaired own beh fuel w with
    | outOfFuel => trivial
    | ub x => rw [hc] at this; exact this.elim
    | ok w' => rw [hc] at this; exact fun hal _ => this hal rfl
  | base o =>
    by_cases hd : o = .destroy
    · subst hd
      simp only [execW, if_true]
      have hp := rootRelease_good own beh hs fuel (match w.root with | some r => r.refs | none => 0) w h hi
      cases hc : rootRelease Cfg.repaired own beh fuel (match w.root with | some r => r.refs | none => 0) w with
      | outOfFuel => trivial
      | ub x => rw [hc] at hp; exact hp.elim
      | ok w1 =>
        rw [hc] at hp
        simp only
        cases hdd : w1.st.dead with
        | true => simp [PostW]
        | false =>
          simp only [Bool.false_eq_true, if_false]
          have h1 := hp hdd rfl
          have hfn : ∀ b ∈ w1.st.list.reverse, b.fn ≠ none := fun b hb =>
            h1.top.1.liveFn b (List.mem_reverse.1 hb) (h1.top.no_tombstones b (List.mem_reverse.1 hb))
          simp only [execOp]
          cases hx : exec Cfg.repaired own beh fuel (.destroyLoop w1.st.list.reverse) w1.st with
          | outOfFuel => simp [Res.dropRet, PostW]
          | ub x => exact absurd hx (destroyLoop_noub own beh _ _ _ _ hfn)
          | ok p => simp [Res.dropRet, PostW]
    · simp only [execW, hd, if_false]
      have hpo := execOp_good own beh hs fuel o hop hd w.st h.top h.ref
      cases hc : execOp Cfg.repaired own beh fuel o w.st with
      | outOfFuel => trivial
      | ub x => rw [hc] at hpo; exact hpo.elim
      | ok st' =>
        rw [hc] at hpo
        intro hal _
        rcases hpo with ⟨_, htop, hro, s⟩ | ⟨hdd, _⟩
        · refine ⟨htop, hro, fun r hr => ?_, Nat.le_trans h.occ s.occMono⟩
          obtain ⟨a, b, c, d, e, f⟩ := h.lib r hr
          obtain ⟨seg, hseg, _⟩ := s.logExt
          refine ⟨a, b, c, fun p hp => ?_, e, fun hh => ?_⟩
          · obtain ⟨ev, hm⟩ := d p hp
            exact ⟨ev, by simp only; rw [hseg]; exact List.mem_append_right _ hm⟩
          · have := f hh
            obtain ⟨_, l2, l3, _, l5⟩ := s.life
            simp only at l2 l3 l5 ⊢
            rw [l5]
            cases hu : w.st.userRef <;> cases hu' : st'.userRef <;> simp_all <;> omega
        · simp only at hal; rw [hdd] at hal; cases hal

/-- along the run, nobody but the root window unbinds the root window's bindings -/
def Intact (fuel : Nat) : List WOp → WSt → Prop
  | [], _ => True
  | op :: rest, w => RootIntact w ∧ ∀ w', execW Cfg.repaired own beh fuel op w = .ok w' → Intact fuel rest w'

/-- What a whole history of a terminal with root windows coming and going guarantees. -/
def PostWOps (own : Owner) (ops : List WOp) : Res WSt → Prop
  | .ok w' => WOp.base .destroy ∉ ops → w'.st.dead = false → WInv own w'
  | .ub _ => False
  | .outOfFuel => True

theorem execWOps_good (hs : Safe own beh) (fuel : Nat) : ∀ (ops : List WOp) (w : WSt), (∀ op ∈ ops, WOpOk op) → WInv own w →
    Intact own beh fuel ops w → PostWOps own ops (execWOps Cfg.repaired own beh fuel ops w) := by
  intro ops
  induction ops with
  | nil => intro w _ h _; exact fun _ _ => h
  | cons op rest ih =>
    intro w hops h hint
    simp only [execWOps]
    have hp := execW_good own beh hs fuel op (hops op (List.mem_cons_self ..)) h hint.1
    cases hc : execW Cfg.repaired own beh fuel op w with
    | outOfFuel => trivial
    | ub x => rw [hc] at hp; exact hp.elim
    | ok w' =>
      rw [hc] at hp
      simp only
      by_cases hstop : (op = WOp.base Op.destroy || w'.st.dead) = true
      · simp only [hstop, if_true]
        intro hnd hal
        simp only [Bool.or_eq_true, decide_eq_true_eq] at hstop
        rcases hstop with hd | hd
        · exact absurd (by rw [hd]; exact List.mem_cons_self ..) hnd
        · rw [hd] at hal; cases hal
      · simp only [hstop, Bool.false_eq_true, if_false]
        simp only [Bool.or_eq_true, decide_eq_true_eq, not_or, Bool.not_eq_true] at hstop
        have hw' : WInv own w' := hp hstop.2 (by simp [hstop.1])
        have := ih w' (fun o ho => hops o (List.mem_cons_of_mem _ ho)) hw' (hint.2 w' hc)
        cases hc2 : execWOps Cfg.repaired own beh fuel rest w' with
        | outOfFuel => trivial
        | ub x => rw [hc2] at this; exact this.elim
        | ok w'' =>
          rw [hc2] at this
          exact fun hnd hal => this (fun hm => hnd (List.mem_cons_of_mem _ hm)) hal

/-- `RootIntact`, executable -/
def rootIntactB (w : WSt) : Bool :=
  match w.root with
  | none => true
  | some r => r.keys.all fun k => !(w.st.log.contains (Ev.unbindReq k))

theorem rootIntact_of_B {w : WSt} (h : rootIntactB w = true) : RootIntact w := by
  intro r hr k hk hreq
  simp only [rootIntactB, hr, List.all_eq_true, Bool.not_eq_true', List.contains_eq_mem, decide_eq_false_iff_not] at h
  exact h k hk hreq

/-- `Intact`, executable -/
def intactB (fuel : Nat) : List WOp → WSt → Bool
  | [], _ => true
  | op :: rest, w =>
    rootIntactB w && match execW Cfg.repaired own beh fuel op w with
      | .ok w' => intactB fuel rest w'
      | _ => true

theorem intact_of_B (fuel : Nat) : ∀ (ops : List WOp) (w : WSt), intactB own beh fuel ops w = true → Intact own beh fuel ops w := by
  intro ops
  induction ops with
  | nil => intro _ _; trivial
  | cons op rest ih =>
    intro w h
    simp only [intactB, Bool.and_eq_true] at h
    refine ⟨rootIntact_of_B h.1, fun w' hw' => ?_⟩
    rw [hw'] at h
    exact ih w' h.2

end

end Tickit.Bindings
