import Tickit.Proof.LifePens
/-
  C08 proofs, part 8: key events delivered to handlers that call back into the library
  (`tickit_term_emit_key` → `on_term_key` → `_handle_key`, `run_events_whilefalse`).

  The account of references while `_handle_key` runs: a live window's count lies between `1 + int i` and the
  application's references plus `int i`, where `int i` is the number of references the frames of `_handle_key`
  hold on window `i` at that moment (its own window, and the counted snapshot of the children).  Handlers that free
  nothing (every action except `tickit_window_unref`) keep every window alive, so every frame finds its windows and
  gives back exactly the references it took.
-/
namespace Tickit.Life
open WinTree (Id Win Req Change Tree)
variable {gh : Ghost}

/-- The state invariant while frames of `_handle_key` hold `int i` references on window `i`. -/
structure KInv (gh : Ghost) (st : St) (int : Nat → Nat) : Prop extends SInvB gh st [] where
  up : ∀ (i : Nat) (w : Win), LiveW st.tree i w → w.refcount ≤ ((getX st i).appRefs : Int) + (gh.win i : Int) + (int i : Int) ∧
    (gh.covers i → ((getX st i).appRefs : Int) + (gh.win i : Int) + (int i : Int) ≤ w.refcount)
  lo : ∀ (i : Nat) (w : Win), LiveW st.tree i w → 1 + (int i : Int) ≤ w.refcount
  glive : 0 < gh.win 0 → ∃ r, LiveW st.tree 0 r

theorem KInv.of_inv {st : St} (inv : SInv gh st) : KInv gh st (fun _ => 0) :=
  ⟨inv.toSInvB, fun i w hl => by have := inv.wref i w hl; simpa using this, fun i w hl => by have := inv.rc i w hl; simpa using this, inv.glive⟩

theorem KInv.to_inv {st : St} (K : KInv gh st (fun _ => 0)) : SInv gh st :=
  ⟨K.toSInvB, fun i w hl => by have := K.up i w hl; simpa using this, K.glive⟩

/-- Nothing is freed, the terminal is untouched. -/
structure Pres (st st' : St) : Prop where
  size : st'.tree.wins.size = st.tree.wins.size
  live : ∀ (i : Nat) (w : Win), LiveW st.tree i w → ∃ w', LiveW st'.tree i w'
  term : st'.term = st.term

theorem Pres.refl (st : St) : Pres st st := ⟨rfl, fun _ w h => ⟨w, h⟩, rfl⟩
theorem Pres.trans {a b c : St} (h1 : Pres a b) (h2 : Pres b c) : Pres a c :=
  ⟨h2.size.trans h1.size, fun i w h => by obtain ⟨w', h'⟩ := h1.live i w h; exact h2.live i w' h', h2.term.trans h1.term⟩

/-- A new tree of the same size in which every window keeps `freed` and (if live) its count. -/
theorem KInv.of_tree {st : St} {int : Nat → Nat} (K : KInv gh st int) {t' : Tree} (hinv : TInv t') (hsz : t'.wins.size = st.tree.wins.size)
    (h : ∀ (i : Nat) (w : Win), st.tree.wins[i]? = some w →
      ∃ w', t'.wins[i]? = some w' ∧ w'.freed = w.freed ∧ (w.freed = false → w'.refcount = w.refcount)) :
    KInv gh { st with tree := t' } int ∧ Pres st { st with tree := t' } := by
  have back : ∀ (i : Nat) (w' : Win), LiveW t' i w' → ∃ w, LiveW st.tree i w ∧ w'.refcount = w.refcount := by
    intro i w' hl'
    cases hw : st.tree.wins[i]? with
    | none =>
      have hlt : ¬ i < st.tree.wins.size := by
        intro hlt
        have := Array.getElem?_eq_getElem (xs := st.tree.wins) hlt
        rw [hw] at this; cases this
      have := hl'.lt
      omega
    | some w =>
      obtain ⟨w'', hw'', hf, hr⟩ := h i w hw
      have e : w'' = w' := by rw [hl'.1] at hw''; exact (Option.some.inj hw'').symm
      subst e
      have hfl : w.freed = false := by rw [← hf]; exact hl'.2
      exact ⟨w, ⟨hw, hfl⟩, hr hfl⟩
  refine ⟨⟨K.toSInvB.of_tree hinv hsz ?_, ?_, ?_, fun hg => by
    obtain ⟨r, hr⟩ := K.glive hg
    obtain ⟨w', hw', hf, _⟩ := h 0 r hr.1
    exact ⟨w', hw', by rw [hf]; exact hr.2⟩⟩, ⟨hsz, ?_, rfl⟩⟩
  · intro i w hw
    obtain ⟨w', hw', hf, hr⟩ := h i w hw
    exact ⟨w', hw', hf, fun hfl h1 => by rw [hr hfl]; exact h1⟩
  · intro i w' hl'
    obtain ⟨w, hl, hr⟩ := back i w' hl'
    rw [hr]; exact K.up i w hl
  · intro i w' hl'
    obtain ⟨w, hl, hr⟩ := back i w' hl'
    rw [hr]; exact K.lo i w hl
  · intro i w hl
    obtain ⟨w', hw', hf, _⟩ := h i w hl.1
    exact ⟨w', hw', by rw [hf]; exact hl.2⟩

theorem KInv.of_rel' {st : St} {int : Nat → Nat} (K : KInv gh st int) {t' : Tree} (hinv : TInv t') (hrel : TRel st.tree t')
    (hrc : SameRC st.tree t') : KInv gh { st with tree := t' } int ∧ Pres st { st with tree := t' } := by
  refine K.of_tree hinv hrel.1 ?_
  intro i w hw
  obtain ⟨w', hw', hr⟩ := hrel.2 i w hw
  exact ⟨w', hw', hr.2.2.1, fun _ => hrc i w w' hw hw'⟩

theorem KInv.of_closed {st : St} {int : Nat → Nat} (K : KInv gh st int) {t' : Tree} {win : Nat} {ww : Win} (hw : LiveW st.tree win ww)
    (C : Closed st.tree t' win ww) : KInv gh { st with tree := t' } int ∧ Pres st { st with tree := t' } := by
  refine K.of_tree C.inv C.size_eq ?_
  intro i w hwi
  by_cases hi : i = win
  · subst hi
    have : w = ww := by rw [hw.1] at hwi; exact (Option.some.inj hwi).symm
    subst this
    exact ⟨_, C.win_now.1, rfl, fun _ => rfl⟩
  · rcases C.others i w hi hwi with ⟨_, h⟩ | ⟨_, h⟩
    · exact ⟨w, h, rfl, fun _ => rfl⟩
    · exact ⟨_, h, rfl, fun _ => rfl⟩

/-- A change of a window's record that keeps its pen and the application's tally. -/
theorem KInv.setX_same {st : St} {int : Nat → Nat} (K : KInv gh st int) (i : Nat) (x : WinX) (hp : x.pen = (getX st i).pen)
    (ha : x.appRefs = (getX st i).appRefs) : KInv gh (setX st i x) int ∧ Pres st (setX st i x) := by
  refine ⟨⟨K.toSInvB.of_wx rfl rfl rfl rfl rfl (setX_map_pen x hp), ?_, K.lo, K.glive⟩, ⟨rfl, fun _ w h => ⟨w, h⟩, rfl⟩⟩
  intro j w hl
  rw [getX_setX]
  split
  · rename_i h; rw [ha, h.1]; exact K.up j w hl
  · exact K.up j w hl

/-- The count of one live window, the application's tally of it and the frames' tally move together. -/
theorem KInv.set_refcount_x {st : St} {int : Nat → Nat} (K : KInv gh st int) {win : Nat} {ww : Win} (hw : LiveW st.tree win ww)
    (x : WinX) (hp : x.pen = (getX st win).pen)
    (r : Int) (int' : Nat → Nat) (hoth : ∀ j, j ≠ win → int' j = int j)
    (hup : r ≤ (x.appRefs : Int) + (gh.win win : Int) + (int' win : Int) ∧
      (gh.covers win → (x.appRefs : Int) + (gh.win win : Int) + (int' win : Int) ≤ r)) (hlo : 1 + (int' win : Int) ≤ r) :
    KInv gh (setW (setX st win x) win { ww with refcount := r }) int' ∧ Pres st (setW (setX st win x) win { ww with refcount := r }) := by
  obtain ⟨inv', hrel⟩ := K.tinv.set_refcount hw r
  have hlt : win < st.wx.size := by rw [K.wx_size]; exact hw.lt
  have hl0 : LiveW (WinTree.set st.tree win { ww with refcount := r }) win { ww with refcount := r } :=
    ⟨set_get_self _ hw.lt, hw.2⟩
  have KB : SInvB gh (setX st win x) [] := K.toSInvB.of_wx rfl rfl rfl rfl rfl (setX_map_pen x hp)
  have hget : ∀ j, getX (setW (setX st win x) win { ww with refcount := r }) j = if win = j then x else getX st j := by
    intro j
    show getX (setX st win x) j = _
    rw [getX_setX]
    simp only [hlt, and_true]
  refine ⟨⟨KB.of_tree (t' := WinTree.set st.tree win { ww with refcount := r }) inv' (set_size _ _ _) ?_, ?_, ?_, fun hg => by
      obtain ⟨r0, hr0⟩ := K.glive hg
      by_cases h0 : win = 0
      · subst h0; exact ⟨_, hl0⟩
      · exact ⟨r0, by show (WinTree.set st.tree win _).wins[0]? = some r0; rw [set_get_ne _ h0]; exact hr0.1, hr0.2⟩⟩,
    ⟨set_size _ _ _, ?_, rfl⟩⟩
  · intro i w hwi
    have hwi' : st.tree.wins[i]? = some w := hwi
    by_cases hi : win = i
    · subst hi
      have : w = ww := by rw [hw.1] at hwi'; exact (Option.some.inj hwi').symm
      subst this
      exact ⟨_, set_get_self _ hw.lt, rfl, fun _ _ => by show 1 ≤ r; omega⟩
    · exact ⟨w, by rw [set_get_ne _ hi]; exact hwi', rfl, fun _ h => h⟩
  · intro i w' hl'
    have hl'' : LiveW (WinTree.set st.tree win { ww with refcount := r }) i w' := hl'
    rw [hget]
    by_cases hi : win = i
    · subst hi
      have := LiveW.unique hl'' hl0; subst this
      simp only [if_true]
      exact hup
    · rw [hoth i (Ne.symm hi)]
      simp only [hi, if_false]
      exact K.up i w' ⟨by rw [← set_get_ne _ hi]; exact hl''.1, hl''.2⟩
  · intro i w' hl'
    have hl'' : LiveW (WinTree.set st.tree win { ww with refcount := r }) i w' := hl'
    by_cases hi : win = i
    · subst hi
      have := LiveW.unique hl'' hl0; subst this
      exact hlo
    · rw [hoth i (Ne.symm hi)]
      exact K.lo i w' ⟨by rw [← set_get_ne _ hi]; exact hl''.1, hl''.2⟩
  · intro i w hl
    show ∃ w', LiveW (WinTree.set st.tree win { ww with refcount := r }) i w'
    by_cases hi : win = i
    · subst hi; exact ⟨_, hl0⟩
    · exact ⟨w, by rw [set_get_ne _ hi]; exact hl.1, hl.2⟩

theorem setX_getX_self (st : St) (i : Nat) : setX st i (getX st i) = st := by
  have : st.wx.setIfInBounds i (getX st i) = st.wx := by
    apply Array.ext_getElem?
    intro j
    rw [Array.getElem?_setIfInBounds]
    split
    · rename_i h
      subst h
      split
      · rename_i hlt
        unfold getX
        rw [Array.getElem?_eq_getElem hlt]; rfl
      · rename_i hlt
        rw [Array.getElem?_eq_none (by omega)]
    · rfl
  unfold setX
  simp only [this]

/-- The count of one live window and the frames' tally move together. -/
theorem KInv.set_refcount {st : St} {int : Nat → Nat} (K : KInv gh st int) {win : Nat} {ww : Win} (hw : LiveW st.tree win ww)
    (r : Int) (int' : Nat → Nat) (hoth : ∀ j, j ≠ win → int' j = int j)
    (hup : r ≤ ((getX st win).appRefs : Int) + (gh.win win : Int) + (int' win : Int) ∧
      (gh.covers win → ((getX st win).appRefs : Int) + (gh.win win : Int) + (int' win : Int) ≤ r)) (hlo : 1 + (int' win : Int) ≤ r) :
    KInv gh (setW st win { ww with refcount := r }) int' ∧ Pres st (setW st win { ww with refcount := r }) := by
  have := K.set_refcount_x hw (getX st win) rfl r int' hoth hup hlo
  rw [setX_getX_self] at this
  exact this

/-- A frame takes a reference (`tickit_window_ref`). -/
theorem KInv.refI {st : St} {int : Nat → Nat} (K : KInv gh st int) {win : Nat} {ww : Win} (hw : LiveW st.tree win ww) :
    ∃ st', refW st win = .ok st' ∧ KInv gh st' (bump int win) ∧ Pres st st' ∧ st'.wx = st.wx := by
  unfold refW
  simp only [getW, get_live hw, bind_ok, pure_ok]
  have hu := K.up win ww hw
  have hl := K.lo win ww hw
  obtain ⟨K', P'⟩ := K.set_refcount hw (ww.refcount + 1) (bump int win) (fun j hj => by simp [bump, hj])
    ⟨by simp only [bump, if_true]; omega, fun hc => by have := hu.2 hc; simp only [bump, if_true]; omega⟩
    (by simp only [bump, if_true]; omega)
  exact ⟨_, rfl, K', P', rfl⟩

/-- `tickit_window_unref` of a window that holds another reference: the count goes down, nothing else happens. -/
theorem unrefW_dec (cfg : Cfg) {st : St} {win : Nat} {ww : Win} (hw : LiveW st.tree win ww) (h2 : 2 ≤ ww.refcount) :
    unrefW cfg st win = .ok (setW st win { ww with refcount := ww.refcount - 1 }) := by
  unfold unrefW unrefT unrefTWith
  have h1 : ¬ ww.refcount < 1 := by omega
  have h0 : ¬ ww.refcount - 1 = 0 := by omega
  simp only [get_live hw, bind_ok, h1, if_false, h0, pure_ok, List.foldlM_nil, consume, List.foldl_nil]
  rfl

/-- A frame gives a reference back. -/
theorem KInv.unrefI (cfg : Cfg) {st : St} {int : Nat → Nat} (K : KInv gh st int) {win : Nat} {ww : Win} (hw : LiveW st.tree win ww)
    (hi : 1 ≤ int win) :
    ∃ st', unrefW cfg st win = .ok st' ∧ KInv gh st' (unbump int win) ∧ Pres st st' ∧ st'.wx = st.wx := by
  have hu := K.up win ww hw
  have hl := K.lo win ww hw
  rw [unrefW_dec cfg hw (by omega)]
  obtain ⟨K', P'⟩ := K.set_refcount hw (ww.refcount - 1) (unbump int win) (fun j hj => by simp [unbump, hj])
    ⟨by simp only [unbump, if_true]; omega, fun hc => by have := hu.2 hc; simp only [unbump, if_true]; omega⟩
    (by simp only [unbump, if_true]; omega)
  exact ⟨_, rfl, K', P', rfl⟩

/-! ## handlers that free nothing -/

theorem KeepingHandlers.of_wx {st st' : St} (H : KeepingHandlers st) (h : st'.wx = st.wx) : KeepingHandlers st' := by
  intro i b hb; unfold getX at hb; rw [h] at hb; exact H i b hb

/-- A window's record changes, its handlers being among the old ones (up to the fields the walk rewrites). -/
theorem KeepingHandlers.setX {st : St} (H : KeepingHandlers st) (i : Nat) (x : WinX)
    (hb : ∀ b ∈ x.binds, ∃ b0 ∈ (getX st i).binds, b.acts = b0.acts) : KeepingHandlers (setX st i x) := by
  intro j b hbj
  rw [getX_setX] at hbj
  split at hbj
  · obtain ⟨b0, hb0, he⟩ := hb b hbj
    rw [he]; exact H i b0 hb0
  · exact H j b hbj

theorem tree_update_wx (st : St) (t' : Tree) : ({ st with tree := t' } : St).wx = st.wx := rfl

/-- One call of a handler that frees nothing: skipped, or done with every window alive and the account intact. -/
theorem simpleOp_keep {cfg : Cfg} (R : Repaired cfg) {st : St} {int : Nat → Nat} (K : KInv gh st int) (H : KeepingHandlers st)
    (a : Act) (ha : a.keeps = true) (self : Option (Id × Int)) :
    simpleOp cfg st a self = none ∨
      ∃ st', simpleOp cfg st a self = some (.ok st') ∧ KInv gh st' int ∧ Pres st st' ∧ KeepingHandlers st' := by
  cases a <;> simp only [Act.keeps, Bool.false_eq_true] at ha <;> simp only [simpleOp]
  case ref w =>
    by_cases hh : heldW st w = true
    · right
      obtain ⟨ww, hw, _⟩ := heldW_spec hh
      simp only [hh, if_true]
      have hu := K.up w ww hw
      have hl := K.lo w ww hw
      unfold refW
      simp only [getW, setX_tree, get_live hw, bind_ok, pure_ok]
      obtain ⟨K2, P2⟩ := K.set_refcount_x hw { getX st w with appRefs := (getX st w).appRefs + 1 } rfl (ww.refcount + 1) int (fun _ _ => rfl)
        ⟨by show ww.refcount + 1 ≤ (((getX st w).appRefs + 1 : Nat) : Int) + _ + _; omega,
         fun h0 => by
          have := hu.2 h0
          show (((getX st w).appRefs + 1 : Nat) : Int) + _ + _ ≤ ww.refcount + 1
          omega⟩ (by omega)
      refine ⟨_, rfl, K2, P2, ?_⟩
      exact (H.setX w { getX st w with appRefs := (getX st w).appRefs + 1 } (fun b hb => ⟨b, hb, rfl⟩)).of_wx rfl
    · left; simp only [hh, Bool.false_eq_true, if_false]
  case close w =>
    by_cases hh : heldW st w = true
    · right
      obtain ⟨ww, hw, _⟩ := heldW_spec hh
      simp only [hh, if_true]
      obtain ⟨t', hc, C⟩ := closeT_ok R.closePurges R.dragForgottenOnClose K.tinv hw
      obtain ⟨K1, P1⟩ := K.of_closed hw C
      exact ⟨_, by rw [liftT_ok hc], K1, P1, H.of_wx rfl⟩
    · left; simp only [hh, Bool.false_eq_true, if_false]
  case restack c w =>
    by_cases hh : (usableW st w && isRestack c) = true
    · right
      simp only [hh, if_true]
      simp only [Bool.and_eq_true] at hh
      obtain ⟨⟨ww, hw⟩, hreach⟩ := usableW_spec K.tinv hh.1
      obtain ⟨t', hq, inv', hwins⟩ := request_ok K.tinv hh.2 hw hreach
      obtain ⟨K1, P1⟩ := K.of_tree inv' (by rw [hwins]) (fun i x hx => ⟨x, by rw [hwins]; exact hx, rfl, fun _ => rfl⟩)
      exact ⟨_, by rw [liftT_ok hq], K1, P1, H.of_wx rfl⟩
    · left; simp only [hh, Bool.false_eq_true, if_false]
  case hide w =>
    by_cases hh : usableW st w = true
    · right
      simp only [hh, if_true]
      obtain ⟨⟨ww, hw⟩, _⟩ := usableW_spec K.tinv hh
      obtain ⟨t', hq, inv', hrel, hrc⟩ := hideT_ok K.tinv hw
      obtain ⟨K1, P1⟩ := K.of_rel' inv' hrel hrc
      exact ⟨_, by rw [liftT_ok hq], K1, P1, H.of_wx rfl⟩
    · left; simp only [hh, Bool.false_eq_true, if_false]
  case «show» w =>
    by_cases hh : usableW st w = true
    · right
      simp only [hh, if_true]
      obtain ⟨⟨ww, hw⟩, _⟩ := usableW_spec K.tinv hh
      obtain ⟨t', hq, inv', hrel, hrc⟩ := showT_ok K.tinv hw
      obtain ⟨K1, P1⟩ := K.of_rel' inv' hrel hrc
      exact ⟨_, by rw [liftT_ok hq], K1, P1, H.of_wx rfl⟩
    · left; simp only [hh, Bool.false_eq_true, if_false]
  case flush =>
    by_cases hh : heldW st 0 = true
    · right
      simp only [hh, if_true]
      obtain ⟨r, hr⟩ := heldW_live hh
      obtain ⟨t', hq, inv', hrel, _, _, hrc⟩ := flushT_ok K.tinv hr
      obtain ⟨K1, P1⟩ := K.of_rel' inv' hrel hrc
      exact ⟨_, by rw [liftT_ok hq], K1, P1, H.of_wx rfl⟩
    · left; simp only [hh, Bool.false_eq_true, if_false]
  case unbindSelf =>
    cases self with
    | none => left; rfl
    | some p =>
      obtain ⟨w, id⟩ := p
      simp only
      by_cases hh : (usableW st w && (getX st w).binds.any (fun b => b.id = id && b.used)) = true
      · right
        rw [if_pos hh]
        simp only [Bool.and_eq_true] at hh
        obtain ⟨⟨ww, hw⟩, _⟩ := usableW_spec K.tinv hh.1
        have hlt : w < st.wx.size := by rw [K.wx_size]; exact hw.lt
        generalize hx1 : ({ getX st w with binds := (getX st w).binds.map (fun b => if b.id = id then { b with used := false } else b) } : WinX) = x1
        have hx1p : x1.pen = (getX st w).pen := by rw [← hx1]
        have hx1a : x1.appRefs = (getX st w).appRefs := by rw [← hx1]
        have hx1b : ∀ b ∈ x1.binds, ∃ b0 ∈ (getX st w).binds, b.acts = b0.acts := by
          intro b hb
          rw [← hx1] at hb
          simp only [List.mem_map] at hb
          obtain ⟨b0, hb0, he⟩ := hb
          refine ⟨b0, hb0, ?_⟩
          rw [← he]; split <;> rfl
        obtain ⟨K1, P1⟩ := K.setX_same w x1 hx1p hx1a
        have H1 := H.setX w x1 hx1b
        have hw1 : LiveW (setX st w x1).tree w ww := hw
        have hg1 : getX (setX st w x1) w = x1 := getX_setX_self _ hlt
        unfold unbindEvent
        simp only [getW, get_live hw1, bind_ok, hg1]
        by_cases hit : x1.iterating = true
        · rw [if_pos hit]
          simp only [pure_ok]
          generalize hx2 : ({ x1 with binds := x1.binds.map (fun b => if b.id = id then { b with id := -1, ev := none } else b),
                                      needsDelete := x1.needsDelete || x1.binds.any (fun b => b.id = id) } : WinX) = x2
          have hx2p : x2.pen = (getX (setX st w x1) w).pen := by rw [← hx2, hg1]
          have hx2a : x2.appRefs = (getX (setX st w x1) w).appRefs := by rw [← hx2, hg1]
          obtain ⟨K2, P2⟩ := K1.setX_same w x2 hx2p hx2a
          refine ⟨_, rfl, K2, P1.trans P2, H1.setX w x2 ?_⟩
          intro b hb
          rw [← hx2] at hb
          simp only [List.mem_map] at hb
          obtain ⟨b0, hb0, he⟩ := hb
          rw [hg1]
          refine ⟨b0, hb0, ?_⟩
          rw [← he]; split <;> rfl
        · rw [if_neg hit]
          simp only [pure_ok]
          generalize hx2 : ({ x1 with binds := x1.binds.filter (fun b => b.id ≠ id) } : WinX) = x2
          have hx2p : x2.pen = (getX (setX st w x1) w).pen := by rw [← hx2, hg1]
          have hx2a : x2.appRefs = (getX (setX st w x1) w).appRefs := by rw [← hx2, hg1]
          obtain ⟨K2, P2⟩ := K1.setX_same w x2 hx2p hx2a
          refine ⟨_, rfl, K2, P1.trans P2, H1.setX w x2 ?_⟩
          intro b hb
          rw [← hx2] at hb
          rw [hg1]
          exact ⟨b, (List.mem_filter.1 hb).1, rfl⟩
      · left; rw [if_neg hh]

theorem runActs_keep {cfg : Cfg} (R : Repaired cfg) (self : Id × Int) : ∀ (acts : List Act) {st : St} {int : Nat → Nat},
    KInv gh st int → KeepingHandlers st → (∀ a ∈ acts, a.keeps = true) →
    ∃ st', runActs cfg self st acts = .ok st' ∧ KInv gh st' int ∧ Pres st st' ∧ KeepingHandlers st'
  | [], st, int, K, H, _ => ⟨st, rfl, K, Pres.refl st, H⟩
  | a :: rest, st, int, K, H, hk => by
    unfold runActs
    have hrest : ∀ a ∈ rest, a.keeps = true := fun x hx => hk x (by simp [hx])
    rcases simpleOp_keep R K H a (hk a (by simp)) (some self) with h | ⟨st1, h, K1, P1, H1⟩
    · simp only [h]
      exact runActs_keep R self rest K H hrest
    · simp only [h, bind_ok]
      obtain ⟨st2, h2, K2, P2, H2⟩ := runActs_keep R self rest K1 H1 hrest
      exact ⟨st2, h2, K2, P1.trans P2, H2⟩

theorem runBinds_go_keep {cfg : Cfg} (R : Repaired cfg) (win : Id) (ev : Ev) (tag : String) :
    ∀ (bs : List Bind) {st : St} {int : Nat → Nat}, KInv gh st int → KeepingHandlers st →
    ∃ st' b, runBinds.go cfg win ev tag st bs = .ok (st', b) ∧ KInv gh st' int ∧ Pres st st' ∧ KeepingHandlers st'
  | [], st, int, K, H => ⟨st, false, rfl, K, Pres.refl st, H⟩
  | b :: rest, st, int, K, H => by
    unfold runBinds.go
    dsimp only
    cases hc : List.find? (fun c => decide (c.id = b.id ∧ b.id ≠ -1)) (getX st win).binds with
    | none => exact runBinds_go_keep R win ev tag rest K H
    | some c =>
      have hcm : c ∈ (getX st win).binds := List.mem_of_find?_eq_some hc
      dsimp only
      split
      · have K0 : KInv gh { st with log := st.log ++ [tag] } int :=
          ⟨K.toSInvB.of_wx rfl rfl rfl rfl rfl rfl, K.up, K.lo, K.glive⟩
        have H0 : KeepingHandlers { st with log := st.log ++ [tag] } := H.of_wx rfl
        obtain ⟨st1, h1, K1, P1, H1⟩ := runActs_keep R (win, c.id) c.acts K0 H0 (H win c hcm)
        have P0 : Pres st { st with log := st.log ++ [tag] } := ⟨rfl, fun _ w h => ⟨w, h⟩, rfl⟩
        simp only [h1, bind_ok]
        split
        · exact ⟨st1, true, rfl, K1, P0.trans P1, H1⟩
        · obtain ⟨st2, b2, h2, K2, P2, H2⟩ := runBinds_go_keep R win ev tag rest K1 H1
          exact ⟨st2, b2, h2, K2, (P0.trans P1).trans P2, H2⟩
      · exact runBinds_go_keep R win ev tag rest K H

/-- `run_events_whilefalse(win, ev, info)` with handlers that free nothing. -/
theorem runBinds_keep {cfg : Cfg} (R : Repaired cfg) {st : St} {int : Nat → Nat} (K : KInv gh st int) (H : KeepingHandlers st)
    {win : Nat} {ww : Win} (hw : LiveW st.tree win ww) (ev : Ev) (tag : String) :
    ∃ st' b, runBinds cfg st win ev tag = .ok (st', b) ∧ KInv gh st' int ∧ Pres st st' ∧ KeepingHandlers st' := by
  unfold runBinds
  simp only [getW, get_live hw, bind_ok]
  obtain ⟨K1, P1⟩ := K.setX_same win { getX st win with iterating := true } rfl rfl
  have H1 := H.setX win { getX st win with iterating := true } (fun b hb => ⟨b, hb, rfl⟩)
  obtain ⟨st2, b2, h2, K2, P2, H2⟩ := runBinds_go_keep R win ev tag (getX st win).binds K1 H1
  simp only [h2, bind_ok]
  obtain ⟨w2, hw2⟩ := (P1.trans P2).live win ww hw
  simp only [get_live hw2, bind_ok, pure_ok]
  generalize hx : (if (!(getX st win).iterating && (getX st2 win).needsDelete) = true then
      ({ pen := (getX st2 win).pen, binds := List.filter (fun b => decide (b.id ≠ -1)) (getX st2 win).binds,
         iterating := (getX st win).iterating, appRefs := (getX st2 win).appRefs } : WinX)
    else { pen := (getX st2 win).pen, binds := (getX st2 win).binds, iterating := (getX st win).iterating,
           needsDelete := (getX st2 win).needsDelete, appRefs := (getX st2 win).appRefs }) = x
  have hxp : x.pen = (getX st2 win).pen := by rw [← hx]; split <;> rfl
  have hxa : x.appRefs = (getX st2 win).appRefs := by rw [← hx]; split <;> rfl
  have hxb : ∀ b ∈ x.binds, ∃ b0 ∈ (getX st2 win).binds, b.acts = b0.acts := by
    intro b hb
    rw [← hx] at hb
    split at hb
    · exact ⟨b, (List.mem_filter.1 hb).1, rfl⟩
    · exact ⟨b, hb, rfl⟩
  obtain ⟨K3, P3⟩ := K2.setX_same win x hxp hxa
  exact ⟨_, _, rfl, K3, (P1.trans P2).trans P3, H2.setX win x hxb⟩

/-! ## the snapshot of the children -/

theorem foldl_refW_keep : ∀ (cs : List Nat) {st : St} {int : Nat → Nat}, KInv gh st int → (∀ c ∈ cs, ∃ cw, LiveW st.tree c cw) →
    ∃ st', cs.foldlM refW st = .ok st' ∧ KInv gh st' (fun j => int j + cs.count j) ∧ Pres st st' ∧ st'.wx = st.wx
  | [], st, int, K, _ => ⟨st, rfl, by simpa using K, Pres.refl st, rfl⟩
  | c :: rest, st, int, K, hl => by
    obtain ⟨cw, hc⟩ := hl c (by simp)
    obtain ⟨st1, h1, K1, P1, hx1⟩ := K.refI hc
    simp only [List.foldlM_cons, h1, bind_ok]
    obtain ⟨st2, h2, K2, P2, hx2⟩ := foldl_refW_keep rest K1 (fun x hx => by
      obtain ⟨xw, hxl⟩ := hl x (by simp [hx]); exact P1.live x xw hxl)
    refine ⟨st2, h2, ?_, P1.trans P2, hx2.trans hx1⟩
    have e : (fun j => bump int c j + rest.count j) = (fun j => int j + (c :: rest).count j) := by
      funext j
      unfold bump
      rw [List.count_cons]
      by_cases hj : j = c
      · subst hj; simp; omega
      · have : ¬ (c == j) = true := by simpa using fun h => hj h.symm
        simp [hj, this]
    rw [← e]; exact K2

theorem foldl_unrefW_keep (cfg : Cfg) : ∀ (cs : List Nat) {st : St} {int : Nat → Nat}, KInv gh st (fun j => int j + cs.count j) →
    (∀ c ∈ cs, ∃ cw, LiveW st.tree c cw) →
    ∃ st', cs.foldlM (unrefW cfg) st = .ok st' ∧ KInv gh st' int ∧ Pres st st' ∧ st'.wx = st.wx
  | [], st, int, K, _ => ⟨st, rfl, by simpa using K, Pres.refl st, rfl⟩
  | c :: rest, st, int, K, hl => by
    obtain ⟨cw, hc⟩ := hl c (by simp)
    obtain ⟨st1, h1, K1, P1, hx1⟩ := K.unrefI cfg hc (by simp; omega)
    simp only [List.foldlM_cons, h1, bind_ok]
    have e : unbump (fun j => int j + (c :: rest).count j) c = (fun j => int j + rest.count j) := by
      funext j
      unfold unbump
      simp only [List.count_cons]
      by_cases hj : j = c
      · subst hj; simp
      · have : ¬ (c == j) = true := by simpa using fun h => hj h.symm
        simp [hj, this]
    rw [e] at K1
    obtain ⟨st2, h2, K2, P2, hx2⟩ := foldl_unrefW_keep cfg rest K1 (fun x hx => by
      obtain ⟨xw, hxl⟩ := hl x (by simp [hx]); exact P1.live x xw hxl)
    exact ⟨st2, h2, K2, P1.trans P2, hx2.trans hx1⟩

/-! ## `_handle_key` -/

/-- What the frames below give: a recursive call on a child of `win` succeeds, keeps everything alive and gives back
    the references it took. -/
def RecOk (gh : Ghost) (recK : St → Id → Out (St × Bool)) (win : Nat) (N : Nat) : Prop :=
  ∀ {st : St} {int : Nat → Nat} {child : Nat} {cw : Win}, KInv gh st int → KeepingHandlers st → LiveW st.tree child cw →
    cw.parent = some win → st.tree.wins.size = N → ∃ st' b, recK st child = .ok (st', b) ∧ KInv gh st' int ∧ Pres st st' ∧ KeepingHandlers st'

theorem keyLoop_keep {recK : St → Id → Out (St × Bool)} {win : Nat} {N : Nat} (hrec : RecOk gh recK win N) :
    ∀ (cs : List Nat) {st : St} {int : Nat → Nat}, KInv gh st int → KeepingHandlers st → (∃ w, LiveW st.tree win w) →
    (∀ c ∈ cs, ∃ cw, LiveW st.tree c cw) → st.tree.wins.size = N →
    ∃ st' b, keyLoop recK win st cs = .ok (st', b) ∧ KInv gh st' int ∧ Pres st st' ∧ KeepingHandlers st'
  | [], st, int, K, H, _, _, _ => ⟨st, false, by rw [keyLoop]; rfl, K, Pres.refl st, H⟩
  | child :: rest, st, int, K, H, hwin, hl, hN => by
    obtain ⟨cw, hc⟩ := hl child (by simp)
    obtain ⟨w, hw⟩ := hwin
    have hrest : ∀ c ∈ rest, ∃ cw, LiveW st.tree c cw := fun x hx => hl x (by simp [hx])
    rw [keyLoop]
    simp only [getW, get_live hc, bind_ok]
    by_cases hp : cw.parent ≠ some win
    · rw [if_pos hp]
      exact keyLoop_keep hrec rest K H ⟨w, hw⟩ hrest hN
    · rw [if_neg hp]
      have hp' : cw.parent = some win := by
        cases h : cw.parent with
        | none => rw [h] at hp; simp at hp
        | some p => rw [h] at hp; simpa using hp
      simp only [get_live hw, bind_ok]
      by_cases hf : w.focusedChild = some child
      · rw [if_pos hf]
        exact keyLoop_keep hrec rest K H ⟨w, hw⟩ hrest hN
      · rw [if_neg hf]
        obtain ⟨st1, b1, h1, K1, P1, H1⟩ := hrec K H hc hp' hN
        simp only [h1, bind_ok]
        by_cases hb : b1 = true
        · simp only [hb, if_true, pure_ok]
          exact ⟨st1, true, rfl, K1, P1, H1⟩
        · have hb' : b1 = false := by cases b1 <;> simp_all
          simp only [hb', Bool.false_eq_true, if_false]
          obtain ⟨st2, b2, h2, K2, P2, H2⟩ := keyLoop_keep hrec rest K1 H1 (P1.live win w hw) (fun x hx => by
            obtain ⟨xw, hxl⟩ := hrest x hx; exact P1.live x xw hxl) (P1.size.trans hN)
          exact ⟨st2, b2, h2, K2, P1.trans P2, H2⟩

/-- The four stages of the body of `_handle_key` after it has referenced its window (the join points of the
    `do` block of `handleKeyBody`). -/
def kStage4 (cfg : Cfg) (win : Id) (r4 : St × Bool) : Out (St × Bool) := do
  let st ← unrefW cfg r4.1 win
  pure (st, r4.2)

def kStage3 (cfg : Cfg) (recK : St → Id → Out (St × Bool)) (win : Id) (r3 : St × Bool) : Out (St × Bool) :=
  if r3.2 then kStage4 cfg win (r3.1, true) else do
    let sn ← refChildren r3.1 win
    let h ← keyLoop recK win sn.1 sn.2
    let st ← unrefChildren cfg h.1 sn.2
    kStage4 cfg win (st, h.2)

def kStage2 (cfg : Cfg) (recK : St → Id → Out (St × Bool)) (win : Id) (r2 : St × Bool) : Out (St × Bool) :=
  if r2.2 then kStage3 cfg recK win (r2.1, true) else do
    let shown ← isShownW r2.1 win
    if shown then do
      let r3 ← runBinds cfg r2.1 win .key (logKey win)
      kStage3 cfg recK win r3
    else kStage3 cfg recK win (r2.1, false)

def kStage1 (cfg : Cfg) (recK : St → Id → Out (St × Bool)) (win : Id) (r1 : St × Bool) : Out (St × Bool) :=
  if r1.2 then kStage2 cfg recK win (r1.1, true) else do
    let w ← getW r1.1 win
    match w.focusedChild with
    | some fc => do
      let r2 ← recK r1.1 fc
      kStage2 cfg recK win r2
    | none => kStage2 cfg recK win (r1.1, false)

theorem handleKeyBody_eq (cfg : Cfg) (recK : St → Id → Out (St × Bool)) (st : St) (win : Id) :
    handleKeyBody cfg recK st win = (do
      let shown ← isShownW st win
      if !shown then pure (st, false)
      else do
        let st ← refW st win
        let w ← getW st win
        match w.children.head? with
        | some fc => do
          let fcw ← getW st fc
          if fcw.stealInput then do
            let r1 ← recK st fc
            kStage1 cfg recK win r1
          else kStage1 cfg recK win (st, false)
        | none => kStage1 cfg recK win (st, false)) := by
  rfl

theorem kStage4_keep (cfg : Cfg) {win : Nat} {r4 : St × Bool} {int : Nat → Nat} (K : KInv gh r4.1 (bump int win))
    (H : KeepingHandlers r4.1) (hw : ∃ w, LiveW r4.1.tree win w) :
    ∃ st' b, kStage4 cfg win r4 = .ok (st', b) ∧ KInv gh st' int ∧ Pres r4.1 st' ∧ KeepingHandlers st' := by
  obtain ⟨w, hw⟩ := hw
  unfold kStage4
  obtain ⟨st1, h1, K1, P1, hx1⟩ := K.unrefI cfg hw (bump_self int win)
  rw [unbump_bump] at K1
  simp only [h1, bind_ok, pure_ok]
  exact ⟨st1, r4.2, rfl, K1, P1, H.of_wx hx1⟩

theorem kStage3_keep {cfg : Cfg} {recK : St → Id → Out (St × Bool)} {win : Nat} {N : Nat} (hrec : RecOk gh recK win N)
    {r3 : St × Bool} {int : Nat → Nat} (K : KInv gh r3.1 (bump int win)) (H : KeepingHandlers r3.1) (hw : ∃ w, LiveW r3.1.tree win w)
    (hN : r3.1.tree.wins.size = N) :
    ∃ st' b, kStage3 cfg recK win r3 = .ok (st', b) ∧ KInv gh st' int ∧ Pres r3.1 st' ∧ KeepingHandlers st' := by
  unfold kStage3
  by_cases hb : r3.2 = true
  · rw [if_pos hb]
    exact kStage4_keep cfg (r4 := (r3.1, true)) K H hw
  · rw [if_neg hb]
    obtain ⟨w, hwl⟩ := hw
    unfold refChildren
    simp only [getW, get_live hwl, bind_ok]
    have hch : ∀ c ∈ w.children, ∃ cw, LiveW r3.1.tree c cw := fun c hc => by
      obtain ⟨cw, hcl, _⟩ := K.tinv.child_ok win w hwl c hc; exact ⟨cw, hcl⟩
    obtain ⟨st1, h1, K1, P1, hx1⟩ := foldl_refW_keep w.children K hch
    simp only [h1, bind_ok, pure_ok]
    obtain ⟨st2, b2, h2, K2, P2, H2⟩ := keyLoop_keep hrec w.children K1 (H.of_wx hx1) (P1.live win w hwl)
      (fun c hc => by obtain ⟨cw, hcl⟩ := hch c hc; exact P1.live c cw hcl) (P1.size.trans hN)
    simp only [h2, bind_ok]
    unfold unrefChildren
    obtain ⟨st3, h3, K3, P3, hx3⟩ := foldl_unrefW_keep cfg w.children K2
      (fun c hc => by obtain ⟨cw, hcl⟩ := hch c hc; exact (P1.trans P2).live c cw hcl)
    simp only [h3, bind_ok]
    obtain ⟨st4, b4, h4, K4, P4, H4⟩ := kStage4_keep cfg (r4 := (st3, b2)) K3 (H2.of_wx hx3) ((P1.trans (P2.trans P3)).live win w hwl)
    exact ⟨st4, b4, h4, K4, ((P1.trans P2).trans P3).trans P4, H4⟩

theorem kStage2_keep {cfg : Cfg} (R : Repaired cfg) {recK : St → Id → Out (St × Bool)} {win : Nat} {N : Nat} (hrec : RecOk gh recK win N)
    {r2 : St × Bool} {int : Nat → Nat} (K : KInv gh r2.1 (bump int win)) (H : KeepingHandlers r2.1) (hw : ∃ w, LiveW r2.1.tree win w)
    (hN : r2.1.tree.wins.size = N) :
    ∃ st' b, kStage2 cfg recK win r2 = .ok (st', b) ∧ KInv gh st' int ∧ Pres r2.1 st' ∧ KeepingHandlers st' := by
  unfold kStage2
  by_cases hb : r2.2 = true
  · rw [if_pos hb]
    exact kStage3_keep hrec (r3 := (r2.1, true)) K H hw hN
  · rw [if_neg hb]
    obtain ⟨w, hwl⟩ := hw
    obtain ⟨sh, hsh⟩ := isShown_ok K.tinv win w hwl _ (chainFuel_gt hwl)
    simp only [isShownW, hsh, bind_ok]
    by_cases hs : sh = true
    · rw [if_pos hs]
      obtain ⟨st1, b1, h1, K1, P1, H1⟩ := runBinds_keep R K H hwl .key (logKey win)
      simp only [h1, bind_ok]
      obtain ⟨st2, b2, h2, K2, P2, H2⟩ := kStage3_keep hrec (r3 := (st1, b1)) K1 H1 (P1.live win w hwl) (P1.size.trans hN)
      exact ⟨st2, b2, h2, K2, P1.trans P2, H2⟩
    · rw [if_neg hs]
      exact kStage3_keep hrec (r3 := (r2.1, false)) K H ⟨w, hwl⟩ hN

theorem kStage1_keep {cfg : Cfg} (R : Repaired cfg) {recK : St → Id → Out (St × Bool)} {win : Nat} {N : Nat} (hrec : RecOk gh recK win N)
    {r1 : St × Bool} {int : Nat → Nat} (K : KInv gh r1.1 (bump int win)) (H : KeepingHandlers r1.1) (hw : ∃ w, LiveW r1.1.tree win w)
    (hN : r1.1.tree.wins.size = N) :
    ∃ st' b, kStage1 cfg recK win r1 = .ok (st', b) ∧ KInv gh st' int ∧ Pres r1.1 st' ∧ KeepingHandlers st' := by
  unfold kStage1
  by_cases hb : r1.2 = true
  · rw [if_pos hb]
    exact kStage2_keep R hrec (r2 := (r1.1, true)) K H hw hN
  · rw [if_neg hb]
    obtain ⟨w, hwl⟩ := hw
    simp only [getW, get_live hwl, bind_ok]
    cases hf : w.focusedChild with
    | none => exact kStage2_keep R hrec (r2 := (r1.1, false)) K H ⟨w, hwl⟩ hN
    | some fc =>
      simp only
      obtain ⟨cw, hcl, hcp⟩ := K.tinv.child_ok win w hwl fc (K.tinv.focus_ok win w hwl fc hf)
      obtain ⟨st1, b1, h1, K1, P1, H1⟩ := hrec K H hcl hcp hN
      simp only [h1, bind_ok]
      obtain ⟨st2, b2, h2, K2, P2, H2⟩ := kStage2_keep R hrec (r2 := (st1, b1)) K1 H1 (P1.live win w hwl) (P1.size.trans hN)
      exact ⟨st2, b2, h2, K2, P1.trans P2, H2⟩

/-- The body of `_handle_key`, the frames below being in order. -/
theorem handleKeyBody_keep {cfg : Cfg} (R : Repaired cfg) {recK : St → Id → Out (St × Bool)} {win : Nat} {N : Nat} (hrec : RecOk gh recK win N)
    {st : St} {int : Nat → Nat} (K : KInv gh st int) (H : KeepingHandlers st) {ww : Win} (hw : LiveW st.tree win ww)
    (hN : st.tree.wins.size = N) :
    ∃ st' b, handleKeyBody cfg recK st win = .ok (st', b) ∧ KInv gh st' int ∧ Pres st st' ∧ KeepingHandlers st' := by
  rw [handleKeyBody_eq]
  obtain ⟨sh, hsh⟩ := isShown_ok K.tinv win ww hw _ (chainFuel_gt hw)
  simp only [isShownW, hsh, bind_ok]
  by_cases hs : (!sh) = true
  · rw [if_pos hs]
    exact ⟨st, false, rfl, K, Pres.refl st, H⟩
  · rw [if_neg hs]
    obtain ⟨st1, h1, K1, P1, hx1⟩ := K.refI hw
    simp only [h1, bind_ok]
    obtain ⟨w1, hw1⟩ := P1.live win ww hw
    have H1 := H.of_wx hx1
    simp only [getW, get_live hw1, bind_ok]
    cases hh : w1.children.head? with
    | none =>
      simp only
      obtain ⟨st2, b2, h2, K2, P2, H2⟩ := kStage1_keep R hrec (r1 := (st1, false)) K1 H1 ⟨w1, hw1⟩ (P1.size.trans hN)
      exact ⟨st2, b2, h2, K2, P1.trans P2, H2⟩
    | some fc =>
      simp only
      have hmem : fc ∈ w1.children := List.mem_of_mem_head? hh
      obtain ⟨cw, hcl, hcp⟩ := K1.tinv.child_ok win w1 hw1 fc hmem
      simp only [get_live hcl, bind_ok]
      by_cases hst : cw.stealInput = true
      · rw [if_pos hst]
        obtain ⟨st2, b2, h2, K2, P2, H2⟩ := hrec K1 H1 hcl hcp (P1.size.trans hN)
        simp only [h2, bind_ok]
        obtain ⟨st3, b3, h3, K3, P3, H3⟩ := kStage1_keep R hrec (r1 := (st2, b2)) K2 H2 (P2.live win w1 hw1) ((P1.trans P2).size.trans hN)
        exact ⟨st3, b3, h3, K3, (P1.trans P2).trans P3, H3⟩
      · rw [if_neg hst]
        obtain ⟨st2, b2, h2, K2, P2, H2⟩ := kStage1_keep R hrec (r1 := (st1, false)) K1 H1 ⟨w1, hw1⟩ (P1.size.trans hN)
        exact ⟨st2, b2, h2, K2, P1.trans P2, H2⟩

/-- `_handle_key` with enough recursion budget for the windows below `win` (children are younger than their parents). -/
theorem handleKey_keep {cfg : Cfg} (R : Repaired cfg) : ∀ (fuel : Nat) {st : St} {int : Nat → Nat} {win : Nat} {ww : Win},
    KInv gh st int → KeepingHandlers st → LiveW st.tree win ww → st.tree.wins.size ≤ win + fuel →
    ∃ st' b, handleKey cfg fuel st win = .ok (st', b) ∧ KInv gh st' int ∧ Pres st st' ∧ KeepingHandlers st'
  | 0, st, int, win, ww, _, _, hw, hsz => by have := hw.lt; omega
  | fuel + 1, st, int, win, ww, K, H, hw, hsz => by
    unfold handleKey
    refine handleKeyBody_keep R (N := st.tree.wins.size) ?_ K H hw rfl
    intro st1 int1 child cw K1 H1 hcl hcp hN1
    -- a child is younger than its parent: the budget left covers it
    have hlt := (K1.tinv.parent_ok child cw hcl win hcp).1
    exact handleKey_keep R fuel K1 H1 hcl (by omega)

/-! ## `tickit_term_emit_key` -/

theorem emitKeyNew_keep {cfg : Cfg} (R : Repaired cfg) {st : St} (inv : SInv gh st) (H : KeepingHandlers st) (hT : heldT st = true) :
    ∃ st', emitKeyNew cfg st = .ok st' ∧ SInv gh st' ∧ KeepingHandlers st' := by
  have hfree : st.term.freed = false := by
    unfold heldT at hT
    cases h : st.term.freed <;> simp [h] at hT ⊢
  unfold emitKeyNew
  simp only [hfree, Bool.false_eq_true, if_false]
  obtain ⟨r, hr, _, _⟩ := inv.tinv.root_ex
  simp only [hr]
  by_cases hrf : r.freed = true
  · rw [if_pos hrf]; exact ⟨st, rfl, inv, H⟩
  · rw [if_neg hrf]
    have hrl : LiveW st.tree 0 r := ⟨hr, by cases h : r.freed <;> simp_all⟩
    have K0 : KInv gh { st with termIter := true } (fun _ => 0) := by
      have K := KInv.of_inv inv
      exact ⟨K.toSInvB.of_wx rfl rfl rfl rfl rfl rfl, K.up, K.lo, K.glive⟩
    have H0 : KeepingHandlers { st with termIter := true } := H.of_wx rfl
    obtain ⟨st1, b1, h1, K1, P1, H1⟩ := handleKey_keep R (routeFuel { st with termIter := true }) K0 H0 (ww := r) hrl
      (by simp only [routeFuel]; omega)
    simp only [h1, bind_ok]
    have ht1 : st1.term.freed = false := by rw [P1.term]; exact hfree
    simp only [ht1, Bool.false_eq_true, if_false, pure_ok]
    refine ⟨_, rfl, ?_, H1.of_wx rfl⟩
    have K2 : KInv gh { st1 with termIter := false } (fun _ => 0) := ⟨K1.toSInvB.of_wx rfl rfl rfl rfl rfl rfl, K1.up, K1.lo, K1.glive⟩
    exact K2.to_inv

/-- The operation `key`: `tickit_term_emit_key` with handlers that free nothing. -/
theorem step_key_ok {cfg : Cfg} (R : Repaired cfg) {st : St} (inv : SInv gh st) (H : KeepingHandlers st) :
    ∃ st' r, step cfg st .key = .ok (st', r) ∧ SInv gh st' ∧ KeepingHandlers st' := by
  unfold step
  by_cases hT : heldT st = true
  · simp only [hT, Bool.not_true, Bool.false_eq_true, if_false, okR, emitKey, R.snapshotRouting, if_true]
    obtain ⟨st1, h1, inv1, H1⟩ := emitKeyNew_keep R inv H hT
    simp only [h1, bind_ok, pure_ok]
    exact ⟨_, _, rfl, inv1, H1⟩
  · simp only [hT, Bool.not_false, if_true, skipR, pure_ok]
    exact ⟨_, _, rfl, inv, H⟩

/-! ## the handlers bound in a state come from `bind` operations -/

theorem KeepingHandlers.iff_elems (st : St) :
    KeepingHandlers st ↔ ∀ x ∈ st.wx.toList, ∀ b ∈ x.binds, ∀ a ∈ b.acts, a.keeps = true := by
  constructor
  · intro H x hx b hb
    obtain ⟨i, hi, rfl⟩ := List.getElem_of_mem hx
    have hi' : i < st.wx.size := by simpa using hi
    have : getX st i = st.wx.toList[i] := by
      unfold getX
      rw [Array.getElem?_eq_getElem hi']
      simp
    exact H i b (by rw [this]; exact hb)
  · intro H i b hb
    unfold getX at hb
    cases h : st.wx[i]? with
    | none => rw [h] at hb; simp at hb
    | some x =>
      rw [h] at hb
      have hx : x ∈ st.wx.toList := by
        have := Array.mem_of_getElem? h
        exact Array.mem_def.1 this
      exact H x hx b hb

theorem consume_keeps : ∀ (dropped : List Nat) {st : St}, KeepingHandlers st → KeepingHandlers (consume st dropped)
  | [], _, H => H
  | d :: rest, st, H => by
    unfold consume
    rw [List.foldl_cons]
    exact consume_keeps rest (H.setX d _ (fun b hb => ⟨b, hb, rfl⟩))

theorem penUnref_wx {st st' : St} {k : Nat} (h : penUnref st k = .ok st') : st'.wx = st.wx := by
  unfold penUnref at h
  split at h
  · cases h
  · split at h
    · cases h
    · split at h
      · cases h
      · simp only [pure_ok, Out.ok.injEq] at h; rw [← h]

theorem releaseWin_keeps {st st' : St} {w : Nat} (H : KeepingHandlers st) (h : releaseWin st w = .ok st') : KeepingHandlers st' := by
  unfold releaseWin at h
  simp only [bind_eq_ok] at h
  obtain ⟨st1, h1, h2⟩ := h
  have H0 : KeepingHandlers (setX st w { getX st w with binds := [] }) := H.setX w _ (fun b hb => by simp at hb)
  have H1 : KeepingHandlers st1 := by
    unfold dropWinPen at h1
    split at h1
    · simp only [pure_ok, Out.ok.injEq] at h1; rw [← h1]; exact H0
    · simp only [pure_ok, Out.ok.injEq] at h1; rw [← h1]; exact H0
    · exact H0.of_wx (penUnref_wx h1)
  have H2 : KeepingHandlers (setX st1 w { getX st1 w with pen := .null }) := H1.setX w _ (fun b hb => ⟨b, hb, rfl⟩)
  split at h2
  · split at h2
    · cases h2
    · unfold termUnref at h2
      split at h2
      · cases h2
      · split at h2
        · cases h2
        · simp only [pure_ok, Out.ok.injEq] at h2; rw [← h2]; exact H2.of_wx rfl
  · simp only [pure_ok, Out.ok.injEq] at h2; rw [← h2]; exact H2

theorem foldlM_releaseWin_keeps : ∀ (ws : List Nat) {st st' : St}, KeepingHandlers st → ws.foldlM releaseWin st = .ok st' →
    KeepingHandlers st'
  | [], st, st', H, h => by simp only [List.foldlM_nil, pure_ok, Out.ok.injEq] at h; rw [← h]; exact H
  | w :: rest, st, st', H, h => by
    simp only [List.foldlM_cons, bind_eq_ok] at h
    obtain ⟨st1, h1, h2⟩ := h
    exact foldlM_releaseWin_keeps rest (releaseWin_keeps H h1) h2

theorem unrefW_keeps {cfg : Cfg} {st st' : St} {w : Nat} (H : KeepingHandlers st) (h : unrefW cfg st w = .ok st') :
    KeepingHandlers st' := by
  unfold unrefW at h
  simp only [bind_eq_ok] at h
  obtain ⟨r, _, h2⟩ := h
  have H0 : KeepingHandlers { st with tree := r.1 } := H.of_wx rfl
  exact foldlM_releaseWin_keeps r.2.1 (consume_keeps r.2.2 H0) h2

theorem penRef_wx {st st' : St} {k : Nat} (h : penRef st k = .ok st') : st'.wx = st.wx := by
  unfold penRef at h
  split at h
  · cases h
  · split at h
    · cases h
    · simp only [pure_ok, Out.ok.injEq] at h; rw [← h]

theorem setPen_keeps {st st' : St} {w : Nat} {p : Option Nat} (H : KeepingHandlers st) (h : setPen st w p = .ok st') :
    KeepingHandlers st' := by
  unfold setPen at h
  simp only [bind_eq_ok] at h
  obtain ⟨_, _, st1, h1, h2⟩ := h
  have H1 : KeepingHandlers st1 := by
    unfold dropWinPen at h1
    split at h1
    · simp only [pure_ok, Out.ok.injEq] at h1; rw [← h1]; exact H
    · simp only [pure_ok, Out.ok.injEq] at h1; rw [← h1]; exact H
    · exact H.of_wx (penUnref_wx h1)
  have H2 : KeepingHandlers (setX st1 w { getX st1 w with pen := .null }) := H1.setX w _ (fun b hb => ⟨b, hb, rfl⟩)
  split at h2
  · unfold assignPen at h2
    simp only [bind_eq_ok] at h2
    obtain ⟨st2, h3, h4⟩ := h2
    simp only [pure_ok, Out.ok.injEq] at h4
    rw [← h4]
    exact (H2.of_wx (penRef_wx h3)).setX w _ (fun b hb => ⟨b, hb, rfl⟩)
  · simp only [pure_ok, Out.ok.injEq] at h2; rw [← h2]; exact H2

theorem newWin_keeps {st st' : St} {p : Nat} {r : Rect} {a b c d : Bool} {id : Nat} (H : KeepingHandlers st)
    (h : newWin st p r a b c d = .ok (st', id)) : KeepingHandlers st' := by
  unfold newWin at h
  simp only [bind_eq_ok] at h
  obtain ⟨_, _, t, _, h2⟩ := h
  simp only [pure_ok, Out.ok.injEq, Prod.mk.injEq] at h2
  rw [← h2.1]
  rw [KeepingHandlers.iff_elems] at H ⊢
  intro x hx
  simp only [Array.toList_push, Array.toList_append, List.mem_append, List.mem_singleton, Array.toList_replicate,
    List.mem_replicate] at hx
  rcases hx with (hx | ⟨_, hx⟩) | hx
  · exact H x hx
  · subst hx; intro b hb; simp at hb
  · subst hx; intro b hb; simp at hb

theorem skipR_ok {st st' : St} {r : String} (h : skipR st = .ok (st', r)) : st' = st := by
  simp only [skipR, pure_ok, Out.ok.injEq, Prod.mk.injEq] at h; exact h.1.symm

theorem okR_ok {x : Out St} {st' : St} {r : String} (h : okR x = .ok (st', r)) : x = .ok st' := by
  unfold okR at h
  simp only [bind_eq_ok, pure_ok, Out.ok.injEq, Prod.mk.injEq] at h
  obtain ⟨a, ha, hb, _⟩ := h
  rw [ha, hb]

theorem liftT_wx {st st' : St} {x : Out Tree} (h : liftT st x = .ok st') : st'.wx = st.wx := by
  unfold liftT at h
  simp only [bind_eq_ok, pure_ok, Out.ok.injEq] at h
  obtain ⟨t, _, ht⟩ := h
  rw [← ht]

theorem rbUpd_wx {st st' : St} {k : Nat} {f : RBObj → Out RBObj} {r : String} (h : rbUpd st k f = .ok (st', r)) : st'.wx = st.wx := by
  unfold rbUpd at h
  split at h
  · rw [skipR_ok h]
  · simp only [bind_eq_ok, pure_ok, Out.ok.injEq, Prod.mk.injEq] at h
    obtain ⟨b, _, hb, _⟩ := h
    rw [← hb]

theorem termUnref_wx {st st' : St} (h : termUnref st = .ok st') : st'.wx = st.wx := by
  unfold termUnref at h
  split at h
  · cases h
  · split at h
    · cases h
    · simp only [pure_ok, Out.ok.injEq] at h; rw [← h]

theorem strRef_wx {st st' : St} {k : Nat} (h : strRef st k = .ok st') : st'.wx = st.wx := by
  unfold strRef at h
  split at h
  · cases h
  · split at h
    · cases h
    · simp only [pure_ok, Out.ok.injEq] at h; rw [← h]

theorem strUnref_wx {st st' : St} {k : Nat} (h : strUnref st k = .ok st') : st'.wx = st.wx := by
  unfold strUnref at h
  split at h
  · cases h
  · split at h
    · cases h
    · split at h
      · simp only [pure_ok, Out.ok.injEq] at h; rw [← h]
      · simp only [pure_ok, Out.ok.injEq] at h; rw [← h]

theorem rbRef_wx {st st' : St} {k : Nat} (h : rbRef st k = .ok st') : st'.wx = st.wx := by
  unfold rbRef at h
  split at h
  · cases h
  · split at h
    · cases h
    · simp only [pure_ok, Out.ok.injEq] at h; rw [← h]

theorem rbUnref_wx {st st' : St} {k : Nat} (h : rbUnref st k = .ok st') : st'.wx = st.wx := by
  unfold rbUnref at h
  split at h
  · cases h
  · split at h
    · cases h
    · split at h
      · cases h
      · simp only [pure_ok, Out.ok.injEq] at h; rw [← h]

theorem refW_wx {st st' : St} {w : Nat} (h : refW st w = .ok st') : st'.wx = st.wx := by
  unfold refW at h
  simp only [bind_eq_ok, pure_ok, Out.ok.injEq] at h
  obtain ⟨_, _, ht⟩ := h
  rw [← ht]; rfl

theorem simpleOp_keeps_top {cfg : Cfg} {st st' : St} {a : Act} (H : KeepingHandlers st)
    (h : simpleOp cfg st a none = some (.ok st')) : KeepingHandlers st' := by
  cases a <;> simp only [simpleOp] at h
  case unref w =>
    split at h
    · simp only [Option.some.injEq] at h
      exact unrefW_keeps (H.setX w { getX st w with appRefs := (getX st w).appRefs - 1 } (fun b hb => ⟨b, hb, rfl⟩)) h
    · cases h
  case ref w =>
    split at h
    · simp only [Option.some.injEq] at h
      exact (H.setX w { getX st w with appRefs := (getX st w).appRefs + 1 } (fun b hb => ⟨b, hb, rfl⟩)).of_wx (refW_wx h)
    · cases h
  case close w =>
    split at h
    · simp only [Option.some.injEq] at h; exact H.of_wx (liftT_wx h)
    · cases h
  case restack c w =>
    split at h
    · simp only [Option.some.injEq] at h; exact H.of_wx (liftT_wx h)
    · cases h
  case hide w =>
    split at h
    · simp only [Option.some.injEq] at h; exact H.of_wx (liftT_wx h)
    · cases h
  case «show» w =>
    split at h
    · simp only [Option.some.injEq] at h; exact H.of_wx (liftT_wx h)
    · cases h
  case flush =>
    split at h
    · simp only [Option.some.injEq] at h; exact H.of_wx (liftT_wx h)
    · cases h
  case unbindSelf => cases h

/-- A handler-free operation binds nothing but what it says. -/
theorem step_plain_keeps {cfg : Cfg} {st st' : St} {op : Op} {r : String} (hp : op.plain = true) (H : KeepingHandlers st)
    (hb : ∀ w ev ret acts, op = .bind w ev ret acts → ∀ a ∈ acts, a.keeps = true)
    (h : step cfg st op = .ok (st', r)) : KeepingHandlers st' := by
  cases op <;> simp only [Op.plain, Bool.false_eq_true] at hp <;> (first | rw [step] at h | (unfold step at h; dsimp only at h))
  case newTerm lines cols mock =>
    simp only [pure_ok, Out.ok.injEq, Prod.mk.injEq] at h
    rw [← h.1]
    intro i b hbm
    unfold getX at hbm
    by_cases hi : i = 0
    · subst hi; simp at hbm
    · have : (#[({} : WinX)])[i]? = none := by
        apply Array.getElem?_eq_none; simp; omega
      simp only [this, Option.getD_none] at hbm
      simp at hbm
  case win p rc f =>
    split at h
    · rw [skipR_ok h]; exact H
    · simp only [bind_eq_ok, pure_ok, Out.ok.injEq, Prod.mk.injEq] at h
      obtain ⟨⟨st1, id⟩, h1, h2, _⟩ := h
      rw [← h2]; exact newWin_keeps H h1
  case act a =>
    split at h
    · rw [skipR_ok h]; exact H
    · rename_i x hx
      have := okR_ok h
      subst this
      exact simpleOp_keeps_top H hx
  case geom w rc =>
    split at h
    · rw [skipR_ok h]; exact H
    · exact H.of_wx (liftT_wx (okR_ok h))
  case expose w =>
    split at h
    · rw [skipR_ok h]; exact H
    · have := okR_ok h
      simp only [bind_eq_ok, pure_ok, Out.ok.injEq] at this
      obtain ⟨_, _, e⟩ := this
      rw [← e]; exact H
  case bind w ev ret acts =>
    split at h
    · rw [skipR_ok h]; exact H
    · simp only [bind_eq_ok, pure_ok, Out.ok.injEq, Prod.mk.injEq] at h
      obtain ⟨⟨st1, id⟩, h1, h2, _⟩ := h
      unfold bindEvent at h1
      simp only [bind_eq_ok, pure_ok, Out.ok.injEq, Prod.mk.injEq] at h1
      obtain ⟨_, _, e, _⟩ := h1
      rw [← h2, ← e]
      intro j b hbj
      rw [getX_setX] at hbj
      split at hbj
      · simp only [List.mem_append, List.mem_singleton] at hbj
        rcases hbj with hbj | hbj
        · exact H w b hbj
        · subst hbj; exact hb w ev ret acts rfl
      · exact H j b hbj
  case unbind w id =>
    split at h
    · rw [skipR_ok h]; exact H
    · have := okR_ok h
      unfold unbindEvent at this
      simp only [bind_eq_ok] at this
      obtain ⟨_, _, e⟩ := this
      split at e
      · simp only [pure_ok, Out.ok.injEq] at e
        rw [← e]
        refine H.setX w _ ?_
        intro b hbm
        simp only [List.mem_map] at hbm
        obtain ⟨b0, hb0, he⟩ := hbm
        refine ⟨b0, hb0, ?_⟩
        rw [← he]; split <;> rfl
      · simp only [pure_ok, Out.ok.injEq] at e
        rw [← e]
        exact H.setX w _ (fun b hbm => ⟨b, (List.mem_filter.1 hbm).1, rfl⟩)
  case pen =>
    simp only [pure_ok, Out.ok.injEq, Prod.mk.injEq] at h
    rw [← h.1]; exact H.of_wx rfl
  case pref k =>
    split at h
    · rw [skipR_ok h]; exact H
    · exact H.of_wx ((penRef_wx (okR_ok h)).trans rfl)
  case punref k =>
    split at h
    · rw [skipR_ok h]; exact H
    · exact H.of_wx ((penUnref_wx (okR_ok h)).trans rfl)
  case setpen w p =>
    split at h
    · rw [skipR_ok h]; exact H
    · split at h
      · split at h
        · rw [skipR_ok h]; exact H
        · exact setPen_keeps H (okR_ok h)
      · exact setPen_keeps H (okR_ok h)
  case tref =>
    split at h
    · rw [skipR_ok h]; exact H
    · simp only [pure_ok, Out.ok.injEq, Prod.mk.injEq] at h
      rw [← h.1]; exact H.of_wx rfl
  case tunref =>
    split at h
    · rw [skipR_ok h]; exact H
    · exact H.of_wx ((termUnref_wx (okR_ok h)).trans rfl)
  case str bytes =>
    simp only [pure_ok, Out.ok.injEq, Prod.mk.injEq] at h
    rw [← h.1]; exact H.of_wx rfl
  case sref k =>
    split at h
    · rw [skipR_ok h]; exact H
    · exact H.of_wx ((strRef_wx (okR_ok h)).trans rfl)
  case sunref k =>
    split at h
    · rw [skipR_ok h]; exact H
    · exact H.of_wx ((strUnref_wx (okR_ok h)).trans rfl)
  case sget k =>
    split at h
    · rw [skipR_ok h]; exact H
    · simp only [pure_ok, Out.ok.injEq, Prod.mk.injEq] at h
      rw [← h.1]; exact H
  case rb lines cols =>
    simp only [pure_ok, Out.ok.injEq, Prod.mk.injEq] at h
    rw [← h.1]; exact H.of_wx rfl
  case bref k =>
    split at h
    · rw [skipR_ok h]; exact H
    · exact H.of_wx ((rbRef_wx (okR_ok h)).trans rfl)
  case bunref k =>
    split at h
    · rw [skipR_ok h]; exact H
    · exact H.of_wx ((rbUnref_wx (okR_ok h)).trans rfl)
  case breset k => exact H.of_wx (rbUpd_wx h)
  case bsave k => exact H.of_wx (rbUpd_wx h)
  case bsavepen k => exact H.of_wx (rbUpd_wx h)
  case brestore k => exact H.of_wx (rbUpd_wx h)
  case bsetpen k p =>
    split at h
    · rw [skipR_ok h]; exact H
    · split at h
      · split at h
        · rw [skipR_ok h]; exact H
        · simp only [pure_ok, Out.ok.injEq, Prod.mk.injEq] at h; rw [← h.1]; exact H
      · simp only [pure_ok, Out.ok.injEq, Prod.mk.injEq] at h; rw [← h.1]; exact H
  case bflush k =>
    split at h
    · rw [skipR_ok h]; exact H
    · split at h
      · rw [skipR_ok h]; exact H
      · exact H.of_wx (rbUpd_wx h)
  case bcell k line col len =>
    split at h
    · rw [skipR_ok h]; exact H
    · dsimp only at h
      repeat' split at h
      all_goals first
        | (cases h; done)
        | (simp only [pure_ok, Out.ok.injEq, Prod.mk.injEq] at h; rw [← h.1]; exact H)
  case bspan k line col len =>
    split at h
    · rw [skipR_ok h]; exact H
    · dsimp only at h
      repeat' split at h
      all_goals first
        | (cases h; done)
        | (simp only [pure_ok, Out.ok.injEq, Prod.mk.injEq] at h; rw [← h.1]; exact H)

end Tickit.Life
