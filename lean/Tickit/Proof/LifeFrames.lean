import Tickit.Proof.LifeMouse
import Tickit.Proof.LifeTop
/-
  C08 proofs, part 9a: key events delivered to window handlers with ANY actions (`tickit_window_unref` included).

  The references the frames of `_handle_key` hold are carried as part of what the library holds (`Ghost`): the
  invariant `FK g st` says that every live window's count is exactly the application's tally plus `g.win`, that a window
  the frames hold is alive, and that the frames obey the stack discipline - a frame that holds a child holds its parent.
  A destroy cascade therefore never touches a window a frame holds: what it frees or drops lies below its start
  (`Casc.reach`), and a window below a start no frame holds is held by no frame.
-/
namespace Tickit.Life
open WinTree (Id Win Req Change Tree)

/-- The invariant while frames hold references (`g.win`) and handlers may free windows. -/
structure FK (g : Ghost) (st : St) : Prop where
  inv : SInv g st
  /-- every count is exact: nobody but the application and the library holds a window -/
  ex : ∀ (i : Nat) (w : Win), LiveW st.tree i w → ((getX st i).appRefs : Int) + (g.win i : Int) ≤ w.refcount
  /-- what the library holds is alive -/
  held : ∀ (i : Nat), 0 < g.win i → ∃ w, LiveW st.tree i w
  /-- the stack discipline -/
  disc : ∀ (c : Nat) (cw : Win) (p : Nat), LiveW st.tree c cw → cw.parent = some p → 0 < g.win c → 0 < g.win p

theorem FK.exact {g : Ghost} {st : St} (K : FK g st) {i : Nat} {w : Win} (hl : LiveW st.tree i w) :
    w.refcount = ((getX st i).appRefs : Int) + (g.win i : Int) := by
  have h1 := (K.inv.wref i w hl).1
  have h2 := K.ex i w hl
  omega

/-- Whoever lies below a window no frame holds is held by no frame. -/
theorem FK.reach_held {g : Ghost} {st : St} (K : FK g st) {h x : Nat} (hr : Reach st.tree h x) :
    ∀ (hw : Win), LiveW st.tree h hw → 0 < g.win h → 0 < g.win x := by
  induction hr with
  | refl => intro _ _ hg; exact hg
  | @step i p a w hwi hp _ ih =>
    intro hw hl hg
    have : w = hw := by rw [hl.1] at hwi; exact (Option.some.inj hwi).symm
    subst this
    obtain ⟨_, pw, hpl, _⟩ := K.inv.tinv.parent_ok i w hl p hp
    exact ih pw hpl (K.disc i w p hl hp hg)

/-- A new tree with the same windows alive, the same counts and no new parent link. -/
theorem FK.of_tree {g : Ghost} {st : St} (K : FK g st) {t' : Tree} (inv' : SInv g { st with tree := t' })
    (hlive : ∀ (i : Nat) (w : Win), LiveW st.tree i w → ∃ w', LiveW t' i w' ∧ w'.refcount = w.refcount)
    (hback : ∀ (i : Nat) (w' : Win), LiveW t' i w' → ∃ w, LiveW st.tree i w ∧ w'.refcount = w.refcount)
    (hps : PSub st.tree t') : FK g { st with tree := t' } := by
  refine ⟨inv', ?_, ?_, ?_⟩
  · intro i w' hl'
    obtain ⟨w, hl, hr⟩ := hback i w' hl'
    rw [hr]; exact K.ex i w hl
  · intro i hg
    obtain ⟨w, hl⟩ := K.held i hg
    obtain ⟨w', hl', _⟩ := hlive i w hl
    exact ⟨w', hl'⟩
  · intro c cw p hl' hp hg
    obtain ⟨w, hl, _⟩ := hback c cw hl'
    obtain ⟨w0, hw0, hp0⟩ := hps c cw p hl'.1 hp
    have : w0 = w := by rw [hl.1] at hw0; exact (Option.some.inj hw0).symm
    subst this
    exact K.disc c w0 p hl hp0 hg

/-- A rearrangement of the tree (hide, show, restack, flush, geometry). -/
theorem FK.of_rel {g : Ghost} {st : St} (K : FK g st) {t' : Tree} (hinv : TInv t') (hrel : TRel st.tree t')
    (hrc : SameRC st.tree t') : FK g { st with tree := t' } := by
  refine K.of_tree (K.inv.of_rel' hinv hrel hrc) ?_ ?_ ?_
  · intro i w hl
    obtain ⟨w', hl', _⟩ := hrel.live hl
    exact ⟨w', hl', hrc i w w' hl.1 hl'.1⟩
  · intro i w' hl'
    obtain ⟨w, hl, _⟩ := hrel.live_back hl'
    exact ⟨w, hl, hrc i w w' hl.1 hl'.1⟩
  · intro i w' p hw' hp'
    obtain ⟨w, hw, hr⟩ := hrel.back hw'
    exact ⟨w, hw, by rw [← hr.1]; exact hp'⟩

/-- `tickit_window_close`. -/
theorem FK.of_closed {g : Ghost} {st : St} (K : FK g st) {t' : Tree} {win : Nat} {ww : Win} (hw : LiveW st.tree win ww)
    (C : Closed st.tree t' win ww) : FK g { st with tree := t' } := by
  have hrec : ∀ (i : Nat) (w : Win), st.tree.wins[i]? = some w →
      ∃ w', t'.wins[i]? = some w' ∧ w'.freed = w.freed ∧ w'.refcount = w.refcount ∧ (∀ p, w'.parent = some p → w.parent = some p) := by
    intro i w hwi
    by_cases hi : i = win
    · subst hi
      have : w = ww := by rw [hw.1] at hwi; exact (Option.some.inj hwi).symm
      subst this
      exact ⟨_, C.win_now.1, rfl, rfl, fun p hp => by cases hp⟩
    · rcases C.others i w hi hwi with ⟨_, h⟩ | ⟨_, h⟩
      · exact ⟨w, h, rfl, rfl, fun _ hp => hp⟩
      · exact ⟨_, h, rfl, rfl, fun _ hp => hp⟩
  have hex : ∀ (i : Nat) (w' : Win), t'.wins[i]? = some w' → ∃ w, st.tree.wins[i]? = some w := by
    intro i w' hw'
    cases h0 : st.tree.wins[i]? with
    | some w => exact ⟨w, rfl⟩
    | none =>
      have hlt : ¬ i < st.tree.wins.size := by
        intro hlt
        have := Array.getElem?_eq_getElem (xs := st.tree.wins) hlt
        rw [h0] at this; cases this
      have : t'.wins[i]? = none := Array.getElem?_eq_none (by rw [C.size_eq]; omega)
      rw [hw'] at this; cases this
  refine K.of_tree (K.inv.of_closed hw C) ?_ ?_ ?_
  · intro i w hl
    obtain ⟨w', hw', hf, hr, _⟩ := hrec i w hl.1
    exact ⟨w', ⟨hw', by rw [hf]; exact hl.2⟩, hr⟩
  · intro i w' hl'
    obtain ⟨w, hwi⟩ := hex i w' hl'.1
    obtain ⟨w'', hw'', hf, hr, _⟩ := hrec i w hwi
    have : w'' = w' := by rw [hl'.1] at hw''; exact (Option.some.inj hw'').symm
    subst this
    exact ⟨w, ⟨hwi, by rw [← hf]; exact hl'.2⟩, hr⟩
  · intro i w' p hw' hp'
    obtain ⟨w, hwi⟩ := hex i w' hw'
    obtain ⟨w'', hw'', _, _, hpp⟩ := hrec i w hwi
    have : w'' = w' := by rw [hw'] at hw''; exact (Option.some.inj hw'').symm
    subst this
    exact ⟨w, hwi, hpp p hp'⟩

/-- A change of a window's record that keeps its pen and the application's tally. -/
theorem FK.setX_same {g : Ghost} {st : St} (K : FK g st) (i : Nat) (x : WinX) (hp : x.pen = (getX st i).pen)
    (ha : x.appRefs = (getX st i).appRefs) : FK g (setX st i x) := by
  have hget : ∀ j, (getX (setX st i x) j).appRefs = (getX st j).appRefs := by
    intro j
    rw [getX_setX]
    split
    · rename_i h; rw [ha, h.1]
    · rfl
  refine ⟨K.inv.setX_same i x hp ha, ?_, K.held, K.disc⟩
  intro j w hl
  rw [hget]; exact K.ex j w hl

/-! ## no mouse handler claims an event -/

/-- No handler bound on a mouse event returns true (`_handle_mouse` then returns no window). -/
def NoClaim (st : St) : Prop := ∀ (i : Nat) (b : Bind), b ∈ (getX st i).binds → b.ev = some .mouse → b.ret = false

theorem NoClaim.of_wx {st st' : St} (H : NoClaim st) (h : st'.wx = st.wx) : NoClaim st' := by
  intro i b hb; unfold getX at hb; rw [h] at hb; exact H i b hb

theorem NoClaim.setX {st : St} (H : NoClaim st) (i : Nat) (x : WinX)
    (hb : ∀ b ∈ x.binds, b.ev = some .mouse → b.ret = false) : NoClaim (setX st i x) := by
  intro j b hbj
  rw [getX_setX] at hbj
  split at hbj
  · exact hb b hbj
  · exact H j b hbj

theorem consume_nc : ∀ (dropped : List Nat) {st : St}, NoClaim st → NoClaim (consume st dropped)
  | [], _, H => H
  | d :: rest, st, H => by
    unfold consume
    rw [List.foldl_cons]
    exact consume_nc rest (H.setX d _ (fun b hb => H d b hb))

theorem releaseWin_nc {st st' : St} {w : Nat} (H : NoClaim st) (h : releaseWin st w = .ok st') : NoClaim st' := by
  unfold releaseWin at h
  simp only [bind_eq_ok] at h
  obtain ⟨st1, h1, h2⟩ := h
  have H0 : NoClaim (setX st w { getX st w with binds := [] }) := H.setX w _ (fun b hb => by simp at hb)
  have H1 : NoClaim st1 := by
    unfold dropWinPen at h1
    split at h1
    · simp only [pure_ok, Out.ok.injEq] at h1; rw [← h1]; exact H0
    · simp only [pure_ok, Out.ok.injEq] at h1; rw [← h1]; exact H0
    · exact H0.of_wx (penUnref_wx h1)
  have H2 : NoClaim (setX st1 w { getX st1 w with pen := .null }) := H1.setX w _ (fun b hb => H1 w b hb)
  split at h2
  · split at h2
    · cases h2
    · unfold termUnref at h2
      split at h2
      · cases h2
      · split at h2
        · cases h2
        · simp only [pure_ok, Out.ok.injEq] at h2; rw [← h2]; exact H2.of_wx rfl
  · simp only [pure_ok, Out.ok.injEq] at h2; rw [← h2]; exact H2

theorem foldlM_releaseWin_nc : ∀ (ws : List Nat) {st st' : St}, NoClaim st → ws.foldlM releaseWin st = .ok st' → NoClaim st'
  | [], st, st', H, h => by simp only [List.foldlM_nil, pure_ok, Out.ok.injEq] at h; rw [← h]; exact H
  | w :: rest, st, st', H, h => by
    simp only [List.foldlM_cons, bind_eq_ok] at h
    obtain ⟨st1, h1, h2⟩ := h
    exact foldlM_releaseWin_nc rest (releaseWin_nc H h1) h2

theorem unrefW_nc {cfg : Cfg} {st st' : St} {w : Nat} (H : NoClaim st) (h : unrefW cfg st w = .ok st') : NoClaim st' := by
  unfold unrefW at h
  simp only [bind_eq_ok] at h
  obtain ⟨r, _, h2⟩ := h
  have H0 : NoClaim { st with tree := r.1 } := H.of_wx rfl
  exact foldlM_releaseWin_nc r.2.1 (consume_nc r.2.2 H0) h2

/-- What every step of the routing does to the tree: it keeps its size, only removes parent links, and brings no
    window back to life. -/
structure Shr (st st' : St) : Prop where
  size : st'.tree.wins.size = st.tree.wins.size
  psub : PSub st.tree st'.tree
  back : ∀ (i : Nat) (w' : Win), LiveW st'.tree i w' → ∃ w, LiveW st.tree i w
  /-- a handler takes or drops no reference to the terminal for the application -/
  tapp : st'.term.appRefs = st.term.appRefs
  /-- no step binds anything: if nothing claimed a mouse event before, nothing does after -/
  nc : NoClaim st → NoClaim st'

theorem Shr.refl (st : St) : Shr st st := ⟨rfl, PSub.refl _, fun _ w h => ⟨w, h⟩, rfl, id⟩

theorem Shr.trans {a b c : St} (h1 : Shr a b) (h2 : Shr b c) : Shr a c :=
  ⟨h2.size.trans h1.size, h1.psub.trans h2.psub, fun i w' hl' => by
    obtain ⟨w, hl⟩ := h2.back i w' hl'
    exact h1.back i w hl, h2.tapp.trans h1.tapp, fun h => h2.nc (h1.nc h)⟩

theorem Shr.of_tree {st st' : St} (h : st'.tree = st.tree) (ht : st'.term.appRefs = st.term.appRefs)
    (hn : NoClaim st → NoClaim st') : Shr st st' :=
  ⟨by rw [h], by rw [h]; exact PSub.refl _, fun i w hl => ⟨w, by rw [← h]; exact hl⟩, ht, hn⟩

/-- A chain of parents after is one before. -/
theorem Shr.reach {st st' : St} (h : Shr st st') {i a : Nat} (hr : Reach st'.tree i a) : Reach st.tree i a := h.psub.reach hr

/-- `tickit_window_unref` by a handler (or the application) while frames hold references: the cascade, if there is
    one, starts at a window no frame holds and therefore touches none the frames hold; every child a dying parent
    drops is held by the application, so that the tally follows the count. -/
theorem unrefW_FK {cfg : Cfg} (R : Repaired cfg) {g : Ghost} {st : St} (K : FK g st) {x : Nat} (hh : heldW st x = true) :
    ∃ st', unrefW cfg (setX st x { getX st x with appRefs := (getX st x).appRefs - 1 }) x = .ok st' ∧ FK g st' ∧
      Shr st st' := by
  obtain ⟨xw, hxl, hpos⟩ := heldW_spec hh
  obtain ⟨st', hu, inv', hsz, _, _, _, dead, dropped, hcnt, happ, hreach, hsurv, hps, hlast, hdgt, hdeadf⟩ := unrefW_ok R K.inv hh
  refine ⟨st', hu, ?_, ⟨hsz, hps, fun i w' hl' => by obtain ⟨w, hl, _⟩ := hcnt i w' hl'; exact ⟨w, hl⟩, (unrefW_tally hu).tapp,
    fun h => unrefW_nc (h.setX x { getX st x with appRefs := (getX st x).appRefs - 1 } (fun b hb => h x b hb)) hu⟩⟩
  -- a cascade there is only if no frame holds `x`
  have hgx : (dead ≠ [] ∨ dropped ≠ []) → g.win x = 0 := by
    intro hne
    have h1 := hlast hne xw hxl
    have h2 := K.exact hxl
    have : (1 : Int) ≤ ((getX st x).appRefs : Int) := by exact_mod_cast hpos
    have h3 : (g.win x : Int) = 0 := by omega
    exact_mod_cast h3
  -- so whatever dies or is dropped is held by no frame
  have hfree : ∀ (i : Nat) (w : Win), LiveW st.tree i w → (i ∈ dead ∨ i ∈ dropped) → g.win i = 0 := by
    intro i w hl hi
    have hne : dead ≠ [] ∨ dropped ≠ [] := by
      rcases hi with h | h
      · exact .inl (List.ne_nil_of_mem h)
      · exact .inr (List.ne_nil_of_mem h)
    have hx0 := hgx hne
    rcases hreach i hi with ⟨hr, _⟩ | ⟨he, _⟩
    · apply Classical.byContradiction
      intro hg
      have := K.reach_held hr w hl (Nat.pos_of_ne_zero hg)
      omega
    · rw [he]; exact hx0
  have hlt : ∀ (i : Nat) (w : Win), LiveW st.tree i w → i < st.wx.size := fun i w hl => by rw [K.inv.wx_size]; exact hl.lt
  refine ⟨inv', ?_, ?_, ?_⟩
  · intro i w' hl'
    obtain ⟨w, hl, hrc⟩ := hcnt i w' hl'
    have happi := happ i (hlt i w hl)
    have hex := K.exact hl
    have hrc1 := inv'.rc i w' hl'
    by_cases hix : i = x
    · subst hix
      have hxd : i ∉ dropped := fun hd => by have := hdgt i hd; omega
      simp only [if_true, hxd, if_false] at hrc happi
      have : (1 : Int) ≤ ((getX st i).appRefs : Int) := by exact_mod_cast hpos
      omega
    · simp only [hix, if_false] at hrc happi
      by_cases hd : i ∈ dropped
      · simp only [hd, if_true] at hrc happi
        have hg0 := hfree i w hl (.inr hd)
        rw [hg0] at hex ⊢
        -- the child had two references at least, both the application's
        have : (2 : Int) ≤ ((getX st i).appRefs : Int) := by omega
        omega
      · simp only [hd, if_false] at hrc happi
        omega
  · intro i hg
    obtain ⟨w, hl⟩ := K.held i hg
    refine hsurv i w hl ?_
    intro hd
    have := hfree i w hl (.inl hd)
    omega
  · intro c cw p hl' hp hg
    obtain ⟨w, hl, _⟩ := hcnt c cw hl'
    obtain ⟨w0, hw0, hp0⟩ := hps c cw p hl'.1 hp
    have : w0 = w := by rw [hl.1] at hw0; exact (Option.some.inj hw0).symm
    subst this
    exact K.disc c w0 p hl hp0 hg

/-! ## the frames take and give back references -/

def Ghost.bumpW (g : Ghost) (w : Nat) : Ghost := { g with win := fun j => if j = w then g.win j + 1 else g.win j }
def Ghost.unbumpW (g : Ghost) (w : Nat) : Ghost := { g with win := fun j => if j = w then g.win j - 1 else g.win j }

@[simp] theorem Ghost.bumpW_self (g : Ghost) (w : Nat) : (g.bumpW w).win w = g.win w + 1 := by simp [Ghost.bumpW]
theorem Ghost.bumpW_ne (g : Ghost) {w j : Nat} (h : j ≠ w) : (g.bumpW w).win j = g.win j := by simp [Ghost.bumpW, h]
@[simp] theorem Ghost.unbumpW_self (g : Ghost) (w : Nat) : (g.unbumpW w).win w = g.win w - 1 := by simp [Ghost.unbumpW]
theorem Ghost.unbumpW_ne (g : Ghost) {w j : Nat} (h : j ≠ w) : (g.unbumpW w).win j = g.win j := by simp [Ghost.unbumpW, h]
theorem Ghost.unbump_bumpW (g : Ghost) (w : Nat) : (g.bumpW w).unbumpW w = g := by
  cases g
  simp only [Ghost.bumpW, Ghost.unbumpW, Ghost.mk.injEq, true_and]
  funext j
  split <;> simp_all

/-- A frame takes a reference on a live window whose parent (if it has one) a frame holds. -/
theorem FK.refI {g : Ghost} {st : St} (K : FK g st) {win : Nat} {ww : Win} (hw : LiveW st.tree win ww)
    (hpar : ∀ p, ww.parent = some p → 0 < g.win p) :
    ∃ st', refW st win = .ok st' ∧ FK (g.bumpW win) st' ∧ Shr st st' ∧ st'.wx = st.wx := by
  unfold refW
  simp only [getW, get_live hw, bind_ok, pure_ok]
  refine ⟨_, rfl, ?_, ⟨set_size _ _ _, ?_, ?_, rfl, fun h => h.of_wx rfl⟩, rfl⟩
  · have hex := K.exact hw
    have hl0 : LiveW (WinTree.set st.tree win { ww with refcount := ww.refcount + 1 }) win { ww with refcount := ww.refcount + 1 } :=
      ⟨set_get_self _ hw.lt, hw.2⟩
    have inv' : SInv (g.bumpW win) (setW st win { ww with refcount := ww.refcount + 1 }) := by
      refine K.inv.set_refcount hw (ww.refcount + 1) rfl (fun j hj => Ghost.bumpW_ne g hj) ⟨?_, fun _ => ?_⟩ (by have := K.inv.rc win ww hw; omega)
      · rw [Ghost.bumpW_self]; push_cast; omega
      · rw [Ghost.bumpW_self]; push_cast; omega
    refine ⟨inv', ?_, ?_, ?_⟩
    · intro i w' hl'
      have hl'' : LiveW (WinTree.set st.tree win { ww with refcount := ww.refcount + 1 }) i w' := hl'
      by_cases hi : win = i
      · subst hi
        have := LiveW.unique hl'' hl0; subst this
        show ((getX st win).appRefs : Int) + ((g.bumpW win).win win : Int) ≤ ww.refcount + 1
        rw [Ghost.bumpW_self]; push_cast; omega
      · rw [Ghost.bumpW_ne g (Ne.symm hi)]
        exact K.ex i w' ⟨by rw [← set_get_ne _ hi]; exact hl''.1, hl''.2⟩
    · intro i hg
      by_cases hi : win = i
      · subst hi; exact ⟨_, hl0⟩
      · rw [Ghost.bumpW_ne g (Ne.symm hi)] at hg
        obtain ⟨w, hl⟩ := K.held i hg
        exact ⟨w, by show (WinTree.set st.tree win _).wins[i]? = some w; rw [set_get_ne _ hi]; exact hl.1, hl.2⟩
    · intro c cw p hl' hp hg
      have hl'' : LiveW (WinTree.set st.tree win { ww with refcount := ww.refcount + 1 }) c cw := hl'
      have hgp : 0 < g.win p := by
        by_cases hc : win = c
        · subst hc
          have := LiveW.unique hl'' hl0; subst this
          exact hpar p hp
        · rw [Ghost.bumpW_ne g (Ne.symm hc)] at hg
          exact K.disc c cw p ⟨by rw [← set_get_ne _ hc]; exact hl''.1, hl''.2⟩ hp hg
      by_cases hpw : p = win
      · subst hpw; rw [Ghost.bumpW_self]; omega
      · rw [Ghost.bumpW_ne g hpw]; exact hgp
  · intro i w' p hw' hp'
    by_cases hi : win = i
    · subst hi
      have hw'' : (WinTree.set st.tree win { ww with refcount := ww.refcount + 1 }).wins[win]? = some w' := hw'
      rw [set_get_self _ hw.lt] at hw''; cases hw''
      exact ⟨ww, hw.1, hp'⟩
    · have hw'' : (WinTree.set st.tree win { ww with refcount := ww.refcount + 1 }).wins[i]? = some w' := hw'
      rw [set_get_ne _ hi] at hw''; exact ⟨w', hw'', hp'⟩
  · intro i w' hl'
    have hl'' : LiveW (WinTree.set st.tree win { ww with refcount := ww.refcount + 1 }) i w' := hl'
    by_cases hi : win = i
    · subst hi; exact ⟨ww, hw⟩
    · exact ⟨w', by rw [← set_get_ne _ hi]; exact hl''.1, hl''.2⟩

/-- A frame gives a reference back; if it was the last one the window is destroyed - no child of it being held. -/
theorem FK.unrefI {cfg : Cfg} (R : Repaired cfg) {g : Ghost} {st : St} (K : FK g st) {win : Nat} (hg : 0 < g.win win)
    (hch : g.win win = 1 → ∀ (c : Nat) (cw : Win), LiveW st.tree c cw → cw.parent = some win → g.win c = 0) :
    ∃ st', unrefW cfg st win = .ok st' ∧ FK (g.unbumpW win) st' ∧ Shr st st' := by
  obtain ⟨ww, hw⟩ := K.held win hg
  have hxlt : win < st.wx.size := by rw [K.inv.wx_size]; exact hw.lt
  let xp : WinX := { getX st win with appRefs := (getX st win).appRefs + 1 }
  have hsum : ∀ i, (((getX (setX st win xp) i).appRefs : Nat) : Int) + (((g.unbumpW win).win i : Nat) : Int) =
      ((getX st i).appRefs : Int) + (g.win i : Int) := by
    intro i
    rw [getX_setX]
    by_cases hi : win = i
    · subst hi
      simp only [hxlt, and_self, if_true, Ghost.unbumpW_self]
      show (((getX st win).appRefs + 1 : Nat) : Int) + ((g.win win - 1 : Nat) : Int) = _
      omega
    · simp only [hi, false_and, if_false]
      rw [Ghost.unbumpW_ne g (Ne.symm hi)]
  have invB : SInvB g (setX st win xp) [] := K.inv.toSInvB.of_wx rfl rfl rfl rfl rfl (setX_map_pen _ rfl)
  have KP : FK (g.unbumpW win) (setX st win xp) := by
    refine ⟨⟨⟨invB.tinv, invB.wx_size, invB.rc, invB.pend_nodup, invB.pend_freed, invB.dead_pen, invB.pens,
      invB.term_held, invB.term_free, invB.term_dead, invB.simple⟩, ?_, ?_⟩, ?_, ?_, ?_⟩
    · intro i w hl
      have hl' : LiveW st.tree i w := hl
      have h1 := K.exact hl'
      have := hsum i
      exact ⟨by omega, fun _ => by omega⟩
    · intro h0
      by_cases hi : win = 0
      · subst hi; exact ⟨ww, hw⟩
      · rw [Ghost.unbumpW_ne g (fun e => hi e.symm)] at h0
        exact K.inv.glive h0
    · intro i w hl
      have hl' : LiveW st.tree i w := hl
      have h1 := K.exact hl'
      have := hsum i
      omega
    · intro i hgi
      by_cases hi : win = i
      · subst hi; exact ⟨ww, hw⟩
      · rw [Ghost.unbumpW_ne g (Ne.symm hi)] at hgi
        exact K.held i hgi
    · intro c cw p hl hp hgc
      have hl' : LiveW st.tree c cw := hl
      have hgc' : 0 < g.win c := by
        by_cases hc : win = c
        · subst hc; exact hg
        · rw [Ghost.unbumpW_ne g (Ne.symm hc)] at hgc; exact hgc
      have hgp := K.disc c cw p hl' hp hgc'
      by_cases hpw : p = win
      · subst hpw
        rw [Ghost.unbumpW_self]
        apply Classical.byContradiction
        intro hn
        have h1 : g.win p = 1 := by omega
        have hc0 := hch h1 c cw hl' hp
        have hcp : c ≠ p := by
          have := (K.inv.tinv.parent_ok c cw hl' p hp).1
          omega
        rw [Ghost.unbumpW_ne g hcp] at hgc
        omega
      · rw [Ghost.unbumpW_ne g hpw]; exact hgp
  have hh : heldW (setX st win xp) win = true := by
    unfold heldW
    simp only [setX_tree, hw.1, hw.2, Bool.not_false, Bool.true_and, getX_setX_self _ hxlt]
    simp [xp]
  obtain ⟨st', hu, K', S'⟩ := unrefW_FK R KP hh
  have hback : setX (setX st win xp) win { getX (setX st win xp) win with appRefs := (getX (setX st win xp) win).appRefs - 1 } = st := by
    rw [getX_setX_self _ hxlt]
    have : ({ xp with appRefs := xp.appRefs - 1 } : WinX) = getX st win := by
      show ({ getX st win with appRefs := (getX st win).appRefs + 1 - 1 } : WinX) = getX st win
      rw [Nat.add_sub_cancel]
    rw [this]
    exact setX_setX_getX st win xp
  rw [hback] at hu
  exact ⟨st', hu, K', ⟨S'.size, S'.psub, S'.back, S'.tapp, fun h => S'.nc (h.setX win xp (fun b hb => h win b hb))⟩⟩

/-! ## what a handler does -/

theorem FK.set_log {g : Ghost} {st : St} (K : FK g st) (l : List String) : FK g { st with log := l } :=
  ⟨K.inv.of_log l, K.ex, K.held, K.disc⟩

/-- One call of a handler, whatever it is: skipped, or done with the invariant of the frames intact. -/
theorem simpleOp_FK {cfg : Cfg} (R : Repaired cfg) {g : Ghost} {st : St} (K : FK g st) (a : Act) (self : Option (Id × Int)) :
    simpleOp cfg st a self = none ∨ ∃ st', simpleOp cfg st a self = some (.ok st') ∧ FK g st' ∧ Shr st st' := by
  cases a <;> simp only [simpleOp]
  case unref w =>
    by_cases hh : heldW st w = true
    · right
      simp only [hh, if_true]
      obtain ⟨st', hu, K', S'⟩ := unrefW_FK R K hh
      exact ⟨st', by rw [hu], K', S'⟩
    · left; simp only [hh, Bool.false_eq_true, if_false]
  case ref w =>
    by_cases hh : heldW st w = true
    · right
      obtain ⟨ww, hw, _⟩ := heldW_spec hh
      simp only [hh, if_true]
      have hlt : w < st.wx.size := by rw [K.inv.wx_size]; exact hw.lt
      obtain ⟨st1, h1, inv1⟩ := refW_ok K.inv hw
      have hst1 : st1 = setW (setX st w { getX st w with appRefs := (getX st w).appRefs + 1 }) w { ww with refcount := ww.refcount + 1 } := by
        unfold refW at h1
        simp only [getW, setX_tree, get_live hw, bind_ok, pure_ok, Out.ok.injEq] at h1
        exact h1.symm
      have hl0 : LiveW (WinTree.set st.tree w { ww with refcount := ww.refcount + 1 }) w { ww with refcount := ww.refcount + 1 } :=
        ⟨set_get_self _ hw.lt, hw.2⟩
      refine ⟨st1, by rw [h1], ⟨inv1, ?_, ?_, ?_⟩, ?_⟩
      · intro i w' hl'
        rw [hst1] at hl' ⊢
        have hl'' : LiveW (WinTree.set st.tree w { ww with refcount := ww.refcount + 1 }) i w' := hl'
        show ((getX (setX st w { getX st w with appRefs := (getX st w).appRefs + 1 }) i).appRefs : Int) + _ ≤ _
        rw [getX_setX]
        by_cases hi : w = i
        · subst hi
          have := LiveW.unique hl'' hl0; subst this
          simp only [hlt, and_self, if_true]
          have := K.ex w ww hw
          show (((getX st w).appRefs + 1 : Nat) : Int) + (g.win w : Int) ≤ ww.refcount + 1
          omega
        · simp only [hi, false_and, if_false]
          exact K.ex i w' ⟨by rw [← set_get_ne _ hi]; exact hl''.1, hl''.2⟩
      · intro i hg
        rw [hst1]
        obtain ⟨wi, hli⟩ := K.held i hg
        by_cases hi : w = i
        · subst hi; exact ⟨_, hl0⟩
        · exact ⟨wi, by show (WinTree.set st.tree w _).wins[i]? = some wi; rw [set_get_ne _ hi]; exact hli.1, hli.2⟩
      · intro c cw p hl' hp hg
        rw [hst1] at hl'
        have hl'' : LiveW (WinTree.set st.tree w { ww with refcount := ww.refcount + 1 }) c cw := hl'
        by_cases hc : w = c
        · subst hc
          have := LiveW.unique hl'' hl0; subst this
          exact K.disc w ww p hw hp hg
        · exact K.disc c cw p ⟨by rw [← set_get_ne _ hc]; exact hl''.1, hl''.2⟩ hp hg
      · rw [hst1]
        refine ⟨set_size _ _ _, ?_, ?_, rfl, fun h =>
          (h.setX w { getX st w with appRefs := (getX st w).appRefs + 1 } (fun b hb => h w b hb)).of_wx rfl⟩
        · intro i w' p hw' hp'
          have hw'' : (WinTree.set st.tree w { ww with refcount := ww.refcount + 1 }).wins[i]? = some w' := hw'
          by_cases hi : w = i
          · subst hi
            rw [set_get_self _ hw.lt] at hw''; cases hw''
            exact ⟨ww, hw.1, hp'⟩
          · rw [set_get_ne _ hi] at hw''; exact ⟨w', hw'', hp'⟩
        · intro i w' hl'
          have hl'' : LiveW (WinTree.set st.tree w { ww with refcount := ww.refcount + 1 }) i w' := hl'
          by_cases hi : w = i
          · subst hi; exact ⟨ww, hw⟩
          · exact ⟨w', by rw [← set_get_ne _ hi]; exact hl''.1, hl''.2⟩
    · left; simp only [hh, Bool.false_eq_true, if_false]
  case close w =>
    by_cases hh : heldW st w = true
    · right
      obtain ⟨ww, hw, _⟩ := heldW_spec hh
      simp only [hh, if_true]
      obtain ⟨t', hc, C⟩ := closeT_ok R.closePurges R.dragForgottenOnClose K.inv.tinv hw
      have K' := K.of_closed hw C
      refine ⟨_, by rw [liftT_ok hc], K', ⟨C.size_eq, ?_, ?_, rfl, fun h => h.of_wx rfl⟩⟩
      · intro i w' p hw' hp'
        have hw'' : t'.wins[i]? = some w' := hw'
        cases h0 : st.tree.wins[i]? with
        | none =>
          have hlt : ¬ i < st.tree.wins.size := by
            intro hlt
            have := Array.getElem?_eq_getElem (xs := st.tree.wins) hlt
            rw [h0] at this; cases this
          have : t'.wins[i]? = none := Array.getElem?_eq_none (by rw [C.size_eq]; omega)
          rw [hw''] at this; cases this
        | some w0 =>
          by_cases hi : i = w
          · subst hi
            rw [C.win_now.1] at hw''; cases hw''
            cases hp'
          · rcases C.others i w0 hi h0 with ⟨_, h⟩ | ⟨_, h⟩
            · rw [hw''] at h; cases h; exact ⟨w', rfl, hp'⟩
            · rw [hw''] at h; cases h; exact ⟨w0, rfl, hp'⟩
      · intro i w' hl'
        have hl'' : LiveW t' i w' := hl'
        cases h0 : st.tree.wins[i]? with
        | none =>
          have hlt : ¬ i < st.tree.wins.size := by
            intro hlt
            have := Array.getElem?_eq_getElem (xs := st.tree.wins) hlt
            rw [h0] at this; cases this
          have : t'.wins[i]? = none := Array.getElem?_eq_none (by rw [C.size_eq]; omega)
          rw [hl''.1] at this; cases this
        | some w0 =>
          by_cases hi : i = w
          · subst hi; exact ⟨ww, hw⟩
          · rcases C.others i w0 hi h0 with ⟨_, h⟩ | ⟨_, h⟩
            · rw [hl''.1] at h; cases h; exact ⟨w', h0, hl''.2⟩
            · rw [hl''.1] at h; cases h; exact ⟨w0, h0, hl''.2⟩
    · left; simp only [hh, Bool.false_eq_true, if_false]
  case restack c w =>
    by_cases hh : (usableW st w && isRestack c) = true
    · right
      simp only [hh, if_true]
      simp only [Bool.and_eq_true] at hh
      obtain ⟨⟨ww, hw⟩, hreach⟩ := usableW_spec K.inv.tinv hh.1
      obtain ⟨t', hq, inv', hwins⟩ := request_ok K.inv.tinv hh.2 hw hreach
      have hrel : TRel st.tree t' := trel_of_wins hwins
      have K' := K.of_rel inv' hrel (SameRC.of_wins hwins)
      exact ⟨_, by rw [liftT_ok hq], K', ⟨by rw [hwins], PSub.of_wins hwins, fun i w' hl' => ⟨w', by rw [← hwins]; exact hl'.1, hl'.2⟩, rfl, fun h => h.of_wx rfl⟩⟩
    · left; simp only [hh, Bool.false_eq_true, if_false]
  case hide w =>
    by_cases hh : usableW st w = true
    · right
      simp only [hh, if_true]
      obtain ⟨⟨ww, hw⟩, _⟩ := usableW_spec K.inv.tinv hh
      obtain ⟨t', hq, inv', hrel, hrc⟩ := hideT_ok K.inv.tinv hw
      exact ⟨_, by rw [liftT_ok hq], K.of_rel inv' hrel hrc, ⟨hrel.1, fun i w' p hw' hp' => by
        obtain ⟨w0, hw0, hr⟩ := hrel.back hw'; exact ⟨w0, hw0, by rw [← hr.1]; exact hp'⟩,
        fun i w' hl' => by obtain ⟨w0, hl0, _⟩ := hrel.live_back hl'; exact ⟨w0, hl0⟩, rfl, fun h => h.of_wx rfl⟩⟩
    · left; simp only [hh, Bool.false_eq_true, if_false]
  case «show» w =>
    by_cases hh : usableW st w = true
    · right
      simp only [hh, if_true]
      obtain ⟨⟨ww, hw⟩, _⟩ := usableW_spec K.inv.tinv hh
      obtain ⟨t', hq, inv', hrel, hrc⟩ := showT_ok K.inv.tinv hw
      exact ⟨_, by rw [liftT_ok hq], K.of_rel inv' hrel hrc, ⟨hrel.1, fun i w' p hw' hp' => by
        obtain ⟨w0, hw0, hr⟩ := hrel.back hw'; exact ⟨w0, hw0, by rw [← hr.1]; exact hp'⟩,
        fun i w' hl' => by obtain ⟨w0, hl0, _⟩ := hrel.live_back hl'; exact ⟨w0, hl0⟩, rfl, fun h => h.of_wx rfl⟩⟩
    · left; simp only [hh, Bool.false_eq_true, if_false]
  case flush =>
    by_cases hh : heldW st 0 = true
    · right
      simp only [hh, if_true]
      obtain ⟨r, hr⟩ := heldW_live hh
      obtain ⟨t', hq, inv', hrel, _, _, hrc⟩ := flushT_ok K.inv.tinv hr
      exact ⟨_, by rw [liftT_ok hq], K.of_rel inv' hrel hrc, ⟨hrel.1, fun i w' p hw' hp' => by
        obtain ⟨w0, hw0, hr⟩ := hrel.back hw'; exact ⟨w0, hw0, by rw [← hr.1]; exact hp'⟩,
        fun i w' hl' => by obtain ⟨w0, hl0, _⟩ := hrel.live_back hl'; exact ⟨w0, hl0⟩, rfl, fun h => h.of_wx rfl⟩⟩
    · left; simp only [hh, Bool.false_eq_true, if_false]
  case unbindSelf =>
    cases self with
    | none => left; rfl
    | some p =>
      obtain ⟨w, id⟩ := p
      simp only
      by_cases hh : (usableW st w && (getX st w).binds.any (fun b => b.id = id && b.used)) = true
      · right
        rw [if_pos hh]
        simp only [Bool.and_eq_true] at hh
        obtain ⟨⟨ww, hw⟩, _⟩ := usableW_spec K.inv.tinv hh.1
        have hlt : w < st.wx.size := by rw [K.inv.wx_size]; exact hw.lt
        generalize hx1 : ({ getX st w with binds := (getX st w).binds.map (fun b => if b.id = id then { b with used := false } else b) } : WinX) = x1
        have hx1p : x1.pen = (getX st w).pen := by rw [← hx1]
        have hx1a : x1.appRefs = (getX st w).appRefs := by rw [← hx1]
        have K1 := K.setX_same w x1 hx1p hx1a
        have hw1 : LiveW (setX st w x1).tree w ww := hw
        have hg1 : getX (setX st w x1) w = x1 := getX_setX_self _ hlt
        unfold unbindEvent
        simp only [getW, get_live hw1, bind_ok, hg1]
        by_cases hit : x1.iterating = true
        · rw [if_pos hit]
          simp only [pure_ok]
          generalize hx2 : ({ x1 with binds := x1.binds.map (fun b => if b.id = id then { b with id := -1, ev := none } else b),
                                      needsDelete := x1.needsDelete || x1.binds.any (fun b => b.id = id) } : WinX) = x2
          have hx2p : x2.pen = (getX (setX st w x1) w).pen := by rw [← hx2, hg1]
          have hx2a : x2.appRefs = (getX (setX st w x1) w).appRefs := by rw [← hx2, hg1]
          refine ⟨_, rfl, K1.setX_same w x2 hx2p hx2a, Shr.of_tree rfl rfl (fun h => ?_)⟩
          have h1 : NoClaim (setX st w x1) := h.setX w x1 (fun b hb => by
            rw [← hx1] at hb
            simp only [List.mem_map] at hb
            obtain ⟨b0, hb0, he⟩ := hb
            have := h w b0 hb0
            rw [← he]; split <;> exact this)
          refine h1.setX w x2 (fun b hb => ?_)
          rw [← hx2] at hb
          simp only [List.mem_map] at hb
          obtain ⟨b0, hb0, he⟩ := hb
          have hb0' : b0 ∈ (getX (setX st w x1) w).binds := by rw [hg1]; exact hb0
          have := h1 w b0 hb0'
          rw [← he]; split
          · intro hc; cases hc
          · exact this
        · rw [if_neg hit]
          simp only [pure_ok]
          generalize hx2 : ({ x1 with binds := x1.binds.filter (fun b => b.id ≠ id) } : WinX) = x2
          have hx2p : x2.pen = (getX (setX st w x1) w).pen := by rw [← hx2, hg1]
          have hx2a : x2.appRefs = (getX (setX st w x1) w).appRefs := by rw [← hx2, hg1]
          refine ⟨_, rfl, K1.setX_same w x2 hx2p hx2a, Shr.of_tree rfl rfl (fun h => ?_)⟩
          have h1 : NoClaim (setX st w x1) := h.setX w x1 (fun b hb => by
            rw [← hx1] at hb
            simp only [List.mem_map] at hb
            obtain ⟨b0, hb0, he⟩ := hb
            have := h w b0 hb0
            rw [← he]; split <;> exact this)
          refine h1.setX w x2 (fun b hb => ?_)
          rw [← hx2] at hb
          have hb0' : b ∈ (getX (setX st w x1) w).binds := by rw [hg1]; exact (List.mem_filter.1 hb).1
          exact h1 w b hb0'
      · left; rw [if_neg hh]

theorem runActs_FK {cfg : Cfg} (R : Repaired cfg) {g : Ghost} (self : Id × Int) : ∀ (acts : List Act) {st : St}, FK g st →
    ∃ st', runActs cfg self st acts = .ok st' ∧ FK g st' ∧ Shr st st'
  | [], st, K => ⟨st, rfl, K, Shr.refl st⟩
  | a :: rest, st, K => by
    unfold runActs
    rcases simpleOp_FK R K a (some self) with h | ⟨st1, h, K1, S1⟩
    · simp only [h]
      exact runActs_FK R self rest K
    · simp only [h, bind_ok]
      obtain ⟨st2, h2, K2, S2⟩ := runActs_FK R self rest K1
      exact ⟨st2, h2, K2, S1.trans S2⟩

/-! ## `run_events_whilefalse` on a window a frame holds -/

theorem runBinds_go_FK {cfg : Cfg} (R : Repaired cfg) {g : Ghost} (win : Id) (ev : Ev) (tag : String) :
    ∀ (bs : List Bind) {st : St}, FK g st → ∃ st' b, runBinds.go cfg win ev tag st bs = .ok (st', b) ∧ FK g st' ∧ Shr st st'
  | [], st, K => ⟨st, false, rfl, K, Shr.refl st⟩
  | b :: rest, st, K => by
    unfold runBinds.go
    dsimp only
    cases hc : List.find? (fun c => decide (c.id = b.id ∧ b.id ≠ -1)) (getX st win).binds with
    | none => exact runBinds_go_FK R win ev tag rest K
    | some c =>
      dsimp only
      split
      · obtain ⟨st1, h1, K1, S1⟩ := runActs_FK R (win, c.id) c.acts (K.set_log (st.log ++ [tag]))
        have S0 : Shr st { st with log := st.log ++ [tag] } := Shr.of_tree rfl rfl (fun h => h.of_wx rfl)
        simp only [h1, bind_ok]
        split
        · exact ⟨st1, true, rfl, K1, S0.trans S1⟩
        · obtain ⟨st2, b2, h2, K2, S2⟩ := runBinds_go_FK R win ev tag rest K1
          exact ⟨st2, b2, h2, K2, (S0.trans S1).trans S2⟩
      · exact runBinds_go_FK R win ev tag rest K

/-- `run_events_whilefalse(win, ev, info)` with handlers that may do anything, `win` being held by a frame. -/
theorem runBinds_FK {cfg : Cfg} (R : Repaired cfg) {g : Ghost} {st : St} (K : FK g st) {win : Nat} (hg : 0 < g.win win)
    (ev : Ev) (tag : String) : ∃ st' b, runBinds cfg st win ev tag = .ok (st', b) ∧ FK g st' ∧ Shr st st' := by
  obtain ⟨ww, hw⟩ := K.held win hg
  unfold runBinds
  simp only [getW, get_live hw, bind_ok]
  have K1 := K.setX_same win { getX st win with iterating := true } rfl rfl
  obtain ⟨st2, b2, h2, K2, S2⟩ := runBinds_go_FK R win ev tag (getX st win).binds K1
  simp only [h2, bind_ok]
  obtain ⟨w2, hw2⟩ := K2.held win hg
  simp only [get_live hw2, bind_ok, pure_ok]
  generalize hx : (if (!(getX st win).iterating && (getX st2 win).needsDelete) = true then
      ({ pen := (getX st2 win).pen, binds := List.filter (fun b => decide (b.id ≠ -1)) (getX st2 win).binds,
         iterating := (getX st win).iterating, appRefs := (getX st2 win).appRefs } : WinX)
    else { pen := (getX st2 win).pen, binds := (getX st2 win).binds, iterating := (getX st win).iterating,
           needsDelete := (getX st2 win).needsDelete, appRefs := (getX st2 win).appRefs }) = x
  have hxp : x.pen = (getX st2 win).pen := by rw [← hx]; split <;> rfl
  have hxa : x.appRefs = (getX st2 win).appRefs := by rw [← hx]; split <;> rfl
  have hxb : ∀ b ∈ x.binds, b ∈ (getX st2 win).binds := by
    rw [← hx]; split
    · intro b hb; exact (List.mem_filter.1 hb).1
    · intro b hb; exact hb
  have S1 : Shr st (setX st win { getX st win with iterating := true }) :=
    Shr.of_tree rfl rfl (fun h => h.setX win _ (fun b hb => h win b hb))
  have S3 : Shr st2 (setX st2 win x) := Shr.of_tree rfl rfl (fun h => h.setX win x (fun b hb => h win b (hxb b hb)))
  exact ⟨_, _, rfl, K2.setX_same win x hxp hxa, (S1.trans S2).trans S3⟩

/-! ## nothing below the window of a frame is held when the frame starts -/

/-- No window strictly below `win` is held. -/
def BelowFree (g : Ghost) (st : St) (win : Nat) : Prop :=
  ∀ (d : Nat) (dw : Win), LiveW st.tree d dw → Reach st.tree d win → d ≠ win → g.win d = 0

theorem BelowFree.later {g : Ghost} {st st' : St} {win : Nat} (h : BelowFree g st win) (S : Shr st st') : BelowFree g st' win := by
  intro d dw hl hr hne
  obtain ⟨w, hlw⟩ := S.back d dw hl
  exact h d w hlw (S.reach hr) hne

/-- An ancestor is older. -/
theorem reach_le {t : Tree} (inv : TInv t) {d a : Nat} (hr : Reach t d a) : ∀ (dw : Win), LiveW t d dw → a ≤ d := by
  induction hr with
  | refl => intro _ _; exact Nat.le_refl _
  | @step i p a w hwi hp _ ih =>
    intro dw hl
    have : w = dw := by rw [hl.1] at hwi; exact (Option.some.inj hwi).symm
    subst this
    obtain ⟨hlt, pw, hpl, _⟩ := inv.parent_ok i w hl p hp
    have := ih pw hpl
    omega

/-- What lies strictly below a child of `win` lies strictly below `win`. -/
theorem BelowFree.child {g : Ghost} {st : St} {win c : Nat} {cw : Win} (inv : TInv st.tree) (h : BelowFree g st win)
    (hc : LiveW st.tree c cw) (hp : cw.parent = some win) : BelowFree g st c := by
  intro d dw hl hr hne
  have hlt := (inv.parent_ok c cw hc win hp).1
  have hle := reach_le inv hr dw hl
  exact h d dw hl (hr.trans (.step hc.1 hp (.refl win))) (by omega)

/-! ## the snapshot of the children -/

def Ghost.plus (g : Ghost) (cnt : Nat → Nat) : Ghost := { g with win := fun j => g.win j + cnt j }

@[simp] theorem Ghost.plus_win (g : Ghost) (cnt : Nat → Nat) (j : Nat) : (g.plus cnt).win j = g.win j + cnt j := rfl

theorem Ghost.plus_zero (g : Ghost) : g.plus (fun _ => 0) = g := by cases g; rfl

theorem Ghost.bump_plus (g : Ghost) (c : Nat) (rest : List Nat) :
    (g.bumpW c).plus (fun j => rest.count j) = g.plus (fun j => (c :: rest).count j) := by
  cases g
  simp only [Ghost.bumpW, Ghost.plus, Ghost.mk.injEq, true_and]
  funext j
  rw [List.count_cons]
  by_cases hj : j = c
  · subst hj; simp; omega
  · have : ¬ (c == j) = true := by simpa using fun h => hj h.symm
    simp [hj, this]

theorem Ghost.plus_unbump (g : Ghost) (c : Nat) (rest : List Nat) :
    (g.plus (fun j => (c :: rest).count j)).unbumpW c = g.plus (fun j => rest.count j) := by
  rw [← Ghost.bump_plus]
  cases g
  simp only [Ghost.bumpW, Ghost.plus, Ghost.unbumpW, Ghost.mk.injEq, true_and]
  funext j
  by_cases hj : j = c
  · subst hj; simp
  · simp [hj]

/-- `tickit_window_ref` changes a count and nothing else. -/
theorem refW_same {st st' : St} {win : Nat} (h : refW st win = .ok st') :
    st'.wx = st.wx ∧ ∀ (i : Nat) (w : Win), LiveW st.tree i w → ∃ w', LiveW st'.tree i w' ∧ w'.parent = w.parent := by
  unfold refW at h
  simp only [bind_eq_ok] at h
  obtain ⟨ww, hg, h2⟩ := h
  simp only [pure_ok, Out.ok.injEq] at h2
  subst h2
  have hw := get_ok hg
  refine ⟨rfl, ?_⟩
  intro i w hl
  by_cases hi : win = i
  · subst hi
    have := LiveW.unique hl hw; subst this
    exact ⟨_, ⟨set_get_self _ hw.lt, hw.2⟩, rfl⟩
  · exact ⟨w, ⟨by show (WinTree.set st.tree win _).wins[i]? = some w; rw [set_get_ne _ hi]; exact hl.1, hl.2⟩, rfl⟩

theorem foldl_refW_FK : ∀ (cs : List Nat) {st : St} {g : Ghost}, FK g st →
    (∀ c ∈ cs, ∃ cw, LiveW st.tree c cw ∧ ∀ p, cw.parent = some p → 0 < g.win p) →
    ∃ st', cs.foldlM refW st = .ok st' ∧ FK (g.plus (fun j => cs.count j)) st' ∧ Shr st st' ∧ st'.wx = st.wx ∧
      (∀ (i : Nat) (w : Win), LiveW st.tree i w → ∃ w', LiveW st'.tree i w' ∧ w'.parent = w.parent)
  | [], st, g, K, _ => ⟨st, rfl, by simpa [Ghost.plus_zero] using K, Shr.refl st, rfl, fun _ w h => ⟨w, h, rfl⟩⟩
  | c :: rest, st, g, K, hl => by
    obtain ⟨cw, hc, hpar⟩ := hl c (by simp)
    obtain ⟨st1, h1, K1, S1, hx1⟩ := K.refI hc hpar
    obtain ⟨_, hsame1⟩ := refW_same h1
    simp only [List.foldlM_cons, h1, bind_ok]
    obtain ⟨st2, h2, K2, S2, hx2, hsame2⟩ := foldl_refW_FK rest K1 (fun x hx => by
      obtain ⟨xw, hxl, hxp⟩ := hl x (by simp [hx])
      obtain ⟨xw', hxl', hpe⟩ := hsame1 x xw hxl
      refine ⟨xw', hxl', fun p hp => ?_⟩
      have := hxp p (by rw [← hpe]; exact hp)
      by_cases hpc : p = c
      · subst hpc; rw [Ghost.bumpW_self]; omega
      · rw [Ghost.bumpW_ne g hpc]; exact this)
    rw [Ghost.bump_plus] at K2
    refine ⟨st2, h2, K2, S1.trans S2, hx2.trans hx1, ?_⟩
    intro i w hli
    obtain ⟨w1, hl1, hp1⟩ := hsame1 i w hli
    obtain ⟨w2, hl2, hp2⟩ := hsame2 i w1 hl1
    exact ⟨w2, hl2, hp2.trans hp1⟩

/-- The snapshot is given back: each member loses the reference the frame held; the last reference of a member a
    handler has dropped meanwhile destroys it - no child of it being held. -/
theorem foldl_unrefW_FK {cfg : Cfg} (R : Repaired cfg) {g : Ghost} : ∀ (cs : List Nat) {st : St},
    FK (g.plus (fun j => cs.count j)) st →
    (∀ c ∈ cs, ∀ (d : Nat) (dw : Win), LiveW st.tree d dw → dw.parent = some c → g.win d = 0 ∧ d ∉ cs) →
    ∃ st', cs.foldlM (unrefW cfg) st = .ok st' ∧ FK g st' ∧ Shr st st'
  | [], st, K, _ => ⟨st, rfl, by simpa [Ghost.plus_zero] using K, Shr.refl st⟩
  | c :: rest, st, K, hfree => by
    have hg : 0 < (g.plus (fun j => (c :: rest).count j)).win c := by simp; omega
    obtain ⟨st1, h1, K1, S1⟩ := K.unrefI R hg (by
      intro _ d dw hld hpd
      obtain ⟨h0, hni⟩ := hfree c (by simp) d dw hld hpd
      simp only [Ghost.plus_win, h0, Nat.zero_add]
      exact List.count_eq_zero.2 hni)
    rw [Ghost.plus_unbump] at K1
    simp only [List.foldlM_cons, h1, bind_ok]
    obtain ⟨st2, h2, K2, S2⟩ := foldl_unrefW_FK R rest K1 (by
      intro c' hc' d dw hld hpd
      obtain ⟨w0, hl0⟩ := S1.back d dw hld
      obtain ⟨w1, hw1, hp1⟩ := S1.psub d dw c' hld.1 hpd
      have : w1 = w0 := by rw [hl0.1] at hw1; exact (Option.some.inj hw1).symm
      subst this
      obtain ⟨h0, hni⟩ := hfree c' (by simp [hc']) d w1 hl0 hp1
      exact ⟨h0, fun hm => hni (by simp [hm])⟩)
    exact ⟨st2, h2, K2, S1.trans S2⟩

/-! ## `_handle_key` -/

/-- What the frames below give: a recursive call on a child of `win` - `win` being held, nothing strictly below the
    child being held - succeeds and gives back every reference it took. -/
def RecF (recK : St → Id → Out (St × Bool)) (win : Nat) (N : Nat) : Prop :=
  ∀ {st : St} {g : Ghost} {child : Nat} {cw : Win}, FK g st → LiveW st.tree child cw → cw.parent = some win → 0 < g.win win →
    BelowFree g st child → st.tree.wins.size = N → ∃ st' b, recK st child = .ok (st', b) ∧ FK g st' ∧ Shr st st'

/-- A child of `win` is not strictly below another child of `win`. -/
theorem not_below_sibling {t : Tree} (inv : TInv t) {win d c : Nat} {dw cw : Win} (hd : LiveW t d dw) (hdp : dw.parent = some win)
    (hc : LiveW t c cw) (hcp : cw.parent = some win) (hr : Reach t d c) : d = c := by
  cases hr with
  | refl => rfl
  | step hw hp hr' =>
    rw [hd.1] at hw; cases hw
    rw [hdp] at hp; cases hp
    obtain ⟨hlt, pw, hpl, _⟩ := inv.parent_ok c cw hc win hcp
    have := reach_le inv hr' pw hpl
    omega

theorem keyLoop_FK {recK : St → Id → Out (St × Bool)} {win : Nat} {N : Nat} (hrec : RecF recK win N) :
    ∀ (cs : List Nat) {st : St} {g : Ghost}, FK g st → 0 < g.win win → (∀ c ∈ cs, 0 < g.win c) →
    (∀ c ∈ cs, BelowFree g st c) → st.tree.wins.size = N →
    ∃ st' b, keyLoop recK win st cs = .ok (st', b) ∧ FK g st' ∧ Shr st st'
  | [], st, g, K, _, _, _, _ => ⟨st, false, by rw [keyLoop]; rfl, K, Shr.refl st⟩
  | child :: rest, st, g, K, hgw, hgc, hbf, hN => by
    obtain ⟨cw, hc⟩ := K.held child (hgc child (by simp))
    obtain ⟨w, hw⟩ := K.held win hgw
    have hgrest : ∀ c ∈ rest, 0 < g.win c := fun x hx => hgc x (by simp [hx])
    have hbrest : ∀ c ∈ rest, BelowFree g st c := fun x hx => hbf x (by simp [hx])
    rw [keyLoop]
    simp only [getW, get_live hc, bind_ok]
    by_cases hp : cw.parent ≠ some win
    · rw [if_pos hp]
      exact keyLoop_FK hrec rest K hgw hgrest hbrest hN
    · rw [if_neg hp]
      have hp' : cw.parent = some win := by
        cases h : cw.parent with
        | none => rw [h] at hp; simp at hp
        | some p => rw [h] at hp; simpa using hp
      simp only [get_live hw, bind_ok]
      by_cases hf : w.focusedChild = some child
      · rw [if_pos hf]
        exact keyLoop_FK hrec rest K hgw hgrest hbrest hN
      · rw [if_neg hf]
        obtain ⟨st1, b1, h1, K1, S1⟩ := hrec K hc hp' hgw (hbf child (by simp)) hN
        simp only [h1, bind_ok]
        by_cases hb : b1 = true
        · simp only [hb, if_true, pure_ok]
          exact ⟨st1, true, rfl, K1, S1⟩
        · have hb' : b1 = false := by cases b1 <;> simp_all
          simp only [hb', Bool.false_eq_true, if_false]
          obtain ⟨st2, b2, h2, K2, S2⟩ := keyLoop_FK hrec rest K1 hgw hgrest (fun c hc' => (hbrest c hc').later S1) (S1.size.trans hN)
          exact ⟨st2, b2, h2, K2, S1.trans S2⟩

theorem kStage4_FK {cfg : Cfg} (R : Repaired cfg) {win : Nat} {r4 : St × Bool} {g : Ghost} (K : FK (g.bumpW win) r4.1)
    (hbf : BelowFree (g.bumpW win) r4.1 win) :
    ∃ st' b, kStage4 cfg win r4 = .ok (st', b) ∧ FK g st' ∧ Shr r4.1 st' := by
  unfold kStage4
  obtain ⟨st1, h1, K1, S1⟩ := K.unrefI R (win := win) (by simp) (by
    intro _ c cw hcl hcp
    have hlt := (K.inv.tinv.parent_ok c cw hcl win hcp).1
    exact hbf c cw hcl (.step hcl.1 hcp (.refl win)) (by omega))
  rw [Ghost.unbump_bumpW] at K1
  simp only [h1, bind_ok, pure_ok]
  exact ⟨st1, r4.2, rfl, K1, S1⟩

theorem kStage3_FK {cfg : Cfg} (R : Repaired cfg) {recK : St → Id → Out (St × Bool)} {win : Nat} {N : Nat} (hrec : RecF recK win N)
    {r3 : St × Bool} {g : Ghost} (K : FK (g.bumpW win) r3.1) (hbf : BelowFree (g.bumpW win) r3.1 win)
    (hN : r3.1.tree.wins.size = N) :
    ∃ st' b, kStage3 cfg recK win r3 = .ok (st', b) ∧ FK g st' ∧ Shr r3.1 st' := by
  unfold kStage3
  by_cases hb : r3.2 = true
  · rw [if_pos hb]
    exact kStage4_FK R (r4 := (r3.1, true)) K hbf
  · rw [if_neg hb]
    have hgw : 0 < (g.bumpW win).win win := by simp
    obtain ⟨w, hwl⟩ := K.held win hgw
    unfold refChildren
    simp only [getW, get_live hwl, bind_ok]
    have hch : ∀ c ∈ w.children, ∃ cw, LiveW r3.1.tree c cw ∧ cw.parent = some win := fun c hc =>
      K.inv.tinv.child_ok win w hwl c hc
    obtain ⟨st1, h1, K1, S1, hx1, hsame1⟩ := foldl_refW_FK w.children K (fun c hc => by
      obtain ⟨cw, hcl, hcp⟩ := hch c hc
      exact ⟨cw, hcl, fun p hp => by rw [hcp] at hp; cases hp; exact hgw⟩)
    simp only [h1, bind_ok, pure_ok]
    -- the members of the snapshot in the state after it
    have hch1 : ∀ c ∈ w.children, ∃ cw, LiveW st1.tree c cw ∧ cw.parent = some win := fun c hc => by
      obtain ⟨cw, hcl, hcp⟩ := hch c hc
      obtain ⟨cw', hcl', hpe⟩ := hsame1 c cw hcl
      exact ⟨cw', hcl', by rw [hpe]; exact hcp⟩
    have hbf1 : BelowFree (g.bumpW win) st1 win := hbf.later S1
    -- nothing strictly below a member is held, the snapshot included
    have hbfc : ∀ c ∈ w.children, BelowFree ((g.bumpW win).plus (fun j => w.children.count j)) st1 c := by
      intro c hc d dw hld hr hne
      obtain ⟨cw, hcl, hcp⟩ := hch1 c hc
      have h0 := (hbf1.child K1.inv.tinv hcl hcp) d dw hld hr hne
      simp only [Ghost.plus_win, h0, Nat.zero_add]
      apply List.count_eq_zero.2
      intro hdm
      obtain ⟨dw', hdl', hdp⟩ := hch1 d hdm
      have := LiveW.unique hld hdl'; subst this
      exact hne (not_below_sibling K1.inv.tinv hld hdp hcl hcp hr)
    obtain ⟨st2, b2, h2, K2, S2⟩ := keyLoop_FK hrec w.children K1 (by simp; omega) (fun c hc => by
        simp only [Ghost.plus_win]
        have := List.count_pos_iff.2 hc
        omega) hbfc (S1.size.trans hN)
    simp only [h2, bind_ok]
    unfold unrefChildren
    obtain ⟨st3, h3, K3, S3⟩ := foldl_unrefW_FK R (g := g.bumpW win) w.children K2 (by
      intro c hc d dw hld hpd
      obtain ⟨cw, hcl, hcp⟩ := hch1 c hc
      -- `d` was a child of `c` when the snapshot was taken
      obtain ⟨d1, hdl1⟩ := S2.back d dw hld
      obtain ⟨d1', hd1', hp1⟩ := S2.psub d dw c hld.1 hpd
      have : d1' = d1 := by rw [hdl1.1] at hd1'; exact (Option.some.inj hd1').symm
      subst this
      have hcd := (K1.inv.tinv.parent_ok d d1' hdl1 c hp1).1
      have hwc := (K1.inv.tinv.parent_ok c cw hcl win hcp).1
      refine ⟨hbf1 d d1' hdl1 (.step hdl1.1 hp1 (.step hcl.1 hcp (.refl win))) (by omega), ?_⟩
      intro hdm
      obtain ⟨dw', hdl', hdp⟩ := hch1 d hdm
      have := LiveW.unique hdl1 hdl'; subst this
      rw [hp1] at hdp; cases hdp
      omega)
    simp only [h3, bind_ok]
    obtain ⟨st4, b4, h4, K4, S4⟩ := kStage4_FK R (r4 := (st3, b2)) K3 (hbf.later ((S1.trans S2).trans S3))
    exact ⟨st4, b4, h4, K4, ((S1.trans S2).trans S3).trans S4⟩

theorem kStage2_FK {cfg : Cfg} (R : Repaired cfg) {recK : St → Id → Out (St × Bool)} {win : Nat} {N : Nat} (hrec : RecF recK win N)
    {r2 : St × Bool} {g : Ghost} (K : FK (g.bumpW win) r2.1) (hbf : BelowFree (g.bumpW win) r2.1 win)
    (hN : r2.1.tree.wins.size = N) :
    ∃ st' b, kStage2 cfg recK win r2 = .ok (st', b) ∧ FK g st' ∧ Shr r2.1 st' := by
  unfold kStage2
  by_cases hb : r2.2 = true
  · rw [if_pos hb]
    exact kStage3_FK R hrec (r3 := (r2.1, true)) K hbf hN
  · rw [if_neg hb]
    have hgw : 0 < (g.bumpW win).win win := by simp
    obtain ⟨w, hwl⟩ := K.held win hgw
    obtain ⟨sh, hsh⟩ := isShown_ok K.inv.tinv win w hwl _ (chainFuel_gt hwl)
    simp only [isShownW, hsh, bind_ok]
    by_cases hs : sh = true
    · rw [if_pos hs]
      obtain ⟨st1, b1, h1, K1, S1⟩ := runBinds_FK R K hgw .key (logKey win)
      simp only [h1, bind_ok]
      obtain ⟨st2, b2, h2, K2, S2⟩ := kStage3_FK R hrec (r3 := (st1, b1)) K1 (hbf.later S1) (S1.size.trans hN)
      exact ⟨st2, b2, h2, K2, S1.trans S2⟩
    · rw [if_neg hs]
      exact kStage3_FK R hrec (r3 := (r2.1, false)) K hbf hN

theorem kStage1_FK {cfg : Cfg} (R : Repaired cfg) {recK : St → Id → Out (St × Bool)} {win : Nat} {N : Nat} (hrec : RecF recK win N)
    {r1 : St × Bool} {g : Ghost} (K : FK (g.bumpW win) r1.1) (hbf : BelowFree (g.bumpW win) r1.1 win)
    (hN : r1.1.tree.wins.size = N) :
    ∃ st' b, kStage1 cfg recK win r1 = .ok (st', b) ∧ FK g st' ∧ Shr r1.1 st' := by
  unfold kStage1
  by_cases hb : r1.2 = true
  · rw [if_pos hb]
    exact kStage2_FK R hrec (r2 := (r1.1, true)) K hbf hN
  · rw [if_neg hb]
    have hgw : 0 < (g.bumpW win).win win := by simp
    obtain ⟨w, hwl⟩ := K.held win hgw
    simp only [getW, get_live hwl, bind_ok]
    cases hf : w.focusedChild with
    | none => exact kStage2_FK R hrec (r2 := (r1.1, false)) K hbf hN
    | some fc =>
      simp only
      obtain ⟨cw, hcl, hcp⟩ := K.inv.tinv.child_ok win w hwl fc (K.inv.tinv.focus_ok win w hwl fc hf)
      obtain ⟨st1, b1, h1, K1, S1⟩ := hrec K hcl hcp hgw (hbf.child K.inv.tinv hcl hcp) hN
      simp only [h1, bind_ok]
      obtain ⟨st2, b2, h2, K2, S2⟩ := kStage2_FK R hrec (r2 := (st1, b1)) K1 (hbf.later S1) (S1.size.trans hN)
      exact ⟨st2, b2, h2, K2, S1.trans S2⟩

/-- The body of `_handle_key` with handlers that may do anything, the frames below being in order. -/
theorem handleKeyBody_FK {cfg : Cfg} (R : Repaired cfg) {recK : St → Id → Out (St × Bool)} {win : Nat} {N : Nat} (hrec : RecF recK win N)
    {st : St} {g : Ghost} (K : FK g st) {ww : Win} (hw : LiveW st.tree win ww) (hpar : ∀ p, ww.parent = some p → 0 < g.win p)
    (hbf : BelowFree g st win) (hN : st.tree.wins.size = N) :
    ∃ st' b, handleKeyBody cfg recK st win = .ok (st', b) ∧ FK g st' ∧ Shr st st' := by
  rw [handleKeyBody_eq]
  obtain ⟨sh, hsh⟩ := isShown_ok K.inv.tinv win ww hw _ (chainFuel_gt hw)
  simp only [isShownW, hsh, bind_ok]
  by_cases hs : (!sh) = true
  · rw [if_pos hs]
    exact ⟨st, false, rfl, K, Shr.refl st⟩
  · rw [if_neg hs]
    obtain ⟨st1, h1, K1, S1, hx1⟩ := K.refI hw hpar
    simp only [h1, bind_ok]
    have hgw : 0 < (g.bumpW win).win win := by simp
    obtain ⟨w1, hw1⟩ := K1.held win hgw
    have hbf1 : BelowFree (g.bumpW win) st1 win := by
      intro d dw hld hr hne
      rw [Ghost.bumpW_ne g hne]
      exact (hbf.later S1) d dw hld hr hne
    simp only [getW, get_live hw1, bind_ok]
    cases hh : w1.children.head? with
    | none =>
      simp only
      obtain ⟨st2, b2, h2, K2, S2⟩ := kStage1_FK R hrec (r1 := (st1, false)) K1 hbf1 (S1.size.trans hN)
      exact ⟨st2, b2, h2, K2, S1.trans S2⟩
    | some fc =>
      simp only
      have hmem : fc ∈ w1.children := List.mem_of_mem_head? hh
      obtain ⟨cw, hcl, hcp⟩ := K1.inv.tinv.child_ok win w1 hw1 fc hmem
      simp only [get_live hcl, bind_ok]
      by_cases hst : cw.stealInput = true
      · rw [if_pos hst]
        obtain ⟨st2, b2, h2, K2, S2⟩ := hrec K1 hcl hcp hgw (hbf1.child K1.inv.tinv hcl hcp) (S1.size.trans hN)
        simp only [h2, bind_ok]
        obtain ⟨st3, b3, h3, K3, S3⟩ := kStage1_FK R hrec (r1 := (st2, b2)) K2 (hbf1.later S2) ((S1.trans S2).size.trans hN)
        exact ⟨st3, b3, h3, K3, (S1.trans S2).trans S3⟩
      · rw [if_neg hst]
        obtain ⟨st2, b2, h2, K2, S2⟩ := kStage1_FK R hrec (r1 := (st1, false)) K1 hbf1 (S1.size.trans hN)
        exact ⟨st2, b2, h2, K2, S1.trans S2⟩

/-- `_handle_key` with enough recursion budget for the windows below `win`. -/
theorem handleKey_FK {cfg : Cfg} (R : Repaired cfg) : ∀ (fuel : Nat) {st : St} {g : Ghost} {win : Nat} {ww : Win},
    FK g st → LiveW st.tree win ww → (∀ p, ww.parent = some p → 0 < g.win p) → BelowFree g st win →
    st.tree.wins.size ≤ win + fuel →
    ∃ st' b, handleKey cfg fuel st win = .ok (st', b) ∧ FK g st' ∧ Shr st st'
  | 0, st, g, win, ww, _, hw, _, _, hsz => by have := hw.lt; omega
  | fuel + 1, st, g, win, ww, K, hw, hpar, hbf, hsz => by
    unfold handleKey
    refine handleKeyBody_FK R (N := st.tree.wins.size) ?_ K hw hpar hbf rfl
    intro st1 g1 child cw K1 hcl hcp hgw hbf1 hN1
    have hlt := (K1.inv.tinv.parent_ok child cw hcl win hcp).1
    exact handleKey_FK R fuel K1 hcl (fun p hp => by rw [hcp] at hp; cases hp; exact hgw) hbf1 (by omega)

/-! ## `tickit_term_emit_key` -/

/-- Between two operations (no frame holds anything, the library at most the root window). -/
theorem FK.of_inv {g : Ghost} {st : St} (inv : SInv g st) (hcov : ∀ i, g.covers i) : FK g st := by
  refine ⟨inv, fun i w hl => (inv.wref i w hl).2 (hcov i), ?_, ?_⟩
  · intro i hg
    rcases hcov i with h0 | h0
    · subst h0; exact inv.glive hg
    · omega
  · intro c cw p hl hp hg
    rcases hcov c with h0 | h0
    · subst h0
      obtain ⟨r, hr, _, hrp⟩ := inv.tinv.root_ex
      rw [hl.1] at hr; cases hr
      rw [hrp] at hp; cases hp
    · omega

theorem belowFree_root {g : Ghost} {st : St} (inv : TInv st.tree) (hcov : ∀ i, g.covers i) : BelowFree g st 0 := by
  intro d dw _ _ hne
  rcases hcov d with h0 | h0
  · exact absurd h0 hne
  · exact h0

/-- `tickit_term_emit_key` with window handlers that may do anything. -/
theorem emitKeyNew_any {cfg : Cfg} (R : Repaired cfg) {g : Ghost} {st : St} (inv : SInv g st) (hcov : ∀ i, g.covers i)
    (hT : heldT st = true) : ∃ st', emitKeyNew cfg st = .ok st' ∧ SInv g st' := by
  obtain ⟨hfree, hpos⟩ := heldT_spec hT
  unfold emitKeyNew
  simp only [hfree, Bool.false_eq_true, if_false]
  obtain ⟨r, hr, _, hrp⟩ := inv.tinv.root_ex
  simp only [hr]
  by_cases hrf : r.freed = true
  · rw [if_pos hrf]; exact ⟨st, rfl, inv⟩
  · rw [if_neg hrf]
    have hrl : LiveW st.tree 0 r := ⟨hr, by cases h : r.freed <;> simp_all⟩
    have K0 : FK g { st with termIter := true } := by
      have K := FK.of_inv inv hcov
      exact ⟨⟨K.inv.toSInvB.of_wx rfl rfl rfl rfl rfl rfl, K.inv.wref, K.inv.glive⟩, K.ex, K.held, K.disc⟩
    obtain ⟨st1, b1, h1, K1, S1⟩ := handleKey_FK R (routeFuel { st with termIter := true }) K0 (ww := r) hrl
      (fun p hp => by rw [hrp] at hp; cases hp) (belowFree_root inv.tinv hcov) (by simp only [routeFuel]; omega)
    simp only [h1, bind_ok]
    have ht1 : st1.term.freed = false := by
      cases hf : st1.term.freed with
      | false => rfl
      | true =>
        have := (K1.inv.term_dead hf).2.1
        rw [S1.tapp] at this
        have h2 : st.term.appRefs = 0 := this
        omega
    simp only [ht1, Bool.false_eq_true, if_false, pure_ok]
    exact ⟨_, rfl, ⟨K1.inv.toSInvB.of_wx rfl rfl rfl rfl rfl rfl, K1.inv.wref, K1.inv.glive⟩⟩

/-- The operation `key`: `tickit_term_emit_key` delivered to window handlers with any actions. -/
theorem step_key_any {cfg : Cfg} (R : Repaired cfg) {g : Ghost} {st : St} (inv : SInv g st) (hcov : ∀ i, g.covers i) :
    ∃ st' r, step cfg st .key = .ok (st', r) ∧ SInv g st' := by
  unfold step
  by_cases hT : heldT st = true
  · simp only [hT, Bool.not_true, Bool.false_eq_true, if_false, okR, emitKey, R.snapshotRouting, if_true]
    obtain ⟨st1, h1, inv1⟩ := emitKeyNew_any R inv hcov hT
    simp only [h1, bind_ok, pure_ok]
    exact ⟨_, _, rfl, inv1⟩
  · simp only [hT, Bool.not_false, if_true, skipR, pure_ok]
    exact ⟨_, _, rfl, inv⟩

/-! ## `_handle_mouse` with handlers that may do anything but claim the event -/

theorem runBinds_go_FK_mouse {cfg : Cfg} (R : Repaired cfg) {g : Ghost} (win : Id) (tag : String) :
    ∀ (bs : List Bind) {st : St}, FK g st → NoClaim st →
      ∃ st', runBinds.go cfg win .mouse tag st bs = .ok (st', false) ∧ FK g st' ∧ Shr st st'
  | [], st, K, _ => ⟨st, rfl, K, Shr.refl st⟩
  | b :: rest, st, K, H => by
    unfold runBinds.go
    dsimp only
    cases hc : List.find? (fun c => decide (c.id = b.id ∧ b.id ≠ -1)) (getX st win).binds with
    | none => exact runBinds_go_FK_mouse R win tag rest K H
    | some c =>
      dsimp only
      split
      · rename_i hev
        have hret : c.ret = false := H win c (List.mem_of_find?_eq_some hc) hev
        obtain ⟨st1, h1, K1, S1⟩ := runActs_FK R (win, c.id) c.acts (K.set_log (st.log ++ [tag]))
        have S0 : Shr st { st with log := st.log ++ [tag] } := Shr.of_tree rfl rfl (fun h => h.of_wx rfl)
        simp only [h1, bind_ok, hret, Bool.false_eq_true, if_false]
        obtain ⟨st2, h2, K2, S2⟩ := runBinds_go_FK_mouse R win tag rest K1 (S1.nc (S0.nc H))
        exact ⟨st2, h2, K2, (S0.trans S1).trans S2⟩
      · exact runBinds_go_FK_mouse R win tag rest K H

/-- `run_events_whilefalse(win, TICKIT_WINDOW_ON_MOUSE, info)` when no handler claims: every handler runs, the answer is 0. -/
theorem runBinds_FK_mouse {cfg : Cfg} (R : Repaired cfg) {g : Ghost} {st : St} (K : FK g st) (H : NoClaim st) {win : Nat}
    (hg : 0 < g.win win) (tag : String) : ∃ st', runBinds cfg st win .mouse tag = .ok (st', false) ∧ FK g st' ∧ Shr st st' := by
  obtain ⟨ww, hw⟩ := K.held win hg
  unfold runBinds
  simp only [getW, get_live hw, bind_ok]
  have K1 := K.setX_same win { getX st win with iterating := true } rfl rfl
  have S1 : Shr st (setX st win { getX st win with iterating := true }) :=
    Shr.of_tree rfl rfl (fun h => h.setX win _ (fun b hb => h win b hb))
  obtain ⟨st2, h2, K2, S2⟩ := runBinds_go_FK_mouse R win tag (getX st win).binds K1 (S1.nc H)
  simp only [h2, bind_ok]
  obtain ⟨w2, hw2⟩ := K2.held win hg
  simp only [get_live hw2, bind_ok, pure_ok]
  generalize hx : (if (!(getX st win).iterating && (getX st2 win).needsDelete) = true then
      ({ pen := (getX st2 win).pen, binds := List.filter (fun b => decide (b.id ≠ -1)) (getX st2 win).binds,
         iterating := (getX st win).iterating, appRefs := (getX st2 win).appRefs } : WinX)
    else { pen := (getX st2 win).pen, binds := (getX st2 win).binds, iterating := (getX st win).iterating,
           needsDelete := (getX st2 win).needsDelete, appRefs := (getX st2 win).appRefs }) = x
  have hxp : x.pen = (getX st2 win).pen := by rw [← hx]; split <;> rfl
  have hxa : x.appRefs = (getX st2 win).appRefs := by rw [← hx]; split <;> rfl
  have hxb : ∀ b ∈ x.binds, b ∈ (getX st2 win).binds := by
    rw [← hx]; split
    · intro b hb; exact (List.mem_filter.1 hb).1
    · intro b hb; exact hb
  have S3 : Shr st2 (setX st2 win x) := Shr.of_tree rfl rfl (fun h => h.setX win x (fun b hb => h win b (hxb b hb)))
  exact ⟨_, rfl, K2.setX_same win x hxp hxa, (S1.trans S2).trans S3⟩

/-- What the frames below give for `_handle_mouse`: a recursive call on a child of `win` succeeds, returns no window
    (nothing claims) and gives back every reference it took. -/
def RecFM (recM : St → Id → Mouse → Out (St × Option Id)) (win : Nat) (N : Nat) : Prop :=
  ∀ {st : St} {g : Ghost} {child : Nat} {cw : Win} (info : Mouse), FK g st → NoClaim st → LiveW st.tree child cw →
    cw.parent = some win → 0 < g.win win → BelowFree g st child → st.tree.wins.size = N →
    ∃ st', recM st child info = .ok (st', none) ∧ FK g st' ∧ Shr st st'

theorem mouseLoop_FK {recM : St → Id → Mouse → Out (St × Option Id)} {win : Nat} {N : Nat} (hrec : RecFM recM win N)
    (info : Mouse) :
    ∀ (cs : List Nat) {st : St} {g : Ghost}, FK g st → NoClaim st → 0 < g.win win → (∀ c ∈ cs, 0 < g.win c) →
    (∀ c ∈ cs, BelowFree g st c) → st.tree.wins.size = N →
    ∃ st', mouseLoop recM win info st cs = .ok (st', none) ∧ FK g st' ∧ Shr st st'
  | [], st, g, K, _, _, _, _, _ => ⟨st, by rw [mouseLoop]; rfl, K, Shr.refl st⟩
  | child :: rest, st, g, K, H, hgw, hgc, hbf, hN => by
    obtain ⟨cw, hc⟩ := K.held child (hgc child (by simp))
    have hgrest : ∀ c ∈ rest, 0 < g.win c := fun x hx => hgc x (by simp [hx])
    have hbrest : ∀ c ∈ rest, BelowFree g st c := fun x hx => hbf x (by simp [hx])
    rw [mouseLoop]
    simp only [getW, get_live hc, bind_ok]
    by_cases hp : cw.parent ≠ some win
    · rw [if_pos hp]
      exact mouseLoop_FK hrec info rest K H hgw hgrest hbrest hN
    · rw [if_neg hp]
      have hp' : cw.parent = some win := by
        cases h : cw.parent with
        | none => rw [h] at hp; simp at hp
        | some p => rw [h] at hp; simpa using hp
      split
      · exact mouseLoop_FK hrec info rest K H hgw hgrest hbrest hN
      · obtain ⟨st1, h1, K1, S1⟩ := hrec { info with line := info.line - cw.rect.top, col := info.col - cw.rect.left } K H hc hp' hgw
          (hbf child (by simp)) hN
        simp only [h1, bind_ok, Option.isSome_none, Bool.false_eq_true, if_false]
        obtain ⟨st2, h2, K2, S2⟩ := mouseLoop_FK hrec info rest K1 (S1.nc H) hgw hgrest (fun c hc' => (hbrest c hc').later S1)
          (S1.size.trans hN)
        exact ⟨st2, h2, K2, S1.trans S2⟩

theorem mStage2_FK {cfg : Cfg} (R : Repaired cfg) {win : Nat} {st : St} {g : Ghost} (K : FK (g.bumpW win) st)
    (hbf : BelowFree (g.bumpW win) st win) :
    ∃ st', mStage2 cfg win (st, none) = .ok (st', none) ∧ FK g st' ∧ Shr st st' := by
  unfold mStage2
  obtain ⟨st1, h1, K1, S1⟩ := K.unrefI R (win := win) (by simp) (by
    intro _ c cw hcl hcp
    have hlt := (K.inv.tinv.parent_ok c cw hcl win hcp).1
    exact hbf c cw hcl (.step hcl.1 hcp (.refl win)) (by omega))
  rw [Ghost.unbump_bumpW] at K1
  simp only [h1, bind_ok, pure_ok]
  exact ⟨st1, rfl, K1, S1⟩

/-- The body of `_handle_mouse` with handlers that may do anything but claim, the frames below being in order: it
    returns no window, so the only references in flight are the frame's own and its snapshot's - the stack discipline. -/
theorem handleMouseBody_FK {cfg : Cfg} (R : Repaired cfg) {recM : St → Id → Mouse → Out (St × Option Id)} {win : Nat} {N : Nat}
    (hrec : RecFM recM win N) (info : Mouse) {st : St} {g : Ghost} (K : FK g st) (H : NoClaim st) {ww : Win}
    (hw : LiveW st.tree win ww) (hpar : ∀ p, ww.parent = some p → 0 < g.win p) (hbf : BelowFree g st win)
    (hN : st.tree.wins.size = N) :
    ∃ st', handleMouseBody cfg recM st win info = .ok (st', none) ∧ FK g st' ∧ Shr st st' := by
  rw [handleMouseBody_eq]
  obtain ⟨sh, hsh⟩ := isShown_ok K.inv.tinv win ww hw _ (chainFuel_gt hw)
  simp only [isShownW, hsh, bind_ok]
  by_cases hs : (!sh) = true
  · rw [if_pos hs]
    exact ⟨st, rfl, K, Shr.refl st⟩
  · rw [if_neg hs]
    obtain ⟨st0, h0, K0, S0, hx0⟩ := K.refI hw hpar
    simp only [h0, bind_ok]
    have hgw : 0 < (g.bumpW win).win win := by simp
    have hbf0 : BelowFree (g.bumpW win) st0 win := by
      intro d dw hld hr hne
      rw [Ghost.bumpW_ne g hne]
      exact (hbf.later S0) d dw hld hr hne
    have hN0 := S0.size.trans hN
    have H0 := S0.nc H
    obtain ⟨w, hwl⟩ := K0.held win hgw
    unfold refChildren
    simp only [getW, get_live hwl, bind_ok]
    have hch : ∀ c ∈ w.children, ∃ cw, LiveW st0.tree c cw ∧ cw.parent = some win := fun c hc =>
      K0.inv.tinv.child_ok win w hwl c hc
    obtain ⟨st1, h1, K1, S1, hx1, hsame1⟩ := foldl_refW_FK w.children K0 (fun c hc => by
      obtain ⟨cw, hcl, hcp⟩ := hch c hc
      exact ⟨cw, hcl, fun p hp => by rw [hcp] at hp; cases hp; exact hgw⟩)
    simp only [h1, bind_ok, pure_ok]
    have hch1 : ∀ c ∈ w.children, ∃ cw, LiveW st1.tree c cw ∧ cw.parent = some win := fun c hc => by
      obtain ⟨cw, hcl, hcp⟩ := hch c hc
      obtain ⟨cw', hcl', hpe⟩ := hsame1 c cw hcl
      exact ⟨cw', hcl', by rw [hpe]; exact hcp⟩
    have hbf1 : BelowFree (g.bumpW win) st1 win := hbf0.later S1
    have hbfc : ∀ c ∈ w.children, BelowFree ((g.bumpW win).plus (fun j => w.children.count j)) st1 c := by
      intro c hc d dw hld hr hne
      obtain ⟨cw, hcl, hcp⟩ := hch1 c hc
      have h0 := (hbf1.child K1.inv.tinv hcl hcp) d dw hld hr hne
      simp only [Ghost.plus_win, h0, Nat.zero_add]
      apply List.count_eq_zero.2
      intro hdm
      obtain ⟨dw', hdl', hdp⟩ := hch1 d hdm
      have := LiveW.unique hld hdl'; subst this
      exact hne (not_below_sibling K1.inv.tinv hld hdp hcl hcp hr)
    obtain ⟨st2, h2, K2, S2⟩ := mouseLoop_FK hrec info w.children K1 (S1.nc H0) (by simp; omega) (fun c hc => by
        simp only [Ghost.plus_win]
        have := List.count_pos_iff.2 hc
        omega) hbfc (S1.size.trans hN0)
    simp only [h2, bind_ok]
    unfold unrefChildren
    obtain ⟨st3, h3, K3, S3⟩ := foldl_unrefW_FK R (g := g.bumpW win) w.children K2 (by
      intro c hc d dw hld hpd
      obtain ⟨cw, hcl, hcp⟩ := hch1 c hc
      obtain ⟨d1, hdl1⟩ := S2.back d dw hld
      obtain ⟨d1', hd1', hp1⟩ := S2.psub d dw c hld.1 hpd
      have : d1' = d1 := by rw [hdl1.1] at hd1'; exact (Option.some.inj hd1').symm
      subst this
      have hcd := (K1.inv.tinv.parent_ok d d1' hdl1 c hp1).1
      have hwc := (K1.inv.tinv.parent_ok c cw hcl win hcp).1
      refine ⟨hbf1 d d1' hdl1 (.step hdl1.1 hp1 (.step hcl.1 hcp (.refl win))) (by omega), ?_⟩
      intro hdm
      obtain ⟨dw', hdl', hdp⟩ := hch1 d hdm
      have := LiveW.unique hdl1 hdl'; subst this
      rw [hp1] at hdp; cases hdp
      omega)
    have S03 : Shr st0 st3 := (S1.trans S2).trans S3
    simp only [h3, bind_ok, Option.isSome_none, Bool.false_eq_true, if_false]
    obtain ⟨w3, hw3⟩ := K3.held win hgw
    obtain ⟨sh3, hsh3⟩ := isShown_ok K3.inv.tinv win w3 hw3 _ (chainFuel_gt hw3)
    simp only [hsh3, bind_ok]
    by_cases hs3 : sh3 = true
    · rw [if_pos hs3]
      obtain ⟨st4, h4, K4, S4⟩ := runBinds_FK_mouse R K3 (S03.nc H0) hgw (logMouse win info)
      simp only [h4, bind_ok, Bool.false_eq_true, if_false]
      obtain ⟨st5, h5, K5, S5⟩ := mStage2_FK R K4 (hbf0.later (S03.trans S4))
      exact ⟨st5, h5, K5, ((S0.trans S03).trans S4).trans S5⟩
    · rw [if_neg hs3]
      obtain ⟨st5, h5, K5, S5⟩ := mStage2_FK R K3 (hbf0.later S03)
      exact ⟨st5, h5, K5, (S0.trans S03).trans S5⟩

/-- `_handle_mouse` with enough recursion budget for the windows below `win`. -/
theorem handleMouse_FK {cfg : Cfg} (R : Repaired cfg) : ∀ (fuel : Nat) {st : St} {g : Ghost} {win : Nat} {ww : Win} (info : Mouse),
    FK g st → NoClaim st → LiveW st.tree win ww → (∀ p, ww.parent = some p → 0 < g.win p) → BelowFree g st win →
    st.tree.wins.size ≤ win + fuel →
    ∃ st', handleMouse cfg fuel st win info = .ok (st', none) ∧ FK g st' ∧ Shr st st'
  | 0, st, g, win, ww, _, _, _, hw, _, _, hsz => by have := hw.lt; omega
  | fuel + 1, st, g, win, ww, info, K, H, hw, hpar, hbf, hsz => by
    unfold handleMouse
    refine handleMouseBody_FK R (N := st.tree.wins.size) ?_ info K H hw hpar hbf rfl
    intro st1 g1 child cw info1 K1 H1 hcl hcp hgw hbf1 hN1
    have hlt := (K1.inv.tinv.parent_ok child cw hcl win hcp).1
    exact handleMouse_FK R fuel info1 K1 H1 hcl (fun p hp => by rw [hcp] at hp; cases hp; exact hgw) hbf1 (by omega)

end Tickit.Life
