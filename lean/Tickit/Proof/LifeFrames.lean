import Tickit.Proof.LifeMouse
/-
  C08 proofs, part 9a: key events delivered to window handlers with ANY actions (`tickit_window_unref` included).

  The references the frames of `_handle_key` hold are carried as part of what the library holds (`Ghost`): the
  invariant `FK g st` says that every live window's count is exactly the application's tally plus `g.win`, that a window
  the frames hold is alive, and that the frames obey the stack discipline - a frame that holds a child holds its parent.
  A destroy cascade therefore never touches a window a frame holds: what it frees or drops lies below its start
  (`Casc.reach`), and a window below a start no frame holds is held by no frame.
-/
namespace Tickit.Life
open WinTree (Id Win Req Change Tree)

/-- The invariant while frames hold references (`g.win`) and handlers may free windows. -/
structure FK (g : Ghost) (st : St) : Prop where
  inv : SInv g st
  /-- every count is exact: nobody but the application and the library holds a window -/
  ex : ∀ (i : Nat) (w : Win), LiveW st.tree i w → ((getX st i).appRefs : Int) + (g.win i : Int) ≤ w.refcount
  /-- what the library holds is alive -/
  held : ∀ (i : Nat), 0 < g.win i → ∃ w, LiveW st.tree i w
  /-- the stack discipline -/
  disc : ∀ (c : Nat) (cw : Win) (p : Nat), LiveW st.tree c cw → cw.parent = some p → 0 < g.win c → 0 < g.win p

theorem FK.exact {g : Ghost} {st : St} (K : FK g st) {i : Nat} {w : Win} (hl : LiveW st.tree i w) :
    w.refcount = ((getX st i).appRefs : Int) + (g.win i : Int) := by
  have h1 := (K.inv.wref i w hl).1
  have h2 := K.ex i w hl
  omega

/-- Whoever lies below a window no frame holds is held by no frame. -/
theorem FK.reach_held {g : Ghost} {st : St} (K : FK g st) {h x : Nat} (hr : Reach st.tree h x) :
    ∀ (hw : Win), LiveW st.tree h hw → 0 < g.win h → 0 < g.win x := by
  induction hr with
  | refl => intro _ _ hg; exact hg
  | @step i p a w hwi hp _ ih =>
    intro hw hl hg
    have : w = hw := by rw [hl.1] at hwi; exact (Option.some.inj hwi).symm
    subst this
    obtain ⟨_, pw, hpl, _⟩ := K.inv.tinv.parent_ok i w hl p hp
    exact ih pw hpl (K.disc i w p hl hp hg)

/-- A new tree with the same windows alive, the same counts and no new parent link. -/
theorem FK.of_tree {g : Ghost} {st : St} (K : FK g st) {t' : Tree} (inv' : SInv g { st with tree := t' })
    (hlive : ∀ (i : Nat) (w : Win), LiveW st.tree i w → ∃ w', LiveW t' i w' ∧ w'.refcount = w.refcount)
    (hback : ∀ (i : Nat) (w' : Win), LiveW t' i w' → ∃ w, LiveW st.tree i w ∧ w'.refcount = w.refcount)
    (hps : PSub st.tree t') : FK g { st with tree := t' } := by
  refine ⟨inv', ?_, ?_, ?_⟩
  · intro i w' hl'
    obtain ⟨w, hl, hr⟩ := hback i w' hl'
    rw [hr]; exact K.ex i w hl
  · intro i hg
    obtain ⟨w, hl⟩ := K.held i hg
    obtain ⟨w', hl', _⟩ := hlive i w hl
    exact ⟨w', hl'⟩
  · intro c cw p hl' hp hg
    obtain ⟨w, hl, _⟩ := hback c cw hl'
    obtain ⟨w0, hw0, hp0⟩ := hps c cw p hl'.1 hp
    have : w0 = w := by rw [hl.1] at hw0; exact (Option.some.inj hw0).symm
    subst this
    exact K.disc c w0 p hl hp0 hg

/-- A rearrangement of the tree (hide, show, restack, flush, geometry). -/
theorem FK.of_rel {g : Ghost} {st : St} (K : FK g st) {t' : Tree} (hinv : TInv t') (hrel : TRel st.tree t')
    (hrc : SameRC st.tree t') : FK g { st with tree := t' } := by
  refine K.of_tree (K.inv.of_rel' hinv hrel hrc) ?_ ?_ ?_
  · intro i w hl
    obtain ⟨w', hl', _⟩ := hrel.live hl
    exact ⟨w', hl', hrc i w w' hl.1 hl'.1⟩
  · intro i w' hl'
    obtain ⟨w, hl, _⟩ := hrel.live_back hl'
    exact ⟨w, hl, hrc i w w' hl.1 hl'.1⟩
  · intro i w' p hw' hp'
    obtain ⟨w, hw, hr⟩ := hrel.back hw'
    exact ⟨w, hw, by rw [← hr.1]; exact hp'⟩

/-- `tickit_window_close`. -/
theorem FK.of_closed {g : Ghost} {st : St} (K : FK g st) {t' : Tree} {win : Nat} {ww : Win} (hw : LiveW st.tree win ww)
    (C : Closed st.tree t' win ww) : FK g { st with tree := t' } := by
  have hrec : ∀ (i : Nat) (w : Win), st.tree.wins[i]? = some w →
      ∃ w', t'.wins[i]? = some w' ∧ w'.freed = w.freed ∧ w'.refcount = w.refcount ∧ (∀ p, w'.parent = some p → w.parent = some p) := by
    intro i w hwi
    by_cases hi : i = win
    · subst hi
      have : w = ww := by rw [hw.1] at hwi; exact (Option.some.inj hwi).symm
      subst this
      exact ⟨_, C.win_now.1, rfl, rfl, fun p hp => by cases hp⟩
    · rcases C.others i w hi hwi with ⟨_, h⟩ | ⟨_, h⟩
      · exact ⟨w, h, rfl, rfl, fun _ hp => hp⟩
      · exact ⟨_, h, rfl, rfl, fun _ hp => hp⟩
  have hex : ∀ (i : Nat) (w' : Win), t'.wins[i]? = some w' → ∃ w, st.tree.wins[i]? = some w := by
    intro i w' hw'
    cases h0 : st.tree.wins[i]? with
    | some w => exact ⟨w, rfl⟩
    | none =>
      have hlt : ¬ i < st.tree.wins.size := by
        intro hlt
        have := Array.getElem?_eq_getElem (xs := st.tree.wins) hlt
        rw [h0] at this; cases this
      have : t'.wins[i]? = none := Array.getElem?_eq_none (by rw [C.size_eq]; omega)
      rw [hw'] at this; cases this
  refine K.of_tree (K.inv.of_closed hw C) ?_ ?_ ?_
  · intro i w hl
    obtain ⟨w', hw', hf, hr, _⟩ := hrec i w hl.1
    exact ⟨w', ⟨hw', by rw [hf]; exact hl.2⟩, hr⟩
  · intro i w' hl'
    obtain ⟨w, hwi⟩ := hex i w' hl'.1
    obtain ⟨w'', hw'', hf, hr, _⟩ := hrec i w hwi
    have : w'' = w' := by rw [hl'.1] at hw''; exact (Option.some.inj hw'').symm
    subst this
    exact ⟨w, ⟨hwi, by rw [← hf]; exact hl'.2⟩, hr⟩
  · intro i w' p hw' hp'
    obtain ⟨w, hwi⟩ := hex i w' hw'
    obtain ⟨w'', hw'', _, _, hpp⟩ := hrec i w hwi
    have : w'' = w' := by rw [hw'] at hw''; exact (Option.some.inj hw'').symm
    subst this
    exact ⟨w, hwi, hpp p hp'⟩

/-- A change of a window's record that keeps its pen and the application's tally. -/
theorem FK.setX_same {g : Ghost} {st : St} (K : FK g st) (i : Nat) (x : WinX) (hp : x.pen = (getX st i).pen)
    (ha : x.appRefs = (getX st i).appRefs) : FK g (setX st i x) := by
  have hget : ∀ j, (getX (setX st i x) j).appRefs = (getX st j).appRefs := by
    intro j
    rw [getX_setX]
    split
    · rename_i h; rw [ha, h.1]
    · rfl
  refine ⟨K.inv.setX_same i x hp ha, ?_, K.held, K.disc⟩
  intro j w hl
  rw [hget]; exact K.ex j w hl

/-- `tickit_window_unref` by a handler (or the application) while frames hold references: the cascade, if there is
    one, starts at a window no frame holds and therefore touches none the frames hold; every child a dying parent
    drops is held by the application, so that the tally follows the count. -/
theorem unrefW_FK {cfg : Cfg} (R : Repaired cfg) {g : Ghost} {st : St} (K : FK g st) {x : Nat} (hh : heldW st x = true) :
    ∃ st', unrefW cfg (setX st x { getX st x with appRefs := (getX st x).appRefs - 1 }) x = .ok st' ∧ FK g st' ∧
      st'.tree.wins.size = st.tree.wins.size := by
  obtain ⟨xw, hxl, hpos⟩ := heldW_spec hh
  obtain ⟨st', hu, inv', hsz, _, _, _, dead, dropped, hcnt, happ, hreach, hsurv, hps, hlast, hdgt, hdeadf⟩ := unrefW_ok R K.inv hh
  refine ⟨st', hu, ?_, hsz⟩
  -- a cascade there is only if no frame holds `x`
  have hgx : (dead ≠ [] ∨ dropped ≠ []) → g.win x = 0 := by
    intro hne
    have h1 := hlast hne xw hxl
    have h2 := K.exact hxl
    have : (1 : Int) ≤ ((getX st x).appRefs : Int) := by exact_mod_cast hpos
    have h3 : (g.win x : Int) = 0 := by omega
    exact_mod_cast h3
  -- so whatever dies or is dropped is held by no frame
  have hfree : ∀ (i : Nat) (w : Win), LiveW st.tree i w → (i ∈ dead ∨ i ∈ dropped) → g.win i = 0 := by
    intro i w hl hi
    have hne : dead ≠ [] ∨ dropped ≠ [] := by
      rcases hi with h | h
      · exact .inl (List.ne_nil_of_mem h)
      · exact .inr (List.ne_nil_of_mem h)
    have hx0 := hgx hne
    rcases hreach i hi with ⟨hr, _⟩ | ⟨he, _⟩
    · apply Classical.byContradiction
      intro hg
      have := K.reach_held hr w hl (Nat.pos_of_ne_zero hg)
      omega
    · rw [he]; exact hx0
  have hlt : ∀ (i : Nat) (w : Win), LiveW st.tree i w → i < st.wx.size := fun i w hl => by rw [K.inv.wx_size]; exact hl.lt
  refine ⟨inv', ?_, ?_, ?_⟩
  · intro i w' hl'
    obtain ⟨w, hl, hrc⟩ := hcnt i w' hl'
    have happi := happ i (hlt i w hl)
    have hex := K.exact hl
    have hrc1 := inv'.rc i w' hl'
    by_cases hix : i = x
    · subst hix
      have hxd : i ∉ dropped := fun hd => by have := hdgt i hd; omega
      simp only [if_true, hxd, if_false] at hrc happi
      have : (1 : Int) ≤ ((getX st i).appRefs : Int) := by exact_mod_cast hpos
      omega
    · simp only [hix, if_false] at hrc happi
      by_cases hd : i ∈ dropped
      · simp only [hd, if_true] at hrc happi
        have hg0 := hfree i w hl (.inr hd)
        rw [hg0] at hex ⊢
        -- the child had two references at least, both the application's
        have : (2 : Int) ≤ ((getX st i).appRefs : Int) := by omega
        omega
      · simp only [hd, if_false] at hrc happi
        omega
  · intro i hg
    obtain ⟨w, hl⟩ := K.held i hg
    refine hsurv i w hl ?_
    intro hd
    have := hfree i w hl (.inl hd)
    omega
  · intro c cw p hl' hp hg
    obtain ⟨w, hl, _⟩ := hcnt c cw hl'
    obtain ⟨w0, hw0, hp0⟩ := hps c cw p hl'.1 hp
    have : w0 = w := by rw [hl.1] at hw0; exact (Option.some.inj hw0).symm
    subst this
    exact K.disc c w0 p hl hp0 hg

end Tickit.Life
