import Tickit.Proof.LifeMouse
import Tickit.Proof.LifeTop
/-
  C08 proofs, part 9a: key events delivered to window handlers with ANY actions (`tickit_window_unref` included).

  The references the frames of `_handle_key` hold are carried as part of what the library holds (`Ghost`): the
  invariant `FK g st` says that every live window's count is exactly the application's tally plus `g.win`, that a window
  the frames hold is alive, and that the frames obey the stack discipline - a frame that holds a child holds its parent.
  A destroy cascade therefore never touches a window a frame holds: what it frees or drops lies below its start
  (`Casc.reach`), and a window below a start no frame holds is held by no frame.
-/
namespace Tickit.Life
open WinTree (Id Win Req Change Tree)

/-- The invariant while frames hold references (`g.win`) and handlers may free windows. -/
structure FK (g : Ghost) (st : St) : Prop where
  inv : SInv g st
  /-- every count is exact: nobody but the application and the library holds a window -/
  ex : ∀ (i : Nat) (w : Win), LiveW st.tree i w → ((getX st i).appRefs : Int) + (g.win i : Int) ≤ w.refcount
  /-- what the library holds is alive -/
  held : ∀ (i : Nat), 0 < g.win i → ∃ w, LiveW st.tree i w
  /-- the stack discipline -/
  disc : ∀ (c : Nat) (cw : Win) (p : Nat), LiveW st.tree c cw → cw.parent = some p → 0 < g.win c → 0 < g.win p

theorem FK.exact {g : Ghost} {st : St} (K : FK g st) {i : Nat} {w : Win} (hl : LiveW st.tree i w) :
    w.refcount = ((getX st i).appRefs : Int) + (g.win i : Int) := by
  have h1 := (K.inv.wref i w hl).1
  have h2 := K.ex i w hl
  omega

/-- Whoever lies below a window no frame holds is held by no frame. -/
theorem FK.reach_held {g : Ghost} {st : St} (K : FK g st) {h x : Nat} (hr : Reach st.tree h x) :
    ∀ (hw : Win), LiveW st.tree h hw → 0 < g.win h → 0 < g.win x := by
  induction hr with
  | refl => intro _ _ hg; exact hg
  | @step i p a w hwi hp _ ih =>
    intro hw hl hg
    have : w = hw := by rw [hl.1] at hwi; exact (Option.some.inj hwi).symm
    subst this
    obtain ⟨_, pw, hpl, _⟩ := K.inv.tinv.parent_ok i w hl p hp
    exact ih pw hpl (K.disc i w p hl hp hg)

/-- A new tree with the same windows alive, the same counts and no new parent link. -/
theorem FK.of_tree {g : Ghost} {st : St} (K : FK g st) {t' : Tree} (inv' : SInv g { st with tree := t' })
    (hlive : ∀ (i : Nat) (w : Win), LiveW st.tree i w → ∃ w', LiveW t' i w' ∧ w'.refcount = w.refcount)
    (hback : ∀ (i : Nat) (w' : Win), LiveW t' i w' → ∃ w, LiveW st.tree i w ∧ w'.refcount = w.refcount)
    (hps : PSub st.tree t') : FK g { st with tree := t' } := by
  refine ⟨inv', ?_, ?_, ?_⟩
  · intro i w' hl'
    obtain ⟨w, hl, hr⟩ := hback i w' hl'
    rw [hr]; exact K.ex i w hl
  · intro i hg
    obtain ⟨w, hl⟩ := K.held i hg
    obtain ⟨w', hl', _⟩ := hlive i w hl
    exact ⟨w', hl'⟩
  · intro c cw p hl' hp hg
    obtain ⟨w, hl, _⟩ := hback c cw hl'
    obtain ⟨w0, hw0, hp0⟩ := hps c cw p hl'.1 hp
    have : w0 = w := by rw [hl.1] at hw0; exact (Option.some.inj hw0).symm
    subst this
    exact K.disc c w0 p hl hp0 hg

/-- A rearrangement of the tree (hide, show, restack, flush, geometry). -/
theorem FK.of_rel {g : Ghost} {st : St} (K : FK g st) {t' : Tree} (hinv : TInv t') (hrel : TRel st.tree t')
    (hrc : SameRC st.tree t') : FK g { st with tree := t' } := by
  refine K.of_tree (K.inv.of_rel' hinv hrel hrc) ?_ ?_ ?_
  · intro i w hl
    obtain ⟨w', hl', _⟩ := hrel.live hl
    exact ⟨w', hl', hrc i w w' hl.1 hl'.1⟩
  · intro i w' hl'
    obtain ⟨w, hl, _⟩ := hrel.live_back hl'
    exact ⟨w, hl, hrc i w w' hl.1 hl'.1⟩
  · intro i w' p hw' hp'
    obtain ⟨w, hw, hr⟩ := hrel.back hw'
    exact ⟨w, hw, by rw [← hr.1]; exact hp'⟩

/-- `tickit_window_close`. -/
theorem FK.of_closed {g : Ghost} {st : St} (K : FK g st) {t' : Tree} {win : Nat} {ww : Win} (hw : LiveW st.tree win ww)
    (C : Closed st.tree t' win ww) : FK g { st with tree := t' } := by
  have hrec : ∀ (i : Nat) (w : Win), st.tree.wins[i]? = some w →
      ∃ w', t'.wins[i]? = some w' ∧ w'.freed = w.freed ∧ w'.refcount = w.refcount ∧ (∀ p, w'.parent = some p → w.parent = some p) := by
    intro i w hwi
    by_cases hi : i = win
    · subst hi
      have : w = ww := by rw [hw.1] at hwi; exact (Option.some.inj hwi).symm
      subst this
      exact ⟨_, C.win_now.1, rfl, rfl, fun p hp => by cases hp⟩
    · rcases C.others i w hi hwi with ⟨_, h⟩ | ⟨_, h⟩
      · exact ⟨w, h, rfl, rfl, fun _ hp => hp⟩
      · exact ⟨_, h, rfl, rfl, fun _ hp => hp⟩
  have hex : ∀ (i : Nat) (w' : Win), t'.wins[i]? = some w' → ∃ w, st.tree.wins[i]? = some w := by
    intro i w' hw'
    cases h0 : st.tree.wins[i]? with
    | some w => exact ⟨w, rfl⟩
    | none =>
      have hlt : ¬ i < st.tree.wins.size := by
        intro hlt
        have := Array.getElem?_eq_getElem (xs := st.tree.wins) hlt
        rw [h0] at this; cases this
      have : t'.wins[i]? = none := Array.getElem?_eq_none (by rw [C.size_eq]; omega)
      rw [hw'] at this; cases this
  refine K.of_tree (K.inv.of_closed hw C) ?_ ?_ ?_
  · intro i w hl
    obtain ⟨w', hw', hf, hr, _⟩ := hrec i w hl.1
    exact ⟨w', ⟨hw', by rw [hf]; exact hl.2⟩, hr⟩
  · intro i w' hl'
    obtain ⟨w, hwi⟩ := hex i w' hl'.1
    obtain ⟨w'', hw'', hf, hr, _⟩ := hrec i w hwi
    have : w'' = w' := by rw [hl'.1] at hw''; exact (Option.some.inj hw'').symm
    subst this
    exact ⟨w, ⟨hwi, by rw [← hf]; exact hl'.2⟩, hr⟩
  · intro i w' p hw' hp'
    obtain ⟨w, hwi⟩ := hex i w' hw'
    obtain ⟨w'', hw'', _, _, hpp⟩ := hrec i w hwi
    have : w'' = w' := by rw [hw'] at hw''; exact (Option.some.inj hw'').symm
    subst this
    exact ⟨w, hwi, hpp p hp'⟩

/-- A change of a window's record that keeps its pen and the application's tally. -/
theorem FK.setX_same {g : Ghost} {st : St} (K : FK g st) (i : Nat) (x : WinX) (hp : x.pen = (getX st i).pen)
    (ha : x.appRefs = (getX st i).appRefs) : FK g (setX st i x) := by
  have hget : ∀ j, (getX (setX st i x) j).appRefs = (getX st j).appRefs := by
    intro j
    rw [getX_setX]
    split
    · rename_i h; rw [ha, h.1]
    · rfl
  refine ⟨K.inv.setX_same i x hp ha, ?_, K.held, K.disc⟩
  intro j w hl
  rw [hget]; exact K.ex j w hl

/-- What every step of the routing does to the tree: it keeps its size, only removes parent links, and brings no
    window back to life. -/
structure Shr (st st' : St) : Prop where
  size : st'.tree.wins.size = st.tree.wins.size
  psub : PSub st.tree st'.tree
  back : ∀ (i : Nat) (w' : Win), LiveW st'.tree i w' → ∃ w, LiveW st.tree i w

theorem Shr.refl (st : St) : Shr st st := ⟨rfl, PSub.refl _, fun _ w h => ⟨w, h⟩⟩

theorem Shr.trans {a b c : St} (h1 : Shr a b) (h2 : Shr b c) : Shr a c :=
  ⟨h2.size.trans h1.size, h1.psub.trans h2.psub, fun i w' hl' => by
    obtain ⟨w, hl⟩ := h2.back i w' hl'
    exact h1.back i w hl⟩

theorem Shr.of_tree {st st' : St} (h : st'.tree = st.tree) : Shr st st' :=
  ⟨by rw [h], by rw [h]; exact PSub.refl _, fun i w hl => ⟨w, by rw [← h]; exact hl⟩⟩

/-- A chain of parents after is one before. -/
theorem Shr.reach {st st' : St} (h : Shr st st') {i a : Nat} (hr : Reach st'.tree i a) : Reach st.tree i a := h.psub.reach hr

/-- `tickit_window_unref` by a handler (or the application) while frames hold references: the cascade, if there is
    one, starts at a window no frame holds and therefore touches none the frames hold; every child a dying parent
    drops is held by the application, so that the tally follows the count. -/
theorem unrefW_FK {cfg : Cfg} (R : Repaired cfg) {g : Ghost} {st : St} (K : FK g st) {x : Nat} (hh : heldW st x = true) :
    ∃ st', unrefW cfg (setX st x { getX st x with appRefs := (getX st x).appRefs - 1 }) x = .ok st' ∧ FK g st' ∧
      Shr st st' := by
  obtain ⟨xw, hxl, hpos⟩ := heldW_spec hh
  obtain ⟨st', hu, inv', hsz, _, _, _, dead, dropped, hcnt, happ, hreach, hsurv, hps, hlast, hdgt, hdeadf⟩ := unrefW_ok R K.inv hh
  refine ⟨st', hu, ?_, ⟨hsz, hps, fun i w' hl' => by obtain ⟨w, hl, _⟩ := hcnt i w' hl'; exact ⟨w, hl⟩⟩⟩
  -- a cascade there is only if no frame holds `x`
  have hgx : (dead ≠ [] ∨ dropped ≠ []) → g.win x = 0 := by
    intro hne
    have h1 := hlast hne xw hxl
    have h2 := K.exact hxl
    have : (1 : Int) ≤ ((getX st x).appRefs : Int) := by exact_mod_cast hpos
    have h3 : (g.win x : Int) = 0 := by omega
    exact_mod_cast h3
  -- so whatever dies or is dropped is held by no frame
  have hfree : ∀ (i : Nat) (w : Win), LiveW st.tree i w → (i ∈ dead ∨ i ∈ dropped) → g.win i = 0 := by
    intro i w hl hi
    have hne : dead ≠ [] ∨ dropped ≠ [] := by
      rcases hi with h | h
      · exact .inl (List.ne_nil_of_mem h)
      · exact .inr (List.ne_nil_of_mem h)
    have hx0 := hgx hne
    rcases hreach i hi with ⟨hr, _⟩ | ⟨he, _⟩
    · apply Classical.byContradiction
      intro hg
      have := K.reach_held hr w hl (Nat.pos_of_ne_zero hg)
      omega
    · rw [he]; exact hx0
  have hlt : ∀ (i : Nat) (w : Win), LiveW st.tree i w → i < st.wx.size := fun i w hl => by rw [K.inv.wx_size]; exact hl.lt
  refine ⟨inv', ?_, ?_, ?_⟩
  · intro i w' hl'
    obtain ⟨w, hl, hrc⟩ := hcnt i w' hl'
    have happi := happ i (hlt i w hl)
    have hex := K.exact hl
    have hrc1 := inv'.rc i w' hl'
    by_cases hix : i = x
    · subst hix
      have hxd : i ∉ dropped := fun hd => by have := hdgt i hd; omega
      simp only [if_true, hxd, if_false] at hrc happi
      have : (1 : Int) ≤ ((getX st i).appRefs : Int) := by exact_mod_cast hpos
      omega
    · simp only [hix, if_false] at hrc happi
      by_cases hd : i ∈ dropped
      · simp only [hd, if_true] at hrc happi
        have hg0 := hfree i w hl (.inr hd)
        rw [hg0] at hex ⊢
        -- the child had two references at least, both the application's
        have : (2 : Int) ≤ ((getX st i).appRefs : Int) := by omega
        omega
      · simp only [hd, if_false] at hrc happi
        omega
  · intro i hg
    obtain ⟨w, hl⟩ := K.held i hg
    refine hsurv i w hl ?_
    intro hd
    have := hfree i w hl (.inl hd)
    omega
  · intro c cw p hl' hp hg
    obtain ⟨w, hl, _⟩ := hcnt c cw hl'
    obtain ⟨w0, hw0, hp0⟩ := hps c cw p hl'.1 hp
    have : w0 = w := by rw [hl.1] at hw0; exact (Option.some.inj hw0).symm
    subst this
    exact K.disc c w0 p hl hp0 hg

/-! ## the frames take and give back references -/

def Ghost.bumpW (g : Ghost) (w : Nat) : Ghost := { g with win := fun j => if j = w then g.win j + 1 else g.win j }
def Ghost.unbumpW (g : Ghost) (w : Nat) : Ghost := { g with win := fun j => if j = w then g.win j - 1 else g.win j }

@[simp] theorem Ghost.bumpW_self (g : Ghost) (w : Nat) : (g.bumpW w).win w = g.win w + 1 := by simp [Ghost.bumpW]
theorem Ghost.bumpW_ne (g : Ghost) {w j : Nat} (h : j ≠ w) : (g.bumpW w).win j = g.win j := by simp [Ghost.bumpW, h]
@[simp] theorem Ghost.unbumpW_self (g : Ghost) (w : Nat) : (g.unbumpW w).win w = g.win w - 1 := by simp [Ghost.unbumpW]
theorem Ghost.unbumpW_ne (g : Ghost) {w j : Nat} (h : j ≠ w) : (g.unbumpW w).win j = g.win j := by simp [Ghost.unbumpW, h]
theorem Ghost.unbump_bumpW (g : Ghost) (w : Nat) : (g.bumpW w).unbumpW w = g := by
  cases g
  simp only [Ghost.bumpW, Ghost.unbumpW, Ghost.mk.injEq, true_and]
  funext j
  split <;> simp_all

/-- A frame takes a reference on a live window whose parent (if it has one) a frame holds. -/
theorem FK.refI {g : Ghost} {st : St} (K : FK g st) {win : Nat} {ww : Win} (hw : LiveW st.tree win ww)
    (hpar : ∀ p, ww.parent = some p → 0 < g.win p) :
    ∃ st', refW st win = .ok st' ∧ FK (g.bumpW win) st' ∧ Shr st st' ∧ st'.wx = st.wx := by
  unfold refW
  simp only [getW, get_live hw, bind_ok, pure_ok]
  refine ⟨_, rfl, ?_, ⟨set_size _ _ _, ?_, ?_⟩, rfl⟩
  · have hex := K.exact hw
    have hl0 : LiveW (WinTree.set st.tree win { ww with refcount := ww.refcount + 1 }) win { ww with refcount := ww.refcount + 1 } :=
      ⟨set_get_self _ hw.lt, hw.2⟩
    have inv' : SInv (g.bumpW win) (setW st win { ww with refcount := ww.refcount + 1 }) := by
      refine K.inv.set_refcount hw (ww.refcount + 1) rfl (fun j hj => Ghost.bumpW_ne g hj) ⟨?_, fun _ => ?_⟩ (by have := K.inv.rc win ww hw; omega)
      · rw [Ghost.bumpW_self]; push_cast; omega
      · rw [Ghost.bumpW_self]; push_cast; omega
    refine ⟨inv', ?_, ?_, ?_⟩
    · intro i w' hl'
      have hl'' : LiveW (WinTree.set st.tree win { ww with refcount := ww.refcount + 1 }) i w' := hl'
      by_cases hi : win = i
      · subst hi
        have := LiveW.unique hl'' hl0; subst this
        show ((getX st win).appRefs : Int) + ((g.bumpW win).win win : Int) ≤ ww.refcount + 1
        rw [Ghost.bumpW_self]; push_cast; omega
      · rw [Ghost.bumpW_ne g (Ne.symm hi)]
        exact K.ex i w' ⟨by rw [← set_get_ne _ hi]; exact hl''.1, hl''.2⟩
    · intro i hg
      by_cases hi : win = i
      · subst hi; exact ⟨_, hl0⟩
      · rw [Ghost.bumpW_ne g (Ne.symm hi)] at hg
        obtain ⟨w, hl⟩ := K.held i hg
        exact ⟨w, by show (WinTree.set st.tree win _).wins[i]? = some w; rw [set_get_ne _ hi]; exact hl.1, hl.2⟩
    · intro c cw p hl' hp hg
      have hl'' : LiveW (WinTree.set st.tree win { ww with refcount := ww.refcount + 1 }) c cw := hl'
      have hgp : 0 < g.win p := by
        by_cases hc : win = c
        · subst hc
          have := LiveW.unique hl'' hl0; subst this
          exact hpar p hp
        · rw [Ghost.bumpW_ne g (Ne.symm hc)] at hg
          exact K.disc c cw p ⟨by rw [← set_get_ne _ hc]; exact hl''.1, hl''.2⟩ hp hg
      by_cases hpw : p = win
      · subst hpw; rw [Ghost.bumpW_self]; omega
      · rw [Ghost.bumpW_ne g hpw]; exact hgp
  · intro i w' p hw' hp'
    by_cases hi : win = i
    · subst hi
      have hw'' : (WinTree.set st.tree win { ww with refcount := ww.refcount + 1 }).wins[win]? = some w' := hw'
      rw [set_get_self _ hw.lt] at hw''; cases hw''
      exact ⟨ww, hw.1, hp'⟩
    · have hw'' : (WinTree.set st.tree win { ww with refcount := ww.refcount + 1 }).wins[i]? = some w' := hw'
      rw [set_get_ne _ hi] at hw''; exact ⟨w', hw'', hp'⟩
  · intro i w' hl'
    have hl'' : LiveW (WinTree.set st.tree win { ww with refcount := ww.refcount + 1 }) i w' := hl'
    by_cases hi : win = i
    · subst hi; exact ⟨ww, hw⟩
    · exact ⟨w', by rw [← set_get_ne _ hi]; exact hl''.1, hl''.2⟩

/-- A frame gives a reference back; if it was the last one the window is destroyed - no child of it being held. -/
theorem FK.unrefI {cfg : Cfg} (R : Repaired cfg) {g : Ghost} {st : St} (K : FK g st) {win : Nat} (hg : 0 < g.win win)
    (hch : g.win win = 1 → ∀ (c : Nat) (cw : Win), LiveW st.tree c cw → cw.parent = some win → g.win c = 0) :
    ∃ st', unrefW cfg st win = .ok st' ∧ FK (g.unbumpW win) st' ∧ Shr st st' := by
  obtain ⟨ww, hw⟩ := K.held win hg
  have hxlt : win < st.wx.size := by rw [K.inv.wx_size]; exact hw.lt
  let xp : WinX := { getX st win with appRefs := (getX st win).appRefs + 1 }
  have hsum : ∀ i, (((getX (setX st win xp) i).appRefs : Nat) : Int) + (((g.unbumpW win).win i : Nat) : Int) =
      ((getX st i).appRefs : Int) + (g.win i : Int) := by
    intro i
    rw [getX_setX]
    by_cases hi : win = i
    · subst hi
      simp only [hxlt, and_self, if_true, Ghost.unbumpW_self]
      show (((getX st win).appRefs + 1 : Nat) : Int) + ((g.win win - 1 : Nat) : Int) = _
      omega
    · simp only [hi, false_and, if_false]
      rw [Ghost.unbumpW_ne g (Ne.symm hi)]
  have invB : SInvB g (setX st win xp) [] := K.inv.toSInvB.of_wx rfl rfl rfl rfl rfl (setX_map_pen _ rfl)
  have KP : FK (g.unbumpW win) (setX st win xp) := by
    refine ⟨⟨⟨invB.tinv, invB.wx_size, invB.rc, invB.pend_nodup, invB.pend_freed, invB.dead_pen, invB.pens,
      invB.term_held, invB.term_free, invB.term_dead, invB.simple⟩, ?_, ?_⟩, ?_, ?_, ?_⟩
    · intro i w hl
      have hl' : LiveW st.tree i w := hl
      have h1 := K.exact hl'
      have := hsum i
      exact ⟨by omega, fun _ => by omega⟩
    · intro h0
      by_cases hi : win = 0
      · subst hi; exact ⟨ww, hw⟩
      · rw [Ghost.unbumpW_ne g (fun e => hi e.symm)] at h0
        exact K.inv.glive h0
    · intro i w hl
      have hl' : LiveW st.tree i w := hl
      have h1 := K.exact hl'
      have := hsum i
      omega
    · intro i hgi
      by_cases hi : win = i
      · subst hi; exact ⟨ww, hw⟩
      · rw [Ghost.unbumpW_ne g (Ne.symm hi)] at hgi
        exact K.held i hgi
    · intro c cw p hl hp hgc
      have hl' : LiveW st.tree c cw := hl
      have hgc' : 0 < g.win c := by
        by_cases hc : win = c
        · subst hc; exact hg
        · rw [Ghost.unbumpW_ne g (Ne.symm hc)] at hgc; exact hgc
      have hgp := K.disc c cw p hl' hp hgc'
      by_cases hpw : p = win
      · subst hpw
        rw [Ghost.unbumpW_self]
        apply Classical.byContradiction
        intro hn
        have h1 : g.win p = 1 := by omega
        have hc0 := hch h1 c cw hl' hp
        have hcp : c ≠ p := by
          have := (K.inv.tinv.parent_ok c cw hl' p hp).1
          omega
        rw [Ghost.unbumpW_ne g hcp] at hgc
        omega
      · rw [Ghost.unbumpW_ne g hpw]; exact hgp
  have hh : heldW (setX st win xp) win = true := by
    unfold heldW
    simp only [setX_tree, hw.1, hw.2, Bool.not_false, Bool.true_and, getX_setX_self _ hxlt]
    simp [xp]
  obtain ⟨st', hu, K', S'⟩ := unrefW_FK R KP hh
  have hback : setX (setX st win xp) win { getX (setX st win xp) win with appRefs := (getX (setX st win xp) win).appRefs - 1 } = st := by
    rw [getX_setX_self _ hxlt]
    have : ({ xp with appRefs := xp.appRefs - 1 } : WinX) = getX st win := by
      show ({ getX st win with appRefs := (getX st win).appRefs + 1 - 1 } : WinX) = getX st win
      rw [Nat.add_sub_cancel]
    rw [this]
    exact setX_setX_getX st win xp
  rw [hback] at hu
  exact ⟨st', hu, K', ⟨S'.size, S'.psub, S'.back⟩⟩

/-! ## what a handler does -/

theorem FK.set_log {g : Ghost} {st : St} (K : FK g st) (l : List String) : FK g { st with log := l } :=
  ⟨K.inv.of_log l, K.ex, K.held, K.disc⟩

/-- One call of a handler, whatever it is: skipped, or done with the invariant of the frames intact. -/
theorem simpleOp_FK {cfg : Cfg} (R : Repaired cfg) {g : Ghost} {st : St} (K : FK g st) (a : Act) (self : Option (Id × Int)) :
    simpleOp cfg st a self = none ∨ ∃ st', simpleOp cfg st a self = some (.ok st') ∧ FK g st' ∧ Shr st st' := by
  cases a <;> simp only [simpleOp]
  case unref w =>
    by_cases hh : heldW st w = true
    · right
      simp only [hh, if_true]
      obtain ⟨st', hu, K', S'⟩ := unrefW_FK R K hh
      exact ⟨st', by rw [hu], K', S'⟩
    · left; simp only [hh, Bool.false_eq_true, if_false]
  case ref w =>
    by_cases hh : heldW st w = true
    · right
      obtain ⟨ww, hw, _⟩ := heldW_spec hh
      simp only [hh, if_true]
      have hlt : w < st.wx.size := by rw [K.inv.wx_size]; exact hw.lt
      obtain ⟨st1, h1, inv1⟩ := refW_ok K.inv hw
      have hst1 : st1 = setW (setX st w { getX st w with appRefs := (getX st w).appRefs + 1 }) w { ww with refcount := ww.refcount + 1 } := by
        unfold refW at h1
        simp only [getW, setX_tree, get_live hw, bind_ok, pure_ok, Out.ok.injEq] at h1
        exact h1.symm
      have hl0 : LiveW (WinTree.set st.tree w { ww with refcount := ww.refcount + 1 }) w { ww with refcount := ww.refcount + 1 } :=
        ⟨set_get_self _ hw.lt, hw.2⟩
      refine ⟨st1, by rw [h1], ⟨inv1, ?_, ?_, ?_⟩, ?_⟩
      · intro i w' hl'
        rw [hst1] at hl' ⊢
        have hl'' : LiveW (WinTree.set st.tree w { ww with refcount := ww.refcount + 1 }) i w' := hl'
        show ((getX (setX st w { getX st w with appRefs := (getX st w).appRefs + 1 }) i).appRefs : Int) + _ ≤ _
        rw [getX_setX]
        by_cases hi : w = i
        · subst hi
          have := LiveW.unique hl'' hl0; subst this
          simp only [hlt, and_self, if_true]
          have := K.ex w ww hw
          show (((getX st w).appRefs + 1 : Nat) : Int) + (g.win w : Int) ≤ ww.refcount + 1
          omega
        · simp only [hi, false_and, if_false]
          exact K.ex i w' ⟨by rw [← set_get_ne _ hi]; exact hl''.1, hl''.2⟩
      · intro i hg
        rw [hst1]
        obtain ⟨wi, hli⟩ := K.held i hg
        by_cases hi : w = i
        · subst hi; exact ⟨_, hl0⟩
        · exact ⟨wi, by show (WinTree.set st.tree w _).wins[i]? = some wi; rw [set_get_ne _ hi]; exact hli.1, hli.2⟩
      · intro c cw p hl' hp hg
        rw [hst1] at hl'
        have hl'' : LiveW (WinTree.set st.tree w { ww with refcount := ww.refcount + 1 }) c cw := hl'
        by_cases hc : w = c
        · subst hc
          have := LiveW.unique hl'' hl0; subst this
          exact K.disc w ww p hw hp hg
        · exact K.disc c cw p ⟨by rw [← set_get_ne _ hc]; exact hl''.1, hl''.2⟩ hp hg
      · rw [hst1]
        refine ⟨set_size _ _ _, ?_, ?_⟩
        · intro i w' p hw' hp'
          have hw'' : (WinTree.set st.tree w { ww with refcount := ww.refcount + 1 }).wins[i]? = some w' := hw'
          by_cases hi : w = i
          · subst hi
            rw [set_get_self _ hw.lt] at hw''; cases hw''
            exact ⟨ww, hw.1, hp'⟩
          · rw [set_get_ne _ hi] at hw''; exact ⟨w', hw'', hp'⟩
        · intro i w' hl'
          have hl'' : LiveW (WinTree.set st.tree w { ww with refcount := ww.refcount + 1 }) i w' := hl'
          by_cases hi : w = i
          · subst hi; exact ⟨ww, hw⟩
          · exact ⟨w', by rw [← set_get_ne _ hi]; exact hl''.1, hl''.2⟩
    · left; simp only [hh, Bool.false_eq_true, if_false]
  case close w =>
    by_cases hh : heldW st w = true
    · right
      obtain ⟨ww, hw, _⟩ := heldW_spec hh
      simp only [hh, if_true]
      obtain ⟨t', hc, C⟩ := closeT_ok R.closePurges R.dragForgottenOnClose K.inv.tinv hw
      have K' := K.of_closed hw C
      refine ⟨_, by rw [liftT_ok hc], K', ⟨C.size_eq, ?_, ?_⟩⟩
      · intro i w' p hw' hp'
        have hw'' : t'.wins[i]? = some w' := hw'
        cases h0 : st.tree.wins[i]? with
        | none =>
          have hlt : ¬ i < st.tree.wins.size := by
            intro hlt
            have := Array.getElem?_eq_getElem (xs := st.tree.wins) hlt
            rw [h0] at this; cases this
          have : t'.wins[i]? = none := Array.getElem?_eq_none (by rw [C.size_eq]; omega)
          rw [hw''] at this; cases this
        | some w0 =>
          by_cases hi : i = w
          · subst hi
            rw [C.win_now.1] at hw''; cases hw''
            cases hp'
          · rcases C.others i w0 hi h0 with ⟨_, h⟩ | ⟨_, h⟩
            · rw [hw''] at h; cases h; exact ⟨w', rfl, hp'⟩
            · rw [hw''] at h; cases h; exact ⟨w0, rfl, hp'⟩
      · intro i w' hl'
        have hl'' : LiveW t' i w' := hl'
        cases h0 : st.tree.wins[i]? with
        | none =>
          have hlt : ¬ i < st.tree.wins.size := by
            intro hlt
            have := Array.getElem?_eq_getElem (xs := st.tree.wins) hlt
            rw [h0] at this; cases this
          have : t'.wins[i]? = none := Array.getElem?_eq_none (by rw [C.size_eq]; omega)
          rw [hl''.1] at this; cases this
        | some w0 =>
          by_cases hi : i = w
          · subst hi; exact ⟨ww, hw⟩
          · rcases C.others i w0 hi h0 with ⟨_, h⟩ | ⟨_, h⟩
            · rw [hl''.1] at h; cases h; exact ⟨w', h0, hl''.2⟩
            · rw [hl''.1] at h; cases h; exact ⟨w0, h0, hl''.2⟩
    · left; simp only [hh, Bool.false_eq_true, if_false]
  case restack c w =>
    by_cases hh : (usableW st w && isRestack c) = true
    · right
      simp only [hh, if_true]
      simp only [Bool.and_eq_true] at hh
      obtain ⟨⟨ww, hw⟩, hreach⟩ := usableW_spec K.inv.tinv hh.1
      obtain ⟨t', hq, inv', hwins⟩ := request_ok K.inv.tinv hh.2 hw hreach
      have hrel : TRel st.tree t' := trel_of_wins hwins
      have K' := K.of_rel inv' hrel (SameRC.of_wins hwins)
      exact ⟨_, by rw [liftT_ok hq], K', ⟨by rw [hwins], PSub.of_wins hwins, fun i w' hl' => ⟨w', by rw [← hwins]; exact hl'.1, hl'.2⟩⟩⟩
    · left; simp only [hh, Bool.false_eq_true, if_false]
  case hide w =>
    by_cases hh : usableW st w = true
    · right
      simp only [hh, if_true]
      obtain ⟨⟨ww, hw⟩, _⟩ := usableW_spec K.inv.tinv hh
      obtain ⟨t', hq, inv', hrel, hrc⟩ := hideT_ok K.inv.tinv hw
      exact ⟨_, by rw [liftT_ok hq], K.of_rel inv' hrel hrc, ⟨hrel.1, fun i w' p hw' hp' => by
        obtain ⟨w0, hw0, hr⟩ := hrel.back hw'; exact ⟨w0, hw0, by rw [← hr.1]; exact hp'⟩,
        fun i w' hl' => by obtain ⟨w0, hl0, _⟩ := hrel.live_back hl'; exact ⟨w0, hl0⟩⟩⟩
    · left; simp only [hh, Bool.false_eq_true, if_false]
  case «show» w =>
    by_cases hh : usableW st w = true
    · right
      simp only [hh, if_true]
      obtain ⟨⟨ww, hw⟩, _⟩ := usableW_spec K.inv.tinv hh
      obtain ⟨t', hq, inv', hrel, hrc⟩ := showT_ok K.inv.tinv hw
      exact ⟨_, by rw [liftT_ok hq], K.of_rel inv' hrel hrc, ⟨hrel.1, fun i w' p hw' hp' => by
        obtain ⟨w0, hw0, hr⟩ := hrel.back hw'; exact ⟨w0, hw0, by rw [← hr.1]; exact hp'⟩,
        fun i w' hl' => by obtain ⟨w0, hl0, _⟩ := hrel.live_back hl'; exact ⟨w0, hl0⟩⟩⟩
    · left; simp only [hh, Bool.false_eq_true, if_false]
  case flush =>
    by_cases hh : heldW st 0 = true
    · right
      simp only [hh, if_true]
      obtain ⟨r, hr⟩ := heldW_live hh
      obtain ⟨t', hq, inv', hrel, _, _, hrc⟩ := flushT_ok K.inv.tinv hr
      exact ⟨_, by rw [liftT_ok hq], K.of_rel inv' hrel hrc, ⟨hrel.1, fun i w' p hw' hp' => by
        obtain ⟨w0, hw0, hr⟩ := hrel.back hw'; exact ⟨w0, hw0, by rw [← hr.1]; exact hp'⟩,
        fun i w' hl' => by obtain ⟨w0, hl0, _⟩ := hrel.live_back hl'; exact ⟨w0, hl0⟩⟩⟩
    · left; simp only [hh, Bool.false_eq_true, if_false]
  case unbindSelf =>
    cases self with
    | none => left; rfl
    | some p =>
      obtain ⟨w, id⟩ := p
      simp only
      by_cases hh : (usableW st w && (getX st w).binds.any (fun b => b.id = id && b.used)) = true
      · right
        rw [if_pos hh]
        simp only [Bool.and_eq_true] at hh
        obtain ⟨⟨ww, hw⟩, _⟩ := usableW_spec K.inv.tinv hh.1
        have hlt : w < st.wx.size := by rw [K.inv.wx_size]; exact hw.lt
        generalize hx1 : ({ getX st w with binds := (getX st w).binds.map (fun b => if b.id = id then { b with used := false } else b) } : WinX) = x1
        have hx1p : x1.pen = (getX st w).pen := by rw [← hx1]
        have hx1a : x1.appRefs = (getX st w).appRefs := by rw [← hx1]
        have K1 := K.setX_same w x1 hx1p hx1a
        have hw1 : LiveW (setX st w x1).tree w ww := hw
        have hg1 : getX (setX st w x1) w = x1 := getX_setX_self _ hlt
        unfold unbindEvent
        simp only [getW, get_live hw1, bind_ok, hg1]
        by_cases hit : x1.iterating = true
        · rw [if_pos hit]
          simp only [pure_ok]
          generalize hx2 : ({ x1 with binds := x1.binds.map (fun b => if b.id = id then { b with id := -1, ev := none } else b),
                                      needsDelete := x1.needsDelete || x1.binds.any (fun b => b.id = id) } : WinX) = x2
          have hx2p : x2.pen = (getX (setX st w x1) w).pen := by rw [← hx2, hg1]
          have hx2a : x2.appRefs = (getX (setX st w x1) w).appRefs := by rw [← hx2, hg1]
          exact ⟨_, rfl, K1.setX_same w x2 hx2p hx2a, Shr.of_tree rfl⟩
        · rw [if_neg hit]
          simp only [pure_ok]
          generalize hx2 : ({ x1 with binds := x1.binds.filter (fun b => b.id ≠ id) } : WinX) = x2
          have hx2p : x2.pen = (getX (setX st w x1) w).pen := by rw [← hx2, hg1]
          have hx2a : x2.appRefs = (getX (setX st w x1) w).appRefs := by rw [← hx2, hg1]
          exact ⟨_, rfl, K1.setX_same w x2 hx2p hx2a, Shr.of_tree rfl⟩
      · left; rw [if_neg hh]

theorem runActs_FK {cfg : Cfg} (R : Repaired cfg) {g : Ghost} (self : Id × Int) : ∀ (acts : List Act) {st : St}, FK g st →
    ∃ st', runActs cfg self st acts = .ok st' ∧ FK g st' ∧ Shr st st'
  | [], st, K => ⟨st, rfl, K, Shr.refl st⟩
  | a :: rest, st, K => by
    unfold runActs
    rcases simpleOp_FK R K a (some self) with h | ⟨st1, h, K1, S1⟩
    · simp only [h]
      exact runActs_FK R self rest K
    · simp only [h, bind_ok]
      obtain ⟨st2, h2, K2, S2⟩ := runActs_FK R self rest K1
      exact ⟨st2, h2, K2, S1.trans S2⟩

end Tickit.Life
