import Tickit.Model.RBFlush
/-
  C04 helper lemmas, text part: `next_utf8` reads only the bytes of the sequence it returns (so a character decodes
  the same inside a string, inside a slice of it, and on its own), the terminal's reading of a concatenation of
  characters, and the width counter (`tickit_utf8_ncountmore`) against the decoded character list.
-/
namespace Tickit.RBFlush
open Tickit.RB Tickit.RB.Utf8

/-! ## Bytes -/

theorem byteAt_append_right (pre s : List UInt8) (k : Nat) : byteAt (pre ++ s) (pre.length + k) = byteAt s k := by
  unfold byteAt
  rw [List.getD_eq_getElem?_getD, List.getD_eq_getElem?_getD, List.getElem?_append_right (by omega),
    Nat.add_sub_cancel_left]

theorem byteAt_append_left (s post : List UInt8) (k : Nat) (h : k < s.length) : byteAt (s ++ post) k = byteAt s k := by
  unfold byteAt
  rw [List.getD_eq_getElem?_getD, List.getD_eq_getElem?_getD, List.getElem?_append_left h]

theorem byteAt_take_drop (s : List UInt8) (i n k : Nat) (h : k < n) : byteAt ((s.drop i).take n) k = byteAt s (i + k) := by
  unfold byteAt
  rw [List.getD_eq_getElem?_getD, List.getD_eq_getElem?_getD, List.getElem?_take, if_pos h, List.getElem?_drop]

theorem lt_length_of_byteAt_ne_zero (s : List UInt8) (i : Nat) (h : byteAt s i ≠ 0) : i < s.length := by
  unfold byteAt at h
  rw [List.getD_eq_getElem?_getD] at h
  by_cases hi : i < s.length
  · exact hi
  · rw [List.getElem?_eq_none (by omega)] at h
    simp at h

/-! ## `next_utf8` is local -/

theorem contBytes_congr (s1 s2 : List UInt8) : ∀ (k i1 i2 cp : Nat),
    (∀ j, j < k → byteAt s2 (i2 + j) = byteAt s1 (i1 + j)) → contBytes s2 k i2 cp = contBytes s1 k i1 cp := by
  intro k
  induction k with
  | zero => intro i1 i2 cp _; rfl
  | succ n ih =>
    intro i1 i2 cp h
    unfold contBytes
    have h0 := h 0 (by omega)
    simp only [Nat.add_zero] at h0
    rw [h0]
    by_cases hz : byteAt s1 i1 = 0
    · simp [hz]
    · simp only [hz, if_false]
      apply ih
      intro j hj
      have := h (j + 1) (by omega)
      rw [show i2 + 1 + j = i2 + (j + 1) by omega, show i1 + 1 + j = i1 + (j + 1) by omega]
      exact this

/-- All continuation bytes that were read are non-zero. -/
theorem contBytes_some_ne_zero (s : List UInt8) : ∀ (k i cp r : Nat), contBytes s k i cp = some r →
    ∀ j, j < k → byteAt s (i + j) ≠ 0 := by
  intro k
  induction k with
  | zero => intro i cp r _ j hj; omega
  | succ n ih =>
    intro i cp r h j hj
    unfold contBytes at h
    by_cases hz : byteAt s i = 0
    · simp [hz] at h
    · simp only [hz, if_false] at h
      cases j with
      | zero => simpa using hz
      | succ j' =>
        have := ih (i + 1) _ r h j' (by omega)
        rw [show i + (j' + 1) = i + 1 + j' by omega]
        exact this

/-- `next_utf8` depends only on the bytes of the sequence it returns and on the length limit admitting them. -/
theorem nextUtf8_congr (s1 s2 : List UInt8) (i1 i2 : Nat) (len1 len2 : Option Nat) (d : Dec)
    (h : nextUtf8 s1 i1 len1 = some d)
    (hb : ∀ k, k < d.n → byteAt s2 (i2 + k) = byteAt s1 (i1 + k))
    (hl : ∀ l, len2 = some l → d.n ≤ l) :
    nextUtf8 s2 i2 len2 = some d := by
  unfold nextUtf8 at h
  simp only at h
  by_cases c0 : len1 = some 0
  · simp [c0] at h
  rw [if_neg c0] at h
  by_cases c1 : byteAt s1 i1 = 0
  · simp [c1] at h
  rw [if_neg c1] at h
  by_cases c2 : byteAt s1 i1 < 0x80
  · rw [if_pos c2] at h
    have hd : d = ⟨1, byteAt s1 i1⟩ := by simpa using h.symm
    subst hd
    have hb0 := hb 0 (by simp)
    simp only [Nat.add_zero] at hb0
    unfold nextUtf8
    simp only [hb0]
    have : len2 ≠ some 0 := by
      intro hc; have := hl 0 hc; simp at this
    rw [if_neg this, if_neg c1, if_pos c2]
  rw [if_neg c2] at h
  by_cases c3 : byteAt s1 i1 < 0xc0
  · simp [c3] at h
  rw [if_neg c3] at h
  by_cases c4 : byteAt s1 i1 < 0xf8
  · rw [if_pos c4] at h
    generalize hnb : (if byteAt s1 i1 < 0xe0 then 2 else if byteAt s1 i1 < 0xf0 then 3 else 4) = nb at h
    generalize hc0 : (if byteAt s1 i1 < 0xe0 then byteAt s1 i1 % 32 else if byteAt s1 i1 < 0xf0 then byteAt s1 i1 % 16
      else byteAt s1 i1 % 8) = cp0 at h
    have hnb2 : 2 ≤ nb := by
      rw [← hnb]; split
      · omega
      · split <;> omega
    cases hcb : contBytes s1 (nb - 1) (i1 + 1) cp0 with
    | none =>
      rw [hcb] at h
      cases len1 <;> simp at h
    | some cp =>
      rw [hcb] at h
      have hd : d = ⟨nb, cp⟩ := by
        cases len1 with
        | none => simp at h; exact h.symm
        | some l => simp at h; exact h.2.symm
      subst hd
      have hb0 := hb 0 (by simp; omega)
      simp only [Nat.add_zero] at hb0
      have hcb2 : contBytes s2 (nb - 1) (i2 + 1) cp0 = some cp := by
        rw [contBytes_congr s1 s2 (nb - 1) (i1 + 1) (i2 + 1)]
        · exact hcb
        · intro j hj
          have := hb (j + 1) (by simp; omega)
          rw [show i2 + 1 + j = i2 + (j + 1) by omega, show i1 + 1 + j = i1 + (j + 1) by omega]
          exact this
      unfold nextUtf8
      simp only [hb0]
      cases len2 with
      | none =>
        simp only [reduceCtorEq, if_false]
        rw [if_neg c1, if_neg c2, if_neg c3, if_pos c4, hnb, hc0, hcb2]
      | some l =>
        have hll := hl l rfl
        simp only at hll
        have : ¬ (some l = some 0) := by simp; omega
        rw [if_neg this, if_neg c1, if_neg c2, if_neg c3, if_pos c4, hnb, hc0, hcb2]
        have : ¬ (decide (l < nb) = true) := by simp; omega
        simp [this]
  · rw [if_neg c4] at h; cases h

/-- A decoded sequence has 1 to 4 bytes, none of them NUL. -/
theorem nextUtf8_some_props (s : List UInt8) (i : Nat) (len : Option Nat) (d : Dec)
    (h : nextUtf8 s i len = some d) : 1 ≤ d.n ∧ d.n ≤ 4 ∧ ∀ k, k < d.n → byteAt s (i + k) ≠ 0 := by
  unfold nextUtf8 at h
  simp only at h
  by_cases c0 : len = some 0
  · simp [c0] at h
  rw [if_neg c0] at h
  by_cases c1 : byteAt s i = 0
  · simp [c1] at h
  rw [if_neg c1] at h
  by_cases c2 : byteAt s i < 0x80
  · rw [if_pos c2] at h
    have hd : d = ⟨1, byteAt s i⟩ := by simpa using h.symm
    subst hd
    refine ⟨by simp, by simp, ?_⟩
    intro k hk
    have : k = 0 := by simp at hk; omega
    subst this; simpa using c1
  rw [if_neg c2] at h
  by_cases c3 : byteAt s i < 0xc0
  · simp [c3] at h
  rw [if_neg c3] at h
  by_cases c4 : byteAt s i < 0xf8
  · rw [if_pos c4] at h
    generalize hnb : (if byteAt s i < 0xe0 then 2 else if byteAt s i < 0xf0 then 3 else 4) = nb at h
    generalize hc0 : (if byteAt s i < 0xe0 then byteAt s i % 32 else if byteAt s i < 0xf0 then byteAt s i % 16
      else byteAt s i % 8) = cp0 at h
    have hnb2 : 2 ≤ nb ∧ nb ≤ 4 := by
      rw [← hnb]; split
      · omega
      · split <;> omega
    cases hcb : contBytes s (nb - 1) (i + 1) cp0 with
    | none =>
      rw [hcb] at h
      cases len <;> simp at h
    | some cp =>
      rw [hcb] at h
      have hd : d = ⟨nb, cp⟩ := by
        cases len with
        | none => simp at h; exact h.symm
        | some l => simp at h; exact h.2.symm
      subst hd
      refine ⟨by simp; omega, by simp; omega, ?_⟩
      intro k hk
      simp only at hk
      cases k with
      | zero => simpa using c1
      | succ k' =>
        have := contBytes_some_ne_zero s (nb - 1) (i + 1) cp0 cp hcb k' (by omega)
        rw [show i + (k' + 1) = i + 1 + k' by omega]
        exact this
  · rw [if_neg c4] at h; cases h

theorem nextUtf8_some_le_length (s : List UInt8) (i : Nat) (len : Option Nat) (d : Dec)
    (h : nextUtf8 s i len = some d) : i + d.n ≤ s.length := by
  obtain ⟨h1, _, h3⟩ := nextUtf8_some_props s i len d h
  have := lt_length_of_byteAt_ne_zero s (i + (d.n - 1)) (h3 (d.n - 1) (by omega))
  omega

/-! ## The terminal's reading of a concatenation of characters -/

/-- The bytes of `c`, on their own, decode to its code point. -/
def SelfDec (c : Ch) : Prop := nextUtf8 c.bytes 0 (some c.bytes.length) = some ⟨c.bytes.length, c.cp⟩

/-- The width the terminal gives a code point. -/
def termWidth (cp : Nat) : Int := if wcwidth cp < 0 then 1 else wcwidth cp

theorem SelfDec.length_pos {c : Ch} (h : SelfDec c) : 1 ≤ c.bytes.length :=
  (nextUtf8_some_props _ _ _ _ h).1

theorem termDecode_flatten (cs : List Ch) (h : ∀ c ∈ cs, SelfDec c) :
    ∀ (pre : List UInt8) (fuel : Nat), cs.length < fuel →
      GridTerm.termDecode (pre ++ cs.flatMap (·.bytes)) fuel pre.length =
        cs.map fun c => ⟨c.bytes, c.cp, termWidth c.cp⟩ := by
  induction cs with
  | nil =>
    intro pre fuel hf
    cases fuel with
    | zero => omega
    | succ f =>
      unfold GridTerm.termDecode
      simp
  | cons c cs ih =>
    intro pre fuel hf
    cases fuel with
    | zero => simp at hf
    | succ f =>
      have hc : SelfDec c := h c (by simp)
      have hpos := hc.length_pos
      unfold GridTerm.termDecode
      simp only [List.flatMap_cons, List.length_append, List.map_cons]
      rw [if_neg (by omega)]
      have hdec : nextUtf8 (pre ++ (c.bytes ++ cs.flatMap (·.bytes))) pre.length
          (some (pre.length + (c.bytes.length + (cs.flatMap (·.bytes)).length) - pre.length)) =
          some ⟨c.bytes.length, c.cp⟩ := by
        apply nextUtf8_congr c.bytes _ 0 pre.length (some c.bytes.length) _ _ hc
        · intro k hk
          simp only at hk
          rw [byteAt_append_right, byteAt_append_left _ _ _ hk, Nat.zero_add]
        · intro l hl
          simp only [Option.some.injEq] at hl
          simp only
          omega
      rw [hdec]
      simp only [List.drop_left, List.take_left]
      congr 1
      have := ih (fun c' hc' => h c' (by simp [hc'])) (pre ++ c.bytes) f (by simp at hf; omega)
      rw [List.append_assoc, List.length_append] at this
      exact this

end Tickit.RBFlush
