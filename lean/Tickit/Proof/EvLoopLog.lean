import Tickit.Proof.EvLoopSig
/-
  The log only grows: every step of the model prepends events to `St.log` (one operation of the harness
  resets it first).  `LogExt st st'`: `st'.log = new ++ st.log`.  With it, "the walk visited watch `a`"
  becomes "the callback of `a` has its entry in the log" (C18: `sigwalk_logged`, `sigsnap_logged`).
  The lemma family mirrors `Grow`/`Pres` of Proof/EvLoop.lean (same compositional proofs).
-/
namespace Tickit.EvLoop

def LogExt (st st' : St) : Prop := ∃ new, st'.log = new ++ st.log

theorem LogExt.refl (st : St) : LogExt st st := ⟨[], rfl⟩
theorem LogExt.trans {a b c : St} (h1 : LogExt a b) (h2 : LogExt b c) : LogExt a c := by
  obtain ⟨n1, e1⟩ := h1
  obtain ⟨n2, e2⟩ := h2
  exact ⟨n2 ++ n1, by rw [e2, e1, List.append_assoc]⟩
theorem LogExt.of_eq {st st' : St} (h : st'.log = st.log) : LogExt st st' := ⟨[], by rw [h]; rfl⟩
theorem LogExt.mem {st st' : St} (h : LogExt st st') {e : Ev} (he : e ∈ st.log) : e ∈ st'.log := by
  obtain ⟨n, hn⟩ := h
  rw [hn]; exact List.mem_append_right _ he

theorem lg_emit (st : St) (e : Ev) : LogExt st (st.emit e) := ⟨[e], rfl⟩
theorem mem_emit (st : St) (e : Ev) : e ∈ (st.emit e).log := List.mem_cons_self
theorem lg_fail (st : St) (w : Ub) : LogExt st (st.fail w) := LogExt.of_eq (St.log_fail st w)
theorem lg_alloc (st : St) (w : Watch) : LogExt st (st.alloc w).1 := LogExt.of_eq rfl
theorem lg_setW (st : St) (a : Nat) (w : Watch) : LogExt st (st.setW a w) := LogExt.of_eq rfl
theorem lg_free (st : St) (a : Nat) : LogExt st (st.free a) := LogExt.of_eq (St.log_free st a)
theorem lg_setEvi (st : St) (a idx : Nat) : LogExt st (st.setW a { st.getW a with evi := idx }) := lg_setW _ _ _
theorem lg_setWstatus (st : St) (a : Nat) (ws : Int) : LogExt st (st.setW a { st.getW a with wstatus := ws }) := lg_setW _ _ _
theorem lg_with_timers (st : St) (l : List Nat) : LogExt st { st with timers := l } := LogExt.of_eq rfl

theorem lg_setListOf (st : St) (t : WType) (l : List Nat) : LogExt st (setListOf st t l) := by
  cases t <;> exact LogExt.of_eq rfl

theorem lg_watchTimerAt (st : St) (due : TV) (flags : Nat) (slot : Int) : LogExt st (watchTimerAt st due flags slot).1 := by
  unfold watchTimerAt
  simp only []
  split
  · exact (lg_alloc st _).trans (lg_with_timers _ _)
  · exact (lg_alloc st _).trans (lg_fail _ _)

theorem lg_raiseSig (st : St) (s : Int) : LogExt st (raiseSig st s) := by
  unfold raiseSig
  split
  · exact LogExt.refl st
  · split
    · exact LogExt.of_eq rfl
    · split
      · unfold sigRecord; split <;> first | exact LogExt.of_eq rfl | exact LogExt.refl _
      · split
        · exact LogExt.of_eq rfl
        · exact LogExt.refl st


theorem lg_evloopIo (st : St) (fd : Int) (cond : Nat) (w : Nat) : LogExt st (evloopIo st fd cond w).1 := by
  unfold evloopIo
  split <;> exact LogExt.of_eq rfl


theorem lg_evloopCancelIo (st : St) (idx : Nat) : LogExt st (evloopCancelIo st idx) := LogExt.of_eq rfl


theorem lg_evloopSignal (st : St) (s : Int) : LogExt st (evloopSignal st s).1 := by
  unfold evloopSignal
  simp only []
  split <;> exact LogExt.of_eq rfl


theorem lg_evloopCancelSignal (st : St) (idx : Nat) : LogExt st (evloopCancelSignal st idx) := by
  unfold evloopCancelSignal
  simp only []
  split
  · exact LogExt.of_eq rfl
  · split
    · split <;> exact LogExt.of_eq rfl
    · exact LogExt.of_eq rfl


theorem lg_insertWatch (st : St) (l : List Nat) (flags new : Nat) : LogExt st (insertWatch st l flags new).1 := by
  unfold insertWatch
  split
  · exact LogExt.refl st
  · split
    · exact LogExt.refl st
    · exact lg_fail st _


theorem lg_notify (st : St) (a flags : Nat) : LogExt st (notify st a flags) := by
  unfold notify
  simp only []
  split
  · exact lg_emit st _
  · exact LogExt.refl st


theorem lg_with_laters (st : St) (l : List Nat) : LogExt st { st with laters := l } := LogExt.of_eq rfl

theorem lg_with_iow (st : St) (l : List Nat) : LogExt st { st with iow := l } := LogExt.of_eq rfl

theorem lg_with_signals (st : St) (l : List Nat) : LogExt st { st with signals := l } := LogExt.of_eq rfl

theorem lg_with_procs (st : St) (l : List Nat) : LogExt st { st with procs := l } := LogExt.of_eq rfl


theorem lg_watchLater (st : St) (flags : Nat) (slot : Int) (puser : Nat) :
    LogExt st (watchLater st flags slot puser).1 := by
  unfold watchLater
  exact ((lg_alloc st _).trans (lg_insertWatch _ _ _ _)).trans (lg_with_laters _ _)


theorem lg_watchIo (st : St) (fd : Int) (cond flags : Nat) (slot : Int) : LogExt st (watchIo st fd cond flags slot).1 := by
  unfold watchIo
  exact ((((lg_alloc st _).trans (lg_evloopIo _ _ _ _)).trans (lg_setEvi _ _ _)).trans
    (lg_insertWatch _ _ _ _)).trans (lg_with_iow _ _)


theorem lg_watchSignalPre (st : St) (signum : Int) (flags : Nat) (slot : Int) :
    LogExt st (watchSignalPre st signum flags slot) := by
  unfold watchSignalPre
  exact ((lg_alloc st _).trans (lg_evloopSignal _ _)).trans (lg_setEvi _ _ _)


theorem lg_watchSignal (st : St) (signum : Int) (flags : Nat) (slot : Int) :
    LogExt st (watchSignal st signum flags slot).1 := by
  unfold watchSignal
  exact ((lg_watchSignalPre st _ _ _).trans (lg_insertWatch _ _ _ _)).trans (lg_with_signals _ _)


theorem lg_waitpid (st : St) (pid : Int) : LogExt st (waitpid st pid).st := by
  unfold waitpid
  split
  · split
    · exact LogExt.of_eq rfl
    · split <;> exact LogExt.of_eq rfl
  · exact LogExt.refl st


theorem lg_ensureSigchld (st : St) : LogExt st (ensureSigchld st) := by
  unfold ensureSigchld
  split
  · exact LogExt.refl _
  · exact (lg_watchSignal _ _ _ _).trans (LogExt.of_eq rfl)


theorem lg_setNotify (st : St) (a : Nat) (n : Option Nat) : LogExt st (setNotify st a n) := by
  unfold setNotify
  exact lg_setW st a { st.getW a with notify := n }

theorem lg_linkNotified (r : St × Nat) (a : Nat) (flags : Nat) : LogExt r.1 (linkNotified r a flags) := by
  unfold linkNotified
  exact ((lg_setNotify r.1 a (some r.2)).trans (lg_insertWatch _ _ _ _)).trans (lg_with_procs _ _)

theorem lg_clearNotify (st : St) (a : Nat) : LogExt st (clearNotify st a) := by
  unfold clearNotify
  split
  · exact lg_setNotify st a none
  · exact LogExt.refl _

theorem lg_linkProcess (st : St) (a : Nat) (pid : Int) (flags : Nat) : LogExt st (linkProcess st a pid flags) := by
  unfold linkProcess
  simp only []
  split
  · split
    · exact (((lg_waitpid _ _).trans (lg_setWstatus _ _ _)).trans (lg_watchLater _ _ _ _)).trans (lg_linkNotified _ _ _)
    · exact ((lg_waitpid _ _).trans (lg_setWstatus _ _ _)).trans (lg_watchLater _ _ _ _)
  · exact ((lg_waitpid _ _).trans (lg_insertWatch _ _ _ _)).trans (lg_with_procs _ _)


theorem lg_watchProcess (st : St) (pid : Int) (flags : Nat) (slot : Int) :
    LogExt st (watchProcess st pid flags slot).1 := by
  unfold watchProcess
  exact ((lg_alloc st _).trans (lg_ensureSigchld _)).trans (lg_linkProcess _ _ _ _)


theorem lg_watchTimerAfterMsec (st : St) (msec : Int) (flags : Nat) (slot : Int) :
    LogExt st (watchTimerAfterMsec st msec flags slot).1 := by
  unfold watchTimerAfterMsec
  exact (lg_emit st _).trans (lg_watchTimerAt _ _ _ _)


theorem lg_cancelHook (st : St) (t : WType) (evi : Nat) : LogExt st (cancelHook st t evi) := by
  unfold cancelHook
  split
  · exact lg_evloopCancelIo _ _
  · exact lg_evloopCancelSignal _ _
  · exact LogExt.refl _


theorem lg_cancelNotify (st : St) (a : Nat) (w : Watch) : LogExt st (cancelNotify st a w) := by
  unfold cancelNotify
  split
  · exact lg_notify _ _ _
  · exact LogExt.refl _


theorem lg_cancelRest (st : St) (rest : List Nat) : LogExt st (cancelRest st rest) := by
  unfold cancelRest
  split
  · exact LogExt.refl _
  · split
    · exact lg_fail _ _
    · exact LogExt.refl _


theorem lg_cancelFound (st : St) (a : Nat) (w : Watch) (l : List Nat) : LogExt st (cancelFound st a w l) := by
  unfold cancelFound
  exact ((((lg_setListOf st _ _).trans (lg_cancelNotify _ a w)).trans (lg_cancelHook _ w.type w.evi)).trans (lg_free _ a)).trans
    (lg_cancelRest _ _)

theorem lg_cancelDetached (st : St) (a : Nat) : LogExt st (cancelDetached st a) := by
  unfold cancelDetached
  exact (lg_cancelNotify st a _).trans (lg_setW _ _ _)

theorem lg_laterPre (st : St) (a : Nat) : LogExt st (laterPre st a) := by
  unfold laterPre
  split
  · exact (lg_setW _ _ _)
  · exact LogExt.refl _

theorem lg_watchCancel0 (st : St) (a : Nat) : LogExt st (watchCancel0 st a) := by
  unfold watchCancel0
  split
  · exact LogExt.refl st
  · split
    · exact (lg_fail st _)
    · split
      · exact LogExt.refl st
      · split
        · exact (lg_fail st _)
        · split
          · split
            · exact lg_cancelDetached st a
            · exact LogExt.refl st
          · exact lg_cancelFound st a _ _


theorem lg_watchCancel (st : St) (a : Nat) : LogExt st (watchCancel st a) := by
  unfold watchCancel
  split
  · split
    · exact (lg_watchCancel0 st a).trans (lg_watchCancel0 _ _)
    · exact lg_watchCancel0 st a
  · exact lg_watchCancel0 st a

theorem lg_with_slots (st : St) (l : List SlotRec) : LogExt st { st with slots := l } := LogExt.of_eq rfl

theorem lg_with_errno (st : St) (e : Int) : LogExt st { st with errno := e } := LogExt.of_eq rfl

theorem lg_with_children (st : St) (l : List Proc) : LogExt st { st with children := l } := LogExt.of_eq rfl

theorem lg_with_stillRunning (st : St) (b : Bool) : LogExt st { st with stillRunning := b } := LogExt.of_eq rfl

theorem lg_with_inRun (st : St) (b : Bool) : LogExt st { st with inRun := b } := LogExt.of_eq rfl


theorem lg_doRegister (st : St) (k : Int) (reg : St → St × Nat) (h : ∀ s, LogExt s (reg s).1) :
    LogExt st (doRegister st k reg) := by
  unfold doRegister
  split
  · exact (lg_emit _ _)
  · split
    · exact (lg_emit _ _)
    · exact (h st).trans (lg_with_slots _ _)


theorem lg_with_cancelReq (st : St) (l : List Int) : LogExt st { st with cancelReq := l } := LogExt.of_eq rfl

theorem lg_doCancel (st : St) (k : Int) : LogExt st (doCancel st k) := by
  unfold doCancel
  split
  · exact (lg_emit _ _)
  · exact (lg_with_cancelReq _ _).trans (lg_watchCancel _ _)


theorem lg_runAct (st : St) (act : Act) : LogExt st (runAct st act) := by
  unfold runAct
  split
  · exact LogExt.refl _
  · split
    · split
      · exact lg_doRegister _ _ _ (fun s => lg_watchTimerAfterMsec s _ _ _)
      · exact LogExt.refl _
    · split
      · exact lg_doRegister _ _ _ (fun s => lg_watchTimerAt s _ _ _)
      · exact LogExt.refl _
    · exact lg_doRegister _ _ _ (fun s => (lg_watchLater s _ _ _))
    · exact lg_doRegister _ _ _ (fun s => (lg_watchIo s _ _ _ _))
    · split
      · exact lg_doRegister _ _ _ (fun s => (lg_watchSignal s _ _ _))
      · exact LogExt.refl _
    · split
      · exact lg_doRegister _ _ _ (fun s => (lg_watchProcess s _ _ _))
      · exact LogExt.refl _
    · exact lg_doCancel _ _
    · exact (lg_with_errno _ _)
    · split
      · exact (lg_raiseSig _ _)
      · exact LogExt.refl _
    · split
      · split
        · exact LogExt.refl _
        · exact (lg_with_children _ _)
      · exact LogExt.refl _
    · exact (lg_with_stillRunning _ _)
    · exact LogExt.refl _


theorem lg_runActs (acts : List Act) : ∀ st : St,
    LogExt st (acts.foldl (fun st act => if st.isOk then runAct (st.emit .a) act else st) st) := by
  induction acts with
  | nil => intro st; exact LogExt.refl st
  | cons a rest ih =>
    intro st
    simp only [List.foldl_cons]
    refine LogExt.trans ?_ (ih _)
    split
    · exact (lg_emit _ _).trans (lg_runAct _ _)
    · exact LogExt.refl _


theorem lg_fireUser (st : St) (k : Int) (flags : Nat) (info : Info) : LogExt st (fireUser st k flags info) := by
  unfold fireUser
  simp only []
  split
  · exact (lg_emit _ _)
  · split
    · exact (lg_emit _ _).trans (lg_with_slots _ _)
    · exact ((lg_emit _ _).trans (lg_with_slots _ _)).trans (lg_runActs _ _)


theorem lg_with_status (st : St) (x : Status) : LogExt st { st with status := x } := LogExt.of_eq rfl


theorem lg_fireIf (st : St) (c : Prop) [Decidable c] (k : Int) (flags : Nat) (info : Info) :
    LogExt st (if c then fireUser st k flags info else st) := by
  split
  · exact lg_fireUser _ _ _ _
  · exact LogExt.refl _


theorem lg_unlinkOneshot (st : St) (a : Nat) : LogExt st (unlinkOneshot st a) := by
  unfold unlinkOneshot
  split
  · exact lg_fail _ _
  · split
    · exact LogExt.refl _
    · split
      · exact lg_fail _ _
      · split
        · exact LogExt.refl _
        · exact ((lg_setListOf st _ _).trans (lg_setW _ _ _)).trans (lg_free _ a)

theorem lg_unlinkOneshotSaved (st : St) (a : Nat) (t : WType) : LogExt st (unlinkOneshotSaved st a t) := by
  unfold unlinkOneshotSaved
  split
  · exact LogExt.refl _
  · split
    · exact lg_fail _ _
    · split
      · exact LogExt.refl _
      · exact ((lg_setListOf st _ _).trans (lg_setW _ _ _)).trans (lg_free _ a)

theorem lg_invokeWatch (st : St) (a : Nat) (flags : Nat) (info : Info) : LogExt st (invokeWatch st a flags info) := by
  unfold invokeWatch
  have hf := lg_fireIf st ((st.getW a).slot ≥ 0) (st.getW a).slot flags info
  generalize (if (st.getW a).slot ≥ 0 then fireUser st (st.getW a).slot flags info else st) = s1 at hf ⊢
  split
  · exact LogExt.refl _
  · split
    · exact (lg_fail _ _)
    · split
      · exact hf
      · split
        · exact hf.trans (lg_unlinkOneshotSaved _ a _)
        · exact hf.trans (lg_unlinkOneshot _ a)


theorem lg_waitpidV (st : St) (pid : Int) : LogExt st (waitpidV st pid).st := by
  unfold waitpidV
  split
  · exact lg_waitpid _ _
  · exact LogExt.refl _


theorem lg_procStep (st : St) (a : Nat) : LogExt st (procStep st a) := by
  unfold procStep
  split
  · exact (lg_waitpidV _ _)
  · exact (lg_waitpidV _ _).trans (lg_invokeWatch _ _ _ _)


theorem lg_outOfFuel (st : St) : LogExt st (if st.isOk then { st with status := .outOfFuel } else st) := by
  split
  · exact (lg_with_status _ _)
  · exact LogExt.refl _


theorem lg_onSigchld (fuel : Nat) : ∀ (st : St) (this : Option Nat), LogExt st (onSigchld fuel st this) := by
  induction fuel with
  | zero => intro st this; unfold onSigchld; exact lg_outOfFuel st
  | succ n ih =>
    intro st this
    unfold onSigchld
    split
    · exact LogExt.refl _
    · split
      · exact LogExt.refl _
      · split
        · exact (lg_fail _ _)
        · exact (lg_procStep _ _).trans (ih _ _)


theorem lg_procSnapLoop (l : List Nat) : ∀ st : St, LogExt st (procSnapLoop st l) := by
  induction l with
  | nil => intro st; exact LogExt.refl st
  | cons a rest ih =>
    intro st
    unfold procSnapLoop
    split
    · exact LogExt.refl _
    · split
      · exact (lg_fail _ _)
      · split
        · exact ih _
        · split
          · exact (lg_fail _ _)
          · exact (lg_procStep _ _).trans (ih _)


theorem lg_onSigchldAny (fuel : Nat) (st : St) : LogExt st (onSigchldAny fuel st) := by
  unfold onSigchldAny
  split
  · split
    · exact (lg_fail _ _)
    · exact lg_procSnapLoop _ _
  · exact lg_onSigchld _ _ _


theorem lg_processNotify (st : St) (a : Nat) : LogExt st (processNotify st a) := by
  unfold processNotify
  split
  · exact (lg_fail _ _)
  · exact (lg_clearNotify _ _).trans (lg_invokeWatch _ _ _ _)


theorem lg_laterCb (st : St) (a : Nat) : LogExt st (laterCb st a) := by
  unfold laterCb
  split
  · exact lg_fireUser _ _ _ _
  · split
    · exact lg_processNotify _ _
    · exact LogExt.refl _


theorem lg_laterLoopT (l : List Nat) : ∀ st : St, LogExt st (laterLoopT st l).1 := by
  induction l with
  | nil => intro st; exact LogExt.refl st
  | cons a rest ih =>
    intro st
    unfold laterLoopT
    split
    · exact LogExt.refl _
    · split
      · exact (lg_fail _ _)
      · split
        · exact (lg_free _ a).trans (ih _)
        · split
          · exact ((lg_laterPre st a).trans (lg_laterCb _ a))
          · split
            · exact (((lg_laterPre st a).trans (lg_laterCb _ a))).trans (lg_fail _ _)
            · exact ((((lg_laterPre st a).trans (lg_laterCb _ a))).trans (lg_free _ a)).trans (ih _)


theorem lg_laterLoop (l : List Nat) (st : St) : LogExt st (laterLoop st l) := lg_laterLoopT l st


theorem lg_timerLoopT (fuel : Nat) : ∀ (st : St) (now : TV) (this : Option Nat), LogExt st (timerLoopT fuel st now this).1 := by
  induction fuel with
  | zero => intro st now this; unfold timerLoopT; exact lg_outOfFuel st
  | succ n ih =>
    intro st now this
    unfold timerLoopT
    split
    · exact LogExt.refl _
    · split
      · exact LogExt.refl _
      · rename_i a
        split
        · exact (lg_fail _ _)
        · split
          · exact LogExt.refl _
          · simp only []
            split
            · exact lg_fireUser _ _ _ _
            · split
              · exact (lg_fireUser _ _ _ _).trans (lg_fail _ _)
              · exact ((lg_fireUser _ _ _ _).trans (lg_free _ a)).trans (ih _ _ _)


theorem lg_timerLoopPopT (fuel : Nat) : ∀ (st : St) (now : TV), LogExt st (timerLoopPopT fuel st now).1 := by
  induction fuel with
  | zero => intro st now; unfold timerLoopPopT; exact lg_outOfFuel st
  | succ n ih =>
    intro st now
    unfold timerLoopPopT
    split
    · exact LogExt.refl _
    · split
      · exact LogExt.refl _
      · rename_i a rest hq
        split
        · exact lg_fail _ _
        · split
          · exact LogExt.refl _
          · have h1 := (lg_with_timers st rest).trans (lg_fireUser { st with timers := rest } (st.getW a).slot (EV_FIRE ||| EV_UNBIND) .none)
            simp only []
            split
            · exact h1
            · split
              · exact h1.trans (lg_fail _ _)
              · exact (h1.trans (lg_free _ a)).trans (ih _ _)

theorem lg_timerPhaseShipped (fuel : Nat) (st : St) (now : TV) : LogExt st (timerPhaseShipped fuel st now) := by
  unfold timerPhaseShipped timerLoop
  simp only []
  split
  · exact (lg_timerLoopT _ _ _ _).trans (lg_with_timers _ _)
  · exact lg_timerLoopT _ _ _ _

theorem lg_timerPhase (fuel : Nat) (st : St) : LogExt st (timerPhase fuel st) := by
  unfold timerPhase
  split
  · exact LogExt.refl _
  · split
    · exact (lg_emit _ _).trans (lg_timerLoopPopT _ _ _)
    · exact (lg_emit _ _).trans (lg_timerPhaseShipped _ _ _)


theorem lg_invokeTimers (fuel : Nat) (st : St) : LogExt st (invokeTimers fuel st) := by
  unfold invokeTimers
  split
  · exact LogExt.refl _
  · exact ((lg_with_laters st []).trans (lg_timerPhase _ _)).trans (lg_laterLoop _ _)


theorem lg_sigCb (fuel : Nat) (st : St) (a : Nat) (s : Int) : LogExt st (sigCb fuel st a s) := by
  unfold sigCb
  split
  · split
    · exact lg_fireUser _ _ _ _
    · split
      · exact lg_onSigchldAny _ _
      · split
        · exact (lg_with_stillRunning _ _)
        · exact LogExt.refl _
  · exact LogExt.refl _


theorem lg_sigwatchLoopT (fuel : Nat) : ∀ (st : St) (s : Int) (this : Option Nat), LogExt st (sigwatchLoopT fuel st s this).1 := by
  induction fuel with
  | zero => intro st s this; unfold sigwatchLoopT; exact lg_outOfFuel st
  | succ n ih =>
    intro st s this
    unfold sigwatchLoopT
    split
    · exact LogExt.refl _
    · split
      · exact LogExt.refl _
      · split
        · exact (lg_fail _ _)
        · split
          · exact lg_sigCb _ _ _ _
          · split
            · exact (lg_sigCb _ _ _ _).trans (lg_fail _ _)
            · exact (lg_sigCb _ _ _ _).trans (ih _ _ _)


theorem lg_sigwatchLoop (fuel : Nat) (st : St) (s : Int) (this : Option Nat) : LogExt st (sigwatchLoop fuel st s this) :=
  lg_sigwatchLoopT fuel st s this


theorem lgG_sigSnapLoop (cb : St → Nat → St) (hcb : ∀ st a, LogExt st (cb st a)) (l : List Nat) :
    ∀ st : St, LogExt st (sigSnapLoopG cb st l).1 := by
  induction l with
  | nil => intro st; exact LogExt.refl st
  | cons a rest ih =>
    intro st
    unfold sigSnapLoopG
    split
    · exact LogExt.refl _
    · split
      · exact lg_fail _ _
      · split
        · exact ih _
        · split
          · exact lg_fail _ _
          · exact (hcb _ _).trans (ih _)

theorem lg_sigSnapLoopT (fuel : Nat) (s : Int) (l : List Nat) : ∀ st : St, LogExt st (sigSnapLoopT fuel st s l).1 := by
  intro st
  rw [sigSnapLoopT_eq_G]
  exact lgG_sigSnapLoop _ (fun st a => lg_sigCb fuel st a s) l st

theorem lg_sigDispatch (fuel : Nat) (st : St) (s : Int) : LogExt st (sigDispatch fuel st s) := by
  unfold sigDispatch
  split
  · split
    · exact (lg_fail _ _)
    · exact lg_sigSnapLoopT _ _ _ _
  · exact lg_sigwatchLoop _ _ _ _


theorem lg_dispatchLoop (fuel : Nat) (pending : List Int) (l : List Int) : ∀ st : St, LogExt st (dispatchLoop fuel st pending l) := by
  induction l with
  | nil => intro st; exact LogExt.refl st
  | cons s rest ih =>
    intro st
    unfold dispatchLoop
    refine LogExt.trans ?_ (ih _)
    split
    · exact lg_sigDispatch _ _ _
    · exact LogExt.refl _


theorem lg_with_pendingSig (st : St) (l : List Int) : LogExt st { st with pendingSig := l } := LogExt.of_eq rfl


theorem lg_dispatchSignals (fuel : Nat) (st : St) : LogExt st (dispatchSignals fuel st) := by
  unfold dispatchSignals
  exact (lg_with_pendingSig st []).trans (lg_dispatchLoop _ _ _ _)


theorem lg_ioCb (st : St) (s : PollSlot) : LogExt st (ioCb st s) := by
  unfold ioCb
  split
  · split
    · exact (lg_fail _ _)
    · exact lg_invokeWatch _ _ _ _
  · exact LogExt.refl _


theorem lg_ioLoopT (fuel : Nat) : ∀ (st : St) (idx : Nat), LogExt st (ioLoopT fuel st idx).1 := by
  induction fuel with
  | zero => intro st idx; unfold ioLoopT; exact lg_outOfFuel st
  | succ n ih =>
    intro st idx
    unfold ioLoopT
    split
    · exact LogExt.refl _
    · split
      · exact LogExt.refl _
      · split
        · exact ih _ _
        · split
          · exact ih _ _
          · exact (lg_ioCb _ _).trans (ih _ _)


theorem lg_ioLoop (fuel : Nat) (st : St) (idx : Nat) : LogExt st (ioLoop fuel st idx) := lg_ioLoopT fuel st idx

theorem lg_foldl_raiseSig (l : List Int) : ∀ st : St, LogExt st (l.foldl raiseSig st) := by
  induction l with
  | nil => intro st; exact LogExt.refl st
  | cons s rest ih => intro st; exact (lg_raiseSig st s).trans (ih _)


theorem lg_pollScan (st : St) : LogExt st (pollScan st) := LogExt.of_eq rfl

theorem lg_with_inpoll (st : St) (l : List Int) : LogExt st { st with inpoll := l } := LogExt.of_eq rfl


theorem lg_pollRaise (st : St) : LogExt st (pollRaise st) := by
  unfold pollRaise
  exact (lg_with_inpoll st []).trans (lg_foldl_raiseSig _ _)


theorem lg_pollTimeout (st : St) (t : Option Int) : LogExt st (pollTimeout st t) := by
  unfold pollTimeout
  split
  · exact LogExt.of_eq rfl
  · exact LogExt.refl _


theorem lg_deliverPending (st : St) : LogExt st (deliverPending st) := by
  unfold deliverPending
  split <;> exact LogExt.of_eq rfl


theorem lg_ppoll (st : St) (t : Option Int) : LogExt st (ppoll st t).1 := by
  unfold ppoll
  split
  · exact (lg_pollScan st).trans (lg_pollRaise _)
  · split
    · exact ((lg_pollScan st).trans (lg_pollRaise _)).trans (lg_emit _ _)
    · split
      · exact ((((lg_pollScan st).trans (lg_pollRaise _)).trans (lg_deliverPending _)).trans (lg_with_errno _ _)).trans (lg_emit _ _)
      · exact (((lg_pollScan st).trans (lg_pollRaise _)).trans (lg_pollTimeout _ _)).trans (lg_emit _ _)


theorem lg_nextTimerMsec (st : St) : LogExt st (nextTimerMsec st).1 := by
  unfold nextTimerMsec
  split
  · exact LogExt.refl _
  · split
    · exact LogExt.refl _
    · split
      · exact (lg_emit _ _).trans (lg_fail _ _)
      · exact lg_emit _ _


theorem lg_tickAfterPoll (fuel : Nat) (st : St) (ret : Option Nat) : LogExt st (tickAfterPoll fuel st ret) := by
  unfold tickAfterPoll
  split
  · exact lg_invokeTimers _ _
  · split
    · split
      · exact (lg_invokeTimers _ _).trans (lg_ioLoop _ _ _)
      · exact lg_invokeTimers _ _
    · split
      · exact (lg_invokeTimers _ _).trans (lg_dispatchSignals _ _)
      · exact lg_invokeTimers _ _


theorem lg_tick (fuel : Nat) (st : St) (nohang : Bool) : LogExt st (tick fuel st nohang) := by
  unfold tick
  split
  · exact LogExt.refl _
  · split
    · exact (lg_nextTimerMsec _)
    · split
      · exact ((lg_nextTimerMsec _).trans (lg_ppoll _ _))
      · exact ((lg_nextTimerMsec _).trans (lg_ppoll _ _)).trans (lg_tickAfterPoll _ _ _)


theorem lg_ppollRun (st : St) (t : Option Int) : LogExt st (ppollRun st t).1 := by
  unfold ppollRun
  split
  · exact lg_ppoll _ _
  · split
    · exact ((lg_ppoll st t).trans (LogExt.of_eq rfl : LogExt (ppoll st t).1
        { (ppoll st t).1 with runPolls := (ppoll st t).1.runPolls + 1, stillRunning := false })).trans (lg_emit _ _)
    · exact (lg_ppoll st t).trans (LogExt.of_eq rfl : LogExt (ppoll st t).1
        { (ppoll st t).1 with runPolls := (ppoll st t).1.runPolls + 1 })


theorem lg_runIter (fuel : Nat) (st : St) : LogExt st (runIter fuel st) := by
  unfold runIter
  split
  · exact LogExt.refl _
  · split
    · exact (lg_nextTimerMsec _)
    · split
      · exact ((lg_nextTimerMsec _).trans (lg_ppollRun _ _))
      · exact ((lg_nextTimerMsec _).trans (lg_ppollRun _ _)).trans (lg_tickAfterPoll _ _ _)


theorem lg_runLoop (fuel : Nat) (n : Nat) : ∀ st : St, LogExt st (runLoop fuel n st) := by
  induction n with
  | zero => intro st; unfold runLoop; exact lg_outOfFuel st
  | succ k ih =>
    intro st
    unfold runLoop
    split
    · exact LogExt.refl _
    · split
      · exact LogExt.refl _
      · exact (lg_runIter _ _).trans (ih _)


theorem lg_run_flags (st : St) : LogExt st { st with stillRunning := true, inRun := true, runPolls := 0 } := LogExt.of_eq rfl
theorem lg_run_start (st : St) : LogExt st { (watchSignal st 2 0 (-5)).1 with stillRunning := true, inRun := true, runPolls := 0 } :=
  (lg_watchSignal st 2 0 (-5)).trans (lg_run_flags _)

theorem lg_run (fuel : Nat) (st : St) : LogExt st (run fuel st) := by
  unfold run
  split
  · exact LogExt.refl _
  · split
    · exact (lg_run_start st).trans (lg_runLoop _ _ _)
    · exact (((lg_run_start st).trans (lg_runLoop _ _ _)).trans (lg_with_inRun _ _)).trans
        (lg_watchCancel _ _)


theorem lg_destroyNotify (st : St) (a : Nat) : LogExt st (destroyNotify st a) := by
  unfold destroyNotify
  split
  · exact lg_notify _ _ _
  · exact LogExt.refl _


theorem lg_destroyList (t : WType) (l : List Nat) : ∀ st : St, LogExt st (destroyList st t l) := by
  induction l with
  | nil => intro st; exact LogExt.refl st
  | cons a rest ih =>
    intro st
    unfold destroyList
    split
    · exact LogExt.refl _
    · split
      · exact lg_fail _ _
      · exact (((lg_destroyNotify _ _).trans (lg_cancelHook _ _ _)).trans (lg_free _ a)).trans (ih _)




/-! ### visited ⇒ logged -/

/-- The harness's callback logs its invocation before it does anything else. -/
theorem mem_fireUser (st : St) (k : Int) (flags : Nat) (info : Info) : Ev.cb k flags info ∈ (fireUser st k flags info).log := by
  unfold fireUser
  simp only []
  split
  · exact mem_emit _ _
  · split
    · exact mem_emit _ _
    · rename_i b _
      exact (lg_runActs b.acts _).mem (mem_emit st _)

/-- A signal watch of the harness whose signal is being dispatched gets its FIRE entry. -/
theorem mem_sigCb (fuel : Nat) (st : St) (a : Nat) (s : Int) (hs : (st.getW a).signum = s) (hk : (st.getW a).slot ≥ 0) :
    Ev.cb (st.getW a).slot EV_FIRE .none ∈ (sigCb fuel st a s).log := by
  unfold sigCb
  rw [if_pos hs, if_pos hk]
  exact mem_fireUser _ _ _ _

/-- The walk as shipped: every harness watch of signal `s` that was in the list at or behind the starting
    point and is still in the list when the walk returns normally has its FIRE entry in the log. -/
theorem sigwalk_logged (fuel : Nat) : ∀ (st : St) (s : Int) (this : Option Nat), SInv st →
    (sigwatchLoopT fuel st s this).1.status = .ok →
    ∀ b, b ∈ (sigwatchLoopT fuel st s this).1.signals →
      (∃ a, this = some a ∧ a ∈ st.signals ∧ (b = a ∨ b ∈ aft a st.signals)) →
      (st.getW b).signum = s → (st.getW b).slot ≥ 0 →
      Ev.cb (st.getW b).slot EV_FIRE .none ∈ (sigwatchLoopT fuel st s this).1.log := by
  induction fuel with
  | zero =>
    intro st s this _ hok
    unfold sigwatchLoopT at hok
    simp only [] at hok
    split at hok
    · cases hok
    · rename_i h; exact absurd ((St.isOk_iff st).mpr hok) h
  | succ n ih =>
    intro st s this i
    unfold sigwatchLoopT
    split
    · rename_i h; intro hok; exact St.not_ok_absurd h hok
    · split
      · intro _ b _ ⟨a, ha, _⟩; cases ha
      · rename_i a
        split
        · intro hok; exact absurd hok (St.status_fail_ne _ _)
        · split
          · rename_i hbad; intro hok; exact St.not_ok_absurd hbad hok
          · split
            · intro hok; exact absurd hok (St.status_fail_ne _ _)
            · rename_i hlive0 hok1 hlive1
              intro hok b hbfin ⟨a', ha', hain, hb⟩ hsig hslot
              simp only [Option.some.injEq] at ha'
              subst ha'
              have f1 := step_sigCb n st a s i
              have i1 := f1.inv
              have lrest := lg_sigwatchLoopT n (sigCb n st a s) s (succOf a (sigCb n st a s).signals)
              cases hb with
              | inl h =>
                subst h
                exact lrest.mem (mem_sigCb n st b s hsig hslot)
              | inr hb =>
                have f2 := step_sigwatchLoopT n (sigCb n st a s) s (succOf a (sigCb n st a s).signals) i1
                have hbst : b ∈ st.signals := mem_of_mem_aft hb
                have hblt : b < st.heap.length := i.alloc b hbst
                have hb1 : b ∈ (sigCb n st a s).signals := by
                  cases f2.fresh b hbfin with
                  | inl h => exact h
                  | inr h => have := f1.ext.len; omega
                have ha1 : a ∈ (sigCb n st a s).signals := by
                  cases f1.leave a hain with
                  | inl h => exact h
                  | inr h =>
                    have : (sigCb n st a s).live a = true := by simpa using hlive1
                    rw [h] at this; cases this
                have hb2 : b ∈ aft a (sigCb n st a s).signals := f1.fwd a b hain ha1 hb1 hb
                have hsame := f1.ext.same b hblt
                cases hq : aft a (sigCb n st a s).signals with
                | nil => rw [hq] at hb2; cases hb2
                | cons nx t =>
                  have hnext : succOf a (sigCb n st a s).signals = some nx := by
                    rw [succOf_eq_head_aft, hq]; rfl
                  have hnx : nx ∈ (sigCb n st a s).signals := mem_of_mem_aft (by rw [hq]; exact List.mem_cons_self)
                  rw [hnext] at hok hbfin ⊢
                  rw [← hsame.2]
                  apply ih _ s (some nx) i1 hok b hbfin
                  · refine ⟨nx, rfl, hnx, ?_⟩
                    rw [hq] at hb2
                    simp only [List.mem_cons] at hb2
                    cases hb2 with
                    | inl h => exact Or.inl h
                    | inr h =>
                      right
                      rw [aft_of_aft_cons a nx _ t i1.nodup hq]
                      exact h
                  · rw [hsame.1]; exact hsig
                  · rw [hsame.2]; exact hslot

/-- The repaired walk, for any body `cb` that respects the list of signal watches, only adds to the log, and logs
    the FIRE entry of a harness watch of signal `s` it is run for: every such watch of the snapshot that is still in
    the list when the walk returns normally has its entry in the log. -/
theorem sigsnapG_logged (cb : St → Nat → St) (s : Int) (hcb : ∀ st a, SigStep st (cb st a)) (hlg : ∀ st a, LogExt st (cb st a))
    (hmem : ∀ st a, (st.getW a).signum = s → (st.getW a).slot ≥ 0 → Ev.cb (st.getW a).slot EV_FIRE .none ∈ (cb st a).log)
    (l : List Nat) : ∀ st : St, SInv st →
    (sigSnapLoopG cb st l).1.status = .ok →
    ∀ b ∈ l, b < st.heap.length → b ∈ (sigSnapLoopG cb st l).1.signals →
      (st.getW b).signum = s → (st.getW b).slot ≥ 0 →
      Ev.cb (st.getW b).slot EV_FIRE .none ∈ (sigSnapLoopG cb st l).1.log := by
  induction l with
  | nil => intro st _ _ b hb; cases hb
  | cons a rest ih =>
    intro st i
    have hstep := stepG_sigSnapLoop cb hcb (a :: rest) st i
    unfold sigSnapLoopG at hstep ⊢
    split
    · rename_i h; intro hok; exact St.not_ok_absurd h hok
    · split
      · intro hok; exact absurd hok (St.status_fail_ne _ _)
      · rename_i hnok hlive
        split
        · rename_i hnot
          rw [if_neg hnok, if_neg hlive, if_pos hnot] at hstep
          intro hok b hb hblt hbfin hsig hslot
          simp only [List.mem_cons] at hb
          cases hb with
          | inl h =>
            subst h
            exfalso
            cases hstep.fresh b hbfin with
            | inl h => simp at hnot; exact hnot h
            | inr h => omega
          | inr h => exact ih st i hok b h hblt hbfin hsig hslot
        · split
          · intro hok; exact absurd hok (St.status_fail_ne _ _)
          · intro hok b hb hblt hbfin hsig hslot
            have f1 := hcb st a i
            have lrest := lgG_sigSnapLoop cb hlg rest (cb st a)
            simp only [List.mem_cons] at hb
            by_cases hba : b = a
            · subst hba
              exact lrest.mem (hmem st b hsig hslot)
            · have hbr : b ∈ rest := by
                cases hb with
                | inl h => exact absurd h hba
                | inr h => exact h
              have hsame := f1.ext.same b hblt
              rw [← hsame.2]
              apply ih _ f1.inv hok b hbr (Nat.lt_of_lt_of_le hblt f1.ext.len) hbfin
              · rw [hsame.1]; exact hsig
              · rw [hsame.2]; exact hslot

/-- The repaired walk: the same for every watch of the snapshot. -/
theorem sigsnap_logged (fuel : Nat) (s : Int) (l : List Nat) : ∀ st : St, SInv st →
    (sigSnapLoopT fuel st s l).1.status = .ok →
    ∀ b ∈ l, b < st.heap.length → b ∈ (sigSnapLoopT fuel st s l).1.signals →
      (st.getW b).signum = s → (st.getW b).slot ≥ 0 →
      Ev.cb (st.getW b).slot EV_FIRE .none ∈ (sigSnapLoopT fuel st s l).1.log := by
  intro st
  rw [sigSnapLoopT_eq_G]
  exact sigsnapG_logged _ s (fun st a => step_sigCb fuel st a s) (fun st a => lg_sigCb fuel st a s)
    (fun st a hs hk => mem_sigCb fuel st a s hs hk) l st

end Tickit.EvLoop
