import Tickit.Model.LifeTmp
/-
  Property C08, proofs about the scratch block of a render buffer (Model/LifeTmp.lean): for runs of every length the block
  `tmp_cat_utf8` grows keeps what was written, `tmplen ≤ tmpsize` is invariant, and `tickit_term_printn` is handed
  nothing but bytes written before.
-/
namespace Tickit
namespace Life

theorem seqlen_bounds (cp : Nat) : 1 ≤ seqlen cp ∧ seqlen cp ≤ 6 := by
  unfold seqlen
  repeat' split
  all_goals omega

theorem utf8Bytes_length (cp : Nat) : (utf8Bytes cp).length = seqlen cp := by
  have := seqlen_bounds cp
  simp [utf8Bytes]
  omega

theorem allSome_map_some (bs : List UInt8) : allSome (bs.map some) = some bs := by
  induction bs with
  | nil => rfl
  | cons b r ih => simp [allSome, ih]

/-- What `flush_to_term` relies on between two `tmp_cat_utf8` calls: the block has room for any one sequence once it is
    doubled, `tmplen ≤ tmpsize`, and `tmp[0 .. tmplen)` are exactly the bytes `bs` appended so far (all of them written). -/
structure Tmp.Holds (t : Tmp) (bs : List UInt8) : Prop where
  big : 6 ≤ t.size
  fits : t.len ≤ t.size
  written : t.mem.take t.len = bs.map some

/-- `rb->tmplen = 0` establishes the invariant whatever the block holds. -/
theorem Tmp.Holds.reset {t : Tmp} (h : 6 ≤ t.size) : ({ t with len := 0 } : Tmp).Holds [] :=
  ⟨h, Nat.zero_le _, by simp⟩

/-- Storing `n` bytes at offset `len` of a block with room for them: same size, the prefix before `len` kept. -/
theorem store_take (mem : List (Option UInt8)) (len n : Nat) (bytes : List UInt8) (hn : bytes.length = n)
    (hroom : len + n ≤ mem.length) :
    (mem.take len ++ bytes.map some ++ mem.drop (len + n)).length = mem.length ∧
    (mem.take len ++ bytes.map some ++ mem.drop (len + n)).take (len + n) = mem.take len ++ bytes.map some := by
  have hl : (mem.take len ++ bytes.map some).length = len + n := by
    simp [List.length_take]; omega
  refine ⟨by simp [List.length_take]; omega, ?_⟩
  rw [← hl, List.take_left']
  rfl

/-- One `tmp_cat_utf8`: the invariant goes through with the character's UTF-8 appended, and the block never shrinks. -/
theorem Tmp.Holds.cat {t : Tmp} {bs : List UInt8} (h : t.Holds bs) (cp : Nat) :
    (t.catUtf8 cp).Holds (bs ++ utf8Bytes cp) ∧ t.size ≤ (t.catUtf8 cp).size := by
  obtain ⟨hbig, hfit, hw⟩ := h
  have hb := seqlen_bounds cp
  have hlen := utf8Bytes_length cp
  unfold Tmp.size at hbig hfit
  -- the block after the (possible) `realloc`
  obtain ⟨mem1, hm1, hroom, hge, hw1⟩ : ∃ mem1, (if t.size < t.len + seqlen cp then t.mem ++ List.replicate t.size none else t.mem) = mem1 ∧
      t.len + seqlen cp ≤ mem1.length ∧ t.mem.length ≤ mem1.length ∧ mem1.take t.len = bs.map some := by
    refine ⟨_, rfl, ?_⟩
    unfold Tmp.size
    split
    · refine ⟨by simp; omega, by simp, ?_⟩
      rw [List.take_append_of_le_length hfit]; exact hw
    · exact ⟨by omega, Nat.le_refl _, hw⟩
  have hst := store_take mem1 t.len (seqlen cp) (utf8Bytes cp) hlen hroom
  have hcat : t.catUtf8 cp = { mem := mem1.take t.len ++ (utf8Bytes cp).map some ++ mem1.drop (t.len + seqlen cp), len := t.len + seqlen cp } := by
    unfold Tmp.catUtf8
    dsimp only
    rw [hm1, if_neg (by omega)]
  rw [hcat]
  refine ⟨⟨?_, ?_, ?_⟩, ?_⟩
  · show 6 ≤ List.length _; rw [hst.1]; omega
  · show _ ≤ List.length _; rw [hst.1]; omega
  · show List.take _ _ = _; rw [hst.2, hw1]; simp
  · show _ ≤ List.length _; rw [hst.1]; exact hge

/-- A run of any length. -/
theorem Tmp.Holds.run {t : Tmp} {bs : List UInt8} (h : t.Holds bs) (cps : List Nat) :
    (cps.foldl Tmp.catUtf8 t).Holds (bs ++ cps.flatMap utf8Bytes) ∧ t.size ≤ (cps.foldl Tmp.catUtf8 t).size := by
  induction cps generalizing t bs with
  | nil => exact ⟨by simpa using h, Nat.le_refl _⟩
  | cons cp r ih =>
    have h1 := h.cat cp
    have h2 := ih h1.1
    simp only [List.foldl_cons, List.flatMap_cons]
    rw [← List.append_assoc]
    exact ⟨h2.1, Nat.le_trans h1.2 h2.2⟩

/-- `tickit_term_printn(tt, rb->tmp, rb->tmplen)` under the invariant: inside the block, written bytes only. -/
theorem Tmp.Holds.read {t : Tmp} {bs : List UInt8} (h : t.Holds bs) : t.read = .ok bs := by
  unfold Tmp.read
  rw [if_neg (by have := h.fits; omega), h.written, allSome_map_some]
  rfl

/-- The whole run: the terminal is sent the UTF-8 of the characters; the block afterwards satisfies the invariant again
    (`tmplen ≤ tmpsize`, the bytes up to `tmplen` are the ones sent) and is at least as large as before. -/
theorem Tmp.lineRun_ok (t : Tmp) (cps : List Nat) (h : 6 ≤ t.size) :
    ∃ t', t.lineRun cps = .ok (t', cps.flatMap utf8Bytes) ∧ t'.Holds (cps.flatMap utf8Bytes) ∧ t.size ≤ t'.size := by
  have hr := (Tmp.Holds.reset h).run cps
  simp only [List.nil_append] at hr
  refine ⟨_, ?_, hr.1, hr.2⟩
  unfold Tmp.lineRun
  show (Tmp.read _ >>= _) = _
  rw [hr.1.read]
  rfl

/-- Run after run through one block, as `tickit_renderbuffer_flush_to_term` does for all LINE runs of a buffer. -/
theorem lineRuns_ok (runs : List (List Nat)) (t : Tmp) (acc : List UInt8) (h : 6 ≤ t.size) :
    ∃ t', runs.foldlM (fun (a : Tmp × List UInt8) run => do
        let (t, bs) ← a.1.lineRun run
        pure (t, a.2 ++ bs)) (t, acc) = Out.ok (t', acc ++ runs.flatMap (fun r => r.flatMap utf8Bytes)) ∧ 6 ≤ t'.size := by
  induction runs generalizing t acc with
  | nil => exact ⟨t, by simp [pure], h⟩
  | cons r rs ih =>
    obtain ⟨t1, h1, _, hs⟩ := Tmp.lineRun_ok t r h
    obtain ⟨t', h2, hs'⟩ := ih t1 (acc ++ r.flatMap utf8Bytes) (Nat.le_trans h hs)
    refine ⟨t', ?_, hs'⟩
    rw [List.foldlM_cons]
    show (Tmp.lineRun t r >>= _) >>= _ = _
    rw [h1]
    show List.foldlM _ (t1, acc ++ r.flatMap utf8Bytes) rs = _
    rw [h2]
    simp [List.append_assoc]

end Life
end Tickit
