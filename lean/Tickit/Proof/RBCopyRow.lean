import Tickit.Model.RB
import Tickit.Model.RBCopy
/-
  Row-level lemmas about `make_span` (`makeSpanRow` = `splitAfter`, `shortenBefore`, CONT-fill) of Model/RB.lean,
  for C13.  (The render-buffer engine proves its own, richer versions in Proof/RB.lean; these are phrased over the
  same definitions and the same well-formedness predicate so that they bridge trivially.)

  `RowWF n row`: runs tile `[0, n)`; a CONT cell points at the start of its run; LINE/CHAR cells are one column.
  `rowContent row C`: what column `C` shows (the start cell of its run, offset by the distance to it).
-/
namespace Tickit.RBCopy
open Tickit Tickit.RB

/-- What a run whose start cell is `c` shows `off` columns further right. -/
def cellContent (c : Cell) (off : Int) : Content :=
  match c.state with
  | .skip => .skip
  | .text => .text c.pen c.text (c.offs + off)
  | .erase => .erase c.pen
  | .line => .line c.pen c.lmask
  | .char => .char c.pen c.cp
  | .cont => .skip

/-- What column `C` of a row shows. -/
def rowContent (row : Row) (C : Int) : Content :=
  if (row.get C).state = .cont then cellContent (row.get (row.get C).cols) (C - (row.get C).cols)
  else cellContent (row.get C) 0

theorem absContent_eq (rb : RB) (L C : Int) :
    absContent rb L C = if 0 ≤ L ∧ L < rb.lines ∧ 0 ≤ C ∧ C < rb.cols then rowContent (rb.cells L) C else .skip := by
  unfold absContent rowContent cellContent RB.cell
  by_cases hg : 0 ≤ L ∧ L < rb.lines ∧ 0 ≤ C ∧ C < rb.cols
  · simp only [hg, and_self, if_true]
    by_cases hc : ((rb.cells L).get C).state = .cont
    · simp only [hc, if_true]; rfl
    · simp only [hc, if_false, Int.add_zero]; rfl
  · simp only [hg, if_false]

/-- Run structure of one line of `n` columns. -/
structure RowWF (n : Int) (row : Row) : Prop where
  cont : ∀ k, 0 ≤ k → k < n → (row.get k).state = .cont →
      0 ≤ (row.get k).cols ∧ (row.get k).cols < k ∧ (row.get (row.get k).cols).state ≠ .cont ∧
      k < (row.get k).cols + (row.get (row.get k).cols).cols
  head : ∀ k, 0 ≤ k → k < n → (row.get k).state ≠ .cont →
      1 ≤ (row.get k).cols ∧ k + (row.get k).cols ≤ n ∧
      (∀ j, k < j → j < k + (row.get k).cols → (row.get j).state = .cont ∧ (row.get j).cols = k)
  one : ∀ k, 0 ≤ k → k < n → ((row.get k).state = .line ∨ (row.get k).state = .char) → (row.get k).cols = 1

/-- The start cell of a run that has a CONT follower is SKIP, TEXT or ERASE. -/
theorem RowWF.head_kind {n : Int} {row : Row} (h : RowWF n row) {k : Int} (hk0 : 0 ≤ k) (hkn : k < n)
    (hc : (row.get k).state = .cont) :
    (row.get (row.get k).cols).state = .skip ∨ (row.get (row.get k).cols).state = .text ∨
    (row.get (row.get k).cols).state = .erase := by
  have ⟨h0, h1, h2, h3⟩ := h.cont k hk0 hkn hc
  have hone := h.one (row.get k).cols h0 (by omega)
  cases hs : (row.get (row.get k).cols).state with
  | skip => simp
  | text => simp
  | erase => simp
  | cont => exact absurd hs h2
  | line => have := hone (Or.inl hs); omega
  | char => have := hone (Or.inr hs); omega

/-! ### Closed forms of the two repair blocks of `make_span` -/

/-- The new start cell written at `end` by the first block. -/
def splitCell (row : Row) (e : Int) : Cell :=
  match (row.get (row.get e).cols).state with
  | .skip => { row.get e with state := .skip, cols := (row.get e).cols + (row.get (row.get e).cols).cols - e }
  | .text => { row.get e with state := .text, cols := (row.get e).cols + (row.get (row.get e).cols).cols - e,
                              pen := (row.get (row.get e).cols).pen, text := (row.get (row.get e).cols).text,
                              offs := (row.get (row.get e).cols).offs + e - (row.get e).cols }
  | .erase => { row.get e with state := .erase, cols := (row.get e).cols + (row.get (row.get e).cols).cols - e,
                               pen := (row.get (row.get e).cols).pen }
  | _ => row.get e

theorem splitAfter_get (n : Int) (row : Row) (e k : Int) :
    (splitAfter n row e).get k =
      if e < n ∧ (row.get e).state = .cont then
        (if k = e then splitCell row e
         else if e + 1 ≤ k ∧ k < (row.get e).cols + (row.get (row.get e).cols).cols then { row.get k with cols := e }
         else row.get k)
      else row.get k := by
  unfold splitAfter splitCell
  by_cases h : e < n ∧ (row.get e).state = .cont
  · simp only [h, and_self, if_true]
    by_cases hk : k = e
    · simp only [hk, if_true]; rfl
    · simp only [hk, if_false]
  · simp only [h, if_false]

theorem shortenBefore_get (row : Row) (col k : Int)
    (hok : (row.get col).state = .cont →
      (row.get (row.get col).cols).state = .skip ∨ (row.get (row.get col).cols).state = .text ∨
      (row.get (row.get col).cols).state = .erase) :
    (shortenBefore row col).get k =
      if (row.get col).state = .cont ∧ k = (row.get col).cols then { row.get k with cols := col - k }
      else row.get k := by
  unfold shortenBefore
  by_cases h : (row.get col).state = .cont
  · simp only [h, if_true, true_and]
    rcases hok h with hs | hs | hs <;> simp only [hs, rowSet] <;>
      (by_cases hk : k = (row.get col).cols
       · subst hk; simp only [if_true]; rw [← hs]
       · simp only [hk, if_false])
  · simp only [h, if_false, false_and]

/-! ### `make_span` in closed form -/

/-- Cells inside the new span: CONT cells pointing at `col`; the start cell carries the length. -/
theorem makeSpanRow_get_in (n : Int) (row : Row) (col cols k : Int) (h1 : col ≤ k) (h2 : k < col + cols) :
    ((makeSpanRow n row col cols).get k).state = .cont ∧ ((makeSpanRow n row col cols).get k).maskdepth = -1 ∧
    ((makeSpanRow n row col cols).get k).cols = (if k = col then cols else col) := by
  unfold makeSpanRow rowSet contCell
  by_cases hk : k = col
  · subst hk
    simp only [if_true, Int.le_refl, true_and, h2]
  · simp only [hk, if_false, h1, h2, and_self, if_true]

/-- Cells outside the new span. -/
theorem makeSpanRow_get_out {n : Int} {row : Row} (hwf : RowWF n row) (col cols k : Int)
    (hc0 : 0 ≤ col) (hc1 : 1 ≤ cols) (hcn : col + cols ≤ n) (hk : ¬ (col ≤ k ∧ k < col + cols)) :
    (makeSpanRow n row col cols).get k =
      if (col + cols < n ∧ (row.get (col + cols)).state = .cont) ∧ k = col + cols then splitCell row (col + cols)
      else if (col + cols < n ∧ (row.get (col + cols)).state = .cont) ∧ col + cols + 1 ≤ k ∧
              k < (row.get (col + cols)).cols + (row.get (row.get (col + cols)).cols).cols then
        { row.get k with cols := col + cols }
      else if (row.get col).state = .cont ∧ k = (row.get col).cols then { row.get k with cols := col - k }
      else row.get k := by
  have hcol_lt : col < n := by omega
  -- the first block leaves everything left of `end` alone
  have hrow1 : ∀ j, j < col + cols → (splitAfter n row (col + cols)).get j = row.get j := by
    intro j hj
    rw [splitAfter_get]
    by_cases hE : col + cols < n ∧ (row.get (col + cols)).state = .cont
    · simp only [hE, and_self, if_true]
      have : ¬ j = col + cols := by omega
      have : ¬ (col + cols + 1 ≤ j ∧ j < (row.get (col + cols)).cols + (row.get (row.get (col + cols)).cols).cols) := by omega
      simp only [*, if_false]
    · simp only [hE, if_false]
  have hbs : (row.get col).state = .cont → (row.get col).cols < col := fun h => (hwf.cont col hc0 hcol_lt h).2.1
  have hok : ((splitAfter n row (col + cols)).get col).state = .cont →
      ((splitAfter n row (col + cols)).get ((splitAfter n row (col + cols)).get col).cols).state = .skip ∨
      ((splitAfter n row (col + cols)).get ((splitAfter n row (col + cols)).get col).cols).state = .text ∨
      ((splitAfter n row (col + cols)).get ((splitAfter n row (col + cols)).get col).cols).state = .erase := by
    rw [hrow1 col (by omega)]
    intro hc
    rw [hrow1 _ (by have := hbs hc; omega)]
    exact hwf.head_kind hc0 hcol_lt hc
  have hkc : ¬ k = col := by omega
  unfold makeSpanRow rowSet
  simp only [hkc, if_false, hk]
  rw [shortenBefore_get _ _ _ hok, hrow1 col (by omega)]
  by_cases hB : (row.get col).state = .cont ∧ k = (row.get col).cols
  · have hlt := hbs hB.1
    have hk' : k < col := by omega
    simp only [hB, and_self, if_true]
    rw [← hB.2, hrow1 k (by omega)]
    have h1 : ¬ ((col + cols < n ∧ (row.get (col + cols)).state = .cont) ∧ k = col + cols) := by omega
    have h2 : ¬ ((col + cols < n ∧ (row.get (col + cols)).state = .cont) ∧ col + cols + 1 ≤ k ∧
              k < (row.get (col + cols)).cols + (row.get (row.get (col + cols)).cols).cols) := by omega
    simp only [h1, h2, if_false]
  · simp only [hB, if_false]
    rw [splitAfter_get]
    by_cases hE : col + cols < n ∧ (row.get (col + cols)).state = .cont
    · simp only [hE, and_self, if_true, true_and]
    · simp only [hE, if_false, false_and]

/-- On a well-formed line `make_span` does not reach `abort()`. -/
theorem makeSpanAborts_false {n : Int} {row : Row} (hwf : RowWF n row) (col cols : Int)
    (hc0 : 0 ≤ col) (hc1 : 1 ≤ cols) (hcn : col + cols ≤ n) : makeSpanAborts n row col cols = false := by
  have hcol_lt : col < n := by omega
  have hrow1 : ∀ j, j < col + cols → (splitAfter n row (col + cols)).get j = row.get j := by
    intro j hj
    rw [splitAfter_get]
    by_cases hE : col + cols < n ∧ (row.get (col + cols)).state = .cont
    · simp only [hE, and_self, if_true]
      have : ¬ j = col + cols := by omega
      have : ¬ (col + cols + 1 ≤ j ∧ j < (row.get (col + cols)).cols + (row.get (row.get (col + cols)).cols).cols) := by omega
      simp only [*, if_false]
    · simp only [hE, if_false]
  unfold makeSpanAborts
  have h1 : splitAfterAborts n row (col + cols) = false := by
    unfold splitAfterAborts
    by_cases hE : col + cols < n ∧ (row.get (col + cols)).state = .cont
    · rw [if_pos hE]
      rcases hwf.head_kind (by omega) hE.1 hE.2 with h | h | h <;> rw [h]
    · rw [if_neg hE]
  have h2 : shortenBeforeAborts (splitAfter n row (col + cols)) col = false := by
    unfold shortenBeforeAborts
    rw [hrow1 col (by omega)]
    by_cases hB : (row.get col).state = .cont
    · rw [if_pos hB]
      have hlt := (hwf.cont col hc0 hcol_lt hB).2.1
      rw [hrow1 _ (by omega)]
      rcases hwf.head_kind hc0 hcol_lt hB with h | h | h <;> rw [h]
    · rw [if_neg hB]
  rw [h1, h2]; rfl

/-! ### The new start cell of the split-off tail -/

theorem splitCell_facts {n : Int} {row : Row} (hwf : RowWF n row) {e : Int} (he0 : 0 ≤ e) (hen : e < n)
    (hc : (row.get e).state = .cont) :
    (splitCell row e).state = (row.get (row.get e).cols).state ∧
    (splitCell row e).cols = (row.get e).cols + (row.get (row.get e).cols).cols - e ∧
    (splitCell row e).maskdepth = (row.get e).maskdepth ∧
    (∀ off, cellContent (splitCell row e) off = cellContent (row.get (row.get e).cols) (e - (row.get e).cols + off)) := by
  rcases hwf.head_kind he0 hen hc with hs | hs | hs
  · refine ⟨?_, ?_, ?_, fun off => ?_⟩ <;> simp only [splitCell, cellContent, hs]
  · refine ⟨?_, ?_, ?_, fun off => ?_⟩ <;> simp only [splitCell, cellContent, hs]
    congr 1; omega
  · refine ⟨?_, ?_, ?_, fun off => ?_⟩ <;> simp only [splitCell, cellContent, hs]

/-! ### The row after `make_span` and the assignments through the returned pointer -/

/-- `make_span(rb, line, col, cols)` followed by `cell->… = …` on the returned start cell. -/
def spanRow (n : Int) (row : Row) (col cols : Int) (f : Cell → Cell) : Row :=
  rowSet (makeSpanRow n row col cols) col (f ((makeSpanRow n row col cols).get col))

/-- What the assignments through the returned pointer may do: they keep length and mask depth and make the cell a
    run start (of one column for LINE and CHAR). -/
structure FillOK (f : Cell → Cell) (cols : Int) : Prop where
  keepCols : ∀ c : Cell, c.cols = cols → (f c).cols = cols
  keepMask : ∀ c : Cell, (f c).maskdepth = c.maskdepth
  isHead : ∀ c : Cell, (f c).state ≠ .cont
  oneCol : ∀ c : Cell, ((f c).state = .line ∨ (f c).state = .char) → cols = 1

/-- Every cell of the new row, by cases. -/
theorem spanRow_cases {n : Int} {row : Row} (hwf : RowWF n row) (col cols : Int) (f : Cell → Cell)
    (hc0 : 0 ≤ col) (hc1 : 1 ≤ cols) (hcn : col + cols ≤ n) (k : Int) :
    (k = col ∧ (spanRow n row col cols f).get k = f ((makeSpanRow n row col cols).get col)) ∨
    (col < k ∧ k < col + cols ∧ ((spanRow n row col cols f).get k).state = .cont ∧
      ((spanRow n row col cols f).get k).cols = col ∧ ((spanRow n row col cols f).get k).maskdepth = -1) ∨
    ((col + cols < n ∧ (row.get (col + cols)).state = .cont) ∧ k = col + cols ∧
      (spanRow n row col cols f).get k = splitCell row (col + cols)) ∨
    ((col + cols < n ∧ (row.get (col + cols)).state = .cont) ∧ col + cols < k ∧
      k < (row.get (col + cols)).cols + (row.get (row.get (col + cols)).cols).cols ∧
      (spanRow n row col cols f).get k = { row.get k with cols := col + cols }) ∨
    ((row.get col).state = .cont ∧ k = (row.get col).cols ∧
      (spanRow n row col cols f).get k = { row.get k with cols := col - k }) ∨
    (¬ (col ≤ k ∧ k < col + cols) ∧
      ¬ ((col + cols < n ∧ (row.get (col + cols)).state = .cont) ∧ col + cols ≤ k ∧
          k < (row.get (col + cols)).cols + (row.get (row.get (col + cols)).cols).cols) ∧
      ¬ ((row.get col).state = .cont ∧ k = (row.get col).cols) ∧
      (spanRow n row col cols f).get k = row.get k) := by
  by_cases hin : col ≤ k ∧ k < col + cols
  · by_cases hk : k = col
    · left; refine ⟨hk, ?_⟩; subst hk; unfold spanRow rowSet; simp only [if_true]
    · right; left
      have h := makeSpanRow_get_in n row col cols k hin.1 hin.2
      have hR : (spanRow n row col cols f).get k = (makeSpanRow n row col cols).get k := by
        unfold spanRow rowSet; simp only [hk, if_false]
      rw [hR]
      simp only [hk, if_false] at h
      exact ⟨by omega, hin.2, h.1, h.2.2, h.2.1⟩
  · have hk : ¬ k = col := by omega
    have hR : (spanRow n row col cols f).get k = (makeSpanRow n row col cols).get k := by
      unfold spanRow rowSet; simp only [hk, if_false]
    have hout := makeSpanRow_get_out hwf col cols k hc0 hc1 hcn hin
    rw [← hR] at hout
    right; right
    by_cases h3 : (col + cols < n ∧ (row.get (col + cols)).state = .cont) ∧ k = col + cols
    · left; rw [if_pos h3] at hout; exact ⟨h3.1, h3.2, hout⟩
    · rw [if_neg h3] at hout
      right
      by_cases h4 : (col + cols < n ∧ (row.get (col + cols)).state = .cont) ∧ col + cols + 1 ≤ k ∧
              k < (row.get (col + cols)).cols + (row.get (row.get (col + cols)).cols).cols
      · left; rw [if_pos h4] at hout; exact ⟨h4.1, by omega, h4.2.2, hout⟩
      · rw [if_neg h4] at hout
        right
        by_cases h5 : (row.get col).state = .cont ∧ k = (row.get col).cols
        · left; rw [if_pos h5] at hout; exact ⟨h5.1, h5.2, hout⟩
        · rw [if_neg h5] at hout
          right
          refine ⟨hin, ?_, h5, hout⟩
          intro h
          by_cases hke : k = col + cols
          · exact h3 ⟨h.1, hke⟩
          · exact h4 ⟨h.1, by omega, h.2.2⟩

/-- Everything `RowWF` says about the run that contains a CONT cell. -/
theorem RowWF.run_of_cont {n : Int} {row : Row} (h : RowWF n row) {k : Int} (hk0 : 0 ≤ k) (hkn : k < n)
    (hc : (row.get k).state = .cont) :
    0 ≤ (row.get k).cols ∧ (row.get k).cols < k ∧ (row.get (row.get k).cols).state ≠ .cont ∧
    k < (row.get k).cols + (row.get (row.get k).cols).cols ∧
    (row.get k).cols + (row.get (row.get k).cols).cols ≤ n ∧
    (∀ j, (row.get k).cols < j → j < (row.get k).cols + (row.get (row.get k).cols).cols →
      (row.get j).state = .cont ∧ (row.get j).cols = (row.get k).cols) := by
  have ⟨h0, h1, h2, h3⟩ := h.cont k hk0 hkn hc
  have ⟨_, g2, g3⟩ := h.head (row.get k).cols h0 (by omega) h2
  exact ⟨h0, h1, h2, h3, g2, g3⟩

theorem cellContent_cols (c : Cell) (x off : Int) : cellContent { c with cols := x } off = cellContent c off := rfl

theorem rowContent_head {row : Row} {k : Int} (h : (row.get k).state ≠ .cont) :
    rowContent row k = cellContent (row.get k) 0 := by
  unfold rowContent; simp only [h, if_false]

theorem rowContent_cont {row : Row} {k : Int} (h : (row.get k).state = .cont) :
    rowContent row k = cellContent (row.get (row.get k).cols) (k - (row.get k).cols) := by
  unfold rowContent; simp only [h, if_true]

/-- The start cell of the new span. -/
theorem spanRow_get_col (n : Int) (row : Row) (col cols : Int) (f : Cell → Cell) :
    (spanRow n row col cols f).get col = f ((makeSpanRow n row col cols).get col) := by
  unfold spanRow rowSet; simp only [if_true]

/-- The start cell of the split-off tail. -/
theorem spanRow_get_end {n : Int} {row : Row} (hwf : RowWF n row) (col cols : Int) (f : Cell → Cell)
    (hc0 : 0 ≤ col) (hc1 : 1 ≤ cols) (hcn : col + cols ≤ n)
    (hE : col + cols < n ∧ (row.get (col + cols)).state = .cont) :
    (spanRow n row col cols f).get (col + cols) = splitCell row (col + cols) := by
  have hrun := hwf.run_of_cont (by omega) hE.1 hE.2
  rcases spanRow_cases hwf col cols f hc0 hc1 hcn (col + cols) with h | h | h | h | h | h
  · omega
  · omega
  · exact h.2.2
  · omega
  · have := (hwf.run_of_cont hc0 (by omega) h.1).2.1; omega
  · exact absurd ⟨hE, Int.le_refl _, hrun.2.2.2.1⟩ h.2.1

/-- Mask depths: the new span is unmasked (it was before: `make_span` is only called on unmasked cells), every
    other cell keeps its depth. -/
theorem spanRow_mask {n : Int} {row : Row} (hwf : RowWF n row) (col cols : Int) (f : Cell → Cell) (hf : FillOK f cols)
    (hc0 : 0 ≤ col) (hc1 : 1 ≤ cols) (hcn : col + cols ≤ n) (k : Int) :
    ((spanRow n row col cols f).get k).maskdepth =
      if col ≤ k ∧ k < col + cols then -1 else (row.get k).maskdepth := by
  rcases spanRow_cases hwf col cols f hc0 hc1 hcn k with h | h | h | h | h | h
  · rw [h.2, hf.keepMask, (makeSpanRow_get_in n row col cols col (Int.le_refl _) (by omega)).2.1]
    have : col ≤ k ∧ k < col + cols := by omega
    simp only [this, and_self, if_true]
  · have : col ≤ k ∧ k < col + cols := by omega
    simp only [this, and_self, if_true]; exact h.2.2.2.2
  · have : ¬ (col ≤ k ∧ k < col + cols) := by omega
    simp only [this, if_false]
    rw [h.2.2, h.2.1, (splitCell_facts hwf (by omega) h.1.1 h.1.2).2.2.1]
  · have : ¬ (col ≤ k ∧ k < col + cols) := by omega
    simp only [this, if_false]; rw [h.2.2.2]
  · have := (hwf.run_of_cont hc0 (by omega) h.1).2.1
    have : ¬ (col ≤ k ∧ k < col + cols) := by omega
    simp only [this, if_false]; rw [h.2.2]
  · simp only [h.1, if_false]; rw [h.2.2.2]

/-- A run start outside the new span stays a run start. -/
theorem spanRow_head_stays {n : Int} {row : Row} (hwf : RowWF n row) (col cols : Int) (f : Cell → Cell)
    (hc0 : 0 ≤ col) (hc1 : 1 ≤ cols) (hcn : col + cols ≤ n) (k : Int) (hk : ¬ (col ≤ k ∧ k < col + cols))
    (hh : (row.get k).state ≠ .cont) : ((spanRow n row col cols f).get k).state ≠ .cont := by
  rcases spanRow_cases hwf col cols f hc0 hc1 hcn k with h | h | h | h | h | h
  · omega
  · omega
  · rw [h.2.1] at hh; exact absurd h.1.2 hh
  · rw [h.2.2.2]; exact hh
  · rw [h.2.2]; exact hh
  · rw [h.2.2.2]; exact hh

/-- The start cell of a run that reaches a column outside the new span shows the same as before. -/
theorem spanRow_head_content {n : Int} {row : Row} (hwf : RowWF n row) (col cols : Int) (f : Cell → Cell)
    (hc0 : 0 ≤ col) (hc1 : 1 ≤ cols) (hcn : col + cols ≤ n) (k : Int) (hk0 : 0 ≤ k) (hkn : k < n)
    (hkc : (row.get k).state = .cont)
    (h6 : ¬ (col ≤ k ∧ k < col + cols) ∧
      ¬ ((col + cols < n ∧ (row.get (col + cols)).state = .cont) ∧ col + cols ≤ k ∧
          k < (row.get (col + cols)).cols + (row.get (row.get (col + cols)).cols).cols)) :
    ((spanRow n row col cols f).get (row.get k).cols).state ≠ .cont ∧
    (∀ off, cellContent ((spanRow n row col cols f).get (row.get k).cols) off = cellContent (row.get (row.get k).cols) off) ∧
    k < (row.get k).cols + ((spanRow n row col cols f).get (row.get k).cols).cols := by
  have hrun := hwf.run_of_cont hk0 hkn hkc
  -- the run of `k` does not reach into the new span nor over its end
  have hnot : ¬ ((row.get k).cols < col + cols ∧ col + cols ≤ k) := by
    intro hh
    have hend : (row.get (col + cols)).state = .cont ∧ (row.get (col + cols)).cols = (row.get k).cols := by
      by_cases he : col + cols = k
      · rw [he]; exact ⟨hkc, rfl⟩
      · exact hrun.2.2.2.2.2 (col + cols) hh.1 (by omega)
    apply h6.2
    refine ⟨⟨by omega, hend.1⟩, hh.2, ?_⟩
    rw [hend.2]; exact hrun.2.2.2.1
  rcases spanRow_cases hwf col cols f hc0 hc1 hcn (row.get k).cols with h | h | h | h | h | h
  · exfalso; omega
  · exfalso; omega
  · exact absurd h.1.2 (by rw [← h.2.1]; exact hrun.2.2.1)
  · exfalso
    have hr2 := hwf.run_of_cont (by omega) h.1.1 h.1.2
    exact hrun.2.2.1 (hr2.2.2.2.2.2 _ (by omega) h.2.2.1).1
  · -- the shortened run in front of the new span
    have hb := hwf.run_of_cont hc0 (by omega) h.1
    rw [h.2.2]
    refine ⟨hrun.2.2.1, fun off => rfl, ?_⟩
    show k < (row.get k).cols + (col - (row.get k).cols)
    omega
  · rw [h.2.2.2]; exact ⟨hrun.2.2.1, fun _ => rfl, hrun.2.2.2.1⟩

/-- What the new row shows: the new span shows what was assigned to its start cell, every other column shows
    what it showed before. -/
theorem spanRow_content {n : Int} {row : Row} (hwf : RowWF n row) (col cols : Int) (f : Cell → Cell) (hf : FillOK f cols)
    (hc0 : 0 ≤ col) (hc1 : 1 ≤ cols) (hcn : col + cols ≤ n) (k : Int) (hk0 : 0 ≤ k) (hkn : k < n) :
    rowContent (spanRow n row col cols f) k =
      if col ≤ k ∧ k < col + cols then cellContent (f ((makeSpanRow n row col cols).get col)) (k - col)
      else rowContent row k := by
  rcases spanRow_cases hwf col cols f hc0 hc1 hcn k with h | h | h | h | h | h
  · have : col ≤ k ∧ k < col + cols := by omega
    simp only [this, and_self, if_true]
    rw [rowContent_head (by rw [h.2]; exact hf.isHead _), h.2, h.1, Int.sub_self]
  · have : col ≤ k ∧ k < col + cols := by omega
    simp only [this, and_self, if_true]
    rw [rowContent_cont h.2.2.1, h.2.2.2.1, spanRow_get_col]
  · have : ¬ (col ≤ k ∧ k < col + cols) := by omega
    simp only [this, if_false]
    have hs := splitCell_facts hwf (by omega) h.1.1 h.1.2
    have hrun := hwf.run_of_cont (by omega) h.1.1 h.1.2
    rw [rowContent_head (by rw [h.2.2, hs.1]; exact hrun.2.2.1), h.2.2, hs.2.2.2, h.2.1, rowContent_cont h.1.2,
      Int.add_zero]
  · have : ¬ (col ≤ k ∧ k < col + cols) := by omega
    simp only [this, if_false]
    have hs := splitCell_facts hwf (by omega) h.1.1 h.1.2
    have hrun := hwf.run_of_cont (by omega) h.1.1 h.1.2
    have hk := hrun.2.2.2.2.2 k (by omega) h.2.2.1
    have hst : ((spanRow n row col cols f).get k).state = .cont := by rw [h.2.2.2]; exact hk.1
    have hcl : ((spanRow n row col cols f).get k).cols = col + cols := by rw [h.2.2.2]
    rw [rowContent_cont hst, hcl, spanRow_get_end hwf col cols f hc0 hc1 hcn h.1, hs.2.2.2, rowContent_cont hk.1, hk.2]
    congr 1; omega
  · have hb := hwf.run_of_cont hc0 (by omega) h.1
    have : ¬ (col ≤ k ∧ k < col + cols) := by omega
    simp only [this, if_false]
    have hkh : (row.get k).state ≠ .cont := by rw [h.2.1]; exact hb.2.2.1
    rw [rowContent_head (by rw [h.2.2]; exact hkh), h.2.2, rowContent_head hkh]
    rfl
  · simp only [h.1, if_false]
    by_cases hkc : (row.get k).state = .cont
    · have hh := spanRow_head_content hwf col cols f hc0 hc1 hcn k hk0 hkn hkc ⟨h.1, h.2.1⟩
      have hst : ((spanRow n row col cols f).get k).state = .cont := by rw [h.2.2.2]; exact hkc
      rw [rowContent_cont hst, rowContent_cont hkc, h.2.2.2, hh.2.1]
    · rw [rowContent_head (by rw [h.2.2.2]; exact hkc), rowContent_head hkc, h.2.2.2]

/-- `make_span` plus the assignments to the start cell keep the run structure. -/
theorem spanRow_wf {n : Int} {row : Row} (hwf : RowWF n row) (col cols : Int) (f : Cell → Cell) (hf : FillOK f cols)
    (hc0 : 0 ≤ col) (hc1 : 1 ≤ cols) (hcn : col + cols ≤ n) : RowWF n (spanRow n row col cols f) := by
  have hcolcols : ((spanRow n row col cols f).get col).cols = cols := by
    rw [spanRow_get_col]
    exact hf.keepCols _ (by have := (makeSpanRow_get_in n row col cols col (Int.le_refl _) (by omega)).2.2; simpa using this)
  have hcolhead : ((spanRow n row col cols f).get col).state ≠ .cont := by
    rw [spanRow_get_col]; exact hf.isHead _
  refine ⟨?_, ?_, ?_⟩
  · -- CONT cells point at the start of their run
    intro k hk0 hkn hst
    rcases spanRow_cases hwf col cols f hc0 hc1 hcn k with h | h | h | h | h | h
    · rw [h.1] at hst; exact absurd hst hcolhead
    · rw [h.2.2.2.1]; exact ⟨hc0, h.1, hcolhead, by rw [hcolcols]; exact h.2.1⟩
    · have hs := splitCell_facts hwf (by omega) h.1.1 h.1.2
      have hrun := hwf.run_of_cont (by omega) h.1.1 h.1.2
      rw [h.2.2, hs.1] at hst; exact absurd hst hrun.2.2.1
    · have hs := splitCell_facts hwf (by omega) h.1.1 h.1.2
      have hrun := hwf.run_of_cont (by omega) h.1.1 h.1.2
      have hcl : ((spanRow n row col cols f).get k).cols = col + cols := by rw [h.2.2.2]
      rw [hcl, spanRow_get_end hwf col cols f hc0 hc1 hcn h.1]
      refine ⟨by omega, h.2.1, by rw [hs.1]; exact hrun.2.2.1, ?_⟩
      rw [hs.2.1]; omega
    · have hb := hwf.run_of_cont hc0 (by omega) h.1
      have : ((spanRow n row col cols f).get k).state = (row.get k).state := by rw [h.2.2]
      rw [this, h.2.1] at hst; exact absurd hst hb.2.2.1
    · have hkc : (row.get k).state = .cont := by rw [← h.2.2.2]; exact hst
      have hrun := hwf.run_of_cont hk0 hkn hkc
      have hh := spanRow_head_content hwf col cols f hc0 hc1 hcn k hk0 hkn hkc ⟨h.1, h.2.1⟩
      rw [h.2.2.2]
      exact ⟨hrun.1, hrun.2.1, hh.1, hh.2.2⟩
  · -- run starts are followed by their CONT cells
    intro k hk0 hkn hst
    rcases spanRow_cases hwf col cols f hc0 hc1 hcn k with h | h | h | h | h | h
    · rw [h.1, hcolcols]
      refine ⟨hc1, hcn, fun j hj1 hj2 => ?_⟩
      rcases spanRow_cases hwf col cols f hc0 hc1 hcn j with g | g | g | g | g | g
      · omega
      · exact ⟨g.2.2.1, g.2.2.2.1⟩
      · omega
      · omega
      · have := (hwf.run_of_cont hc0 (by omega) g.1).2.1; omega
      · exact absurd ⟨by omega, hj2⟩ g.1
    · exact absurd h.2.2.1 hst
    · have hs := splitCell_facts hwf (by omega) h.1.1 h.1.2
      have hrun := hwf.run_of_cont (by omega) h.1.1 h.1.2
      rw [h.2.2, hs.2.1, h.2.1]
      refine ⟨by omega, by omega, fun j hj1 hj2 => ?_⟩
      rcases spanRow_cases hwf col cols f hc0 hc1 hcn j with g | g | g | g | g | g
      · omega
      · omega
      · omega
      · have hj := hrun.2.2.2.2.2 j (by omega) (by omega)
        rw [g.2.2.2]; exact ⟨hj.1, rfl⟩
      · have := (hwf.run_of_cont hc0 (by omega) g.1).2.1; omega
      · exact absurd ⟨h.1, by omega, by omega⟩ g.2.1
    · have hrun := hwf.run_of_cont (by omega) h.1.1 h.1.2
      have hk := hrun.2.2.2.2.2 k (by omega) h.2.2.1
      have : ((spanRow n row col cols f).get k).state = .cont := by rw [h.2.2.2]; exact hk.1
      exact absurd this hst
    · have hb := hwf.run_of_cont hc0 (by omega) h.1
      have hcl : ((spanRow n row col cols f).get k).cols = col - k := by rw [h.2.2]
      rw [hcl]
      refine ⟨by omega, by omega, fun j hj1 hj2 => ?_⟩
      have hj := hb.2.2.2.2.2 j (by omega) (by omega)
      rcases spanRow_cases hwf col cols f hc0 hc1 hcn j with g | g | g | g | g | g
      · omega
      · omega
      · omega
      · omega
      · omega
      · rw [g.2.2.2]; exact ⟨hj.1, by rw [hj.2, h.2.1]⟩
    · have hkh : (row.get k).state ≠ .cont := by rw [← h.2.2.2]; exact hst
      have hw := hwf.head k hk0 hkn hkh
      rw [h.2.2.2]
      refine ⟨hw.1, hw.2.1, fun j hj1 hj2 => ?_⟩
      have hj := hw.2.2 j hj1 hj2
      -- if the run of `k` contained `col`, `k` would be the shortened run
      have hnocol : ¬ (k < col ∧ col < k + (row.get k).cols) := by
        intro hh
        have hc := hw.2.2 col hh.1 hh.2
        exact h.2.2.1 ⟨hc.1, hc.2.symm⟩
      rcases spanRow_cases hwf col cols f hc0 hc1 hcn j with g | g | g | g | g | g
      · exfalso; apply hnocol; omega
      · exfalso; apply hnocol; omega
      · exfalso
        have : (row.get (col + cols)).cols = k := by rw [← g.2.1]; exact hj.2
        have hrun := hwf.run_of_cont (by omega) g.1.1 g.1.2
        apply hnocol; omega
      · exfalso
        have hrun := hwf.run_of_cont (by omega) g.1.1 g.1.2
        have hj' := hrun.2.2.2.2.2 j (by omega) g.2.2.1
        apply hnocol; omega
      · exfalso
        have hb := hwf.run_of_cont hc0 (by omega) g.1
        rw [g.2.1] at hj; exact hb.2.2.1 hj.1
      · rw [g.2.2.2]; exact hj
  · -- LINE and CHAR cells are one column wide
    intro k hk0 hkn hst
    rcases spanRow_cases hwf col cols f hc0 hc1 hcn k with h | h | h | h | h | h
    · rw [h.1, hcolcols]
      rw [h.1, spanRow_get_col] at hst
      exact hf.oneCol _ hst
    · rw [h.2.2.1] at hst; simp at hst
    · have hs := splitCell_facts hwf (by omega) h.1.1 h.1.2
      have hk := hwf.head_kind (by omega) h.1.1 h.1.2
      rw [h.2.2, hs.1] at hst
      rcases hk with hk | hk | hk <;> rw [hk] at hst <;> simp at hst
    · have hrun := hwf.run_of_cont (by omega) h.1.1 h.1.2
      have hk := hrun.2.2.2.2.2 k (by omega) h.2.2.1
      have : ((spanRow n row col cols f).get k).state = .cont := by rw [h.2.2.2]; exact hk.1
      rw [this] at hst; simp at hst
    · have hk := hwf.head_kind hc0 (by omega) h.1
      have : ((spanRow n row col cols f).get k).state = (row.get (row.get col).cols).state := by rw [h.2.2, h.2.1]
      rw [this] at hst
      rcases hk with hk | hk | hk <;> rw [hk] at hst <;> simp at hst
    · rw [h.2.2.2] at hst ⊢; exact hwf.one k hk0 hkn hst

end Tickit.RBCopy
