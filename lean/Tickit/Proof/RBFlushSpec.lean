import Tickit.Proof.RBFlush
import Tickit.Proof.RBFlushScreen
/-
  C04: the hypotheses of `flush_spec` (what C03's invariant says of a reachable buffer, as far as the flush looks at it),
  the per-run lemmas and the per-line induction over `flushCols`.
-/
namespace Tickit.RBFlush
open Tickit.RB

/-! ## Well-formed buffers -/

/-- A CHAR code point the terminal shows in exactly one column: it survives the UTF-8 encoding of `tickit_utf8_put`
    and the library's width of it is 1.  (The known finding `char_not_one_column` is the negation of this.) -/
def CharOK (cp : Int) : Prop :=
  Utf8.nextUtf8 (Utf8.put cp.toNat) 0 (some (Utf8.put cp.toNat).length) = some ⟨(Utf8.put cp.toNat).length, cp.toNat⟩ ∧
  Utf8.wcwidth cp.toNat = 1

/-- A TEXT run lies inside a text the width counter accepts. -/
def TextOK (cell : Cell) : Prop :=
  ∃ cs, decode cell.text = some cs ∧ 0 ≤ cell.offs ∧ cell.offs + cell.cols ≤ chCols cs

/-- A run starts at `(line, col)`: its start cell is not CONT, it has at least one column and fits in the line, its other
    cells are CONT cells pointing at `col`, LINE and CHAR runs have one column, and the content is presentable. -/
structure RunAtP (ok : Int → Prop) (rb : RB) (line col : Int) : Prop where
  notCont : (rb.cell line col).state ≠ .cont
  pos : 1 ≤ (rb.cell line col).cols
  fits : col + (rb.cell line col).cols ≤ rb.cols
  conts : ∀ k, col < k → k < col + (rb.cell line col).cols →
    (rb.cell line k).state = .cont ∧ (rb.cell line k).cols = col
  one : (rb.cell line col).state = .line ∨ (rb.cell line col).state = .char → (rb.cell line col).cols = 1
  mask : (rb.cell line col).state = .line → 1 ≤ (rb.cell line col).lmask ∧ (rb.cell line col).lmask < 256
  char : (rb.cell line col).state = .char → ok (rb.cell line col).cp
  text : (rb.cell line col).state = .text → TextOK (rb.cell line col)

/-- A run whose CHAR content, if any, is one column wide. -/
abbrev RunAt := RunAtP CharOK

/-- The runs of `line` tile the columns from `col` to the right edge. -/
inductive TiledP (ok : Int → Prop) (rb : RB) (line : Int) : Int → Prop
  | done : TiledP ok rb line rb.cols
  | run {col : Int} : col < rb.cols → RunAtP ok rb line col →
      TiledP ok rb line (col + (rb.cell line col).cols) → TiledP ok rb line col

abbrev Tiled := TiledP CharOK

/-- Every line of the buffer is tiled by runs. -/
def FlushWFP (ok : Int → Prop) (rb : RB) : Prop := ∀ line, 0 ≤ line → line < rb.lines → TiledP ok rb line 0

/-- Well-formed, and every CHAR cell holds a code point that is one column wide. -/
abbrev FlushWF := FlushWFP CharOK

/-! ### A decision procedure for `FlushWF` (used for the non-vacuity examples) -/

theorem charOK_of_charOKb (cp : Int) (h : charOKb cp = true) : CharOK cp := by
  unfold charOKb at h
  simp only [Bool.and_eq_true, decide_eq_true_eq] at h
  exact h

theorem runAt_of_runAtB {ok : Int → Prop} {okb : Int → Bool} (hok : ∀ cp, okb cp = true → ok cp)
    {rb : RB} {line col : Int} (h : runAtB okb rb line col = true) : RunAtP ok rb line col := by
  unfold runAtB at h
  simp only [Bool.and_eq_true, decide_eq_true_eq, List.all_eq_true, List.mem_range, Bool.or_eq_true,
    Bool.not_eq_true', decide_eq_false_iff_not] at h
  obtain ⟨⟨⟨⟨⟨⟨⟨h1, h2⟩, h3⟩, h4⟩, h5⟩, h6⟩, h7⟩, h8⟩ := h
  refine ⟨h1, h2, h3, ?_, ?_, ?_, ?_, ?_⟩
  · intro k hk1 hk2
    have := h4 (k - col - 1).toNat (by omega)
    rw [show col + 1 + ((k - col - 1).toNat : Int) = k by omega] at this
    exact this
  · intro hs
    cases h5 with
    | inl h =>
      simp only [Bool.or_eq_false_iff, decide_eq_false_iff_not] at h
      cases hs with
      | inl a => exact absurd a h.1
      | inr a => exact absurd a h.2
    | inr h => exact h
  · intro hs
    cases h6 with
    | inl h => exact absurd hs h
    | inr h => exact h
  · intro hs
    cases h7 with
    | inl h => exact absurd hs h
    | inr h => exact hok _ h
  · intro hs
    cases h8 with
    | inl h => exact absurd hs h
    | inr h =>
      unfold textOKb at h
      unfold TextOK
      cases hd : decode (rb.cell line col).text with
      | none => rw [hd] at h; cases h
      | some cs =>
        rw [hd] at h
        simp only [Bool.and_eq_true, decide_eq_true_eq] at h
        exact ⟨cs, rfl, h.1, h.2⟩

theorem tiled_of_tiledB {ok : Int → Prop} {okb : Int → Bool} (hok : ∀ cp, okb cp = true → ok cp)
    {rb : RB} {line : Int} : ∀ (n : Nat) (col : Int), tiledB okb rb line n col = true →
    TiledP ok rb line col := by
  intro n
  induction n with
  | zero =>
    intro col h
    simp only [tiledB, decide_eq_true_eq] at h
    rw [h]; exact TiledP.done
  | succ k ih =>
    intro col h
    simp only [tiledB, Bool.or_eq_true, decide_eq_true_eq, Bool.and_eq_true] at h
    cases h with
    | inl h => rw [h]; exact TiledP.done
    | inr h => exact TiledP.run h.1.1 (runAt_of_runAtB hok h.1.2) (ih _ h.2)

theorem flushWFP_of_flushWFPb {ok : Int → Prop} {okb : Int → Bool} (hok : ∀ cp, okb cp = true → ok cp)
    {rb : RB} (h : flushWFPb okb rb = true) : FlushWFP ok rb := by
  intro line h0 h1
  unfold flushWFPb at h
  simp only [List.all_eq_true, List.mem_range] at h
  have := h line.toNat (by omega)
  rw [show ((line.toNat : Nat) : Int) = line by omega] at this
  exact tiled_of_tiledB hok _ _ this

theorem flushWF_of_flushWFb {rb : RB} (h : flushWFb rb = true) : FlushWF rb :=
  flushWFP_of_flushWFPb charOK_of_charOKb h

theorem Tiled.le_cols {rb : RB} {line col : Int} (h : Tiled rb line col) : col ≤ rb.cols := by
  induction h with
  | done => omega
  | run h1 _ _ _ => omega

theorem Tiled.inv {rb : RB} {line col : Int} (h : Tiled rb line col) (hc : col < rb.cols) :
    RunAt rb line col ∧ Tiled rb line (col + (rb.cell line col).cols) := by
  cases h with
  | done => omega
  | run _ h2 h3 => exact ⟨h2, h3⟩

theorem runStart_of_run {rb : RB} {line col : Int} (hr : RunAt rb line col) (c : Int)
    (h1 : col ≤ c) (h2 : c < col + (rb.cell line col).cols) : runStart rb line c = col := by
  unfold runStart
  by_cases hc : c = col
  · subst hc
    simp only
    rw [if_neg hr.notCont]
  · have := hr.conts c (by omega) h2
    simp only
    rw [if_pos this.1, this.2]

/-- `want` on a cell of a run, in terms of the run's start cell. -/
theorem want_of_run {rb : RB} {line col : Int} (hl : 0 ≤ line ∧ line < rb.lines) (h0 : 0 ≤ col)
    (hr : RunAt rb line col) (c : Int) (h1 : col ≤ c) (h2 : c < col + (rb.cell line col).cols) :
    want rb line c = wantOf (rb.cell line col) (c - col) := by
  have hfit := hr.fits
  have hg : rb.inGrid line c := by unfold RB.inGrid; omega
  unfold want
  rw [if_neg (fun hn => hn hg), runStart_of_run hr c h1 h2]

/-! ## Requests, one at a time -/

namespace GridTerm

theorem erasech_cells (t : GridTerm) (n : Int) (m : MaybeBool) (hn : 1 ≤ n) (hfit : t.col + n ≤ t.cols) (l c : Int) :
    (t.erasech n m).cells l c =
      if l = t.line ∧ t.col ≤ c ∧ c < t.col + n then
        { glyph := .blank, pen := t.pen, writes := (t.cells l c).writes + 1 }
      else t.cells l c := by
  unfold erasech
  rw [if_neg (by omega)]
  have hmin : min t.col (t.cols - 1) = t.col := by omega
  have hcell : (if l = t.line ∧ min t.col (t.cols - 1) ≤ c ∧ c < min t.col (t.cols - 1) + n ∧ c < t.cols then
        ({ glyph := .blank, pen := t.pen, writes := (t.cells l c).writes + 1 } : TCell)
      else t.cells l c) =
      if l = t.line ∧ t.col ≤ c ∧ c < t.col + n then
        { glyph := .blank, pen := t.pen, writes := (t.cells l c).writes + 1 }
      else t.cells l c := by
    rw [hmin]
    by_cases h : l = t.line ∧ t.col ≤ c ∧ c < t.col + n
    · rw [if_pos h, if_pos ⟨h.1, h.2.1, h.2.2, by omega⟩]
    · rw [if_neg h, if_neg (fun h' => h ⟨h'.1, h'.2.1, h'.2.2.1⟩)]
  cases m <;> exact hcell

theorem erasech_line (t : GridTerm) (n : Int) (m : MaybeBool) : (t.erasech n m).line = t.line := by
  unfold erasech
  split
  · rfl
  · cases m <;> rfl

theorem erasech_pen (t : GridTerm) (n : Int) (m : MaybeBool) : (t.erasech n m).pen = t.pen := by
  unfold erasech
  split
  · rfl
  · cases m <;> rfl

theorem erasech_cols (t : GridTerm) (n : Int) (m : MaybeBool) : (t.erasech n m).cols = t.cols := by
  unfold erasech
  split
  · rfl
  · cases m <;> rfl

theorem erasech_col_yes (t : GridTerm) (n : Int) (hn : 1 ≤ n) (hfit : t.col + n < t.cols) :
    (t.erasech n .yes).col = t.col + n := by
  unfold erasech
  rw [if_neg (by omega)]
  show min (min t.col (t.cols - 1) + n) (t.cols - 1) = t.col + n
  omega

end GridTerm

/-- `t'` is `t` with the `n` columns from `(line, col)` drawn as the buffer wants them and nothing else touched;
    the cursor is still on the line and the terminal has kept its width. -/
structure Drawn (rb : RB) (line col n : Int) (t t' : GridTerm) : Prop where
  inside : ∀ c, col ≤ c → c < col + n → cellOK (want rb line c) (t.cells line c) (t'.cells line c) = true
  outside : ∀ l c, ¬ (l = line ∧ col ≤ c ∧ c < col + n) → t'.cells l c = t.cells l c
  line_eq : t'.line = line
  cols_eq : t'.cols = t.cols

theorem cellOK_glyph (g : Glyph) (p tp : Pen) (old : TCell) :
    cellOK (.glyph g p) old { glyph := g, pen := termSetpen tp p, writes := old.writes + 1 } = true := by
  simp [cellOK, penSame_termSetpen]

/-- The ERASE case. -/
theorem erase_run {rb : RB} {line col : Int} (hl : 0 ≤ line ∧ line < rb.lines) (h0 : 0 ≤ col)
    (hr : RunAt rb line col) (hs : (rb.cell line col).state = .erase)
    (t : GridTerm) (hc : col + (rb.cell line col).cols ≤ t.cols) (ht : t.line = line ∧ t.col = col) (m : MaybeBool) :
    Drawn rb line col (rb.cell line col).cols t
      (t.run [.setpen (rb.cell line col).pen, .erasech (rb.cell line col).cols m]) ∧
    (m = .yes → col + (rb.cell line col).cols < t.cols →
      (t.run [.setpen (rb.cell line col).pen, .erasech (rb.cell line col).cols m]).col =
        col + (rb.cell line col).cols) := by
  have hpos := hr.pos
  have hfit := hr.fits
  simp only [GridTerm.run, GridTerm.step]
  have e1 : (t.setpen (rb.cell line col).pen).line = line := ht.1
  have e2 : (t.setpen (rb.cell line col).pen).col = col := ht.2
  have e3 : (t.setpen (rb.cell line col).pen).cells = t.cells := rfl
  have e4 : (t.setpen (rb.cell line col).pen).pen = termSetpen t.pen (rb.cell line col).pen := rfl
  have e5 : (t.setpen (rb.cell line col).pen).cols = t.cols := rfl
  generalize t.setpen (rb.cell line col).pen = t1 at e1 e2 e3 e4 e5 ⊢
  have hf1 : t1.col + (rb.cell line col).cols ≤ t1.cols := by omega
  refine ⟨⟨?_, ?_, ?_, ?_⟩, ?_⟩
  · intro c h1 h2
    rw [want_of_run hl h0 hr c h1 h2]
    simp only [wantOf, hs]
    rw [GridTerm.erasech_cells _ _ _ hpos hf1, if_pos (by omega), e3, e4]
    exact cellOK_glyph _ _ _ _
  · intro l c hn
    rw [GridTerm.erasech_cells _ _ _ hpos hf1, if_neg (by omega), e3]
  · rw [GridTerm.erasech_line]; exact e1
  · rw [GridTerm.erasech_cols]; exact e5
  · intro hm hlt
    subst hm
    rw [GridTerm.erasech_col_yes _ _ hpos (by omega)]
    omega

/-! ## Printing one-column characters (the CHAR and LINE cases) -/

theorem reqBytes_whole (ws : Bool) (bs : List UInt8) (h : bs ≠ []) : GridTerm.reqBytes ws bs 0 bs.length = bs := by
  unfold GridTerm.reqBytes
  have : bs.length ≠ 0 := by
    intro hc; exact h (List.length_eq_zero_iff.mp hc)
  simp [this]

theorem flatMap_bytes_length_ge (cs : List Ch) (h : ∀ c ∈ cs, SelfDec c) :
    cs.length ≤ (cs.flatMap (·.bytes)).length := by
  induction cs with
  | nil => simp
  | cons c cs ih =>
    have := (h c (by simp)).length_pos
    have := ih (fun c' hc' => h c' (by simp [hc']))
    simp only [List.flatMap_cons, List.length_append, List.length_cons]
    omega

theorem printBytes_narrow (cs : List Ch) (hs : ∀ c ∈ cs, SelfDec c ∧ Utf8.wcwidth c.cp = 1) (t : GridTerm) :
    t.printBytes (cs.flatMap (·.bytes)) = t.putChs (cs.map fun c => ⟨c.bytes, c.cp, 1⟩) := by
  unfold GridTerm.printBytes
  have hsd : ∀ c ∈ cs, SelfDec c := fun c hc => (hs c hc).1
  have hlen := flatMap_bytes_length_ge cs hsd
  have := termDecode_flatten cs hsd [] ((cs.flatMap (·.bytes)).length + 1) (by omega)
  simp only [List.nil_append, List.length_nil] at this
  rw [this]
  have hmap : (cs.map fun c => (⟨c.bytes, c.cp, termWidth c.cp⟩ : Ch)) = cs.map fun c => ⟨c.bytes, c.cp, 1⟩ := by
    apply List.map_congr_left
    intro c hc
    have hw := (hs c hc).2
    have : termWidth c.cp = 1 := by
      unfold termWidth; rw [hw]; rfl
    simp only [this]
  rw [hmap]

/-- `setpen p`, then one print request with the bytes of one-column characters `cs`, at `(line, col)`. -/
theorem narrow_print {line col : Int} (t : GridTerm) (ht : t.line = line ∧ t.col = col) (p : Pen) (cs : List Ch)
    (hs : ∀ c ∈ cs, SelfDec c ∧ Utf8.wcwidth c.cp = 1) (hne : cs ≠ []) (hfit : col + cs.length ≤ t.cols) :
    let t' := t.run [.setpen p, .print (cs.flatMap (·.bytes)) 0 (cs.flatMap (·.bytes)).length]
    t'.line = line ∧ t'.col = col + cs.length ∧ t'.cols = t.cols ∧
    (∀ l c, ¬ (l = line ∧ col ≤ c ∧ c < col + cs.length) → t'.cells l c = t.cells l c) ∧
    (∀ i : Nat, i < cs.length → t'.cells line (col + i) =
      { glyph := .chars (cs.getD i ⟨[], 0, 0⟩).bytes, pen := termSetpen t.pen p,
        writes := (t.cells line (col + i)).writes + 1 }) := by
  have hsd : ∀ c ∈ cs, SelfDec c := fun c hc => (hs c hc).1
  have hbne : cs.flatMap (·.bytes) ≠ [] := by
    intro hc
    have h1 := flatMap_bytes_length_ge cs hsd
    rw [hc] at h1
    simp only [List.length_nil, Nat.le_zero_eq] at h1
    exact hne (List.length_eq_zero_iff.mp h1)
  simp only [GridTerm.run, GridTerm.step]
  rw [reqBytes_whole _ _ hbne, printBytes_narrow cs hs]
  have e1 : (t.setpen p).line = line := ht.1
  have e2 : (t.setpen p).col = col := ht.2
  have e3 : (t.setpen p).cells = t.cells := rfl
  have e4 : (t.setpen p).pen = termSetpen t.pen p := rfl
  have e5 : (t.setpen p).cols = t.cols := rfl
  generalize t.setpen p = t1 at e1 e2 e3 e4 e5 ⊢
  have hn := GridTerm.putChs_narrow (cs.map fun c => (⟨c.bytes, c.cp, 1⟩ : Ch))
    (by intro c hc; simp only [List.mem_map] at hc; obtain ⟨c', _, rfl⟩ := hc; rfl) t1
    (by simp only [List.length_map]; omega)
  simp only [List.length_map] at hn
  obtain ⟨h1, h2, _, _, _, _, h6, h7, h8⟩ := hn
  refine ⟨by rw [h1, e1], by rw [h2, e2], by rw [h6, e5], ?_, ?_⟩
  · intro l c hc
    rw [h7 l c (by rw [e1, e2]; exact hc), e3]
  · intro i hi
    have := h8 i hi
    rw [e1, e2, e3, e4] at this
    rw [this]
    congr 2
    rw [List.getD_eq_getElem?_getD, List.getD_eq_getElem?_getD, List.getElem?_map]
    cases cs[i]? <;> rfl

/-- What the kernel checks of every entry of the glyph table: its UTF-8 form decodes back to it, it is one column
    wide, and it is an acceptable picture of its mask. -/
theorem glyph_table_facts : ∀ m, m < 256 → 1 ≤ m →
    (Utf8.nextUtf8 (glyphBytes m) 0 (some (glyphBytes m).length) =
      some ⟨(glyphBytes m).length, Tickit.Gen.LineChars.linemaskToChar.getD m 0⟩ ∧
     Utf8.wcwidth (Tickit.Gen.LineChars.linemaskToChar.getD m 0) = 1 ∧
     lineGlyphOK m (glyphBytes m) = true) := by
  decide +kernel

/-- The CHAR case. -/
theorem char_run {rb : RB} {line col : Int} (hl : 0 ≤ line ∧ line < rb.lines) (h0 : 0 ≤ col)
    (hr : RunAt rb line col) (hs : (rb.cell line col).state = .char)
    (t : GridTerm) (hc : col + (rb.cell line col).cols ≤ t.cols) (ht : t.line = line ∧ t.col = col) :
    Drawn rb line col (rb.cell line col).cols t
      (t.run [.setpen (rb.cell line col).pen,
              .print (Utf8.put (rb.cell line col).cp.toNat) 0 (Utf8.put (rb.cell line col).cp.toNat).length]) ∧
    (t.run [.setpen (rb.cell line col).pen,
            .print (Utf8.put (rb.cell line col).cp.toNat) 0 (Utf8.put (rb.cell line col).cp.toNat).length]).col =
      col + (rb.cell line col).cols := by
  have hone : (rb.cell line col).cols = 1 := hr.one (Or.inr hs)
  have hok := hr.char hs
  have hnp := narrow_print t ht (rb.cell line col).pen
    [⟨Utf8.put (rb.cell line col).cp.toNat, (rb.cell line col).cp.toNat, 1⟩]
    (by intro c hc; simp only [List.mem_singleton] at hc; subst hc; exact ⟨hok.1, hok.2⟩) (by simp)
    (by rw [hone] at hc; simp only [List.length_singleton]; omega)
  simp only [List.flatMap_cons, List.flatMap_nil, List.append_nil, List.length_singleton] at hnp
  obtain ⟨h1, h2, h2c, h3, h4⟩ := hnp
  rw [hone]
  refine ⟨⟨?_, ?_, h1, h2c⟩, by rw [h2]; rfl⟩
  · intro c hc1 hc2
    have hc : c = col := by omega
    subst hc
    rw [want_of_run hl h0 hr c (by omega) (by omega)]
    simp only [wantOf, hs]
    have := h4 0 (by omega)
    simp only [Int.natCast_zero, Int.add_zero, List.getD_cons_zero] at this
    rw [this]
    exact cellOK_glyph _ _ _ _
  · intro l c hc
    exact h3 l c (by simpa using hc)

/-! ## The LINE case: a batch of adjacent line cells with equivalent pens -/

/-- `cs` are the cells of `line` from `col` on, each the start of a LINE run whose pen is equivalent to `pen`. -/
def IsBatch (rb : RB) (line : Int) (pen : Pen) (col : Int) (cs : List Cell) : Prop :=
  ∀ i : Nat, i < cs.length →
    cs.getD i default = rb.cell line (col + i) ∧ RunAt rb line (col + i) ∧
    (rb.cell line (col + i)).state = .line ∧ Pen.equiv (rb.cell line (col + i)).pen pen = true ∧ col + i < rb.cols

theorem lineMore_isBatch (rb : RB) (line : Int) (pen : Pen) : ∀ (n : Nat) (col : Int), Tiled rb line col →
    IsBatch rb line pen col (lineMore rb line pen n col) ∧
    Tiled rb line (col + (lineMore rb line pen n col).length) := by
  intro n
  induction n with
  | zero =>
    intro col ht
    unfold lineMore
    exact ⟨fun i hi => by simp at hi, by simpa using ht⟩
  | succ k ih =>
    intro col ht
    unfold lineMore
    simp only
    split
    · rename_i hc
      obtain ⟨hlt, hst, heq⟩ := hc
      obtain ⟨hr, hnext⟩ := ht.inv hlt
      have hone : (rb.cell line col).cols = 1 := hr.one (Or.inl hst)
      rw [hone] at hnext
      obtain ⟨ihb, iht⟩ := ih (col + 1) hnext
      refine ⟨?_, ?_⟩
      · intro i hi
        cases i with
        | zero =>
          simp only [List.getD_cons_zero, Int.natCast_zero, Int.add_zero]
          exact ⟨trivial, hr, hst, heq, hlt⟩
        | succ j =>
          have := ihb j (by simp only [List.length_cons] at hi; omega)
          rw [show col + ((j + 1 : Nat) : Int) = col + 1 + (j : Int) by omega]
          simpa using this
      · rw [show col + ((rb.cell line col :: lineMore rb line pen k (col + 1)).length : Int) =
              col + 1 + ((lineMore rb line pen k (col + 1)).length : Int) by simp; omega]
        exact iht
    · exact ⟨fun i hi => by simp at hi, by simpa using ht⟩

theorem equiv_refl (p : Pen) : Pen.equiv p p = true := (equiv_iff_rendition p p).mpr rfl

theorem lineBatch_isBatch {rb : RB} {line col : Int} (ht : Tiled rb line col) (hlt : col < rb.cols)
    (hs : (rb.cell line col).state = .line) :
    IsBatch rb line (rb.cell line col).pen col (lineBatch rb line col) ∧
    Tiled rb line (col + (lineBatch rb line col).length) ∧ 1 ≤ (lineBatch rb line col).length := by
  obtain ⟨hr, hnext⟩ := ht.inv hlt
  have hone : (rb.cell line col).cols = 1 := hr.one (Or.inl hs)
  rw [hone] at hnext
  obtain ⟨ihb, iht⟩ := lineMore_isBatch rb line (rb.cell line col).pen (rb.cols - (col + 1)).toNat (col + 1) hnext
  unfold lineBatch
  simp only
  refine ⟨?_, ?_, by simp⟩
  · intro i hi
    cases i with
    | zero =>
      simp only [List.getD_cons_zero, Int.natCast_zero, Int.add_zero]
      exact ⟨trivial, hr, hs, equiv_refl _, hlt⟩
    | succ j =>
      have := ihb j (by simp only [List.length_cons] at hi; omega)
      rw [show col + ((j + 1 : Nat) : Int) = col + 1 + (j : Int) by omega]
      simpa using this
  · rw [show col + ((rb.cell line col :: lineMore rb line (rb.cell line col).pen (rb.cols - (col + 1)).toNat (col + 1)).length : Int) =
          col + 1 + ((lineMore rb line (rb.cell line col).pen (rb.cols - (col + 1)).toNat (col + 1)).length : Int) by simp; omega]
    exact iht

theorem batchCols_of_isBatch {rb : RB} {line : Int} {pen : Pen} : ∀ (cs : List Cell) (col : Int),
    IsBatch rb line pen col cs → batchCols cs = cs.length := by
  intro cs
  induction cs with
  | nil => intro col _; rfl
  | cons c cs ih =>
    intro col hb
    have h0 := hb 0 (by simp)
    simp only [List.getD_cons_zero, Int.natCast_zero, Int.add_zero] at h0
    have hone : c.cols = 1 := by rw [h0.1]; exact h0.2.1.one (Or.inl h0.2.2.1)
    have htail : IsBatch rb line pen (col + 1) cs := by
      intro i hi
      have := hb (i + 1) (by simp; omega)
      rw [show col + ((i + 1 : Nat) : Int) = col + 1 + (i : Int) by omega] at this
      simpa using this
    simp only [batchCols, hone, ih (col + 1) htail, List.length_cons]
    omega

/-- The character a LINE cell is printed as. -/
def lineCh (c : Cell) : Ch := ⟨glyphBytes c.lmask, Tickit.Gen.LineChars.linemaskToChar.getD c.lmask 0, 1⟩

theorem batchBytes_eq (cs : List Cell) : batchBytes cs = (cs.map lineCh).flatMap (·.bytes) := by
  induction cs with
  | nil => rfl
  | cons c cs ih =>
    simp only [batchBytes, List.flatMap_cons, List.map_cons] at ih ⊢
    rw [ih]
    rfl

theorem penSame_of_equiv (tp p0 p : Pen) (h : Pen.equiv p p0 = true) : penSame (termSetpen tp p0) p = true := by
  rw [penSame_iff, rendition_termSetpen]
  exact ((equiv_iff_rendition _ _).mp h).symm

/-- The LINE case. -/
theorem line_run {rb : RB} {line col : Int} (hl : 0 ≤ line ∧ line < rb.lines) (h0 : 0 ≤ col)
    (htl : Tiled rb line col) (hlt : col < rb.cols) (hs : (rb.cell line col).state = .line)
    (t : GridTerm) (hc : col + (lineBatch rb line col).length ≤ t.cols) (ht : t.line = line ∧ t.col = col) :
    Drawn rb line col (lineBatch rb line col).length t
      (t.run [.setpen (rb.cell line col).pen,
              .print (batchBytes (lineBatch rb line col)) 0 (batchBytes (lineBatch rb line col)).length]) ∧
    (t.run [.setpen (rb.cell line col).pen,
            .print (batchBytes (lineBatch rb line col)) 0 (batchBytes (lineBatch rb line col)).length]).col =
      col + (lineBatch rb line col).length := by
  obtain ⟨hb, hbt, hlen⟩ := lineBatch_isBatch htl hlt hs
  have hble := hbt.le_cols
  generalize lineBatch rb line col = batch at hb hlen hble hc ⊢
  rw [batchBytes_eq]
  have hfacts : ∀ c ∈ batch.map lineCh, SelfDec c ∧ Utf8.wcwidth c.cp = 1 := by
    intro c hc
    simp only [List.mem_map] at hc
    obtain ⟨cell, hmem, rfl⟩ := hc
    obtain ⟨i, hi, hget⟩ := List.getElem_of_mem hmem
    have hbi := hb i hi
    have hcell : cell = rb.cell line (col + i) := by
      rw [← hbi.1, List.getD_eq_getElem?_getD, List.getElem?_eq_getElem hi, ← hget]; rfl
    have hm := hbi.2.1.mask hbi.2.2.1
    rw [← hcell] at hm
    have := glyph_table_facts cell.lmask hm.2 hm.1
    refine ⟨?_, ?_⟩
    · have h1 := this.1
      simp only [SelfDec, lineCh]
      exact h1
    · have h2 := this.2.1
      simp only [lineCh]
      exact h2
  have hnp := narrow_print t ht (rb.cell line col).pen (batch.map lineCh) hfacts
    (by intro hc; rw [List.map_eq_nil_iff] at hc; rw [hc] at hlen; simp at hlen)
    (by simp only [List.length_map]; omega)
  simp only [List.length_map] at hnp
  obtain ⟨h1, h2, h2c, h3, h4⟩ := hnp
  refine ⟨⟨?_, h3, h1, h2c⟩, h2⟩
  intro c hc1 hc2
  have hci : c = col + ((c - col).toNat : Int) := by omega
  have hi : (c - col).toNat < batch.length := by omega
  generalize (c - col).toNat = i at hci hi
  subst hci
  obtain ⟨hget, hr, hst, heq, _⟩ := hb i hi
  rw [want_of_run hl (by omega) hr (col + i) (by omega) (by have := hr.pos; omega)]
  simp only [wantOf, hst]
  rw [h4 i hi]
  have hbytes : ((batch.map lineCh).getD i ⟨[], 0, 0⟩).bytes = glyphBytes (rb.cell line (col + i)).lmask := by
    rw [List.getD_eq_getElem?_getD, List.getElem?_map, List.getElem?_eq_getElem hi]
    have : batch[i] = rb.cell line (col + i) := by
      rw [← hget, List.getD_eq_getElem?_getD, List.getElem?_eq_getElem hi]; rfl
    simp only [Option.map_some, Option.getD_some, lineCh, this]
  rw [hbytes]
  have hm := hr.mask hst
  have hg := (glyph_table_facts _ hm.2 hm.1).2.2
  simp only [cellOK, hg, penSame_of_equiv _ _ _ heq, Bool.true_and, beq_self_eq_true]

/-! ## One line of the flush -/

/-- What the TEXT case has to achieve at a run start (discharged in `Proof/RBFlushTextRun.lean`), on a terminal wide
    enough for the run. -/
def TextRunOK (rb : RB) (line col : Int) : Prop :=
  ∀ t : GridTerm, col + (rb.cell line col).cols ≤ t.cols → t.line = line ∧ t.col = col →
    Drawn rb line col (rb.cell line col).cols t (t.run (textReqs (rb.cell line col))) ∧
    (col + (rb.cell line col).cols < t.cols →
      (t.run (textReqs (rb.cell line col))).col = col + (rb.cell line col).cols)

theorem gotoIf_ready {line col phycol : Int} (t : GridTerm) (h0 : 0 ≤ col) (hlt : col < t.cols) (h1 : phycol ≤ col)
    (h2 : phycol = col → t.line = line ∧ t.col = col) :
    (t.run (gotoIf phycol line col)).line = line ∧ (t.run (gotoIf phycol line col)).col = col ∧
    (t.run (gotoIf phycol line col)).cells = t.cells ∧ (t.run (gotoIf phycol line col)).cols = t.cols := by
  unfold gotoIf
  by_cases h : phycol < col
  · rw [if_pos h]
    refine ⟨rfl, ?_, rfl, rfl⟩
    show max 0 (min col (t.cols - 1)) = col
    omega
  · rw [if_neg h]
    have := h2 (by omega)
    exact ⟨this.1, this.2, rfl, rfl⟩

theorem andThen_fst (pre : List Req) (r : List Req × Outcome) : (andThen pre r).1 = pre ++ r.1 := rfl
theorem andThen_snd (pre : List Req) (r : List Req × Outcome) : (andThen pre r).2 = r.2 := rfl

/-- A run drawn, then the rest of the line drawn: the line is drawn from the run's start. -/
theorem drawn_then {rb : RB} {line col n : Int} (t t0 t1 t2 : GridTerm) (hn : 1 ≤ n) (hfit : col + n ≤ rb.cols)
    (h0 : t0.cells = t.cells) (hd : Drawn rb line col n t0 t1)
    (hin : ∀ c, col + n ≤ c → c < rb.cols → cellOK (want rb line c) (t1.cells line c) (t2.cells line c) = true)
    (hout : ∀ l c, ¬ (l = line ∧ col + n ≤ c ∧ c < rb.cols) → t2.cells l c = t1.cells l c) :
    (∀ c, col ≤ c → c < rb.cols → cellOK (want rb line c) (t.cells line c) (t2.cells line c) = true) ∧
    (∀ l c, ¬ (l = line ∧ col ≤ c ∧ c < rb.cols) → t2.cells l c = t.cells l c) := by
  refine ⟨?_, ?_⟩
  · intro c hc1 hc2
    by_cases hc : c < col + n
    · rw [hout line c (by omega), ← h0]
      exact hd.inside c hc1 hc
    · have := hin c (by omega) hc2
      rw [hd.outside line c (by omega), h0] at this
      exact this
  · intro l c hc
    rw [hout l c (by omega), hd.outside l c (by omega), h0]

/-- The content of the buffer lies within `W` columns and `L` lines: every run that is not SKIP ends at or before
    column `W`, on a line above `L`.  (`W = rb.cols`, `L = rb.lines` always works.) -/
def FitsIn (rb : RB) (W L : Int) : Prop :=
  ∀ line col, 0 ≤ line → line < rb.lines → 0 ≤ col → RunAt rb line col → (rb.cell line col).state ≠ .skip →
    col + (rb.cell line col).cols ≤ W ∧ line < L

theorem calm_gotoIf (L : Int) (t : GridTerm) (phycol line col : Int) (h : 0 ≤ line ∧ line < L) :
    Calm L t (gotoIf phycol line col) := by
  unfold gotoIf
  split
  · exact ⟨h, trivial⟩
  · trivial

theorem textReqs_noGoto (cell : Cell) : ∀ r ∈ textReqs cell, r.isGoto = false := by
  intro r hr
  unfold textReqs at hr
  simp only [List.mem_append, List.mem_singleton] at hr
  rcases hr with ((hr | hr) | hr) | hr
  · subst hr; rfl
  · split at hr
    · simp only [List.mem_singleton] at hr; subst hr; rfl
    · simp at hr
  · split at hr
    · simp only [List.mem_singleton] at hr; subst hr; rfl
    · simp at hr
  · split at hr
    · simp only [List.mem_singleton] at hr; subst hr; rfl
    · simp at hr

/-- The requests of one run: a goto when needed, then requests that leave the cursor on the line. -/
theorem calm_run (L : Int) (t : GridTerm) (phycol line col : Int) (X rest : List Req) (hL : 0 ≤ line ∧ line < L)
    (hng : ∀ r ∈ X, r.isGoto = false) (h1 : (t.run (gotoIf phycol line col)).line = line)
    (h2 : ((t.run (gotoIf phycol line col)).run X).line = line)
    (h3 : Calm L ((t.run (gotoIf phycol line col)).run X) rest) :
    Calm L t (gotoIf phycol line col ++ X ++ rest) := by
  refine calm_append L _ _ t (calm_append L _ _ t (calm_gotoIf L t phycol line col hL) ?_) ?_
  · exact calm_of_line_eq L X _ hng (by rw [h2, h1])
  · rw [GridTerm.run_append]; exact h3

/-- One line of the flush on a terminal wide enough for the content of the line (`W` columns; in particular a terminal
    at least as wide as the buffer): wherever the cursor was (pending wrap included), every cell of the line from `col`
    on is drawn as the buffer wants it, nothing else is touched, and the requests are calm on a screen of `L` lines. -/
theorem flushCols_spec {rb : RB} {line W L : Int} (hl : 0 ≤ line ∧ line < rb.lines)
    (hin : ∀ col, 0 ≤ col → RunAt rb line col → (rb.cell line col).state ≠ .skip →
      col + (rb.cell line col).cols ≤ W ∧ line < L)
    (htext : ∀ col, 0 ≤ col → RunAt rb line col → (rb.cell line col).state = .text → TextRunOK rb line col) :
    ∀ (fuel : Nat) (col phycol : Int) (t : GridTerm), Tiled rb line col → 0 ≤ col → W ≤ t.cols →
      (rb.cols - col).toNat < fuel → phycol ≤ col → (phycol = col → col < W → t.line = line ∧ t.col = col) →
      (flushCols textReqs rb line fuel col phycol).2 = .ok ∧
      (t.run (flushCols textReqs rb line fuel col phycol).1).cols = t.cols ∧
      (∀ c, col ≤ c → c < rb.cols →
        cellOK (want rb line c) (t.cells line c)
          ((t.run (flushCols textReqs rb line fuel col phycol).1).cells line c) = true) ∧
      (∀ l c, ¬ (l = line ∧ col ≤ c ∧ c < rb.cols) →
        (t.run (flushCols textReqs rb line fuel col phycol).1).cells l c = t.cells l c) ∧
      Calm L t (flushCols textReqs rb line fuel col phycol).1 := by
  intro fuel
  induction fuel with
  | zero => intro col phycol t _ _ _ hf; omega
  | succ f ih =>
    intro col phycol t htl h0 hcw hf hp1 hp2
    unfold flushCols
    by_cases hlt : col < rb.cols
    · rw [if_neg (fun hn => hn hlt)]
      obtain ⟨hr, hnext⟩ := htl.inv hlt
      have hpos := hr.pos
      have hfit := hr.fits
      simp only
      split
      · -- SKIP
        rename_i hs
        have := ih (col + (rb.cell line col).cols) phycol t hnext (by omega) hcw (by omega) (by omega) (by omega)
        obtain ⟨i1, i0, i2, i3, i4⟩ := this
        refine ⟨i1, i0, ?_, ?_, i4⟩
        · intro c hc1 hc2
          by_cases hc : c < col + (rb.cell line col).cols
          · rw [i3 line c (by omega), want_of_run hl h0 hr c hc1 hc]
            simp [wantOf, hs, cellOK]
          · exact i2 c (by omega) hc2
        · intro l c hc
          exact i3 l c (by omega)
      · -- TEXT
        rename_i hs
        obtain ⟨hW, hL⟩ := hin col h0 hr (by rw [hs]; decide)
        obtain ⟨g1, g2, g3, g4⟩ := gotoIf_ready t h0 (by omega) hp1 (fun h => hp2 h (by omega))
        obtain ⟨hd, hcol⟩ := htext col h0 hr hs (t.run (gotoIf phycol line col)) (by rw [g4]; omega) ⟨g1, g2⟩
        rw [andThen_snd, andThen_fst, GridTerm.run_append, GridTerm.run_append]
        have := ih (col + (rb.cell line col).cols) (col + (rb.cell line col).cols)
          ((t.run (gotoIf phycol line col)).run (textReqs (rb.cell line col))) hnext (by omega)
          (by rw [hd.cols_eq, g4]; exact hcw) (by omega)
          (by omega) (fun _ hl' => ⟨hd.line_eq, hcol (by rw [g4]; omega)⟩)
        obtain ⟨i1, i0, i2, i3, i4⟩ := this
        obtain ⟨d1, d2⟩ := drawn_then t _ _ _ hpos hfit g3 hd i2 i3
        exact ⟨i1, by rw [i0, hd.cols_eq, g4], d1, d2,
          calm_run L t phycol line col _ _ ⟨hl.1, hL⟩ (textReqs_noGoto _) g1 hd.line_eq i4⟩
      · -- ERASE
        rename_i hs
        obtain ⟨hW, hL⟩ := hin col h0 hr (by rw [hs]; decide)
        obtain ⟨g1, g2, g3, g4⟩ := gotoIf_ready t h0 (by omega) hp1 (fun h => hp2 h (by omega))
        generalize hm : eraseMoveend rb line col (rb.cell line col) = me
        obtain ⟨hd, hcol⟩ := erase_run hl h0 hr hs (t.run (gotoIf phycol line col)) (by rw [g4]; omega) ⟨g1, g2⟩
          (if me = true then .yes else .maybe)
        rw [andThen_snd, andThen_fst, GridTerm.run_append, GridTerm.run_append]
        have := ih (col + (rb.cell line col).cols) (if me = true then col + (rb.cell line col).cols else -1)
          ((t.run (gotoIf phycol line col)).run
            [.setpen (rb.cell line col).pen, .erasech (rb.cell line col).cols (if me = true then .yes else .maybe)])
          hnext (by omega) (by rw [hd.cols_eq, g4]; exact hcw) (by omega) (by split <;> omega)
          (by
            intro hpe hl'
            cases me with
            | true => exact ⟨hd.line_eq, hcol (by simp) (by rw [g4]; omega)⟩
            | false => simp at hpe; omega)
        obtain ⟨i1, i0, i2, i3, i4⟩ := this
        obtain ⟨d1, d2⟩ := drawn_then t _ _ _ hpos hfit g3 hd i2 i3
        exact ⟨i1, by rw [i0, hd.cols_eq, g4], d1, d2,
          calm_run L t phycol line col _ _ ⟨hl.1, hL⟩
            (by intro r hr; simp only [List.mem_cons, List.not_mem_nil, or_false] at hr; rcases hr with rfl | rfl <;> rfl)
            g1 hd.line_eq i4⟩
      · -- LINE
        rename_i hs
        obtain ⟨hW, hL⟩ := hin col h0 hr (by rw [hs]; decide)
        obtain ⟨g1, g2, g3, g4⟩ := gotoIf_ready t h0 (by omega) hp1 (fun h => hp2 h (by omega))
        obtain ⟨hb, hbt, hblen⟩ := lineBatch_isBatch htl hlt hs
        have hbc := batchCols_of_isBatch _ _ hb
        -- the last cell of the batch is a LINE run: it ends within `W`
        have hWb : col + (lineBatch rb line col).length ≤ W := by
          obtain ⟨_, hrl, hsl, _, _⟩ := hb ((lineBatch rb line col).length - 1) (by omega)
          have h1 := (hin _ (by omega) hrl (by rw [hsl]; decide)).1
          have h2 := hrl.one (Or.inl hsl)
          omega
        obtain ⟨hd, hcol⟩ := line_run hl h0 htl hlt hs (t.run (gotoIf phycol line col)) (by rw [g4]; omega) ⟨g1, g2⟩
        rw [andThen_snd, andThen_fst, GridTerm.run_append, GridTerm.run_append, hbc]
        have hle := hbt.le_cols
        have := ih (col + (lineBatch rb line col).length) (col + (lineBatch rb line col).length)
          ((t.run (gotoIf phycol line col)).run
            [.setpen (rb.cell line col).pen,
             .print (batchBytes (lineBatch rb line col)) 0 (batchBytes (lineBatch rb line col)).length])
          hbt (by omega) (by rw [hd.cols_eq, g4]; exact hcw) (by omega) (by omega) (fun _ _ => ⟨hd.line_eq, hcol⟩)
        obtain ⟨i1, i0, i2, i3, i4⟩ := this
        obtain ⟨d1, d2⟩ := drawn_then t _ _ _ (by omega) hle g3 hd i2 i3
        exact ⟨i1, by rw [i0, hd.cols_eq, g4], d1, d2,
          calm_run L t phycol line col _ _ ⟨hl.1, hL⟩
            (by intro r hr; simp only [List.mem_cons, List.not_mem_nil, or_false] at hr; rcases hr with rfl | rfl <;> rfl)
            g1 hd.line_eq i4⟩
      · -- CHAR
        rename_i hs
        obtain ⟨hW, hL⟩ := hin col h0 hr (by rw [hs]; decide)
        obtain ⟨g1, g2, g3, g4⟩ := gotoIf_ready t h0 (by omega) hp1 (fun h => hp2 h (by omega))
        obtain ⟨hd, hcol⟩ := char_run hl h0 hr hs (t.run (gotoIf phycol line col)) (by rw [g4]; omega) ⟨g1, g2⟩
        rw [andThen_snd, andThen_fst, GridTerm.run_append, GridTerm.run_append]
        have := ih (col + (rb.cell line col).cols) (col + (rb.cell line col).cols)
          ((t.run (gotoIf phycol line col)).run
            [.setpen (rb.cell line col).pen,
             .print (Utf8.put (rb.cell line col).cp.toNat) 0 (Utf8.put (rb.cell line col).cp.toNat).length])
          hnext (by omega) (by rw [hd.cols_eq, g4]; exact hcw) (by omega) (by omega) (fun _ _ => ⟨hd.line_eq, hcol⟩)
        obtain ⟨i1, i0, i2, i3, i4⟩ := this
        obtain ⟨d1, d2⟩ := drawn_then t _ _ _ hpos hfit g3 hd i2 i3
        exact ⟨i1, by rw [i0, hd.cols_eq, g4], d1, d2,
          calm_run L t phycol line col _ _ ⟨hl.1, hL⟩
            (by intro r hr; simp only [List.mem_cons, List.not_mem_nil, or_false] at hr; rcases hr with rfl | rfl <;> rfl)
            g1 hd.line_eq i4⟩
      · -- CONT: excluded by RunAt
        rename_i hs
        exact absurd hs hr.notCont
    · rw [if_pos hlt]
      have := htl.le_cols
      refine ⟨rfl, rfl, ?_, ?_, trivial⟩
      · intro c hc1 hc2; omega
      · intro l c _; rfl

/-! ## All lines -/

theorem cellOK_keep (c : TCell) : cellOK .keep c c = true := by simp [cellOK]

theorem flushLines_spec {rb : RB} {W L : Int} (hwf : FlushWF rb) (hin : FitsIn rb W L)
    (htext : ∀ line col, 0 ≤ line → line < rb.lines → 0 ≤ col → RunAt rb line col →
      (rb.cell line col).state = .text → TextRunOK rb line col) :
    ∀ (n : Nat) (line : Int) (t : GridTerm), 0 ≤ line → line + n ≤ rb.lines → W ≤ t.cols →
      (flushLines textReqs rb n line).2 = .ok ∧
      (∀ l c, line ≤ l → l < line + n → 0 ≤ c → c < rb.cols →
        cellOK (want rb l c) (t.cells l c) ((t.run (flushLines textReqs rb n line).1).cells l c) = true) ∧
      (∀ l c, ¬ (line ≤ l ∧ l < line + n ∧ 0 ≤ c ∧ c < rb.cols) →
        (t.run (flushLines textReqs rb n line).1).cells l c = t.cells l c) ∧
      Calm L t (flushLines textReqs rb n line).1 := by
  intro n
  induction n with
  | zero =>
    intro line t _ _ _
    refine ⟨rfl, ?_, ?_, trivial⟩
    · intro l c h1 h2; omega
    · intro l c _; rfl
  | succ k ih =>
    intro line t h0 h1 hcw
    have hl : 0 ≤ line ∧ line < rb.lines := by omega
    obtain ⟨c1, c0, c2, c3, c4⟩ := flushCols_spec (W := W) (L := L) hl
      (fun col hc hr hs => hin line col hl.1 hl.2 hc hr hs)
      (fun col hc hr hs => htext line col hl.1 hl.2 hc hr hs)
      (rb.cols.toNat + 1) 0 (-1) t (hwf line hl.1 hl.2) (by omega) hcw (by omega) (by omega) (by omega)
    unfold flushLines
    simp only [c1, andThen_fst, andThen_snd, GridTerm.run_append]
    obtain ⟨i1, i2, i3, i4⟩ := ih (line + 1) (t.run (flushCols textReqs rb line (rb.cols.toNat + 1) 0 (-1)).1)
      (by omega) (by omega) (by rw [c0]; exact hcw)
    refine ⟨i1, ?_, ?_, calm_append L _ _ t c4 i4⟩
    · intro l c hl1 hl2 hc1 hc2
      by_cases hll : l = line
      · subst hll
        rw [i3 l c (by omega)]
        exact c2 c hc1 hc2
      · have := i2 l c (by omega) (by omega) hc1 hc2
        rw [c3 l c (by omega)] at this
        exact this
    · intro l c hn
      rw [i3 l c (by omega), c3 l c (by omega)]

/-- The whole flush, given the TEXT case, on a terminal wide enough for the content (`FitsIn rb W L`, `W ≤ t.cols`):
    the specification holds of the grid, and the requests are calm on a screen of `L` lines. -/
theorem flush_spec_of_text_within {rb : RB} {W L : Int} (hwf : FlushWF rb) (hin : FitsIn rb W L)
    (htext : ∀ line col, 0 ≤ line → line < rb.lines → 0 ≤ col → RunAt rb line col →
      (rb.cell line col).state = .text → TextRunOK rb line col) (t : GridTerm) (hcw : W ≤ t.cols) :
    (flushToTerm rb).out = .ok ∧
    (∀ l c, cellOK (want rb l c) (t.cells l c) ((t.run (flushToTerm rb).reqs).cells l c) = true) ∧
    Calm L t (flushToTerm rb).reqs := by
  unfold flushToTerm flushWith
  simp only
  by_cases hlines : 0 ≤ rb.lines
  · obtain ⟨h1, h2, h3, h4⟩ := flushLines_spec hwf hin htext rb.lines.toNat 0 t (by omega) (by omega) hcw
    refine ⟨h1, ?_, h4⟩
    intro l c
    by_cases hg : rb.inGrid l c
    · unfold RB.inGrid at hg
      exact h2 l c (by omega) (by omega) (by omega) (by omega)
    · rw [h3 l c (by unfold RB.inGrid at hg; omega)]
      unfold want
      rw [if_pos hg]
      exact cellOK_keep _
  · have : rb.lines.toNat = 0 := by omega
    rw [this]
    refine ⟨rfl, ?_, trivial⟩
    intro l c
    have hg : ¬ rb.inGrid l c := by unfold RB.inGrid; omega
    unfold want
    rw [if_pos hg]
    exact cellOK_keep _

/-- Every buffer's content lies within the buffer. -/
theorem within_self (rb : RB) : FitsIn rb rb.cols rb.lines :=
  fun _ _ _ h2 _ hr _ => ⟨hr.fits, h2⟩

theorem FitsIn.mono {rb : RB} {W L W' L' : Int} (h : FitsIn rb W L) (hW : W ≤ W') (hL : L ≤ L') : FitsIn rb W' L' := by
  intro line col h1 h2 h3 hr hs
  have := h line col h1 h2 h3 hr hs
  omega

/-- A run that is not SKIP owes every one of its cells something. -/
theorem wantOf_ne_keep (sc : Cell) (j : Int) (h : sc.state ≠ .skip) : wantOf sc j ≠ .keep := by
  unfold wantOf
  cases hs : sc.state with
  | skip => exact absurd hs h
  | erase => simp
  | char => simp
  | line => simp
  | cont => simp
  | text =>
    simp only
    split
    · simp
    · split <;> simp

/-- "The terminal cells outside a screen of `W` columns and `L` lines are owed nothing" puts the content within it. -/
theorem within_of_want {rb : RB} {W L : Int} (h : ∀ l c, L ≤ l ∨ W ≤ c → want rb l c = .keep) : FitsIn rb W L := by
  intro line col h1 h2 h3 hr hs
  have hpos := hr.pos
  have hw := want_of_run ⟨h1, h2⟩ h3 hr (col + (rb.cell line col).cols - 1) (by omega) (by omega)
  have hne := wantOf_ne_keep (rb.cell line col) (col + (rb.cell line col).cols - 1 - col) hs
  rw [← hw] at hne
  refine ⟨?_, ?_⟩
  · by_cases hc : W ≤ col + (rb.cell line col).cols - 1
    · exact absurd (h _ _ (Or.inr hc)) hne
    · omega
  · by_cases hc : L ≤ line
    · exact absurd (h _ _ (Or.inl hc)) hne
    · omega

/-- A buffer that fits on the screen has its content within the screen. -/
theorem want_keep_outside (rb : RB) (W L : Int) (hL : rb.lines ≤ L) (hW : rb.cols ≤ W) :
    ∀ l c, L ≤ l ∨ W ≤ c → want rb l c = .keep := by
  intro l c h
  unfold want
  rw [if_pos (by unfold RB.inGrid; omega)]

/-- The decidable form of "the content lies within the screen" (what the driver evaluates) implies the hypothesis of
    `flush_spec_screen`. -/
theorem want_keep_of_contentWithinB {rb : RB} {W L : Int} (h : contentWithinB rb W L = true) :
    ∀ l c, L ≤ l ∨ W ≤ c → want rb l c = .keep := by
  intro l c hout
  by_cases hg : rb.inGrid l c
  · unfold RB.inGrid at hg
    unfold contentWithinB at h
    simp only [List.all_eq_true, List.mem_range, Bool.or_eq_true, Bool.and_eq_true, decide_eq_true_eq,
      beq_iff_eq] at h
    have := h l.toNat (by omega) c.toNat (by omega)
    rw [show ((l.toNat : Nat) : Int) = l by omega, show ((c.toNat : Nat) : Int) = c by omega] at this
    cases this with
    | inl h' => omega
    | inr h' => exact h'
  · unfold want
    rw [if_pos hg]

/-- The whole flush, given the TEXT case, on a terminal at least as wide as the buffer. -/
theorem flush_spec_of_text {rb : RB} (hwf : FlushWF rb)
    (htext : ∀ line col, 0 ≤ line → line < rb.lines → 0 ≤ col → RunAt rb line col →
      (rb.cell line col).state = .text → TextRunOK rb line col) (t : GridTerm) (hcw : rb.cols ≤ t.cols) :
    (flushToTerm rb).out = .ok ∧
    ∀ l c, cellOK (want rb l c) (t.cells l c) ((t.run (flushToTerm rb).reqs).cells l c) = true :=
  let h := flush_spec_of_text_within hwf (within_self rb) htext t hcw
  ⟨h.1, h.2.1⟩

end Tickit.RBFlush
