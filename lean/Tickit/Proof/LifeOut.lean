import Tickit.Model.LifeOut
import Tickit.Proof.LifeTopEnd
import Tickit.Proof.TermBuf
import Tickit.Proof.Sgr
/-
  C08 proofs, part 19: the output side of the main terminal (`Model/LifeOut.lean`).

  The invariant of this layer is the one of the layer below (`TopInv`) together with the well-formedness of the output
  buffer as engine `termbuf` states it (`TermBuf.WF`: without a buffer nothing is pending, with a buffer of `n` bytes
  fewer than `n` bytes are pending between two calls).  Under it every `memcpy` of `write_str` stays inside the buffer
  (`TermBuf.writeStr_total`, `TermBuf.step_ok`), `tickit_term_set_output_buffer` restores it whatever was pending
  (the fill level is reset together with the length), and the xterm driver's `chpen` never needs more than 19 elements of
  `params[]` (`Tickit.Proof.Sgr.length_flatten_comps`).
-/
namespace Tickit.Life
open TermBuf (WF)

/-- The slot tables of the default event loop between two calls: `revents` belongs to the slots, the slots in use fit the
    blocks allocated, and there are no more slots than watches handed out (and the terminal's). -/
structure IoInv (io : IoSt) : Prop where
  rev : io.revents.size = io.slots.size
  cap : io.slots.size ≤ io.alloc
  pos : 0 < io.alloc
  recs : io.recs.size ≤ ioCap
  slots : io.slots.size ≤ io.recs.size + 1

theorem ioInv_init : IoInv {} := ⟨rfl, by decide, by decide, by decide, by decide⟩

/-- `evloop_io`: the tables are doubled before they overflow. -/
theorem register_inv {io : IoSt} (I : IoInv io) (k : Nat) (h : io.slots.size ≤ io.recs.size) : IoInv (io.register k) := by
  unfold IoSt.register
  split
  · exact ⟨by simp [I.rev], by simpa using I.cap, I.pos, I.recs, by simpa using I.slots⟩
  · by_cases he : io.slots.size = io.alloc
    · simp only [he, if_true]
      refine ⟨by simp [I.rev], ?_, ?_, I.recs, ?_⟩
      · have := I.pos; simp only [Array.size_push]; omega
      · have := I.pos; show 0 < io.alloc * 2; omega
      · simp only [Array.size_push]; omega
    · simp only [he, if_false]
      refine ⟨by simp [I.rev], ?_, I.pos, I.recs, ?_⟩
      · have := I.cap; simp only [Array.size_push]; omega
      · simp only [Array.size_push]; omega

theorem cancel_inv {io : IoSt} (I : IoInv io) (k : Nat) : IoInv (io.cancel k) := by
  unfold IoSt.cancel
  exact ⟨by simp [I.rev], by simpa using I.cap, I.pos, I.recs, by simpa using I.slots⟩

theorem watch_inv {io : IoSt} (I : IoInv io) (r : IoRec) : IoInv (io.watch r) := by
  unfold IoSt.watch
  split
  · exact I
  · rename_i hlt
    have hlt : io.recs.size < ioCap := by omega
    have I' : IoInv { io with recs := io.recs.push r } :=
      ⟨I.rev, I.cap, I.pos, by simp only [Array.size_push]; omega, by have := I.slots; simp only [Array.size_push]; omega⟩
    have hs : ({ io with recs := io.recs.push r } : IoSt).slots.size ≤ ({ io with recs := io.recs.push r } : IoSt).recs.size := by
      have := I.slots; simp only [Array.size_push]; omega
    exact register_inv I' _ hs

theorem act_inv {io : IoSt} (I : IoInv io) (self : Nat) (a : IAct) : IoInv (io.act self a) := by
  cases a with
  | reg ready => exact watch_inv I _
  | cancel k => exact cancel_inv I k
  | cancelSelf => exact cancel_inv I self

theorem acts_inv (self : Nat) : ∀ (acts : List IAct) {io : IoSt}, IoInv io → IoInv (acts.foldl (fun io a => io.act self a) io)
  | [], _, I => I
  | a :: rest, _, I => acts_inv self rest (act_inv I self a)

theorem poll_inv {io : IoSt} (I : IoInv io) : IoInv io.poll := by
  unfold IoSt.poll
  exact ⟨by simp, I.cap, I.pos, I.recs, I.slots⟩

theorem log_inv {io : IoSt} (I : IoInv io) (l : List String) : IoInv { io with log := l } :=
  ⟨I.rev, I.cap, I.pos, I.recs, I.slots⟩

/-- The dispatch loop of `evloop_run`, whatever the callbacks register and cancel: every read of `pollfds[idx]` goes to
    the block `evdata->pollfds` points to at that moment and lies inside it, and the loop ends. -/
theorem dispatch_ok : ∀ (fuel idx : Nat) {io : IoSt}, IoInv io → ioCap + 2 ≤ idx + fuel → idx ≤ ioCap + 1 →
    ∃ io', IoSt.dispatch fuel idx io = .ok io' ∧ IoInv io'
  | 0, idx, io, _, h, hle => by omega
  | fuel + 1, idx, io, I, h, _ => by
    unfold IoSt.dispatch
    by_cases hd : io.slots.size ≤ idx
    · rw [if_pos hd]; exact ⟨io, rfl, I⟩
    · rw [if_neg hd]
      have hrd : io.rd io.gen idx = .ok () := by
        unfold IoSt.rd
        rw [if_neg (by simp)]
        have := I.cap
        rw [if_neg (by omega)]
        rfl
      have hidx : idx + 1 ≤ ioCap + 1 := by have := I.slots; have := I.recs; omega
      simp only [hrd, bind_ok]
      split
      · split
        · exact dispatch_ok fuel (idx + 1) (acts_inv _ _ (log_inv I _)) (by omega) hidx
        · exact dispatch_ok fuel (idx + 1) I (by omega) hidx
      · exact dispatch_ok fuel (idx + 1) I (by omega) hidx

/-- The invariant between two operations of `Model/LifeOut.lean`. -/
structure OInv (o : OTop) : Prop where
  top : TopInv o.top
  wf : WF o.o.tb
  io : IoInv o.io

/-- The operations the theorems of this layer cover: what `XOp.covered` covers below, and every operation of this layer
    (a buffer of any length at any moment, printing any non-empty text, any cursor position, any capability report, any
    pen). -/
def YOp.covered : YOp → Prop
  | .x op => op.covered
  | .tprint bytes => bytes ≠ []
  | _ => True

theorem wf_fresh (known : Bool) : WF (OutSt.fresh known).tb := by
  unfold WF OutSt.fresh
  exact ⟨fun _ => rfl, fun h => absurd h (Nat.lt_irrefl 0)⟩

theorem wf_clear_out {tb : TermBuf.State} (h : WF tb) : WF { tb with out := [] } := h

/-- One call of `src/term.c` / the xterm driver from a well-formed buffer: it is defined and leaves the buffer well-formed. -/
theorem withTb_ok {o : OTop} {r : TermBuf.Outcome} (T : TopInv o.top) (J : IoInv o.io) (tail : String)
    (h : ∃ tb, r = .ok tb ∧ WF tb) : ∃ o' s, withTb o r tail = .ok (o', s) ∧ OInv o' := by
  obtain ⟨tb, hr, hwf⟩ := h
  subst hr
  exact ⟨_, _, rfl, ⟨T, wf_clear_out hwf, J⟩⟩

theorem ioAfter_ok (top : Top) (op : XOp) (r : String) {io : IoSt} (I : IoInv io) :
    ∃ io', ioAfter top op r io = .ok io' ∧ IoInv io' := by
  have I0 : IoInv (if (!instAlive top) = true then ({} : IoSt) else io) := by
    split
    · exact ioInv_init
    · exact I
  unfold ioAfter
  cases op with
  | itick toks =>
    dsimp only
    split
    · exact dispatch_ok ioFuel 0 (poll_inv I0) (by unfold ioFuel; omega) (by omega)
    · exact ⟨_, rfl, I0⟩
  | _ => exact ⟨_, rfl, I0⟩

theorem ystepIo_ok {o : OTop} (I : OInv o) (c : Bool) {io : IoSt} (J : IoInv io) :
    ∃ o' r, ystepIo o c io = .ok (o', r) ∧ OInv o' := by
  cases c with
  | false => exact ⟨o, _, rfl, I⟩
  | true => exact ⟨_, _, rfl, ⟨I.top, I.wf, J⟩⟩

theorem tbStep_ok {tb : TermBuf.State} (hwf : WF tb) (op : TermBuf.Op) (hok : TermBuf.OpOK op) :
    ∃ tb', TermBuf.step tb op = .ok tb' ∧ WF tb' := by
  obtain ⟨tb', h⟩ := TermBuf.step_ok hwf hok
  exact ⟨tb', h, TermBuf.step_wf hwf h⟩

/-- The xterm driver's `chpen` with room for 19 parameters: the array is never overrun, and what it writes goes
    through `write_str` within the buffer. -/
theorem drvChpen_ok {tb : TermBuf.State} (hwf : WF tb) (hcap : 19 ≤ Gen.Sgr.paramsCap) (caps : TermPen.Caps) (delta final : TermPen.Pen) :
    ∃ tb', drvChpen tb caps delta final = .ok tb' ∧ WF tb' := by
  unfold drvChpen
  have hlen := Tickit.Proof.Sgr.length_flatten_comps caps delta
  cases hx : TermPen.xtermChpen caps Gen.Sgr.paramsCap delta final with
  | overflow n =>
    exfalso
    unfold TermPen.xtermChpen at hx
    simp only at hx
    rw [if_neg (by omega)] at hx
    split at hx
    · cases hx
    · split at hx <;> cases hx
  | bytes bs =>
    dsimp only
    by_cases he : bs.isEmpty = true
    · rw [if_pos he]; exact ⟨tb, rfl, hwf⟩
    · rw [if_neg he]
      have hne : bs ≠ [] := by intro e; subst e; exact he rfl
      have hpos : 0 < bs.length := List.length_pos_iff.2 hne
      have hr : TermBuf.ReqOK (bytesOfNats bs ++ [0]) bs.length := by
        refine ⟨by simp [bytesOfNats], fun h0 => by omega⟩
      obtain ⟨tb', h⟩ := TermBuf.writeStr_total hwf hr
      exact ⟨tb', h, (TermBuf.writeStr_ext hwf h).wf⟩

/-- One covered operation from a state satisfying the invariant: it succeeds and the invariant holds again. -/
theorem ystep_ok {tc : TCfg} (R : TRepaired tc) (hcap : 19 ≤ Gen.Sgr.paramsCap) {o : OTop} (I : OInv o) (op : YOp) (h : op.covered) :
    ∃ o' r, ystep tc o op = .ok (o', r) ∧ OInv o' := by
  cases op with
  | x op =>
    obtain ⟨top', r, hs, T'⟩ := xstep_top_ok R I.top op h
    obtain ⟨io', hio, J⟩ := ioAfter_ok top' op r I.io
    simp only [ystep, hs, bind_ok, pure_ok, hio]
    refine ⟨_, _, rfl, ⟨T', ?_, J⟩⟩
    dsimp only
    split
    · exact wf_fresh _
    · exact wf_fresh _
    · exact wf_fresh _
    · split
      · exact I.wf
      · exact I.wf
  | tbuf n =>
    simp only [ystep]
    split
    · exact ⟨o, _, rfl, I⟩
    · split
      · exact ⟨o, _, rfl, I⟩
      · exact withTb_ok I.top I.io "" (tbStep_ok I.wf (.setbuf n) trivial)
  | tprint bytes =>
    simp only [ystep]
    split
    · exact ⟨o, _, rfl, I⟩
    · split
      · exact ⟨o, _, rfl, I⟩
      · refine withTb_ok I.top I.io "" (tbStep_ok I.wf (.printn bytes bytes.length) ⟨Nat.le_refl _, fun h0 => ?_⟩)
        exact absurd (List.length_eq_zero_iff.1 h0) h
  | tgoto line col =>
    simp only [ystep]
    split
    · exact ⟨o, _, rfl, I⟩
    · split
      · exact ⟨o, _, rfl, I⟩
      · exact withTb_ok I.top I.io "" (tbStep_ok I.wf (.goto line col) trivial)
  | tflush =>
    simp only [ystep]
    split
    · exact ⟨o, _, rfl, I⟩
    · split
      · exact ⟨o, _, rfl, I⟩
      · exact withTb_ok I.top I.io "" (tbStep_ok I.wf .flush trivial)
  | tcaps rgb8 colon viaCtl =>
    simp only [ystep]
    split
    · exact ⟨o, _, rfl, I⟩
    · split
      · exact ⟨o, _, rfl, I⟩
      · obtain ⟨top', r, hs, T'⟩ := xstep_top_ok R I.top (.tpush []) trivial
        simp only [hs, bind_ok, pure_ok]
        exact ⟨_, _, rfl, ⟨T', I.wf, I.io⟩⟩
  | tsetpen set pen =>
    simp only [ystep]
    split
    · exact ⟨o, _, rfl, I⟩
    · split
      · exact ⟨o, _, rfl, I⟩
      · exact withTb_ok (o := { top := o.top, o := { o.o with cache := TermPen.termCache set xtermColors o.o.cache pen }, io := o.io }) I.top I.io ""
          (drvChpen_ok I.wf hcap _ _ _)
  | iio ready acts => exact ystepIo_ok I _ (watch_inv I.io _)
  | iiocancel k => exact ystepIo_ok I _ (cancel_inv I.io k)

theorem yrun_ok {tc : TCfg} (R : TRepaired tc) (hcap : 19 ≤ Gen.Sgr.paramsCap) : ∀ (ops : List YOp) (o : OTop), OInv o →
    (∀ op ∈ ops, op.covered) → ∃ o', yrunOps tc o ops = .ok o' ∧ OInv o'
  | [], o, I, _ => ⟨o, rfl, I⟩
  | op :: rest, o, I, h => by
    obtain ⟨o1, r, hs, I1⟩ := ystep_ok R hcap I op (h op (by simp))
    obtain ⟨o', hr, I'⟩ := yrun_ok R hcap rest o1 I1 (fun x hx => h x (by simp [hx]))
    refine ⟨o', ?_, I'⟩
    unfold yrunOps
    rw [hs]
    exact hr

/-- The operations a history starts with. -/
theorem ystep_start_ok {tc : TCfg} (R : TRepaired tc) (o : OTop) (hJ : IoInv o.io) (op : XOp) (h : op.isNew = true) :
    ∃ o' r, ystep tc o (.x op) = .ok (o', r) ∧ OInv o' := by
  obtain ⟨top', r, hs, T'⟩ := xstep_start_ok R o.top op h
  obtain ⟨io', hio, J⟩ := ioAfter_ok top' op r (io := o.io) hJ
  simp only [ystep, hs, bind_ok, pure_ok, hio]
  refine ⟨_, _, rfl, ⟨T', ?_, J⟩⟩
  cases op <;> simp only [XOp.isNew, Bool.false_eq_true] at h
  · rename_i bop
    cases bop <;> simp only [XOp.isNew, Bool.false_eq_true] at h
    exact wf_fresh _
  · exact wf_fresh _
  · exact wf_fresh _

theorem yrun_from_start {tc : TCfg} (R : TRepaired tc) (hcap : 19 ≤ Gen.Sgr.paramsCap) (start : XOp) (hstart : start.isNew = true)
    (ops : List YOp) (h : ∀ op ∈ ops, op.covered) :
    ∃ o', yrunOps tc {} (.x start :: ops) = .ok o' ∧ OInv o' := by
  obtain ⟨o1, r, hs, I1⟩ := ystep_start_ok R ({} : OTop) ioInv_init start hstart
  obtain ⟨o', hr, I'⟩ := yrun_ok R hcap ops o1 I1 h
  refine ⟨o', ?_, I'⟩
  unfold yrunOps
  rw [hs]
  exact hr

theorem yrunOps_append (tc : TCfg) : ∀ (ops1 ops2 : List YOp) (o0 o1 : OTop), yrunOps tc o0 ops1 = .ok o1 →
    yrunOps tc o0 (ops1 ++ ops2) = yrunOps tc o1 ops2
  | [], ops2, o0, o1, h => by simp only [yrunOps, Out.ok.injEq] at h; subst h; rfl
  | op :: rest, ops2, o0, o1, h => by
    rw [List.cons_append, yrunOps]
    rw [yrunOps] at h
    cases hs : ystep tc o0 op with
    | ok p =>
      simp only [hs] at h ⊢
      exact yrunOps_append tc rest ops2 p.1 o1 h
    | ub k w => simp only [hs] at h; cases h
    | fuel => simp only [hs] at h; cases h

/-- After `end` nothing is left, whatever the output side has seen (a buffer with output pending included: the terminal
    frees it). -/
theorem yrun_end {tc : TCfg} (R : TRepaired tc) (hcap : 19 ≤ Gen.Sgr.paramsCap) (start : XOp) (hstart : start.isNew = true)
    (ops : List YOp) (h : ∀ op ∈ ops, op.covered) :
    ∃ o', yrunOps tc {} (.x start :: ops ++ [.x (.base .«end»)]) = .ok o' ∧ o'.top.anythingLeft = false ∧ o'.top.fail = none := by
  obtain ⟨o1, hr, I1⟩ := yrun_from_start R hcap start hstart ops h
  obtain ⟨top2, r, he, hleft, hfail, _⟩ := end_ok R I1.top
  obtain ⟨io2, hio, _⟩ := ioAfter_ok top2 (.base .«end») r I1.io
  refine ⟨⟨top2, o1.o, io2⟩, ?_, hleft, hfail⟩
  rw [show YOp.x start :: ops ++ [YOp.x (.base .«end»)] = (YOp.x start :: ops) ++ [YOp.x (.base .«end»)] from rfl]
  rw [yrunOps_append tc (.x start :: ops) [.x (.base .«end»)] {} o1 hr]
  have hq : (XOp.base Op.«end»).quiet = true := rfl
  simp only [yrunOps, ystep, he, bind_ok, pure_ok, hq, Bool.true_or, if_true, hio]

end Tickit.Life
