import Tickit.Model.SgrStrict
import Tickit.Model.TermSuspend
import Tickit.Proof.Sgr
/-
  Proof/SgrStrict.lean — the modelled xterm encoder sends SGR sequences and nothing else (`Model/SgrStrict.lean`).
-/
namespace Tickit.Proof.SgrStrict
open Tickit Tickit.TermPen Tickit.Sgr Tickit.Proof.Sgr

/-- digits, `:` and `;` keep an unmarked CSI open and unmarked -/
theorem feed_param_byte (b : Nat) (hb : 48 ≤ b ∧ b ≤ 59) (gs : List Group) (cur : Group) (num : Option Nat) (a : Attrs) :
    ∃ gs' cur' num', feed ⟨.csi false gs cur num false, a⟩ b = ⟨.csi false gs' cur' num' false, a⟩ := by
  by_cases h1 : b ≤ 57
  · refine ⟨gs, cur, some (num.getD 0 * 10 + (b - 48)), ?_⟩
    simp only [feed]
    rw [if_pos (show 48 ≤ b ∧ b ≤ 57 from ⟨hb.1, h1⟩)]
  · by_cases h2 : b = 58
    · subst h2; exact ⟨gs, cur ++ [num], none, by simp [feed]⟩
    · have h3 : b = 59 := by omega
      subst h3; exact ⟨gs ++ [cur ++ [num]], [], none, by simp [feed]⟩

theorem body_clean (body : List Byte) (hb : ∀ b ∈ body, 48 ≤ b ∧ b ≤ 59) (gs : List Group) (cur : Group) (num : Option Nat)
    (a : Attrs) :
    strays body ⟨.csi false gs cur num false, a⟩ = [] ∧ foreign body ⟨.csi false gs cur num false, a⟩ = 0 ∧
      ∃ gs' cur' num', run body ⟨.csi false gs cur num false, a⟩ = ⟨.csi false gs' cur' num' false, a⟩ := by
  induction body generalizing gs cur num with
  | nil => exact ⟨rfl, rfl, gs, cur, num, rfl⟩
  | cons b bs ih =>
    have hb0 := hb b (by simp)
    obtain ⟨gs1, cur1, num1, hf⟩ := feed_param_byte b hb0 gs cur num a
    obtain ⟨h1, h2, h3⟩ := ih (fun x hx => hb x (by simp [hx])) gs1 cur1 num1
    have hnf : isForeign ⟨.csi false gs cur num false, a⟩ b = false := by
      have : (decide (48 ≤ b) && decide (b ≤ 59)) = true := by simp [hb0.1, hb0.2]
      simp [isForeign, this]
    refine ⟨?_, ?_, ?_⟩
    · simp only [strays, hf, h1]
      simp [isStray]
    · simp only [foreign, hf, h2, hnf]
      simp
    · simpa [run, hf] using h3

theorem showNat_range (n : Nat) : ∀ b ∈ showNat n, 48 ≤ b ∧ b ≤ 59 := by
  intro b hb
  simp only [showNat, List.mem_map, List.mem_reverse] at hb
  obtain ⟨d, hd, rfl⟩ := hb
  have := digitsRev_lt _ _ d hd
  have h0 : d < 10 := this
  have h1 : (48 : Nat) ≤ d + 48 := Nat.le_add_left _ _
  have h2 : d + 48 ≤ (59 : Nat) := by
    have : d + 48 ≤ 9 + 48 := Nat.add_le_add_right (Nat.le_of_lt_succ h0) 48
    exact Nat.le_trans this (by decide)
  exact ⟨h1, h2⟩

theorem renderBody_range (colon : Bool) (ps : List Param) : ∀ b ∈ renderBody colon ps, 48 ≤ b ∧ b ≤ 59 := by
  induction ps with
  | nil => intro b hb; simp [renderBody] at hb
  | cons p tl ih =>
    cases tl with
    | nil => intro b hb; exact showNat_range p.val b (by simpa [renderBody] using hb)
    | cons q rest =>
      intro b hb
      simp only [renderBody, List.mem_append, List.mem_singleton] at hb
      rcases hb with (hb | hb) | hb
      · exact showNat_range _ b hb
      · subst hb; cases (p.more && colon) <;> simp
      · exact ih b hb

/-- `ESC [ params m` as the driver renders it is an SGR sequence and nothing else. -/
theorem renderSgr_sgrOnly (colon : Bool) (ps : List Param) (a : Attrs) : SgrOnly (renderSgr colon ps) ⟨.ground, a⟩ := by
  unfold renderSgr
  have h1 : run [27, 91] ⟨.ground, a⟩ = ⟨.csi false [] [] none false, a⟩ := by simp [run, feed]
  obtain ⟨b1, b2, gs', cur', num', b3⟩ := body_clean (renderBody colon ps) (renderBody_range colon ps) [] [] none a
  have h2 : run ([27, 91] ++ renderBody colon ps) ⟨.ground, a⟩ = ⟨.csi false gs' cur' num' false, a⟩ := by
    rw [run_append, h1, b3]
  refine ⟨?_, ?_, ?_⟩
  · rw [strays_append, strays_append, h1, h2, b1]
    simp [strays, isStray, feed]
  · rw [foreign_append, foreign_append, h1, h2, b2]
    simp [foreign, isForeign, feed]
  · rw [run_append, h2]
    simp [run, feed]

/-- The xterm driver's `chpen` sends SGR sequences and nothing else, whatever (delta, final) it is handed. -/
theorem xtermChpen_sgrOnly (caps : Caps) (cap : Nat) (delta final : Pen) (bs : List Byte) (vt : VT)
    (h : xtermChpen caps cap delta final = .bytes bs) (hg : vt.st = .ground) : SgrOnly bs vt := by
  obtain ⟨st, a⟩ := vt
  simp only at hg
  subst hg
  unfold xtermChpen at h
  simp only at h
  split at h
  · cases h
  · split at h
    · cases h; exact sgrOnly_nil _ rfl
    · split at h <;> (cases h; exact renderSgr_sgrOnly _ _ _)

end Tickit.Proof.SgrStrict
