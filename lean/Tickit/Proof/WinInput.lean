import Tickit.Model.WinInput
/-
  Helper lemmas for C14 (input routing in window.c): the outcome monads, the window store up to reference
  counts (`Le`), what `ref` / `unref` do to it, and handlers that do not mutate the tree (`Static`).
-/
namespace Tickit
namespace WinInput
open WinTree

/-! ### the outcome monads -/

@[simp] theorem res_pure {α : Type} (a : α) : (pure a : Res α) = Res.ok a := rfl
@[simp] theorem res_bind_ok {α β : Type} (a : α) (f : α → Res β) : (Res.ok a >>= f) = f a := rfl
@[simp] theorem res_bind_ub {α β : Type} (w : String) (f : α → Res β) : (Res.ub w >>= f) = Res.ub w := rfl

theorem res_bind_eq_ok {α β : Type} {x : Res α} {f : α → Res β} {b : β} :
    (x >>= f) = Res.ok b ↔ ∃ a, x = Res.ok a ∧ f a = Res.ok b := by
  cases x with
  | ok a => simp
  | ub w => simp

@[simp] theorem out_pure {α : Type} (a : α) : (pure a : Out α) = Out.ok a := rfl
@[simp] theorem out_bind_ok {α β : Type} (a : α) (f : α → Out β) : (Out.ok a >>= f) = f a := rfl
@[simp] theorem out_bind_ub {α β : Type} (w : String) (f : α → Out β) : (Out.ub w >>= f) = Out.ub w := rfl
@[simp] theorem out_bind_fuel {α β : Type} (f : α → Out β) : ((Out.fuel : Out α) >>= f) = Out.fuel := rfl

theorem out_bind_eq_ok {α β : Type} {x : Out α} {f : α → Out β} {b : β} :
    (x >>= f) = Out.ok b ↔ ∃ a, x = Out.ok a ∧ f a = Out.ok b := by
  cases x with
  | ok a => simp
  | ub w => simp
  | fuel => simp

@[simp] theorem lift_ok {α : Type} (a : α) : (liftM (Res.ok a : Res α) : Out α) = Out.ok a := rfl
@[simp] theorem lift_ub {α : Type} (w : String) : (liftM (Res.ub w : Res α) : Out α) = Out.ub w := rfl
@[simp] theorem mlift_ok {α : Type} (a : α) : (monadLift (Res.ok a : Res α) : Out α) = Out.ok a := rfl
@[simp] theorem mlift_ub {α : Type} (w : String) : (monadLift (Res.ub w : Res α) : Out α) = Out.ub w := rfl

theorem lift_eq_ok {α : Type} {x : Res α} {a : α} : (liftM x : Out α) = Out.ok a ↔ x = Res.ok a := by
  cases x with
  | ok b => simp
  | ub w => simp

/-- `let a ← liftM x; f a` returned: `x` returned, and so did `f`. -/
theorem lift_bind_eq_ok {α β : Type} {x : Res α} {f : α → Out β} {b : β} :
    ((liftM x : Out α) >>= f) = Out.ok b ↔ ∃ a, x = Res.ok a ∧ f a = Out.ok b := by
  cases x with
  | ok a => simp
  | ub w => simp

/-! ### the window store -/

theorem get_eq_ok {t : Tree} {i : WinTree.Id} {w : Win} :
    WinTree.get t i = Res.ok w ↔ t.wins[i]? = some w ∧ w.freed = false := by
  unfold WinTree.get
  cases h : t.wins[i]? with
  | none => simp
  | some x =>
    by_cases hf : x.freed = true
    · simp [hf]
      intro hx; subst hx; simp [hf]
    · simp [hf]
      intro hx; subst hx; simpa using hf

theorem wins_set (t : Tree) (i j : WinTree.Id) (w : Win) :
    (WinTree.set t i w).wins[j]? = if i = j then (if i < t.wins.size then some w else none) else t.wins[j]? := by
  simp [WinTree.set, Array.getElem?_setIfInBounds]

theorem wins_set_self {t : Tree} {i : WinTree.Id} {w x : Win} (h : t.wins[i]? = some x) : (WinTree.set t i w).wins[i]? = some w := by
  have hi : i < t.wins.size := by
    rcases Array.getElem?_eq_some_iff.1 h with ⟨hi, _⟩; exact hi
  simp [wins_set, hi]

theorem wins_set_ne {t : Tree} {i j : WinTree.Id} {w : Win} (h : i ≠ j) : (WinTree.set t i w).wins[j]? = t.wins[j]? := by
  simp [wins_set, h]

@[simp] theorem size_set (t : Tree) (i : WinTree.Id) (w : Win) : (WinTree.set t i w).wins.size = t.wins.size := by
  simp [WinTree.set]

@[simp] theorem root_set (t : Tree) (i : WinTree.Id) (w : Win) : (WinTree.set t i w).root = t.root := rfl

/-- A window without its reference count. -/
def noRc (w : Win) : Win := { w with refcount := 0 }

/-- `t'` is `t` with some reference counts raised: same root record, same windows in everything else. -/
structure Le (t t' : Tree) : Prop where
  root : t'.root = t.root
  size : t'.wins.size = t.wins.size
  win : ∀ (i : WinTree.Id) (w : Win), t.wins[i]? = some w → ∃ w', t'.wins[i]? = some w' ∧ noRc w' = noRc w ∧ w.refcount ≤ w'.refcount

theorem Le.refl (t : Tree) : Le t t := ⟨rfl, rfl, fun _ w h => ⟨w, h, rfl, Int.le_refl _⟩⟩

theorem Le.trans {a b c : Tree} (h1 : Le a b) (h2 : Le b c) : Le a c := by
  refine ⟨by rw [h2.root, h1.root], by rw [h2.size, h1.size], ?_⟩
  intro i w hw
  obtain ⟨w1, hw1, e1, l1⟩ := h1.win i w hw
  obtain ⟨w2, hw2, e2, l2⟩ := h2.win i w1 hw1
  exact ⟨w2, hw2, e2.trans e1, Int.le_trans l1 l2⟩

/-- The other direction: a window of `t'` comes from one of `t`. -/
theorem Le.win' {t t' : Tree} (h : Le t t') (i : WinTree.Id) (w' : Win) (hw : t'.wins[i]? = some w') :
    ∃ w, t.wins[i]? = some w ∧ noRc w' = noRc w ∧ w.refcount ≤ w'.refcount := by
  have hi : i < t'.wins.size := (Array.getElem?_eq_some_iff.1 hw).1
  have hi' : i < t.wins.size := h.size ▸ hi
  have : t.wins[i]? = some t.wins[i] := Array.getElem?_eq_getElem hi'
  obtain ⟨w'', hw'', e, l⟩ := h.win i _ this
  rw [hw] at hw''
  cases hw''
  exact ⟨_, this, e, l⟩

theorem noRc_fields {w w' : Win} (h : noRc w' = noRc w) :
    w'.parent = w.parent ∧ w'.children = w.children ∧ w'.focusedChild = w.focusedChild ∧ w'.rect = w.rect ∧
    w'.isRoot = w.isRoot ∧ w'.isVisible = w.isVisible ∧ w'.isClosed = w.isClosed ∧ w'.stealInput = w.stealInput ∧
    w'.freed = w.freed := by
  cases w; cases w'
  simp only [noRc, Win.mk.injEq] at h
  simp_all

theorem Le.get {t t' : Tree} (h : Le t t') {i : WinTree.Id} {w : Win} (hg : WinTree.get t i = Res.ok w) :
    ∃ w', WinTree.get t' i = Res.ok w' ∧ noRc w' = noRc w ∧ w.refcount ≤ w'.refcount := by
  obtain ⟨hw, hf⟩ := get_eq_ok.1 hg
  obtain ⟨w', hw', e, l⟩ := h.win i w hw
  refine ⟨w', get_eq_ok.2 ⟨hw', ?_⟩, e, l⟩
  rw [(noRc_fields e).2.2.2.2.2.2.2.2]; exact hf

theorem Le.get' {t t' : Tree} (h : Le t t') {i : WinTree.Id} {w' : Win} (hg : WinTree.get t' i = Res.ok w') :
    ∃ w, WinTree.get t i = Res.ok w ∧ noRc w' = noRc w ∧ w.refcount ≤ w'.refcount := by
  obtain ⟨hw, hf⟩ := get_eq_ok.1 hg
  obtain ⟨w, hw0, e, l⟩ := h.win' i w' hw
  refine ⟨w, get_eq_ok.2 ⟨hw0, ?_⟩, e, l⟩
  rw [← (noRc_fields e).2.2.2.2.2.2.2.2]; exact hf

/-- Raising the reference count of one live window. -/
theorem le_set_rc {t : Tree} {i : WinTree.Id} {w : Win} (hw : t.wins[i]? = some w) {k : Int} (hk : w.refcount ≤ k) :
    Le t (WinTree.set t i { w with refcount := k }) := by
  refine ⟨rfl, by simp, ?_⟩
  intro j x hx
  by_cases hij : i = j
  · subst hij
    rw [hw] at hx; cases hx
    exact ⟨_, wins_set_self hw, rfl, hk⟩
  · exact ⟨x, by rw [wins_set_ne hij]; exact hx, rfl, Int.le_refl _⟩

/-- `ref` … `unref` around a computation that only raised counts. -/
theorem le_cancel {t0 t3 : Tree} {i : WinTree.Id} {w0 w3 : Win} (hw0 : t0.wins[i]? = some w0)
    (h : Le (WinTree.set t0 i { w0 with refcount := w0.refcount + 1 }) t3) (hw3 : t3.wins[i]? = some w3) :
    Le t0 (WinTree.set t3 i { w3 with refcount := w3.refcount - 1 }) := by
  refine ⟨by simpa using h.root, by simpa using h.size, ?_⟩
  intro j x hx
  by_cases hij : i = j
  · subst hij
    rw [hw0] at hx; cases hx
    obtain ⟨w', hw', e, l⟩ := h.win i _ (wins_set_self hw0)
    rw [hw3] at hw'; cases hw'
    refine ⟨_, wins_set_self hw3, ?_, ?_⟩
    · have := e; simp only [noRc] at this ⊢; exact this
    · simp only at l ⊢; omega
  · obtain ⟨w', hw', e, l⟩ := h.win j x (by rw [wins_set_ne hij]; exact hx)
    exact ⟨w', by rw [wins_set_ne hij]; exact hw', e, l⟩

/-! ### `ref` and `unref` -/

theorem unref_nd (onD : Tree → WinTree.Id → Res Tree) (n : Nat) (t : Tree) (i : WinTree.Id) (w : Win)
    (hg : WinTree.get t i = Res.ok w) (h2 : 2 ≤ w.refcount) :
    WinTree.unref onD (n + 1) t i = Res.ok (WinTree.set t i { w with refcount := w.refcount - 1 }) := by
  rw [WinTree.unref]
  simp only [hg, res_bind_ok]
  have h1 : ¬ (w.refcount < 1) := by omega
  have h0 : ¬ (w.refcount - 1 = 0) := by omega
  simp [h1, h0]

theorem refWin_eq_ok {st st1 : St} {i : WinTree.Id} (h : refWin st i = Res.ok st1) :
    ∃ w, WinTree.get st.tree i = Res.ok w ∧
      st1 = { st with tree := WinTree.set st.tree i { w with refcount := w.refcount + 1 } } := by
  unfold refWin WinTree.ref WinTree.modify at h
  cases hg : WinTree.get st.tree i with
  | ub m => simp [hg] at h
  | ok w =>
    simp [hg] at h
    exact ⟨w, rfl, h.symm⟩

/-- Dropping a reference that is not the last one. -/
theorem unrefLogged_nd {st : St} {i : WinTree.Id} {w : Win} (hg : WinTree.get st.tree i = Res.ok w)
    (h2 : 2 ≤ w.refcount) :
    unrefLogged st i = Res.ok { st with tree := WinTree.set st.tree i { w with refcount := w.refcount - 1 } } := by
  unfold unrefLogged
  have hf : destroyFuel st.tree = (3 * st.tree.wins.size + 5) + 1 := rfl
  rw [hf]
  simp only [hg, res_bind_ok, unref_nd _ _ _ _ _ hg h2]
  have h1 : ¬ (w.refcount = 1) := by omega
  simp [h1]

/-! ### handlers that do not mutate the tree -/

theorem getD_mem_or {α : Type} (l : List α) (i : Nat) (d : α) : l.getD i d ∈ l ∨ l.getD i d = d := by
  rw [List.getD_eq_getElem?_getD]
  cases h : l[i]? with
  | none => right; rfl
  | some x => left; simpa using List.mem_of_getElem? h

theorem Static.entry {binds : Array Binding} (hs : Static binds) {i : Nat} {b : Binding} (h : binds[i]? = some b) :
    b.entry.actions = [] := by
  unfold Binding.entry
  rcases getD_mem_or b.entries (entryIndex b) { ret := false } with hm | hd
  · exact hs i b h _ hm
  · rw [hd]

theorem Static.bump {binds : Array Binding} (hs : Static binds) {i : Nat} {b : Binding} (h : binds[i]? = some b) (k : Nat) :
    Static (binds.setIfInBounds i { b with count := k }) := by
  intro j x hx e he
  rw [Array.getElem?_setIfInBounds] at hx
  by_cases hij : i = j
  · subst hij
    simp only [if_true] at hx
    split at hx
    · cases hx; exact hs i b h e he
    · cases hx
  · simp only [hij, if_false] at hx
    exact hs j x hx e he

/-- Replacing a binding by one with the same behaviour table keeps `Static`. -/
theorem Static.replace {binds : Array Binding} (hs : Static binds) {i : Nat} {b : Binding} (h : binds[i]? = some b)
    (b' : Binding) (he : b'.entries = b.entries) : Static (binds.setIfInBounds i b') := by
  intro j x hx e hm
  rw [Array.getElem?_setIfInBounds] at hx
  by_cases hij : i = j
  · subst hij
    simp only [if_true] at hx
    split at hx
    · cases hx; rw [he] at hm; exact hs i b h e hm
    · cases hx
  · simp only [hij, if_false] at hx
    exact hs j x hx e hm

theorem Static.fired {binds : Array Binding} (hs : Static binds) {i : Nat} {b : Binding} (h : binds[i]? = some b) :
    Static (binds.setIfInBounds i b.fired) := hs.replace h _ rfl

@[simp] theorem offers_say_offer (st : St) (k : Kind) (w : WinTree.Id) (e : Ev) (b : Bool) :
    offers (st.say (.offer k w e b)).log = offers st.log ++ [(k, w, e)] := rfl

@[simp] theorem offers_say_call (st : St) (k : Kind) (w : WinTree.Id) (i j : Nat) (r : Bool) (e : Ev) :
    offers (st.say (.call k w i j r e)).log = offers st.log := rfl

theorem runBindings_static (kind : Kind) (win : WinTree.Id) (ev : Ev) :
    ∀ (idxs : List Nat) (st : St), Static st.binds →
      ∃ st' c, runBindings st kind win ev idxs = Res.ok (st', c) ∧ st'.tree = st.tree ∧ st'.owned = st.owned ∧
        Static st'.binds ∧ offers st'.log = offers st.log ∧ (st'.binds, c) = offerBindings st.binds idxs := by
  intro idxs
  induction idxs with
  | nil => intro st hs; exact ⟨st, false, rfl, rfl, rfl, hs, rfl, rfl⟩
  | cons bi rest ih =>
    intro st hs
    unfold runBindings offerBindings
    cases hb : st.binds[bi]? with
    | none => simpa [hb] using ih st hs
    | some b =>
      simp only [hb]
      by_cases hg : b.gone = true
      · simp only [hg, if_true]; exact ih st hs
      simp only [hg, Bool.false_eq_true, if_false]
      have ha := hs.entry hb
      simp only [ha, doActions, res_pure, res_bind_ok]
      by_cases hr : b.entry.ret = true
      · simp only [hr, if_true]
        exact ⟨_, true, rfl, rfl, rfl, hs.fired hb, rfl, rfl⟩
      · simp only [hr, if_false]
        obtain ⟨st', c, h1, h2, h3, h4, h5, h6⟩ := ih
          (({ st with binds := st.binds.setIfInBounds bi b.fired } : St).say
            (.call kind win b.idx (entryIndex b) b.entry.ret ev)) (hs.fired hb)
        exact ⟨st', c, by simpa [hr] using h1, h2, h3, h4, h5, h6⟩

theorem runHandlers_static (kind : Kind) (win : WinTree.Id) (ev : Ev) (st : St) (hs : Static st.binds) :
    ∃ st' c, runHandlers st kind win ev = Res.ok (st', c) ∧ st'.tree = st.tree ∧ st'.owned = st.owned ∧
      Static st'.binds ∧ offers st'.log = offers st.log ++ [(kind, win, ev)] ∧ (st'.binds, c) = offerOne st.binds kind win := by
  unfold runHandlers offerOne
  obtain ⟨st', c, h1, h2, h3, h4, h5, h6⟩ :=
    runBindings_static kind win ev (bindingsOf st.binds kind win) (st.say (.offer kind win ev _)) hs
  exact ⟨st', c, h1, h2, h3, h4, by simpa using h5, h6⟩

/-! ### what does not depend on reference counts -/

theorem Le.wins_none {t t' : Tree} (h : Le t t') {i : WinTree.Id} (hn : t.wins[i]? = none) : t'.wins[i]? = none := by
  rw [Array.getElem?_eq_none_iff] at hn ⊢
  rw [h.size]; exact hn

theorem Le.treeFuel {t t' : Tree} (h : Le t t') : treeFuel t' = treeFuel t := by
  unfold WinInput.treeFuel; rw [h.size]

theorem visibleChain_le {t t' : Tree} (h : Le t t') : ∀ (f : Nat) (i : WinTree.Id), visibleChain t' f i = visibleChain t f i := by
  intro f
  induction f with
  | zero => intro i; rfl
  | succ f ih =>
    intro i
    unfold visibleChain
    cases hw : t.wins[i]? with
    | none => simp [h.wins_none hw]
    | some w =>
      obtain ⟨w', hw', e, _⟩ := h.win i w hw
      obtain ⟨e1, _, _, _, _, e6, _, _, e9⟩ := noRc_fields e
      simp only [hw', e1, e6, e9]
      cases w.parent with
      | none => rfl
      | some p => simp only [ih p]

theorem stealAt_le {t t' : Tree} (h : Le t t') (i : WinTree.Id) : stealAt t' i = stealAt t i := by
  unfold stealAt
  cases hw : t.wins[i]? with
  | none => simp [h.wins_none hw]
  | some w =>
    obtain ⟨w', hw', e, _⟩ := h.win i w hw
    simp only [hw', (noRc_fields e).2.2.2.2.2.2.2.1]

theorem keyVisits_le {t t' : Tree} (h : Le t t') : ∀ (f : Nat) (i : WinTree.Id), keyVisits t' f i = keyVisits t f i := by
  intro f
  induction f with
  | zero => intro i; rfl
  | succ f ih =>
    intro i
    have hfun : keyVisits t' f = keyVisits t f := funext ih
    unfold keyVisits
    cases hw : t.wins[i]? with
    | none => simp [h.wins_none hw]
    | some w =>
      obtain ⟨w', hw', e, _⟩ := h.win i w hw
      obtain ⟨_, e2, e3, _, _, _, _, _, _⟩ := noRc_fields e
      have hst : stealVisits t' (keyVisits t f) w' = stealVisits t (keyVisits t f) w := by
        unfold stealVisits; rw [e2]
        cases w.children.head? with
        | none => rfl
        | some fc => simp only [stealAt_le h fc]
      have hfo : focusVisits (keyVisits t f) w' = focusVisits (keyVisits t f) w := by
        unfold focusVisits; rw [e3]
      have hre : restVisits (keyVisits t f) w' = restVisits (keyVisits t f) w := by
        unfold restVisits; rw [e2, e3]
      simp only [hw', hfun, hst, hfo, hre, visibleChain_le h, h.treeFuel]

theorem isShown_ok (t : Tree) : ∀ (f : Nat) (i : WinTree.Id) (b : Bool), isShown t f i = Res.ok b → visibleChain t f i = b := by
  intro f
  induction f with
  | zero => intro i b h; simp [isShown] at h
  | succ f ih =>
    intro i b h
    unfold isShown at h
    obtain ⟨w, hg, h⟩ := res_bind_eq_ok.1 h
    obtain ⟨hw, hf⟩ := get_eq_ok.1 hg
    unfold visibleChain
    simp only [hw, hf, Bool.false_or]
    by_cases hv : w.isVisible = true
    · simp only [hv, Bool.not_true, Bool.false_eq_true, if_false] at h ⊢
      cases hp : w.parent with
      | none => simp only [hp] at h; cases h; rfl
      | some p => simp only [hp] at h; exact ih p b h
    · have hv' : w.isVisible = false := by simpa using hv
      simp only [hv', Bool.not_false, if_true] at h ⊢
      cases h; rfl

theorem isShown_le {t t' : Tree} (h : Le t t') : ∀ (f : Nat) (i : WinTree.Id) (b : Bool),
    isShown t f i = Res.ok b → isShown t' f i = Res.ok b := by
  intro f
  induction f with
  | zero => intro i b hh; simp [isShown] at hh
  | succ f ih =>
    intro i b hh
    unfold isShown at hh ⊢
    obtain ⟨w, hg, hh⟩ := res_bind_eq_ok.1 hh
    obtain ⟨w', hg', e, _⟩ := h.get hg
    obtain ⟨e1, _, _, _, _, e6, _, _, _⟩ := noRc_fields e
    simp only [hg', res_bind_ok, e1, e6]
    by_cases hv : w.isVisible = true
    · simp only [hv, Bool.not_true, Bool.false_eq_true, if_false] at hh ⊢
      cases hp : w.parent with
      | none => simpa [hp] using hh
      | some p => simp only [hp] at hh ⊢; exact ih p b hh
    · have hv' : w.isVisible = false := by simpa using hv
      simpa [hv'] using hh

/-! ### well-formed stores -/

/-- What the static theorems need of a store: live windows are referenced, and a child knows its parent. -/
structure WF (t : Tree) : Prop where
  rc : ∀ (i : WinTree.Id) (w : Win), t.wins[i]? = some w → w.freed = false → 1 ≤ w.refcount
  parent : ∀ (i c : WinTree.Id) (w cw : Win), t.wins[i]? = some w → w.freed = false → c ∈ w.children →
    t.wins[c]? = some cw → cw.parent = some i

theorem WF.le {t t' : Tree} (hwf : WF t) (h : Le t t') : WF t' := by
  constructor
  · intro i w' hw' hf
    obtain ⟨w, hw, e, l⟩ := h.win' i w' hw'
    have := hwf.rc i w hw (by rw [← (noRc_fields e).2.2.2.2.2.2.2.2]; exact hf)
    omega
  · intro i c w' cw' hw' hf hc hcw'
    obtain ⟨w, hw, e, _⟩ := h.win' i w' hw'
    obtain ⟨cw, hcw, ec, _⟩ := h.win' c cw' hcw'
    rw [(noRc_fields ec).1]
    exact hwf.parent i c w cw hw (by rw [← (noRc_fields e).2.2.2.2.2.2.2.2]; exact hf)
      (by rw [← (noRc_fields e).2.1]; exact hc) hcw

/-! ### offering to a list of windows -/

theorem offerAll_append (k : Kind) : ∀ (xs ys : List (WinTree.Id × Ev)) (b : Array Binding),
    offerAll b k (xs ++ ys) =
      if (offerAll b k xs).2.2.isSome then offerAll b k xs
      else ((offerAll (offerAll b k xs).1 k ys).1,
            (offerAll b k xs).2.1 ++ (offerAll (offerAll b k xs).1 k ys).2.1,
            (offerAll (offerAll b k xs).1 k ys).2.2) := by
  intro xs
  induction xs with
  | nil => intro ys b; simp [offerAll]
  | cons x xs ih =>
    intro ys b
    obtain ⟨w, e⟩ := x
    simp only [List.cons_append, offerAll]
    by_cases hc : (offerOne b k w).2 = true
    · simp [hc]
    · simp only [hc, Bool.false_eq_true, if_false, ih ys (offerOne b k w).1]
      by_cases hs : (offerAll (offerOne b k w).1 k xs).2.2.isSome = true
      · simp [hs]
      · simp [hs]

/-- What every phase of a dispatch with non-mutating handlers preserves. -/
structure Frame (st st' : St) : Prop where
  le : Le st.tree st'.tree
  owned : st'.owned = st.owned
  static : Static st'.binds

theorem Frame.refl {st : St} (hs : Static st.binds) : Frame st st := ⟨Le.refl _, rfl, hs⟩

theorem Frame.trans {a b c : St} (h1 : Frame a b) (h2 : Frame b c) : Frame a c :=
  ⟨h1.le.trans h2.le, by rw [h2.owned, h1.owned], h2.static⟩

/-- The key `ev` was offered to the windows `ws`, in order, up to the first claim: `st'` has the invocation
    counters and the log that this gives, and `d` says whether one of them claimed. -/
structure SegK (st : St) (ev : Ev) (ws : List WinTree.Id) (st' : St) (d : Bool) : Prop where
  binds : st'.binds = (offerAll st.binds .key (ws.map (·, ev))).1
  log : offers st'.log = offers st.log ++ ((offerAll st.binds .key (ws.map (·, ev))).2.1).map (fun p => (Kind.key, p.1, p.2))
  ret : d = (offerAll st.binds .key (ws.map (·, ev))).2.2.isSome

theorem SegK.nil (st : St) (ev : Ev) : SegK st ev [] st false := ⟨rfl, by simp [offerAll], rfl⟩

theorem SegK.claimed {st st1 : St} {ev : Ev} {xs : List WinTree.Id} (h : SegK st ev xs st1 true) (ys : List WinTree.Id) :
    SegK st ev (xs ++ ys) st1 true := by
  have hs : (offerAll st.binds .key (xs.map (·, ev))).2.2.isSome = true := h.ret.symm
  have key : offerAll st.binds .key ((xs ++ ys).map (·, ev)) = offerAll st.binds .key (xs.map (·, ev)) := by
    rw [List.map_append, offerAll_append, if_pos hs]
  exact ⟨by rw [key]; exact h.binds, by rw [key]; exact h.log, by rw [key]; exact h.ret⟩

theorem SegK.append {st st1 st2 : St} {ev : Ev} {xs ys : List WinTree.Id} {d2 : Bool}
    (h1 : SegK st ev xs st1 false) (h2 : SegK st1 ev ys st2 d2) : SegK st ev (xs ++ ys) st2 d2 := by
  have hs : ¬ ((offerAll st.binds .key (xs.map (·, ev))).2.2.isSome = true) := by
    rw [← h1.ret]; simp
  have key : offerAll st.binds .key ((xs ++ ys).map (·, ev)) =
      ((offerAll (offerAll st.binds .key (xs.map (·, ev))).1 .key (ys.map (·, ev))).1,
       (offerAll st.binds .key (xs.map (·, ev))).2.1 ++ (offerAll (offerAll st.binds .key (xs.map (·, ev))).1 .key (ys.map (·, ev))).2.1,
       (offerAll (offerAll st.binds .key (xs.map (·, ev))).1 .key (ys.map (·, ev))).2.2) := by
    rw [List.map_append, offerAll_append, if_neg hs]
  refine ⟨?_, ?_, ?_⟩
  · rw [key, h2.binds, h1.binds]
  · rw [key, h2.log, h1.log, h1.binds]; simp only [List.map_append, List.append_assoc]
  · rw [key, h2.ret, h1.binds]

theorem firstClaim_ok {a : Out (St × Bool)} {k : St → Out (St × Bool)} {st2 : St} {d2 : Bool}
    (h : firstClaim a k = Out.ok (st2, d2)) :
    ∃ st1 d1, a = Out.ok (st1, d1) ∧ ((d1 = true ∧ st2 = st1 ∧ d2 = true) ∨ (d1 = false ∧ k st1 = Out.ok (st2, d2))) := by
  unfold firstClaim at h
  obtain ⟨⟨st1, d1⟩, ha, h⟩ := out_bind_eq_ok.1 h
  refine ⟨st1, d1, ha, ?_⟩
  cases d1 with
  | true => simp at h; exact Or.inl ⟨rfl, h.1.symm, h.2⟩
  | false => simp at h; exact Or.inr ⟨rfl, h⟩

/-- Composition of two phases joined by `firstClaim`. -/
theorem firstClaim_seg {a : Out (St × Bool)} {k : St → Out (St × Bool)} {st st2 : St} {d2 : Bool} {ev : Ev}
    {xs ys : List WinTree.Id}
    (h : firstClaim a k = Out.ok (st2, d2))
    (ha : ∀ st1 d1, a = Out.ok (st1, d1) → Frame st st1 ∧ SegK st ev xs st1 d1)
    (hk : ∀ st1, Frame st st1 → k st1 = Out.ok (st2, d2) → Frame st1 st2 ∧ SegK st1 ev ys st2 d2) :
    Frame st st2 ∧ SegK st ev (xs ++ ys) st2 d2 := by
  obtain ⟨st1, d1, e, hc⟩ := firstClaim_ok h
  obtain ⟨f1, s1⟩ := ha st1 d1 e
  rcases hc with ⟨hd, hst, hd2⟩ | ⟨hd, hk2⟩
  · subst hd; subst hst; subst hd2
    exact ⟨f1, s1.claimed ys⟩
  · subst hd
    obtain ⟨f2, s2⟩ := hk st1 f1 hk2
    exact ⟨f1.trans f2, s1.append s2⟩

/-- The callee of the recursive calls does what the reference order says (for non-mutating handlers). -/
def KeyRecOK (rec : KeyRec) : Prop :=
  ∀ (st : St) (c : WinTree.Id) (ev : Ev) (st' : St) (d : Bool), Static st.binds → WF st.tree →
    rec st c ev = Out.ok (st', d) →
    Frame st st' ∧ ∀ (F : Nat) (ws : List WinTree.Id), keyVisits st.tree F c = some ws → SegK st ev ws st' d

/-! ### the snapshot references -/

/-- `t'` is `t` with reference counts raised, by at least one per occurrence in `cs`. -/
structure LeBy (t : Tree) (cs : List WinTree.Id) (t' : Tree) : Prop where
  root : t'.root = t.root
  size : t'.wins.size = t.wins.size
  win : ∀ (i : WinTree.Id) (w : Win), t.wins[i]? = some w →
    ∃ w', t'.wins[i]? = some w' ∧ noRc w' = noRc w ∧ w.refcount + (cs.count i : Int) ≤ w'.refcount

theorem LeBy.nil {t t' : Tree} (h : LeBy t [] t') : Le t t' :=
  ⟨h.root, h.size, fun i w hw => by
    obtain ⟨w', hw', e, l⟩ := h.win i w hw
    exact ⟨w', hw', e, by simpa using l⟩⟩

theorem Le.by_nil {t t' : Tree} (h : Le t t') : LeBy t [] t' :=
  ⟨h.root, h.size, fun i w hw => by
    obtain ⟨w', hw', e, l⟩ := h.win i w hw
    exact ⟨w', hw', e, by simpa using l⟩⟩

theorem LeBy.trans {t t1 t2 : Tree} {cs : List WinTree.Id} (h1 : LeBy t cs t1) (h2 : Le t1 t2) : LeBy t cs t2 := by
  refine ⟨by rw [h2.root, h1.root], by rw [h2.size, h1.size], ?_⟩
  intro i w hw
  obtain ⟨w1, hw1, e1, l1⟩ := h1.win i w hw
  obtain ⟨w2, hw2, e2, l2⟩ := h2.win i w1 hw1
  exact ⟨w2, hw2, e2.trans e1, Int.le_trans l1 l2⟩

theorem refAll_ok : ∀ (cs : List WinTree.Id) (st st1 : St), refAll st cs = Res.ok st1 →
    st1.binds = st.binds ∧ st1.owned = st.owned ∧ st1.log = st.log ∧ LeBy st.tree cs st1.tree ∧
    (∀ c ∈ cs, ∃ w, st.tree.wins[c]? = some w ∧ w.freed = false) := by
  intro cs
  induction cs with
  | nil =>
    intro st st1 h
    simp only [refAll, res_pure, Res.ok.injEq] at h
    subst h
    exact ⟨rfl, rfl, rfl, (Le.refl _).by_nil, by simp⟩
  | cons c rest ih =>
    intro st st1 h
    simp only [refAll] at h
    obtain ⟨st', h1, h2⟩ := res_bind_eq_ok.1 h
    obtain ⟨w, hg, e⟩ := refWin_eq_ok h1
    obtain ⟨hw, hf⟩ := get_eq_ok.1 hg
    obtain ⟨b, o, l, hle, hal⟩ := ih st' st1 h2
    subst e
    refine ⟨b, o, l, ?_, ?_⟩
    · refine ⟨by simpa using hle.root, by simpa using hle.size, ?_⟩
      intro i x hx
      by_cases hic : c = i
      · subst hic
        rw [hw] at hx; cases hx
        obtain ⟨w1, hw1, e1, l1⟩ := hle.win c _ (wins_set_self hw)
        refine ⟨w1, hw1, e1, ?_⟩
        simp only [List.count_cons_self] at l1 ⊢
        omega
      · obtain ⟨w1, hw1, e1, l1⟩ := hle.win i x (by simp only [wins_set_ne hic]; exact hx)
        refine ⟨w1, hw1, e1, ?_⟩
        rw [List.count_cons_of_ne hic]; exact l1
    · intro c' hc'
      rcases List.mem_cons.1 hc' with rfl | hr
      · exact ⟨w, hw, hf⟩
      · obtain ⟨x, hx, hxf⟩ := hal c' hr
        by_cases hic : c = c'
        · subst hic; exact ⟨w, hw, hf⟩
        · exact ⟨x, by simpa only [wins_set_ne hic] using hx, hxf⟩

theorem unrefAll_cancel : ∀ (cs : List WinTree.Id) (t : Tree) (st5 : St),
    (∀ (i : WinTree.Id) (w : Win), t.wins[i]? = some w → w.freed = false → 1 ≤ w.refcount) →
    (∀ c ∈ cs, ∃ w, t.wins[c]? = some w ∧ w.freed = false) → LeBy t cs st5.tree →
    ∃ st6, unrefAll st5 cs = Res.ok st6 ∧ st6.binds = st5.binds ∧ st6.owned = st5.owned ∧ st6.log = st5.log ∧
      Le t st6.tree := by
  intro cs
  induction cs with
  | nil =>
    intro t st5 _ _ hle
    exact ⟨st5, rfl, rfl, rfl, rfl, hle.nil⟩
  | cons c rest ih =>
    intro t st5 hrc hal hle
    obtain ⟨w, hw, hf⟩ := hal c (List.mem_cons_self ..)
    obtain ⟨w5, hw5, e5, l5⟩ := hle.win c w hw
    have h1 := hrc c w hw hf
    have hg5 : WinTree.get st5.tree c = Res.ok w5 :=
      get_eq_ok.2 ⟨hw5, by rw [(noRc_fields e5).2.2.2.2.2.2.2.2]; exact hf⟩
    have h2 : 2 ≤ w5.refcount := by
      simp only [List.count_cons_self] at l5
      omega
    have hu := unrefLogged_nd hg5 h2
    have hle' : LeBy t rest (WinTree.set st5.tree c { w5 with refcount := w5.refcount - 1 }) := by
      refine ⟨by simpa using hle.root, by simpa using hle.size, ?_⟩
      intro i x hx
      by_cases hic : c = i
      · subst hic
        rw [hw] at hx; cases hx
        refine ⟨_, wins_set_self hw5, ?_, ?_⟩
        · simpa only [noRc] using e5
        · simp only [List.count_cons_self] at l5
          simp only
          omega
      · obtain ⟨w1, hw1, e1, l1⟩ := hle.win i x hx
        refine ⟨w1, by simp only [wins_set_ne hic]; exact hw1, e1, ?_⟩
        rw [List.count_cons_of_ne hic] at l1; exact l1
    obtain ⟨st6, h6, b, o, l, hl⟩ := ih t { st5 with tree := WinTree.set st5.tree c { w5 with refcount := w5.refcount - 1 } }
      hrc (fun c' hc' => hal c' (List.mem_cons_of_mem _ hc')) hle'
    exact ⟨st6, by simp only [unrefAll, hu, res_bind_ok]; exact h6, b, o, l, hl⟩

/-! ### the phases of `_handle_key` with non-mutating handlers -/

theorem visitList_cons_some {α : Type} {g : WinTree.Id → Option (List α)} {c : WinTree.Id} {cs : List WinTree.Id} {ws : List α}
    (h : visitList g (c :: cs) = some ws) : ∃ a b, g c = some a ∧ visitList g cs = some b ∧ ws = a ++ b := by
  simp only [visitList] at h
  cases ha : g c with
  | none => simp [ha] at h
  | some a =>
    cases hb : visitList g cs with
    | none => simp [ha, hb] at h
    | some b =>
      simp [ha, hb] at h
      exact ⟨a, b, rfl, rfl, h.symm⟩

theorem stealAt_of_get {t : Tree} {i : WinTree.Id} {w : Win} (h : WinTree.get t i = Res.ok w) : stealAt t i = w.stealInput := by
  unfold stealAt; rw [(get_eq_ok.1 h).1]

theorem keySteal_static {rec : KeyRec} (hrec : KeyRecOK rec) {st st' : St} {win : WinTree.Id} {ev : Ev} {d : Bool} {w : Win}
    (hs : Static st.binds) (hwf : WF st.tree) (hw : WinTree.get st.tree win = Res.ok w)
    (h : keySteal rec st win ev = Out.ok (st', d)) :
    Frame st st' ∧ ∀ (F : Nat) (ws : List WinTree.Id),
      stealVisits st.tree (keyVisits st.tree F) w = some ws → SegK st ev ws st' d := by
  unfold keySteal at h
  simp only [hw, lift_ok, out_bind_ok] at h
  unfold stealVisits
  cases hc : w.children.head? with
  | none =>
    simp only [hc, out_pure, Out.ok.injEq, Prod.mk.injEq] at h
    obtain ⟨rfl, rfl⟩ := h
    refine ⟨Frame.refl hs, ?_⟩
    intro F ws hv
    simp only [Option.some.injEq] at hv
    subst hv; exact SegK.nil _ _
  | some fc =>
    simp only [hc] at h
    obtain ⟨fw, hfw, h⟩ := lift_bind_eq_ok.1 h
    simp only [stealAt_of_get hfw]
    by_cases hst : fw.stealInput = true
    · simp only [hst, if_true] at h ⊢
      exact hrec st fc ev st' d hs hwf h
    · simp only [hst, Bool.false_eq_true, if_false, out_pure, Out.ok.injEq, Prod.mk.injEq] at h ⊢
      obtain ⟨rfl, rfl⟩ := h
      refine ⟨Frame.refl hs, ?_⟩
      intro F ws hv
      simp only [Option.some.injEq] at hv
      subst hv; exact SegK.nil _ _

theorem keyFocus_static {rec : KeyRec} (hrec : KeyRecOK rec) {st st' : St} {win : WinTree.Id} {ev : Ev} {d : Bool} {w : Win}
    (hs : Static st.binds) (hwf : WF st.tree) (hw : WinTree.get st.tree win = Res.ok w)
    (h : keyFocus rec st win ev = Out.ok (st', d)) :
    Frame st st' ∧ ∀ (F : Nat) (ws : List WinTree.Id),
      focusVisits (keyVisits st.tree F) w = some ws → SegK st ev ws st' d := by
  unfold keyFocus at h
  simp only [hw, lift_ok, out_bind_ok] at h
  unfold focusVisits
  cases hc : w.focusedChild with
  | none =>
    simp only [hc, out_pure, Out.ok.injEq, Prod.mk.injEq] at h
    obtain ⟨rfl, rfl⟩ := h
    refine ⟨Frame.refl hs, ?_⟩
    intro F ws hv
    simp only [Option.some.injEq] at hv
    subst hv; exact SegK.nil _ _
  | some fc =>
    simp only [hc] at h
    exact hrec st fc ev st' d hs hwf h

theorem offerAll_single (b : Array Binding) (k : Kind) (w : WinTree.Id) (e : Ev) :
    offerAll b k [(w, e)] = ((offerOne b k w).1, [(w, e)], if (offerOne b k w).2 then some w else none) := by
  simp only [offerAll]
  by_cases hc : (offerOne b k w).2 = true <;> simp [hc]

theorem keyOwn_static {st st' : St} {win : WinTree.Id} {ev : Ev} {d : Bool} (hs : Static st.binds)
    (hvis : isShown st.tree (treeFuel st.tree) win = Res.ok true)
    (h : keyOwn Cfg.repaired st win ev = Out.ok (st', d)) : Frame st st' ∧ SegK st ev [win] st' d := by
  unfold keyOwn ownVisible at h
  simp only [Cfg.repaired, if_true, hvis, lift_ok, out_bind_ok] at h
  obtain ⟨st'', c, h1, h2, h3, h4, h5, h6⟩ := runHandlers_static .key win ev st hs
  rw [h1] at h
  simp only [lift_ok, Out.ok.injEq, Prod.mk.injEq] at h
  obtain ⟨rfl, rfl⟩ := h
  refine ⟨⟨by rw [h2]; exact Le.refl _, h3, h4⟩, ?_⟩
  have hb : st''.binds = (offerOne st.binds .key win).1 := by rw [← h6]
  have hc : c = (offerOne st.binds .key win).2 := by rw [← h6]
  refine ⟨?_, ?_, ?_⟩
  · simp only [List.map_cons, List.map_nil, offerAll_single]; exact hb
  · simp only [List.map_cons, List.map_nil, offerAll_single]; exact h5
  · simp only [List.map_cons, List.map_nil, offerAll_single]
    rw [hc]; cases (offerOne st.binds .key win).2 <;> rfl

theorem keySnap_static {rec : KeyRec} (hrec : KeyRecOK rec) (win : WinTree.Id) (ev : Ev) :
    ∀ (cs : List WinTree.Id) (st st' : St) (d : Bool) (w : Win), Static st.binds → WF st.tree →
      WinTree.get st.tree win = Res.ok w → (∀ c ∈ cs, c ∈ w.children) →
      keySnap rec st win cs ev = Out.ok (st', d) →
      Frame st st' ∧ ∀ (F : Nat) (ws : List WinTree.Id),
        visitList (fun c => if w.focusedChild = some c then some [] else keyVisits st.tree F c) cs = some ws →
        SegK st ev ws st' d := by
  intro cs
  induction cs with
  | nil =>
    intro st st' d w hs _ _ _ h
    simp only [keySnap, out_pure, Out.ok.injEq, Prod.mk.injEq] at h
    obtain ⟨rfl, rfl⟩ := h
    refine ⟨Frame.refl hs, ?_⟩
    intro F ws hv
    simp only [visitList, Option.some.injEq] at hv
    subst hv; exact SegK.nil _ _
  | cons c rest ih =>
    intro st st' d w hs hwf hw hsub h
    simp only [keySnap] at h
    obtain ⟨cw, hcw, h⟩ := lift_bind_eq_ok.1 h
    obtain ⟨hww, hwf'⟩ := get_eq_ok.1 hw
    have hpar : cw.parent = some win :=
      hwf.parent win c w cw hww hwf' (hsub c (List.mem_cons_self ..)) (get_eq_ok.1 hcw).1
    simp only [hpar, ne_eq, not_true_eq_false, if_false, hw, lift_ok, out_bind_ok] at h
    have hsub' : ∀ c' ∈ rest, c' ∈ w.children := fun c' hc' => hsub c' (List.mem_cons_of_mem _ hc')
    by_cases hfc : w.focusedChild = some c
    · simp only [hfc, if_true] at h
      obtain ⟨fr, sp⟩ := ih st st' d w hs hwf hw hsub' h
      refine ⟨fr, ?_⟩
      intro F ws hv
      obtain ⟨a, b, ha, hb, rfl⟩ := visitList_cons_some hv
      simp only [hfc, if_true, Option.some.injEq] at ha
      subst ha
      simpa using sp F b hb
    · simp only [hfc, if_false] at h
      obtain ⟨⟨st1, d1⟩, hr, h⟩ := out_bind_eq_ok.1 h
      obtain ⟨fr1, sp1⟩ := hrec st c ev st1 d1 hs hwf hr
      cases d1 with
      | true =>
        simp only [if_true, out_pure, Out.ok.injEq, Prod.mk.injEq] at h
        obtain ⟨rfl, rfl⟩ := h
        refine ⟨fr1, ?_⟩
        intro F ws hv
        obtain ⟨a, b, ha, _, rfl⟩ := visitList_cons_some hv
        simp only [hfc, if_false] at ha
        exact (sp1 F a ha).claimed b
      | false =>
        simp only [Bool.false_eq_true, if_false] at h
        obtain ⟨w1, hw1, e1, _⟩ := fr1.le.get hw
        obtain ⟨_, e2, e3, _⟩ := noRc_fields e1
        obtain ⟨fr2, sp2⟩ := ih st1 st' d w1 fr1.static (hwf.le fr1.le) hw1 (by rw [e2]; exact hsub') h
        refine ⟨fr1.trans fr2, ?_⟩
        intro F ws hv
        obtain ⟨a, b, ha, hb, rfl⟩ := visitList_cons_some hv
        simp only [hfc, if_false] at ha
        refine (sp1 F a ha).append (sp2 F b ?_)
        rw [e3]
        have : keyVisits st1.tree F = keyVisits st.tree F := funext (keyVisits_le fr1.le F)
        rw [this]; exact hb

theorem keyChildren_static {rec : KeyRec} (hrec : KeyRecOK rec) {fuel : Nat} {st st' : St} {win : WinTree.Id} {ev : Ev}
    {d : Bool} {w : Win} (hs : Static st.binds) (hwf : WF st.tree) (hw : WinTree.get st.tree win = Res.ok w)
    (h : keyChildren Cfg.repaired rec fuel st win ev = Out.ok (st', d)) :
    Frame st st' ∧ ∀ (F : Nat) (ws : List WinTree.Id),
      restVisits (keyVisits st.tree F) w = some ws → SegK st ev ws st' d := by
  unfold keyChildren at h
  simp only [hw, lift_ok, out_bind_ok, Cfg.repaired, if_true] at h
  obtain ⟨st4, h4, h⟩ := lift_bind_eq_ok.1 h
  obtain ⟨⟨st5, d5⟩, h5, h⟩ := out_bind_eq_ok.1 h
  obtain ⟨st6, h6, h⟩ := lift_bind_eq_ok.1 h
  simp only [out_pure, Out.ok.injEq, Prod.mk.injEq] at h
  obtain ⟨rfl, rfl⟩ := h
  obtain ⟨b4, o4, l4, le4, al4⟩ := refAll_ok _ _ _ h4
  have hle4 : Le st.tree st4.tree := by
    refine ⟨le4.root, le4.size, fun i x hx => ?_⟩
    obtain ⟨x', hx', e, l⟩ := le4.win i x hx
    exact ⟨x', hx', e, by omega⟩
  obtain ⟨w4, hw4, e4, _⟩ := hle4.get hw
  obtain ⟨_, e42, e43, _⟩ := noRc_fields e4
  have hs4 : Static st4.binds := by rw [b4]; exact hs
  obtain ⟨fr5, sp5⟩ := keySnap_static hrec win ev w.children st4 st5 d5 w4 hs4 (hwf.le hle4) hw4
    (by intro c hc; rw [e42]; exact hc) h5
  obtain ⟨st6', h6', b6, o6, l6, le6⟩ := unrefAll_cancel w.children st.tree st5 hwf.rc al4 (le4.trans fr5.le)
  rw [h6'] at h6
  cases h6
  refine ⟨⟨le6, by rw [o6, fr5.owned, o4], by rw [b6]; exact fr5.static⟩, ?_⟩
  intro F ws hv
  unfold restVisits at hv
  have hv4 : visitList (fun c => if w4.focusedChild = some c then some [] else keyVisits st4.tree F c) w.children = some ws := by
    rw [e43]
    have : keyVisits st4.tree F = keyVisits st.tree F := funext (keyVisits_le hle4 F)
    rw [this]; exact hv
  have sg := sp5 F ws hv4
  exact ⟨by rw [b6, sg.binds, b4], by rw [l6, sg.log, l4, b4], by rw [sg.ret, b4]⟩

theorem keyDone_ok {st st' : St} {win : WinTree.Id} {d d' : Bool} (h : keyDone st win d = Out.ok (st', d')) :
    unrefLogged st win = Res.ok st' ∧ d' = d := by
  unfold keyDone at h
  obtain ⟨st1, h1, h⟩ := lift_bind_eq_ok.1 h
  simp only [out_pure, Out.ok.injEq, Prod.mk.injEq] at h
  obtain ⟨rfl, rfl⟩ := h
  exact ⟨h1, rfl⟩

/-- One level of `_handle_key` (repaired code, non-mutating handlers) does what the reference order says, if the
    callee of its recursive calls does. -/
theorem handleKeyBody_static {rec : KeyRec} (hrec : KeyRecOK rec) (fuel : Nat) :
    KeyRecOK (handleKeyBody Cfg.repaired rec fuel) := by
  intro st win ev st' d hs hwf h
  unfold handleKeyBody at h
  obtain ⟨vis, hvis, h⟩ := lift_bind_eq_ok.1 h
  have hvis' : isShown st.tree (treeFuel st.tree) win = Res.ok vis := by
    simpa [entryVisible, Cfg.repaired] using hvis
  have hvc := isShown_ok _ _ _ _ hvis'
  cases vis with
  | false =>
    simp only [Bool.not_false, if_true, out_pure, Out.ok.injEq, Prod.mk.injEq] at h
    obtain ⟨rfl, rfl⟩ := h
    refine ⟨Frame.refl hs, ?_⟩
    intro F ws hv
    cases F with
    | zero => simp [keyVisits] at hv
    | succ F =>
      unfold keyVisits at hv
      cases hw : st.tree.wins[win]? with
      | none => simp only [hw, Option.some.injEq] at hv; subst hv; exact SegK.nil _ _
      | some w =>
        simp only [hw, hvc, Bool.not_false, if_true, Option.some.injEq] at hv
        subst hv; exact SegK.nil _ _
  | true =>
    simp only [Bool.not_true, Bool.false_eq_true, if_false] at h
    obtain ⟨st1, h1, h⟩ := lift_bind_eq_ok.1 h
    obtain ⟨⟨st5, d5⟩, h5, h⟩ := out_bind_eq_ok.1 h
    obtain ⟨w0, hw0, e1⟩ := refWin_eq_ok h1
    obtain ⟨hww0, hwf0⟩ := get_eq_ok.1 hw0
    have hle1 : Le st.tree st1.tree := by
      rw [e1]; exact le_set_rc hww0 (by omega)
    have hs1 : Static st1.binds := by rw [e1]; exact hs
    have ho1 : st1.owned = st.owned := by rw [e1]
    have hb1 : st1.binds = st.binds := by rw [e1]
    have hl1 : st1.log = st.log := by rw [e1]
    obtain ⟨w1, hw1, ew1, _⟩ := hle1.get hw0
    -- the four phases
    have key : Frame st1 st5 ∧ ∀ (F : Nat) (a b c : List WinTree.Id),
        stealVisits st.tree (keyVisits st.tree F) w0 = some a → focusVisits (keyVisits st.tree F) w0 = some b →
        restVisits (keyVisits st.tree F) w0 = some c → SegK st1 ev (a ++ (b ++ ([win] ++ c))) st5 d5 := by
      have hkv : ∀ (t : Tree), Le st.tree t → ∀ F, keyVisits t F = keyVisits st.tree F :=
        fun t hl F => funext (keyVisits_le hl F)
      -- a uniform statement over the index of the reference order
      suffices hh : ∀ (F : Nat), (∀ a b c, stealVisits st.tree (keyVisits st.tree F) w0 = some a →
          focusVisits (keyVisits st.tree F) w0 = some b → restVisits (keyVisits st.tree F) w0 = some c →
          Frame st1 st5 ∧ SegK st1 ev (a ++ (b ++ ([win] ++ c))) st5 d5) ∧ Frame st1 st5 by
        exact ⟨(hh 0).2, fun F a b c ha hb hc => ((hh F).1 a b c ha hb hc).2⟩
      intro F
      -- Frame does not depend on the reference order: get it from the chain with dummy lists where needed
      have chain : ∀ (xs ys zs : Option (List WinTree.Id)),
          xs = stealVisits st.tree (keyVisits st.tree F) w0 → ys = focusVisits (keyVisits st.tree F) w0 →
          zs = restVisits (keyVisits st.tree F) w0 →
          Frame st1 st5 ∧ ∀ a b c, xs = some a → ys = some b → zs = some c →
            SegK st1 ev (a ++ (b ++ ([win] ++ c))) st5 d5 := by
        intro xs ys zs hxs hys hzs
        -- phase 1
        obtain ⟨stA, dA, eA, hcA⟩ := firstClaim_ok h5
        obtain ⟨frA, spA⟩ := keySteal_static hrec hs1 (hwf.le hle1) hw1 eA
        have spA' : ∀ a, xs = some a → SegK st1 ev a stA dA := by
          intro a ha
          apply spA F a
          rw [hkv _ hle1 F]
          have : stealVisits st1.tree (keyVisits st.tree F) w1 = stealVisits st.tree (keyVisits st.tree F) w0 := by
            unfold stealVisits
            rw [(noRc_fields ew1).2.1]
            cases w0.children.head? with
            | none => rfl
            | some fc => simp only [stealAt_le hle1 fc]
          rw [this, ← hxs]; exact ha
        rcases hcA with ⟨rfl, rfl, rfl⟩ | ⟨rfl, hA⟩
        · exact ⟨frA, fun a b c ha _ _ => (spA' a ha).claimed _⟩
        -- phase 2
        have hleA : Le st.tree stA.tree := hle1.trans frA.le
        obtain ⟨wA, hwA, ewA, _⟩ := hleA.get hw0
        obtain ⟨stB, dB, eB, hcB⟩ := firstClaim_ok hA
        obtain ⟨frB, spB⟩ := keyFocus_static hrec frA.static (hwf.le hleA) hwA eB
        have spB' : ∀ b, ys = some b → SegK stA ev b stB dB := by
          intro b hb
          apply spB F b
          rw [hkv _ hleA F]
          have : focusVisits (keyVisits st.tree F) wA = focusVisits (keyVisits st.tree F) w0 := by
            unfold focusVisits; rw [(noRc_fields ewA).2.2.1]
          rw [this, ← hys]; exact hb
        rcases hcB with ⟨rfl, rfl, rfl⟩ | ⟨rfl, hB⟩
        · exact ⟨frA.trans frB, fun a b c ha hb _ => (spA' a ha).append ((spB' b hb).claimed _)⟩
        -- phase 3
        have hleB : Le st.tree stB.tree := hleA.trans frB.le
        obtain ⟨stC, dC, eC, hcC⟩ := firstClaim_ok hB
        obtain ⟨frC, spC⟩ := keyOwn_static frB.static (isShown_le hleB _ _ _ (by rw [hleB.treeFuel]; exact hvis')) eC
        rcases hcC with ⟨rfl, rfl, rfl⟩ | ⟨rfl, hC⟩
        · exact ⟨(frA.trans frB).trans frC,
            fun a b c ha hb _ => (spA' a ha).append ((spB' b hb).append (spC.claimed _))⟩
        -- phase 4
        have hleC : Le st.tree stC.tree := hleB.trans frC.le
        obtain ⟨wC, hwC, ewC, _⟩ := hleC.get hw0
        obtain ⟨frD, spD⟩ := keyChildren_static hrec frC.static (hwf.le hleC) hwC hC
        refine ⟨((frA.trans frB).trans frC).trans frD, ?_⟩
        intro a b c ha hb hc
        refine (spA' a ha).append ((spB' b hb).append (spC.append (spD F c ?_)))
        rw [hkv _ hleC F]
        have : restVisits (keyVisits st.tree F) wC = restVisits (keyVisits st.tree F) w0 := by
          unfold restVisits; rw [(noRc_fields ewC).2.1, (noRc_fields ewC).2.2.1]
        rw [this, ← hzs]; exact hc
      obtain ⟨fr, sp⟩ := chain _ _ _ rfl rfl rfl
      exact ⟨fun a b c ha hb hc => ⟨fr, sp a b c ha hb hc⟩, fr⟩
    obtain ⟨fr15, sp15⟩ := key
    -- done: unref
    obtain ⟨hu, rfl⟩ := keyDone_ok h
    have hle5 : Le st1.tree st5.tree := fr15.le
    obtain ⟨w5, hw5, _, l5⟩ := hle5.get (show WinTree.get st1.tree win = Res.ok { w0 with refcount := w0.refcount + 1 } by
      rw [e1]; exact get_eq_ok.2 ⟨wins_set_self hww0, hwf0⟩)
    have h2 : 2 ≤ w5.refcount := by
      have := hwf.rc win w0 hww0 hwf0
      simp only at l5; omega
    rw [unrefLogged_nd hw5 h2] at hu
    cases hu
    have hle6 : Le st.tree (WinTree.set st5.tree win { w5 with refcount := w5.refcount - 1 }) := by
      apply le_cancel hww0 _ (get_eq_ok.1 hw5).1
      rw [e1] at hle5; exact hle5
    refine ⟨⟨hle6, by simp only; rw [fr15.owned, ho1], fr15.static⟩, ?_⟩
    intro F ws hv
    cases F with
    | zero => simp [keyVisits] at hv
    | succ F =>
      unfold keyVisits at hv
      simp only [hww0, hvc, Bool.not_true, Bool.false_eq_true, if_false] at hv
      cases ha : stealVisits st.tree (keyVisits st.tree F) w0 with
      | none => simp [ha] at hv
      | some a =>
        cases hb : focusVisits (keyVisits st.tree F) w0 with
        | none => simp [ha, hb] at hv
        | some b =>
          cases hc : restVisits (keyVisits st.tree F) w0 with
          | none => simp [ha, hb, hc] at hv
          | some c =>
            simp [ha, hb, hc] at hv
            subst hv
            have sg := sp15 F a b c ha hb hc
            have hassoc : a ++ (b ++ win :: c) = a ++ (b ++ ([win] ++ c)) := by simp
            rw [hassoc]
            exact ⟨by simp only; rw [sg.binds, hb1], by simp only; rw [sg.log, hl1, hb1], by rw [sg.ret, hb1]⟩

/-- `_handle_key` (repaired code) with non-mutating handlers, for every fuel. -/
theorem handleKey_static : ∀ (f : Nat), KeyRecOK (handleKey Cfg.repaired f) := by
  intro f
  induction f with
  | zero => intro st win ev st' d _ _ h; simp [handleKey] at h
  | succ f ih => exact handleKeyBody_static ih f

/-! ### the phases of `_handle_mouse` with non-mutating handlers -/

/-- The mouse event was offered to the windows `ws` (each with the event as it sees it), in order, up to the first
    claim; `r` is the window that claimed. -/
structure SegM (st : St) (ws : List (WinTree.Id × Ev)) (st' : St) (r : Option WinTree.Id) : Prop where
  binds : st'.binds = (offerAll st.binds .mouse ws).1
  log : offers st'.log = offers st.log ++ ((offerAll st.binds .mouse ws).2.1).map (fun p => (Kind.mouse, p.1, p.2))
  ret : r = (offerAll st.binds .mouse ws).2.2

theorem SegM.nil (st : St) : SegM st [] st none := ⟨rfl, by simp [offerAll], rfl⟩

theorem SegM.claimed {st st1 : St} {xs : List (WinTree.Id × Ev)} {h : WinTree.Id} (hx : SegM st xs st1 (some h))
    (ys : List (WinTree.Id × Ev)) : SegM st (xs ++ ys) st1 (some h) := by
  have hs : (offerAll st.binds .mouse xs).2.2.isSome = true := by rw [← hx.ret]; rfl
  have key : offerAll st.binds .mouse (xs ++ ys) = offerAll st.binds .mouse xs := by
    rw [offerAll_append, if_pos hs]
  exact ⟨by rw [key]; exact hx.binds, by rw [key]; exact hx.log, by rw [key]; exact hx.ret⟩

theorem SegM.append {st st1 st2 : St} {xs ys : List (WinTree.Id × Ev)} {r2 : Option WinTree.Id}
    (h1 : SegM st xs st1 none) (h2 : SegM st1 ys st2 r2) : SegM st (xs ++ ys) st2 r2 := by
  have hs : ¬ ((offerAll st.binds .mouse xs).2.2.isSome = true) := by
    rw [← h1.ret]; simp
  have key : offerAll st.binds .mouse (xs ++ ys) =
      ((offerAll (offerAll st.binds .mouse xs).1 .mouse ys).1,
       (offerAll st.binds .mouse xs).2.1 ++ (offerAll (offerAll st.binds .mouse xs).1 .mouse ys).2.1,
       (offerAll (offerAll st.binds .mouse xs).1 .mouse ys).2.2) := by
    rw [offerAll_append, if_neg hs]
  refine ⟨?_, ?_, ?_⟩
  · rw [key, h2.binds, h1.binds]
  · rw [key, h2.log, h1.log, h1.binds]; simp only [List.map_append, List.append_assoc]
  · rw [key, h2.ret, h1.binds]

def MouseRecOK (rec : MouseRec) : Prop :=
  ∀ (st : St) (c : WinTree.Id) (ev : Ev) (st' : St) (r : Option WinTree.Id), Static st.binds → WF st.tree →
    rec st c ev = Out.ok (st', r) →
    Frame st st' ∧ ∀ (F : Nat) (ws : List (WinTree.Id × Ev)), mouseVisits st.tree F c ev = some ws → SegM st ws st' r

theorem childVisits_le {t t' : Tree} (h : Le t t') (g : WinTree.Id → Ev → Option (List (WinTree.Id × Ev))) (ev : Ev)
    (c : WinTree.Id) : childVisits t' g ev c = childVisits t g ev c := by
  unfold childVisits
  cases hw : t.wins[c]? with
  | none => simp [h.wins_none hw]
  | some w =>
    obtain ⟨w', hw', e, _⟩ := h.win c w hw
    obtain ⟨_, _, _, e4, _, _, _, e8, _⟩ := noRc_fields e
    have h1 : ev.toChild w' = ev.toChild w := by unfold Ev.toChild; rw [e4]
    have h2 : inChild w' ev.line ev.col = inChild w ev.line ev.col := by unfold inChild outsideChild; rw [e4]
    simp only [hw', e8, h1, h2]

theorem mouseVisits_le {t t' : Tree} (h : Le t t') : ∀ (f : Nat) (i : WinTree.Id) (ev : Ev),
    mouseVisits t' f i ev = mouseVisits t f i ev := by
  intro f
  induction f with
  | zero => intro i ev; rfl
  | succ f ih =>
    intro i ev
    have hfun : mouseVisits t' f = mouseVisits t f := funext fun i => funext fun e => ih i e
    unfold mouseVisits
    cases hw : t.wins[i]? with
    | none => simp [h.wins_none hw]
    | some w =>
      obtain ⟨w', hw', e, _⟩ := h.win i w hw
      have hcv : childVisits t' (mouseVisits t f) ev = childVisits t (mouseVisits t f) ev :=
        funext (childVisits_le h _ ev)
      simp only [hw', hfun, hcv, (noRc_fields e).2.1, visibleChain_le h, h.treeFuel]

theorem mouseSnap_static {rec : MouseRec} (hrec : MouseRecOK rec) (win : WinTree.Id) (ev : Ev) :
    ∀ (cs : List WinTree.Id) (st st' : St) (r : Option WinTree.Id) (w : Win), Static st.binds → WF st.tree →
      WinTree.get st.tree win = Res.ok w → (∀ c ∈ cs, c ∈ w.children) →
      mouseSnap rec st win cs ev = Out.ok (st', r) →
      Frame st st' ∧ ∀ (F : Nat) (ws : List (WinTree.Id × Ev)),
        visitList (childVisits st.tree (mouseVisits st.tree F) ev) cs = some ws → SegM st ws st' r := by
  intro cs
  induction cs with
  | nil =>
    intro st st' r w hs _ _ _ h
    simp only [mouseSnap, out_pure, Out.ok.injEq, Prod.mk.injEq] at h
    obtain ⟨rfl, rfl⟩ := h
    refine ⟨Frame.refl hs, ?_⟩
    intro F ws hv
    simp only [visitList, Option.some.injEq] at hv
    subst hv; exact SegM.nil _
  | cons c rest ih =>
    intro st st' r w hs hwf hw hsub h
    simp only [mouseSnap] at h
    obtain ⟨cw, hcw, h⟩ := lift_bind_eq_ok.1 h
    obtain ⟨hww, hwf'⟩ := get_eq_ok.1 hw
    have hpar : cw.parent = some win :=
      hwf.parent win c w cw hww hwf' (hsub c (List.mem_cons_self ..)) (get_eq_ok.1 hcw).1
    simp only [hpar, ne_eq, not_true_eq_false, if_false] at h
    have hsub' : ∀ c' ∈ rest, c' ∈ w.children := fun c' hc' => hsub c' (List.mem_cons_of_mem _ hc')
    have hcvc : ∀ F, childVisits st.tree (mouseVisits st.tree F) ev c =
        if cw.stealInput || inChild cw ev.line ev.col then mouseVisits st.tree F c (ev.toChild cw) else some [] := by
      intro F; unfold childVisits; rw [(get_eq_ok.1 hcw).1]
    by_cases hskip : (!cw.stealInput && outsideChild cw ev.line ev.col) = true
    · simp only [hskip, if_true] at h
      obtain ⟨fr, sp⟩ := ih st st' r w hs hwf hw hsub' h
      refine ⟨fr, ?_⟩
      intro F ws hv
      obtain ⟨a, b, ha, hb, rfl⟩ := visitList_cons_some hv
      have hno : (cw.stealInput || inChild cw ev.line ev.col) = false := by
        unfold inChild; cases hst : cw.stealInput <;> cases ho : outsideChild cw ev.line ev.col <;> simp_all
      rw [hcvc F, hno] at ha
      simp only [Bool.false_eq_true, if_false, Option.some.injEq] at ha
      subst ha
      simpa using sp F b hb
    · simp only [hskip, if_false] at h
      obtain ⟨⟨st1, r1⟩, hr, h⟩ := out_bind_eq_ok.1 h
      obtain ⟨fr1, sp1⟩ := hrec st c (ev.toChild cw) st1 r1 hs hwf hr
      have hyes : (cw.stealInput || inChild cw ev.line ev.col) = true := by
        unfold inChild; cases hst : cw.stealInput <;> cases ho : outsideChild cw ev.line ev.col <;> simp_all
      cases r1 with
      | some hh =>
        simp only [out_pure, Out.ok.injEq, Prod.mk.injEq] at h
        obtain ⟨rfl, rfl⟩ := h
        refine ⟨fr1, ?_⟩
        intro F ws hv
        obtain ⟨a, b, ha, _, rfl⟩ := visitList_cons_some hv
        rw [hcvc F, hyes] at ha
        simp only [if_true] at ha
        exact (sp1 F a ha).claimed b
      | none =>
        simp only at h
        obtain ⟨w1, hw1, e1, _⟩ := fr1.le.get hw
        obtain ⟨_, e2, _⟩ := noRc_fields e1
        obtain ⟨fr2, sp2⟩ := ih st1 st' r w1 fr1.static (hwf.le fr1.le) hw1 (by rw [e2]; exact hsub') h
        refine ⟨fr1.trans fr2, ?_⟩
        intro F ws hv
        obtain ⟨a, b, ha, hb, rfl⟩ := visitList_cons_some hv
        rw [hcvc F, hyes] at ha
        simp only [if_true] at ha
        refine (sp1 F a ha).append (sp2 F b ?_)
        have h1 : mouseVisits st1.tree F = mouseVisits st.tree F :=
          funext fun i => funext fun e => mouseVisits_le fr1.le F i e
        have h2 : childVisits st1.tree (mouseVisits st.tree F) ev = childVisits st.tree (mouseVisits st.tree F) ev :=
          funext (childVisits_le fr1.le _ ev)
        rw [h1, h2]; exact hb

theorem mouseChildren_static {rec : MouseRec} (hrec : MouseRecOK rec) {fuel : Nat} {st st' : St} {win : WinTree.Id}
    {ev : Ev} {r : Option WinTree.Id} {w : Win} (hs : Static st.binds) (hwf : WF st.tree)
    (hw : WinTree.get st.tree win = Res.ok w)
    (h : mouseChildren Cfg.repaired rec fuel st win ev = Out.ok (st', r)) :
    Frame st st' ∧ ∀ (F : Nat) (ws : List (WinTree.Id × Ev)),
      visitList (childVisits st.tree (mouseVisits st.tree F) ev) w.children = some ws → SegM st ws st' r := by
  unfold mouseChildren at h
  simp only [hw, lift_ok, out_bind_ok, Cfg.repaired, if_true] at h
  obtain ⟨st4, h4, h⟩ := lift_bind_eq_ok.1 h
  obtain ⟨⟨st5, r5⟩, h5, h⟩ := out_bind_eq_ok.1 h
  obtain ⟨st6, h6, h⟩ := lift_bind_eq_ok.1 h
  simp only [out_pure, Out.ok.injEq, Prod.mk.injEq] at h
  obtain ⟨rfl, rfl⟩ := h
  obtain ⟨b4, o4, l4, le4, al4⟩ := refAll_ok _ _ _ h4
  have hle4 : Le st.tree st4.tree := by
    refine ⟨le4.root, le4.size, fun i x hx => ?_⟩
    obtain ⟨x', hx', e, l⟩ := le4.win i x hx
    exact ⟨x', hx', e, by omega⟩
  obtain ⟨w4, hw4, e4, _⟩ := hle4.get hw
  obtain ⟨_, e42, _⟩ := noRc_fields e4
  have hs4 : Static st4.binds := by rw [b4]; exact hs
  obtain ⟨fr5, sp5⟩ := mouseSnap_static hrec win ev w.children st4 st5 r5 w4 hs4 (hwf.le hle4) hw4
    (by intro c hc; rw [e42]; exact hc) h5
  obtain ⟨st6', h6', b6, o6, l6, le6⟩ := unrefAll_cancel w.children st.tree st5 hwf.rc al4 (le4.trans fr5.le)
  rw [h6'] at h6
  cases h6
  refine ⟨⟨le6, by rw [o6, fr5.owned, o4], by rw [b6]; exact fr5.static⟩, ?_⟩
  intro F ws hv
  have hv4 : visitList (childVisits st4.tree (mouseVisits st4.tree F) ev) w.children = some ws := by
    have h1 : mouseVisits st4.tree F = mouseVisits st.tree F :=
      funext fun i => funext fun e => mouseVisits_le hle4 F i e
    have h2 : childVisits st4.tree (mouseVisits st.tree F) ev = childVisits st.tree (mouseVisits st.tree F) ev :=
      funext (childVisits_le hle4 _ ev)
    rw [h1, h2]; exact hv
  have sg := sp5 F ws hv4
  exact ⟨by rw [b6, sg.binds, b4], by rw [l6, sg.log, l4, b4], by rw [sg.ret, b4]⟩

theorem mouseOwn_static {st st' : St} {win : WinTree.Id} {ev : Ev} {r : Option WinTree.Id} (hs : Static st.binds)
    (hvis : isShown st.tree (treeFuel st.tree) win = Res.ok true)
    (h : mouseOwn Cfg.repaired st win ev = Out.ok (st', r)) : Frame st st' ∧ SegM st [(win, ev)] st' r := by
  unfold mouseOwn ownVisible at h
  simp only [Cfg.repaired, if_true, hvis, lift_ok, out_bind_ok, Bool.not_true, Bool.false_eq_true, if_false] at h
  obtain ⟨st'', c, h1, h2, h3, h4, h5, h6⟩ := runHandlers_static .mouse win ev st hs
  rw [h1] at h
  simp only [lift_ok, out_bind_ok] at h
  have hb : st''.binds = (offerOne st.binds .mouse win).1 := by rw [← h6]
  have hc : c = (offerOne st.binds .mouse win).2 := by rw [← h6]
  cases c with
  | false =>
    simp only [Bool.not_false, if_true, out_pure, Out.ok.injEq, Prod.mk.injEq] at h
    obtain ⟨rfl, rfl⟩ := h
    refine ⟨⟨by rw [h2]; exact Le.refl _, h3, h4⟩, ?_⟩
    refine ⟨?_, ?_, ?_⟩ <;> simp only [offerAll_single, ← hc]
    · exact hb
    · exact h5
    · rfl
  | true =>
    simp only [Bool.not_true, Bool.false_eq_true, if_false] at h
    obtain ⟨st3, h3', h⟩ := lift_bind_eq_ok.1 h
    simp only [out_pure, Out.ok.injEq, Prod.mk.injEq] at h
    obtain ⟨rfl, rfl⟩ := h
    obtain ⟨w, hg, e⟩ := refWin_eq_ok h3'
    have hle : Le st.tree st3.tree := by
      rw [e]; simp only; rw [← h2] ; exact le_set_rc (get_eq_ok.1 hg).1 (by omega)
    refine ⟨⟨hle, by rw [e]; exact h3, by rw [e]; exact h4⟩, ?_⟩
    refine ⟨?_, ?_, ?_⟩ <;> simp only [offerAll_single, ← hc]
    · rw [e]; exact hb
    · rw [e]; exact h5
    · rfl

/-- One level of `_handle_mouse` (repaired code, non-mutating handlers). -/
theorem handleMouseBody_static {rec : MouseRec} (hrec : MouseRecOK rec) (fuel : Nat) :
    MouseRecOK (handleMouseBody Cfg.repaired rec fuel) := by
  intro st win ev st' r hs hwf h
  unfold handleMouseBody at h
  obtain ⟨vis, hvis, h⟩ := lift_bind_eq_ok.1 h
  have hvis' : isShown st.tree (treeFuel st.tree) win = Res.ok vis := by
    simpa [entryVisible, Cfg.repaired] using hvis
  have hvc := isShown_ok _ _ _ _ hvis'
  cases vis with
  | false =>
    simp only [Bool.not_false, if_true, out_pure, Out.ok.injEq, Prod.mk.injEq] at h
    obtain ⟨rfl, rfl⟩ := h
    refine ⟨Frame.refl hs, ?_⟩
    intro F ws hv
    cases F with
    | zero => simp [mouseVisits] at hv
    | succ F =>
      unfold mouseVisits at hv
      cases hw : st.tree.wins[win]? with
      | none => simp only [hw, Option.some.injEq] at hv; subst hv; exact SegM.nil _
      | some w =>
        simp only [hw, hvc, Bool.not_false, if_true, Option.some.injEq] at hv
        subst hv; exact SegM.nil _
  | true =>
    simp only [Bool.not_true, Bool.false_eq_true, if_false] at h
    obtain ⟨st1, h1, h⟩ := lift_bind_eq_ok.1 h
    obtain ⟨⟨st2, r2⟩, h2, h⟩ := out_bind_eq_ok.1 h
    obtain ⟨⟨st3, r3⟩, h3, h⟩ := out_bind_eq_ok.1 h
    obtain ⟨w0, hw0, e1⟩ := refWin_eq_ok h1
    obtain ⟨hww0, hwf0⟩ := get_eq_ok.1 hw0
    have hle1 : Le st.tree st1.tree := by
      rw [e1]; exact le_set_rc hww0 (by omega)
    have hs1 : Static st1.binds := by rw [e1]; exact hs
    have ho1 : st1.owned = st.owned := by rw [e1]
    have hb1 : st1.binds = st.binds := by rw [e1]
    have hl1 : st1.log = st.log := by rw [e1]
    obtain ⟨w1, hw1, ew1, _⟩ := hle1.get hw0
    obtain ⟨fr2, sp2⟩ := mouseChildren_static hrec hs1 (hwf.le hle1) hw1 h2
    have hle2 : Le st.tree st2.tree := hle1.trans fr2.le
    -- children, then the window itself
    have key : Frame st1 st3 ∧ ∀ (F : Nat) (a : List (WinTree.Id × Ev)),
        visitList (childVisits st.tree (mouseVisits st.tree F) ev) w0.children = some a →
        SegM st1 (a ++ [(win, ev)]) st3 r3 := by
      have tr : ∀ (F : Nat) (a : List (WinTree.Id × Ev)),
          visitList (childVisits st.tree (mouseVisits st.tree F) ev) w0.children = some a → SegM st1 a st2 r2 := by
        intro F a ha
        apply sp2 F a
        have h1' : mouseVisits st1.tree F = mouseVisits st.tree F :=
          funext fun i => funext fun e => mouseVisits_le hle1 F i e
        have h2' : childVisits st1.tree (mouseVisits st.tree F) ev = childVisits st.tree (mouseVisits st.tree F) ev :=
          funext (childVisits_le hle1 _ ev)
        rw [h1', h2', (noRc_fields ew1).2.1]; exact ha
      unfold mouseSelf at h3
      cases r2 with
      | some hh =>
        simp only [out_pure, Out.ok.injEq, Prod.mk.injEq] at h3
        obtain ⟨rfl, rfl⟩ := h3
        exact ⟨fr2, fun F a ha => (tr F a ha).claimed _⟩
      | none =>
        simp only at h3
        obtain ⟨fr3, sp3⟩ := mouseOwn_static fr2.static
          (isShown_le hle2 _ _ _ (by rw [hle2.treeFuel]; exact hvis')) h3
        exact ⟨fr2.trans fr3, fun F a ha => (tr F a ha).append sp3⟩
    obtain ⟨fr13, sp13⟩ := key
    -- done
    unfold mouseDone at h
    obtain ⟨w3, hw3, h⟩ := lift_bind_eq_ok.1 h
    simp only [Cfg.repaired, Bool.not_true, Bool.false_and, Bool.false_eq_true, if_false] at h
    obtain ⟨st4, hu, h⟩ := lift_bind_eq_ok.1 h
    simp only [out_pure, Out.ok.injEq, Prod.mk.injEq] at h
    obtain ⟨rfl, rfl⟩ := h
    have hle3 : Le st1.tree st3.tree := fr13.le
    obtain ⟨w3', hw3', _, l3⟩ := hle3.get (show WinTree.get st1.tree win = Res.ok { w0 with refcount := w0.refcount + 1 } by
      rw [e1]; exact get_eq_ok.2 ⟨wins_set_self hww0, hwf0⟩)
    rw [hw3] at hw3'; cases hw3'
    have h2' : 2 ≤ w3.refcount := by
      have := hwf.rc win w0 hww0 hwf0
      simp only at l3; omega
    rw [unrefLogged_nd hw3 h2'] at hu
    cases hu
    have hle4 : Le st.tree (WinTree.set st3.tree win { w3 with refcount := w3.refcount - 1 }) := by
      apply le_cancel hww0 _ (get_eq_ok.1 hw3).1
      rw [e1] at hle3; exact hle3
    refine ⟨⟨hle4, by simp only; rw [fr13.owned, ho1], fr13.static⟩, ?_⟩
    intro F ws hv
    cases F with
    | zero => simp [mouseVisits] at hv
    | succ F =>
      unfold mouseVisits at hv
      simp only [hww0, hvc, Bool.not_true, Bool.false_eq_true, if_false] at hv
      cases ha : visitList (childVisits st.tree (mouseVisits st.tree F) ev) w0.children with
      | none => simp [ha] at hv
      | some a =>
        simp [ha] at hv
        subst hv
        have sg := sp13 F a ha
        exact ⟨by simp only; rw [sg.binds, hb1], by simp only; rw [sg.log, hl1, hb1], by rw [sg.ret, hb1]⟩

/-- `_handle_mouse` (repaired code) with non-mutating handlers, for every fuel. -/
theorem handleMouse_static : ∀ (f : Nat), MouseRecOK (handleMouse Cfg.repaired f) := by
  intro f
  induction f with
  | zero => intro st win ev st' r _ _ h; simp [handleMouse] at h
  | succ f ih => exact handleMouseBody_static ih f

/-! ### what a dispatch adds to the log, whatever the handlers do -/

/-- What may happen to one binding while events are dispatched: it is the same binding (window, kind, index,
    behaviour table, one-shot flag); it changes only by being invoked (`count` grows); once it is gone (a fired
    one-shot binding, or one that unbound itself) nothing about it changes any more — it is never invoked again; a
    one-shot binding is invoked at most once more, and is gone as soon as it has been. -/
structure BStep (x x' : Binding) : Prop where
  win : x'.win = x.win
  kind : x'.kind = x.kind
  idx : x'.idx = x.idx
  entries : x'.entries = x.entries
  oneshot : x'.oneshot = x.oneshot
  count : x.count ≤ x'.count
  same : x'.count = x.count → x' = x
  gone : x.gone = true → x' = x
  once : x.oneshot = true → x'.count ≤ x.count + 1 ∧ (x.count < x'.count → x'.gone = true)

theorem BStep.refl (x : Binding) : BStep x x :=
  ⟨rfl, rfl, rfl, rfl, rfl, Nat.le_refl _, fun _ => rfl, fun _ => rfl, fun _ => ⟨Nat.le_succ _, fun h => absurd h (Nat.lt_irrefl _)⟩⟩

theorem BStep.trans {x y z : Binding} (h1 : BStep x y) (h2 : BStep y z) : BStep x z := by
  refine ⟨h2.win.trans h1.win, h2.kind.trans h1.kind, h2.idx.trans h1.idx, h2.entries.trans h1.entries,
    h2.oneshot.trans h1.oneshot, Nat.le_trans h1.count h2.count, ?_, ?_, ?_⟩
  · intro hc
    have c1 := h1.count
    have c2 := h2.count
    have e1 : y = x := h1.same (by omega)
    have e2 : z = y := h2.same (by omega)
    rw [e2, e1]
  · intro hg
    have e1 := h1.gone hg
    have e2 := h2.gone (by rw [e1]; exact hg)
    rw [e2, e1]
  · intro ho
    obtain ⟨a1, b1⟩ := h1.once ho
    obtain ⟨a2, b2⟩ := h2.once (by rw [h1.oneshot]; exact ho)
    by_cases hc : x.count < y.count
    · have e2 := h2.gone (b1 hc)
      rw [e2]; exact ⟨a1, fun _ => b1 hc⟩
    · have c1 := h1.count
      have e1 : y = x := h1.same (by omega)
      rw [e1] at a2 b2
      exact ⟨a2, b2⟩

/-- The bindings of `b'` are those of `b`, each changed at most as `BStep` allows. -/
def BMono (b b' : Array Binding) : Prop :=
  b'.size = b.size ∧ ∀ (i : Nat) (x : Binding), b[i]? = some x → ∃ x', b'[i]? = some x' ∧ BStep x x'

theorem BMono.refl (b : Array Binding) : BMono b b := ⟨rfl, fun _ x h => ⟨x, h, BStep.refl x⟩⟩

theorem BMono.of_eq {b b' : Array Binding} (h : b' = b) : BMono b b' := by rw [h]; exact BMono.refl b

theorem BMono.trans {a b c : Array Binding} (h1 : BMono a b) (h2 : BMono b c) : BMono a c := by
  refine ⟨h2.1.trans h1.1, ?_⟩
  intro i x hx
  obtain ⟨y, hy, s1⟩ := h1.2 i x hx
  obtain ⟨z, hz, s2⟩ := h2.2 i y hy
  exact ⟨z, hz, s1.trans s2⟩

/-- Invoking a binding that is still bound. -/
theorem BStep.fired {b : Binding} (hg : b.gone = false) : BStep b b.fired := by
  refine ⟨rfl, rfl, rfl, rfl, rfl, Nat.le_succ _, ?_, ?_, ?_⟩
  · intro h; simp only [Binding.fired] at h; omega
  · intro h; rw [hg] at h; cases h
  · intro ho
    refine ⟨Nat.le_refl _, fun _ => ?_⟩
    simp only [Binding.fired, ho, Bool.true_or]

theorem BMono.fired {binds : Array Binding} {i : Nat} {b : Binding} (h : binds[i]? = some b) (hg : b.gone = false) :
    BMono binds (binds.setIfInBounds i b.fired) := by
  refine ⟨by simp, ?_⟩
  intro j x hx
  rw [Array.getElem?_setIfInBounds]
  by_cases hij : i = j
  · subst hij
    rw [h] at hx; cases hx
    have hlt : i < binds.size := by
      apply Nat.lt_of_not_le
      intro hge
      rw [Array.getElem?_eq_none hge] at h; cases h
    simp only [if_true, hlt]
    exact ⟨_, rfl, BStep.fired hg⟩
  · simp only [hij, if_false]
    exact ⟨x, hx, BStep.refl x⟩

/-- `st'` extends the log of `st` by items that all satisfy `P`, and its bindings are those of `st`, changed only by
    having been invoked (`BMono`). -/
def Ext (P : LogItem → Prop) (st st' : St) : Prop :=
  (∃ new, st'.log = new ++ st.log ∧ ∀ i ∈ new, P i) ∧ BMono st.binds st'.binds

theorem Ext.refl (P : LogItem → Prop) (st : St) : Ext P st st := ⟨⟨[], rfl, by simp⟩, BMono.refl _⟩

theorem Ext.of_log {P : LogItem → Prop} {st st' : St} (h : st'.log = st.log) (hb : st'.binds = st.binds := by rfl) :
    Ext P st st' := ⟨⟨[], by simpa using h, by simp⟩, BMono.of_eq hb⟩

theorem Ext.trans {P : LogItem → Prop} {a b c : St} (h1 : Ext P a b) (h2 : Ext P b c) : Ext P a c := by
  obtain ⟨⟨n1, e1, p1⟩, b1⟩ := h1
  obtain ⟨⟨n2, e2, p2⟩, b2⟩ := h2
  refine ⟨⟨n2 ++ n1, by rw [e2, e1, List.append_assoc], ?_⟩, b1.trans b2⟩
  intro i hi
  rcases List.mem_append.1 hi with h | h
  · exact p2 i h
  · exact p1 i h

theorem Ext.say {P : LogItem → Prop} (st : St) {i : LogItem} (h : P i) : Ext P st (st.say i) :=
  ⟨⟨[i], rfl, by simpa using h⟩, BMono.refl _⟩

/-- A predicate on log items that the bookkeeping items (destroyed, refused) satisfy. -/
structure Quiet (P : LogItem → Prop) : Prop where
  destroyed : ∀ w, P (.destroyed w)
  refused : ∀ a, P (.refused a)

theorem foldl_destroyed_ext {P : LogItem → Prop} (hq : Quiet P) : ∀ (gone : List WinTree.Id) (s0 : St),
    Ext P s0 (gone.foldl (fun st i => st.say (.destroyed i)) s0) := by
  intro gone
  induction gone with
  | nil => intro s0; exact Ext.refl _ _
  | cons g rest ih => intro s0; exact (Ext.say s0 (hq.destroyed g)).trans (ih _)

theorem unrefLogged_ext {P : LogItem → Prop} (hq : Quiet P) {st st' : St} {win : WinTree.Id}
    (h : unrefLogged st win = Res.ok st') : Ext P st st' := by
  unfold unrefLogged at h
  obtain ⟨w, _, h⟩ := res_bind_eq_ok.1 h
  obtain ⟨t, _, h⟩ := res_bind_eq_ok.1 h
  by_cases h1 : w.refcount = 1
  · simp only [h1, if_true, res_pure, Res.ok.injEq] at h
    subst h
    exact (Ext.of_log (st' := { st with tree := normalizeDrag t }) rfl).trans (foldl_destroyed_ext hq _ _)
  · simp only [h1, if_false, res_pure, Res.ok.injEq] at h
    subst h; exact Ext.of_log rfl

theorem refWin_ext {P : LogItem → Prop} {st st' : St} {win : WinTree.Id} (h : refWin st win = Res.ok st') : Ext P st st' := by
  obtain ⟨w, _, e⟩ := refWin_eq_ok h
  subst e; exact Ext.of_log rfl

theorem refAll_ext {P : LogItem → Prop} : ∀ (cs : List WinTree.Id) (st st' : St), refAll st cs = Res.ok st' → Ext P st st' := by
  intro cs st st' h
  obtain ⟨hb, _, l, _⟩ := refAll_ok cs st st' h
  exact Ext.of_log l hb

theorem unrefAll_ext {P : LogItem → Prop} (hq : Quiet P) : ∀ (cs : List WinTree.Id) (st st' : St),
    unrefAll st cs = Res.ok st' → Ext P st st' := by
  intro cs
  induction cs with
  | nil => intro st st' h; simp only [unrefAll, res_pure, Res.ok.injEq] at h; subst h; exact Ext.refl _ _
  | cons c rest ih =>
    intro st st' h
    simp only [unrefAll] at h
    obtain ⟨st1, h1, h2⟩ := res_bind_eq_ok.1 h
    exact (unrefLogged_ext hq h1).trans (ih _ _ h2)

theorem tree_update_ext {P : LogItem → Prop} {st : St} {r : Res Tree} {f : Tree → St} {st' : St}
    (hf : ∀ t, (f t).log = st.log) (hfb : ∀ t, (f t).binds = st.binds) (h : (r >>= fun t => pure (f t)) = Res.ok st') :
    Ext P st st' := by
  obtain ⟨t, _, h⟩ := res_bind_eq_ok.1 h
  simp only [res_pure, Res.ok.injEq] at h
  subst h; exact Ext.of_log (hf t) (hfb t)

theorem doAction_ext {P : LogItem → Prop} (hq : Quiet P) {st st' : St} {a : Action}
    (h : doAction st a = Res.ok st') : Ext P st st' := by
  unfold doAction at h
  by_cases hal : allowed st a = true
  · simp only [hal, Bool.not_true, Bool.false_eq_true, if_false] at h
    cases hact : a.act <;> simp only [hact] at h
    case unref =>
      exact (Ext.of_log (P := P) (st := st)
        (st' := { st with owned := st.owned.setIfInBounds a.win (st.owned.getD a.win 0 - 1) }) rfl).trans
        (unrefLogged_ext hq h)
    all_goals
      obtain ⟨t, _, h⟩ := res_bind_eq_ok.1 h
      simp only [res_pure, Res.ok.injEq] at h
      subst h; exact Ext.of_log rfl
  · simp only [hal, Bool.not_false, if_true, res_pure, Res.ok.injEq] at h
    subst h; exact Ext.say _ (hq.refused a)

theorem doActions_ext {P : LogItem → Prop} (hq : Quiet P) : ∀ (as : List Action) (st st' : St),
    doActions st as = Res.ok st' → Ext P st st' := by
  intro as
  induction as with
  | nil => intro st st' h; simp only [doActions, res_pure, Res.ok.injEq] at h; subst h; exact Ext.refl _ _
  | cons a rest ih =>
    intro st st' h
    simp only [doActions] at h
    obtain ⟨st1, h1, h2⟩ := res_bind_eq_ok.1 h
    exact (doAction_ext hq h1).trans (ih _ _ h2)

theorem runBindings_ext {P : LogItem → Prop} (hq : Quiet P) (kind : Kind) (win : WinTree.Id) (ev : Ev)
    (hcall : ∀ i n r, P (.call kind win i n r ev)) :
    ∀ (idxs : List Nat) (st st' : St) (c : Bool), runBindings st kind win ev idxs = Res.ok (st', c) → Ext P st st' := by
  intro idxs
  induction idxs with
  | nil => intro st st' c h; simp only [runBindings, res_pure, Res.ok.injEq, Prod.mk.injEq] at h; rw [← h.1]; exact Ext.refl _ _
  | cons bi rest ih =>
    intro st st' c h
    unfold runBindings at h
    cases hb : st.binds[bi]? with
    | none => simp only [hb] at h; exact ih _ _ _ h
    | some b =>
      simp only [hb] at h
      by_cases hg : b.gone = true
      · simp only [hg, if_true] at h; exact ih _ _ _ h
      simp only [hg, Bool.false_eq_true, if_false] at h
      obtain ⟨st1, h1, h⟩ := res_bind_eq_ok.1 h
      have e0 : Ext P st (({ st with binds := st.binds.setIfInBounds bi b.fired } : St).say
          (.call kind win b.idx (entryIndex b) b.entry.ret ev)) :=
        Ext.trans (b := { st with binds := st.binds.setIfInBounds bi b.fired })
          ⟨⟨[], rfl, by simp⟩, BMono.fired hb (by simpa using hg)⟩ (Ext.say _ (hcall _ _ _))
      have e1 := e0.trans (doActions_ext hq _ _ _ h1)
      by_cases hr : b.entry.ret = true
      · simp only [hr, if_true, res_pure, Res.ok.injEq, Prod.mk.injEq] at h
        rw [← h.1]; exact e1
      · simp only [hr, Bool.false_eq_true, if_false] at h
        exact e1.trans (ih _ _ _ h)

theorem runHandlers_ext {P : LogItem → Prop} (hq : Quiet P) (kind : Kind) (win : WinTree.Id) (ev : Ev)
    (hcall : ∀ i n r, P (.call kind win i n r ev)) {st st' : St} {c : Bool}
    (hoffer : P (.offer kind win ev (visibleChain st.tree (treeFuel st.tree) win)))
    (h : runHandlers st kind win ev = Res.ok (st', c)) : Ext P st st' := by
  unfold runHandlers at h
  exact (Ext.say st hoffer).trans (runBindings_ext hq kind win ev hcall _ _ _ _ h)

/-- Events that differ at most in their position. -/
def sameKind (e e' : Ev) : Prop := e'.type = e.type ∧ e'.button = e.button ∧ e'.mod = e.mod

theorem sameKind.rfl' (e : Ev) : sameKind e e := ⟨rfl, rfl, rfl⟩

theorem sameKind.toChild {e e' : Ev} (h : sameKind e e') (cw : Win) : sameKind e (e'.toChild cw) := h

/-- A predicate on log items that holds of everything a dispatch of `ev` may log: bookkeeping items, calls and
    offers of events of the same kind — for an offer only if, with the visibility repair, its ghost bit is set. -/
structure Routed (cfg : Cfg) (kind : Kind) (ev : Ev) (P : LogItem → Prop) : Prop extends Quiet P where
  call : ∀ w i n r e, sameKind ev e → P (.call kind w i n r e)
  offer : ∀ w e b, sameKind ev e → (cfg.shown = true → b = true) → P (.offer kind w e b)

theorem ownHandlers_ext {cfg : Cfg} {kind : Kind} {ev e : Ev} {P : LogItem → Prop} (hp : Routed cfg kind ev P)
    (he : sameKind ev e) {st st' : St} {win : WinTree.Id} {own c : Bool}
    (hown : ownVisible cfg st.tree win = Res.ok own) (ho : own = true)
    (h : runHandlers st kind win e = Res.ok (st', c)) : Ext P st st' := by
  apply runHandlers_ext hp.toQuiet kind win e (fun i n r => hp.call win i n r e he) _ h
  apply hp.offer win e _ he
  intro hs
  unfold ownVisible at hown
  simp only [hs, if_true] at hown
  subst ho
  exact isShown_ok _ _ _ _ hown

/-! #### keys -/

def KeyRecExt (P : LogItem → Prop) (ev : Ev) (rec : KeyRec) : Prop :=
  ∀ (st : St) (c : WinTree.Id) (st' : St) (d : Bool), rec st c ev = Out.ok (st', d) → Ext P st st'

theorem firstClaim_ext {P : LogItem → Prop} {a : Out (St × Bool)} {k : St → Out (St × Bool)} {st st2 : St} {d2 : Bool}
    (h : firstClaim a k = Out.ok (st2, d2))
    (ha : ∀ st1 d1, a = Out.ok (st1, d1) → Ext P st st1)
    (hk : ∀ st1, k st1 = Out.ok (st2, d2) → Ext P st1 st2) : Ext P st st2 := by
  obtain ⟨st1, d1, e, hc⟩ := firstClaim_ok h
  rcases hc with ⟨_, rfl, _⟩ | ⟨_, hk2⟩
  · exact ha _ _ e
  · exact (ha _ _ e).trans (hk _ hk2)

theorem keySteal_ext {P : LogItem → Prop} {ev : Ev} {rec : KeyRec} (hrec : KeyRecExt P ev rec) {st st' : St}
    {win : WinTree.Id} {d : Bool} (h : keySteal rec st win ev = Out.ok (st', d)) : Ext P st st' := by
  unfold keySteal at h
  obtain ⟨w, _, h⟩ := lift_bind_eq_ok.1 h
  cases hc : w.children.head? with
  | none => simp only [hc, out_pure, Out.ok.injEq, Prod.mk.injEq] at h; rw [← h.1]; exact Ext.refl _ _
  | some fc =>
    simp only [hc] at h
    obtain ⟨fw, _, h⟩ := lift_bind_eq_ok.1 h
    by_cases hs : fw.stealInput = true
    · simp only [hs, if_true] at h; exact hrec _ _ _ _ h
    · simp only [hs, Bool.false_eq_true, if_false, out_pure, Out.ok.injEq, Prod.mk.injEq] at h
      rw [← h.1]; exact Ext.refl _ _

theorem keyFocus_ext {P : LogItem → Prop} {ev : Ev} {rec : KeyRec} (hrec : KeyRecExt P ev rec) {st st' : St}
    {win : WinTree.Id} {d : Bool} (h : keyFocus rec st win ev = Out.ok (st', d)) : Ext P st st' := by
  unfold keyFocus at h
  obtain ⟨w, _, h⟩ := lift_bind_eq_ok.1 h
  cases hc : w.focusedChild with
  | none => simp only [hc, out_pure, Out.ok.injEq, Prod.mk.injEq] at h; rw [← h.1]; exact Ext.refl _ _
  | some fc => simp only [hc] at h; exact hrec _ _ _ _ h

theorem keyOwn_ext {cfg : Cfg} {P : LogItem → Prop} {ev : Ev} (hp : Routed cfg .key ev P) {st st' : St}
    {win : WinTree.Id} {d : Bool} (h : keyOwn cfg st win ev = Out.ok (st', d)) : Ext P st st' := by
  unfold keyOwn at h
  obtain ⟨own, hown, h⟩ := lift_bind_eq_ok.1 h
  cases own with
  | false => simp only [Bool.false_eq_true, if_false, out_pure, Out.ok.injEq, Prod.mk.injEq] at h; rw [← h.1]; exact Ext.refl _ _
  | true =>
    simp only [if_true] at h
    exact ownHandlers_ext hp (sameKind.rfl' ev) hown rfl (lift_eq_ok.1 h)

theorem keySnap_ext {P : LogItem → Prop} {ev : Ev} {rec : KeyRec} (hrec : KeyRecExt P ev rec) (win : WinTree.Id) :
    ∀ (cs : List WinTree.Id) (st st' : St) (d : Bool), keySnap rec st win cs ev = Out.ok (st', d) → Ext P st st' := by
  intro cs
  induction cs with
  | nil => intro st st' d h; simp only [keySnap, out_pure, Out.ok.injEq, Prod.mk.injEq] at h; rw [← h.1]; exact Ext.refl _ _
  | cons c rest ih =>
    intro st st' d h
    simp only [keySnap] at h
    obtain ⟨cw, _, h⟩ := lift_bind_eq_ok.1 h
    by_cases hp : cw.parent ≠ some win
    · rw [if_pos hp] at h; exact ih _ _ _ h
    · rw [if_neg hp] at h
      obtain ⟨w, _, h⟩ := lift_bind_eq_ok.1 h
      by_cases hf : w.focusedChild = some c
      · simp only [hf, if_true] at h; exact ih _ _ _ h
      · simp only [hf, if_false] at h
        obtain ⟨⟨st1, d1⟩, hr, h⟩ := out_bind_eq_ok.1 h
        have e1 := hrec _ _ _ _ hr
        cases d1 with
        | true => simp only [if_true, out_pure, Out.ok.injEq, Prod.mk.injEq] at h; rw [← h.1]; exact e1
        | false => simp only [Bool.false_eq_true, if_false] at h; exact e1.trans (ih _ _ _ h)

theorem keyLoop_ext {P : LogItem → Prop} {ev : Ev} {rec : KeyRec} (hrec : KeyRecExt P ev rec) (win : WinTree.Id) :
    ∀ (f : Nat) (child : Option WinTree.Id) (st st' : St) (d : Bool),
      keyLoop rec f st win child ev = Out.ok (st', d) → Ext P st st' := by
  intro f
  induction f with
  | zero =>
    intro child st st' d h
    cases child with
    | none => simp only [keyLoop, out_pure, Out.ok.injEq, Prod.mk.injEq] at h; rw [← h.1]; exact Ext.refl _ _
    | some c => simp [keyLoop] at h
  | succ f ih =>
    intro child st st' d h
    cases child with
    | none => simp only [keyLoop, out_pure, Out.ok.injEq, Prod.mk.injEq] at h; rw [← h.1]; exact Ext.refl _ _
    | some c =>
      simp only [keyLoop] at h
      by_cases hal : (!isAlive st.tree c) = true
      · simp [hal] at h
      rw [if_neg hal] at h
      obtain ⟨next, _, h⟩ := lift_bind_eq_ok.1 h
      obtain ⟨w, _, h⟩ := lift_bind_eq_ok.1 h
      by_cases hf : w.focusedChild = some c
      · simp only [hf, if_true] at h; exact ih _ _ _ _ h
      · simp only [hf, if_false] at h
        obtain ⟨⟨st1, d1⟩, hr, h⟩ := out_bind_eq_ok.1 h
        have e1 := hrec _ _ _ _ hr
        cases d1 with
        | true => simp only [if_true, out_pure, Out.ok.injEq, Prod.mk.injEq] at h; rw [← h.1]; exact e1
        | false => simp only [Bool.false_eq_true, if_false] at h; exact e1.trans (ih _ _ _ _ h)

theorem keyChildren_ext {cfg : Cfg} {P : LogItem → Prop} {ev : Ev} (hq : Quiet P) {rec : KeyRec}
    (hrec : KeyRecExt P ev rec) {fuel : Nat} {st st' : St} {win : WinTree.Id} {d : Bool}
    (h : keyChildren cfg rec fuel st win ev = Out.ok (st', d)) : Ext P st st' := by
  unfold keyChildren at h
  obtain ⟨w, _, h⟩ := lift_bind_eq_ok.1 h
  by_cases hs : cfg.snapshot = true
  · simp only [hs, if_true] at h
    obtain ⟨st4, h4, h⟩ := lift_bind_eq_ok.1 h
    obtain ⟨⟨st5, d5⟩, h5, h⟩ := out_bind_eq_ok.1 h
    obtain ⟨st6, h6, h⟩ := lift_bind_eq_ok.1 h
    simp only [out_pure, Out.ok.injEq, Prod.mk.injEq] at h
    rw [← h.1]
    exact ((refAll_ext _ _ _ h4).trans (keySnap_ext hrec win _ _ _ _ h5)).trans (unrefAll_ext hq _ _ _ h6)
  · simp only [hs, Bool.false_eq_true, if_false] at h
    exact keyLoop_ext hrec win _ _ _ _ _ h

theorem handleKeyBody_ext {cfg : Cfg} {P : LogItem → Prop} {ev : Ev} (hp : Routed cfg .key ev P) {rec : KeyRec}
    (hrec : KeyRecExt P ev rec) (fuel : Nat) : KeyRecExt P ev (handleKeyBody cfg rec fuel) := by
  intro st win st' d h
  unfold handleKeyBody at h
  obtain ⟨vis, _, h⟩ := lift_bind_eq_ok.1 h
  cases vis with
  | false => simp only [Bool.not_false, if_true, out_pure, Out.ok.injEq, Prod.mk.injEq] at h; rw [← h.1]; exact Ext.refl _ _
  | true =>
    simp only [Bool.not_true, Bool.false_eq_true, if_false] at h
    obtain ⟨st1, h1, h⟩ := lift_bind_eq_ok.1 h
    obtain ⟨⟨st5, d5⟩, h5, h⟩ := out_bind_eq_ok.1 h
    obtain ⟨hu, _⟩ := keyDone_ok h
    refine ((refWin_ext h1).trans ?_).trans (unrefLogged_ext hp.toQuiet hu)
    refine firstClaim_ext h5 (fun _ _ e => keySteal_ext hrec e) fun stA hA => ?_
    refine firstClaim_ext hA (fun _ _ e => keyFocus_ext hrec e) fun stB hB => ?_
    refine firstClaim_ext hB (fun _ _ e => keyOwn_ext hp e) fun stC hC => ?_
    exact keyChildren_ext hp.toQuiet hrec hC

/-- Everything `_handle_key` logs satisfies `P` — for every variant of the code, whatever the handlers do. -/
theorem handleKey_ext {cfg : Cfg} {P : LogItem → Prop} {ev : Ev} (hp : Routed cfg .key ev P) :
    ∀ (f : Nat), KeyRecExt P ev (handleKey cfg f) := by
  intro f
  induction f with
  | zero => intro st c st' d h; simp [handleKey] at h
  | succ f ih => exact handleKeyBody_ext hp ih f

/-! #### mouse -/

def MouseRecExt (P : LogItem → Prop) (ev : Ev) (rec : MouseRec) : Prop :=
  ∀ (st : St) (c : WinTree.Id) (e : Ev) (st' : St) (r : Option WinTree.Id), sameKind ev e →
    rec st c e = Out.ok (st', r) → Ext P st st'

theorem mouseSnap_ext {P : LogItem → Prop} {ev : Ev} {rec : MouseRec} (hrec : MouseRecExt P ev rec) (win : WinTree.Id) :
    ∀ (cs : List WinTree.Id) (st st' : St) (e : Ev) (r : Option WinTree.Id), sameKind ev e →
      mouseSnap rec st win cs e = Out.ok (st', r) → Ext P st st' := by
  intro cs
  induction cs with
  | nil => intro st st' e r _ h; simp only [mouseSnap, out_pure, Out.ok.injEq, Prod.mk.injEq] at h; rw [← h.1]; exact Ext.refl _ _
  | cons c rest ih =>
    intro st st' e r he h
    simp only [mouseSnap] at h
    obtain ⟨cw, _, h⟩ := lift_bind_eq_ok.1 h
    by_cases hp : cw.parent ≠ some win
    · rw [if_pos hp] at h; exact ih _ _ _ _ he h
    · rw [if_neg hp] at h
      by_cases hskip : (!cw.stealInput && outsideChild cw e.line e.col) = true
      · simp only [hskip, if_true] at h; exact ih _ _ _ _ he h
      · simp only [hskip, if_false] at h
        obtain ⟨⟨st1, r1⟩, hr, h⟩ := out_bind_eq_ok.1 h
        have e1 := hrec _ _ _ _ _ (he.toChild cw) hr
        cases r1 with
        | some hh => simp only [out_pure, Out.ok.injEq, Prod.mk.injEq] at h; rw [← h.1]; exact e1
        | none => simp only at h; exact e1.trans (ih _ _ _ _ he h)

theorem mouseLoop_ext {P : LogItem → Prop} {ev : Ev} {rec : MouseRec} (hrec : MouseRecExt P ev rec) :
    ∀ (f : Nat) (child : Option WinTree.Id) (st st' : St) (e : Ev) (r : Option WinTree.Id), sameKind ev e →
      mouseLoop rec f st child e = Out.ok (st', r) → Ext P st st' := by
  intro f
  induction f with
  | zero =>
    intro child st st' e r _ h
    cases child with
    | none => simp only [mouseLoop, out_pure, Out.ok.injEq, Prod.mk.injEq] at h; rw [← h.1]; exact Ext.refl _ _
    | some c => simp [mouseLoop] at h
  | succ f ih =>
    intro child st st' e r he h
    cases child with
    | none => simp only [mouseLoop, out_pure, Out.ok.injEq, Prod.mk.injEq] at h; rw [← h.1]; exact Ext.refl _ _
    | some c =>
      simp only [mouseLoop] at h
      by_cases hal : (!isAlive st.tree c) = true
      · simp [hal] at h
      rw [if_neg hal] at h
      obtain ⟨next, _, h⟩ := lift_bind_eq_ok.1 h
      obtain ⟨cw, _, h⟩ := lift_bind_eq_ok.1 h
      by_cases hskip : (!cw.stealInput && outsideChild cw e.line e.col) = true
      · simp only [hskip, if_true] at h; exact ih _ _ _ _ _ he h
      · simp only [hskip, if_false] at h
        obtain ⟨⟨st1, r1⟩, hr, h⟩ := out_bind_eq_ok.1 h
        have e1 := hrec _ _ _ _ _ (he.toChild cw) hr
        cases r1 with
        | some hh => simp only [out_pure, Out.ok.injEq, Prod.mk.injEq] at h; rw [← h.1]; exact e1
        | none => simp only at h; exact e1.trans (ih _ _ _ _ _ he h)

theorem mouseChildren_ext {cfg : Cfg} {P : LogItem → Prop} {ev e : Ev} (hq : Quiet P) {rec : MouseRec}
    (hrec : MouseRecExt P ev rec) (he : sameKind ev e) {fuel : Nat} {st st' : St} {win : WinTree.Id}
    {r : Option WinTree.Id} (h : mouseChildren cfg rec fuel st win e = Out.ok (st', r)) : Ext P st st' := by
  unfold mouseChildren at h
  obtain ⟨w, _, h⟩ := lift_bind_eq_ok.1 h
  by_cases hs : cfg.snapshot = true
  · simp only [hs, if_true] at h
    obtain ⟨st4, h4, h⟩ := lift_bind_eq_ok.1 h
    obtain ⟨⟨st5, r5⟩, h5, h⟩ := out_bind_eq_ok.1 h
    obtain ⟨st6, h6, h⟩ := lift_bind_eq_ok.1 h
    simp only [out_pure, Out.ok.injEq, Prod.mk.injEq] at h
    rw [← h.1]
    exact ((refAll_ext _ _ _ h4).trans (mouseSnap_ext hrec win _ _ _ _ _ he h5)).trans (unrefAll_ext hq _ _ _ h6)
  · simp only [hs, Bool.false_eq_true, if_false] at h
    exact mouseLoop_ext hrec _ _ _ _ _ _ he h

theorem mouseOwn_ext {cfg : Cfg} {P : LogItem → Prop} {ev e : Ev} (hp : Routed cfg .mouse ev P) (he : sameKind ev e)
    {st st' : St} {win : WinTree.Id} {r : Option WinTree.Id} (h : mouseOwn cfg st win e = Out.ok (st', r)) :
    Ext P st st' := by
  unfold mouseOwn at h
  obtain ⟨own, hown, h⟩ := lift_bind_eq_ok.1 h
  cases own with
  | false => simp only [Bool.not_false, if_true, out_pure, Out.ok.injEq, Prod.mk.injEq] at h; rw [← h.1]; exact Ext.refl _ _
  | true =>
    simp only [Bool.not_true, Bool.false_eq_true, if_false] at h
    obtain ⟨⟨st1, d1⟩, h1, h⟩ := lift_bind_eq_ok.1 h
    have e1 : Ext P st st1 := ownHandlers_ext hp he hown rfl h1
    cases d1 with
    | false => simp only [Bool.not_false, if_true, out_pure, Out.ok.injEq, Prod.mk.injEq] at h; rw [← h.1]; exact e1
    | true =>
      simp only [Bool.not_true, Bool.false_eq_true, if_false] at h
      obtain ⟨st2, h2, h⟩ := lift_bind_eq_ok.1 h
      simp only [out_pure, Out.ok.injEq, Prod.mk.injEq] at h
      rw [← h.1]
      by_cases hc : cfg.counted = true
      · simp only [hc, if_true] at h2; exact e1.trans (refWin_ext h2)
      · simp only [hc, Bool.false_eq_true, if_false, res_pure, Res.ok.injEq] at h2; rw [← h2]; exact e1

theorem handleMouseBody_ext {cfg : Cfg} {P : LogItem → Prop} {ev : Ev} (hp : Routed cfg .mouse ev P) {rec : MouseRec}
    (hrec : MouseRecExt P ev rec) (fuel : Nat) : MouseRecExt P ev (handleMouseBody cfg rec fuel) := by
  intro st win e st' r he h
  unfold handleMouseBody at h
  obtain ⟨vis, _, h⟩ := lift_bind_eq_ok.1 h
  cases vis with
  | false => simp only [Bool.not_false, if_true, out_pure, Out.ok.injEq, Prod.mk.injEq] at h; rw [← h.1]; exact Ext.refl _ _
  | true =>
    simp only [Bool.not_true, Bool.false_eq_true, if_false] at h
    obtain ⟨st1, h1, h⟩ := lift_bind_eq_ok.1 h
    obtain ⟨⟨st2, r2⟩, h2, h⟩ := out_bind_eq_ok.1 h
    obtain ⟨⟨st3, r3⟩, h3, h⟩ := out_bind_eq_ok.1 h
    unfold mouseDone at h
    obtain ⟨w3, _, h⟩ := lift_bind_eq_ok.1 h
    obtain ⟨st4, hu, h⟩ := lift_bind_eq_ok.1 h
    simp only [out_pure, Out.ok.injEq, Prod.mk.injEq] at h
    rw [← h.1]
    have e3 : Ext P st2 st3 := by
      unfold mouseSelf at h3
      cases r2 with
      | some hh => simp only [out_pure, Out.ok.injEq, Prod.mk.injEq] at h3; rw [← h3.1]; exact Ext.refl _ _
      | none => exact mouseOwn_ext hp he h3
    exact (((refWin_ext h1).trans (mouseChildren_ext hp.toQuiet hrec he h2)).trans e3).trans (unrefLogged_ext hp.toQuiet hu)

/-- Everything `_handle_mouse` logs satisfies `P` — for every variant of the code, whatever the handlers do. -/
theorem handleMouse_ext {cfg : Cfg} {P : LogItem → Prop} {ev : Ev} (hp : Routed cfg .mouse ev P) :
    ∀ (f : Nat), MouseRecExt P ev (handleMouse cfg f) := by
  intro f
  induction f with
  | zero => intro st c e st' r _ h; simp [handleMouse] at h
  | succ f ih => exact handleMouseBody_ext hp ih f

/-! ### first occurrences, prefixes -/

theorem firstOccAux_prefix : ∀ (xs ys seen : List WinTree.Id), firstOccAux seen xs <+: firstOccAux seen (xs ++ ys) := by
  intro xs
  induction xs with
  | nil => intro ys seen; exact List.nil_prefix
  | cons x xs ih =>
    intro ys seen
    simp only [List.cons_append, firstOccAux]
    by_cases hx : x ∈ seen
    · simp only [hx, if_true]; exact ih ys seen
    · simp only [hx, if_false]; exact (List.prefix_cons_inj x).2 (ih ys (x :: seen))

theorem firstOcc_prefix {xs ws : List WinTree.Id} (h : xs <+: ws) : firstOcc xs <+: firstOcc ws := by
  obtain ⟨ys, rfl⟩ := h
  exact firstOccAux_prefix xs ys []

theorem offerAll_prefix (k : Kind) : ∀ (ws : List (WinTree.Id × Ev)) (b : Array Binding), (offerAll b k ws).2.1 <+: ws := by
  intro ws
  induction ws with
  | nil => intro b; simp [offerAll]
  | cons x xs ih =>
    intro b
    obtain ⟨w, e⟩ := x
    simp only [offerAll]
    by_cases hc : (offerOne b k w).2 = true
    · simp only [hc, if_true]; exact (List.prefix_cons_inj _).2 List.nil_prefix
    · simp only [hc, Bool.false_eq_true, if_false]; exact (List.prefix_cons_inj _).2 (ih _)

theorem offerAll_none (k : Kind) : ∀ (ws : List (WinTree.Id × Ev)) (b : Array Binding),
    (offerAll b k ws).2.2 = none → (offerAll b k ws).2.1 = ws := by
  intro ws
  induction ws with
  | nil => intro b _; simp [offerAll]
  | cons x xs ih =>
    intro b h
    obtain ⟨w, e⟩ := x
    simp only [offerAll] at h ⊢
    by_cases hc : (offerOne b k w).2 = true
    · simp [hc] at h
    · simp only [hc, Bool.false_eq_true, if_false] at h ⊢
      rw [ih _ h]

/-- The window that claims is the last one offered; everything before it was offered and declined. -/
theorem offerAll_some (k : Kind) : ∀ (ws : List (WinTree.Id × Ev)) (b : Array Binding) (w : WinTree.Id),
    (offerAll b k ws).2.2 = some w →
    ∃ pre e post, ws = pre ++ (w, e) :: post ∧ (offerAll b k ws).2.1 = pre ++ [(w, e)] ∧
      (offerAll b k pre).2.2 = none ∧ (offerOne (offerAll b k pre).1 k w).2 = true := by
  intro ws
  induction ws with
  | nil => intro b w h; simp [offerAll] at h
  | cons x xs ih =>
    intro b w h
    obtain ⟨w0, e0⟩ := x
    simp only [offerAll] at h ⊢
    by_cases hc : (offerOne b k w0).2 = true
    · simp only [hc, if_true, Option.some.injEq] at h ⊢
      subst h
      exact ⟨[], e0, xs, rfl, rfl, rfl, hc⟩
    · simp only [hc, Bool.false_eq_true, if_false] at h ⊢
      obtain ⟨pre, e, post, h1, h2, h3, h4⟩ := ih _ w h
      refine ⟨(w0, e0) :: pre, e, post, by rw [h1]; rfl, by rw [h2]; rfl, ?_, ?_⟩
      · simp only [offerAll, hc, Bool.false_eq_true, if_false]; exact h3
      · simp only [offerAll, hc, Bool.false_eq_true, if_false]; exact h4

/-! ### only visible windows are in the reference orders -/

theorem visitList_mem {α : Type} {g : WinTree.Id → Option (List α)} : ∀ {cs : List WinTree.Id} {ws : List α} {x : α},
    visitList g cs = some ws → x ∈ ws → ∃ c ∈ cs, ∃ l, g c = some l ∧ x ∈ l := by
  intro cs
  induction cs with
  | nil => intro ws x h hx; simp only [visitList, Option.some.injEq] at h; subst h; cases hx
  | cons c rest ih =>
    intro ws x h hx
    obtain ⟨a, b, ha, hb, rfl⟩ := visitList_cons_some h
    rcases List.mem_append.1 hx with h1 | h2
    · exact ⟨c, List.mem_cons_self .., a, ha, h1⟩
    · obtain ⟨c', hc', l, hl, hxl⟩ := ih hb h2
      exact ⟨c', List.mem_cons_of_mem _ hc', l, hl, hxl⟩

theorem keyVisits_visible (t : Tree) : ∀ (F : Nat) (win : WinTree.Id) (ws : List WinTree.Id),
    keyVisits t F win = some ws → ∀ x ∈ ws, visibleChain t (treeFuel t) x = true := by
  intro F
  induction F with
  | zero => intro win ws h; simp [keyVisits] at h
  | succ F ih =>
    intro win ws h x hx
    unfold keyVisits at h
    cases hw : t.wins[win]? with
    | none => simp only [hw, Option.some.injEq] at h; subst h; cases hx
    | some w =>
      simp only [hw] at h
      by_cases hv : visibleChain t (treeFuel t) win = true
      · simp only [hv, Bool.not_true, Bool.false_eq_true, if_false] at h
        cases ha : stealVisits t (keyVisits t F) w with
        | none => simp [ha] at h
        | some a =>
          cases hb : focusVisits (keyVisits t F) w with
          | none => simp [ha, hb] at h
          | some b =>
            cases hc : restVisits (keyVisits t F) w with
            | none => simp [ha, hb, hc] at h
            | some c =>
              simp [ha, hb, hc] at h
              subst h
              simp only [List.mem_append, List.mem_cons] at hx
              rcases hx with hx | hx | hx | hx
              · unfold stealVisits at ha
                cases hh : w.children.head? with
                | none => simp only [hh] at ha; cases ha; cases hx
                | some fc =>
                  simp only [hh] at ha
                  by_cases hs : stealAt t fc = true
                  · simp only [hs, if_true] at ha; exact ih fc a ha x hx
                  · simp only [hs, Bool.false_eq_true, if_false] at ha; cases ha; cases hx
              · unfold focusVisits at hb
                cases hh : w.focusedChild with
                | none => simp only [hh] at hb; cases hb; cases hx
                | some fc => simp only [hh] at hb; exact ih fc b hb x hx
              · subst hx; exact hv
              · unfold restVisits at hc
                obtain ⟨c', _, l, hl, hxl⟩ := visitList_mem hc hx
                by_cases hf : w.focusedChild = some c'
                · simp only [hf, if_true] at hl; cases hl; cases hxl
                · simp only [hf, if_false] at hl; exact ih c' l hl x hxl
      · have hv' : visibleChain t (treeFuel t) win = false := by simpa using hv
        simp only [hv', Bool.not_false, if_true, Option.some.injEq] at h
        subst h; cases hx

theorem visibleChain_alive {t : Tree} : ∀ {f : Nat} {i : WinTree.Id}, visibleChain t f i = true →
    ∃ w, t.wins[i]? = some w ∧ w.freed = false ∧ w.isVisible = true := by
  intro f i h
  cases f with
  | zero => simp [visibleChain] at h
  | succ f =>
    unfold visibleChain at h
    cases hw : t.wins[i]? with
    | none => simp [hw] at h
    | some w =>
      simp only [hw] at h
      by_cases hc : (w.freed || !w.isVisible) = true
      · simp [hc] at h
      · refine ⟨w, rfl, ?_, ?_⟩ <;> cases hf : w.freed <;> cases hv : w.isVisible <;> simp_all

/-- `mouse_relative`, at the level of the reference order: every window is given the event's kind and its position
    minus the window's own absolute origin. -/
theorem mouseVisits_relative {t : Tree} (hwf : WF t) : ∀ (F : Nat) (win : WinTree.Id) (ev : Ev) (ws : List (WinTree.Id × Ev))
    (a b : Int), mouseVisits t F win ev = some ws → OriginSum t (some win) a b →
    ∀ x e, (x, e) ∈ ws → visibleChain t (treeFuel t) x = true ∧ sameKind ev e ∧
      ∃ a' b', OriginSum t (some x) a' b' ∧ e.line = ev.line - (a' - a) ∧ e.col = ev.col - (b' - b) := by
  intro F
  induction F with
  | zero => intro win ev ws a b h; simp [mouseVisits] at h
  | succ F ih =>
    intro win ev ws a b h ho x e hx
    unfold mouseVisits at h
    cases hw : t.wins[win]? with
    | none => simp only [hw, Option.some.injEq] at h; subst h; cases hx
    | some w =>
      simp only [hw] at h
      by_cases hv : visibleChain t (treeFuel t) win = true
      · simp only [hv, Bool.not_true, Bool.false_eq_true, if_false] at h
        cases hb : visitList (childVisits t (mouseVisits t F) ev) w.children with
        | none => simp [hb] at h
        | some below =>
          simp [hb] at h
          subst h
          rcases List.mem_append.1 hx with h1 | h2
          · obtain ⟨c, hc, l, hl, hxl⟩ := visitList_mem hb h1
            unfold childVisits at hl
            cases hcw : t.wins[c]? with
            | none => simp [hcw] at hl; subst hl; cases hxl
            | some cw =>
              simp only [hcw] at hl
              by_cases hin : (cw.stealInput || inChild cw ev.line ev.col) = true
              · simp only [hin, if_true] at hl
                obtain ⟨w', hw', hfr, _⟩ := visibleChain_alive hv
                rw [hw] at hw'; cases hw'
                have hpar : cw.parent = some win := hwf.parent win c w cw hw hfr hc hcw
                have hoc : OriginSum t (some c) (a + cw.rect.top) (b + cw.rect.left) :=
                  OriginSum.step hcw (by rw [hpar]; exact ho)
                obtain ⟨hvx, hk, a', b', hox, hl', hc'⟩ := ih c (ev.toChild cw) l _ _ hl hoc x e hxl
                refine ⟨hvx, hk, a', b', hox, ?_, ?_⟩
                · rw [hl']; simp only [Ev.toChild]; omega
                · rw [hc']; simp only [Ev.toChild]; omega
              · simp [hin] at hl; subst hl; cases hxl
          · simp only [List.mem_singleton, Prod.mk.injEq] at h2
            obtain ⟨rfl, rfl⟩ := h2
            exact ⟨hv, sameKind.rfl' _, a, b, ho, by omega, by omega⟩
      · have : visibleChain t (treeFuel t) win = false := by simpa using hv
        simp [this] at h; subst h; cases hx

/-- `tickit_window_get_abs_geometry` computes that origin. -/
theorem up_origin (t : Tree) : ∀ (f : Nat) (p : Option WinTree.Id) (g g' : Rect), absGeometry.up t f p g = Res.ok g' →
    ∃ a b, OriginSum t p a b ∧ g'.top = g.top + a ∧ g'.left = g.left + b := by
  intro f
  induction f with
  | zero => intro p g g' h; simp [absGeometry.up] at h
  | succ f ih =>
    intro p g g' h
    cases p with
    | none => simp only [absGeometry.up, res_pure, Res.ok.injEq] at h; subst h; exact ⟨0, 0, OriginSum.top, by omega, by omega⟩
    | some p =>
      simp only [absGeometry.up] at h
      obtain ⟨pw, hpw, h⟩ := res_bind_eq_ok.1 h
      obtain ⟨a, b, ho, h1, h2⟩ := ih _ _ _ h
      refine ⟨a + pw.rect.top, b + pw.rect.left, OriginSum.step (get_eq_ok.1 hpw).1 ho, ?_, ?_⟩
      · rw [h1]; simp only [Rect.translate]; omega
      · rw [h2]; simp only [Rect.translate]; omega

theorem absGeometry_origin {t : Tree} {f : Nat} {x : WinTree.Id} {g : Rect} (h : absGeometry t f x = Res.ok g) :
    OriginSum t (some x) g.top g.left := by
  unfold absGeometry at h
  obtain ⟨w, hw, h⟩ := res_bind_eq_ok.1 h
  obtain ⟨a, b, ho, h1, h2⟩ := up_origin t _ _ _ _ h
  have := OriginSum.step (get_eq_ok.1 hw).1 ho
  rw [h1, h2, Int.add_comm w.rect.top a, Int.add_comm w.rect.left b]; exact this

theorem OriginSum.unique {t : Tree} : ∀ {p : Option WinTree.Id} {a b a' b' : Int}, OriginSum t p a b → OriginSum t p a' b' →
    a = a' ∧ b = b' := by
  intro p a b a' b' h1
  induction h1 generalizing a' b' with
  | top => intro h2; cases h2; exact ⟨rfl, rfl⟩
  | step hw _ ih =>
    intro h2
    cases h2 with
    | step hw' h' =>
      rw [hw] at hw'; cases hw'
      obtain ⟨e1, e2⟩ := ih h'
      exact ⟨by rw [e1], by rw [e2]⟩

/-! ### `on_term_mouse` -/

theorem dropResult_ext {cfg : Cfg} {P : LogItem → Prop} (hq : Quiet P) {st st' : St} {r : Option WinTree.Id}
    (h : dropResult cfg st r = Res.ok st') : Ext P st st' := by
  unfold dropResult at h
  cases r with
  | none => simp only [res_pure, Res.ok.injEq] at h; subst h; exact Ext.refl _ _
  | some x =>
    simp only at h
    by_cases hc : cfg.counted = true
    · simp only [hc, if_true] at h; exact unrefLogged_ext hq h
    · simp only [hc, Bool.false_eq_true, if_false, res_pure, Res.ok.injEq] at h; subst h; exact Ext.refl _ _

theorem dragSourceSet_ext {cfg : Cfg} {P : LogItem → Prop} (hq : Quiet P) {st st' : St} {src : Option WinTree.Id}
    (h : dragSourceSet cfg st src = Res.ok st') : Ext P st st' := by
  unfold dragSourceSet at h
  by_cases hc : cfg.counted = true
  · simp only [hc, Bool.not_true, Bool.false_eq_true, if_false] at h
    cases src with
    | none => simp only [res_pure, Res.ok.injEq] at h; subst h; exact Ext.of_log rfl
    | some x =>
      simp only at h
      have e2 := unrefLogged_ext (P := P) hq h
      exact (Ext.of_log (P := P) (st := st) rfl).trans e2
  · simp only [hc, Bool.not_false, if_true, res_pure, Res.ok.injEq] at h; subst h; exact Ext.of_log rfl

/-- The dispatch of a synthesised event to the drag source. -/
theorem toDragSource_ext {cfg : Cfg} {P : LogItem → Prop} {fuel : Nat} {st st' : St} {src : WinTree.Id} {type : Int} {ev : Ev}
    (hp : ∀ l c, Routed cfg .mouse { type := type, button := ev.button, line := l, col := c } P)
    (h : toDragSource cfg fuel st src type ev = Out.ok st') : Ext P st st' := by
  unfold toDragSource at h
  by_cases hal : (!isAlive st.tree src) = true
  · simp [hal] at h
  rw [if_neg hal] at h
  simp only [out_bind_ok] at h
  obtain ⟨geom, _, h⟩ := lift_bind_eq_ok.1 h
  obtain ⟨⟨st1, r⟩, h1, h⟩ := out_bind_eq_ok.1 h
  exact (handleMouse_ext (hp _ _) fuel _ _ _ _ _ (sameKind.rfl' _) h1).trans (dropResult_ext (hp 0 0).toQuiet (lift_eq_ok.1 h))

/-! ### decidable checks for concrete states (used by the non-vacuity examples) -/

def wfCheck (t : Tree) : Bool :=
  (List.range t.wins.size).all fun i =>
    match t.wins[i]? with
    | none => true
    | some w =>
      w.freed || (decide (1 ≤ w.refcount) && w.children.all fun c =>
        match t.wins[c]? with
        | none => true
        | some cw => cw.parent == some i)

theorem wfCheck_sound {t : Tree} (h : wfCheck t = true) : WF t := by
  unfold wfCheck at h
  rw [List.all_eq_true] at h
  have hi : ∀ (i : WinTree.Id) (w : Win), t.wins[i]? = some w → w.freed = false →
      1 ≤ w.refcount ∧ ∀ c ∈ w.children, ∀ cw, t.wins[c]? = some cw → cw.parent = some i := by
    intro i w hw hf
    have hlt : i < t.wins.size := (Array.getElem?_eq_some_iff.1 hw).1
    have := h i (List.mem_range.2 hlt)
    simp only [hw, hf, Bool.false_or, Bool.and_eq_true, decide_eq_true_eq, List.all_eq_true] at this
    refine ⟨this.1, ?_⟩
    intro c hc cw hcw
    have := this.2 c hc
    simp only [hcw, beq_iff_eq] at this
    exact this
  exact ⟨fun i w hw hf => (hi i w hw hf).1, fun i c w cw hw hf hc hcw => (hi i w hw hf).2 c hc cw hcw⟩

def noStealCheck (t : Tree) : Bool :=
  (List.range t.wins.size).all fun i =>
    match t.wins[i]? with
    | some w => !w.stealInput
    | none => true

theorem noStealCheck_sound {t : Tree} (h : noStealCheck t = true) :
    ∀ (i : WinTree.Id) (w : Win), t.wins[i]? = some w → w.stealInput = false := by
  intro i w hw
  unfold noStealCheck at h
  rw [List.all_eq_true] at h
  have := h i (List.mem_range.2 (Array.getElem?_eq_some_iff.1 hw).1)
  simpa [hw] using this

def staticCheck (binds : Array Binding) : Bool :=
  binds.toList.all fun b => b.entries.all fun e => e.actions.isEmpty

theorem staticCheck_sound {binds : Array Binding} (h : staticCheck binds = true) : Static binds := by
  intro i b hb e he
  unfold staticCheck at h
  rw [List.all_eq_true] at h
  have hm : b ∈ binds.toList := by
    rw [Array.mem_toList_iff]
    exact Array.mem_of_getElem? hb
  have := h b hm
  rw [List.all_eq_true] at this
  have := this e he
  simpa using this

/-! ### the first window offered a mouse event is the painter's-model owner of the cell -/

/-- The window at the head of a visiting list. -/
def headWin (ws : List (WinTree.Id × Ev)) : Option WinTree.Id := ws.head?.map (·.1)

theorem headWin_append (a b : List (WinTree.Id × Ev)) : headWin (a ++ b) = (headWin a).or (headWin b) := by
  unfold headWin
  rw [List.head?_append]
  cases a.head? <;> rfl

theorem visitList_all_some {α : Type} {g : WinTree.Id → Option (List α)} : ∀ {cs : List WinTree.Id} {ws : List α},
    visitList g cs = some ws → ∀ c ∈ cs, ∃ l, g c = some l := by
  intro cs
  induction cs with
  | nil => intro ws _ c hc; cases hc
  | cons x rest ih =>
    intro ws h c hc
    obtain ⟨a, b, ha, hb, _⟩ := visitList_cons_some h
    rcases List.mem_cons.1 hc with rfl | hr
    · exact ⟨a, ha⟩
    · exact ih hb c hr

theorem visitList_headWin {g : WinTree.Id → Option (List (WinTree.Id × Ev))} : ∀ {cs : List WinTree.Id}
    {ws : List (WinTree.Id × Ev)}, visitList g cs = some ws →
    headWin ws = cs.findSome? (fun c => match g c with | some l => headWin l | none => none) := by
  intro cs
  induction cs with
  | nil => intro ws h; simp only [visitList, Option.some.injEq] at h; subst h; rfl
  | cons x rest ih =>
    intro ws h
    obtain ⟨a, b, ha, hb, rfl⟩ := visitList_cons_some h
    rw [headWin_append, List.findSome?_cons, ha]
    simp only
    cases hh : headWin a with
    | some o => rfl
    | none => simp only [Option.or]; exact ih hb

theorem findSome?_congr {α β : Type} {F G : α → Option β} : ∀ {l : List α}, (∀ x ∈ l, F x = G x) →
    l.findSome? F = l.findSome? G := by
  intro l
  induction l with
  | nil => intro _; rfl
  | cons x rest ih =>
    intro h
    rw [List.findSome?_cons, List.findSome?_cons, h x (List.mem_cons_self ..)]
    cases G x with
    | some b => rfl
    | none => exact ih (fun y hy => h y (List.mem_cons_of_mem _ hy))

theorem inChild_eq_memb (cw : Win) (l c : Int) : inChild cw l c = cw.rect.memb l c := by
  unfold inChild outsideChild Rect.memb Rect.bottom Rect.right
  by_cases h1 : cw.rect.top ≤ l <;> by_cases h2 : l < cw.rect.top + cw.rect.lines <;>
    by_cases h3 : cw.rect.left ≤ c <;> by_cases h4 : c < cw.rect.left + cw.rect.cols <;>
    simp [h1, h2, h3, h4] <;> omega

theorem visibleChain_mono {t : Tree} : ∀ (f : Nat) (i : WinTree.Id), visibleChain t f i = true →
    visibleChain t (f + 1) i = true := by
  intro f
  induction f with
  | zero => intro i h; simp [visibleChain] at h
  | succ f ih =>
    intro i h
    unfold visibleChain at h ⊢
    cases hw : t.wins[i]? with
    | none => simp [hw] at h
    | some w =>
      simp only [hw] at h ⊢
      split at h
      · cases h
      · rename_i hc
        simp only [hc, if_false]
        cases hp : w.parent with
        | none => rfl
        | some p => simp only [hp] at h ⊢; exact ih p h

theorem visibleChain_mono' {t : Tree} {i : WinTree.Id} : ∀ (k f : Nat), visibleChain t f i = true →
    visibleChain t (f + k) i = true := by
  intro k
  induction k with
  | zero => intro f h; exact h
  | succ k ih => intro f h; exact visibleChain_mono _ _ (ih f h)

/-- The window `mouseVisits` starts with is the one `ownerIn` finds below `win`. -/
theorem mouseVisits_owner {t : Tree} (hwf : WF t) (hns : ∀ (i : WinTree.Id) (w : Win), t.wins[i]? = some w → w.stealInput = false) :
    ∀ (f : Nat) (win : WinTree.Id) (ev : Ev) (g : Nat) (w : Win) (ws : List (WinTree.Id × Ev)),
      t.wins[win]? = some w → visibleChain t g win = true → g + f ≤ treeFuel t →
      mouseVisits t f win ev = some ws →
      headWin ws = some (match w.children.findSome? (fun ch => ownerIn t (f - 1) ch ev.line ev.col) with
        | some o => o
        | none => win) := by
  intro f
  induction f with
  | zero => intro win ev g w ws _ _ _ h; simp [mouseVisits] at h
  | succ f ih =>
    intro win ev g w ws hw hvg hfuel hv
    have hvF : visibleChain t (treeFuel t) win = true := by
      have := visibleChain_mono' (treeFuel t - g) g hvg
      have e : g + (treeFuel t - g) = treeFuel t := by omega
      rw [e] at this; exact this
    obtain ⟨w', hw', hwfree, _⟩ := visibleChain_alive hvg
    rw [hw] at hw'; cases hw'
    unfold mouseVisits at hv
    simp only [hw, hvF, Bool.not_true, Bool.false_eq_true, if_false] at hv
    cases hb : visitList (childVisits t (mouseVisits t f) ev) w.children with
    | none => simp [hb] at hv
    | some below =>
      simp [hb] at hv
      subst hv
      rw [headWin_append, visitList_headWin hb]
      have hall := visitList_all_some hb
      have hcongr : w.children.findSome? (fun c => match childVisits t (mouseVisits t f) ev c with
            | some l => headWin l | none => none) =
          w.children.findSome? (fun ch => ownerIn t f ch ev.line ev.col) := by
        apply findSome?_congr
        intro ch hch
        obtain ⟨l, hl⟩ := hall ch hch
        rw [hl]
        simp only
        unfold childVisits at hl
        cases hcw : t.wins[ch]? with
        | none =>
          simp only [hcw, Option.some.injEq] at hl
          subst hl
          cases f with
          | zero => rfl
          | succ f' => simp [ownerIn, hcw, headWin]
        | some cw =>
          simp only [hcw, hns ch cw hcw, Bool.false_or, inChild_eq_memb] at hl
          have hpar : cw.parent = some win := hwf.parent win ch w cw hw hwfree hch hcw
          cases f with
          | zero =>
            by_cases hm : cw.rect.memb ev.line ev.col = true
            · simp [hm, mouseVisits] at hl
            · simp only [hm, Bool.false_eq_true, if_false, Option.some.injEq] at hl
              subst hl; rfl
          | succ f' =>
            unfold ownerIn
            simp only [hcw]
            by_cases hm : cw.rect.memb ev.line ev.col = true
            · simp only [hm, if_true] at hl
              by_cases hok : (!cw.isVisible || cw.freed) = true
              · -- hidden or freed: nothing below it is visited
                have hvc : visibleChain t (treeFuel t) ch = false := by
                  unfold WinInput.treeFuel
                  unfold visibleChain
                  simp only [hcw]
                  have : (cw.freed || !cw.isVisible) = true := by
                    cases h1 : cw.isVisible <;> cases h2 : cw.freed <;> simp_all
                  simp [this]
                unfold mouseVisits at hl
                simp only [hcw, hvc, Bool.not_false, if_true, Option.some.injEq] at hl
                subst hl
                simp [hok, headWin]
              · simp only [hok, Bool.false_eq_true, if_false, hm, Bool.not_true]
                have hvis : cw.isVisible = true ∧ cw.freed = false := by
                  cases h1 : cw.isVisible <;> cases h2 : cw.freed <;> simp_all
                have hvch : visibleChain t (g + 1) ch = true := by
                  unfold visibleChain
                  simp only [hcw, hvis.1, hvis.2, Bool.not_true, Bool.or_self, Bool.false_eq_true, if_false, hpar]
                  exact hvg
                have := ih ch (ev.toChild cw) (g + 1) cw l hcw hvch (by omega) hl
                rw [this]
                simp only [Ev.toChild, Nat.add_sub_cancel]
                cases cw.children.findSome? (fun ch' => ownerIn t f' ch' (ev.line - cw.rect.top) (ev.col - cw.rect.left)) <;> rfl
            · simp only [hm, Bool.false_eq_true, if_false, Option.some.injEq] at hl
              subst hl
              by_cases hok : (!cw.isVisible || cw.freed) = true
              · simp [hok, headWin]
              · simp [hok, hm, headWin]
      rw [hcongr]
      simp only [Nat.add_sub_cancel]
      cases w.children.findSome? (fun ch => ownerIn t f ch ev.line ev.col) with
      | some o => rfl
      | none => rfl

/-! ### helpers of Props/C14.lean -/

theorem shownOffer_routed (cfg : Cfg) (hc : cfg.shown = true) (kind : Kind) (ev : Ev) : Routed cfg kind ev ShownOffer :=
  { destroyed := fun _ => trivial, refused := fun _ => trivial, call := fun _ _ _ _ _ _ => trivial,
    offer := fun _ _ _ _ h => h hc }

theorem carries_routed (cfg : Cfg) (ev : Ev) (Q : Ev → Prop) (hQ : ∀ e, sameKind ev e → Q e) :
    Routed cfg .mouse ev (Carries Q) :=
  { destroyed := fun _ e h => by simp [evOf] at h,
    refused := fun _ e h => by simp [evOf] at h,
    call := fun _ _ _ _ e hk e' h => by simp only [evOf, Option.some.injEq] at h; subst h; exact hQ e hk,
    offer := fun _ e _ hk _ e' h => by simp only [evOf, Option.some.injEq] at h; subst h; exact hQ e hk }

theorem onTermMouse_ok {cfg : Cfg} {fuel : Nat} {st st' : St} {ev : Ev} {r : Bool}
    (h : onTermMouse cfg fuel st ev = Out.ok (st', r)) :
    ∃ st0 st1 st2 handled st3 st4, refWin st 0 = Res.ok st0 ∧ dragPrelude cfg fuel st0 ev = Out.ok st1 ∧
      handleMouse cfg fuel st1 0 ev = Out.ok (st2, handled) ∧ dragOutside cfg fuel st2 ev handled = Out.ok st3 ∧
      dropResult cfg st3 handled = Res.ok st4 ∧ unrefLogged st4 0 = Res.ok st' ∧ r = handled.isSome := by
  unfold onTermMouse at h
  obtain ⟨st0, h0, h⟩ := lift_bind_eq_ok.1 h
  obtain ⟨st1, h1, h⟩ := out_bind_eq_ok.1 h
  obtain ⟨⟨st2, handled⟩, h2, h⟩ := out_bind_eq_ok.1 h
  obtain ⟨st3, h3, h⟩ := out_bind_eq_ok.1 h
  obtain ⟨st4, h4, h⟩ := lift_bind_eq_ok.1 h
  obtain ⟨st5, h5, h⟩ := lift_bind_eq_ok.1 h
  simp only [out_pure, Out.ok.injEq, Prod.mk.injEq] at h
  obtain ⟨rfl, rfl⟩ := h
  exact ⟨st0, st1, st2, handled, st3, st4, h0, h1, h2, h3, h4, h5, rfl⟩

theorem dragOutside_ext {cfg : Cfg} {P : LogItem → Prop} {fuel : Nat} {st st' : St} {ev : Ev} {handled : Option WinTree.Id}
    (hp : ∀ l c, Routed cfg .mouse { type := evDragOutside, button := ev.button, line := l, col := c } P)
    (h : dragOutside cfg fuel st ev handled = Out.ok st') : Ext P st st' := by
  unfold dragOutside at h
  cases hs : st.tree.root.dragSource with
  | none => simp only [hs, out_pure, Out.ok.injEq] at h; subst h; exact Ext.refl _ _
  | some src =>
    simp only [hs] at h
    by_cases hc : (ev.type = evDrag && handled ≠ some src) = true
    · rw [if_pos hc] at h; exact toDragSource_ext hp h
    · rw [if_neg hc] at h; simp only [out_pure, Out.ok.injEq] at h; subst h; exact Ext.refl _ _

theorem key_returns {x : Out (St × Bool)} {b : Bool}
    (h : (match x with | .ok (_, d) => d == b | _ => false) = true) : ∃ st', x = Out.ok (st', b) := by
  cases x with
  | ok p => obtain ⟨st', d⟩ := p; simp only [beq_iff_eq] at h; subst h; exact ⟨st', rfl⟩
  | ub w => simp at h
  | fuel => simp at h

theorem origin_of_test {t : Tree} {f : Nat} {x : WinTree.Id} {a b : Int}
    (h : (match absGeometry t f x with | .ok g => g.top == a && g.left == b | _ => false) = true) :
    OriginSum t (some x) a b := by
  cases hg : absGeometry t f x with
  | ub w => simp [hg] at h
  | ok g =>
    simp only [hg, Bool.and_eq_true, beq_iff_eq] at h
    rw [← h.1, ← h.2]; exact absGeometry_origin hg

theorem mouse_returns {x : Out (St × Option WinTree.Id)} {r : Option WinTree.Id}
    (h : (match x with | .ok (_, d) => d == r | _ => false) = true) : ∃ st', x = Out.ok (st', r) := by
  cases x with
  | ok p => obtain ⟨st', d⟩ := p; simp only [beq_iff_eq] at h; subst h; exact ⟨st', rfl⟩
  | ub w => simp at h
  | fuel => simp at h


/-- A whole `on_term_key` / `on_term_mouse`: everything it logs satisfies `P`, given that `P` holds of whatever a
    dispatch of a key event of this kind, respectively of any mouse event, may log (`Routed`); and the bindings change
    only by having been invoked (`BMono`, part of `Ext`). -/
theorem onTerm_ext {cfg : Cfg} {P : LogItem → Prop} {fuel : Nat} {st st' : St} {ev : Ev} {r : Bool}
    (hk : Routed cfg .key ev P) (hm : ∀ e, Routed cfg .mouse e P)
    (h : onTermKey cfg fuel st ev = Out.ok (st', r) ∨ onTermMouse cfg fuel st ev = Out.ok (st', r)) : Ext P st st' := by
  rcases h with h | h
  · exact handleKey_ext hk fuel st 0 st' r h
  · obtain ⟨st0, st1, st2, handled, st3, st4, h0, h1, h2, h3, h4, h5, _⟩ := onTermMouse_ok h
    have hq : Quiet P := (hm ev).toQuiet
    have hr : ∀ e, Routed cfg .mouse e P := hm
    have e1 : Ext P st0 st1 := by
      unfold dragPrelude at h1
      by_cases c1 : ev.type = evPress
      · simp only [c1, if_true, out_pure, Out.ok.injEq] at h1; subst h1; exact Ext.of_log rfl
      · simp only [c1, if_false] at h1
        by_cases c2 : (ev.type = evDrag && !st0.tree.root.mouseDragging) = true
        · rw [if_pos c2] at h1
          obtain ⟨⟨sa, src⟩, ha, h1⟩ := out_bind_eq_ok.1 h1
          obtain ⟨sb, hb, h1⟩ := lift_bind_eq_ok.1 h1
          simp only [out_pure, Out.ok.injEq] at h1; subst h1
          exact ((handleMouse_ext (hr _) fuel _ _ _ _ _ (sameKind.rfl' _) ha).trans (dragSourceSet_ext hq hb)).trans
            (Ext.of_log rfl)
        · rw [if_neg c2] at h1
          by_cases c3 : (ev.type = evRelease && st0.tree.root.mouseDragging) = true
          · rw [if_pos c3] at h1
            obtain ⟨⟨sa, dropped⟩, ha, h1⟩ := out_bind_eq_ok.1 h1
            obtain ⟨sb, hb, h1⟩ := lift_bind_eq_ok.1 h1
            obtain ⟨sc, hcc, h1⟩ := out_bind_eq_ok.1 h1
            simp only [out_pure, Out.ok.injEq] at h1; subst h1
            have e3 : Ext P sb sc := by
              unfold dragStop at hcc
              cases hsrc : sb.tree.root.dragSource with
              | none => simp only [hsrc, out_pure, Out.ok.injEq] at hcc; subst hcc; exact Ext.refl _ _
              | some src => simp only [hsrc] at hcc; exact toDragSource_ext (fun _ _ => hr _) hcc
            exact (((handleMouse_ext (hr _) fuel _ _ _ _ _ (sameKind.rfl' _) ha).trans (dropResult_ext hq hb)).trans e3).trans
              (Ext.of_log rfl)
          · rw [if_neg c3] at h1; simp only [out_pure, Out.ok.injEq] at h1; subst h1; exact Ext.refl _ _
    exact ((((refWin_ext h0).trans e1).trans (handleMouse_ext (hr ev) fuel _ _ _ _ _ (sameKind.rfl' _) h2)).trans
      (dragOutside_ext (fun _ _ => hr _) h3)).trans ((dropResult_ext hq h4).trans (unrefLogged_ext hq h5))

end WinInput
end Tickit
