import Tickit.Proof.WinFocus
/-
  C15 on the library's own mock terminal (src/mockterm.c; the engine's second configuration).

  The mock clamps a goto to its screen and stores `!!value` for CURSORVIS / CURSORBLINK.  When the root window sits at
  the origin and is no larger than the terminal — which `on_term_resize` maintains — the calls of `_do_restore` mean on
  the mock what they mean on any terminal: what the mock reports after a flush is `cursorSpec`.
-/
namespace Tickit
namespace WinFocus
open WinTree

/-- The calls of `_do_restore`: hide, or goto / shape / (blink) / show. -/
theorem doRestore_shape {fx : Fixes} {t : Tree} {calls : List TermCall} (hd : doRestore fx t = .ok calls) :
    calls = [.vis 0] ∨ ∃ a b s, calls = [.goto a b, .shape s, .vis 1] ∨ ∃ k, calls = [.goto a b, .shape s, .blink k, .vis 1] := by
  unfold doRestore at hd
  simp only [bind_ok] at hd
  obtain ⟨win, _, shown, _, hd⟩ := hd
  split at hd
  · right
    unfold restoreCalls at hd
    simp only [bind_ok, pure_ok] at hd
    obtain ⟨w, _, abs, _, hd⟩ := hd
    subst hd
    refine ⟨w.cursor.line + abs.top, w.cursor.col + abs.left, w.cursor.shape, ?_⟩
    by_cases hb : w.cursor.blink = -1
    · left; simp [hb]
    · right; exact ⟨w.cursor.blink, by simp [hb]⟩
  · left; simp only [pure_ok] at hd; exact hd.symm

/-- A cell that has an owner lies in the root window. -/
theorem owner_in_root {t : Tree} {L C : Int} {o : Nat} (h : owner t L C = some o) :
    ∃ r, t.wins[0]? = some r ∧ r.rect.memb L C = true := by
  unfold owner at h
  rw [ownerIn] at h
  cases hr : t.wins[0]? with
  | none => rw [hr] at h; cases h
  | some r =>
    rw [hr] at h
    simp only [] at h
    split at h
    · cases h
    · split at h
      · cases h
      · next hm => exact ⟨r, rfl, by simpa using hm⟩

/-- Where the specification shows the cursor, the composition has an owner: the cell lies in the root window. -/
theorem cursorSpec_in_root {t : Tree} {L C s : Int} (h : cursorSpec t = some (L, C, s)) :
    ∃ r, t.wins[0]? = some r ∧ r.rect.memb L C = true := by
  unfold cursorSpec at h
  cases hw : t.wins[chainEnd t (treeFuel t) 0]? with
  | none => rw [hw] at h; cases h
  | some w =>
    rw [hw] at h
    simp only [] at h
    split at h
    · next hcond =>
      simp only [Bool.and_eq_true, beq_iff_eq] at hcond
      simp only [Option.some.injEq, Prod.mk.injEq] at h
      obtain ⟨hL, hC, _⟩ := h
      rw [hL, hC] at hcond
      exact owner_in_root hcond.2
    · cases h

theorem bound_id {v hi : Int} (h0 : 0 ≤ v) (h1 : v ≤ hi) : bound v 0 hi = v := by
  unfold bound
  have : ¬ v < 0 := by omega
  simp only [this, if_false]
  have : ¬ v > hi := by omega
  simp only [this, if_false]

/-- What `_do_restore` tells the mock terminal is what the property demands, when the root window sits at the origin
    and fits the terminal. -/
theorem doRestore_spec_mock {t : Tree} (h : wfB t = true) (fx : Fixes)
    (hroot : fx.hiddenRoot = true ∨ rootVisible t = true) {calls : List TermCall}
    (hd : doRestore fx t = .ok calls) {L C : Int} {r : Win} (hr : t.wins[0]? = some r)
    (htop : r.rect.top = 0) (hleft : r.rect.left = 0) (hL : r.rect.lines ≤ L) (hC : r.rect.cols ≤ C) (c0 : TermCursor) :
    (c0.applyAllMock L C calls).matches (cursorSpec t) = true := by
  have hm := doRestore_spec h fx hroot hd c0
  -- a shown cursor is shown where the specification says, and that cell is on the screen
  have key : ∀ (a b s : Int) (c1 : TermCursor), c1.vis = 1 → c1.line = a → c1.col = b → c1.shape = s →
      c1.matches (cursorSpec t) = true →
      ∀ c2 : TermCursor, c2.vis = 1 → c2.line = bound a 0 (L - 1) → c2.col = bound b 0 (C - 1) → c2.shape = s →
      c2.matches (cursorSpec t) = true := by
    intro a b s c1 v1 l1 k1 s1 hm1 c2 v2 l2 k2 s2
    cases hs : cursorSpec t with
    | none => rw [hs] at hm1; simp [TermCursor.matches, v1] at hm1
    | some x =>
      obtain ⟨l, k, s'⟩ := x
      rw [hs] at hm1
      simp only [TermCursor.matches, Bool.and_eq_true, beq_iff_eq] at hm1 ⊢
      obtain ⟨r', hr', hmem⟩ := cursorSpec_in_root hs
      rw [hr] at hr'; cases hr'
      simp only [Rect.memb, Rect.bottom, Rect.right, Bool.and_eq_true] at hmem
      obtain ⟨⟨⟨m1, m2⟩, m3⟩, m4⟩ := hmem
      have m1 := of_decide_eq_true m1
      have m2 := of_decide_eq_true m2
      have m3 := of_decide_eq_true m3
      have m4 := of_decide_eq_true m4
      have ea : a = l := by rw [← l1]; exact hm1.1.1.2
      have eb : b = k := by rw [← k1]; exact hm1.1.2
      have es : s = s' := by rw [← s1]; exact hm1.2
      subst ea; subst eb; subst es
      rw [bound_id (by omega) (by omega)] at l2
      rw [bound_id (by omega) (by omega)] at k2
      exact ⟨⟨⟨v2, l2⟩, k2⟩, s2⟩
  rcases doRestore_shape hd with hc | ⟨a, b, s, hc | ⟨k, hc⟩⟩
  · subst hc; exact hm
  · subst hc
    exact key a b s _ rfl rfl rfl rfl hm _ rfl rfl rfl rfl
  · subst hc
    exact key a b s _ rfl rfl rfl rfl hm _ rfl rfl rfl rfl

theorem applyAllMock_append (L C : Int) (c0 : TermCursor) (a b : List TermCall) :
    c0.applyAllMock L C (a ++ b) = (c0.applyAllMock L C a).applyAllMock L C b := by
  simp [TermCursor.applyAllMock, TermCursor.applyAll, List.foldl_append]

/-- The calls of a flush with work to do: possibly the hiding of the cursor before the exposes, then `_do_restore` on
    the tree the flush leaves. -/
theorem flush_calls (fx : Fixes) {t : Tree} {out : FlushOut} (hf : flush fx t = .ok out)
    (hl : t.root.needsLater = true) (hr : t.root.needsRestore = true ∨ t.root.needsExpose = true) :
    ∃ c1 c2, out.calls = c1 ++ c2 ∧ (c1 = [] ∨ c1 = [.vis 0]) ∧ doRestore fx out.tree = .ok c2 := by
  unfold flush at hf
  simp only [hl, Bool.not_true, Bool.false_eq_true, if_false, bind_ok] at hf
  obtain ⟨t1, h1, hf⟩ := hf
  obtain ⟨a1, a2⟩ := applyChanges_flags _ _ _ h1
  simp only at a1 a2
  have hrest : (flushExpose { t1 with root := { t1.root with changes := [] } }).root.needsRestore = true := by
    unfold flushExpose
    by_cases he : t1.root.needsExpose = true
    · simp [he]
    · rcases hr with hr | hr
      · simp [he, a1, hr]
      · exact absurd (a2 hr) he
  unfold flushRestore at hf
  simp only [hrest, if_true, bind_ok, pure_ok] at hf
  obtain ⟨c2, hc2, hf⟩ := hf
  subst hf
  refine ⟨_, c2, rfl, ?_, hc2⟩
  by_cases he : t1.root.needsExpose = true
  · right; simp [he]
  · left; simp [he]

/-- The calls of any flush: none, or a prefix followed by `_do_restore` on the tree the flush leaves. -/
theorem flush_calls_cases (fx : Fixes) {t : Tree} {out : FlushOut} (hf : flush fx t = .ok out) :
    out.calls = [] ∨ ∃ c1 c2, out.calls = c1 ++ c2 ∧ doRestore fx out.tree = .ok c2 := by
  unfold flush at hf
  split at hf
  · simp only [pure_ok] at hf; subst hf; exact .inl rfl
  · simp only [bind_ok] at hf
    obtain ⟨t1, _, hf⟩ := hf
    unfold flushRestore at hf
    split at hf
    · simp only [bind_ok, pure_ok] at hf
      obtain ⟨c2, hc2, hf⟩ := hf
      subst hf
      exact .inr ⟨_, c2, rfl, hc2⟩
    · next hnr =>
      simp only [pure_ok] at hf
      subst hf
      left
      show (if t1.root.needsExpose then [TermCall.vis 0] else []) = []
      by_cases he : t1.root.needsExpose = true
      · exfalso; apply hnr; unfold flushExpose; simp [he]
      · simp [he]

/-- After a flush that had a restore or an expose pending, the mock terminal reports the cursor the property demands
    of the tree as the flush leaves it. -/
theorem flush_spec_mock (fx : Fixes) {t : Tree} {out : FlushOut} (hf : flush fx t = .ok out)
    (hl : t.root.needsLater = true) (hr : t.root.needsRestore = true ∨ t.root.needsExpose = true)
    (hwf : wfB out.tree = true) (hroot : fx.hiddenRoot = true ∨ rootVisible out.tree = true)
    {L C : Int} {r : Win} (hr0 : out.tree.wins[0]? = some r)
    (htop : r.rect.top = 0) (hleft : r.rect.left = 0) (hL : r.rect.lines ≤ L) (hC : r.rect.cols ≤ C) (c0 : TermCursor) :
    (c0.applyAllMock L C out.calls).matches (cursorSpec out.tree) = true := by
  obtain ⟨c1, c2, hc, _, hd⟩ := flush_calls fx hf hl hr
  rw [hc, applyAllMock_append]
  exact doRestore_spec_mock hwf fx hroot hd hr0 htop hleft hL hC _

end WinFocus
end Tickit
