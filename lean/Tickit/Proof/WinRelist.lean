import Tickit.Proof.WinOrder
/-
  The invariant step of `_do_hierarchy_change` for every kind that re-lists one child `c` of a window `p` (the four
  restacking kinds applied from the queue at the head of `tickit_window_flush`, and the two insertions of
  `tickit_window_new`): the child list of `p` changes only in where (and whether) `c` occurs, so by the locality lemma
  `ownerLoc_localL` the owner of a terminal cell can change only under `c`'s rectangle, which the trailing
  `tickit_window_expose(parent, &win->rect)` records as damage (when `c` is visible; a hidden `c` changes no owner).
-/
namespace Tickit
namespace WinFlush
open WinTree WinRB WinSpec

/-- The invariants of a reachable window store together with "every owned cell is damaged or already right". -/
structure TInv (content : Id → Int → Int → Cell) (screen : Int → Int → Cell) (t : Tree) : Prop where
  ok : TreeOk t
  ord : Ordered t
  pos : RootsPositive t
  nonempty : ∀ x ∈ t.root.damage, x.Nonempty
  dinv : RectSet.Inv t.root.damage
  inv : InvC content t screen

/-- What an operation that only records damage does to the root's bookkeeping: nothing, or both flags raised. -/
def RootStep (t t' : Tree) : Prop :=
  t'.root = t.root ∨ (t'.root.needsExpose = true ∧ t'.root.needsLater = true ∧ t'.root.changes = t.root.changes)

theorem RootStep.refl (t : Tree) : RootStep t t := Or.inl rfl

theorem RootStep.trans {a b c : Tree} (h1 : RootStep a b) (h2 : RootStep b c) : RootStep a c := by
  rcases h2 with h2 | ⟨x, y, z⟩
  · rcases h1 with h1 | ⟨x, y, z⟩
    · exact Or.inl (h2.trans h1)
    · exact Or.inr ⟨by rw [h2]; exact x, by rw [h2]; exact y, by rw [h2]; exact z⟩
  · rcases h1 with h1 | ⟨_, _, z'⟩
    · exact Or.inr ⟨x, y, by rw [z, h1]⟩
    · exact Or.inr ⟨x, y, by rw [z, z']⟩

theorem RootStep.changes {a b : Tree} (h : RootStep a b) : b.root.changes = a.root.changes := by
  rcases h with h | ⟨_, _, z⟩
  · rw [h]
  · exact z

/-- Recorded damage is flagged for the next flush (`needs_expose`, `needs_later_processing`). -/
def Flags (t : Tree) : Prop := t.root.damage ≠ [] → t.root.needsExpose = true ∧ t.root.needsLater = true

theorem RootStep.flags {a b : Tree} (h : RootStep a b) (hf : Flags a) : Flags b := by
  rcases h with h | ⟨x, y, _⟩
  · intro hd; unfold Flags at hf; rw [h] at *; exact hf hd
  · intro _; exact ⟨x, y⟩

theorem RootStep.flagged {a b : Tree} (h : RootStep a b) (hf : a.root.damage ≠ [] → a.root.needsExpose = true) :
    b.root.damage ≠ [] → b.root.needsExpose = true := by
  rcases h with h | ⟨x, _, _⟩
  · intro hd; rw [h] at *; exact hf hd
  · intro _; exact x


/-- The root window is shown (with `TreeOk.rootWin` this is `RootOk`). -/
def RootVisible (t : Tree) : Prop := ∀ w, t.wins[0]? = some w → w.isVisible = true

theorem rootOk_of_visible {t : Tree} (hok : TreeOk t) (hv : RootVisible t) : RootOk t := by
  obtain ⟨w, hw, hf, _, _, htop, hleft⟩ := hok.rootWin.ex
  exact ⟨⟨w, hw, hf, hv w hw, htop, hleft⟩⟩

/-- Under a hidden root window no cell is owned. -/
theorem ownerAt_none_of_hidden (t : Tree) (w : Win) (hw : t.wins[0]? = some w) (hv : w.isVisible = false) (L C : Int) :
    ownerAt t L C = none := by
  unfold ownerAt
  rw [ownerLoc_unfold, hw]
  simp [hv]

theorem invC_of_hidden (content : Id → Int → Int → Cell) (screen : Int → Int → Cell) (t : Tree) (w : Win)
    (hw : t.wins[0]? = some w) (hv : w.isVisible = false) : InvC content t screen := by
  intro L C w' l c ho
  rw [ownerAt_none_of_hidden t w hw hv] at ho
  cases ho

theorem root_vis_cases (t : Tree) (hok : TreeOk t) :
    RootVisible t ∨ ∃ w, t.wins[0]? = some w ∧ w.isVisible = false := by
  obtain ⟨w, hw, _⟩ := hok.rootWin.ex
  cases hv : w.isVisible with
  | true => exact Or.inl (fun w' hw' => by rw [hw] at hw'; cases hw'; exact hv)
  | false => exact Or.inr ⟨w, hw, hv⟩

/-! ### the list surgery -/

theorem listRaise_spec : ∀ (cs : List Id) (c : Id) (cs' : List Id), listRaise cs c = .ok cs' →
    cs'.Perm cs ∧ c ∈ cs ∧ cs'.filter (fun x => decide (x ≠ c)) = cs.filter (fun x => decide (x ≠ c)) := by
  intro cs
  induction cs with
  | nil => intro c cs' h; simp [listRaise] at h
  | cons x rest ih =>
    intro c cs' h
    cases rest with
    | nil =>
      simp only [listRaise] at h
      split at h
      · cases h; rename_i hx; subst hx
        exact ⟨List.Perm.refl _, List.mem_cons_self, rfl⟩
      · cases h
    | cons y rest2 =>
      simp only [listRaise] at h
      split at h
      · cases h; rename_i hx; subst hx
        exact ⟨List.Perm.refl _, List.mem_cons_self, rfl⟩
      · rename_i hx
        split at h
        · cases h; rename_i hy; subst hy
          refine ⟨List.Perm.swap _ _ _, List.mem_cons_of_mem _ List.mem_cons_self, ?_⟩
          simp [List.filter_cons, hx]
        · rename_i hy
          simp only [bind, Bind.bind] at h
          cases hr : listRaise (y :: rest2) c with
          | ub e => rw [hr] at h; cases h
          | ok r =>
            rw [hr] at h
            simp only [pure, Pure.pure] at h
            cases h
            obtain ⟨h1, h2, h3⟩ := ih c r hr
            refine ⟨List.Perm.cons _ h1, List.mem_cons_of_mem _ h2, ?_⟩
            simp only [List.filter_cons, h3]

theorem listLower_spec : ∀ (cs : List Id) (c : Id),
    (listLower cs c).Perm cs ∧
    (listLower cs c).filter (fun x => decide (x ≠ c)) = cs.filter (fun x => decide (x ≠ c)) := by
  intro cs
  induction cs with
  | nil => intro c; exact ⟨List.Perm.refl _, rfl⟩
  | cons x rest ih =>
    intro c
    cases rest with
    | nil => exact ⟨List.Perm.refl _, rfl⟩
    | cons y rest2 =>
      simp only [listLower]
      split
      · rename_i hx; subst hx
        refine ⟨List.Perm.swap _ _ _, ?_⟩
        by_cases hy : y = x
        · subst hy; rfl
        · simp [List.filter_cons, hy]
      · obtain ⟨h1, h2⟩ := ih c
        refine ⟨List.Perm.cons _ h1, ?_⟩
        simp only [List.filter_cons, h2]

theorem listRemove_spec (cs : List Id) (c : Id) (cs' : List Id) (h : listRemove cs c = .ok cs') :
    cs' = cs.erase c ∧ c ∈ cs := by
  unfold listRemove at h
  split at h
  · rename_i hc
    cases h
    exact ⟨rfl, by simpa using hc⟩
  · cases h

theorem filter_ne_self_singleton (c : Id) : [c].filter (fun x => decide (x ≠ c)) = [] := by simp

theorem mem_of_filter_eq {cs cs' : List Id} {c x : Id}
    (h : cs'.filter (fun x => decide (x ≠ c)) = cs.filter (fun x => decide (x ≠ c))) (hx : x ∈ cs') (hxc : x ≠ c) : x ∈ cs := by
  have : x ∈ cs'.filter (fun x => decide (x ≠ c)) := List.mem_filter.2 ⟨hx, by simpa using hxc⟩
  rw [h] at this
  exact (List.mem_filter.1 this).1

/-- A window that names a parent is listed by it (a closed window names none). -/
def ParentListed (t : Tree) : Prop :=
  ∀ (x : Nat) (w : Win) (p : Id), t.wins[x]? = some w → w.parent = some p → ∃ pw, t.wins[p]? = some pw ∧ x ∈ pw.children

/-- The same for every window but `c`. -/
def ParentListedBut (t : Tree) (c : Id) : Prop :=
  ∀ (x : Nat) (w : Win) (p : Id), x ≠ c → t.wins[x]? = some w → w.parent = some p → ∃ pw, t.wins[p]? = some pw ∧ x ∈ pw.children

theorem ParentListed.but {t : Tree} (h : ParentListed t) (c : Id) : ParentListedBut t c :=
  fun x w p _ hw hp => h x w p hw hp

theorem parentListed_congr {t t' : Tree} (h : t'.wins = t.wins) (hp : ParentListed t) : ParentListed t' := by
  intro x w p hw hpar
  rw [h] at hw ⊢
  exact hp x w p hw hpar

theorem parentListed_core {t t' : Tree} (h : ∀ x : Id, (t'.wins[x]?).map core = (t.wins[x]?).map core) (hp : ParentListed t) :
    ParentListed t' := by
  intro x w' p hw' hpar
  obtain ⟨w, hw, hc⟩ := map_core_some (h x).symm hw'
  simp only [core, Prod.mk.injEq] at hc
  obtain ⟨pw, hpw, hmem⟩ := hp x w p hw (by rw [hc.2.2.2.2.1]; exact hpar)
  obtain ⟨pw', hpw', hc'⟩ := map_core_some (h p) hpw
  simp only [core, Prod.mk.injEq] at hc'
  exact ⟨pw', hpw', by rw [hc'.2.2.2.1]; exact hmem⟩

theorem mem_of_filter_eq' {cs cs' : List Id} {c x : Id}
    (h : cs'.filter (fun x => decide (x ≠ c)) = cs.filter (fun x => decide (x ≠ c))) (hx : x ∈ cs) (hxc : x ≠ c) : x ∈ cs' :=
  mem_of_filter_eq h.symm hx hxc

/-- Rectangles and visibilities of the windows there were are kept. -/
def RectsKept (t t' : Tree) : Prop :=
  ∀ (x : Nat) (w : Win), t.wins[x]? = some w → ∃ w', t'.wins[x]? = some w' ∧ w'.rect = w.rect ∧ w'.isVisible = w.isVisible

theorem RectsKept.refl (t : Tree) : RectsKept t t := fun _ w h => ⟨w, h, rfl, rfl⟩

theorem RectsKept.trans {a b c : Tree} (h1 : RectsKept a b) (h2 : RectsKept b c) : RectsKept a c := by
  intro x w hw
  obtain ⟨w1, hw1, r1, v1⟩ := h1 x w hw
  obtain ⟨w2, hw2, r2, v2⟩ := h2 x w1 hw1
  exact ⟨w2, hw2, r2.trans r1, v2.trans v1⟩

theorem rectsKept_congr {t t' : Tree} (h : t'.wins = t.wins) : RectsKept t t' := fun _ w hw => ⟨w, by rw [h]; exact hw, rfl, rfl⟩

theorem rectsKept_relist (t t' : Tree) (p : Id) (pw : Win) (cs : List Id) (hpw : t.wins[p]? = some pw)
    (h : t'.wins = (WinTree.set t p { pw with children := cs }).wins) : RectsKept t t' := by
  intro x w hw
  rw [h]
  by_cases hx : x = p
  · subst hx
    rw [hpw] at hw; cases hw
    exact ⟨_, set_wins_self t x _ _ hpw, rfl, rfl⟩
  · exact ⟨w, by rw [set_wins_other t p x _ hx]; exact hw, rfl, rfl⟩

/-! ### the generic step -/

/-- After `tb` (whose store is `t`'s) the optional expose of `e` in `p` keeps everything but the damage, which grows. -/
theorem expose_after (content : Id → Int → Int → Cell) (screen : Int → Int → Cell) (t tb t' : Tree) (fe : Nat) (p : Id)
    (vis : Bool) (e : Rect)
    (hokb : TreeOk tb) (hordb : Ordered tb) (hposb : RootsPositive tb) (hroot : tb.root = t.root)
    (hne : ∀ x ∈ t.root.damage, x.Nonempty) (hdinv : RectSet.Inv t.root.damage)
    (hinv : InvC content t screen)
    (hlocal : ∀ L C, ownerAt tb L C ≠ ownerAt t L C → vis = true ∧ ExposedRegion tb fe p (some e) L C)
    (h : (if vis then expose tb fe p (some e) else pure tb) = .ok t') :
    TInv content screen t' ∧ RootStep t t' ∧ t'.wins = tb.wins := by
  have finish : ∀ (tc : Tree), tc.wins = tb.wins → (∀ x ∈ tc.root.damage, x.Nonempty) → RectSet.Inv tc.root.damage →
      (∀ L C, Covered t.root.damage L C → Covered tc.root.damage L C) →
      (∀ L C, ownerAt tb L C ≠ ownerAt t L C → Covered tc.root.damage L C) →
      TInv content screen tc := by
    intro tc hcw hcne hcinv hcgrow hccov
    have hcore : ∀ x : Id, (tc.wins[x]?).map core = (tb.wins[x]?).map core := by intro x; rw [hcw]
    refine ⟨treeOk_congr_core hcore hokb, ordered_congr hcw hordb,
      rootsPositive_congr_core hcore hposb, hcne, hcinv, ?_⟩
    intro L C w l c ho
    rw [ownerAt_congr tc tb hcw] at ho
    by_cases heq : ownerAt tb L C = ownerAt t L C
    · rw [heq] at ho
      rcases hinv L C w l c ho with hc | hc
      · exact Or.inl (hcgrow L C hc)
      · exact Or.inr hc
    · exact Or.inl (hccov L C heq)
  cases vis with
  | true =>
    simp only [if_true] at h
    obtain ⟨hwins, hne', hdi, hfl, hcov⟩ := expose_spec _ tb p _ t' h (by rw [hroot]; exact hne) hposb
    refine ⟨finish t' hwins hne' (hdi (by rw [hroot]; exact hdinv))
      (fun L C hc => (hcov L C).2 (Or.inl (by rw [hroot]; exact hc)))
      (fun L C hne'' => (hcov L C).2 (Or.inr (hlocal L C hne'').2)), ?_, hwins⟩
    rcases hfl with rfl | ⟨a, b, c⟩
    · exact Or.inl hroot
    · exact Or.inr ⟨a, b, by rw [c, hroot]⟩
  | false =>
    simp only [Bool.false_eq_true, if_false, pure, Pure.pure] at h
    cases h
    refine ⟨finish tb rfl (by rw [hroot]; exact hne) (by rw [hroot]; exact hdinv)
      (fun L C hc => by rw [hroot]; exact hc)
      (fun L C hne'' => by have := (hlocal L C hne'').1; cases this), Or.inl hroot, rfl⟩

/-- **The step of a re-listing `_do_hierarchy_change`**: the child list of `p` is replaced by `cs`, which differs from it
    only in the occurrences of `c`; then `c`'s rectangle is exposed in `p` when `c` is visible. -/
theorem relist_step (content : Id → Int → Int → Cell) (screen : Int → Int → Cell) (t t' : Tree) (p c : Id) (pw w0 : Win)
    (cs : List Id) (fe : Nat) (hI : TInv content screen t) (hfe : t.wins.size ≤ fe)
    (hpw : t.wins[p]? = some pw) (hw0 : t.wins[c]? = some w0) (hpc : p ≠ c) (hc0 : c ≠ 0)
    (honly : ∀ (x : Id) (w : Win), x ≠ p → x ≠ c → t.wins[x]? = some w → c ∉ w.children)
    (hfilter : cs.filter (fun x => decide (x ≠ c)) = pw.children.filter (fun x => decide (x ≠ c)))
    (hnodup : cs.Nodup)
    (hcin : c ∈ cs → w0.parent = some p ∧ w0.isRoot = false ∧ @LT.lt Nat _ p c)
    (h : (if w0.isVisible then expose (WinTree.set t p { pw with children := cs }) fe p (some w0.rect)
          else pure (WinTree.set t p { pw with children := cs })) = .ok t') :
    TInv content screen t' ∧ RootStep t t' ∧ t'.wins = (WinTree.set t p { pw with children := cs }).wins ∧
      (ParentListedBut t c → (∀ q, w0.parent = some q → q = p ∧ c ∈ cs) → ParentListed t') := by
  generalize hpw' : ({ pw with children := cs } : Win) = pw' at h ⊢
  generalize htb : WinTree.set t p pw' = tb at h ⊢
  have hpw'_f : pw'.isVisible = pw.isVisible ∧ pw'.freed = pw.freed ∧ pw'.rect = pw.rect ∧ pw'.parent = pw.parent ∧
      pw'.isRoot = pw.isRoot ∧ pw'.children = cs := by
    rw [← hpw']; exact ⟨rfl, rfl, rfl, rfl, rfl, rfl⟩
  have hb_p : tb.wins[p]? = some pw' := by rw [← htb]; exact set_wins_self t p pw _ hpw
  have hb_other : ∀ x : Id, x ≠ p → tb.wins[x]? = t.wins[x]? := by
    intro x hxp; rw [← htb, set_wins_other t p x _ hxp]
  have hb_c : tb.wins[c]? = some w0 := by rw [hb_other c (Ne.symm hpc)]; exact hw0
  have hb_size : tb.wins.size = t.wins.size := by rw [← htb, set_size]
  have hb_root : tb.root = t.root := by rw [← htb]; rfl
  have hok := hI.ok
  -- (1) the locality hypothesis
  have hsbl : SameButL t tb p c :=
    { other := fun x hxp _ => by rw [hb_other x hxp]
      parNone := fun hn => by rw [hpw] at hn; cases hn
      par := fun pw2 hpw2 => by
        rw [hpw] at hpw2; cases hpw2
        exact ⟨pw', hb_p, hpw'_f.1, hpw'_f.2.1, hpw'_f.2.2.1, by rw [hpw'_f.2.2.2.2.2]; exact hfilter⟩
      size := hb_size
      only := honly }
  -- (2) every window of `tb` against the window of `t`
  have hrel : ∀ (x : Id) (wb : Win), tb.wins[x]? = some wb → ∃ w, t.wins[x]? = some w ∧ wb.isRoot = w.isRoot ∧
      wb.parent = w.parent ∧ wb.freed = w.freed ∧ wb.rect = w.rect ∧ wb.isVisible = w.isVisible ∧
      (x ≠ p → wb.children = w.children) ∧ (x = p → wb.children = cs ∧ w = pw) := by
    intro x wb hwb
    by_cases hxp : x = p
    · subst hxp
      rw [hb_p] at hwb; cases hwb
      exact ⟨pw, hpw, hpw'_f.2.2.2.2.1, hpw'_f.2.2.2.1, hpw'_f.2.1, hpw'_f.2.2.1, hpw'_f.1, fun hx => absurd rfl hx,
        fun _ => ⟨hpw'_f.2.2.2.2.2, rfl⟩⟩
    · rw [hb_other x hxp] at hwb
      exact ⟨wb, hwb, rfl, rfl, rfl, rfl, rfl, fun _ => rfl, fun hx => absurd hx hxp⟩
  have hrel' : ∀ (x : Id) (w : Win), t.wins[x]? = some w → ∃ wb, tb.wins[x]? = some wb := by
    intro x w hw
    by_cases hxp : x = p
    · exact ⟨_, by rw [hxp]; exact hb_p⟩
    · exact ⟨w, by rw [hb_other x hxp]; exact hw⟩
  -- a child of `tb` is a child in `t`, or it is `c` listed by `p`
  have hchild : ∀ (x : Id) (wb : Win), tb.wins[x]? = some wb → ∀ ch ∈ wb.children,
      (∃ w, t.wins[x]? = some w ∧ ch ∈ w.children) ∨ (x = p ∧ ch = c ∧ c ∈ cs) := by
    intro x wb hwb ch hch
    obtain ⟨w, hw, _, _, _, _, _, hc1, hc2⟩ := hrel x wb hwb
    by_cases hxp : x = p
    · obtain ⟨hcs, hwp⟩ := hc2 hxp
      rw [hcs] at hch
      by_cases hcc : ch = c
      · exact Or.inr ⟨hxp, hcc, by rw [← hcc]; exact hch⟩
      · subst hwp
        exact Or.inl ⟨w, hw, mem_of_filter_eq hfilter hch hcc⟩
    · rw [hc1 hxp] at hch
      exact Or.inl ⟨w, hw, hch⟩
  have hokb : TreeOk tb := by
    refine ⟨⟨?_⟩, ?_, ?_, ?_, ?_⟩
    · intro cur wb hwb ch hch
      rcases hchild cur wb hwb ch hch with ⟨w, hw, hmem⟩ | ⟨hxp, hcc, hcm⟩
      · obtain ⟨cw, hcw, hcpar, hcr⟩ := hok.wf.child cur w hw ch hmem
        obtain ⟨cwb, hcwb⟩ := hrel' ch cw hcw
        obtain ⟨cw2, hcw2, hr2, hp2, _⟩ := hrel ch cwb hcwb
        rw [hcw] at hcw2; cases hcw2
        exact ⟨cwb, hcwb, by rw [hp2]; exact hcpar, by rw [hr2]; exact hcr⟩
      · subst hcc hxp
        obtain ⟨h1, h2, _⟩ := hcin hcm
        exact ⟨w0, hb_c, h1, h2⟩
    · intro cur wb hwb
      obtain ⟨w, hw, _, _, _, _, _, hc1, hc2⟩ := hrel cur wb hwb
      by_cases hcp : cur = p
      · rw [(hc2 hcp).1]; exact hnodup
      · rw [hc1 hcp]; exact hok.nodup cur w hw
    · intro x wb hwb
      obtain ⟨w, hw, _, hp1, _⟩ := hrel x wb hwb
      rw [hp1]; exact hok.noSelf x w hw
    · intro x wb hwb hr
      obtain ⟨w, hw, hr1, _⟩ := hrel x wb hwb
      exact hok.onlyRoot x w hw (by rw [← hr1]; exact hr)
    · obtain ⟨w, hw, hf, hroot, hpar, htop, hleft⟩ := hok.rootWin.ex
      obtain ⟨wb, hwb⟩ := hrel' 0 w hw
      obtain ⟨w2, hw2, hr2, hp2, hf2, hrect2, _⟩ := hrel 0 wb hwb
      rw [hw] at hw2; cases hw2
      exact ⟨⟨wb, hwb, by rw [hf2]; exact hf, by rw [hr2]; exact hroot, by rw [hp2]; exact hpar,
        by rw [hrect2]; exact htop, by rw [hrect2]; exact hleft⟩⟩
  have hordb : Ordered tb := by
    intro x wb hwb ch hch
    rcases hchild x wb hwb ch hch with ⟨w, hw, hmem⟩ | ⟨hxp, hcc, hcm⟩
    · exact hI.ord x w hw ch hmem
    · subst hcc hxp
      exact (hcin hcm).2.2
  have hposb : RootsPositive tb := by
    intro x wb hwb hr
    obtain ⟨w, hw, hr1, _, _, hrect, _⟩ := hrel x wb hwb
    rw [hrect]; exact hI.pos x w hw (by rw [← hr1]; exact hr)
  -- (3) owner changes only under `c`'s rectangle, which the expose covers
  have hlocal : ∀ L C, ownerAt tb L C ≠ ownerAt t L C → w0.isVisible = true ∧
      ExposedRegion tb fe p (some w0.rect) L C := by
    intro L C hne'
    rw [← ownerAt_fuel tb hordb fe (by rw [hb_size]; exact hfe), ← ownerAt_fuel t hI.ord fe hfe] at hne'
    have hu := ownerLoc_localL hsbl hpc fe 0 L C (Ne.symm hc0) hne'
    obtain ⟨rw1, hrw1, hrf1, hrr1, hrp1, hrt1, hrl1⟩ := hokb.rootWin.ex
    obtain ⟨x, y, k', hP, hk, hex⟩ := under_ctxL tb hokb.wf p _ fe 0 L C 0 L C rw1 hrw1
      (by rw [hrr1, hrp1]; rfl) (fun _ => ⟨hrt1, hrl1⟩) (by rw [hrp1]; exact ⟨rfl, rfl⟩) hu
    have hvis : w0.isVisible = true ∧ w0.rect.memb x y = true := by
      rcases hP with ⟨cw, hcw, hv, _, hm⟩ | ⟨cw, hcw, hv, _, hm⟩
      · rw [hw0] at hcw; cases hcw; exact ⟨hv, hm⟩
      · rw [hb_c] at hcw; cases hcw; exact ⟨hv, hm⟩
    exact ⟨hvis.1, x, y, fun r hr' => by cases hr'; exact (memb_true_iff _ _ _).1 hvis.2,
      exposedAt_mono_le tb (by omega) hex⟩
  obtain ⟨r1, r2, r3⟩ := expose_after content screen t tb t' fe p w0.isVisible w0.rect hokb hordb hposb hb_root
    hI.nonempty hI.dinv hI.inv hlocal h
  refine ⟨r1, r2, r3, fun hpl hcq => parentListed_congr r3 ?_⟩
  intro x wb q hwb hq
  obtain ⟨w, hw, _, hp2, _, _, _, _, hxp⟩ := hrel x wb hwb
  rw [hp2] at hq
  by_cases hxc : x = c
  · subst hxc
    rw [hw0] at hw; cases hw
    obtain ⟨hqp, hcm⟩ := hcq q hq
    subst hqp
    exact ⟨pw', hb_p, by rw [hpw'_f.2.2.2.2.2]; exact hcm⟩
  · obtain ⟨qw, hqw, hmem⟩ := hpl x w q hxc hw hq
    by_cases hqp : q = p
    · subst hqp
      rw [hpw] at hqw; cases hqw
      exact ⟨pw', hb_p, by rw [hpw'_f.2.2.2.2.2]; exact mem_of_filter_eq' hfilter hmem hxc⟩
    · exact ⟨qw, by rw [hb_other q hqp]; exact hqw, hmem⟩

/-- The same step for any tree `tb` that differs from `t` in the child list of `p` (re-listing `c`) and possibly in the
    parent pointer of `c` (cleared: `_do_hierarchy_change(REMOVE)` of `tickit_window_close`); nothing is assumed of the
    root window's visibility. -/
theorem relist_gen (content : Id → Int → Int → Cell) (screen : Int → Int → Cell) (t tb t' : Tree) (p c : Id)
    (pw pw' w0 w0' : Win) (cs : List Id) (fe : Nat) (hI : TInv content screen t) (hfe : t.wins.size ≤ fe)
    (hpw : t.wins[p]? = some pw) (hw0 : t.wins[c]? = some w0) (hpc : p ≠ c) (hc0 : c ≠ 0)
    (honly : ∀ (x : Id) (w : Win), x ≠ p → x ≠ c → t.wins[x]? = some w → c ∉ w.children)
    (hfilter : cs.filter (fun x => decide (x ≠ c)) = pw.children.filter (fun x => decide (x ≠ c)))
    (hnodup : cs.Nodup)
    (hb_p : tb.wins[p]? = some pw')
    (hpw'_f : pw'.isVisible = pw.isVisible ∧ pw'.freed = pw.freed ∧ pw'.rect = pw.rect ∧ pw'.parent = pw.parent ∧
      pw'.isRoot = pw.isRoot ∧ pw'.children = cs)
    (hb_c : tb.wins[c]? = some w0')
    (hw0'_f : w0'.isVisible = w0.isVisible ∧ w0'.freed = w0.freed ∧ w0'.rect = w0.rect ∧ w0'.isRoot = w0.isRoot ∧
      w0'.children = w0.children ∧ (w0'.parent = w0.parent ∨ w0'.parent = none))
    (hb_other : ∀ x : Id, x ≠ p → x ≠ c → tb.wins[x]? = t.wins[x]?)
    (hb_size : tb.wins.size = t.wins.size) (hb_root : tb.root = t.root)
    (hcin : c ∈ cs → w0'.parent = some p ∧ w0'.isRoot = false ∧ @LT.lt Nat _ p c)
    (h : (if w0.isVisible then expose tb fe p (some w0.rect) else pure tb) = .ok t') :
    TInv content screen t' ∧ RootStep t t' ∧ t'.wins = tb.wins ∧
      (ParentListedBut t c → (∀ q, w0'.parent = some q → q = p ∧ c ∈ cs) → ParentListed t') := by
  have hok := hI.ok
  have hsbl : SameButL t tb p c :=
    { other := fun x hxp hxc => by rw [hb_other x hxp hxc]
      parNone := fun hn => by rw [hpw] at hn; cases hn
      par := fun pw2 hpw2 => by
        rw [hpw] at hpw2; cases hpw2
        exact ⟨pw', hb_p, hpw'_f.1, hpw'_f.2.1, hpw'_f.2.2.1, by rw [hpw'_f.2.2.2.2.2]; exact hfilter⟩
      size := hb_size
      only := honly }
  -- every window of `tb` against the window of `t`
  have hrel : ∀ (x : Id) (wb : Win), tb.wins[x]? = some wb → ∃ w, t.wins[x]? = some w ∧ wb.isRoot = w.isRoot ∧
      (wb.parent = w.parent ∨ (x = c ∧ wb.parent = none)) ∧ wb.freed = w.freed ∧ wb.rect = w.rect ∧
      wb.isVisible = w.isVisible ∧ (x ≠ p → wb.children = w.children) ∧ (x = p → wb.children = cs ∧ w = pw) := by
    intro x wb hwb
    by_cases hxp : x = p
    · subst hxp
      rw [hb_p] at hwb; cases hwb
      exact ⟨pw, hpw, hpw'_f.2.2.2.2.1, Or.inl hpw'_f.2.2.2.1, hpw'_f.2.1, hpw'_f.2.2.1, hpw'_f.1, fun hx => absurd rfl hx,
        fun _ => ⟨hpw'_f.2.2.2.2.2, rfl⟩⟩
    · by_cases hxc : x = c
      · subst hxc
        rw [hb_c] at hwb; cases hwb
        refine ⟨w0, hw0, hw0'_f.2.2.2.1, ?_, hw0'_f.2.1, hw0'_f.2.2.1, hw0'_f.1, fun _ => hw0'_f.2.2.2.2.1, fun hx => absurd hx hxp⟩
        rcases hw0'_f.2.2.2.2.2 with h1 | h1
        · exact Or.inl h1
        · exact Or.inr ⟨rfl, h1⟩
      · rw [hb_other x hxp hxc] at hwb
        exact ⟨wb, hwb, rfl, Or.inl rfl, rfl, rfl, rfl, fun _ => rfl, fun hx => absurd hx hxp⟩
  have hrel' : ∀ (x : Id) (w : Win), t.wins[x]? = some w → ∃ wb, tb.wins[x]? = some wb := by
    intro x w hw
    by_cases hxp : x = p
    · exact ⟨_, by rw [hxp]; exact hb_p⟩
    · by_cases hxc : x = c
      · exact ⟨_, by rw [hxc]; exact hb_c⟩
      · exact ⟨w, by rw [hb_other x hxp hxc]; exact hw⟩
  -- a child of `tb` is a child in `t` other than `c`, or it is `c` listed by `p`
  have hchild : ∀ (x : Id) (wb : Win), tb.wins[x]? = some wb → ∀ ch ∈ wb.children,
      (∃ w, t.wins[x]? = some w ∧ ch ∈ w.children ∧ ch ≠ c) ∨ (x = p ∧ ch = c ∧ c ∈ cs) := by
    intro x wb hwb ch hch
    obtain ⟨w, hw, _, _, _, _, _, hc1, hc2⟩ := hrel x wb hwb
    by_cases hxp : x = p
    · obtain ⟨hcs, hwp⟩ := hc2 hxp
      rw [hcs] at hch
      by_cases hcc : ch = c
      · exact Or.inr ⟨hxp, hcc, by rw [← hcc]; exact hch⟩
      · subst hwp
        exact Or.inl ⟨w, hw, mem_of_filter_eq hfilter hch hcc, hcc⟩
    · rw [hc1 hxp] at hch
      refine Or.inl ⟨w, hw, hch, fun hcc => ?_⟩
      subst hcc
      by_cases hxc : x = ch
      · subst hxc
        obtain ⟨cw, hcw, hcp, _⟩ := hok.wf.child x w hw x hch
        exact hok.noSelf x cw hcw hcp
      · exact honly x w hxp hxc hw hch
  have hokb : TreeOk tb := by
    refine ⟨⟨?_⟩, ?_, ?_, ?_, ?_⟩
    · intro cur wb hwb ch hch
      rcases hchild cur wb hwb ch hch with ⟨w, hw, hmem, hne⟩ | ⟨hxp, hcc, hcm⟩
      · obtain ⟨cw, hcw, hcpar, hcr⟩ := hok.wf.child cur w hw ch hmem
        obtain ⟨cwb, hcwb⟩ := hrel' ch cw hcw
        obtain ⟨cw2, hcw2, hr2, hp2, _⟩ := hrel ch cwb hcwb
        rw [hcw] at hcw2; cases hcw2
        rcases hp2 with hp2 | ⟨hx, _⟩
        · exact ⟨cwb, hcwb, by rw [hp2]; exact hcpar, by rw [hr2]; exact hcr⟩
        · exact absurd hx hne
      · subst hcc hxp
        obtain ⟨h1, h2, _⟩ := hcin hcm
        exact ⟨w0', hb_c, h1, h2⟩
    · intro cur wb hwb
      obtain ⟨w, hw, _, _, _, _, _, hc1, hc2⟩ := hrel cur wb hwb
      by_cases hcp : cur = p
      · rw [(hc2 hcp).1]; exact hnodup
      · rw [hc1 hcp]; exact hok.nodup cur w hw
    · intro x wb hwb
      obtain ⟨w, hw, _, hp1, _⟩ := hrel x wb hwb
      rcases hp1 with hp1 | ⟨_, hp1⟩
      · rw [hp1]; exact hok.noSelf x w hw
      · rw [hp1]; exact fun hx => by cases hx
    · intro x wb hwb hr
      obtain ⟨w, hw, hr1, _⟩ := hrel x wb hwb
      exact hok.onlyRoot x w hw (by rw [← hr1]; exact hr)
    · obtain ⟨w, hw, hf, hroot, hpar, htop, hleft⟩ := hok.rootWin.ex
      obtain ⟨wb, hwb⟩ := hrel' 0 w hw
      obtain ⟨w2, hw2, hr2, hp2, hf2, hrect2, _⟩ := hrel 0 wb hwb
      rw [hw] at hw2; cases hw2
      refine ⟨⟨wb, hwb, by rw [hf2]; exact hf, by rw [hr2]; exact hroot, ?_, by rw [hrect2]; exact htop, by rw [hrect2]; exact hleft⟩⟩
      rcases hp2 with hp2 | ⟨_, hp2⟩
      · rw [hp2]; exact hpar
      · exact hp2
  have hordb : Ordered tb := by
    intro x wb hwb ch hch
    rcases hchild x wb hwb ch hch with ⟨w, hw, hmem, _⟩ | ⟨hxp, hcc, hcm⟩
    · exact hI.ord x w hw ch hmem
    · subst hcc hxp
      exact (hcin hcm).2.2
  have hposb : RootsPositive tb := by
    intro x wb hwb hr
    obtain ⟨w, hw, hr1, _, _, hrect, _⟩ := hrel x wb hwb
    rw [hrect]; exact hI.pos x w hw (by rw [← hr1]; exact hr)
  -- owner changes only under `c`'s rectangle, which the expose covers
  have hlocal : ∀ L C, ownerAt tb L C ≠ ownerAt t L C → w0.isVisible = true ∧
      ExposedRegion tb fe p (some w0.rect) L C := by
    intro L C hne'
    rw [← ownerAt_fuel tb hordb fe (by rw [hb_size]; exact hfe), ← ownerAt_fuel t hI.ord fe hfe] at hne'
    have hu := ownerLoc_localL hsbl hpc fe 0 L C (Ne.symm hc0) hne'
    obtain ⟨rw1, hrw1, hrf1, hrr1, hrp1, hrt1, hrl1⟩ := hokb.rootWin.ex
    obtain ⟨x, y, k', hP, hk, hex⟩ := under_ctxL tb hokb.wf p _ fe 0 L C 0 L C rw1 hrw1
      (by rw [hrr1, hrp1]; rfl) (fun _ => ⟨hrt1, hrl1⟩) (by rw [hrp1]; exact ⟨rfl, rfl⟩) hu
    have hvis : w0.isVisible = true ∧ w0.rect.memb x y = true := by
      rcases hP with ⟨cw, hcw, hv, _, hm⟩ | ⟨cw, hcw, hv, _, hm⟩
      · rw [hw0] at hcw; cases hcw; exact ⟨hv, hm⟩
      · rw [hb_c] at hcw; cases hcw
        exact ⟨by rw [← hw0'_f.1]; exact hv, by rw [← hw0'_f.2.2.1]; exact hm⟩
    exact ⟨hvis.1, x, y, fun r hr' => by cases hr'; exact (memb_true_iff _ _ _).1 hvis.2,
      exposedAt_mono_le tb (by omega) hex⟩
  obtain ⟨r1, r2, r3⟩ := expose_after content screen t tb t' fe p w0.isVisible w0.rect hokb hordb hposb hb_root
    hI.nonempty hI.dinv hI.inv hlocal h
  refine ⟨r1, r2, r3, fun hpl hcq => parentListed_congr r3 ?_⟩
  intro x wb q hwb hq
  by_cases hxc : x = c
  · subst hxc
    rw [hb_c] at hwb; cases hwb
    obtain ⟨hqp, hcm⟩ := hcq q hq
    subst hqp
    exact ⟨pw', hb_p, by rw [hpw'_f.2.2.2.2.2]; exact hcm⟩
  · obtain ⟨w, hw, _, hp2, _⟩ := hrel x wb hwb
    rcases hp2 with hp2 | ⟨hx, _⟩
    · rw [hp2] at hq
      obtain ⟨qw, hqw, hmem⟩ := hpl x w q hxc hw hq
      by_cases hqp : q = p
      · subst hqp
        rw [hpw] at hqw; cases hqw
        exact ⟨pw', hb_p, by rw [hpw'_f.2.2.2.2.2]; exact mem_of_filter_eq' hfilter hmem hxc⟩
      · by_cases hqc : q = c
        · subst hqc
          rw [hw0] at hqw; cases hqw
          exact ⟨w0', hb_c, by rw [hw0'_f.2.2.2.2.1]; exact hmem⟩
        · exact ⟨qw, by rw [hb_other q hqp hqc]; exact hqw, hmem⟩
    · exact absurd hx hxc

/-! ### the restacking kinds (applied from the queue at the head of `tickit_window_flush`) -/

/-- The kinds `_request_hierarchy_change` queues. -/
def isRestack : Change → Bool
  | .raise => true
  | .raiseFront => true
  | .lower => true
  | .lowerBack => true
  | _ => false

theorem listLower_not_mem : ∀ (cs : List Id) (c : Id), c ∉ cs → listLower cs c = cs := by
  intro cs
  induction cs with
  | nil => intro c _; rfl
  | cons x rest ih =>
    intro c hc
    cases rest with
    | nil => rfl
    | cons y rest2 =>
      simp only [listLower]
      have hx : x ≠ c := fun hx => hc (by rw [hx]; exact List.mem_cons_self)
      rw [if_neg hx, ih c (fun hm => hc (List.mem_cons_of_mem _ hm))]

/-- A store that reads the same window for window is as good. -/
theorem tinv_pointwise (content : Id → Int → Int → Cell) (screen : Int → Int → Cell) (t tb : Tree)
    (hw : ∀ x : Id, tb.wins[x]? = t.wins[x]?) (hs : tb.wins.size = t.wins.size) (hI : TInv content screen t) :
    TreeOk tb ∧ Ordered tb ∧ RootsPositive tb ∧ ∀ L C, ownerAt tb L C = ownerAt t L C := by
  have hcore : ∀ x : Id, (tb.wins[x]?).map core = (t.wins[x]?).map core := by intro x; rw [hw x]
  refine ⟨treeOk_congr_core hcore hI.ok, ?_, rootsPositive_congr_core hcore hI.pos,
    fun L C => ownerAt_congr_view (fun x => by rw [hw x]) hs L C⟩
  intro x w hwx; rw [hw x] at hwx; exact hI.ord x w hwx

theorem restack_step (content : Id → Int → Int → Cell) (screen : Int → Int → Cell) (t t' : Tree) (ch : Change) (p c : Id)
    (hch : isRestack ch = true) (hI : TInv content screen t)
    (h : doHierarchyChange t (t.wins.size + 1) ch p c = .ok t') :
    TInv content screen t' ∧ RootStep t t' ∧ t'.wins.size = t.wins.size ∧ (ParentListed t → ParentListed t') ∧
      RectsKept t t' := by
  unfold doHierarchyChange at h
  simp only [bind, Bind.bind] at h
  cases hgp : WinTree.get t p with
  | ub e => rw [hgp] at h; cases h
  | ok pw =>
    rw [hgp] at h
    have hpw := get_ok hgp
    simp only at h
    cases hgc : WinTree.get t c with
    | ub e => rw [hgc] at h; cases h
    | ok w0 =>
      rw [hgc] at h
      have hw0 := get_ok hgc
      simp only at h
      have hok := hI.ok
      -- the common part: `c` is a child of `p` and the new list is a permutation that keeps the others in order
      have common : c ∈ pw.children → ∀ cs : List Id, cs.Perm pw.children →
          cs.filter (fun x => decide (x ≠ c)) = pw.children.filter (fun x => decide (x ≠ c)) →
          (if w0.isVisible then expose (WinTree.set t p { pw with children := cs }) (t.wins.size + 1) p (some w0.rect)
            else pure (WinTree.set t p { pw with children := cs })) = .ok t' →
          TInv content screen t' ∧ RootStep t t' ∧ t'.wins.size = t.wins.size ∧ (ParentListed t → ParentListed t') ∧
            RectsKept t t' := by
        intro hmem cs hperm hfilter hh
        obtain ⟨cw, hcw, hcpar, hcr⟩ := hok.wf.child p pw hpw.1 c hmem
        rw [hw0.1] at hcw; cases hcw
        have hpc : p ≠ c := by
          intro hx
          exact hok.noSelf c w0 hw0.1 (by rw [hcpar, hx])
        have hc0 : c ≠ 0 := by
          intro hx
          obtain ⟨rw0, hrw0, _, hrr, _⟩ := hok.rootWin.ex
          rw [hx] at hw0
          rw [hw0.1] at hrw0; cases hrw0
          rw [hcr] at hrr; cases hrr
        have honly : ∀ (x : Id) (w : Win), x ≠ p → x ≠ c → t.wins[x]? = some w → c ∉ w.children := by
          intro x w hx _ hw hm
          obtain ⟨cw, hcw, hcp, _⟩ := hok.wf.child x w hw c hm
          rw [hw0.1] at hcw; cases hcw
          rw [hcpar] at hcp
          exact hx (Option.some.inj hcp).symm
        obtain ⟨h1, h2, h3, h4⟩ := relist_step content screen t t' p c pw w0 cs (t.wins.size + 1) hI (by omega) hpw.1 hw0.1
          hpc hc0 honly hfilter ((List.Perm.nodup_iff hperm).2 (hok.nodup p pw hpw.1))
          (fun _ => ⟨hcpar, hcr, hI.ord p pw hpw.1 c hmem⟩) hh
        exact ⟨h1, h2, by rw [h3, set_size], fun hpl => h4 (hpl.but c) (fun q hq => by
          rw [hcpar] at hq
          exact ⟨(Option.some.inj hq).symm, (List.Perm.mem_iff hperm).2 hmem⟩), rectsKept_relist t t' p pw cs hpw.1 h3⟩
      cases ch with
      | insertFirst => cases hch
      | insertLast => cases hch
      | remove => cases hch
      | raise =>
        simp only at h
        cases hlr : listRaise pw.children c with
        | ub e => rw [hlr] at h; cases h
        | ok cs =>
          rw [hlr] at h
          simp only [pure, Pure.pure] at h
          obtain ⟨h1, h2, h3⟩ := listRaise_spec _ _ _ hlr
          exact common h2 cs h1 h3 h
      | raiseFront =>
        simp only at h
        cases hlr : listRemove pw.children c with
        | ub e => rw [hlr] at h; cases h
        | ok cs =>
          rw [hlr] at h
          simp only [pure, Pure.pure] at h
          obtain ⟨h1, h2⟩ := listRemove_spec _ _ _ hlr
          subst h1
          refine common h2 _ (List.perm_cons_erase h2).symm ?_ h
          simp only [List.filter_cons, ne_eq, not_true_eq_false, decide_false, Bool.false_eq_true, if_false]
          exact erase_filter_ne c _
      | lower =>
        simp only [pure, Pure.pure] at h
        by_cases hmem : c ∈ pw.children
        · obtain ⟨h1, h3⟩ := listLower_spec pw.children c
          exact common hmem _ h1 h3 h
        · rw [listLower_not_mem _ _ hmem] at h
          generalize htb : WinTree.set t p { pw with children := pw.children } = tb at h
          have hwb : ∀ x : Id, tb.wins[x]? = t.wins[x]? := by
            intro x
            by_cases hx : x = p
            · subst hx
              rw [← htb, set_wins_self t x pw _ hpw.1, hpw.1]
            · rw [← htb, set_wins_other t p x _ hx]
          have hsz : tb.wins.size = t.wins.size := by rw [← htb, set_size]
          obtain ⟨a1, a2, a4, a5⟩ := tinv_pointwise content screen t tb hwb hsz hI
          obtain ⟨b1, b2, b3⟩ := expose_after content screen t tb t' (t.wins.size + 1) p w0.isVisible w0.rect a1 a2 a4
            (by rw [← htb]; rfl) hI.nonempty hI.dinv hI.inv (fun L C hne => absurd (a5 L C) hne) h
          exact ⟨b1, b2, by rw [b3, hsz], fun hpl => parentListed_congr b3 (by
            intro x w q hw hq
            rw [hwb x] at hw
            obtain ⟨qw, hqw, hm⟩ := hpl x w q hw hq
            exact ⟨qw, by rw [hwb q]; exact hqw, hm⟩), fun x w hw => ⟨w, by rw [b3, hwb x]; exact hw, rfl, rfl⟩⟩
      | lowerBack =>
        simp only at h
        cases hlr : listRemove pw.children c with
        | ub e => rw [hlr] at h; cases h
        | ok cs =>
          rw [hlr] at h
          simp only [pure, Pure.pure] at h
          obtain ⟨h1, h2⟩ := listRemove_spec _ _ _ hlr
          subst h1
          refine common h2 _ ?_ ?_ h
          · exact (List.perm_append_comm.trans (List.perm_cons_erase h2).symm)
          · rw [List.filter_append, erase_filter_ne]
            simp

/-- **The queue loop at the head of `tickit_window_flush`**: applying the queued restacking requests one by one keeps the
    invariants and "damaged or already right". -/
theorem applyChanges_step (content : Id → Int → Int → Cell) (screen : Int → Int → Cell) :
    ∀ (q : List Req) (t t' : Tree), (∀ r ∈ q, isRestack r.change = true) → TInv content screen t →
    applyChanges (t.wins.size + 1) t q = .ok t' →
    TInv content screen t' ∧ RootStep t t' ∧ t'.wins.size = t.wins.size ∧ (ParentListed t → ParentListed t') ∧
      RectsKept t t' := by
  intro q
  induction q with
  | nil =>
    intro t t' _ hI h
    simp only [applyChanges] at h
    cases h
    exact ⟨hI, RootStep.refl t, rfl, fun h => h, RectsKept.refl t⟩
  | cons r rest ih =>
    intro t t' hk hI h
    simp only [applyChanges, bind, Bind.bind] at h
    cases h1 : doHierarchyChange t (t.wins.size + 1) r.change r.parent r.win with
    | ub e => rw [h1] at h; cases h
    | ok t1 =>
      rw [h1] at h
      simp only at h
      obtain ⟨a1, a2, a3, a4, a5⟩ := restack_step content screen t t1 r.change r.parent r.win (hk r List.mem_cons_self) hI h1
      rw [← a3] at h
      obtain ⟨b1, b2, b3, b4, b5⟩ := ih t1 t' (fun x hx => hk x (List.mem_cons_of_mem _ hx)) a1 h
      exact ⟨b1, a2.trans b2, by rw [b3, a3], fun hpl => b4 (a4 hpl), a5.trans b5⟩

end WinFlush
end Tickit
