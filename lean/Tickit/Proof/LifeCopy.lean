import Tickit.Model.LifeRB
/-
  C08, copy-out calls: every store of `get_span_text` (after the repair), `tickit_utf8_put` and the common tail
  lands inside the caller's buffer; `tickit_mockterm_get_display_text` stays within `len + 1` bytes.
-/
namespace Tickit.Life

/-- Every store is below `len`. -/
def CopyOut.Bounded (c : CopyOut) (len : Nat) : Prop := ∀ p ∈ c.stores, p.1 < len

theorem mem_storesAt {s : Nat} {bs : List UInt8} {p : Nat × UInt8} (h : p ∈ storesAt s bs) :
    s ≤ p.1 ∧ p.1 < s + bs.length := by
  unfold storesAt at h
  simp only [List.mem_map] at h
  obtain ⟨⟨i, b⟩, hz, rfl⟩ := h
  have hi := (List.of_mem_zip hz).1
  simp only [List.mem_range] at hi
  constructor <;> simp <;> omega

theorem seqlen_pos (cp : Nat) : 1 ≤ seqlen cp := by
  unfold seqlen; (repeat' split) <;> omega

theorem utf8Bytes_length (cp : Nat) : (utf8Bytes cp).length = seqlen cp := by
  have := seqlen_pos cp
  unfold utf8Bytes
  simp only [List.length_cons, List.length_map, List.length_reverse, List.length_range]
  omega

theorem bounded_nil (ret : Int) (len : Nat) : (CopyOut.mk ret []).Bounded len := by
  intro p hp; simp at hp

theorem bounded_utf8Put (hasBuf : Bool) (len cp : Nat) : (utf8Put hasBuf len cp).Bounded len := by
  unfold utf8Put
  by_cases hb : hasBuf = true
  · simp only [hb, Bool.not_true, Bool.false_eq_true, if_false]
    by_cases hl : len < seqlen cp
    · simp only [hl, if_true]; exact bounded_nil _ _
    · simp only [hl, if_false]
      intro p hp
      simp only [List.mem_append, List.mem_filter, List.mem_reverse] at hp
      have hm : p ∈ storesAt 0 (utf8Bytes cp) := by
        rcases hp with h | h <;> exact h.1
      have := mem_storesAt hm
      rw [utf8Bytes_length] at this
      omega
  · simp only [Bool.not_eq_true] at hb
    simp only [hb, Bool.not_false, if_true]
    exact bounded_nil _ _

theorem bounded_spanTail {c : CopyOut} {len : Nat} (hasBuf : Bool) (h : c.Bounded len) :
    (spanTail hasBuf len c).Bounded len := by
  unfold spanTail
  split
  · exact h
  · split
    · rename_i hcond
      simp only [Bool.and_eq_true, decide_eq_true_eq] at hcond
      intro p hp
      simp only [List.mem_append, List.mem_singleton] at hp
      rcases hp with hp | rfl
      · exact h p hp
      · exact hcond.2
    · exact h

theorem bounded_spanTextBranch {hasBuf : Bool} {len : Nat} {bs : List UInt8} {c : CopyOut}
    (h : spanTextBranch true hasBuf len bs = some c) : c.Bounded len := by
  unfold spanTextBranch at h
  by_cases hb : hasBuf = true
  · simp only [hb, Bool.not_true, Bool.false_eq_true, if_false] at h
    by_cases hl : len < bs.length
    · simp [hl] at h
    · simp only [hl, if_false, if_true, Option.some.injEq] at h
      subst h
      intro p hp
      have := mem_storesAt hp
      omega
  · simp only [Bool.not_eq_true] at hb
    simp only [hb, Bool.not_false, if_true, Option.some.injEq] at h
    subst h
    exact bounded_nil _ _

theorem bounded_textResult (hasBuf : Bool) (len : Nat) (sel : List UInt8) :
    (textResult true hasBuf len sel).Bounded len := by
  unfold textResult
  split
  · exact bounded_nil _ _
  · rename_i hbr
    exact bounded_spanTail _ (bounded_spanTextBranch hbr)

/-- `get_span_text` after the repair writes only indices `< len`. -/
theorem bounded_getSpanText {span : Cell} {offset : Int} {og hasBuf : Bool} {len : Nat} {c : CopyOut}
    (h : getSpanText true span offset og hasBuf len = some c) : c.Bounded len := by
  unfold getSpanText at h
  split at h
  · simp only [Option.some.injEq] at h; subst h; exact bounded_nil _ _
  · simp only [Option.some.injEq] at h; subst h; exact bounded_spanTail _ (bounded_nil _ _)
  · simp only [Option.some.injEq] at h; subst h; exact bounded_spanTail _ (bounded_nil _ _)
  · simp only [Option.map_eq_some_iff] at h
    obtain ⟨chars, _, rfl⟩ := h
    exact bounded_textResult _ _ _
  · simp only [Option.some.injEq] at h; subst h; exact bounded_spanTail _ (bounded_utf8Put _ _ _)
  · simp only [Option.some.injEq] at h; subst h; exact bounded_spanTail _ (bounded_utf8Put _ _ _)

/-- `tickit_mockterm_get_display_text`: all stores are at indices `≤ len` (one byte past the length given:
    the terminator of the last cell that fits exactly). -/
theorem displayText_go_le (L : Nat) :
    ∀ (cells : List (List UInt8)) (buf : Bool) (pos len ret : Nat) (acc : List (Nat × UInt8)),
      (∀ p ∈ acc, p.1 ≤ L) → pos + len = L →
      ∀ p ∈ (displayText.go cells buf pos len ret acc).stores, p.1 ≤ L := by
  intro cells
  induction cells with
  | nil => intro buf pos len ret acc hacc _ p hp; simpa [displayText.go] using hacc p (by simpa [displayText.go] using hp)
  | cons s rest ih =>
    intro buf pos len ret acc hacc hpl p hp
    unfold displayText.go at hp
    simp only at hp
    split at hp
    · rename_i hc
      have hlen : s.length ≤ len := by
        simp only [Bool.and_eq_true, decide_eq_true_eq] at hc; exact hc.2
      refine ih _ _ _ _ _ ?_ ?_ p hp
      · intro q hq
        simp only [List.mem_append] at hq
        rcases hq with hq | hq
        · exact hacc q hq
        · have := mem_storesAt hq
          simp only [List.length_append, List.length_singleton] at this
          omega
      · omega
    · exact ih _ _ _ _ _ hacc hpl p hp

theorem displayText_le (hasBuf : Bool) (len : Nat) (cells : List (List UInt8)) :
    ∀ p ∈ (displayText hasBuf len cells).stores, p.1 ≤ len := by
  unfold displayText
  exact displayText_go_le len cells hasBuf 0 len 0 [] (by intro p hp; simp at hp) (by omega)

end Tickit.Life
