import Tickit.Proof.EvLoopFbSig
/-
  The self-pipe configuration (Model/EvLoopFb.lean): the log only grows (`LogExt` of Proof/EvLoopLog.lean) for the
  functions that configuration restates, and "visited ⇒ logged" for its instance of the shared walk `sigSnapLoopG`.
  Same compositions as Proof/EvLoopLog.lean; the differing leaves are written out.
-/
namespace Tickit.EvLoop.Fb
open Tickit.EvLoop

theorem lg_sigRecord (st : St) (s : Int) : LogExt st (sigRecord st s) := by
  unfold sigRecord
  split
  · exact LogExt.of_eq rfl
  · exact LogExt.refl _

theorem lg_raiseSig (st : St) (s : Int) : LogExt st (raiseSig st s) := by
  unfold raiseSig
  split
  · exact LogExt.refl st
  · split
    · exact lg_sigRecord _ _
    · split
      · exact LogExt.of_eq rfl
      · exact LogExt.refl st

theorem lg_ensurePipe (st : St) : LogExt st (ensurePipe st) := by
  unfold ensurePipe
  split
  · exact LogExt.refl _
  · exact ((LogExt.of_eq rfl : LogExt st { st with pipesMade := st.pipesMade + 1, pipeBytes := 0 }).trans
      (lg_watchIo _ _ _ _ _)).trans (LogExt.of_eq rfl)

theorem lg_installHandler (st : St) (signum : Int) : LogExt st (installHandler st signum) := by
  unfold installHandler
  split
  · exact LogExt.refl _
  · exact LogExt.of_eq rfl

theorem lg_unwatchSignal (st : St) (signum : Int) : LogExt st (unwatchSignal st signum) := by
  unfold unwatchSignal
  split
  · exact lg_fail _ _
  · split
    · exact LogExt.refl _
    · exact LogExt.of_eq rfl

theorem lg_watchSignal (st : St) (signum : Int) (flags : Nat) (slot : Int) :
    LogExt st (watchSignal st signum flags slot).1 := by
  unfold watchSignal
  exact ((((lg_alloc st _).trans (lg_ensurePipe _)).trans (lg_installHandler _ _)).trans (lg_insertWatch _ _ _ _)).trans (lg_with_signals _ _)

theorem lg_ensureSigchld (st : St) : LogExt st (ensureSigchld st) := by
  unfold ensureSigchld
  split
  · exact LogExt.refl _
  · exact (lg_watchSignal _ _ _ _).trans (LogExt.of_eq rfl)

theorem lg_watchProcess (st : St) (pid : Int) (flags : Nat) (slot : Int) :
    LogExt st (watchProcess st pid flags slot).1 := by
  unfold watchProcess
  exact ((lg_alloc st _).trans (lg_ensureSigchld _)).trans (lg_linkProcess _ _ _ _)

theorem lg_cancelHook (st : St) (w : Watch) : LogExt st (cancelHook st w) := by
  unfold cancelHook
  split
  · exact lg_evloopCancelIo _ _
  · exact lg_unwatchSignal _ _
  · exact LogExt.refl _

theorem lg_cancelFound (st : St) (a : Nat) (w : Watch) (l : List Nat) : LogExt st (cancelFound st a w l) := by
  unfold cancelFound
  exact ((((lg_setListOf st _ _).trans (lg_cancelNotify _ a w)).trans (lg_cancelHook _ w)).trans (lg_free _ a)).trans
    (lg_cancelRest _ _)

theorem lg_watchCancel0 (st : St) (a : Nat) : LogExt st (watchCancel0 st a) := by
  unfold watchCancel0
  split
  · exact LogExt.refl st
  · split
    · exact (lg_fail st _)
    · split
      · exact LogExt.refl st
      · split
        · exact (lg_fail st _)
        · split
          · split
            · exact lg_cancelDetached st a
            · exact LogExt.refl st
          · exact lg_cancelFound st a _ _

theorem lg_watchCancel (st : St) (a : Nat) : LogExt st (watchCancel st a) := by
  unfold watchCancel
  split
  · split
    · exact (lg_watchCancel0 st a).trans (lg_watchCancel0 _ _)
    · exact lg_watchCancel0 st a
  · exact lg_watchCancel0 st a

theorem lg_doCancel (st : St) (k : Int) : LogExt st (doCancel st k) := by
  unfold doCancel
  split
  · exact (lg_emit _ _)
  · exact (lg_with_cancelReq _ _).trans (lg_watchCancel _ _)

theorem lg_runAct (st : St) (act : Act) : LogExt st (runAct st act) := by
  unfold runAct
  split
  · exact LogExt.refl _
  · split
    · split
      · exact lg_doRegister _ _ _ (fun s => lg_watchTimerAfterMsec s _ _ _)
      · exact LogExt.refl _
    · split
      · exact lg_doRegister _ _ _ (fun s => lg_watchTimerAt s _ _ _)
      · exact LogExt.refl _
    · exact lg_doRegister _ _ _ (fun s => (lg_watchLater s _ _ _))
    · exact lg_doRegister _ _ _ (fun s => (lg_watchIo s _ _ _ _))
    · split
      · exact lg_doRegister _ _ _ (fun s => (lg_watchSignal s _ _ _))
      · exact LogExt.refl _
    · split
      · exact lg_doRegister _ _ _ (fun s => (lg_watchProcess s _ _ _))
      · exact LogExt.refl _
    · exact lg_doCancel _ _
    · exact (lg_with_errno _ _)
    · split
      · exact (lg_raiseSig _ _)
      · exact LogExt.refl _
    · split
      · split
        · exact LogExt.refl _
        · exact (lg_with_children _ _)
      · exact LogExt.refl _
    · exact (lg_with_stillRunning _ _)
    · exact LogExt.refl _

theorem lg_runActs (acts : List Act) : ∀ st : St,
    LogExt st (acts.foldl (fun st act => if st.isOk then runAct (st.emit .a) act else st) st) := by
  induction acts with
  | nil => intro st; exact LogExt.refl st
  | cons a rest ih =>
    intro st
    simp only [List.foldl_cons]
    refine LogExt.trans ?_ (ih _)
    split
    · exact (lg_emit _ _).trans (lg_runAct _ _)
    · exact LogExt.refl _

theorem lg_fireUser (st : St) (k : Int) (flags : Nat) (info : Info) : LogExt st (fireUser st k flags info) := by
  unfold fireUser
  simp only []
  split
  · exact (lg_emit _ _)
  · split
    · exact (lg_emit _ _).trans (lg_with_slots _ _)
    · exact ((lg_emit _ _).trans (lg_with_slots _ _)).trans (lg_runActs _ _)

theorem lg_fireIf (st : St) (c : Prop) [Decidable c] (k : Int) (flags : Nat) (info : Info) :
    LogExt st (if c then fireUser st k flags info else st) := by
  split
  · exact lg_fireUser _ _ _ _
  · exact LogExt.refl _

theorem lg_invokeWatch (st : St) (a : Nat) (flags : Nat) (info : Info) : LogExt st (invokeWatch st a flags info) := by
  unfold invokeWatch
  have hf := lg_fireIf st ((st.getW a).slot ≥ 0) (st.getW a).slot flags info
  generalize (if (st.getW a).slot ≥ 0 then fireUser st (st.getW a).slot flags info else st) = s1 at hf ⊢
  split
  · exact LogExt.refl _
  · split
    · exact (lg_fail _ _)
    · split
      · exact hf
      · split
        · exact hf.trans (lg_unlinkOneshotSaved _ a _)
        · exact hf.trans (lg_unlinkOneshot _ a)

theorem lg_procStep (st : St) (a : Nat) : LogExt st (procStep st a) := by
  unfold procStep
  split
  · exact (lg_waitpidV _ _)
  · exact (lg_waitpidV _ _).trans (lg_invokeWatch _ _ _ _)

theorem lg_onSigchld (fuel : Nat) : ∀ (st : St) (this : Option Nat), LogExt st (onSigchld fuel st this) := by
  induction fuel with
  | zero => intro st this; unfold onSigchld; exact lg_outOfFuel st
  | succ n ih =>
    intro st this
    unfold onSigchld
    split
    · exact LogExt.refl _
    · split
      · exact LogExt.refl _
      · split
        · exact (lg_fail _ _)
        · exact (lg_procStep _ _).trans (ih _ _)

theorem lg_procSnapLoop (l : List Nat) : ∀ st : St, LogExt st (procSnapLoop st l) := by
  induction l with
  | nil => intro st; exact LogExt.refl st
  | cons a rest ih =>
    intro st
    unfold procSnapLoop
    split
    · exact LogExt.refl _
    · split
      · exact (lg_fail _ _)
      · split
        · exact ih _
        · split
          · exact (lg_fail _ _)
          · exact (lg_procStep _ _).trans (ih _)

theorem lg_onSigchldAny (fuel : Nat) (st : St) : LogExt st (onSigchldAny fuel st) := by
  unfold onSigchldAny
  split
  · split
    · exact (lg_fail _ _)
    · exact lg_procSnapLoop _ _
  · exact lg_onSigchld _ _ _

theorem lg_processNotify (st : St) (a : Nat) : LogExt st (processNotify st a) := by
  unfold processNotify
  split
  · exact (lg_fail _ _)
  · exact (lg_clearNotify _ _).trans (lg_invokeWatch _ _ _ _)

theorem lg_laterCb (st : St) (a : Nat) : LogExt st (laterCb st a) := by
  unfold laterCb
  split
  · exact lg_fireUser _ _ _ _
  · split
    · exact lg_processNotify _ _
    · exact LogExt.refl _

theorem lg_laterLoop (l : List Nat) : ∀ st : St, LogExt st (laterLoop st l) := by
  induction l with
  | nil => intro st; exact LogExt.refl st
  | cons a rest ih =>
    intro st
    unfold laterLoop
    split
    · exact LogExt.refl _
    · split
      · exact (lg_fail _ _)
      · split
        · exact (lg_free _ a).trans (ih _)
        · split
          · exact (lg_laterPre st a).trans (lg_laterCb _ a)
          · split
            · exact ((lg_laterPre st a).trans (lg_laterCb _ a)).trans (lg_fail _ _)
            · exact (((lg_laterPre st a).trans (lg_laterCb _ a)).trans (lg_free _ a)).trans (ih _)

theorem lg_timerLoop (fuel : Nat) : ∀ (st : St) (now : TV) (this : Option Nat), LogExt st (timerLoop fuel st now this).1 := by
  induction fuel with
  | zero => intro st now this; unfold timerLoop; exact lg_outOfFuel st
  | succ n ih =>
    intro st now this
    unfold timerLoop
    split
    · exact LogExt.refl _
    · split
      · exact LogExt.refl _
      · rename_i a
        split
        · exact (lg_fail _ _)
        · split
          · exact LogExt.refl _
          · split
            · exact lg_fireUser _ _ _ _
            · split
              · exact (lg_fireUser _ _ _ _).trans (lg_fail _ _)
              · exact ((lg_fireUser _ _ _ _).trans (lg_free _ a)).trans (ih _ _ _)

theorem lg_timerLoopPop (fuel : Nat) : ∀ (st : St) (now : TV), LogExt st (timerLoopPop fuel st now) := by
  induction fuel with
  | zero => intro st now; unfold timerLoopPop; exact lg_outOfFuel st
  | succ n ih =>
    intro st now
    unfold timerLoopPop
    split
    · exact LogExt.refl _
    · split
      · exact LogExt.refl _
      · rename_i a rest hq
        split
        · exact (lg_fail _ _)
        · split
          · exact LogExt.refl _
          · have h1 := (lg_with_timers st rest).trans (lg_fireUser { st with timers := rest } (st.getW a).slot (EV_FIRE ||| EV_UNBIND) .none)
            split
            · exact h1
            · split
              · exact h1.trans (lg_fail _ _)
              · exact (h1.trans (lg_free _ a)).trans (ih _ _)

theorem lg_timerPhaseShipped (fuel : Nat) (st : St) (now : TV) : LogExt st (timerPhaseShipped fuel st now) := by
  unfold timerPhaseShipped
  split
  · exact (lg_timerLoop _ _ _ _).trans (lg_with_timers _ _)
  · exact lg_timerLoop _ _ _ _

theorem lg_timerPhase (fuel : Nat) (st : St) : LogExt st (timerPhase fuel st) := by
  unfold timerPhase
  split
  · exact LogExt.refl _
  · split
    · exact (lg_emit _ _).trans (lg_timerLoopPop _ _ _)
    · exact (lg_emit _ _).trans (lg_timerPhaseShipped _ _ _)

theorem lg_invokeTimers (fuel : Nat) (st : St) : LogExt st (invokeTimers fuel st) := by
  unfold invokeTimers
  split
  · exact LogExt.refl _
  · exact ((lg_with_laters st []).trans (lg_timerPhase _ _)).trans (lg_laterLoop _ _)

theorem lg_sigCb (fuel : Nat) (st : St) (a : Nat) (s : Int) : LogExt st (sigCb fuel st a s) := by
  unfold sigCb
  split
  · split
    · exact lg_fireUser _ _ _ _
    · split
      · exact lg_onSigchldAny _ _
      · split
        · exact (lg_with_stillRunning _ _)
        · exact LogExt.refl _
  · exact LogExt.refl _

theorem lg_sigwatchLoopT (fuel : Nat) : ∀ (st : St) (s : Int) (this : Option Nat), LogExt st (sigwatchLoopT fuel st s this).1 := by
  induction fuel with
  | zero => intro st s this; unfold sigwatchLoopT; exact lg_outOfFuel st
  | succ n ih =>
    intro st s this
    unfold sigwatchLoopT
    split
    · exact LogExt.refl _
    · split
      · exact LogExt.refl _
      · split
        · exact (lg_fail _ _)
        · split
          · exact lg_sigCb _ _ _ _
          · split
            · exact (lg_sigCb _ _ _ _).trans (lg_fail _ _)
            · exact (lg_sigCb _ _ _ _).trans (ih _ _ _)

theorem lg_sigwatchLoop (fuel : Nat) (st : St) (s : Int) (this : Option Nat) : LogExt st (sigwatchLoop fuel st s this) :=
  lg_sigwatchLoopT fuel st s this

theorem lg_sigSnapLoopT (fuel : Nat) (s : Int) (l : List Nat) : ∀ st : St, LogExt st (sigSnapLoopT fuel st s l).1 := by
  intro st
  unfold sigSnapLoopT
  exact lgG_sigSnapLoop _ (fun st a => lg_sigCb fuel st a s) l st

theorem lg_sigDispatch (fuel : Nat) (st : St) (s : Int) : LogExt st (sigDispatch fuel st s) := by
  unfold sigDispatch
  split
  · split
    · exact (lg_fail _ _)
    · exact lg_sigSnapLoopT _ _ _ _
  · exact lg_sigwatchLoop _ _ _ _

theorem lg_dispatchSignals (fuel : Nat) (st : St) : LogExt st (dispatchSignals fuel st) := LogExt.refl st

theorem lg_sigpipeLoop (fuel : Nat) : ∀ (st : St) (pending : List Int) (this : Option Nat),
    LogExt st (sigpipeLoop fuel st pending this) := by
  induction fuel with
  | zero => intro st pending this; unfold sigpipeLoop; exact lg_outOfFuel st
  | succ n ih =>
    intro st pending this
    unfold sigpipeLoop
    split
    · exact LogExt.refl _
    · split
      · exact LogExt.refl _
      · split
        · exact (lg_fail _ _)
        · split
          · exact ih _ _ _
          · split
            · exact lg_sigCb _ _ _ _
            · split
              · exact (lg_sigCb _ _ _ _).trans (lg_fail _ _)
              · exact (lg_sigCb _ _ _ _).trans (ih _ _ _)

theorem lg_sigpipeInvoke (fuel : Nat) (pending : List Int) (l : List Int) : ∀ st : St, LogExt st (sigpipeInvoke fuel st pending l) := by
  induction l with
  | nil => intro st; exact LogExt.refl st
  | cons s rest ih =>
    intro st
    unfold sigpipeInvoke
    refine LogExt.trans ?_ (ih _)
    split
    · exact lg_sigDispatch _ _ _
    · exact LogExt.refl _

theorem lg_onSigpipeReadable (fuel : Nat) (st : St) : LogExt st (onSigpipeReadable fuel st) := by
  unfold onSigpipeReadable
  split
  · exact (LogExt.of_eq rfl : LogExt st { st with pipeBytes := st.pipeBytes - 1, pendingSig := [] }).trans (lg_sigpipeInvoke _ _ _ _)
  · exact (LogExt.of_eq rfl : LogExt st { st with pipeBytes := st.pipeBytes - 1, pendingSig := [] }).trans (lg_sigpipeLoop _ _ _ _)

theorem lg_ioCb (fuel : Nat) (st : St) (s : PollSlot) : LogExt st (ioCb fuel st s) := by
  unfold ioCb
  split
  · split
    · exact (lg_fail _ _)
    · split
      · exact lg_onSigpipeReadable _ _
      · exact lg_invokeWatch _ _ _ _
  · exact LogExt.refl _

theorem lg_ioLoop (fuel : Nat) : ∀ (st : St) (idx : Nat), LogExt st (ioLoop fuel st idx) := by
  induction fuel with
  | zero => intro st idx; unfold ioLoop; exact lg_outOfFuel st
  | succ n ih =>
    intro st idx
    unfold ioLoop
    split
    · exact LogExt.refl _
    · split
      · exact LogExt.refl _
      · split
        · exact ih _ _
        · split
          · exact ih _ _
          · exact (lg_ioCb _ _ _).trans (ih _ _)

theorem lg_foldl_raiseSig (l : List Int) : ∀ st : St, LogExt st (l.foldl raiseSig st) := by
  induction l with
  | nil => intro st; exact LogExt.refl st
  | cons s rest ih => intro st; exact (lg_raiseSig st s).trans (ih _)

theorem lg_pollScan (st : St) : LogExt st (pollScan st) := LogExt.of_eq rfl

theorem lg_pollRaise (st : St) : LogExt st (pollRaise st) := by
  unfold pollRaise
  exact (lg_with_inpoll st []).trans (lg_foldl_raiseSig _ _)

theorem lg_ppoll (st : St) (t : Option Int) : LogExt st (ppoll st t).1 := by
  unfold ppoll
  split
  · exact (lg_pollScan st).trans (lg_pollRaise _)
  · split
    · exact ((lg_pollScan st).trans (lg_pollRaise _)).trans (lg_emit _ _)
    · split
      · exact (((lg_pollScan st).trans (lg_pollRaise _)).trans (lg_with_errno _ _)).trans (lg_emit _ _)
      · exact (((lg_pollScan st).trans (lg_pollRaise _)).trans (lg_pollTimeout _ _)).trans (lg_emit _ _)

theorem lg_tickAfterPoll (fuel : Nat) (st : St) (ret : Option Nat) : LogExt st (tickAfterPoll fuel st ret) := by
  unfold tickAfterPoll
  split
  · exact lg_invokeTimers _ _
  · split
    · split
      · exact (lg_invokeTimers _ _).trans (lg_ioLoop _ _ _)
      · exact lg_invokeTimers _ _
    · split
      · exact (lg_invokeTimers _ _).trans (lg_dispatchSignals _ _)
      · exact lg_invokeTimers _ _

theorem lg_tick (fuel : Nat) (st : St) (nohang : Bool) : LogExt st (tick fuel st nohang) := by
  unfold tick
  split
  · exact LogExt.refl _
  · split
    · exact (lg_nextTimerMsec _)
    · split
      · exact ((lg_nextTimerMsec _).trans (lg_ppoll _ _))
      · exact ((lg_nextTimerMsec _).trans (lg_ppoll _ _)).trans (lg_tickAfterPoll _ _ _)

theorem lg_ppollRun (st : St) (t : Option Int) : LogExt st (ppollRun st t).1 := by
  unfold ppollRun
  split
  · exact lg_ppoll _ _
  · split
    · exact ((lg_ppoll st t).trans (LogExt.of_eq rfl : LogExt (ppoll st t).1
        { (ppoll st t).1 with runPolls := (ppoll st t).1.runPolls + 1, stillRunning := false })).trans (lg_emit _ _)
    · exact (lg_ppoll st t).trans (LogExt.of_eq rfl : LogExt (ppoll st t).1
        { (ppoll st t).1 with runPolls := (ppoll st t).1.runPolls + 1 })

theorem lg_runIter (fuel : Nat) (st : St) : LogExt st (runIter fuel st) := by
  unfold runIter
  split
  · exact LogExt.refl _
  · split
    · exact (lg_nextTimerMsec _)
    · split
      · exact ((lg_nextTimerMsec _).trans (lg_ppollRun _ _))
      · exact ((lg_nextTimerMsec _).trans (lg_ppollRun _ _)).trans (lg_tickAfterPoll _ _ _)

theorem lg_runLoop (fuel : Nat) (n : Nat) : ∀ st : St, LogExt st (runLoop fuel n st) := by
  induction n with
  | zero => intro st; unfold runLoop; exact lg_outOfFuel st
  | succ k ih =>
    intro st
    unfold runLoop
    split
    · exact LogExt.refl _
    · split
      · exact LogExt.refl _
      · exact (lg_runIter _ _).trans (ih _)

theorem lg_run_flags (st : St) : LogExt st { st with stillRunning := true, inRun := true, runPolls := 0 } := LogExt.of_eq rfl
theorem lg_run_start (st : St) : LogExt st { (watchSignal st 2 0 (-5)).1 with stillRunning := true, inRun := true, runPolls := 0 } :=
  (lg_watchSignal st 2 0 (-5)).trans (lg_run_flags _)

theorem lg_run (fuel : Nat) (st : St) : LogExt st (run fuel st) := by
  unfold run
  split
  · exact LogExt.refl _
  · split
    · exact (lg_run_start st).trans (lg_runLoop _ _ _)
    · exact (((lg_run_start st).trans (lg_runLoop _ _ _)).trans (lg_with_inRun _ _)).trans
        (lg_watchCancel _ _)

theorem lg_destroyList (t : WType) (l : List Nat) : ∀ st : St, LogExt st (destroyList st t l) := by
  induction l with
  | nil => intro st; exact LogExt.refl st
  | cons a rest ih =>
    intro st
    unfold destroyList
    split
    · exact LogExt.refl _
    · split
      · exact lg_fail _ _
      · split
        · exact (((lg_destroyNotify _ _).trans (lg_evloopCancelIo _ _)).trans (lg_free _ a)).trans (ih _)
        · exact ((lg_destroyNotify _ _).trans (lg_free _ a)).trans (ih _)

/-- The harness's callback logs its invocation before it does anything else. -/
theorem mem_fireUser (st : St) (k : Int) (flags : Nat) (info : Info) : Ev.cb k flags info ∈ (fireUser st k flags info).log := by
  unfold fireUser
  simp only []
  split
  · exact mem_emit _ _
  · split
    · exact mem_emit _ _
    · rename_i b _
      exact (lg_runActs b.acts _).mem (mem_emit st _)

/-- A signal watch of the harness whose signal is being dispatched gets its FIRE entry. -/
theorem mem_sigCb (fuel : Nat) (st : St) (a : Nat) (s : Int) (hs : (st.getW a).signum = s) (hk : (st.getW a).slot ≥ 0) :
    Ev.cb (st.getW a).slot EV_FIRE .none ∈ (sigCb fuel st a s).log := by
  unfold sigCb
  rw [if_pos hs, if_pos hk]
  exact mem_fireUser _ _ _ _

/-- The repaired walk: the same for every watch of the snapshot. -/
theorem sigsnap_logged (fuel : Nat) (s : Int) (l : List Nat) : ∀ st : St, SInv st →
    (sigSnapLoopT fuel st s l).1.status = .ok →
    ∀ b ∈ l, b < st.heap.length → b ∈ (sigSnapLoopT fuel st s l).1.signals →
      (st.getW b).signum = s → (st.getW b).slot ≥ 0 →
      Ev.cb (st.getW b).slot EV_FIRE .none ∈ (sigSnapLoopT fuel st s l).1.log := by
  intro st
  unfold sigSnapLoopT
  exact sigsnapG_logged _ s (fun st a => step_sigCb fuel st a s) (fun st a => lg_sigCb fuel st a s)
    (fun st a hs hk => mem_sigCb fuel st a s hs hk) l st

end Tickit.EvLoop.Fb
