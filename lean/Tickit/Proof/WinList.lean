import Tickit.Proof.WinGeom
/-
  Locality for a change of one child list: when the child list of window `p` changes only in where (and whether) the
  child `c` occurs, the owner of a terminal cell can change only for cells inside `c`'s rectangle (as it is in either
  tree), reached from the root through visible windows down to `p`.  This is what `_do_hierarchy_change` exposes.
-/
namespace Tickit
namespace WinFlush
open WinTree WinRB WinSpec

/-- What the composition reads of a window. -/
def view (w : Win) : Bool × Bool × Rect × List Id := (w.isVisible, w.freed, w.rect, w.children)

/-- Window `c` is alive, visible and covers `(x, y)` (coordinates of its parent). -/
def Cin (t : Tree) (c : Id) (x y : Int) : Prop :=
  ∃ cw : Win, t.wins[c]? = some cw ∧ cw.isVisible = true ∧ cw.freed = false ∧ cw.rect.memb x y = true

theorem ownerLoc_some_cin (t : Tree) (n : Nat) (c : Id) (x y : Int) (h : ownerLoc t n c x y ≠ none) : Cin t c x y := by
  cases n with
  | zero => exact absurd rfl h
  | succ k =>
    simp only [ownerLoc] at h
    cases hw : t.wins[c]? with
    | none => rw [hw] at h; exact absurd rfl h
    | some cw =>
      rw [hw] at h
      simp only at h
      cases hv : cw.isVisible <;> cases hf : cw.freed <;> cases hm : cw.rect.memb x y <;> simp [hv, hf, hm] at h
      exact ⟨cw, hw, hv, hf, hm⟩

theorem findSome?_filter_none {α β : Type} [DecidableEq α] (f : α → Option β) (c : α) (hc : f c = none) :
    ∀ (l : List α), l.findSome? f = (l.filter (fun x => decide (x ≠ c))).findSome? f := by
  intro l
  induction l with
  | nil => rfl
  | cons a rest ih =>
    by_cases ha : a = c
    · subst ha
      simp only [List.findSome?_cons, hc, ne_eq, not_true_eq_false, decide_false, List.filter_cons_of_neg,
        Bool.false_eq_true, not_false_eq_true]
      exact ih
    · simp only [List.findSome?_cons, ne_eq, ha, not_false_eq_true, decide_true, List.filter_cons_of_pos]
      cases f a with
      | some o => rfl
      | none => exact ih

/-- `t'` is `t` except for the child list of `p`, which differs only in the occurrences of `c`, and for `c` itself. -/
structure SameButL (t t' : Tree) (p c : Id) : Prop where
  other : ∀ x, x ≠ p → x ≠ c → (t'.wins[x]?).map view = (t.wins[x]?).map view
  parNone : t.wins[p]? = none → t'.wins[p]? = none
  par : ∀ pw, t.wins[p]? = some pw → ∃ pw', t'.wins[p]? = some pw' ∧ pw'.isVisible = pw.isVisible ∧ pw'.freed = pw.freed ∧
    pw'.rect = pw.rect ∧ pw'.children.filter (fun x => decide (x ≠ c)) = pw.children.filter (fun x => decide (x ≠ c))
  size : t'.wins.size = t.wins.size
  only : ∀ x w, x ≠ p → x ≠ c → t.wins[x]? = some w → c ∉ w.children

/-- Going down from `cur` through visible windows the cell reaches `p`, in whose own coordinates it satisfies `P`. -/
def UnderL (t : Tree) (p : Id) (P : Int → Int → Prop) : Nat → Id → Int → Int → Prop
  | 0, _, _, _ => False
  | fuel + 1, cur, l, c =>
    ∃ w : Win, t.wins[cur]? = some w ∧ w.freed = false ∧ w.rect.memb l c = true ∧ w.isVisible = true ∧
      ((cur = p ∧ P (l - w.rect.top) (c - w.rect.left)) ∨
       ∃ ch ∈ w.children, UnderL t p P fuel ch (l - w.rect.top) (c - w.rect.left))

theorem map_view_some {a b : Option Win} (h : a.map view = b.map view) {w : Win} (hb : b = some w) :
    ∃ w', a = some w' ∧ view w' = view w := by
  subst hb
  cases a with
  | none => simp at h
  | some w' => exact ⟨w', rfl, by simpa using h⟩

theorem map_view_none {a b : Option Win} (h : a.map view = b.map view) (hb : b = none) : a = none := by
  subst hb
  cases a with
  | none => rfl
  | some w' => simp at h

theorem ownerLoc_localL {t t' : Tree} {p c : Id} (h : SameButL t t' p c) (hpc : p ≠ c) :
    ∀ (fuel : Nat) (cur : Id) (l c0 : Int), cur ≠ c → ownerLoc t' fuel cur l c0 ≠ ownerLoc t fuel cur l c0 →
      UnderL t' p (fun x y => Cin t c x y ∨ Cin t' c x y) fuel cur l c0 := by
  intro fuel
  induction fuel with
  | zero => intro cur l c0 _ hne; exact absurd rfl hne
  | succ n ih =>
    intro cur l c0 hcc hne
    by_cases hp : cur = p
    · subst hp
      cases ht : t.wins[cur]? with
      | none =>
        have := h.parNone ht
        simp only [ownerLoc, ht, this] at hne
        exact absurd rfl hne
      | some pw =>
        obtain ⟨pw', ht', hv, hf, hr, hch⟩ := h.par pw ht
        simp only [ownerLoc, ht', ht, hv, hf, hr] at hne
        cases hvis : pw.isVisible with
        | false => simp [hvis] at hne
        | true =>
          cases hfr : pw.freed with
          | true => simp [hvis, hfr] at hne
          | false =>
            cases hm : pw.rect.memb l c0 with
            | false => simp [hvis, hfr, hm] at hne
            | true =>
              simp only [hvis, hfr, hm] at hne
              unfold UnderL
              refine ⟨pw', ht', by rw [hf]; exact hfr, by rw [hr]; exact hm, by rw [hv]; exact hvis, ?_⟩
              rw [hr]
              by_cases hP : Cin t c (l - pw.rect.top) (c0 - pw.rect.left) ∨ Cin t' c (l - pw.rect.top) (c0 - pw.rect.left)
              · exact Or.inl ⟨rfl, hP⟩
              · right
                have hn' : ownerLoc t' n c (l - pw.rect.top) (c0 - pw.rect.left) = none := by
                  apply Classical.byContradiction
                  intro hx; exact hP (Or.inr (ownerLoc_some_cin _ _ _ _ _ hx))
                have hn : ownerLoc t n c (l - pw.rect.top) (c0 - pw.rect.left) = none := by
                  apply Classical.byContradiction
                  intro hx; exact hP (Or.inl (ownerLoc_some_cin _ _ _ _ _ hx))
                rw [findSome?_filter_none (fun ch => ownerLoc t' n ch (l - pw.rect.top) (c0 - pw.rect.left)) c hn' pw'.children,
                    findSome?_filter_none (fun ch => ownerLoc t n ch (l - pw.rect.top) (c0 - pw.rect.left)) c hn pw.children,
                    hch] at hne
                apply Classical.byContradiction
                intro hno
                have hall : ∀ ch ∈ pw.children.filter (fun x => decide (x ≠ c)),
                    ownerLoc t' n ch (l - pw.rect.top) (c0 - pw.rect.left) = ownerLoc t n ch (l - pw.rect.top) (c0 - pw.rect.left) := by
                  intro ch hch'
                  apply Classical.byContradiction
                  intro hd
                  have hmem := List.mem_filter.1 hch'
                  have hcne : ch ≠ c := by simpa using hmem.2
                  have hmem' : ch ∈ pw'.children := by
                    have : ch ∈ pw'.children.filter (fun x => decide (x ≠ c)) := by rw [hch]; exact hch'
                    exact (List.mem_filter.1 this).1
                  exact hno ⟨ch, hmem', ih ch _ _ hcne hd⟩
                rw [findSome?_congr_mem _ _ _ hall] at hne
                simp at hne
    · cases ht : t.wins[cur]? with
      | none =>
        have := map_view_none (h.other cur hp hcc) ht
        simp only [ownerLoc, ht, this] at hne
        exact absurd rfl hne
      | some w =>
        obtain ⟨w', ht', hc⟩ := map_view_some (h.other cur hp hcc) ht
        simp only [view, Prod.mk.injEq] at hc
        obtain ⟨hv, hf, hrr, hch⟩ := hc
        simp only [ownerLoc, ht', ht, hv, hf, hrr, hch] at hne
        cases hvis : w.isVisible with
        | false => simp [hvis] at hne
        | true =>
          cases hfr : w.freed with
          | true => simp [hvis, hfr] at hne
          | false =>
            cases hm : w.rect.memb l c0 with
            | false => simp [hvis, hfr, hm] at hne
            | true =>
              simp only [hvis, hfr, hm] at hne
              unfold UnderL
              refine ⟨w', ht', by rw [hf]; exact hfr, by rw [hrr]; exact hm, by rw [hv]; exact hvis, Or.inr ?_⟩
              rw [hch, hrr]
              apply Classical.byContradiction
              intro hno
              have hall : ∀ ch ∈ w.children,
                  ownerLoc t' n ch (l - w.rect.top) (c0 - w.rect.left) = ownerLoc t n ch (l - w.rect.top) (c0 - w.rect.left) := by
                intro ch hch'
                apply Classical.byContradiction
                intro hd
                have hcne : ch ≠ c := by
                  intro hx; subst hx
                  exact h.only cur w hp hcc ht hch'
                exact hno ⟨ch, hch', ih ch _ _ hcne hd⟩
              rw [findSome?_congr_mem _ _ _ hall] at hne
              simp at hne

/-- From the top-down path to the exposed cell of `p`. -/
theorem under_ctxL (t : Tree) (hwf : WFp t) (p : Id) (P : Int → Int → Prop) :
    ∀ (fuel : Nat) (cur : Id) (l c : Int) (k : Nat) (L C : Int) (w : Win),
    t.wins[cur]? = some w → w.isRoot = w.parent.isNone → (w.parent = none → w.rect.top = 0 ∧ w.rect.left = 0) →
    Ctx t k w.parent l c L C → UnderL t p P fuel cur l c →
    ∃ (x y : Int) (k' : Nat), P x y ∧ k' ≤ k + fuel ∧ ExposedAt t k' p x y L C := by
  intro fuel
  induction fuel with
  | zero => intro cur l c k L C w _ _ _ _ hu; simp [UnderL] at hu
  | succ n ih =>
    intro cur l c k L C w hw hroot hz hctx hu
    unfold UnderL at hu
    obtain ⟨w2, hw2, hf, hm, hv, hcase⟩ := hu
    rw [hw] at hw2; cases hw2
    have hmm := (memb_true_iff _ _ _).1 hm
    have hex : ExposedAt t (k + 1) cur (l - w.rect.top) (c - w.rect.left) L C := by
      simp only [ExposedAt]
      refine ⟨w, hw, hf, ?_, ?_, ?_, ?_, hv, ?_⟩
      · simp only [Rect.Mem] at hmm; omega
      · simp only [Rect.Mem, Rect.bottom] at hmm; omega
      · simp only [Rect.Mem] at hmm; omega
      · simp only [Rect.Mem, Rect.right] at hmm; omega
      · cases hp : w.parent with
        | none =>
          rw [hp] at hroot hctx
          simp only [Ctx] at hctx
          left
          have := hz hp
          refine ⟨by simpa using hroot, ?_, ?_⟩ <;> omega
        | some q =>
          rw [hp] at hroot hctx
          simp only [Ctx] at hctx
          right
          refine ⟨by simpa using hroot, q, rfl, ?_⟩
          have e1 : l - w.rect.top + w.rect.top = l := by omega
          have e2 : c - w.rect.left + w.rect.left = c := by omega
          rw [e1, e2]
          exact hctx
    rcases hcase with ⟨rfl, hP⟩ | ⟨ch, hch, hunder⟩
    · exact ⟨_, _, k + 1, hP, by omega, hex⟩
    · obtain ⟨cw, hcw, hcp, hcr⟩ := hwf.child cur w hw ch hch
      have hcroot : cw.isRoot = cw.parent.isNone := by rw [hcr, hcp]; rfl
      obtain ⟨x, y, k', h1, h2, h3⟩ := ih ch _ _ (k + 1) L C cw hcw hcroot
        (by intro hx; rw [hcp] at hx; cases hx) (by rw [hcp]; exact hex) hunder
      exact ⟨x, y, k', h1, by omega, h3⟩

end WinFlush
end Tickit
