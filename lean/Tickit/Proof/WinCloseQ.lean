import Tickit.Proof.WinResize
/-
  What `tickit_window_close` does to the queue of restacking requests and to the child lists (for a state with requests
  queued): requests are only dropped, child lists only lose entries.  `_request_hierarchy_change` only appends to the queue.
-/
namespace Tickit
namespace WinFlush
open WinTree WinRB WinSpec

theorem expose_wins_root : ∀ (fuel : Nat) (t : Tree) (id : Id) (e : Option Rect) (t' : Tree),
    expose t fuel id e = .ok t' → t'.wins = t.wins ∧ t'.root.changes = t.root.changes ∧
      (t.root.needsLater = true → t'.root.needsLater = true) := by
  intro fuel
  induction fuel with
  | zero => intro t id e t' h; simp [expose] at h
  | succ n ih =>
    intro t id e t' h
    rw [expose_succ] at h
    cases hg : WinTree.get t id with
    | ub w => rw [hg] at h; cases h
    | ok w =>
      rw [hg] at h
      simp only [bind, Bind.bind] at h
      cases hd : damagedOf w e with
      | none => rw [hd] at h; simp only [pure, Pure.pure] at h; cases h; exact ⟨rfl, rfl, fun hx => hx⟩
      | some d =>
        rw [hd] at h
        simp only at h
        unfold exposeTail at h
        split at h
        · simp only [pure, Pure.pure] at h; cases h; exact ⟨rfl, rfl, fun hx => hx⟩
        · split at h
          · split at h
            · simp only [pure, Pure.pure] at h; cases h; exact ⟨rfl, rfl, fun hx => hx⟩
            · exact ih t _ _ t' h
          · split at h
            · cases h
            · simp only [pure, Pure.pure] at h; cases h; exact ⟨rfl, rfl, fun hx => hx⟩
            · split at h
              · cases h
              · simp only [pure, Pure.pure] at h; cases h; exact ⟨rfl, rfl, fun _ => rfl⟩

theorem purge_changes_sub (t : Tree) (fuel : Nat) (win : Id) (t2 : Tree) (h : purgeHierarchyChanges t fuel win = .ok t2) :
    ∀ r ∈ t2.root.changes, r ∈ t.root.changes := by
  unfold purgeHierarchyChanges at h
  simp only [bind, Bind.bind] at h
  cases h1 : topOf t fuel win with
  | ub e => rw [h1] at h; cases h
  | ok top =>
    rw [h1] at h
    simp only at h
    cases h2 : WinTree.get t top with
    | ub e => rw [h2] at h; cases h
    | ok tw =>
      rw [h2] at h
      simp only at h
      split at h
      · simp only [pure, Pure.pure] at h
        cases h
        exact fun r hr => hr
      · cases h3 : purgeHierarchyChanges.chk t t.root.changes with
        | ub e => rw [h3] at h; cases h
        | ok u =>
          rw [h3] at h
          simp only [pure, Pure.pure] at h
          cases h
          exact fun r hr => (List.mem_filter.1 hr).1

/-- Child lists only shrink and the queue only loses requests. -/
def Shrinks (t t' : Tree) : Prop :=
  (∀ r ∈ t'.root.changes, r ∈ t.root.changes) ∧
  (∀ (x : Nat) (w' : Win), t'.wins[x]? = some w' → ∃ w, t.wins[x]? = some w ∧ ∀ ch ∈ w'.children, ch ∈ w.children) ∧
  (t.root.needsLater = true → t'.root.needsLater = true)

theorem Shrinks.refl (t : Tree) : Shrinks t t := ⟨fun _ h => h, fun _ w h => ⟨w, h, fun _ hc => hc⟩, fun h => h⟩

theorem Shrinks.trans {a b c : Tree} (h1 : Shrinks a b) (h2 : Shrinks b c) : Shrinks a c := by
  refine ⟨fun r hr => h1.1 r (h2.1 r hr), fun x w hw => ?_, fun h => h2.2.2 (h1.2.2 h)⟩
  obtain ⟨wb, hwb, hs⟩ := h2.2.1 x w hw
  obtain ⟨wa, hwa, hs'⟩ := h1.2.1 x wb hwb
  exact ⟨wa, hwa, fun ch hc => hs' ch (hs ch hc)⟩

theorem shrinks_of_eq {t t' : Tree} (hw : t'.wins = t.wins) (hc : t'.root.changes = t.root.changes)
    (hl : t.root.needsLater = true → t'.root.needsLater = true) : Shrinks t t' :=
  ⟨fun r hr => by rw [hc] at hr; exact hr, fun x w h => ⟨w, by rw [← hw]; exact h, fun _ hc => hc⟩, hl⟩

theorem shrinks_set (t : Tree) (id : Id) (w w' : Win) (hw : t.wins[id]? = some w) (hc : ∀ ch ∈ w'.children, ch ∈ w.children) :
    Shrinks t (WinTree.set t id w') := by
  refine ⟨fun r hr => hr, fun x wx hx => ?_, fun h => h⟩
  by_cases hxi : x = id
  · subst hxi
    rw [set_wins_self t x w w' hw] at hx
    cases hx
    exact ⟨w, hw, hc⟩
  · rw [set_wins_other t id x w' hxi] at hx
    exact ⟨wx, hx, fun _ h => h⟩

theorem close_shrinks (t t' : Tree) (fuel : Nat) (id : Id) (h : WinTree.close t fuel id = .ok t') : Shrinks t t' := by
  unfold WinTree.close at h
  simp only [bind, Bind.bind] at h
  cases hg : WinTree.get t id with
  | ub e => rw [hg] at h; cases h
  | ok w0 =>
    rw [hg] at h
    simp only at h
    have fin : ∀ (tc : Tree), WinTree.modify tc id (fun w => { w with isClosed := true }) = .ok t' → Shrinks tc t' := by
      intro tc hm
      unfold WinTree.modify at hm
      simp only [bind, Bind.bind] at hm
      cases hgc : WinTree.get tc id with
      | ub e => rw [hgc] at hm; cases hm
      | ok wc =>
        rw [hgc] at hm
        simp only [pure, Pure.pure] at hm
        cases hm
        exact shrinks_set tc id wc _ (get_ok hgc).1 (fun _ hc => hc)
    cases hp : w0.parent with
    | none =>
      simp only [hp, pure, Pure.pure] at h
      exact fin t h
    | some p =>
      simp only [hp] at h
      cases hpu : purgeHierarchyChanges t fuel id with
      | ub e => rw [hpu] at h; cases h
      | ok tq =>
        rw [hpu] at h
        simp only at h
        have hs1 : Shrinks t tq :=
          ⟨purge_changes_sub t fuel id tq hpu, fun x w hx => ⟨w, by rw [← (purge_spec t fuel id tq hpu).1]; exact hx, fun _ hc => hc⟩,
            fun hx => by rw [(purge_spec t fuel id tq hpu).2.2.2.1]; exact hx⟩
        cases hd : doHierarchyChange tq fuel .remove p id with
        | ub e => rw [hd] at h; cases h
        | ok td =>
          rw [hd] at h
          simp only at h
          refine (hs1.trans ?_).trans (fin td h)
          unfold doHierarchyChange at hd
          simp only [bind, Bind.bind] at hd
          cases hgp : WinTree.get tq p with
          | ub e => rw [hgp] at hd; cases hd
          | ok pw =>
            rw [hgp] at hd
            simp only at hd
            cases hgi : WinTree.get tq id with
            | ub e => rw [hgi] at hd; cases hd
            | ok wi =>
              rw [hgi] at hd
              simp only at hd
              cases hlr : listRemove pw.children id with
              | ub e => rw [hlr] at hd; cases hd
              | ok cs =>
                rw [hlr] at hd
                simp only at hd
                obtain ⟨hcs, _⟩ := listRemove_spec _ _ _ hlr
                generalize hta : WinTree.set tq p { pw with children := cs, focusedChild := if pw.focusedChild = some id then none else pw.focusedChild } = ta at hd
                have hsa : Shrinks tq ta := by
                  rw [← hta]
                  exact shrinks_set tq p pw _ (get_ok hgp).1 (fun ch hc => by
                    have : ch ∈ cs := hc
                    rw [hcs] at this
                    exact List.mem_of_mem_erase this)
                cases hga : WinTree.get ta id with
                | ub e => rw [hga] at hd; cases hd
                | ok wa =>
                  rw [hga] at hd
                  simp only [pure, Pure.pure] at hd
                  generalize htb : WinTree.set ta id { wa with parent := none } = tb at hd
                  have hsb : Shrinks ta tb := by
                    rw [← htb]
                    exact shrinks_set ta id wa _ (get_ok hga).1 (fun _ hc => hc)
                  refine (hsa.trans hsb).trans ?_
                  split at hd
                  · obtain ⟨e1, e2, e3⟩ := expose_wins_root _ tb p _ td hd
                    exact shrinks_of_eq e1 e2 e3
                  · cases hd
                    exact Shrinks.refl _

theorem ordered_shrinks {t t' : Tree} (h : Shrinks t t') (ho : Ordered t) : Ordered t' :=
  ordered_of_children h.2.1 ho

/-- Every queued request is of a restacking kind. -/
def QueueOk (t : Tree) : Prop := ∀ r ∈ t.root.changes, isRestack r.change = true

theorem queueOk_shrinks {t t' : Tree} (h : Shrinks t t') (hq : QueueOk t) : QueueOk t' :=
  fun r hr => hq r (h.1 r hr)

theorem queueOk_rootStep {t t' : Tree} (h : RootStep t t') (hq : QueueOk t) : QueueOk t' := by
  intro r hr
  rw [h.changes] at hr
  exact hq r hr

/-- `_request_hierarchy_change` only appends to the queue (and asks for later processing). -/
theorem request_spec (t t' : Tree) (fuel : Nat) (ch : Change) (win : Id) (h : requestHierarchyChange t fuel ch win = .ok t') :
    t'.wins = t.wins ∧ t'.root.damage = t.root.damage ∧ t'.root.needsExpose = t.root.needsExpose ∧
    (t.root.needsLater = true → t'.root.needsLater = true) ∧
    (t'.root.changes = t.root.changes ∨ ∃ p, t'.root.changes = t.root.changes ++ [⟨ch, p, win⟩]) := by
  unfold requestHierarchyChange at h
  simp only [bind, Bind.bind] at h
  cases hg : WinTree.get t win with
  | ub e => rw [hg] at h; cases h
  | ok w =>
    rw [hg] at h
    simp only at h
    cases hp : w.parent with
    | none =>
      simp only [hp, pure, Pure.pure] at h
      cases h
      exact ⟨rfl, rfl, rfl, fun hx => hx, Or.inl rfl⟩
    | some p =>
      simp only [hp] at h
      cases hr : getRoot t fuel win with
      | ub e => rw [hr] at h; cases h
      | ok r =>
        rw [hr] at h
        simp only [pure, Pure.pure] at h
        cases h
        exact ⟨rfl, rfl, rfl, fun hx => by simp [hx], Or.inr ⟨p, rfl⟩⟩

end WinFlush
end Tickit
