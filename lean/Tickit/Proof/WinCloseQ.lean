import Tickit.Proof.WinResize
/-
  What `tickit_window_close` does to the queue of restacking requests and to the child lists (for a state with requests
  queued): requests are only dropped, child lists only lose entries.  `_request_hierarchy_change` only appends to the queue.
-/
namespace Tickit
namespace WinFlush
open WinTree WinRB WinSpec

theorem expose_wins_root : ∀ (fuel : Nat) (t : Tree) (id : Id) (e : Option Rect) (t' : Tree),
    expose t fuel id e = .ok t' → t'.wins = t.wins ∧ t'.root.changes = t.root.changes ∧
      (t.root.needsLater = true → t'.root.needsLater = true) := by
  intro fuel
  induction fuel with
  | zero => intro t id e t' h; simp [expose] at h
  | succ n ih =>
    intro t id e t' h
    rw [expose_succ] at h
    cases hg : WinTree.get t id with
    | ub w => rw [hg] at h; cases h
    | ok w =>
      rw [hg] at h
      simp only [bind, Bind.bind] at h
      cases hd : damagedOf w e with
      | none => rw [hd] at h; simp only [pure, Pure.pure] at h; cases h; exact ⟨rfl, rfl, fun hx => hx⟩
      | some d =>
        rw [hd] at h
        simp only at h
        unfold exposeTail at h
        split at h
        · simp only [pure, Pure.pure] at h; cases h; exact ⟨rfl, rfl, fun hx => hx⟩
        · split at h
          · split at h
            · simp only [pure, Pure.pure] at h; cases h; exact ⟨rfl, rfl, fun hx => hx⟩
            · exact ih t _ _ t' h
          · split at h
            · cases h
            · simp only [pure, Pure.pure] at h; cases h; exact ⟨rfl, rfl, fun hx => hx⟩
            · split at h
              · cases h
              · simp only [pure, Pure.pure] at h; cases h; exact ⟨rfl, rfl, fun _ => rfl⟩

theorem purge_changes_sub (t : Tree) (fuel : Nat) (win : Id) (t2 : Tree) (h : purgeHierarchyChanges t fuel win = .ok t2) :
    ∀ r ∈ t2.root.changes, r ∈ t.root.changes := by
  unfold purgeHierarchyChanges at h
  simp only [bind, Bind.bind] at h
  cases h1 : topOf t fuel win with
  | ub e => rw [h1] at h; cases h
  | ok top =>
    rw [h1] at h
    simp only at h
    cases h2 : WinTree.get t top with
    | ub e => rw [h2] at h; cases h
    | ok tw =>
      rw [h2] at h
      simp only at h
      split at h
      · simp only [pure, Pure.pure] at h
        cases h
        exact fun r hr => hr
      · cases h3 : purgeHierarchyChanges.chk t t.root.changes with
        | ub e => rw [h3] at h; cases h
        | ok u =>
          rw [h3] at h
          simp only [pure, Pure.pure] at h
          cases h
          exact fun r hr => (List.mem_filter.1 hr).1

/-- Child lists only shrink and the queue only loses requests. -/
def Shrinks (t t' : Tree) : Prop :=
  (∀ r ∈ t'.root.changes, r ∈ t.root.changes) ∧
  (∀ (x : Nat) (w' : Win), t'.wins[x]? = some w' → ∃ w, t.wins[x]? = some w ∧ (∀ ch ∈ w'.children, ch ∈ w.children) ∧ w'.rect = w.rect) ∧
  (t.root.needsLater = true → t'.root.needsLater = true)

theorem Shrinks.refl (t : Tree) : Shrinks t t := ⟨fun _ h => h, fun _ w h => ⟨w, h, fun _ hc => hc, rfl⟩, fun h => h⟩

theorem Shrinks.trans {a b c : Tree} (h1 : Shrinks a b) (h2 : Shrinks b c) : Shrinks a c := by
  refine ⟨fun r hr => h1.1 r (h2.1 r hr), fun x w hw => ?_, fun h => h2.2.2 (h1.2.2 h)⟩
  obtain ⟨wb, hwb, hs, hr⟩ := h2.2.1 x w hw
  obtain ⟨wa, hwa, hs', hr'⟩ := h1.2.1 x wb hwb
  exact ⟨wa, hwa, fun ch hc => hs' ch (hs ch hc), hr.trans hr'⟩

theorem shrinks_of_eq {t t' : Tree} (hw : t'.wins = t.wins) (hc : t'.root.changes = t.root.changes)
    (hl : t.root.needsLater = true → t'.root.needsLater = true) : Shrinks t t' :=
  ⟨fun r hr => by rw [hc] at hr; exact hr, fun x w h => ⟨w, by rw [← hw]; exact h, fun _ hc => hc, rfl⟩, hl⟩

theorem shrinks_set (t : Tree) (id : Id) (w w' : Win) (hw : t.wins[id]? = some w) (hc : ∀ ch ∈ w'.children, ch ∈ w.children)
    (hr : w'.rect = w.rect) :
    Shrinks t (WinTree.set t id w') := by
  refine ⟨fun r hr => hr, fun x wx hx => ?_, fun h => h⟩
  by_cases hxi : x = id
  · subst hxi
    rw [set_wins_self t x w w' hw] at hx
    cases hx
    exact ⟨w, hw, hc, hr⟩
  · rw [set_wins_other t id x w' hxi] at hx
    exact ⟨wx, hx, fun _ h => h, rfl⟩

theorem close_shrinks (t t' : Tree) (fuel : Nat) (id : Id) (h : WinTree.close t fuel id = .ok t') : Shrinks t t' := by
  unfold WinTree.close at h
  simp only [bind, Bind.bind] at h
  cases hg : WinTree.get t id with
  | ub e => rw [hg] at h; cases h
  | ok w0 =>
    rw [hg] at h
    simp only at h
    have fin : ∀ (tc : Tree), WinTree.modify tc id (fun w => { w with isClosed := true }) = .ok t' → Shrinks tc t' := by
      intro tc hm
      unfold WinTree.modify at hm
      simp only [bind, Bind.bind] at hm
      cases hgc : WinTree.get tc id with
      | ub e => rw [hgc] at hm; cases hm
      | ok wc =>
        rw [hgc] at hm
        simp only [pure, Pure.pure] at hm
        cases hm
        exact shrinks_set tc id wc _ (get_ok hgc).1 (fun _ hc => hc) rfl
    cases hp : w0.parent with
    | none =>
      simp only [hp, pure, Pure.pure] at h
      exact fin t h
    | some p =>
      simp only [hp] at h
      cases hpu : purgeHierarchyChanges t fuel id with
      | ub e => rw [hpu] at h; cases h
      | ok tq =>
        rw [hpu] at h
        simp only at h
        have hs1 : Shrinks t tq :=
          ⟨purge_changes_sub t fuel id tq hpu, fun x w hx => ⟨w, by rw [← (purge_spec t fuel id tq hpu).1]; exact hx, fun _ hc => hc, rfl⟩,
            fun hx => by rw [(purge_spec t fuel id tq hpu).2.2.2.1]; exact hx⟩
        cases hd : doHierarchyChange tq fuel .remove p id with
        | ub e => rw [hd] at h; cases h
        | ok td =>
          rw [hd] at h
          simp only at h
          refine (hs1.trans ?_).trans (fin td h)
          unfold doHierarchyChange at hd
          simp only [bind, Bind.bind] at hd
          cases hgp : WinTree.get tq p with
          | ub e => rw [hgp] at hd; cases hd
          | ok pw =>
            rw [hgp] at hd
            simp only at hd
            cases hgi : WinTree.get tq id with
            | ub e => rw [hgi] at hd; cases hd
            | ok wi =>
              rw [hgi] at hd
              simp only at hd
              cases hlr : listRemove pw.children id with
              | ub e => rw [hlr] at hd; cases hd
              | ok cs =>
                rw [hlr] at hd
                simp only at hd
                obtain ⟨hcs, _⟩ := listRemove_spec _ _ _ hlr
                generalize hta : WinTree.set tq p { pw with children := cs, focusedChild := if pw.focusedChild = some id then none else pw.focusedChild } = ta at hd
                have hsa : Shrinks tq ta := by
                  rw [← hta]
                  exact shrinks_set tq p pw _ (get_ok hgp).1 (fun ch hc => by
                    have : ch ∈ cs := hc
                    rw [hcs] at this
                    exact List.mem_of_mem_erase this) rfl
                cases hga : WinTree.get ta id with
                | ub e => rw [hga] at hd; cases hd
                | ok wa =>
                  rw [hga] at hd
                  simp only [pure, Pure.pure] at hd
                  generalize htb : WinTree.set ta id { wa with parent := none } = tb at hd
                  have hsb : Shrinks ta tb := by
                    rw [← htb]
                    exact shrinks_set ta id wa _ (get_ok hga).1 (fun _ hc => hc) rfl
                  refine (hsa.trans hsb).trans ?_
                  split at hd
                  · obtain ⟨e1, e2, e3⟩ := expose_wins_root _ tb p _ td hd
                    exact shrinks_of_eq e1 e2 e3
                  · cases hd
                    exact Shrinks.refl _

theorem ordered_shrinks {t t' : Tree} (h : Shrinks t t') (ho : Ordered t) : Ordered t' :=
  ordered_of_children (fun x w' hw' => by obtain ⟨w, a, b, _⟩ := h.2.1 x w' hw'; exact ⟨w, a, b⟩) ho

/-- Every queued request is of a restacking kind. -/
def QueueOk (t : Tree) : Prop := ∀ r ∈ t.root.changes, isRestack r.change = true

theorem queueOk_shrinks {t t' : Tree} (h : Shrinks t t') (hq : QueueOk t) : QueueOk t' :=
  fun r hr => hq r (h.1 r hr)

theorem queueOk_rootStep {t t' : Tree} (h : RootStep t t') (hq : QueueOk t) : QueueOk t' := by
  intro r hr
  rw [h.changes] at hr
  exact hq r hr

/-- `_request_hierarchy_change` only appends to the queue (and asks for later processing). -/
theorem request_spec (t t' : Tree) (fuel : Nat) (ch : Change) (win : Id) (h : requestHierarchyChange t fuel ch win = .ok t') :
    t'.wins = t.wins ∧ t'.root.damage = t.root.damage ∧ t'.root.needsExpose = t.root.needsExpose ∧
    (t.root.needsLater = true → t'.root.needsLater = true) ∧
    (t'.root.changes = t.root.changes ∨ ∃ p, t'.root.changes = t.root.changes ++ [⟨ch, p, win⟩]) := by
  unfold requestHierarchyChange at h
  simp only [bind, Bind.bind] at h
  cases hg : WinTree.get t win with
  | ub e => rw [hg] at h; cases h
  | ok w =>
    rw [hg] at h
    simp only at h
    cases hp : w.parent with
    | none =>
      simp only [hp, pure, Pure.pure] at h
      cases h
      exact ⟨rfl, rfl, rfl, fun hx => hx, Or.inl rfl⟩
    | some p =>
      simp only [hp] at h
      cases hr : getRoot t fuel win with
      | ub e => rw [hr] at h; cases h
      | ok r =>
        rw [hr] at h
        simp only [pure, Pure.pure] at h
        cases h
        exact ⟨rfl, rfl, rfl, fun hx => by simp [hx], Or.inr ⟨p, rfl⟩⟩

/-! ### the store after `tickit_window_close`, window by window -/

theorem core_set_of_core (t : Tree) (id : Id) (w w' : Win) (hw : t.wins[id]? = some w) (hc : core w' = core w) (x : Id) :
    ((WinTree.set t id w').wins[x]?).map core = (t.wins[x]?).map core := by
  by_cases hx : x = id
  · subst hx
    rw [set_wins_self t x w w' hw, hw]
    simp [hc]
  · rw [set_wins_other t id x w' hx]

theorem close_shape (t t' : Tree) (fuel : Nat) (id : Id) (h : WinTree.close t fuel id = .ok t') :
    ∃ w0, t.wins[id]? = some w0 ∧
     ((w0.parent = none ∧ ∀ x : Id, (t'.wins[x]?).map core = (t.wins[x]?).map core) ∨
      (∃ p pw, w0.parent = some p ∧ t.wins[p]? = some pw ∧ id ∈ pw.children ∧
        (∀ x : Id, x ≠ p → x ≠ id → (t'.wins[x]?).map core = (t.wins[x]?).map core) ∧
        (∃ w0', t'.wins[id]? = some w0' ∧ w0'.parent = none ∧ (p ≠ id → w0'.children = w0.children)) ∧
        (p ≠ id → ∃ pw', t'.wins[p]? = some pw' ∧ pw'.parent = pw.parent ∧ pw'.children = pw.children.erase id))) := by
  unfold WinTree.close at h
  simp only [bind, Bind.bind] at h
  cases hg : WinTree.get t id with
  | ub e => rw [hg] at h; cases h
  | ok w0 =>
    rw [hg] at h
    simp only at h
    have hw0 := get_ok hg
    refine ⟨w0, hw0.1, ?_⟩
    have fin : ∀ (tc : Tree), WinTree.modify tc id (fun w => { w with isClosed := true }) = .ok t' →
        ∀ x : Id, (t'.wins[x]?).map core = (tc.wins[x]?).map core := by
      intro tc hm
      unfold WinTree.modify at hm
      simp only [bind, Bind.bind] at hm
      cases hgc : WinTree.get tc id with
      | ub e => rw [hgc] at hm; cases hm
      | ok wc =>
        rw [hgc] at hm
        simp only [pure, Pure.pure] at hm
        cases hm
        exact core_set_closed tc id wc (get_ok hgc).1
    cases hp : w0.parent with
    | none =>
      simp only [hp, pure, Pure.pure] at h
      exact Or.inl ⟨rfl, fin t h⟩
    | some p =>
      simp only [hp] at h
      right
      cases hpu : purgeHierarchyChanges t fuel id with
      | ub e => rw [hpu] at h; cases h
      | ok tq =>
        rw [hpu] at h
        simp only at h
        have hqw := (purge_spec t fuel id tq hpu).1
        cases hd : doHierarchyChange tq fuel .remove p id with
        | ub e => rw [hd] at h; cases h
        | ok td =>
          rw [hd] at h
          simp only at h
          have hfin := fin td h
          unfold doHierarchyChange at hd
          simp only [bind, Bind.bind] at hd
          rw [get_congr_wins hqw p, get_congr_wins hqw id, hg] at hd
          cases hgp : WinTree.get t p with
          | ub e => rw [hgp] at hd; cases hd
          | ok pw =>
            rw [hgp] at hd
            have hpw := get_ok hgp
            simp only at hd
            cases hlr : listRemove pw.children id with
            | ub e => rw [hlr] at hd; cases hd
            | ok cs =>
              rw [hlr] at hd
              simp only at hd
              obtain ⟨hcs, hmem⟩ := listRemove_spec _ _ _ hlr
              generalize hpw' : ({ pw with children := cs, focusedChild := if pw.focusedChild = some id then none else pw.focusedChild } : Win) = pw' at hd
              have hpw'f : pw'.parent = pw.parent ∧ pw'.children = pw.children.erase id := by
                rw [← hpw', hcs]; exact ⟨rfl, rfl⟩
              generalize hta : WinTree.set tq p pw' = ta at hd
              cases hga : WinTree.get ta id with
              | ub e => rw [hga] at hd; cases hd
              | ok wa =>
                rw [hga] at hd
                have hwa := get_ok hga
                simp only [pure, Pure.pure] at hd
                generalize htb : WinTree.set ta id { wa with parent := none } = tb at hd
                have hb_id : tb.wins[id]? = some { wa with parent := none } := by
                  rw [← htb]; exact set_wins_self ta id wa _ hwa.1
                have hb_other : ∀ x : Id, x ≠ p → x ≠ id → tb.wins[x]? = t.wins[x]? := by
                  intro x hxp hxi
                  rw [← htb, set_wins_other ta id x _ hxi, ← hta, set_wins_other tq p x _ hxp, hqw]
                have hwa_eq : p ≠ id → wa = w0 := by
                  intro hpi
                  have : ta.wins[id]? = some w0 := by
                    rw [← hta, set_wins_other tq p id _ (Ne.symm hpi), hqw]; exact hw0.1
                  rw [hwa.1] at this
                  exact Option.some.inj this
                have hb_p : p ≠ id → tb.wins[p]? = some pw' := by
                  intro hpi
                  rw [← htb, set_wins_other ta id p _ hpi, ← hta]
                  exact set_wins_self tq p pw _ (by rw [hqw]; exact hpw.1)
                have hwd : td.wins = tb.wins := by
                  split at hd
                  · exact (expose_wins_root _ tb p _ td hd).1
                  · cases hd; rfl
                refine ⟨p, pw, rfl, hpw.1, hmem, ?_, ?_, ?_⟩
                · intro x hxp hxi
                  rw [hfin x, hwd, hb_other x hxp hxi]
                · have := hfin id
                  rw [hwd, hb_id] at this
                  cases hti : t'.wins[id]? with
                  | none => rw [hti] at this; simp at this
                  | some w0' =>
                    rw [hti] at this
                    simp only [Option.map_some, Option.some.injEq, core, Prod.mk.injEq] at this
                    exact ⟨w0', rfl, this.2.2.2.2.1, fun hpi => by rw [this.2.2.2.1, hwa_eq hpi]⟩
                · intro hpi
                  have := hfin p
                  rw [hwd, hb_p hpi] at this
                  cases hti : t'.wins[p]? with
                  | none => rw [hti] at this; simp at this
                  | some pw2 =>
                    rw [hti] at this
                    simp only [Option.map_some, Option.some.injEq, core, Prod.mk.injEq] at this
                    exact ⟨pw2, rfl, by rw [this.2.2.2.2.1]; exact hpw'f.1, by rw [this.2.2.2.1]; exact hpw'f.2⟩

/-- `TInv` only reads the store through `core` and the damage. -/
theorem tinv_congr_core (content : Id → Int → Int → Cell) (screen : Int → Int → Cell) (t t' : Tree)
    (hcore : ∀ x : Id, (t'.wins[x]?).map core = (t.wins[x]?).map core) (hsz : t'.wins.size = t.wins.size)
    (hd : t'.root.damage = t.root.damage) (hI : TInv content screen t) : TInv content screen t' :=
  ⟨treeOk_congr_core hcore hI.ok, ordered_core hcore hI.ord, rootsPositive_congr_core hcore hI.pos,
    by rw [hd]; exact hI.nonempty, by rw [hd]; exact hI.dinv, fun L C w l c ho => by
      rw [ownerAt_congr_view (fun x => map_core_view (hcore x)) hsz] at ho
      rw [hd]
      exact hI.inv L C w l c ho⟩

/-- **`tickit_window_close`** of any window (the root included, whatever its visibility), with requests queued. -/
theorem close_tinv (content : Id → Int → Int → Cell) (screen : Int → Int → Cell) (t t' : Tree) (id : Id)
    (h : WinTree.close t (t.wins.size + 1) id = .ok t') (hI : TInv content screen t) :
    TInv content screen t' ∧ (Flags t → Flags t') := by
  have hok := hI.ok
  unfold WinTree.close at h
  simp only [bind, Bind.bind] at h
  cases hg : WinTree.get t id with
  | ub e => rw [hg] at h; cases h
  | ok w0 =>
    rw [hg] at h
    simp only at h
    have hw0 := get_ok hg
    have fin : ∀ (tc : Tree), WinTree.modify tc id (fun w => { w with isClosed := true }) = .ok t' →
        (∀ x : Id, (t'.wins[x]?).map core = (tc.wins[x]?).map core) ∧ t'.root = tc.root ∧ t'.wins.size = tc.wins.size := by
      intro tc hm
      unfold WinTree.modify at hm
      simp only [bind, Bind.bind] at hm
      cases hgc : WinTree.get tc id with
      | ub e => rw [hgc] at hm; cases hm
      | ok wc =>
        rw [hgc] at hm
        simp only [pure, Pure.pure] at hm
        cases hm
        exact ⟨core_set_closed tc id wc (get_ok hgc).1, rfl, set_size _ _ _⟩
    cases hp : w0.parent with
    | none =>
      simp only [hp, pure, Pure.pure] at h
      obtain ⟨hcore, hroot, hsz⟩ := fin t h
      exact ⟨tinv_congr_core content screen t t' hcore hsz (by rw [hroot]) hI, fun hf => by unfold Flags; rw [hroot]; exact hf⟩
    | some p =>
      simp only [hp] at h
      have hpid : p ≠ id := fun hx => hok.noSelf id w0 hw0.1 (by rw [hp, hx])
      have hid0 : id ≠ 0 := by
        intro hx
        obtain ⟨rw0, hrw0, _, _, hrp, _⟩ := hok.rootWin.ex
        rw [hx] at hw0
        rw [hw0.1] at hrw0; cases hrw0
        rw [hp] at hrp; cases hrp
      cases hpu : purgeHierarchyChanges t (t.wins.size + 1) id with
      | ub e => rw [hpu] at h; cases h
      | ok tq =>
        rw [hpu] at h
        simp only at h
        obtain ⟨hqw, hqd, hqe, hql, _⟩ := purge_spec t _ id tq hpu
        have hIq : TInv content screen tq :=
          tinv_congr_core content screen t tq (fun x => by rw [hqw]) (by rw [hqw]) hqd hI
        cases hd : doHierarchyChange tq (t.wins.size + 1) .remove p id with
        | ub e => rw [hd] at h; cases h
        | ok td =>
          rw [hd] at h
          simp only at h
          obtain ⟨hcore, hroot, hsz⟩ := fin td h
          unfold doHierarchyChange at hd
          simp only [bind, Bind.bind] at hd
          rw [get_congr_wins hqw p, get_congr_wins hqw id, hg] at hd
          cases hgp : WinTree.get t p with
          | ub e => rw [hgp] at hd; cases hd
          | ok pw =>
            rw [hgp] at hd
            have hpw := get_ok hgp
            simp only at hd
            cases hlr : listRemove pw.children id with
            | ub e => rw [hlr] at hd; cases hd
            | ok cs =>
              rw [hlr] at hd
              simp only at hd
              obtain ⟨hcs, hmem⟩ := listRemove_spec _ _ _ hlr
              generalize hpw' : ({ pw with children := cs, focusedChild := if pw.focusedChild = some id then none else pw.focusedChild } : Win) = pw' at hd
              have hpw'f : pw'.isVisible = pw.isVisible ∧ pw'.freed = pw.freed ∧ pw'.rect = pw.rect ∧ pw'.parent = pw.parent ∧
                  pw'.isRoot = pw.isRoot ∧ pw'.children = pw.children.erase id := by
                rw [← hpw', hcs]; exact ⟨rfl, rfl, rfl, rfl, rfl, rfl⟩
              generalize hta : WinTree.set tq p pw' = ta at hd
              have hta_id : ta.wins[id]? = some w0 := by
                rw [← hta, set_wins_other tq p id _ (Ne.symm hpid), hqw]; exact hw0.1
              have hga : WinTree.get ta id = .ok w0 := by
                unfold WinTree.get; rw [hta_id]; simp [hw0.2]
              rw [hga] at hd
              simp only [pure, Pure.pure] at hd
              generalize htb : WinTree.set ta id { w0 with parent := none } = tb at hd
              have hb_id : tb.wins[id]? = some { w0 with parent := none } := by
                rw [← htb]; exact set_wins_self ta id w0 _ hta_id
              have hb_p : tb.wins[p]? = some pw' := by
                rw [← htb, set_wins_other ta id p _ hpid, ← hta]
                exact set_wins_self tq p pw _ (by rw [hqw]; exact hpw.1)
              have hb_other : ∀ x : Id, x ≠ p → x ≠ id → tb.wins[x]? = tq.wins[x]? := by
                intro x hxp hxi
                rw [← htb, set_wins_other ta id x _ hxi, ← hta, set_wins_other tq p x _ hxp]
              have hb_size : tb.wins.size = tq.wins.size := by rw [← htb, set_size, ← hta, set_size]
              have hb_root : tb.root = tq.root := by rw [← htb, ← hta]; rfl
              have honly : ∀ (x : Id) (w : Win), x ≠ p → x ≠ id → tq.wins[x]? = some w → id ∉ w.children := by
                intro x w hx _ hw hm
                rw [hqw] at hw
                obtain ⟨cw, hcw, hcp, _⟩ := hok.wf.child x w hw id hm
                rw [hw0.1] at hcw; cases hcw
                rw [hp] at hcp
                exact hx (Option.some.inj hcp).symm
              have hnd := hok.nodup p pw hpw.1
              obtain ⟨r1, r2, r3, _⟩ := relist_gen content screen tq tb td p id pw pw' w0 { w0 with parent := none }
                (pw.children.erase id) (t.wins.size + 1) hIq (by rw [hqw]; omega) (by rw [hqw]; exact hpw.1)
                (by rw [hqw]; exact hw0.1) hpid hid0 honly (erase_filter_ne id _) (hnd.erase id) hb_p hpw'f hb_id
                ⟨rfl, rfl, rfl, rfl, rfl, Or.inr rfl⟩ hb_other hb_size hb_root
                (fun hx => absurd hx (List.Nodup.not_mem_erase hnd)) hd
              refine ⟨tinv_congr_core content screen td t' hcore hsz (by rw [hroot]) r1, fun hf => ?_⟩
              have hfq : Flags tq := by
                intro hdd
                rw [hqd] at hdd
                rw [hqe, hql]
                exact hf hdd
              have := r2.flags hfq
              unfold Flags
              rw [hroot]
              exact this

theorem close_pc (t t' : Tree) (fuel : Nat) (id : Id) (h : WinTree.close t fuel id = .ok t') (hns : NoSelfParent t)
    (hpl : ParentListed t) : ParentListed t' := by
  obtain ⟨w0, hw0, hcase⟩ := close_shape t t' fuel id h
  rcases hcase with ⟨_, hcore⟩ | ⟨p, pw, hp, hpw, hmem, hother, ⟨w0', hw0', hw0p, hw0c⟩, hpp⟩
  · exact parentListed_core hcore hpl
  · have hpi : p ≠ id := fun hx => hns id w0 hw0 (by rw [hp, hx])
    obtain ⟨pw', hpw', hpwp, hpwc⟩ := hpp hpi
    -- the children of any window `q` in `t'`, from those in `t`
    have hkids : ∀ (q : Id) (qw : Win) (x : Nat), t.wins[q]? = some qw → x ∈ qw.children → x ≠ id →
        ∃ qw', t'.wins[q]? = some qw' ∧ x ∈ qw'.children := by
      intro q qw x hqw hx hxi
      by_cases hqp : q = p
      · subst hqp
        rw [hpw] at hqw; cases hqw
        exact ⟨pw', hpw', by rw [hpwc]; exact (List.mem_erase_of_ne hxi).2 hx⟩
      · by_cases hqi : q = id
        · subst hqi
          rw [hw0] at hqw; cases hqw
          exact ⟨w0', hw0', by rw [hw0c hpi]; exact hx⟩
        · obtain ⟨qw', hqw', hc⟩ := map_core_some (hother q hqp hqi) hqw
          simp only [core, Prod.mk.injEq] at hc
          exact ⟨qw', hqw', by rw [hc.2.2.2.1]; exact hx⟩
    intro x wb q hwb hq
    by_cases hxi : x = id
    · subst hxi
      rw [hw0'] at hwb; cases hwb
      rw [hw0p] at hq; cases hq
    · by_cases hxp : x = p
      · subst hxp
        rw [hpw'] at hwb; cases hwb
        rw [hpwp] at hq
        obtain ⟨qw, hqw, hm⟩ := hpl x pw q hpw hq
        exact hkids q qw x hqw hm hxi
      · obtain ⟨w, hw, hc⟩ := map_core_some (hother x hxp hxi).symm hwb
        simp only [core, Prod.mk.injEq] at hc
        obtain ⟨qw, hqw, hm⟩ := hpl x w q hw (by rw [hc.2.2.2.2.1]; exact hq)
        exact hkids q qw x hqw hm hxi

theorem parentListed_sameBut {t t' : Tree} {id : Id} (h : SameBut t t' id) (hp : ParentListed t) : ParentListed t' := by
  intro x w' p hw' hpar
  obtain ⟨w, hw, hc⟩ := noVis_some (sameBut_noVis h x).symm hw'
  simp only [coreNoVis, Prod.mk.injEq] at hc
  obtain ⟨pw, hpw, hmem⟩ := hp x w p hw (by rw [hc.2.2.2.1]; exact hpar)
  obtain ⟨pw', hpw', hc'⟩ := noVis_some (sameBut_noVis h p) hpw
  simp only [coreNoVis, Prod.mk.injEq] at hc'
  exact ⟨pw', hpw', by rw [hc'.2.2.1]; exact hmem⟩

theorem parentListed_sameButG {t t' : Tree} {id : Id} (h : SameButG t t' id) (hp : ParentListed t) : ParentListed t' := by
  intro x w' p hw' hpar
  obtain ⟨w, hw, hc, _⟩ := sameButG_struct (sameButG_symm h) x hw'
  simp only [coreSelf, Prod.mk.injEq] at hc
  obtain ⟨pw, hpw, hmem⟩ := hp x w p hw (by rw [hc.2.2.1]; exact hpar)
  obtain ⟨pw', hpw', hc', _⟩ := sameButG_struct h p hpw
  simp only [coreSelf, Prod.mk.injEq] at hc'
  exact ⟨pw', hpw', by rw [hc'.2.1]; exact hmem⟩

end WinFlush
end Tickit
