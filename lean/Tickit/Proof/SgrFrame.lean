import Tickit.Proof.Sgr
/-
  Proof/SgrFrame.lean — C10 without `DeltaOk`: what the terminal shows after ANY history, including requests for the two
  attribute values that have no SGR encoding (an underline style ≥ 3 without `:` sub-parameters, `TICKIT_PEN_SIZEPOS_SMALL`).

  * `ovAttrsR`: what the bytes of the xterm encoder really do to the rendering attributes, for every delta
    (`fold_compsR`): an unencodable underline style is drawn single, an unencodable size/position changes nothing.
  * `step_attrs`: the terminal after one request, as a function of the terminal before (no invariant needed).
  * `RInv`: the relaxed invariant — every rendering attribute other than size/position is determined by the cached pen,
    size/position whenever the cached value has an encoding — and its preservation (`step_rinv`, `runOps_rinv`).
  * `step_frame`: `chpen` leaves every rendering attribute absent from its argument as it was.
-/
namespace Tickit.Proof.Sgr
open Tickit.Sgr Tickit.TermPen

/-- The underline style a terminal shows for the style `v` as the xterm driver encodes it (`underComps`): without `:`
    sub-parameters everything above double is a plain single underline. -/
def encUnder (colon : Bool) (v : Int) : Nat :=
  if v ≤ 0 then 0
  else if v = 1 then 1
  else if !colon then (if v = Tickit.Gen.Sgr.underDouble then 2 else 1)
  else v.toNat

/-- The size/position values that have an SGR parameter (`sizeposComps`). -/
def sizeEnc (v : Int) : Prop :=
  v = 0 ∨ v = Tickit.Gen.Sgr.sizeposSuperscript ∨ v = Tickit.Gen.Sgr.sizeposSubscript

instance (v : Int) : Decidable (sizeEnc v) := by unfold sizeEnc; exact inferInstance

theorem encUnder_ok (colon : Bool) (v : Int) (h0 : 0 ≤ v) (h : colon = true ∨ v ≤ 2) : encUnder colon v = v.toNat := by
  unfold encUnder
  by_cases h1 : v ≤ 0
  · rw [if_pos h1]; omega
  · rw [if_neg h1]
    by_cases h2 : v = 1
    · rw [if_pos h2]; omega
    · rw [if_neg h2]
      cases colon with
      | true => simp
      | false =>
        have : v = 2 := by
          rcases h with h | h
          · cases h
          · omega
        subst this
        simp [Tickit.Gen.Sgr.underDouble]

/-- What the bytes sent for the delta `d` do to the rendering attributes `a` — no hypothesis on `d`. -/
def ovAttrsR (caps : Caps) (d : Pen) (a : Attrs) : Attrs :=
  { fg := ovColour caps.rgb8 d.fg a.fg
    bg := ovColour caps.rgb8 d.bg a.bg
    bold := d.bold.getD a.bold
    faint := a.faint
    italic := d.italic.getD a.italic
    under := (d.under.map (encUnder caps.colon)).getD a.under
    blink := d.blink.getD a.blink
    reverse := d.reverse.getD a.reverse
    strike := d.strike.getD a.strike
    font := (d.altfont.map expectFont).getD a.font
    sizepos := match d.sizepos with
      | some v => if sizeEnc v then expectSizepos v else a.sizepos
      | none => a.sizepos
    junk := a.junk }

theorem fold_underR (colon : Bool) (o : Option Int) (a : Attrs) (h : ∀ v, o = some v → 0 ≤ v) :
    (groupsOf colon (underComps colon o)).foldl sgrGroup (a, .none) =
      ({ a with under := (o.map (encUnder colon)).getD a.under }, .none) := by
  cases o with
  | none => simp [underComps, groupsOf_nil]
  | some v =>
    have h0 := h v rfl
    simp only [underComps, Option.map_some, Option.getD_some, encUnder]
    by_cases hv0 : v = 0
    · subst hv0
      cases colon <;> simp [groupsOf, sgrGroup, sgrSimple, Tickit.Gen.Sgr.sgrOff]
    · simp only [hv0, if_false]
      rw [if_neg (show ¬ v ≤ 0 by omega)]
      by_cases hv1 : v = 1
      · subst hv1
        cases colon <;> simp [groupsOf, sgrGroup, sgrSimple, Tickit.Gen.Sgr.sgrOn]
      · simp only [hv1, if_false]
        cases colon with
        | true => simp [groupsOf, sgrGroup, sgrSub, Tickit.Gen.Sgr.sgrOn]
        | false =>
          by_cases hv2 : v = Tickit.Gen.Sgr.underDouble
          · simp [hv2, groupsOf, sgrGroup, sgrSimple]
          · simp [hv2, groupsOf, sgrGroup, sgrSimple, Tickit.Gen.Sgr.sgrOn]

theorem fold_sizeposR (colon : Bool) (o : Option Int) (a : Attrs) :
    (groupsOf colon (sizeposComps o)).foldl sgrGroup (a, .none) =
      ({ a with sizepos := match o with
          | some v => if sizeEnc v then expectSizepos v else a.sizepos
          | none => a.sizepos }, .none) := by
  cases o with
  | none => simp [sizeposComps, groupsOf_nil]
  | some v =>
    by_cases h : sizeEnc v
    · simp only [h, if_true]
      have := fold_sizepos colon (some v) a (by intro w hw; cases hw; exact h)
      simpa using this
    · simp only [h, if_false]
      have h' := h
      unfold sizeEnc at h'
      have h0 : ¬ v = 0 := fun e => h' (Or.inl e)
      have h2 : ¬ v = Tickit.Gen.Sgr.sizeposSuperscript := fun e => h' (Or.inr (Or.inl e))
      have h3 : ¬ v = Tickit.Gen.Sgr.sizeposSubscript := fun e => h' (Or.inr (Or.inr e))
      simp [sizeposComps, h0, h2, h3, groupsOf_nil]

/-- The SGR interpreter on everything the xterm driver sends for a delta, whatever the delta. -/
theorem fold_compsR (caps : Caps) (d : Pen) (a : Attrs) (hu : ∀ v, d.under = some v → 0 ≤ v) (hf : a.faint = false) :
    (groupsOf caps.colon (comps caps d)).foldl sgrGroup (a, .none) = (ovAttrsR caps d a, .none) := by
  unfold comps
  simp only [groupsOf_append, List.foldl_append]
  rw [fold_colour_fg, fold_colour_bg, fold_bold _ _ _ (by exact hf), fold_underR _ _ _ hu, fold_italic, fold_reverse,
    fold_strike, fold_altfont, fold_blink, fold_sizeposR]
  rfl

theorem sgrApply_compsR (caps : Caps) (d : Pen) (a : Attrs) (hu : ∀ v, d.under = some v → 0 ≤ v) (hf : a.faint = false) :
    sgrApply (groupsOf caps.colon (comps caps d)) a = ovAttrsR caps d a := by
  simp [sgrApply, fold_compsR caps d a hu hf]

theorem sizeposComps_eq_nil' (o : Option Int) (h : sizeposComps o = []) : o = none ∨ ∃ v, o = some v ∧ ¬ sizeEnc v := by
  cases o with
  | none => exact Or.inl rfl
  | some v =>
    refine Or.inr ⟨v, rfl, ?_⟩
    intro hs
    rcases hs with h0 | h0 | h0 <;> subst h0 <;>
      simp [sizeposComps, Tickit.Gen.Sgr.sizeposSuperscript, Tickit.Gen.Sgr.sizeposSubscript] at h

/-- No parameter to send ⇒ the bytes that would have been sent change nothing. -/
theorem ovAttrsR_of_comps_nil (caps : Caps) (d : Pen) (a : Attrs) (h : comps caps d = []) : ovAttrsR caps d a = a := by
  simp only [comps, List.append_eq_nil_iff] at h
  obtain ⟨⟨⟨⟨⟨⟨⟨⟨⟨h1, h2⟩, h3⟩, h4⟩, h5⟩, h6⟩, h7⟩, h8⟩, h9⟩, h10⟩ := h
  have e1 := colourComps_eq_nil _ _ _ h1
  have e2 := colourComps_eq_nil _ _ _ h2
  have e3 := boolComps_eq_nil _ _ h3
  have e4 := underComps_eq_nil _ _ h4
  have e5 := boolComps_eq_nil _ _ h5
  have e6 := boolComps_eq_nil _ _ h6
  have e7 := boolComps_eq_nil _ _ h7
  have e8 := altfontComps_eq_nil _ h8
  have e9 := boolComps_eq_nil _ _ h9
  rcases sizeposComps_eq_nil' _ h10 with e10 | ⟨v, e10, hv⟩
  · simp [ovAttrsR, ovColour, e1, e2, e3, e4, e5, e6, e7, e8, e9, e10]
  · simp [ovAttrsR, ovColour, e1, e2, e3, e4, e5, e6, e7, e8, e9, e10, hv]

/-! ### one request, on any terminal -/

/-- Either the attribute is left alone (nothing in the delta, cached value unchanged) or the delta and the cache both take
    the requested value. -/
theorem stepInt_cases (set : Bool) (c p : Option Int) :
    ((stepInt set c p).2 = none ∧ getInt (stepInt set c p).1 = getInt c) ∨
    ((stepInt set c p).2 = some (getInt p) ∧ getInt (stepInt set c p).1 = getInt p) := by
  unfold stepInt
  split
  · exact Or.inl ⟨rfl, rfl⟩
  · split
    · exact Or.inl ⟨rfl, rfl⟩
    · exact Or.inr ⟨rfl, rfl⟩

theorem delta_under_nonneg (set : Bool) (colors : Int) (cache p : Pen) (hu : ∀ v, p.under = some v → 0 ≤ v) :
    ∀ v, (termDelta set colors cache p).under = some v → 0 ≤ v := by
  intro v hv
  simp only [termDelta] at hv
  rcases stepInt_cases set cache.under p.under with ⟨h, _⟩ | ⟨h, _⟩
  · rw [h] at hv; cases hv
  · rw [h] at hv
    simp only [Option.some.injEq] at hv
    subst hv
    cases hp : p.under with
    | none => simp [getInt]
    | some w => simpa [getInt] using hu w hp

/-- The request is answered with the empty SGR (`ESC [ m`). -/
def shortcut (cfg : Cfg) (cache : Pen) (op : Op) : Bool :=
  (flatten (comps cfg.caps (termDelta op.isSet cfg.colors cache op.pen))).length ≠ 0 &&
    !isNondefault (termCache op.isSet cfg.colors cache op.pen)

/-- **The terminal after one request** (no invariant assumed): back in ground state; the rendering attributes are reset
    when the request is answered with the empty SGR and otherwise changed exactly as `ovAttrsR` says. -/
theorem step_attrs (cfg : Cfg) (st st' : TState) (op : Op) (hu : ∀ v, op.pen.under = some v → 0 ≤ v)
    (hg : st.vt.st = .ground) (hf : st.vt.attrs.faint = false) (h : step cfg st op = some st') :
    st'.vt.st = .ground ∧ st'.cache = termCache op.isSet cfg.colors st.cache op.pen ∧
    st'.vt.attrs = if shortcut cfg st.cache op then st.vt.attrs.reset
      else ovAttrsR cfg.caps (termDelta op.isSet cfg.colors st.cache op.pen) st.vt.attrs := by
  have hd := delta_under_nonneg op.isSet cfg.colors st.cache op.pen hu
  have hne := comps_nonempty cfg.caps (termDelta op.isSet cfg.colors st.cache op.pen)
  have hvt : st.vt = ⟨.ground, st.vt.attrs⟩ := by
    cases hv : st.vt with
    | mk s a => simp [hv] at hg; simp [hg]
  unfold step emit xtermChpen at h
  simp only at h
  split at h
  · cases h
  · rename_i bs hbs
    simp only [Option.some.injEq] at h
    subst h
    refine ⟨?_, rfl, ?_⟩
    · split at hbs
      · cases hbs
      · split at hbs
        · simp only [Out.bytes.injEq] at hbs
          subst hbs
          simpa [run] using hg
        · split at hbs <;>
          · simp only [Out.bytes.injEq] at hbs
            subst hbs
            show (run _ st.vt).st = _
            rw [hvt, run_renderSgr]
    · split at hbs
      · cases hbs
      · split at hbs
        · -- nothing to send
          rename_i hlen
          simp only [Out.bytes.injEq] at hbs
          subst hbs
          have hfl : flatten (comps cfg.caps (termDelta op.isSet cfg.colors st.cache op.pen)) = [] :=
            List.eq_nil_of_length_eq_zero hlen
          have hc := (flatten_eq_nil _ hne).1 hfl
          have hs : shortcut cfg st.cache op = false := by simp [shortcut, hlen]
          rw [hs]
          simp only [Bool.false_eq_true, if_false, run, List.foldl_nil]
          rw [ovAttrsR_of_comps_nil _ _ _ hc]
        · split at hbs
          · -- empty-SGR shortcut
            rename_i hlen hnd
            simp only [Out.bytes.injEq] at hbs
            subst hbs
            have hs : shortcut cfg st.cache op = true := by
              simp only [shortcut, Bool.and_eq_true, bne_iff_ne, ne_eq, decide_eq_true_eq]
              exact ⟨by simpa using hlen, by simpa using hnd⟩
            rw [hs]
            show (run _ st.vt).attrs = _
            rw [hvt, run_renderSgr]
            simp [groupsFlat, sgrApply, sgrGroup, sgrSimple]
          · rename_i hlen hnd
            simp only [Out.bytes.injEq] at hbs
            subst hbs
            have hs : shortcut cfg st.cache op = false := by
              simp only [shortcut, Bool.and_eq_false_iff]
              right
              simpa using hnd
            rw [hs]
            have hcs : comps cfg.caps (termDelta op.isSet cfg.colors st.cache op.pen) ≠ [] := by
              intro hc
              rw [hc] at hlen
              exact hlen rfl
            show (run _ st.vt).attrs = _
            rw [hvt, run_renderSgr]
            simp only [Bool.false_eq_true, if_false]
            rw [groupsFlat_flatten _ _ hcs hne, List.nil_append, sgrApply_compsR _ _ _ hd hf]

/-! ### the relaxed invariant -/

/-- Forget the two rendering attributes whose pen values may be unencodable. -/
def mask (a : Attrs) : Attrs := { a with under := 0, sizepos := .normal }

theorem mask_ovAttrsR (caps : Caps) (d : Pen) (a : Attrs) : mask (ovAttrsR caps d a) = mask (ovAttrs caps d (mask a)) := rfl

theorem mask_ovAttrs (caps : Caps) (d : Pen) (a : Attrs) : mask (ovAttrs caps d a) = mask (ovAttrs caps d (mask a)) := rfl

theorem mask_eq_fields {a b : Attrs} (h : mask a = mask b) :
    a.fg = b.fg ∧ a.bg = b.bg ∧ a.bold = b.bold ∧ a.faint = b.faint ∧ a.italic = b.italic ∧ a.blink = b.blink ∧
    a.reverse = b.reverse ∧ a.strike = b.strike ∧ a.font = b.font ∧ a.junk = b.junk :=
  ⟨(congrArg Attrs.fg h : (mask a).fg = (mask b).fg),
    (congrArg Attrs.bg h : (mask a).bg = (mask b).bg),
    (congrArg Attrs.bold h : (mask a).bold = (mask b).bold),
    (congrArg Attrs.faint h : (mask a).faint = (mask b).faint),
    (congrArg Attrs.italic h : (mask a).italic = (mask b).italic),
    (congrArg Attrs.blink h : (mask a).blink = (mask b).blink),
    (congrArg Attrs.reverse h : (mask a).reverse = (mask b).reverse),
    (congrArg Attrs.strike h : (mask a).strike = (mask b).strike),
    (congrArg Attrs.font h : (mask a).font = (mask b).font),
    (congrArg Attrs.junk h : (mask a).junk = (mask b).junk)⟩

/-- "The terminal renders with what the cached pen says, as far as that can be said": every attribute but underline and
    size/position exactly; the underline style as the driver can encode it; the size/position whenever the cached value has
    an SGR parameter. -/
structure RInv (caps : Caps) (st : TState) : Prop where
  ground : st.vt.st = .ground
  others : mask st.vt.attrs = mask (expectAttrs caps st.cache)
  under : st.vt.attrs.under = encUnder caps.colon (getInt st.cache.under)
  sizepos : sizeEnc (getInt st.cache.sizepos) → st.vt.attrs.sizepos = expectSizepos (getInt st.cache.sizepos)
  sizeNonneg : 0 ≤ getInt st.cache.sizepos

theorem rinv_init (caps : Caps) : RInv caps {} :=
  ⟨rfl, rfl, rfl, fun _ => rfl, by decide⟩

/-- "values in range" as far as the encoder cares: underline style and size/position are not negative. -/
def PenNonneg (p : Pen) : Prop :=
  (∀ v, p.under = some v → 0 ≤ v) ∧ (∀ v, p.sizepos = some v → 0 ≤ v)

theorem getInt_nonneg (o : Option Int) (h : ∀ v, o = some v → 0 ≤ v) : 0 ≤ getInt o := by
  cases o with
  | none => simp [getInt]
  | some v => simpa [getInt] using h v rfl

theorem not_nondefault_under (p : Pen) (h : isNondefault p = false) : getInt p.under ≤ 0 := by
  simp only [isNondefault, Bool.or_eq_false_iff, Bool.and_eq_false_iff] at h
  obtain ⟨⟨⟨⟨⟨⟨⟨⟨⟨_, _⟩, _⟩, h4⟩, _⟩, _⟩, _⟩, _⟩, _⟩, _⟩ := h
  cases hp : p.under with
  | none => simp [getInt]
  | some v =>
    have : ¬ (v > 0) := by simpa [hp, getInt] using h4
    simp [getInt]; omega

theorem not_nondefault_sizepos (p : Pen) (h : isNondefault p = false) : getInt p.sizepos ≤ 0 := by
  simp only [isNondefault, Bool.or_eq_false_iff, Bool.and_eq_false_iff] at h
  obtain ⟨⟨⟨⟨⟨⟨⟨⟨⟨_, _⟩, _⟩, _⟩, _⟩, _⟩, _⟩, _⟩, _⟩, h10⟩ := h
  cases hp : p.sizepos with
  | none => simp [getInt]
  | some v =>
    have : ¬ (v > 0) := by simpa [hp, getInt] using h10
    simp [getInt]; omega

theorem step_rinv (cfg : Cfg) (st st' : TState) (op : Op) (hp : PenNonneg op.pen) (hinv : RInv cfg.caps st)
    (h : step cfg st op = some st') : RInv cfg.caps st' := by
  have hfaint : st.vt.attrs.faint = false := congrArg Attrs.faint hinv.others
  have hjunk : st.vt.attrs.junk = 0 := congrArg Attrs.junk hinv.others
  obtain ⟨hg', hc', ha'⟩ := step_attrs cfg st st' op hp.1 hinv.ground hfaint h
  have hexp := expect_step cfg.caps op.isSet cfg.colors st.cache op.pen
  have hsz := stepInt_cases op.isSet st.cache.sizepos op.pen.sizepos
  have hnn : 0 ≤ getInt st'.cache.sizepos := by
    rw [hc']
    simp only [termCache]
    rcases hsz with ⟨_, e⟩ | ⟨_, e⟩
    · rw [e]; exact hinv.sizeNonneg
    · rw [e]; exact getInt_nonneg _ hp.2
  by_cases hs : shortcut cfg st.cache op = true
  · -- the empty SGR: everything default, and the cached pen has nothing non-default
    rw [if_pos hs] at ha'
    have hnd : isNondefault (termCache op.isSet cfg.colors st.cache op.pen) = false := by
      simp only [shortcut, Bool.and_eq_true] at hs
      simpa using hs.2
    have hE := expect_of_not_nondefault cfg.caps _ hnd
    refine ⟨hg', ?_, ?_, ?_, hnn⟩
    · rw [ha', hc', hE]
      simp [mask, Attrs.reset, hjunk]
    · rw [ha', hc']
      have := not_nondefault_under _ hnd
      simp only [Attrs.reset, encUnder]
      rw [if_pos this]
    · intro _
      rw [ha', hc']
      have hle := not_nondefault_sizepos _ hnd
      have h0 : getInt (termCache op.isSet cfg.colors st.cache op.pen).sizepos = 0 := by
        rw [hc'] at hnn; omega
      rw [h0]
      simp [Attrs.reset, expectSizepos, Tickit.Gen.Sgr.sizeposSuperscript, Tickit.Gen.Sgr.sizeposSubscript,
        Tickit.Gen.Sgr.sizeposSmall]
  · rw [if_neg hs] at ha'
    refine ⟨hg', ?_, ?_, ?_, hnn⟩
    · rw [ha', hc', hexp, mask_ovAttrsR, hinv.others, ← mask_ovAttrs]
    · rw [ha', hc']
      show ((termDelta op.isSet cfg.colors st.cache op.pen).under.map (encUnder cfg.caps.colon)).getD st.vt.attrs.under = _
      rw [hinv.under]
      exact (stepInt_expect (encUnder cfg.caps.colon) op.isSet st.cache.under op.pen.under).symm
    · intro hok
      rw [hc'] at hok
      simp only [termCache] at hok
      rw [ha', hc']
      show (match (termDelta op.isSet cfg.colors st.cache op.pen).sizepos with
        | some v => if sizeEnc v then expectSizepos v else st.vt.attrs.sizepos
        | none => st.vt.attrs.sizepos) = expectSizepos (getInt (stepInt op.isSet st.cache.sizepos op.pen.sizepos).1)
      simp only [termDelta]
      rcases hsz with ⟨e2, e1⟩ | ⟨e2, e1⟩
      · rw [e2, e1]
        rw [e1] at hok
        exact hinv.sizepos hok
      · rw [e2, e1]
        rw [e1] at hok
        simp only [hok, if_true]

theorem runOps_rinv (cfg : Cfg) (ops : List Op) (st st' : TState) (hok : ∀ op ∈ ops, PenNonneg op.pen)
    (hinv : RInv cfg.caps st) (h : runOps cfg ops st = some st') : RInv cfg.caps st' := by
  induction ops generalizing st with
  | nil => simp [runOps] at h; subst h; exact hinv
  | cons op ops ih =>
    simp only [runOps] at h
    split at h
    · cases h
    · rename_i st1 hst
      exact ih st1 (fun o ho => hok o (by simp [ho])) (step_rinv cfg st st1 op (hok op (by simp)) hinv hst) h

/-! ### the frame clause of change-pen -/

theorem stepBool_absent (c : Option Bool) : stepBool false c none = (c, none) := by simp [stepBool]
theorem stepInt_absent (c : Option Int) : stepInt false c none = (c, none) := by simp [stepInt]
theorem stepColour_absent (colors : Int) (c : Option Colour) : stepColour false colors c none = (c, none) := by
  simp [stepColour]

/-- **Frame.** On a terminal in the relaxed invariant (i.e. after any history), `chpen p` leaves every rendering attribute
    whose pen attribute is absent from `p` exactly as it was; `faint` is never touched and nothing is sent that the reference
    interpreter does not understand. -/
theorem step_frame (cfg : Cfg) (st st' : TState) (p : Pen) (hp : PenNonneg p) (hinv : RInv cfg.caps st)
    (h : step cfg st (.ch p) = some st') :
    (p.fg = none → st'.vt.attrs.fg = st.vt.attrs.fg) ∧ (p.bg = none → st'.vt.attrs.bg = st.vt.attrs.bg) ∧
    (p.bold = none → st'.vt.attrs.bold = st.vt.attrs.bold) ∧ (p.under = none → st'.vt.attrs.under = st.vt.attrs.under) ∧
    (p.italic = none → st'.vt.attrs.italic = st.vt.attrs.italic) ∧
    (p.reverse = none → st'.vt.attrs.reverse = st.vt.attrs.reverse) ∧
    (p.strike = none → st'.vt.attrs.strike = st.vt.attrs.strike) ∧ (p.altfont = none → st'.vt.attrs.font = st.vt.attrs.font) ∧
    (p.blink = none → st'.vt.attrs.blink = st.vt.attrs.blink) ∧
    (p.sizepos = none → st'.vt.attrs.sizepos = st.vt.attrs.sizepos) ∧
    st'.vt.attrs.faint = st.vt.attrs.faint ∧ st'.vt.attrs.junk = st.vt.attrs.junk := by
  have hinv' := step_rinv cfg st st' (.ch p) hp hinv h
  have hfaint : st.vt.attrs.faint = false := congrArg Attrs.faint hinv.others
  obtain ⟨_, hc', ha'⟩ := step_attrs cfg st st' (.ch p) hp.1 hinv.ground hfaint h
  simp only [Op.isSet, Op.pen] at hc' ha'
  have o' := hinv'.others
  rw [hc'] at o'
  obtain ⟨f0, g0, b0, _, i0, k0, r0, s0, n0, j0⟩ := mask_eq_fields hinv.others
  obtain ⟨f1, g1, b1, t1, i1, k1, r1, s1, n1, j1⟩ := mask_eq_fields o'
  refine ⟨?_, ?_, ?_, ?_, ?_, ?_, ?_, ?_, ?_, ?_, ?_, ?_⟩
  · intro hn
    rw [f1, f0]
    simp [expectAttrs, termCache, hn, stepColour_absent]
  · intro hn
    rw [g1, g0]
    simp [expectAttrs, termCache, hn, stepColour_absent]
  · intro hn
    rw [b1, b0]
    simp [expectAttrs, termCache, hn, stepBool_absent]
  · intro hn
    rw [hinv'.under, hinv.under, hc']
    simp [termCache, hn, stepInt_absent]
  · intro hn
    rw [i1, i0]
    simp [expectAttrs, termCache, hn, stepBool_absent]
  · intro hn
    rw [r1, r0]
    simp [expectAttrs, termCache, hn, stepBool_absent]
  · intro hn
    rw [s1, s0]
    simp [expectAttrs, termCache, hn, stepBool_absent]
  · intro hn
    rw [n1, n0]
    simp [expectAttrs, termCache, hn, stepInt_absent]
  · intro hn
    rw [k1, k0]
    simp [expectAttrs, termCache, hn, stepBool_absent]
  · intro hn
    have hcs : (termCache false cfg.colors st.cache p).sizepos = st.cache.sizepos := by
      simp [termCache, hn, stepInt_absent]
    have hds : (termDelta false cfg.colors st.cache p).sizepos = none := by
      simp [termDelta, hn, stepInt_absent]
    by_cases hs : shortcut cfg st.cache (.ch p) = true
    · -- the empty SGR is sent only when the cached size/position is the default: the terminal has it already
      have hnd : isNondefault (termCache false cfg.colors st.cache p) = false := by
        simp only [shortcut, Bool.and_eq_true, Op.isSet, Op.pen] at hs
        simpa using hs.2
      have hle := not_nondefault_sizepos _ hnd
      rw [hcs] at hle
      have h0 : getInt st.cache.sizepos = 0 := by
        have := hinv.sizeNonneg; omega
      have hold := hinv.sizepos (by rw [h0]; exact Or.inl rfl)
      rw [ha', if_pos hs, hold, h0]
      simp [Attrs.reset, expectSizepos, Tickit.Gen.Sgr.sizeposSuperscript, Tickit.Gen.Sgr.sizeposSubscript,
        Tickit.Gen.Sgr.sizeposSmall]
    · rw [ha', if_neg hs]
      simp only [ovAttrsR, hds]
  · rw [t1, hfaint]
    rfl
  · rw [j1, j0]
    rfl

end Tickit.Proof.Sgr
