import Tickit.Proof.LifeSigwinch
/-
  C08 proofs, part 11: the operations of `Model/LifeTop.lean` that work on the list of SIGWINCH observers
  (`xnew`, `xref`, `xunref`, `xobs`, `tobs`, `winch`) keep the chain invariant and touch nothing else.
-/
namespace Tickit.Life

/-- The operations on the further terminals and the list of SIGWINCH observers. -/
def XOp.isSw : XOp → Bool
  | .xnew | .xref _ | .xunref _ | .xobs .. | .tobs _ | .winch => true
  | _ => false

theorem heldX_spec {top : Top} {k : Nat} (h : heldX top k = true) : ∃ x, top.xterms[k]? = some x ∧ x.freed = false := by
  unfold heldX at h
  cases hx : top.xterms[k]? with
  | none => rw [hx] at h; cases h
  | some x =>
    rw [hx] at h
    simp only [Bool.and_eq_true, Bool.not_eq_true'] at h
    exact ⟨x, rfl, h.1⟩

theorem swFreed_heldX {top : Top} {k : Nat} (h : heldX top k = true) : swFreed top (k + 1) = false := by
  obtain ⟨x, hx, hf⟩ := heldX_spec h
  unfold swFreed
  simp only [Nat.add_one_ne_zero, if_false, Nat.add_sub_cancel, hx, Option.map_some, Option.getD_some]
  exact hf

theorem heldX_lt {top : Top} {k : Nat} (h : heldX top k = true) : k < top.xterms.size := by
  obtain ⟨x, hx, _⟩ := heldX_spec h
  apply Classical.byContradiction
  intro hn
  have : top.xterms[k]? = none := by apply Array.getElem?_eq_none; omega
  rw [this] at hx; cases hx

theorem SwOk.size {top : Top} (h : SwOk top) : top.sw.size = top.xterms.size + 1 := by
  obtain ⟨_, l, inv, _⟩ := h
  exact inv.size

theorem not_true_of {b : Bool} (h : ¬ b = true) : (!b) = true := by cases b <;> simp_all

/-- One such operation: it succeeds, keeps the chain invariant and leaves everything else alone. -/
theorem xstepCore_sw {tc : TCfg} (hc : tc.sigwinchClearsNext = true) {top : Top} (h : SwOk top) (op : XOp) (hop : op.isSw = true) :
    ∃ top' r, xstepCore tc top op = .ok (top', r) ∧ NonSw top top' ∧ SwOk top' := by
  cases op <;> simp only [XOp.isSw, Bool.false_eq_true] at hop
  case xnew =>
    by_cases h8 : top.xterms.size ≥ 8
    · exact ⟨top, "skip", by show (if top.xterms.size ≥ 8 then _ else _) = _; rw [if_pos h8]; rfl, NonSw.refl top, h⟩
    · exact ⟨_, "ok", by show (if top.xterms.size ≥ 8 then _ else _) = _; rw [if_neg h8]; rfl, by nonsw_rfl, swOk_xnew h⟩
  case xref k =>
    by_cases hh : heldX top k = true
    · refine ⟨_, "ok", ?_, ?_, swOk_xref h k⟩
      · show (if (!heldX top k) = true then _ else _) = _
        rw [if_neg (by rw [hh]; simp)]; rfl
      · nonsw_rfl
    · exact ⟨top, "skip", by show (if (!heldX top k) = true then _ else _) = _; rw [if_pos (not_true_of hh)]; rfl, NonSw.refl top, h⟩
  case xunref k =>
    by_cases hh : heldX top k = true
    · refine ⟨xUnref tc top k, hText (xUnref tc top k), ?_, nonSw_xUnref tc top k, (swOk_xUnref hc h k).1⟩
      show (if (!heldX top k) = true then _ else _) = _
      rw [if_neg (by rw [hh]; simp)]; rfl
    · exact ⟨top, "skip", by show (if (!heldX top k) = true then _ else _) = _; rw [if_pos (not_true_of hh)]; rfl, NonSw.refl top, h⟩
  case xobs k on =>
    by_cases hh : heldX top k = true
    · have hlt : k + 1 < top.sw.size := by rw [h.size]; have := heldX_lt hh; omega
      cases on with
      | true =>
        refine ⟨swObserve top (k + 1), hText (swObserve top (k + 1)), ?_, nonSw_observe top (k + 1), (swOk_observe h hlt (swFreed_heldX hh)).1⟩
        show (if (!heldX top k) = true then _ else _) = _
        rw [if_neg (by rw [hh]; simp)]; rfl
      | false =>
        refine ⟨swUnobserve tc top (k + 1), hText (swUnobserve tc top (k + 1)), ?_, nonSw_unobserve tc top (k + 1), (swOk_unobserve hc h (k + 1)).1⟩
        show (if (!heldX top k) = true then _ else _) = _
        rw [if_neg (by rw [hh]; simp)]; rfl
    · exact ⟨top, "skip", by show (if (!heldX top k) = true then _ else _) = _; rw [if_pos (not_true_of hh)]; rfl, NonSw.refl top, h⟩
  case tobs on =>
    by_cases hh : heldT top.st = true
    · have hlt : 0 < top.sw.size := by rw [h.size]; omega
      have hfr : swFreed top 0 = false := by
        unfold swFreed
        simp only [if_true]
        unfold heldT at hh
        simp only [Bool.and_eq_true, Bool.not_eq_true'] at hh
        exact hh.1
      cases on with
      | true =>
        refine ⟨swObserve top 0, hText (swObserve top 0), ?_, nonSw_observe top 0, (swOk_observe h hlt hfr).1⟩
        show (if (!heldT top.st) = true then _ else _) = _
        rw [if_neg (by rw [hh]; simp)]; rfl
      | false =>
        refine ⟨swUnobserve tc top 0, hText (swUnobserve tc top 0), ?_, nonSw_unobserve tc top 0, (swOk_unobserve hc h 0).1⟩
        show (if (!heldT top.st) = true then _ else _) = _
        rw [if_neg (by rw [hh]; simp)]; rfl
    · exact ⟨top, "skip", by show (if (!heldT top.st) = true then _ else _) = _; rw [if_pos (not_true_of hh)]; rfl, NonSw.refl top, h⟩
  case winch =>
    refine ⟨swSignal top, hText (swSignal top), rfl, nonSw_signal top, ?_⟩
    rw [swOk_signal h]; exact h

/-- `xstep` after an operation that left the chain invariant in place (the main terminal possibly released). -/
theorem xstep_of_core {tc : TCfg} (hc : tc.sigwinchClearsNext = true) {top top1 : Top} {op : XOp} {r : String}
    (h : xstepCore tc top op = .ok (top1, r)) (hp : SwPre top1) :
    xstep tc top op = .ok (top1.swSync tc, r) ∧ SwOk (top1.swSync tc) ∧ NonSw top1 (top1.swSync tc) ∧
      (top1.swSync tc).xterms = top1.xterms := by
  refine ⟨?_, (swSync_ok hc hp).1, nonSw_swSync tc top1, (swSync_ok hc hp).2.2⟩
  unfold xstep
  rw [h]; rfl

/-- Any history of these operations, over any number of terminals: no walk of the list fails. -/
theorem xrun_sw {tc : TCfg} (hc : tc.sigwinchClearsNext = true) : ∀ (ops : List XOp) (top : Top), SwOk top →
    (∀ op ∈ ops, op.isSw = true) → ∃ top', xrunOps tc top ops = .ok top' ∧ SwOk top' ∧ NonSw top top'
  | [], top, h, _ => ⟨top, rfl, h, NonSw.refl top⟩
  | op :: rest, top, h, hops => by
    obtain ⟨top1, r, hs, hn1, ok1⟩ := xstepCore_sw hc h op (hops op (by simp))
    obtain ⟨hx, ok2, hn2, _⟩ := xstep_of_core hc hs ok1.pre
    obtain ⟨top', hr, ok', hn'⟩ := xrun_sw hc rest _ ok2 (fun o ho => hops o (by simp [ho]))
    refine ⟨top', ?_, ok', (hn1.trans hn2).trans hn'⟩
    unfold xrunOps
    rw [hx]
    exact hr

end Tickit.Life
