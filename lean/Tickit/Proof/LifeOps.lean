import Tickit.Proof.LifeState
/-
  C08 proofs, part 5: every operation of the application that runs no event handler keeps the state invariant
  and never fails.
-/
namespace Tickit.Life
open WinTree (Id Win Req Change Tree)
variable {gh : Ghost}

/-! ## operations that only rearrange the tree -/

/-- A new tree related to the old one window by window, with the same counts, keeps the state invariant. -/
theorem SInv.of_rel {st : St} (inv : SInv gh st) {t' : Tree} (hinv : TInv t') (hrel : TRel st.tree t')
    (hrc : SameRC st.tree t') : SInv gh { st with tree := t' } := by
  have live_iff : ∀ (i : Nat), (∃ w, LiveW t' i w) ↔ (∃ w, LiveW st.tree i w) := by
    intro i
    constructor
    · rintro ⟨w', hl'⟩; obtain ⟨w, hl, _⟩ := hrel.live_back hl'; exact ⟨w, hl⟩
    · rintro ⟨w, hl⟩; obtain ⟨w', hl', _⟩ := hrel.live hl; exact ⟨w', hl'⟩
  refine ⟨⟨hinv, by simp only; rw [hrel.1]; exact inv.wx_size, ?_, List.nodup_nil, by intro i hi; simp at hi, ?_,
    ⟨inv.pens.rc, inv.pens.ex, inv.pens.pos⟩, ?_, ?_, ?_, inv.simple⟩, ?_, fun hg => (live_iff 0).2 (inv.glive hg)⟩
  rotate_right
  · intro i w' hl'
    obtain ⟨w, hl, _⟩ := hrel.live_back hl'
    rw [hrc i w w' hl.1 hl'.1]
    exact inv.wref i w hl
  · intro i w' hl'
    obtain ⟨w, hl, _⟩ := hrel.live_back hl'
    rw [hrc i w w' hl.1 hl'.1]
    exact inv.rc i w hl
  · intro i w' hw' hf _
    obtain ⟨w, hw, hr⟩ := hrel.back hw'
    exact inv.dead_pen i w hw (by rw [← hr.2.2.1]; exact hf) (by simp)
  · intro hf h
    exact inv.term_held hf (by rcases h with h | h; exact .inl ((live_iff 0).1 h); simp at h)
  · intro hf h
    exact inv.term_free hf (by rintro (h' | h'); exact h (.inl ((live_iff 0).2 h')); simp at h')
  · intro hf
    refine ⟨fun h => (inv.term_dead hf).1 (by rcases h with h | h; exact .inl ((live_iff 0).1 h); simp at h), (inv.term_dead hf).2⟩

/-- `tickit_window_set_geometry`. -/
theorem setGeomT_ok {t : Tree} (inv : TInv t) {win : Nat} {ww : Win} (hw : LiveW t win ww) (g : Rect) :
    ∃ t', setGeomT t win g = .ok t' ∧ TInv t' ∧ TRel t t' ∧ SameRC t t' := by
  unfold setGeomT
  simp only [get_live hw, bind_ok, pure_ok]
  have hrel : TRel t (WinTree.set t win { ww with rect := g }) :=
    trel_set hw.1 ⟨rfl, List.Perm.refl _, rfl, rfl, .inl rfl, .inl rfl⟩
  exact ⟨_, rfl, inv.of_rel hrel (fun r hr => hr) (fun s hs => hs), hrel, SameRC.set hw.1 rfl⟩

/-- Replacing a live window by one with the same structural fields and count. -/
theorem plain_update {t : Tree} (inv : TInv t) {win : Nat} {ww : Win} (hw : LiveW t win ww) {w1 : Win}
    (h : WRel ww w1) (hr : w1.refcount = ww.refcount) :
    TInv (WinTree.set t win w1) ∧ TRel t (WinTree.set t win w1) ∧ SameRC t (WinTree.set t win w1) ∧
      LiveW (WinTree.set t win w1) win w1 := by
  have hrel : TRel t (WinTree.set t win w1) := trel_set hw.1 h
  exact ⟨inv.of_rel hrel (fun r hr => hr) (fun s hs => hs), hrel, SameRC.set hw.1 hr,
    ⟨set_get_self _ hw.lt, by rw [h.2.2.1]; exact hw.2⟩⟩

/-- `tickit_window_hide`. -/
theorem hideT_ok {t : Tree} (inv : TInv t) {win : Nat} {ww : Win} (hw : LiveW t win ww) :
    ∃ t', hideT t win = .ok t' ∧ TInv t' ∧ TRel t t' ∧ SameRC t t' := by
  unfold hideT
  simp only [get_live hw, bind_ok]
  have h1 : WRel ww { ww with isVisible := false } := ⟨rfl, List.Perm.refl _, rfl, rfl, .inl rfl, .inl rfl⟩
  have h2 : ({ ww with isVisible := false } : Win).refcount = ww.refcount := rfl
  generalize ({ ww with isVisible := false } : Win) = w1 at h1 h2 ⊢
  obtain ⟨inv1, hrel1, hrc1, _⟩ := plain_update inv hw h1 h2
  rcases Option.eq_none_or_eq_some ww.parent with hp | ⟨p, hp⟩
  · simp only [hp, pure_ok]
    exact ⟨_, rfl, inv1, hrel1, hrc1⟩
  · obtain ⟨hlt, pw, hpl, _⟩ := inv.parent_ok win ww hw p hp
    have hne : win ≠ p := Nat.ne_of_gt hlt
    have hpl1 : LiveW (WinTree.set t win w1) p pw := ⟨by rw [set_get_ne _ hne]; exact hpl.1, hpl.2⟩
    simp only [hp, get_live hpl1, bind_ok]
    by_cases hf : pw.focusedChild = some win
    · simp only [hf, if_true]
      have g1 : WRel pw { pw with focusedChild := none } := ⟨rfl, List.Perm.refl _, rfl, rfl, .inl rfl, .inr (.inl rfl)⟩
      have g2 : ({ pw with focusedChild := none } : Win).refcount = pw.refcount := rfl
      generalize ({ pw with focusedChild := none } : Win) = pw1 at g1 g2 ⊢
      obtain ⟨inv2, hrel2, hrc2, hpl2⟩ := plain_update inv1 hpl1 g1 g2
      rw [exposeWalk_ok inv2 p pw1 hpl2 _ (chainFuel_gt hpl2)]
      exact ⟨_, rfl, inv2, hrel1.trans hrel2, SameRC.trans hrel1 hrc1 hrc2⟩
    · simp only [hf, if_false]
      rw [exposeWalk_ok inv1 p pw hpl1 _ (chainFuel_gt hpl1)]
      exact ⟨_, rfl, inv1, hrel1, hrc1⟩

/-- `tickit_window_show`. -/
theorem showT_ok {t : Tree} (inv : TInv t) {win : Nat} {ww : Win} (hw : LiveW t win ww) :
    ∃ t', showT t win = .ok t' ∧ TInv t' ∧ TRel t t' ∧ SameRC t t' := by
  unfold showT
  simp only [get_live hw, bind_ok]
  have h1 : WRel ww { ww with isVisible := true } := ⟨rfl, List.Perm.refl _, rfl, rfl, .inl rfl, .inl rfl⟩
  have h2 : ({ ww with isVisible := true } : Win).refcount = ww.refcount := rfl
  have h3 : ({ ww with isVisible := true } : Win).parent = ww.parent := rfl
  generalize ({ ww with isVisible := true } : Win) = w1 at h1 h2 h3 ⊢
  obtain ⟨inv1, hrel1, hrc1, hw1⟩ := plain_update inv hw h1 h2
  simp only [get_live hw1, bind_ok]
  rcases Option.eq_none_or_eq_some ww.parent with hp | ⟨p, hp⟩
  · simp only [h3, hp, pure_ok, bind_ok]
    rw [exposeWalk_ok inv1 win _ hw1 _ (chainFuel_gt hw1)]
    exact ⟨_, rfl, inv1, hrel1, hrc1⟩
  · obtain ⟨hlt, pw, hpl, hmem⟩ := inv.parent_ok win ww hw p hp
    have hne : win ≠ p := Nat.ne_of_gt hlt
    have hpl1 : LiveW (WinTree.set t win w1) p pw := ⟨by rw [set_get_ne _ hne]; exact hpl.1, hpl.2⟩
    simp only [h3, hp, get_live hpl1, bind_ok]
    split
    · have g1 : WRel pw { pw with focusedChild := some win } :=
        ⟨rfl, List.Perm.refl _, rfl, rfl, .inl rfl, .inr (.inr ⟨win, rfl, hmem⟩)⟩
      have g2 : ({ pw with focusedChild := some win } : Win).refcount = pw.refcount := rfl
      generalize ({ pw with focusedChild := some win } : Win) = pw1 at g1 g2 ⊢
      obtain ⟨inv2, hrel2, hrc2, _⟩ := plain_update inv1 hpl1 g1 g2
      obtain ⟨w2, hw2, _⟩ := hrel2.live hw1
      simp only [pure_ok, bind_ok]
      rw [exposeWalk_ok inv2 win w2 hw2 _ (chainFuel_gt hw2)]
      exact ⟨_, rfl, inv2, hrel1.trans hrel2, SameRC.trans hrel1 hrc1 hrc2⟩
    · simp only [pure_ok, bind_ok]
      rw [exposeWalk_ok inv1 win _ hw1 _ (chainFuel_gt hw1)]
      exact ⟨_, rfl, inv1, hrel1, hrc1⟩

end Tickit.Life

namespace Tickit.Life
open WinTree (Id Win Req Change Tree)
variable {gh : Ghost}

/-! ## `tickit_window_new` -/

/-- The walk of `TICKIT_WINDOW_ROOT_PARENT`. -/
theorem climb_ok {st : St} (inv : TInv st.tree) :
    ∀ (p : Nat) (pw : Win), LiveW st.tree p pw → ∀ (fuel : Nat), p < fuel → ∀ (r : Rect),
      ∃ (q : Nat) (r' : Rect) (qw : Win), climbParents st fuel p r = .ok (q, r') ∧ LiveW st.tree q qw := by
  intro p
  induction p using Nat.strongRecOn with
  | ind p ih =>
    intro pw hl fuel hf r
    cases fuel with
    | zero => omega
    | succ f =>
      unfold climbParents
      simp only [getW, get_live hl, bind_ok]
      cases hp : pw.parent with
      | none => exact ⟨p, r, pw, rfl, hl⟩
      | some pp =>
        obtain ⟨hlt, ppw, hppl, _⟩ := inv.parent_ok p pw hl pp hp
        exact ih pp hlt ppw hppl f (by omega) _

/-- The tree after `init_window` + INSERT of a new window `w` (with `w.parent = some parent`) under `parent`. -/
def inserted (t : Tree) (parent : Nat) (pw w : Win) (cs : List Nat) : Tree :=
  WinTree.set { t with wins := t.wins.push w } parent { pw with children := cs }

theorem inserted_get {t : Tree} {parent : Nat} {pw w : Win} {cs : List Nat} (hpl : LiveW t parent pw) (i : Nat) :
    (inserted t parent pw w cs).wins[i]? =
      if i = parent then some { pw with children := cs } else if i = t.wins.size then some w else t.wins[i]? := by
  unfold inserted
  rw [set_get]
  have hlt := hpl.lt
  by_cases h1 : parent = i
  · subst h1
    simp [Array.size_push]; omega
  · have h1' : ¬ i = parent := fun h => h1 h.symm
    simp only [h1, h1', if_false, Array.getElem?_push]

theorem TInv.insert {t : Tree} (inv : TInv t) {parent : Nat} {pw : Win} (hpl : LiveW t parent pw) {w : Win}
    (hwp : w.parent = some parent) (hwc : w.children = []) (hwf : w.freed = false) (hwr : w.isRoot = false)
    (hwcl : w.isClosed = false) (hwfc : w.focusedChild = none) {cs : List Nat}
    (hcs : ∀ (c : Nat), c ∈ cs ↔ (c = t.wins.size ∨ c ∈ pw.children)) (hnd : cs.Nodup) :
    TInv (inserted t parent pw w cs) := by
  have G := inserted_get (w := w) (cs := cs) hpl
  have hlt := hpl.lt
  have hne : parent ≠ t.wins.size := by omega
  -- old windows are still there, with the same parent, liveness, flags
  have old : ∀ (i : Nat) (x : Win), t.wins[i]? = some x → ∃ x', (inserted t parent pw w cs).wins[i]? = some x' ∧
      x'.parent = x.parent ∧ x'.freed = x.freed ∧ x'.isRoot = x.isRoot ∧ x'.isClosed = x.isClosed ∧
      x'.focusedChild = x.focusedChild ∧ (∀ (c : Nat), c ∈ x.children → c ∈ x'.children) := by
    intro i x hx
    have hi : i < t.wins.size := by
      by_cases hi : i < t.wins.size
      · exact hi
      · have := Array.getElem?_eq_none (xs := t.wins) (Nat.le_of_not_lt hi)
        rw [hx] at this; cases this
    by_cases hip : i = parent
    · subst hip
      have : x = pw := by rw [hpl.1] at hx; exact (Option.some.inj hx).symm
      subst this
      exact ⟨{ x with children := cs }, by rw [G]; simp, rfl, rfl, rfl, rfl, rfl, fun c hc => (hcs c).2 (.inr hc)⟩
    · exact ⟨x, by rw [G]; simp [hip, Nat.ne_of_lt hi]; exact hx, rfl, rfl, rfl, rfl, rfl, fun _ h => h⟩
  -- every window of the new tree is the new one or an old one
  have back : ∀ (i : Nat) (x' : Win), (inserted t parent pw w cs).wins[i]? = some x' →
      (i = t.wins.size ∧ x' = w) ∨ (i < t.wins.size ∧ ∃ x, t.wins[i]? = some x ∧ x'.parent = x.parent ∧ x'.freed = x.freed ∧
        x'.isRoot = x.isRoot ∧ x'.isClosed = x.isClosed ∧ x'.focusedChild = x.focusedChild ∧
        (x'.children = x.children ∨ (i = parent ∧ x'.children = cs ∧ x = pw))) := by
    intro i x' hx'
    rw [G] at hx'
    by_cases hip : i = parent
    · subst hip
      simp only [if_true, Option.some.injEq] at hx'
      subst hx'
      exact .inr ⟨hlt, pw, hpl.1, rfl, rfl, rfl, rfl, rfl, .inr ⟨rfl, rfl, rfl⟩⟩
    · simp only [hip, if_false] at hx'
      by_cases his : i = t.wins.size
      · subst his
        simp only [if_true, Option.some.injEq] at hx'
        exact .inl ⟨rfl, hx'.symm⟩
      · simp only [his, if_false] at hx'
        have hi : i < t.wins.size := by
          by_cases hi : i < t.wins.size
          · exact hi
          · have := Array.getElem?_eq_none (xs := t.wins) (Nat.le_of_not_lt hi)
            rw [hx'] at this; cases this
        exact .inr ⟨hi, x', hx', rfl, rfl, rfl, rfl, rfl, .inl rfl⟩
  have liveold : ∀ (i : Nat) (x : Win), LiveW t i x → ∃ x', LiveW (inserted t parent pw w cs) i x' ∧ x'.parent = x.parent ∧
      (∀ (c : Nat), c ∈ x.children → c ∈ x'.children) := by
    intro i x hl
    obtain ⟨x', h1, h2, h3, _, _, _, h7⟩ := old i x hl.1
    exact ⟨x', ⟨h1, by rw [h3]; exact hl.2⟩, h2, h7⟩
  have reach : ∀ {i a : Nat}, Reach t i a → Reach (inserted t parent pw w cs) i a := by
    intro i a hr
    refine Reach.mono ?_ hr
    intro j x p hx hp
    obtain ⟨x', h1, h2, _⟩ := old j x hx
    exact ⟨x', h1, by rw [h2]; exact hp⟩
  have hnew : LiveW (inserted t parent pw w cs) t.wins.size w := ⟨by rw [G]; simp [Ne.symm hne], hwf⟩
  refine ⟨?_, ?_, ?_, ?_, ?_, ?_, ?_, ?_, ?_⟩
  · obtain ⟨r, h0, hr, hp⟩ := inv.root_ex
    obtain ⟨r', h1, h2, _, h4, _⟩ := old 0 r h0
    exact ⟨r', h1, by rw [h4]; exact hr, by rw [h2]; exact hp⟩
  · intro i x' hx' hr
    rcases back i x' hx' with ⟨_, rfl⟩ | ⟨_, x, hx, _, _, h3, _⟩
    · rw [hwr] at hr; cases hr
    · exact inv.only_root i x hx (by rw [← h3]; exact hr)
  · intro c cw' hl p hp
    rcases back c cw' hl.1 with ⟨rfl, rfl⟩ | ⟨_, x, hx, h1, h2, _⟩
    · rw [hwp] at hp; cases hp
      obtain ⟨pw', hpl', _, _⟩ := liveold parent pw hpl
      refine ⟨hlt, pw', hpl', ?_⟩
      have : pw' = { pw with children := cs } := by
        have := hpl'.1; rw [G] at this; simpa using this.symm
      rw [this]
      exact (hcs _).2 (.inl rfl)
    · obtain ⟨hlt', qw, hql, hmem⟩ := inv.parent_ok c x ⟨hx, by rw [← h2]; exact hl.2⟩ p (by rw [← h1]; exact hp)
      obtain ⟨qw', hql', _, hsub⟩ := liveold p qw hql
      exact ⟨hlt', qw', hql', hsub c hmem⟩
  · intro p pw' hl c hc
    rcases back p pw' hl.1 with ⟨rfl, rfl⟩ | ⟨_, x, hx, _, h2, _, _, _, hch⟩
    · rw [hwc] at hc; simp at hc
    · have hxl : LiveW t p x := ⟨hx, by rw [← h2]; exact hl.2⟩
      rcases hch with hch | ⟨rfl, hch, rfl⟩
      · rw [hch] at hc
        obtain ⟨cw, hcl, hcp⟩ := inv.child_ok p x hxl c hc
        obtain ⟨cw', hcl', hcp', _⟩ := liveold c cw hcl
        exact ⟨cw', hcl', by rw [hcp']; exact hcp⟩
      · rw [hch] at hc
        rcases (hcs c).1 hc with rfl | hc'
        · exact ⟨w, hnew, hwp⟩
        · obtain ⟨cw, hcl, hcp⟩ := inv.child_ok p x hxl c hc'
          obtain ⟨cw', hcl', hcp', _⟩ := liveold c cw hcl
          exact ⟨cw', hcl', by rw [hcp']; exact hcp⟩
  · intro p pw' hl
    rcases back p pw' hl.1 with ⟨_, rfl⟩ | ⟨_, x, hx, _, h2, _, _, _, hch⟩
    · rw [hwc]; exact List.nodup_nil
    · rcases hch with hch | ⟨_, hch, _⟩
      · rw [hch]; exact inv.nodup p x ⟨hx, by rw [← h2]; exact hl.2⟩
      · rw [hch]; exact hnd
  · intro i x' hl hcl
    rcases back i x' hl.1 with ⟨_, rfl⟩ | ⟨_, x, hx, h1, h2, _, h4, _⟩
    · rw [hwcl] at hcl; cases hcl
    · rw [h1]; exact inv.closed_ok i x ⟨hx, by rw [← h2]; exact hl.2⟩ (by rw [← h4]; exact hcl)
  · intro r hr
    have hr' : r ∈ t.root.changes := hr
    obtain ⟨hk, x, hl, hp, hre⟩ := inv.req_ok r hr'
    obtain ⟨x', hl', hp', _⟩ := liveold r.win x hl
    exact ⟨hk, x', hl', by rw [hp']; exact hp, reach hre⟩
  · intro p pw' hl c hf
    rcases back p pw' hl.1 with ⟨_, rfl⟩ | ⟨_, x, hx, _, h2, _, _, h5, hch⟩
    · rw [hwfc] at hf; cases hf
    · have hxl : LiveW t p x := ⟨hx, by rw [← h2]; exact hl.2⟩
      have hm := inv.focus_ok p x hxl c (by rw [← h5]; exact hf)
      rcases hch with hch | ⟨_, hch, rfl⟩
      · rw [hch]; exact hm
      · rw [hch]; exact (hcs c).2 (.inr hm)
  · intro s hs
    have hs' : t.root.dragSource = some s := hs
    obtain ⟨x, hl, hre⟩ := inv.drag_ok s hs'
    obtain ⟨x', hl', _, _⟩ := liveold s x hl
    exact ⟨x', hl', reach hre⟩

end Tickit.Life

namespace Tickit.Life
open WinTree (Id Win Req Change Tree)
variable {gh : Ghost}

theorem getX_append_push {st : St} (x : WinX) (i : Nat) (hi : i < st.wx.size) :
    ((st.wx ++ Array.replicate (st.wx.size - st.wx.size) ({} : WinX)).push x)[i]?.getD {} = getX st i := by
  unfold getX
  simp only [Nat.sub_self, Array.replicate_zero, Array.append_empty, Array.getElem?_push]
  have : ¬ i = st.wx.size := by omega
  simp [this]

/-- `_do_hierarchy_change(INSERT_FIRST/LAST)` of a freshly initialised window. -/
theorem doHC_insert_ok {t : Tree} (inv : TInv t) {q : Nat} {qw : Win} (hql : LiveW t q qw) (w : Win)
    (hwp : w.parent = some q) (hwc : w.children = []) (hwf : w.freed = false) (hwr : w.isRoot = false)
    (hwcl : w.isClosed = false) (hwfc : w.focusedChild = none) (lowest : Bool) :
    ∃ cs, doHC { t with wins := t.wins.push w } (if lowest = true then .insertLast else .insertFirst) q t.wins.size =
        .ok (inserted t q qw w cs) ∧ TInv (inserted t q qw w cs) := by
  have hqlt := hql.lt
  have hqne : ¬ q = t.wins.size := Nat.ne_of_lt hqlt
  have hqp : LiveW { t with wins := t.wins.push w } q qw :=
    ⟨by simp only [Array.getElem?_push, hqne, if_false]; exact hql.1, hql.2⟩
  have hwl : LiveW { t with wins := t.wins.push w } t.wins.size w := ⟨by simp [Array.getElem?_push], hwf⟩
  have hchild_lt : ∀ (c : Nat), c ∈ qw.children → c < t.wins.size := by
    intro c hc
    obtain ⟨cw, hcl', _⟩ := inv.child_ok q qw hql c hc
    exact hcl'.lt
  have hnotin : t.wins.size ∉ qw.children := fun h => Nat.lt_irrefl _ (hchild_lt _ h)
  have hnd := inv.nodup q qw hql
  have fin : ∀ (cs : List Nat), (∀ (c : Nat), c ∈ cs ↔ (c = t.wins.size ∨ c ∈ qw.children)) → cs.Nodup →
      (if w.isVisible = true then (do
          exposeWalk (inserted t q qw w cs) (chainFuel (inserted t q qw w cs)) q (some w.rect)
          pure (inserted t q qw w cs))
        else pure (inserted t q qw w cs)) = Out.ok (inserted t q qw w cs) ∧ TInv (inserted t q qw w cs) := by
    intro cs hcs hcsnd
    have invI := inv.insert hql hwp hwc hwf hwr hwcl hwfc hcs hcsnd
    have hqI : LiveW (inserted t q qw w cs) q { qw with children := cs } :=
      ⟨by rw [inserted_get hql]; simp, hql.2⟩
    refine ⟨?_, invI⟩
    split
    · rw [exposeWalk_ok invI q _ hqI _ (chainFuel_gt hqI)]; rfl
    · rfl
  unfold doHC
  simp only [get_live hqp, get_live hwl, bind_ok]
  by_cases hlow : lowest = true
  · simp only [hlow, if_true, pure_ok, bind_ok]
    obtain ⟨h1, h2⟩ := fin (qw.children ++ [t.wins.size]) (by intro c; simp [or_comm]) (by
      rw [List.nodup_append]
      refine ⟨hnd, by simp, ?_⟩
      intro a ha b hb hab
      simp only [List.mem_singleton] at hb
      subst hb; subst hab
      exact hnotin ha)
    exact ⟨_, h1, h2⟩
  · simp only [hlow, Bool.false_eq_true, if_false, pure_ok, bind_ok]
    obtain ⟨h1, h2⟩ := fin (t.wins.size :: qw.children) (by intro c; simp) (by
      rw [List.nodup_cons]; exact ⟨hnotin, hnd⟩)
    exact ⟨_, h1, h2⟩

/-- `tickit_window_new` never fails under a live parent, and keeps the invariant. -/
theorem newWin_ok {st : St} (inv : SInv gh st) {p : Nat} {pw : Win} (hp : LiveW st.tree p pw)
    (r : Rect) (hidden lowest rootParent steal : Bool) :
    ∃ st' id, newWin st p r hidden lowest rootParent steal = .ok (st', id) ∧ SInv gh st' := by
  unfold newWin
  -- the parent actually used
  have hclimb : ∃ (q : Nat) (r' : Rect) (qw : Win), resolveParent st p r rootParent = .ok (q, r') ∧ LiveW st.tree q qw := by
    unfold resolveParent
    by_cases hrp : rootParent = true
    · simp only [hrp, if_true]
      exact climb_ok inv.tinv p pw hp _ (chainFuel_gt hp) r
    · simp only [hrp, Bool.false_eq_true, if_false]
      exact ⟨p, r, pw, rfl, hp⟩
  obtain ⟨q, r', qw, hcl, hql⟩ := hclimb
  simp only [hcl, bind_ok]
  have hqlt := hql.lt
  obtain ⟨cs, hins, invI⟩ := doHC_insert_ok inv.tinv hql
    { parent := some q, rect := r', isVisible := !hidden, stealInput := steal } rfl rfl rfl rfl rfl rfl lowest
  simp only [hins, bind_ok, pure_ok]
  refine ⟨_, _, rfl, ?_⟩
  generalize hw : ({ parent := some q, rect := r', isVisible := !hidden, stealInput := steal } : Win) = w at invI
  have hwf : w.freed = false := by rw [← hw]
  have hwrc : w.refcount = 1 := by rw [← hw]
  have G := inserted_get (w := w) (cs := cs) hql
  have hqI : LiveW (inserted st.tree q qw w cs) q { qw with children := cs } := ⟨by rw [G]; simp, hql.2⟩
  have hsz : (inserted st.tree q qw w cs).wins.size = st.tree.wins.size + 1 := by simp [inserted]
  have hwx : st.wx.size = st.tree.wins.size := inv.wx_size
  have hqne : ¬ st.tree.wins.size = q := Nat.ne_of_gt hqlt
  have oldw : ∀ (i : Nat) (x' : Win), (inserted st.tree q qw w cs).wins[i]? = some x' → i ≠ st.tree.wins.size →
      ∃ x, st.tree.wins[i]? = some x ∧ x'.freed = x.freed ∧ x'.refcount = x.refcount := by
    intro i x' hx' hi
    rw [G] at hx'
    by_cases hiq : i = q
    · subst hiq
      simp only [if_true, Option.some.injEq] at hx'
      subst hx'
      exact ⟨qw, hql.1, rfl, rfl⟩
    · simp only [hiq, hi, if_false] at hx'
      exact ⟨x', hx', rfl, rfl⟩
  have neww : ∀ (x' : Win), (inserted st.tree q qw w cs).wins[st.tree.wins.size]? = some x' → x' = w := by
    intro x' hx'
    rw [G] at hx'
    simp only [hqne, if_false, if_true, Option.some.injEq] at hx'
    exact hx'.symm
  have hhold : ∀ (k : Nat), holders { st with tree := inserted st.tree q qw w cs, wx := (st.wx ++ Array.replicate (st.tree.wins.size - st.wx.size) ({} : WinX)).push {} } k = holders st k := by
    intro k
    unfold holders
    simp only [hwx, Nat.sub_self, Array.replicate_zero, Array.append_empty, Array.toList_push, List.filter_append,
      List.length_append]
    simp
  have hgetX : ∀ (i : Nat), i < st.tree.wins.size →
      getX { st with tree := inserted st.tree q qw w cs, wx := (st.wx ++ Array.replicate (st.tree.wins.size - st.wx.size) ({} : WinX)).push {} } i = getX st i := by
    intro i hi
    rw [← hwx] at hi
    have := getX_append_push (st := st) {} i hi
    unfold getX
    simp only [hwx] at this ⊢
    exact this
  have live0 : (∃ r, LiveW (inserted st.tree q qw w cs) 0 r) ↔ (∃ r, LiveW st.tree 0 r) := by
    have h0 : (0 : Nat) ≠ st.tree.wins.size := by omega
    constructor
    · rintro ⟨x', hl'⟩
      obtain ⟨x, hx, hf, _⟩ := oldw 0 x' hl'.1 h0
      exact ⟨x, hx, by rw [← hf]; exact hl'.2⟩
    · rintro ⟨x, hl⟩
      by_cases h0q : (0 : Nat) = q
      · subst h0q; exact ⟨_, hqI⟩
      · exact ⟨x, by rw [G]; simp [h0q, h0]; exact hl.1, hl.2⟩
  refine ⟨⟨invI, ?_, ?_, List.nodup_nil, by intro i hi; simp at hi, ?_, ⟨?_, ?_, inv.pens.pos⟩, ?_, ?_, ?_, inv.simple⟩, ?_,
    fun hg => live0.2 (inv.glive hg)⟩
  rotate_right
  · intro i x' hl'
    by_cases hi : i = st.tree.wins.size
    · subst hi
      have := neww x' hl'.1
      subst this
      rw [hwrc]
      have e : getX { st with tree := inserted st.tree q qw x' cs, wx := (st.wx ++ Array.replicate (st.tree.wins.size - st.wx.size) ({} : WinX)).push {} } st.tree.wins.size = {} := by
        unfold getX
        simp only [hwx, Nat.sub_self, Array.replicate_zero, Array.append_empty]
        rw [Array.getElem?_push]
        simp [hwx]
      rw [e]
      refine ⟨?_, fun hcov => ?_⟩
      · show (1 : Int) ≤ ((1 : Nat) : Int) + (gh.win st.tree.wins.size : Int)
        omega
      · rcases hcov with h0 | hg
        · have := hql.lt
          omega
        · show ((1 : Nat) : Int) + (gh.win st.tree.wins.size : Int) ≤ 1
          rw [hg]; decide
    · obtain ⟨x, hx, hf, hr⟩ := oldw i x' hl'.1 hi
      have hilt : i < st.tree.wins.size := by
        by_cases hilt : i < st.tree.wins.size
        · exact hilt
        · have := Array.getElem?_eq_none (xs := st.tree.wins) (Nat.le_of_not_lt hilt)
          rw [hx] at this; cases this
      rw [hr, hgetX i hilt]; exact inv.wref i x ⟨hx, by rw [← hf]; exact hl'.2⟩
  · simp only [Array.size_push, Array.size_append, Array.size_replicate, hsz, hwx]; omega
  · intro i x' hl'
    by_cases hi : i = st.tree.wins.size
    · subst hi
      have := neww x' hl'.1
      subst this
      rw [hwrc]; omega
    · obtain ⟨x, hx, hf, hr⟩ := oldw i x' hl'.1 hi
      rw [hr]; exact inv.rc i x ⟨hx, by rw [← hf]; exact hl'.2⟩
  · intro i x' hx' hf _
    by_cases hi : i = st.tree.wins.size
    · subst hi
      have := neww x' hx'
      subst this
      rw [hwf] at hf; cases hf
    · obtain ⟨x, hx, hf', _⟩ := oldw i x' hx' hi
      have hilt : i < st.tree.wins.size := by
        by_cases hilt : i < st.tree.wins.size
        · exact hilt
        · have := Array.getElem?_eq_none (xs := st.tree.wins) (Nat.le_of_not_lt hilt)
          rw [hx] at this; cases this
      rw [hgetX i hilt]
      exact inv.dead_pen i x hx (by rw [← hf']; exact hf) (by simp)
  · intro k pk hk; rw [hhold]; exact inv.pens.rc k pk hk
  · intro k hk; rw [hhold]; exact inv.pens.ex k hk
  · intro hf h
    exact inv.term_held hf (by rcases h with h | h; exact .inl (live0.1 h); simp at h)
  · intro hf h
    exact inv.term_free hf (by rintro (h' | h'); exact h (.inl (live0.2 h')); simp at h')
  · intro hf
    refine ⟨fun h => (inv.term_dead hf).1 (by rcases h with h | h; exact .inl (live0.1 h); simp at h), (inv.term_dead hf).2⟩

end Tickit.Life

namespace Tickit.Life
open WinTree (Id Win Req Change Tree)
variable {gh : Ghost}

/-! ## the state invariant under a change of the tree that frees nothing -/

theorem SInvB.of_tree {st : St} (inv : SInvB gh st []) {t' : Tree} (hinv : TInv t') (hsz : t'.wins.size = st.tree.wins.size)
    (h : ∀ (i : Nat) (w : Win), st.tree.wins[i]? = some w →
      ∃ w', t'.wins[i]? = some w' ∧ w'.freed = w.freed ∧ (w.freed = false → 1 ≤ w.refcount → 1 ≤ w'.refcount)) :
    SInvB gh { st with tree := t' } [] := by
  have back : ∀ (i : Nat) (w' : Win), t'.wins[i]? = some w' →
      ∃ w, st.tree.wins[i]? = some w ∧ w'.freed = w.freed ∧ (w.freed = false → 1 ≤ w.refcount → 1 ≤ w'.refcount) := by
    intro i w' hw'
    cases hw : st.tree.wins[i]? with
    | none =>
      have hlt : ¬ i < st.tree.wins.size := by
        intro hlt
        have := Array.getElem?_eq_getElem (xs := st.tree.wins) hlt
        rw [hw] at this; cases this
      have : t'.wins[i]? = none := Array.getElem?_eq_none (by rw [hsz]; exact Nat.le_of_not_lt hlt)
      rw [hw'] at this; cases this
    | some w =>
      obtain ⟨w'', h1, h2, h3⟩ := h i w hw
      rw [hw'] at h1; cases h1
      exact ⟨w, rfl, h2, h3⟩
  have live_iff : ∀ (i : Nat), (∃ w, LiveW t' i w) ↔ (∃ w, LiveW st.tree i w) := by
    intro i
    constructor
    · rintro ⟨w', hl'⟩
      obtain ⟨w, hw, hf, _⟩ := back i w' hl'.1
      exact ⟨w, hw, by rw [← hf]; exact hl'.2⟩
    · rintro ⟨w, hl⟩
      obtain ⟨w', hw', hf, _⟩ := h i w hl.1
      exact ⟨w', hw', by rw [hf]; exact hl.2⟩
  refine ⟨hinv, by simp only; rw [hsz]; exact inv.wx_size, ?_, List.nodup_nil, by intro i hi; simp at hi, ?_,
    ⟨inv.pens.rc, inv.pens.ex, inv.pens.pos⟩, ?_, ?_, ?_, inv.simple⟩
  · intro i w' hl'
    obtain ⟨w, hw, hf, hr⟩ := back i w' hl'.1
    have hfl : w.freed = false := by rw [← hf]; exact hl'.2
    exact hr hfl (inv.rc i w ⟨hw, hfl⟩)
  · intro i w' hw' hf _
    obtain ⟨w, hw, hf', _⟩ := back i w' hw'
    exact inv.dead_pen i w hw (by rw [← hf']; exact hf) (by simp)
  · intro hf h
    exact inv.term_held hf (by rcases h with h | h; exact .inl ((live_iff 0).1 h); simp at h)
  · intro hf h
    exact inv.term_free hf (by rintro (h' | h'); exact h (.inl ((live_iff 0).2 h')); simp at h')
  · intro hf
    refine ⟨fun h => (inv.term_dead hf).1 (by rcases h with h | h; exact .inl ((live_iff 0).1 h); simp at h), (inv.term_dead hf).2⟩

/-- A new tree of the same size in which every window keeps `freed` and (if live) its count. -/
theorem SInv.of_tree {st : St} (inv : SInv gh st) {t' : Tree} (hinv : TInv t') (hsz : t'.wins.size = st.tree.wins.size)
    (h : ∀ (i : Nat) (w : Win), st.tree.wins[i]? = some w →
      ∃ w', t'.wins[i]? = some w' ∧ w'.freed = w.freed ∧ (w.freed = false → w'.refcount = w.refcount)) :
    SInv gh { st with tree := t' } := by
  refine ⟨inv.toSInvB.of_tree hinv hsz ?_, ?_, fun hg => by
    obtain ⟨r, hr⟩ := inv.glive hg
    obtain ⟨w', hw', hf, _⟩ := h 0 r hr.1
    exact ⟨w', hw', by rw [hf]; exact hr.2⟩⟩
  · intro i w hw
    obtain ⟨w', hw', hf, hr⟩ := h i w hw
    exact ⟨w', hw', hf, fun hfl h1 => by rw [hr hfl]; exact h1⟩
  · intro i w' hl'
    cases hw : st.tree.wins[i]? with
    | none =>
      have hlt : ¬ i < st.tree.wins.size := by
        intro hlt
        have := Array.getElem?_eq_getElem (xs := st.tree.wins) hlt
        rw [hw] at this; cases this
      have := hl'.lt
      simp only at this
      omega
    | some w =>
      obtain ⟨w'', hw'', hf, hr⟩ := h i w hw
      have e : w'' = w' := by have := hl'.1; simp only at this; rw [this] at hw''; exact (Option.some.inj hw'').symm
      subst e
      have hfl : w.freed = false := by rw [← hf]; exact hl'.2
      rw [hr hfl]
      exact inv.wref i w ⟨hw, hfl⟩

theorem SInv.of_rel' {st : St} (inv : SInv gh st) {t' : Tree} (hinv : TInv t') (hrel : TRel st.tree t')
    (hrc : SameRC st.tree t') : SInv gh { st with tree := t' } := by
  refine inv.of_tree hinv hrel.1 ?_
  intro i w hw
  obtain ⟨w', hw', hr⟩ := hrel.2 i w hw
  exact ⟨w', hw', hr.2.2.1, fun _ => hrc i w w' hw hw'⟩

theorem SInv.of_closed {st : St} (inv : SInv gh st) {t' : Tree} {win : Nat} {ww : Win} (hw : LiveW st.tree win ww)
    (C : Closed st.tree t' win ww) : SInv gh { st with tree := t' } := by
  refine inv.of_tree C.inv C.size_eq ?_
  intro i w hwi
  by_cases hi : i = win
  · subst hi
    have : w = ww := by rw [hw.1] at hwi; exact (Option.some.inj hwi).symm
    subst this
    exact ⟨_, C.win_now.1, rfl, fun _ => rfl⟩
  · rcases C.others i w hi hwi with ⟨_, h⟩ | ⟨_, h⟩
    · exact ⟨w, h, rfl, fun _ => rfl⟩
    · exact ⟨_, h, rfl, fun _ => rfl⟩

/-- `tickit_window_ref` by the application on a window it holds. -/
theorem refW_ok {st : St} (inv : SInv gh st) {win : Nat} {ww : Win} (hw : LiveW st.tree win ww) :
    ∃ st', refW (setX st win { getX st win with appRefs := (getX st win).appRefs + 1 }) win = .ok st' ∧ SInv gh st' := by
  have hlt : win < st.wx.size := by rw [inv.wx_size]; exact hw.lt
  have inv1 : SInvB gh (setX st win { getX st win with appRefs := (getX st win).appRefs + 1 }) [] :=
    inv.toSInvB.of_wx rfl rfl rfl rfl rfl (setX_map_pen _ rfl)
  unfold refW
  simp only [getW, setX_tree, get_live hw, bind_ok, pure_ok]
  refine ⟨_, rfl, ?_⟩
  obtain ⟨inv', _⟩ := inv.tinv.set_refcount hw (ww.refcount + 1)
  refine ⟨inv1.of_tree (t' := WinTree.set st.tree win { ww with refcount := ww.refcount + 1 }) inv' (set_size _ _ _) ?_, ?_, fun hg => by
    obtain ⟨r, hr⟩ := inv.glive hg
    by_cases h0 : win = 0
    · subst h0; exact ⟨_, set_get_self _ hw.lt, hw.2⟩
    · exact ⟨r, by show (WinTree.set st.tree win _).wins[0]? = some r; rw [set_get_ne _ h0]; exact hr.1, hr.2⟩⟩
  · intro i w hwi
    simp only [setX_tree] at hwi
    by_cases hi : win = i
    · subst hi
      have : w = ww := by rw [hw.1] at hwi; exact (Option.some.inj hwi).symm
      subst this
      exact ⟨_, set_get_self _ hw.lt, rfl, fun _ h => by show 1 ≤ w.refcount + 1; omega⟩
    · exact ⟨w, by rw [set_get_ne _ hi]; exact hwi, rfl, fun _ h => h⟩
  · intro i w' hl'
    have e : getX (setW (setX st win { getX st win with appRefs := (getX st win).appRefs + 1 }) win
        { ww with refcount := ww.refcount + 1 }) i =
        getX (setX st win { getX st win with appRefs := (getX st win).appRefs + 1 }) i := rfl
    rw [e, getX_setX]
    by_cases hi : win = i
    · subst hi
      have hl0 : LiveW (WinTree.set st.tree win { ww with refcount := ww.refcount + 1 }) win { ww with refcount := ww.refcount + 1 } :=
        ⟨set_get_self _ hw.lt, hw.2⟩
      have := LiveW.unique hl' hl0; subst this
      have := inv.wref win ww hw
      simp only [hlt, and_self, if_true]
      refine ⟨?_, fun hcov => ?_⟩
      · show ww.refcount + 1 ≤ (((getX st win).appRefs + 1 : Nat) : Int) + (gh.win win : Int)
        omega
      · show (((getX st win).appRefs + 1 : Nat) : Int) + (gh.win win : Int) ≤ ww.refcount + 1
        have := this.2 hcov
        omega
    · simp only [hi, false_and, if_false]
      exact inv.wref i w' ⟨by rw [← set_get_ne _ hi]; exact hl'.1, hl'.2⟩

end Tickit.Life
