import Tickit.Proof.Modes
/-
  C12 — the invariant of the mode life cycle over the wide protocol (`phaseNextW`: operations between pause and
  resume admitted) and for any hand-over state (`VModes.handover`: the cursor may be hidden at hand-over).

  `MInv` of `Proof/Modes.lean` says that the terminal *shows* the shadow while running and is *off* otherwise; that is
  false between pause and resume once the program goes on calling the library.  What holds in every phase is the
  weaker `CovH`: every listed mode that is on at the terminal is on in the shadow - which is all `stop` / `pause`
  need.  The hand-over cursor visibility `v0` is a parameter: for `v0 = false` the invariant says that the terminal's
  cursor stays hidden and the shadow keeps saying "visible" (so neither `stop` nor `resume` writes DECTCEM).
-/
namespace Tickit.Modes
open Tickit.Gen

/-- Whatever listed mode is on at the terminal is recorded as on in the driver's shadow; relative to the cursor
    visibility `v0` the terminal was handed over with. -/
structure CovH (v0 : Bool) (sh : Shadow) (m : VModes) : Prop where
  alt : m.altscreen = true → sh.altscreen ≠ 0
  vis : v0 = true → m.cursorVisible = false → sh.cursorvis = 0
  hid : v0 = false → m.cursorVisible = false ∧ sh.cursorvis ≠ 0
  mouse : (m.mouse ≠ 0 ∨ m.sgrMouse = true) → sh.mouse ≠ 0
  keypad : m.keypadApp = true → sh.keypad ≠ 0

/-- The listed modes in their hand-over state. -/
structure OffH (v0 : Bool) (m : VModes) : Prop where
  alt : m.altscreen = false
  vis : m.cursorVisible = v0
  mouse : m.mouse = 0
  sgr : m.sgrMouse = false
  keypad : m.keypadApp = false

theorem covH_of_offH (v0 : Bool) (sh : Shadow) (m : VModes) (h : OffH v0 m) (hs : v0 = false → sh.cursorvis ≠ 0) :
    CovH v0 sh m := by
  obtain ⟨h1, h2, h3, h4, h5⟩ := h
  refine ⟨?_, ?_, ?_, ?_, ?_⟩
  · intro h; simp_all
  · intro hv h; simp_all
  · intro hv; exact ⟨by rw [h2, hv], hs hv⟩
  · intro h; simp_all
  · intro h; simp_all

/-- What the history-level induction carries about the driver and the terminal's modes, in every phase. -/
structure DInv (cfg : Cfg) (v0 : Bool) (d : XDrv) (m : VModes) : Prop where
  mouseLe : d.mode.mouse ≤ 3
  kz : cfg.keypadRecorded = false → d.mode.keypad = 0
  cov : CovH v0 d.mode m
  visInit : cfg.repliesGuarded = true → d.mode.cursorvis = 0 → d.init.cursorvis ≠ 0

/-- `setctl_int` keeps the terminal covered by the shadow - in any phase, for any hand-over state (on a terminal
    handed over hidden the control is not `cursorvis`). -/
theorem setctl_covH (cfg : Cfg) (v0 : Bool) (d : XDrv) (c : Option Ctl) (v : Int) (m : VModes) (A : Attrs)
    (h : DInv cfg v0 d m)
    (hmouse : c = some .mouse → 0 ≤ v ∧ v ≤ 3)
    (hkp : c = some .keypadApp → cfg.keypadRecorded = true ∨ v = 0)
    (hcv : c = some .cursorvis → v0 = true) :
    ∃ m', VT.feed ⟨.ground, m, A⟩ (setctlInt cfg d c v).2.1 = ⟨.ground, m', A⟩ ∧ DInv cfg v0 (setctlInt cfg d c v).1 m' := by
  obtain ⟨hm, hkz, ⟨halt, hvis, hhid, hmo, hkey⟩, hvi⟩ := h
  have same : ∃ m', VT.feed ⟨.ground, m, A⟩ ([] : List Nat) = ⟨.ground, m', A⟩ ∧ DInv cfg v0 d m' :=
    ⟨m, rfl, hm, hkz, ⟨halt, hvis, hhid, hmo, hkey⟩, hvi⟩
  cases c with
  | none => exact same
  | some c =>
    cases c
    case altscreen =>
      unfold setctlInt
      simp only
      split
      · exact same
      · by_cases hv : v = 0
        · subst hv
          refine ⟨{ m with altscreen := false }, ?_, hm, hkz, ?_, hvi⟩
          · simp [feed_altOff]
          · exact ⟨by simp, hvis, hhid, hmo, hkey⟩
        · refine ⟨{ m with altscreen := true }, ?_, hm, hkz, ?_, hvi⟩
          · simp [hv, feed_altOn]
          · exact ⟨by simp [ModeLayout.w_mode_altscreen, wrapU1_bool, hv], hvis, hhid, hmo, hkey⟩
    case cursorvis =>
      have hv0 := hcv rfl
      unfold setctlInt
      simp only
      split
      · exact same
      · by_cases hv : v = 0
        · subst hv
          refine ⟨{ m with cursorVisible := false }, ?_, hm, hkz, ?_, ?_⟩
          · simp [feed_visOff]
          · exact ⟨halt, fun _ _ => by simp [ModeLayout.w_mode_cursorvis, wrapU1_bool], fun h => by simp [hv0] at h, hmo, hkey⟩
          · intro hg _; simp [hg, ModeLayout.w_initialised_cursorvis, wrapU_w1]
        · refine ⟨{ m with cursorVisible := true }, ?_, hm, hkz, ?_, ?_⟩
          · simp [hv, feed_visOn]
          · exact ⟨halt, fun _ h => by simp at h, fun h => by simp [hv0] at h, hmo, hkey⟩
          · intro hg hz; exfalso; revert hz; simp [ModeLayout.w_mode_cursorvis, wrapU1_bool, hv]
    case cursorblink =>
      unfold setctlInt
      simp only
      split
      · exact same
      · by_cases hv : v = 0
        · subst hv
          exact ⟨{ m with cursorBlink := false }, by simp [feed_blinkOff], hm, hkz, ⟨halt, hvis, hhid, hmo, hkey⟩, hvi⟩
        · exact ⟨{ m with cursorBlink := true }, by simp [hv, feed_blinkOn], hm, hkz, ⟨halt, hvis, hhid, hmo, hkey⟩, hvi⟩
    case mouse =>
      have hv := hmouse rfl
      unfold setctlInt
      simp only
      split
      · exact same
      · rename_i hne
        by_cases hv0 : v = 0
        · subst hv0
          have hk : 1 ≤ d.mode.mouse ∧ d.mode.mouse ≤ 3 := by omega
          refine ⟨{ m with mouse := 0, sgrMouse := false }, ?_, ?_, hkz, ?_, hvi⟩
          · simp [feed_mouseOff _ _ _ hk]
          · simp [ModeLayout.w_mode_mouse, wrapU]
          · exact ⟨halt, hvis, hhid, by simp, hkey⟩
        · obtain ⟨k, rfl⟩ : ∃ k : Nat, v = k := ⟨v.toNat, by omega⟩
          have hk : 1 ≤ k ∧ k ≤ 3 := by omega
          have hw : wrapU ModeLayout.w_mode_mouse (k : Int) = k := by
            rw [show ModeLayout.w_mode_mouse = 2 from rfl, wrapU2_small _ (by omega)]; simp
          refine ⟨{ m with mouse := (modeForMouse k).toNat, sgrMouse := true }, ?_, ?_, hkz, ?_, hvi⟩
          · have hk0 : k ≠ 0 := by omega
            simp [hk0, feed_mouseOn _ _ _ hk]
          · simp only [hw]; omega
          · refine ⟨halt, hvis, hhid, ?_, hkey⟩
            intro _
            simp only [hw]; omega
    case cursorshape =>
      unfold setctlInt
      simp only
      split
      · exact same
      · by_cases hc : d.cap.cursorshape ≠ 0
        · obtain ⟨sh, bl, hf⟩ := feed_shapeSeq m A (v * 2 + (if d.mode.cursorblink ≠ 0 then -1 else 0))
          exact ⟨{ m with cursorShape := sh, cursorBlink := bl }, by simp only [if_pos hc]; exact hf, hm, hkz, ⟨halt, hvis, hhid, hmo, hkey⟩, hvi⟩
        · exact ⟨m, by simp only [if_neg hc]; rfl, hm, hkz, ⟨halt, hvis, hhid, hmo, hkey⟩, hvi⟩
    case keypadApp =>
      unfold setctlInt
      simp only
      split
      · exact same
      · rename_i hne
        by_cases hrec : cfg.keypadRecorded = true
        · simp only [hrec, if_true]
          by_cases hv : v = 0
          · subst hv
            refine ⟨{ m with keypadApp := false }, ?_, hm, by simp [hrec], ?_, hvi⟩
            · simp [feed_keypadOff]
            · exact ⟨halt, hvis, hhid, hmo, by simp⟩
          · refine ⟨{ m with keypadApp := true }, ?_, hm, by simp [hrec], ?_, hvi⟩
            · simp [hv, feed_keypadOn]
            · exact ⟨halt, hvis, hhid, hmo, by simp [ModeLayout.w_mode_keypad, wrapU1_bool, hv]⟩
        · have hrf : cfg.keypadRecorded = false := by simpa using hrec
          have hz := hkz hrf
          rcases hkp rfl with h | hv0
          · simp [hrf] at h
          · subst hv0
            simp [hz] at hne
    all_goals first | exact same | exact ⟨m, rfl, hm, hkz, ⟨halt, hvis, hhid, hmo, hkey⟩, hvi⟩

/-- A reply of the terminal - whenever it is read - keeps the terminal covered by the shadow: with guarded replies a
    DECRPM "set" for mode 25 no longer flips a cursor the program has hidden to "visible" in the shadow; on a terminal
    handed over hidden the shadow says "visible" already. -/
theorem applyReply_dinv (cfg : Cfg) (v0 : Bool) (hr : v0 = true → cfg.repliesGuarded = true) (d : XDrv) (r : Reply)
    (m : VModes) (h : DInv cfg v0 d m) : DInv cfg v0 (applyReply cfg d r) m := by
  obtain ⟨hm, hkz, ⟨halt, hvis, hhid, hmo, hkey⟩, hvi⟩ := h
  cases r with
  | shape v => exact ⟨hm, hkz, ⟨halt, hvis, hhid, hmo, hkey⟩, hvi⟩
  | sgr c r => exact ⟨hm, hkz, ⟨halt, hvis, hhid, hmo, hkey⟩, hvi⟩
  | mode mo v =>
    simp only [applyReply]
    unfold onModereport
    by_cases hm12 : mo = 12
    · subst hm12
      simp only [if_true]
      by_cases hc : v = 1 ∧ (!cfg.repliesGuarded || decide (d.init.cursorblink = 0)) = true
      · rw [if_pos hc]; exact ⟨hm, hkz, ⟨halt, hvis, hhid, hmo, hkey⟩, hvi⟩
      · rw [if_neg hc]; exact ⟨hm, hkz, ⟨halt, hvis, hhid, hmo, hkey⟩, hvi⟩
    · simp only [hm12, if_false]
      by_cases hm25 : mo = 25
      · subst hm25
        simp only [if_true]
        have hi1 : wrapU ModeLayout.w_initialised_cursorvis 1 ≠ 0 := by decide
        have hw1 : wrapU ModeLayout.w_mode_cursorvis 1 ≠ 0 := by decide
        by_cases hc : v = 1 ∧ (!cfg.repliesGuarded || decide (d.init.cursorvis = 0)) = true
        · rw [if_pos hc]
          refine ⟨hm, hkz, ⟨halt, ?_, ?_, hmo, hkey⟩, fun _ _ => hi1⟩
          · intro hv hh
            exfalso
            have hg := hr hv
            have hz := hvis hv hh
            have := hvi hg hz
            simp [hg, this] at hc
          · intro hv; exact ⟨(hhid hv).1, hw1⟩
        · rw [if_neg hc]
          exact ⟨hm, hkz, ⟨halt, hvis, hhid, hmo, hkey⟩, fun _ _ => hi1⟩
      · simp only [hm25, if_false]
        by_cases hm69 : mo = 69
        · rw [if_pos hm69]; exact ⟨hm, hkz, ⟨halt, hvis, hhid, hmo, hkey⟩, hvi⟩
        · rw [if_neg hm69]; exact ⟨hm, hkz, ⟨halt, hvis, hhid, hmo, hkey⟩, hvi⟩

theorem foldl_dinv (cfg : Cfg) (v0 : Bool) (hr : v0 = true → cfg.repliesGuarded = true) (m : VModes) :
    ∀ (rs : List Reply) (d : XDrv), DInv cfg v0 d m → DInv cfg v0 (rs.foldl (applyReply cfg) d) m
  | [], _, h => h
  | r :: rs, d, h => foldl_dinv cfg v0 hr m rs _ (applyReply_dinv cfg v0 hr d r m h)

/-- `tickit_term_input_push_bytes`: the replies libtermkey hands on now (those buffered while it was stopped, then
    this one), or none. -/
theorem reply_dinv (cfg : Cfg) (v0 : Bool) (hr : v0 = true → cfg.repliesGuarded = true) (t : Term) (r : Reply) (m : VModes)
    (h : DInv cfg v0 t.drv m) :
    DInv cfg v0 (Term.reply cfg t r).drv m ∧ (Term.reply cfg t r).state = t.state ∧ (Term.reply cfg t r).pen = t.pen := by
  unfold Term.reply
  split
  · exact ⟨foldl_dinv cfg v0 hr m _ _ h, rfl, rfl⟩
  · exact ⟨h, rfl, rfl⟩

/-- The modes of a terminal covered by the shadow after `stop` / `pause`. -/
theorem teardown_modes_offH (v0 : Bool) (d : XDrv) (m : VModes) (h : CovH v0 d.mode m) :
    OffH v0 { m with
          mouse := if d.mode.mouse ≠ 0 then 0 else m.mouse
          sgrMouse := if d.mode.mouse ≠ 0 then false else m.sgrMouse
          cursorVisible := if d.mode.cursorvis = 0 then true else m.cursorVisible
          altscreen := if d.mode.altscreen ≠ 0 then false else m.altscreen
          keypadApp := if d.mode.keypad ≠ 0 then false else m.keypadApp } := by
  obtain ⟨h1, h2, hh, h3, h4⟩ := h
  constructor
  · simp only; split
    · rfl
    · rename_i hz
      cases hb : m.altscreen
      · rfl
      · exact absurd (h1 hb) hz
  · simp only
    cases v0 with
    | true =>
      split
      · rfl
      · rename_i hz
        cases hb : m.cursorVisible
        · exact absurd (h2 rfl hb) hz
        · rfl
    | false =>
      obtain ⟨a, b⟩ := hh rfl
      rw [if_neg b]; exact a
  · simp only; split
    · rfl
    · rename_i hz
      apply Classical.byContradiction
      intro hne
      exact hz (h3 (Or.inl hne))
  · simp only; split
    · rfl
    · rename_i hz
      cases hb : m.sgrMouse
      · rfl
      · exact absurd (h3 (Or.inr hb)) hz
  · simp only; split
    · rfl
    · rename_i hz
      cases hb : m.keypadApp
      · rfl
      · exact absurd (h4 hb) hz

/-- `stop` / `pause` read by a terminal whose modes are covered by the shadow: every listed mode is back in its
    hand-over state and the rendition is the default one. -/
theorem teardown_offH (v0 : Bool) (d : XDrv) (m : VModes) (A : Attrs) (hm : d.mode.mouse ≤ 3) (h : CovH v0 d.mode m) :
    ∃ m', VT.feed ⟨.ground, m, A⟩ (drvTeardown d) = ⟨.ground, m', Attrs.default⟩ ∧ OffH v0 m' ∧ CovH v0 d.mode m' :=
  ⟨_, feed_drvTeardown d m A hm, teardown_modes_offH v0 d m h,
    covH_of_offH v0 d.mode _ (teardown_modes_offH v0 d m h) (fun hv => (h.hid hv).2)⟩

/-- `resume` read by such a terminal keeps it covered. -/
theorem resume_covH (v0 : Bool) (d : XDrv) (m : VModes) (A : Attrs) (hm : d.mode.mouse ≤ 3) (h : CovH v0 d.mode m) :
    ∃ m', VT.feed ⟨.ground, m, A⟩ (drvResume d) = ⟨.ground, m', A⟩ ∧ CovH v0 d.mode m' := by
  refine ⟨_, feed_drvResume d m A hm, ?_⟩
  obtain ⟨h1, h2, hh, h3, h4⟩ := h
  constructor
  · simp only; split
    · rename_i hz; exact fun _ => hz
    · exact h1
  · simp only; split
    · rename_i hz; exact fun _ _ => hz
    · exact h2
  · simp only
    intro hv
    obtain ⟨a, b⟩ := hh hv
    rw [if_neg b]; exact ⟨a, b⟩
  · simp only
    by_cases hz : d.mode.mouse ≠ 0
    · exact fun _ => hz
    · rw [if_neg hz, if_neg hz]; exact h3
  · simp only; split
    · rename_i hz; exact fun _ => hz
    · exact h4

/-- The toplevel instance's setup (await, four controls, clear) on a terminal covered by the shadow. -/
theorem setupterm_covH (cfg : Cfg) (v0 : Bool) (hrec : cfg.keypadRecorded = true) (hv0 : v0 = true) (top : Top) (t : Term)
    (m : VModes) (A : Attrs) (h : DInv cfg v0 t.drv m) :
    ∃ m', VT.feed ⟨.ground, m, A⟩ (setupterm cfg top t).2.2 = ⟨.ground, m', A⟩ ∧
      DInv cfg v0 (setupterm cfg top t).2.1.drv m' ∧
      (setupterm cfg top t).2.1.state = .started ∧ (setupterm cfg top t).2.1.pen = t.pen := by
  obtain ⟨e1, e2, _, e4, _⟩ := Term.await_fields t ModeLayout.setup_await_msec
  have S : ∀ (d : XDrv) (c : Ctl) (v : Int) (m : VModes), (c = .mouse → 0 ≤ v ∧ v ≤ 3) → DInv cfg v0 d m →
      ∃ m', VT.feed ⟨.ground, m, A⟩ (setctlInt cfg d (some c) v).2.1 = ⟨.ground, m', A⟩ ∧
        DInv cfg v0 (setctlInt cfg d (some c) v).1 m' :=
    fun d c v m hv hd => setctl_covH cfg v0 d (some c) v m A hd (fun hc => hv (by simpa using hc))
      (fun _ => Or.inl hrec) (fun _ => hv0)
  unfold setupterm
  simp only [Term.setctl]
  generalize Term.await t ModeLayout.setup_await_msec = t0 at e1 e2 e4 ⊢
  rw [← e1] at h
  by_cases hua : top.useAlt ≠ 0
  · simp only [if_pos hua]
    obtain ⟨m1, f1, d1⟩ := S t0.drv .altscreen 1 m (by simp) h
    obtain ⟨m2, f2, d2⟩ := S _ .cursorvis 0 m1 (by simp) d1
    obtain ⟨m3, f3, d3⟩ := S _ .mouse 2 m2 (by simp) d2
    obtain ⟨m4, f4, d4⟩ := S _ .keypadApp 1 m3 (by simp) d3
    refine ⟨m4, ?_, d4, e4, e2⟩
    rw [feed_append, feed_append, feed_append, feed_append, f1, f2, f3, f4, feed_clearScreen]
  · simp only [if_neg hua]
    obtain ⟨m2, f2, d2⟩ := S t0.drv .cursorvis 0 m (by simp) h
    obtain ⟨m3, f3, d3⟩ := S _ .mouse 2 m2 (by simp) d2
    obtain ⟨m4, f4, d4⟩ := S _ .keypadApp 1 m3 (by simp) d3
    refine ⟨m4, ?_, d4, e4, e2⟩
    rw [feed_append, feed_append, feed_append, feed_append, feed_nil, f2, f3, f4, feed_clearScreen]

/-! ### the invariant over histories of the wide protocol -/

/-- The operations that switch the application keypad on (what the unrepaired tree does not record). -/
def keypadTrigger (cfg : Cfg) (s : Sys) : Op → Bool
  | .ctl (some .keypadApp) v => !cfg.keypadRecorded && decide (v ≠ 0)
  | .tick nosetup => !cfg.keypadRecorded && !nosetup && (match s.top with
      | some top => !top.doneSetup
      | none => false)
  | _ => false

def noKeypadTrigger (cfg : Cfg) : Sys → List Op → Bool
  | _, [] => true
  | s, op :: rest => !keypadTrigger cfg s op && noKeypadTrigger cfg (s.step cfg op).sys rest

theorem noKeypadTrigger_of_recorded (cfg : Cfg) (hk : cfg.keypadRecorded = true) :
    ∀ (ops : List Op) (s : Sys), noKeypadTrigger cfg s ops = true
  | [], _ => rfl
  | op :: rest, s => by
    have : keypadTrigger cfg s op = false := by
      unfold keypadTrigger
      split <;> simp [hk]
    simp [noKeypadTrigger, this, noKeypadTrigger_of_recorded cfg hk rest]

/-- The invariant of the mode life cycle over the wide protocol, for a terminal handed over with cursor visibility
    `v0`. -/
structure WInv (cfg : Cfg) (v0 : Bool) (s : Sys) (vt : VT) (ph : PhaseW) : Prop where
  ground : vt.ps = .ground
  st : ph = .stopped ↔ s.term.state = .unstarted
  d : DInv cfg v0 s.term.drv vt.modes
  off : (ph = .paused ∨ ph = .stopped) → OffH v0 vt.modes ∧ vt.attrs = Attrs.default
  penDom : PenDom s.term.pen

/-- An operation other than pause / resume / teardown. -/
theorem WInv.ord {cfg : Cfg} {v0 : Bool} {s : Sys} {vt : VT} {ph : PhaseW} (h : WInv cfg v0 s vt ph)
    (s' : Sys) (m' : VModes) (A' : Attrs) (ph' : PhaseW)
    (hne : ph ≠ .stopped) (hp1 : ph' ≠ .paused) (hp2 : ph' ≠ .stopped)
    (hstate : s'.term.state = s.term.state ∨ s'.term.state = .started)
    (hD : DInv cfg v0 s'.term.drv m') (hpen : PenDom s'.term.pen) : WInv cfg v0 s' ⟨.ground, m', A'⟩ ph' := by
  have hns : s.term.state ≠ .unstarted := fun hc => hne (h.st.2 hc)
  refine ⟨rfl, ⟨fun hc => absurd hc hp2, ?_⟩, hD, ?_, hpen⟩
  · intro hc
    rcases hstate with e | e
    · rw [e] at hc; exact absurd hc hns
    · rw [e] at hc; cases hc
  · intro hc
    rcases hc with hc | hc
    · exact absurd hc hp1
    · exact absurd hc hp2

theorem phaseNextW_ord (ph ph' : PhaseW) (op : Op) (hph : phaseNextW ph op = some ph')
    (h1 : op ≠ .pause) (h2 : op ≠ .resume) (h3 : op ≠ .teardown) :
    ph ≠ .stopped ∧ ph' ≠ .paused ∧ ph' ≠ .stopped := by
  cases ph <;> cases op <;> first
    | exact absurd rfl h1 | exact absurd rfl h2 | exact absurd rfl h3
    | (simp [phaseNextW] at hph; subst hph; simp)
    | simp [phaseNextW] at hph

theorem stepW_inv (cfg : Cfg) (v0 : Bool) (hr : v0 = true → cfg.repliesGuarded = true) (s : Sys) (vt : VT)
    (ph ph' : PhaseW) (op : Op)
    (h : WInv cfg v0 s vt ph) (hok : opOk op = true) (hph : phaseNextW ph op = some ph')
    (hnt : keypadTrigger cfg s op = false) (htv : v0 = false → touchesVis op = false) :
    WInv cfg v0 (s.step cfg op).sys (VT.feed vt (s.step cfg op).out) ph' := by
  obtain ⟨ps, m, A⟩ := vt
  have hgr := h.ground
  simp only at hgr; subst hgr
  have hD := h.d
  have hpd := h.penDom
  cases op with
  | ctl c v =>
    obtain ⟨hne, hp1, hp2⟩ := phaseNextW_ord ph ph' _ hph nofun nofun nofun
    have hmouse : c = some .mouse → 0 ≤ v ∧ v ≤ 3 := by
      intro hc; subst hc; simpa [opOk] using hok
    have hkp : c = some .keypadApp → cfg.keypadRecorded = true ∨ v = 0 := by
      intro hc; subst hc
      simp only [keypadTrigger, Bool.and_eq_false_iff, Bool.not_eq_false', decide_eq_false_iff_not, ne_eq, Decidable.not_not] at hnt
      exact hnt
    have hcv : c = some .cursorvis → v0 = true := by
      intro hc; subst hc
      cases v0 with
      | true => rfl
      | false => simpa [touchesVis] using htv rfl
    obtain ⟨m', hf, hD'⟩ := setctl_covH cfg v0 s.term.drv c v m A hD hmouse hkp hcv
    simp only [Sys.step, Term.setctl]
    rw [hf]
    exact h.ord _ m' A ph' hne hp1 hp2 (Or.inl rfl) hD' hpd
  | setstr c payload =>
    obtain ⟨hne, hp1, hp2⟩ := phaseNextW_ord ph ph' _ hph nofun nofun nofun
    have htxt : textOnly payload = true := by simpa [opOk] using hok
    have hf : VT.feed ⟨.ground, m, A⟩ (setctlStr c payload).1 = ⟨.ground, m, A⟩ := by
      cases c with
      | none => rfl
      | some c => cases c <;> first | rfl | exact feed_osc m A _ payload htxt (by decide)
    simp only [Sys.step]
    rw [hf]
    exact h.ord _ m A ph' hne hp1 hp2 (Or.inl rfl) hD hpd
  | setpen p =>
    obtain ⟨hne, hp1, hp2⟩ := phaseNextW_ord ph ph' _ hph nofun nofun nofun
    have hp : penInDomain p = true := by simpa [opOk] using hok
    obtain ⟨hd1, hd2⟩ := penNext_dom true s.term.pen p hpd hp
    simp only [Sys.step, Term.putpen]
    rw [feed_drvChpen _ _ _ _ _ _ hd2]
    exact h.ord _ m _ ph' hne hp1 hp2 (Or.inl rfl) hD hd1
  | chpen p =>
    obtain ⟨hne, hp1, hp2⟩ := phaseNextW_ord ph ph' _ hph nofun nofun nofun
    have hp : penInDomain p = true := by simpa [opOk] using hok
    obtain ⟨hd1, hd2⟩ := penNext_dom false s.term.pen p hpd hp
    simp only [Sys.step, Term.putpen]
    rw [feed_drvChpen _ _ _ _ _ _ hd2]
    exact h.ord _ m _ ph' hne hp1 hp2 (Or.inl rfl) hD hd1
  | print bytes =>
    obtain ⟨hne, hp1, hp2⟩ := phaseNextW_ord ph ph' _ hph nofun nofun nofun
    have htxt : textOnly bytes = true := by simpa [opOk] using hok
    simp only [Sys.step]
    rw [feed_text_ground m A bytes htxt]
    exact h.ord _ m A ph' hne hp1 hp2 (Or.inl rfl) hD hpd
  | clear =>
    obtain ⟨hne, hp1, hp2⟩ := phaseNextW_ord ph ph' _ hph nofun nofun nofun
    simp only [Sys.step]
    rw [feed_clearScreen]
    exact h.ord _ m A ph' hne hp1 hp2 (Or.inl rfl) hD hpd
  | flush =>
    obtain ⟨hne, hp1, hp2⟩ := phaseNextW_ord ph ph' _ hph nofun nofun nofun
    simp only [Sys.step, feed_nil]
    exact h.ord _ m A ph' hne hp1 hp2 (Or.inl rfl) hD hpd
  | await msec =>
    obtain ⟨hne, hp1, hp2⟩ := phaseNextW_ord ph ph' _ hph nofun nofun nofun
    obtain ⟨e1, e2, _, e4, _⟩ := Term.await_fields s.term msec
    simp only [Sys.step, feed_nil]
    refine h.ord _ m A ph' hne hp1 hp2 (Or.inr e4) ?_ ?_
    · show DInv cfg v0 (Term.await s.term msec).drv m
      rw [e1]; exact hD
    · show PenDom (Term.await s.term msec).pen
      rw [e2]; exact hpd
  | replyMode mo v =>
    obtain ⟨hne, hp1, hp2⟩ := phaseNextW_ord ph ph' _ hph nofun nofun nofun
    obtain ⟨r1, r2, r3⟩ := reply_dinv cfg v0 hr s.term (.mode mo v) m hD
    simp only [Sys.step, feed_nil]
    refine h.ord _ m A ph' hne hp1 hp2 (Or.inl r2) r1 ?_
    show PenDom (Term.reply cfg s.term (.mode mo v)).pen
    rw [r3]; exact hpd
  | replyShape v =>
    obtain ⟨hne, hp1, hp2⟩ := phaseNextW_ord ph ph' _ hph nofun nofun nofun
    obtain ⟨r1, r2, r3⟩ := reply_dinv cfg v0 hr s.term (.shape v) m hD
    simp only [Sys.step, feed_nil]
    refine h.ord _ m A ph' hne hp1 hp2 (Or.inl r2) r1 ?_
    show PenDom (Term.reply cfg s.term (.shape v)).pen
    rw [r3]; exact hpd
  | replySgr c r =>
    obtain ⟨hne, hp1, hp2⟩ := phaseNextW_ord ph ph' _ hph nofun nofun nofun
    obtain ⟨r1, r2, r3⟩ := reply_dinv cfg v0 hr s.term (.sgr c r) m hD
    simp only [Sys.step, feed_nil]
    refine h.ord _ m A ph' hne hp1 hp2 (Or.inl r2) r1 ?_
    show PenDom (Term.reply cfg s.term (.sgr c r)).pen
    rw [r3]; exact hpd
  | pause =>
    cases ph <;> simp [phaseNextW] at hph
    subst hph
    obtain ⟨m', hf, ho, hc⟩ := teardown_offH v0 s.term.drv m A hD.mouseLe hD.cov
    simp only [Sys.step, Term.pause]
    rw [hf]
    refine ⟨rfl, ?_, ⟨hD.mouseLe, hD.kz, hc, hD.visInit⟩, fun _ => ⟨ho, rfl⟩, hpd⟩
    have : s.term.state ≠ .unstarted := fun hc => by simpa using h.st.2 hc
    simp [this]
  | resume =>
    have hp' : ph' = .running ∧ ph ≠ .stopped := by
      cases ph <;> simp [phaseNextW] at hph <;> exact ⟨hph.symm, nofun⟩
    obtain ⟨hp1, hne⟩ := hp'
    subst hp1
    obtain ⟨m', hf, hc⟩ := resume_covH v0 s.term.drv m A hD.mouseLe hD.cov
    have hD' : DInv cfg v0 s.term.drv m' := ⟨hD.mouseLe, hD.kz, hc, hD.visInit⟩
    simp only [Sys.step, Term.resume]
    rw [feed_append, hf]
    split
    · rw [feed_drvChpen _ _ _ _ _ _ hpd]
      exact h.ord _ m' _ .running hne (by decide) (by decide) (Or.inl rfl) hD' hpd
    · rw [feed_nil]
      exact h.ord _ m' A .running hne (by decide) (by decide) (Or.inl rfl) hD' hpd
  | teardown =>
    have hp' : ph' = .stopped ∧ ph ≠ .stopped := by
      cases ph <;> simp [phaseNextW] at hph <;> exact ⟨hph.symm, nofun⟩
    obtain ⟨hp1, hne⟩ := hp'
    subst hp1
    have hns : s.term.state ≠ .unstarted := fun hc => hne (h.st.2 hc)
    obtain ⟨m', hf, ho, hc⟩ := teardown_offH v0 s.term.drv m A hD.mouseLe hD.cov
    simp only [Sys.step, Term.teardown, if_pos hns]
    rw [hf]
    exact ⟨rfl, by simp, ⟨hD.mouseLe, hD.kz, hc, hD.visInit⟩, fun _ => ⟨ho, rfl⟩, hpd⟩
  | usealt v =>
    obtain ⟨hne, hp1, hp2⟩ := phaseNextW_ord ph ph' _ hph nofun nofun nofun
    simp only [Sys.step]
    cases htop : s.top with
    | none =>
      simp only [feed_nil]
      exact h.ord _ m A ph' hne hp1 hp2 (Or.inl rfl) hD hpd
    | some top =>
      simp only [feed_nil]
      exact h.ord _ m A ph' hne hp1 hp2 (Or.inl rfl) hD hpd
  | tick nosetup =>
    obtain ⟨hne, hp1, hp2⟩ := phaseNextW_ord ph ph' _ hph nofun nofun nofun
    simp only [Sys.step]
    cases htop : s.top with
    | none =>
      simp only [feed_nil]
      exact h.ord _ m A ph' hne hp1 hp2 (Or.inl rfl) hD hpd
    | some top =>
      simp only
      by_cases hcond : (!top.doneSetup && !nosetup) = true
      · rw [if_pos hcond]
        have hc2 := hcond
        simp only [Bool.and_eq_true, Bool.not_eq_true'] at hc2
        have hrec : cfg.keypadRecorded = true := by
          cases hr' : cfg.keypadRecorded
          · simp [keypadTrigger, hr', htop, hc2.1, hc2.2] at hnt
          · rfl
        have hv0 : v0 = true := by
          cases v0 with
          | true => rfl
          | false =>
            have := htv rfl
            simp [touchesVis, hc2.2] at this
        obtain ⟨m', hf, hD', hstate, hpen⟩ := setupterm_covH cfg v0 hrec hv0 top s.term m A hD
        simp only
        rw [hf]
        exact h.ord _ m' A ph' hne hp1 hp2 (Or.inr hstate) hD' (by rw [hpen]; exact hpd)
      · rw [if_neg hcond]
        simp only [feed_nil]
        exact h.ord _ m A ph' hne hp1 hp2 (Or.inl rfl) hD hpd

theorem runW_inv (cfg : Cfg) (v0 : Bool) (hr : v0 = true → cfg.repliesGuarded = true) :
    ∀ (ops : List Op) (s : Sys) (vt : VT) (ph ph' : PhaseW),
    WInv cfg v0 s vt ph → validFromW ph ops = some ph' → noKeypadTrigger cfg s ops = true →
    (v0 = false → ops.all (fun op => !touchesVis op) = true) →
    WInv cfg v0 (Sys.run cfg s ops).1 (VT.feed vt (Sys.run cfg s ops).2) ph'
  | [], s, vt, ph, ph', h, hv, _, _ => by
    simp only [validFromW, Option.some.injEq] at hv
    subst hv
    simpa [Sys.run] using h
  | op :: rest, s, vt, ph, ph', h, hv, hnt, htv => by
    simp only [validFromW] at hv
    split at hv
    · rename_i hok
      cases hp : phaseNextW ph op with
      | none => simp [hp] at hv
      | some ph1 =>
        simp only [hp, Option.bind_some] at hv
        simp only [noKeypadTrigger, Bool.and_eq_true, Bool.not_eq_true'] at hnt
        have htv1 : v0 = false → touchesVis op = false := by
          intro hv0
          have := htv hv0
          simp only [List.all_cons, Bool.and_eq_true, Bool.not_eq_true'] at this
          exact this.1
        have htv2 : v0 = false → rest.all (fun op => !touchesVis op) = true := by
          intro hv0
          have := htv hv0
          simp only [List.all_cons, Bool.and_eq_true, Bool.not_eq_true'] at this
          exact this.2
        have h1 := stepW_inv cfg v0 hr s vt ph ph1 op h hok hp hnt.1 htv1
        have h2 := runW_inv cfg v0 hr rest _ _ ph1 ph' h1 hv hnt.2 htv2
        simpa [Sys.run, feed_append] using h2
    · cases hv

/-- The invariant holds when the terminal has been built, whatever cursor visibility it was handed over with. -/
theorem buildW_inv (cfg : Cfg) (toplevel : Bool) (m0 : VModes) (h : m0.handover = true) :
    WInv cfg m0.cursorVisible (Sys.build toplevel).1 (VT.feed ⟨.ground, m0, Attrs.default⟩ (Sys.build toplevel).2) .running := by
  simp only [VModes.handover, Bool.and_eq_true, Bool.not_eq_true', beq_iff_eq] at h
  obtain ⟨⟨⟨h1, h3⟩, h4⟩, h5⟩ := h
  simp only [Sys.build, Term.build]
  rw [feed_startBytes]
  refine ⟨rfl, by simp, ⟨Nat.zero_le 3, fun _ => rfl, ⟨?_, ?_, ?_, ?_, ?_⟩, ?_⟩, ?_, ?_⟩
  · intro hc; simp [h1] at hc
  · intro hv hc; simp only at hc; rw [hv] at hc; cases hc
  · intro hv; exact ⟨hv, by show (1 : Nat) ≠ 0; decide⟩
  · intro hc; simp [h3, h4] at hc
  · intro hc; simp [h5] at hc
  · intro _ hz; exact absurd hz (by show ¬ (1 : Nat) = 0; decide)
  · intro hc; rcases hc with hc | hc <;> cases hc
  · intro a v hx; cases hx

/-- Destruction from any phase of the wide protocol leaves the terminal in its hand-over modes. -/
theorem destroyW_off (cfg : Cfg) (v0 : Bool) (s : Sys) (vt : VT) (ph : PhaseW) (h : WInv cfg v0 s vt ph) :
    OffH v0 (VT.feed vt s.destroy).modes ∧ (VT.feed vt s.destroy).attrs = Attrs.default := by
  obtain ⟨ps, m, A⟩ := vt
  obtain ⟨hgr, hst, hD, hoff, hpd⟩ := h
  simp only at hgr; subst hgr
  unfold Sys.destroy
  by_cases hs : s.term.state = .unstarted
  · have hph := hst.2 hs
    simp only [Term.teardown, hs, ne_eq, not_true_eq_false, if_false, List.append_nil, feed_nil]
    exact hoff (Or.inr hph)
  · obtain ⟨m', hf, ho, _⟩ := teardown_offH v0 s.term.drv m A hD.mouseLe hD.cov
    simp only [Term.teardown, ne_eq, hs, not_false_eq_true, if_true, not_true_eq_false, if_false, List.append_nil]
    rw [hf]
    exact ⟨ho, rfl⟩

theorem restoredOk_ofH (vt : VT) (m0 : VModes) (h0 : m0.handover = true) (h : OffH m0.cursorVisible vt.modes)
    (ha : vt.attrs = Attrs.default) : restoredOk vt m0 = true := by
  obtain ⟨a1, a2, a3, a4, a5⟩ := h
  simp only [VModes.handover, Bool.and_eq_true, Bool.not_eq_true', beq_iff_eq] at h0
  obtain ⟨⟨⟨b1, b3⟩, b4⟩, b5⟩ := h0
  simp only [restoredOk, Bool.and_eq_true, beq_iff_eq, List.all_eq_true]
  refine ⟨⟨⟨⟨⟨?_, ?_⟩, ?_⟩, ?_⟩, ?_⟩, ?_⟩
  · rw [a1, b1]
  · rw [a2]
  · rw [a3, b3]
  · rw [a4, b4]
  · rw [a5, b5]
  · intro k _; rw [ha]; rfl

/-- No operation of the history switches the application keypad on where the tree does not record it. -/
def KeypadTriggerFree (cfg : Cfg) (toplevel : Bool) (ops : List Op) : Prop :=
  noKeypadTrigger cfg (Sys.build toplevel).1 ops = true

instance (cfg : Cfg) (toplevel : Bool) (ops : List Op) : Decidable (KeypadTriggerFree cfg toplevel ops) := by
  unfold KeypadTriggerFree; infer_instance

/-- The invariant after any history inside the wide contract, on a terminal handed over in state `m0`. -/
theorem afterW_inv (cfg : Cfg) (toplevel : Bool) (m0 : VModes) (ops : List Op) (ph : PhaseW)
    (hm0 : m0.handover = true) (hr : m0.cursorVisible = true → cfg.repliesGuarded = true)
    (hv : validFromW .running ops = some ph) (hnt : KeypadTriggerFree cfg toplevel ops)
    (hh : m0.cursorVisible = false → ops.all (fun op => !touchesVis op) = true) :
    WInv cfg m0.cursorVisible (sysAfter cfg toplevel ops) (vtAfter cfg toplevel m0 ops) ph :=
  runW_inv cfg m0.cursorVisible hr ops _ _ .running ph (buildW_inv cfg toplevel m0 hm0) hv hnt hh

/-- **Restoration over the wide protocol, for any hand-over state.**  The terminal that has read everything is back
    in the mode state it was handed over in, with the default rendition, after pause / teardown, and after
    destruction from any phase - in particular after operations between pause and resume. -/
theorem restoresW (cfg : Cfg) (toplevel : Bool) (m0 : VModes) (ops : List Op) (ph : PhaseW)
    (hm0 : m0.handover = true) (hr : m0.cursorVisible = true → cfg.repliesGuarded = true)
    (hv : validFromW .running ops = some ph) (hnt : KeypadTriggerFree cfg toplevel ops)
    (hh : m0.cursorVisible = false → ops.all (fun op => !touchesVis op) = true) :
    ((ph = .paused ∨ ph = .stopped) → restoredOk (vtAfter cfg toplevel m0 ops) m0 = true) ∧
    restoredOk (VT.feed (vtAfter cfg toplevel m0 ops) (sysAfter cfg toplevel ops).destroy) m0 = true := by
  have h := afterW_inv cfg toplevel m0 ops ph hm0 hr hv hnt hh
  constructor
  · intro hp
    obtain ⟨ho, ha⟩ := h.off hp
    exact restoredOk_ofH _ m0 hm0 ho ha
  · obtain ⟨ho, ha⟩ := destroyW_off cfg _ _ _ ph h
    exact restoredOk_ofH _ m0 hm0 ho ha

end Tickit.Modes
