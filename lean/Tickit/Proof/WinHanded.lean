import Tickit.Proof.WinExpose
/-
  The rectangles handed to the expose handlers, as a pure function of the tree (`handed`): the sequence of
  `(window, rectangle)` events of `_do_expose` does not depend on the render buffer.  On the pure function: every
  handed rectangle, moved to its window's origin, lies inside the rectangle the traversal started from; in a tree in
  which no window occurs twice a window is visited at most once and its origin is unique.  Hence the rectangles handed
  to one window in one flush are pairwise disjoint when the damage rectangles are.
-/
namespace Tickit
namespace WinFlush
open WinTree WinRB WinSpec

/-- A handed rectangle with the (ghost) origin of its window in root coordinates. -/
structure Handed where
  win : Id
  rect : Rect
  ol : Int
  oc : Int
deriving Repr, Inhabited

def Handed.ev (h : Handed) : Ev := (h.win, h.rect)

def handedChildren (t : Tree) (recur : Id → Rect → Int → Int → List Handed) (rect : Rect) (ol oc : Int) :
    List Id → List Handed
  | [] => []
  | c :: cs =>
    match t.wins[c]? with
    | none => handedChildren t recur rect ol oc cs
    | some cw =>
      if !cw.isVisible then handedChildren t recur rect ol oc cs
      else
        (match Rect.intersect rect cw.rect with
          | some e => recur c (e.translate (-cw.rect.top) (-cw.rect.left)) (ol + cw.rect.top) (oc + cw.rect.left)
          | none => []) ++ handedChildren t recur rect ol oc cs

/-- The handler invocations of `_do_expose(win, rect)`, in order, `win` being at `(ol, oc)`. -/
def handed (t : Tree) : Nat → Id → Rect → Int → Int → List Handed
  | 0, _, _, _, _ => []
  | fuel + 1, win, rect, ol, oc =>
    (match t.wins[win]? with
      | none => []
      | some w => handedChildren t (handed t fuel) rect ol oc w.children) ++ [⟨win, rect, ol, oc⟩]

/-! ### the model's events are the pure function's -/

theorem doChildren_events (t : Tree) (beh : Id → Rect → List DrawOp) (pens : Array (Option Pen)) (fuel : Nat) (rect : Rect)
    (ih : ∀ (win : Id) (r : Rect) (ol oc : Int) (s s' : RB × List Shot), doExpose beh t pens fuel win r s = .ok s' →
      s'.2.map Shot.ev = s.2.map Shot.ev ++ (handed t fuel win r ol oc).map Handed.ev) (ol oc : Int) :
    ∀ (cs : List Id) (s s' : RB × List Shot), doChildren t (doExpose beh t pens fuel) rect cs s = .ok s' →
      s'.2.map Shot.ev = s.2.map Shot.ev ++ (handedChildren t (handed t fuel) rect ol oc cs).map Handed.ev := by
  intro cs
  induction cs with
  | nil => intro s s' h; simp only [doChildren] at h; cases h; simp [handedChildren]
  | cons c cs ihcs =>
    intro s s' h
    simp only [doChildren] at h
    cases hg : WinTree.get t c with
    | ub w => rw [hg] at h; cases h
    | ok cw =>
      rw [hg] at h
      have hcw := get_ok hg
      simp only [bind, Bind.bind] at h
      simp only [handedChildren, hcw.1]
      cases hv : cw.isVisible with
      | false => simp only [hv] at h ⊢; exact ihcs s s' h
      | true =>
        simp only [hv] at h ⊢
        cases hi : Rect.intersect rect cw.rect with
        | none =>
          rw [hi] at h
          simp only [pure, Pure.pure] at h
          have := ihcs _ s' h
          simpa using this
        | some exposed =>
          rw [hi] at h
          simp only [bind, Bind.bind, pure, Pure.pure] at h
          cases hrec : doExpose beh t pens fuel c (exposed.translate (-cw.rect.top) (-cw.rect.left))
              (((s.1.save).clipTo exposed).translate cw.rect.top cw.rect.left, s.2) with
          | ub w => rw [hrec] at h; cases h
          | ok s2 =>
            rw [hrec] at h
            simp only at h
            have h1 := ih c _ (ol + cw.rect.top) (oc + cw.rect.left) _ s2 hrec
            have h2 := ihcs _ s' h
            simp only at h1 h2
            rw [h2, h1]
            simp [List.map_append, List.append_assoc]

theorem doExpose_events (t : Tree) (beh : Id → Rect → List DrawOp) (pens : Array (Option Pen)) :
    ∀ (fuel : Nat) (win : Id) (r : Rect) (ol oc : Int) (s s' : RB × List Shot), doExpose beh t pens fuel win r s = .ok s' →
      s'.2.map Shot.ev = s.2.map Shot.ev ++ (handed t fuel win r ol oc).map Handed.ev := by
  intro fuel
  induction fuel with
  | zero => intro win r ol oc s s' h; simp [doExpose] at h
  | succ n ih =>
    intro win r ol oc s s' h
    simp only [doExpose] at h
    cases hg : WinTree.get t win with
    | ub w => rw [hg] at h; cases h
    | ok w =>
      rw [hg] at h
      have hw := get_ok hg
      simp only [bind, Bind.bind] at h
      cases hl : doChildren t (doExpose beh t pens n) r w.children (applyWinPen pens win s.1, s.2) with
      | ub e => rw [hl] at h; cases h
      | ok sl =>
        rw [hl] at h
        simp only [pure, Pure.pure] at h
        cases h
        have := doChildren_events t beh pens n r ih ol oc w.children _ sl hl
        simp only at this
        simp only [handed, hw.1, List.map_append, this, List.map_cons, List.map_nil, Shot.ev, Handed.ev, List.append_assoc]

/-- The handed rectangles of a whole flush: one traversal per damage rectangle cut down to the root's area. -/
def handedRects (t : Tree) (fuel : Nat) (bounds : Rect) : List Rect → List Handed
  | [] => []
  | ρ0 :: rest =>
    (match Rect.intersect ρ0 bounds with
      | some ρ => handed t fuel 0 ρ 0 0
      | none => []) ++ handedRects t fuel bounds rest

theorem exposeRects_events (t : Tree) (beh : Id → Rect → List DrawOp) (pens : Array (Option Pen)) (fuel : Nat) (bounds : Rect) :
    ∀ (rects : List Rect) (s s' : RB × List Shot), exposeRects beh t pens fuel bounds rects s = .ok s' →
      s'.2.map Shot.ev = s.2.map Shot.ev ++ (handedRects t fuel bounds rects).map Handed.ev := by
  intro rects
  induction rects with
  | nil => intro s s' h; simp only [exposeRects] at h; cases h; simp [handedRects]
  | cons ρ0 rest ih =>
    intro s s' h
    simp only [exposeRects] at h
    simp only [handedRects]
    cases hi0 : Rect.intersect ρ0 bounds with
    | none => rw [hi0] at h; simpa using ih s s' h
    | some ρ =>
      rw [hi0] at h
      simp only at h
      cases hd : doExpose beh t pens fuel 0 ρ ((s.1.save).clipTo ρ, s.2) with
      | ub w => rw [hd] at h; cases h
      | ok s1 =>
        rw [hd] at h
        simp only [bind, Bind.bind] at h
        have h1 := doExpose_events t beh pens fuel 0 ρ 0 0 _ s1 hd
        have h2 := ih _ s' h
        simp only at h1 h2
        rw [h2, h1]
        simp [List.map_append, List.append_assoc]

/-! ### the pure function -/

/-- All the origins at which window `w` is visited when the traversal starts from `cur` at `(ol, oc)`. -/
def origins (t : Tree) : Nat → Id → Int → Int → Id → List (Int × Int)
  | 0, _, _, _, _ => []
  | fuel + 1, cur, ol, oc, w =>
    (if cur = w then [(ol, oc)] else []) ++
    (match t.wins[cur]? with
      | none => []
      | some cw => cw.children.flatMap (fun ch =>
          match t.wins[ch]? with
          | none => []
          | some chw => origins t fuel ch (ol + chw.rect.top) (oc + chw.rect.left) w))

/-- The windows the traversal can visit, with multiplicity. -/
def visitIds (t : Tree) : Nat → Id → List Id
  | 0, _ => []
  | fuel + 1, id =>
    id :: (match t.wins[id]? with
      | none => []
      | some w => w.children.flatMap (visitIds t fuel))

theorem origins_length_le (t : Tree) (w : Id) : ∀ (fuel : Nat) (cur : Id) (ol oc : Int),
    (origins t fuel cur ol oc w).length ≤ (visitIds t fuel cur).count w := by
  intro fuel
  induction fuel with
  | zero => intro cur ol oc; simp [origins]
  | succ n ih =>
    intro cur ol oc
    simp only [origins, visitIds, List.length_append, List.count_cons]
    have h1 : (if cur = w then [(ol, oc)] else []).length = (if (cur == w) = true then 1 else 0) := by
      by_cases h : cur = w <;> simp [h]
    rw [h1]
    have h2 : (match t.wins[cur]? with
        | none => []
        | some cw => cw.children.flatMap (fun ch =>
            match t.wins[ch]? with
            | none => []
            | some chw => origins t n ch (ol + chw.rect.top) (oc + chw.rect.left) w)).length ≤
        (match t.wins[cur]? with
        | none => []
        | some w' => w'.children.flatMap (visitIds t n)).count w := by
      cases t.wins[cur]? with
      | none => simp
      | some cw =>
        simp only
        induction cw.children with
        | nil => simp
        | cons ch rest ihr =>
          simp only [List.flatMap_cons, List.length_append, List.count_append]
          have : (match t.wins[ch]? with
              | none => []
              | some chw => origins t n ch (ol + chw.rect.top) (oc + chw.rect.left) w).length ≤ (visitIds t n ch).count w := by
            cases t.wins[ch]? with
            | none => simp
            | some chw => exact ih ch _ _
          omega
    omega

/-- What every element of `handed … win rect ol oc` satisfies. -/
structure HandedOk (t : Tree) (fuel : Nat) (win : Id) (rect : Rect) (ol oc : Int) (h : Handed) : Prop where
  inside : ∀ l c, h.rect.memb l c = true → rect.memb (l + h.ol - ol) (c + h.oc - oc) = true
  origin : (h.ol, h.oc) ∈ origins t fuel win ol oc h.win

theorem handed_ok (t : Tree) : ∀ (fuel : Nat) (win : Id) (rect : Rect) (ol oc : Int),
    (∀ h ∈ handed t fuel win rect ol oc, HandedOk t fuel win rect ol oc h) ∧
    ∀ w, ((handed t fuel win rect ol oc).filter (fun h => h.win = w)).length ≤ (visitIds t fuel win).count w := by
  intro fuel
  induction fuel with
  | zero => intro win rect ol oc; simp [handed]
  | succ n ih =>
    intro win rect ol oc
    -- the children part
    have hch : ∀ (w' : Win), t.wins[win]? = some w' → ∀ (cs : List Id),
        (∀ h ∈ handedChildren t (handed t n) rect ol oc cs,
          (∀ l c, h.rect.memb l c = true → rect.memb (l + h.ol - ol) (c + h.oc - oc) = true) ∧
          (h.ol, h.oc) ∈ cs.flatMap (fun ch => match t.wins[ch]? with
            | none => []
            | some chw => origins t n ch (ol + chw.rect.top) (oc + chw.rect.left) h.win)) ∧
        ∀ w, ((handedChildren t (handed t n) rect ol oc cs).filter (fun h => h.win = w)).length ≤
          (cs.flatMap (visitIds t n)).count w := by
      intro w' _ cs
      induction cs with
      | nil => simp [handedChildren]
      | cons c cs ihcs =>
        simp only [handedChildren]
        cases hc : t.wins[c]? with
        | none =>
          simp only
          refine ⟨fun h hh => ?_, fun w => ?_⟩
          · have := ihcs.1 h hh
            refine ⟨this.1, ?_⟩
            simp only [List.flatMap_cons, hc, List.nil_append]
            exact this.2
          · have := ihcs.2 w
            simp only [List.flatMap_cons, List.count_append]
            omega
        | some cw =>
          simp only
          cases hv : cw.isVisible with
          | false =>
            simp only [hv, Bool.not_false, if_true]
            refine ⟨fun h hh => ?_, fun w => ?_⟩
            · have := ihcs.1 h hh
              refine ⟨this.1, ?_⟩
              simp only [List.flatMap_cons, List.mem_append]
              exact Or.inr this.2
            · have := ihcs.2 w
              simp only [List.flatMap_cons, List.count_append]
              omega
          | true =>
            simp only [hv, Bool.not_true, Bool.false_eq_true, if_false]
            cases hi : Rect.intersect rect cw.rect with
            | none =>
              simp only [List.nil_append]
              refine ⟨fun h hh => ?_, fun w => ?_⟩
              · have := ihcs.1 h hh
                refine ⟨this.1, ?_⟩
                simp only [List.flatMap_cons, List.mem_append]
                exact Or.inr this.2
              · have := ihcs.2 w
                simp only [List.flatMap_cons, List.count_append]
                omega
            | some e =>
              simp only
              have hih := ih c (e.translate (-cw.rect.top) (-cw.rect.left)) (ol + cw.rect.top) (oc + cw.rect.left)
              refine ⟨fun h hh => ?_, fun w => ?_⟩
              · rcases List.mem_append.1 hh with hh | hh
                · have hk := hih.1 h hh
                  refine ⟨fun l c hm => ?_, ?_⟩
                  · have := hk.inside l c hm
                    rw [memb_translate] at this
                    have hb := intersect_bounds hi
                    have hm2 := (memb_true_iff _ _ _).1 this
                    apply (memb_true_iff _ _ _).2
                    simp only [Rect.Mem, Rect.bottom, Rect.right] at hm2 hb ⊢
                    omega
                  · simp only [List.flatMap_cons, List.mem_append, hc]
                    exact Or.inl hk.origin
                · have := ihcs.1 h hh
                  refine ⟨this.1, ?_⟩
                  simp only [List.flatMap_cons, List.mem_append]
                  exact Or.inr this.2
              · have h1 := hih.2 w
                have h2 := ihcs.2 w
                simp only [List.filter_append, List.length_append, List.flatMap_cons, List.count_append]
                omega
    simp only [handed]
    cases hw : t.wins[win]? with
    | none =>
      simp only [List.nil_append]
      refine ⟨fun h hh => ?_, fun w => ?_⟩
      · simp only [List.mem_singleton] at hh
        subst hh
        exact ⟨fun l c hm => by simpa using hm, by simp [origins]⟩
      · simp only [visitIds, hw, List.count_cons, List.filter_cons, List.filter_nil]
        by_cases hq : win = w <;> simp [hq]
    | some w' =>
      simp only
      have hc := hch w' hw w'.children
      refine ⟨fun h hh => ?_, fun w => ?_⟩
      · rcases List.mem_append.1 hh with hh | hh
        · have := hc.1 h hh
          exact ⟨this.1, by
            simp only [origins, hw, List.mem_append]
            exact Or.inr this.2⟩
        · simp only [List.mem_singleton] at hh
          subst hh
          exact ⟨fun l c hm => by simpa using hm, by simp [origins]⟩
      · have := hc.2 w
        simp only [visitIds, hw, List.count_cons, List.filter_append, List.length_append, List.filter_cons, List.filter_nil]
        by_cases hq : win = w <;> simp [hq] <;> omega

/-! ### disjointness -/

theorem pairwise_of_length_le_one {α : Type} (R : α → α → Prop) (l : List α) (h : l.length ≤ 1) : l.Pairwise R := by
  cases l with
  | nil => exact List.Pairwise.nil
  | cons a rest =>
    cases rest with
    | nil => exact List.pairwise_singleton R a
    | cons b r => simp at h

/-- In a tree in which no window occurs twice, the rectangles handed to one window during one flush are pairwise
    disjoint when the damage rectangles are. -/
theorem handedRects_disjoint (t : Tree) (fuel : Nat) (bounds : Rect) (hnd : (visitIds t fuel 0).Nodup) (w : Id) :
    ∀ (rects : List Rect), rects.Pairwise Rect.Disjoint →
      (((handedRects t fuel bounds rects).map Handed.ev).filter (fun e => e.1 = w)).Pairwise
        (fun a b => Rect.Disjoint a.2 b.2) ∧
      ∀ h ∈ handedRects t fuel bounds rects, h.win = w →
        ∃ ρ0 ∈ rects, ∀ l c, h.rect.memb l c = true → ρ0.memb (l + h.ol) (c + h.oc) = true := by
  have hcount : (visitIds t fuel 0).count w ≤ 1 := List.nodup_iff_count.1 hnd w
  -- the origin of `w` is unique
  have horig : ∀ p q, p ∈ origins t fuel 0 0 0 w → q ∈ origins t fuel 0 0 0 w → p = q := by
    intro p q hp hq
    have hl := Nat.le_trans (origins_length_le t w fuel 0 0 0) hcount
    cases ho : origins t fuel 0 0 0 w with
    | nil => rw [ho] at hp; cases hp
    | cons a rest =>
      rw [ho] at hp hq hl
      cases rest with
      | nil => simp at hp hq; rw [hp, hq]
      | cons b r => simp at hl
  intro rects
  induction rects with
  | nil => intro _; simp [handedRects]
  | cons ρ0 rest ih =>
    intro hpw
    obtain ⟨hρ0, hrest⟩ := List.pairwise_cons.1 hpw
    obtain ⟨ih1, ih2⟩ := ih hrest
    simp only [handedRects]
    -- the elements contributed by ρ0
    have hfirst : ∀ h ∈ (match Rect.intersect ρ0 bounds with
          | some ρ => handed t fuel 0 ρ 0 0
          | none => []), h.win = w →
        (h.ol, h.oc) ∈ origins t fuel 0 0 0 w ∧ ∀ l c, h.rect.memb l c = true → ρ0.memb (l + h.ol) (c + h.oc) = true := by
      intro h hh hwq
      cases hi : Rect.intersect ρ0 bounds with
      | none => rw [hi] at hh; cases hh
      | some ρ =>
        rw [hi] at hh
        have hk := (handed_ok t fuel 0 ρ 0 0).1 h hh
        refine ⟨by rw [← hwq]; exact hk.origin, fun l c hm => ?_⟩
        have := hk.inside l c hm
        simp only [Int.sub_zero] at this
        rw [memb_intersect hi, Bool.and_eq_true] at this
        exact this.1
    have hfirst_len : ((match Rect.intersect ρ0 bounds with
          | some ρ => handed t fuel 0 ρ 0 0
          | none => []).filter (fun (h : Handed) => h.win = w)).length ≤ 1 := by
      cases hi : Rect.intersect ρ0 bounds with
      | none => simp
      | some ρ => exact Nat.le_trans ((handed_ok t fuel 0 ρ 0 0).2 w) hcount
    constructor
    · rw [List.map_append, List.filter_append]
      apply List.pairwise_append.2
      refine ⟨?_, ih1, ?_⟩
      · apply pairwise_of_length_le_one
        have : ((List.map Handed.ev (match Rect.intersect ρ0 bounds with
            | some ρ => handed t fuel 0 ρ 0 0
            | none => [])).filter (fun e => decide (e.1 = w))).length =
            ((match Rect.intersect ρ0 bounds with
            | some ρ => handed t fuel 0 ρ 0 0
            | none => []).filter (fun (h : Handed) => decide (h.win = w))).length := by
          rw [List.filter_map, List.length_map]
          rfl
        rw [this]; exact hfirst_len
      · intro a ha b hb
        simp only [List.mem_filter, List.mem_map, decide_eq_true_eq] at ha hb
        obtain ⟨⟨ha', hha, rfl⟩, hwa⟩ := ha
        obtain ⟨⟨hb', hhb, rfl⟩, hwb⟩ := hb
        simp only [Handed.ev] at hwa hwb ⊢
        obtain ⟨hoa, hina⟩ := hfirst ha' hha hwa
        obtain ⟨ρ1, hρ1, hinb⟩ := ih2 hb' hhb hwb
        -- origin of hb'
        have hob : (hb'.ol, hb'.oc) ∈ origins t fuel 0 0 0 w := by
          -- hb' comes from some later rectangle's traversal
          have : ∀ (rs : List Rect), hb' ∈ handedRects t fuel bounds rs → (hb'.ol, hb'.oc) ∈ origins t fuel 0 0 0 hb'.win := by
            intro rs
            induction rs with
            | nil => intro hx; simp [handedRects] at hx
            | cons r rs ihr =>
              intro hx
              simp only [handedRects] at hx
              rcases List.mem_append.1 hx with hx | hx
              · cases hi : Rect.intersect r bounds with
                | none => rw [hi] at hx; cases hx
                | some ρ => rw [hi] at hx; exact ((handed_ok t fuel 0 ρ 0 0).1 hb' hx).origin
              · exact ihr hx
          rw [← hwb]; exact this rest hhb
        have heq := horig _ _ hoa hob
        simp only [Prod.mk.injEq] at heq
        intro l c ⟨hma, hmb⟩
        have h1 := hina l c ((memb_true_iff _ _ _).2 hma)
        have h2 := hinb l c ((memb_true_iff _ _ _).2 hmb)
        rw [← heq.1, ← heq.2] at h2
        exact hρ0 ρ1 hρ1 _ _ ⟨(memb_true_iff _ _ _).1 h1, (memb_true_iff _ _ _).1 h2⟩
    · intro h hh hwq
      rcases List.mem_append.1 hh with hh | hh
      · exact ⟨ρ0, List.mem_cons_self, (hfirst h hh hwq).2⟩
      · obtain ⟨ρ1, hρ1, hin⟩ := ih2 h hh hwq
        exact ⟨ρ1, List.mem_cons_of_mem _ hρ1, hin⟩

end WinFlush
end Tickit
