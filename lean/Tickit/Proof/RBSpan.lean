import Tickit.Model.RBSpan
import Tickit.Proof.RBUtf8
/-
  Proofs about `Model/RBSpan.lean`: the formatted-text path never truncates (`vtextfWith_exact`), and the span
  query answers from the abstract content (`getSpanQ_abs`) when the two statements of `get_span` read as
  repaired (fixes/C03_get_span.patch).
-/
namespace Tickit.RB
open Tickit.RBAbs

/-! ### `tmp_alloc`, `put_vtextf` -/

theorem tmpGrow_ge : ∀ (fuel size need : Nat), 0 < size → need ≤ size + fuel → need ≤ tmpGrow fuel size need := by
  intro fuel
  induction fuel with
  | zero => intro size need _ h; unfold tmpGrow; omega
  | succ f ih =>
    intro size need h0 h
    unfold tmpGrow
    split
    · exact ih (size * 2) need (by omega) (by omega)
    · omega

theorem tmpGrow_mono : ∀ (fuel size need : Nat), size ≤ tmpGrow fuel size need := by
  intro fuel
  induction fuel with
  | zero => intro size need; unfold tmpGrow; exact Nat.le_refl _
  | succ f ih =>
    intro size need
    unfold tmpGrow
    split
    · exact Nat.le_trans (by omega) (ih (size * 2) need)
    · exact Nat.le_refl _

theorem tmpAlloc_ge (tmpsize need : Nat) (h : 0 < tmpsize) : need ≤ tmpAlloc tmpsize need ∧ tmpsize ≤ tmpAlloc tmpsize need :=
  ⟨tmpGrow_ge _ _ _ h (by omega), tmpGrow_mono _ _ _⟩

/-- **`put_vtextf` hands the whole formatted result to `put_text`** whenever the scratch area is requested with
    room for the terminator (`slack ≥ 1`): no truncation, no read past the area; the area only grows. -/
theorem vtextfWith_exact (cfg : VtextfCfg) (hs : 1 ≤ cfg.slack) (tmpsize : Nat) (h : 0 < tmpsize) (s : List UInt8) :
    ∃ size, vtextfWith cfg tmpsize s = some (s, size) ∧ tmpsize ≤ size := by
  unfold vtextfWith
  split
  · exact ⟨tmpsize, rfl, Nat.le_refl _⟩
  · obtain ⟨a, b⟩ := tmpAlloc_ge tmpsize (s.length + cfg.slack) h
    refine ⟨tmpAlloc tmpsize (s.length + cfg.slack), ?_, b⟩
    simp only
    rw [if_neg (by omega)]
    have e1 : s.take (tmpAlloc tmpsize (s.length + cfg.slack) - 1) = s := List.take_of_length_le (by omega)
    rw [e1, List.take_append_of_le_length (Nat.le_refl _), List.take_length]

/-- With no slack a result exactly as long as the scratch area loses its last byte to the terminator. -/
theorem vtextfWith_noslack_truncates :
    vtextfWith ⟨2, 0⟩ 4 [65, 66, 67, 68] = some ([65, 66, 67, 0], 4) := by decide

/-! ### a run, cell by cell -/

/-- Inside the run that starts at the non-CONT cell `sc`, column `j` shows the start cell's content at offset
    `j − sc`. -/
theorem run_content {n : Int} {row : Row} (h : RowWF n row) (sc j : Int) (h0 : 0 ≤ sc) (hn : sc < n)
    (hs : (row.get sc).state ≠ .cont) (h1 : sc ≤ j) (h2 : j < sc + (row.get sc).cols) :
    rowContent row j = cellContent (row.get sc) (j - sc) := by
  unfold rowContent
  by_cases e : j = sc
  · subst e
    rw [if_neg hs, Int.sub_self]
  · obtain ⟨a, b⟩ := h.start_run sc j h0 hn hs (by omega) h2
    rw [if_pos a, b]

theorem shiftContent_cell (start : Cell) (off i : Int) :
    shiftContent (cellContent start off) i = cellContent start (off + i) := by
  unfold cellContent shiftContent
  cases start.state <;> simp only [Int.add_assoc]

/-- The run `[sc, sc + cols)` seen from its column `sc + off`: the remaining `cols − off` columns are one
    homogeneous piece of the abstract content. -/
theorem run_homogeneous {rb : RB} (wf : WF rb) (L sc off : Int) (hL0 : 0 ≤ L) (hL : L < rb.lines) (h0 : 0 ≤ sc) (hn : sc < rb.cols)
    (hs : ((rb.cells L).get sc).state ≠ .cont) (ho0 : 0 ≤ off) (ho : off < ((rb.cells L).get sc).cols) :
    homogeneous (absOf rb) L (sc + off) (((rb.cells L).get sc).cols - off) = true ∧
    absContent rb L (sc + off) = cellContent ((rb.cells L).get sc) off := by
  have hrow := wf.rows L hL0 hL
  have hlen := hrow.start_len sc h0 hn hs
  have hcont : ∀ j, sc ≤ j → j < sc + ((rb.cells L).get sc).cols →
      absContent rb L j = cellContent ((rb.cells L).get sc) (j - sc) := by
    intro j a b
    rw [absContent_eq, if_pos ((inBuf_iff _ _ _ _).2 ⟨hL0, hL, by omega, by omega⟩)]
    exact run_content hrow sc j h0 hn hs a b
  have hhere : absContent rb L (sc + off) = cellContent ((rb.cells L).get sc) off := by
    rw [hcont (sc + off) (by omega) (by omega)]
    congr 1; omega
  refine ⟨?_, hhere⟩
  unfold homogeneous
  have ec : (absOf rb).content = absContent rb := rfl
  have ecols : (absOf rb).cols = rb.cols := rfl
  rw [ec, ecols, hhere]
  simp only [Bool.and_eq_true, decide_eq_true_eq, List.all_eq_true, List.mem_range]
  refine ⟨⟨⟨⟨by omega, by omega⟩, by omega⟩, ?_⟩, ?_⟩
  · unfold cellContent
    cases hst : ((rb.cells L).get sc).state <;> simp only [decide_eq_true_eq]
    · have := hrow.one sc h0 hn (Or.inl hst); omega
    · have := hrow.one sc h0 hn (Or.inr hst); omega
  · intro i hi
    rw [hcont (sc + off + (i : Int)) (by omega) (by omega), shiftContent_cell]
    have e : sc + off + (i : Int) - sc = off + (i : Int) := by omega
    rw [e]
    exact beq_self_eq_true _

/-! ### `get_span_text` and the tail of `tickit_renderbuffer_get_span`, for one start cell -/

/-- The answer of `tickit_renderbuffer_get_span` once the run (`start`, `off`) has been found. -/
def spanOutOf (cfg : SpanCfg) (sp : SpanRef) (info infoPen buf : Bool) (len : Nat) : SpanOut :=
  let ncols : Option Int := if info then some (sp.cell.cols - sp.offset) else none
  if sp.cell.state = .skip then
    { ret := 0, nColumns := ncols, isActive := if info then some false else none }
  else
    let t := getSpanText cfg sp false (if buf then some len else none)
    { ret := if cfg.returnsTextLen then t.ret else len
      nColumns := ncols
      isActive := if info then some true else none
      pen := if info && infoPen then some (Pen.copy Pen.empty sp.cell.pen true) else none
      len := if info then some t.ret else none
      textSet := info
      bytes := t.bytes, term := t.term }

theorem getSpanQ_eq (cfg : SpanCfg) (rb : RB) (line col : Int) (info infoPen buf : Bool) (len : Nat) :
    getSpanQ cfg rb line col info infoPen buf len =
      match getSpan rb line col with
      | none => { ret := -1 }
      | some sp => if sp.cell.state = .cont then { ret := -1 } else spanOutOf cfg sp info infoPen buf len := by
  unfold getSpanQ spanOutOf
  rfl

theorem putOut_spec (buf : Bool) (len : Nat) (cp : Nat) :
    putOut (if buf then some len else none) cp =
      ⟨if (!buf || decide (((Utf8.put cp).length : Int) ≤ (len : Int))) then ((Utf8.put cp).length : Int) else -1,
       if (buf && (!buf || decide (((Utf8.put cp).length : Int) ≤ (len : Int)))) then Utf8.put cp else [],
       buf && decide ((len : Int) > ((Utf8.put cp).length : Int))⟩ := by
  unfold putOut textFin
  cases buf
  · simp
  · simp only [if_true, Bool.not_true, Bool.false_or, Bool.true_and]
    by_cases h : len < (Utf8.put cp).length
    · rw [if_pos h]
      have h1 : ¬ (((Utf8.put cp).length : Int) ≤ (len : Int)) := by omega
      have h2 : ¬ ((len : Int) > ((Utf8.put cp).length : Int)) := by omega
      simp [h1, h2]
    · rw [if_neg h]
      have h1 : ((Utf8.put cp).length : Int) ≤ (len : Int) := by omega
      simp [h1]

/-- **One run, by its content** (repaired text): the answer computed from the start cell of a run and the offset
    into it is the specification's answer for the content shown there and the remaining length of the run. -/
theorem spanOutOf_spec (start : Cell) (off : Int) (hs : start.state ≠ .cont) (info infoPen buf : Bool) (len : Nat) :
    spanOutOf ⟨true, true⟩ ⟨start, off⟩ info infoPen buf len =
      specSpanOut (cellContent start off) (start.cols - off) info infoPen buf len := by
  unfold spanOutOf specSpanOut
  simp only
  cases hst : start.state with
  | cont => exact absurd hst hs
  | skip => simp [cellContent, hst, contentPen]
  | erase =>
    simp only [cellContent, hst, contentPen, getSpanText, specSpanLen, specSpanBytes, Pen.copy_empty, if_true,
      reduceCtorEq, if_false]
    cases buf <;> simp [textFin]
  | line =>
    simp only [cellContent, hst, contentPen, getSpanText, specSpanLen, specSpanBytes, Pen.copy_empty, if_true,
      reduceCtorEq, if_false, putOut_spec]
  | char =>
    simp only [cellContent, hst, contentPen, getSpanText, specSpanLen, specSpanBytes, Pen.copy_empty, if_true,
      reduceCtorEq, if_false, putOut_spec]
  | text =>
    have e : start.offs + off + (start.cols - off) = start.offs + start.cols := by omega
    simp only [cellContent, hst, contentPen, getSpanText, specSpanLen, specSpanBytes, Pen.copy_empty, if_true,
      reduceCtorEq, if_false, Bool.false_eq_true, e]
    generalize (Utf8.ncountmore start.text none {} (some (Utf8.limitColumns (start.offs + off)))).pos = st
    generalize (Utf8.ncountmore start.text none st (some (Utf8.limitColumns (start.offs + start.cols)))).pos = en
    cases buf
    · simp [textFin]
    · simp only [if_true, Bool.not_true, Bool.false_or, Bool.true_and]
      by_cases h : (len : Int) < en.bytes - st.bytes
      · rw [if_pos h]
        have h1 : ¬ (en.bytes - st.bytes ≤ (len : Int)) := by omega
        have h2 : ¬ ((len : Int) > en.bytes - st.bytes) := by omega
        simp [h1, h2]
      · rw [if_neg h]
        have h1 : en.bytes - st.bytes ≤ (len : Int) := by omega
        simp [h1, textFin]

/-- With a buffer and `one_grapheme = 1` the general text function is the one `get_cell_text` was modelled with
    (`getSpanText1`), whichever way the two statements of the span query read. -/
theorem getSpanText_one (cfg : SpanCfg) (sp : SpanRef) (len : Nat) :
    (getSpanText cfg sp true (some len)).ret = (getSpanText1 sp len).1 ∧
    (getSpanText cfg sp true (some len)).bytes = (getSpanText1 sp len).2 := by
  unfold getSpanText getSpanText1
  cases sp.cell.state with
  | cont => exact ⟨rfl, rfl⟩
  | skip => exact ⟨rfl, rfl⟩
  | erase => exact ⟨rfl, rfl⟩
  | text =>
    simp only [if_true]
    split <;> exact ⟨rfl, rfl⟩
  | line =>
    simp only [putOut]
    split <;> exact ⟨rfl, rfl⟩
  | char =>
    simp only [putOut]
    split <;> exact ⟨rfl, rfl⟩

theorem getCellTextQ_eq (rb : RB) (l c : Int) (len : Nat) :
    (getCellTextQ rb l c (some len)).ret = (getCellText rb l c len).1 ∧
    (getCellTextQ rb l c (some len)).bytes = (getCellText rb l c len).2 := by
  unfold getCellTextQ getCellText
  cases getSpan rb l c with
  | none => exact ⟨rfl, rfl⟩
  | some sp =>
    simp only
    split
    · exact ⟨rfl, rfl⟩
    · exact getSpanText_one _ _ _

/-! ### the query -/

/-- **`tickit_renderbuffer_get_span`, by the abstract content** (repaired text).  On a well-formed buffer the query
    for user coordinates `(l, c)` fails (`-1`, nothing stored) exactly for cells outside the clipping region; for the
    others it reports a piece of `n` columns that is homogeneous in the abstract content — however the runs around
    it were split, shortened or re-pointed — and answers what `specSpanOut` says about the content of the cell
    `(l + xlLine, c + xlCol)` and that `n`. -/
theorem getSpanQ_abs {rb : RB} (wf : WF rb) (l c : Int) (info infoPen buf : Bool) (len : Nat) :
    if absClipRect rb.clip (l + rb.xlLine) (c + rb.xlCol) = true then
      ∃ n, homogeneous (absOf rb) (l + rb.xlLine) (c + rb.xlCol) n = true ∧
        getSpanQ ⟨true, true⟩ rb l c info infoPen buf len =
          specSpanOut (absContent rb (l + rb.xlLine) (c + rb.xlCol)) n info infoPen buf len
    else getSpanQ ⟨true, true⟩ rb l c info infoPen buf len = { ret := -1 } := by
  rw [getSpanQ_eq]
  unfold getSpan
  cases hx : xlateAndClip rb l c 1 with
  | none =>
    have hn : ¬ (absClipRect rb.clip (l + rb.xlLine) (c + rb.xlCol) = true) :=
      fun x => xlateAndClip_none hx (c + rb.xlCol) ⟨by omega, by omega, x⟩
    rw [if_neg hn]
  | some r =>
    obtain ⟨r1, r2, r3, r4, r5, r6, r7, r8⟩ := xlateAndClip_one wf.clip hx
    rw [← r1, ← r2, if_pos r8]
    simp only
    have hrow := wf.rows r.line r4 r5
    unfold RB.cell
    by_cases hc : ((rb.cells r.line).get r.col).state = .cont
    · rw [if_pos hc]
      simp only
      have hst := hrow.cont_start r.col r6 r7 hc
      have hlo := hrow.cont_lo r.col r6 r7 hc
      have hin := hrow.cont_in r.col r6 r7 hc
      rw [if_neg hst]
      obtain ⟨hh, hcnt⟩ := run_homogeneous wf r.line ((rb.cells r.line).get r.col).cols (r.col - ((rb.cells r.line).get r.col).cols)
        r4 r5 hlo.1 (by omega) hst (by omega) (by omega)
      have e : ((rb.cells r.line).get r.col).cols + (r.col - ((rb.cells r.line).get r.col).cols) = r.col := by omega
      rw [e] at hh hcnt
      exact ⟨_, hh, by rw [hcnt]; exact spanOutOf_spec _ _ hst _ _ _ _⟩
    · rw [if_neg hc]
      simp only
      rw [if_neg hc]
      have hlen := hrow.start_len r.col r6 r7 hc
      obtain ⟨hh, hcnt⟩ := run_homogeneous wf r.line r.col 0 r4 r5 r6 r7 hc (Int.le_refl _) (by omega)
      rw [Int.add_zero] at hh hcnt
      exact ⟨_, hh, by rw [hcnt]; exact spanOutOf_spec _ _ hc _ _ _ _⟩

/-! ### the text of a text run, in C07's terms -/

open Tickit.Utf8 (specRun) in
open Tickit.Props.C07 (Scans graphemes) in
/-- **The text of `n` columns of a string from column `k` on, in C07's terms.**  Count whole graphemes from the
    start of `s` while the columns stay `≤ k` — the position `st`; go on counting from there while the columns stay
    `≤ k + n` — the position `en`; the text of the piece is `s[st.bytes, en.bytes)`.  (A double-width character
    straddling column `k` starts at `st` and is included; one straddling column `k + n` does not fit and is not.)
    Both counts are `Props.C07`'s `specRun` over the scanned characters. -/
theorem spanText_text_c07 (p : Pen) (s : List UInt8) (k n : Int) :
    ∃ cs1 t1 cs2 t2 st en,
      Scans (Utf8.memOf s) (s.length + 1) none Tickit.Utf8.Pos.zero cs1 t1 ∧
      st = (specRun (some ⟨none, -1, -1, k⟩) (graphemes cs1) t1 Tickit.Utf8.Pos.zero).pos ∧
      Scans (Utf8.memOf s) (s.length + 1) none st cs2 t2 ∧
      en = (specRun (some ⟨none, -1, -1, k + n⟩) (graphemes cs2) t2 st).pos ∧
      specSpanBytes (.text p s k) n = (s.drop st.bytes).take (en.bytes - st.bytes) ∧
      specSpanLen (.text p s k) n = (en.bytes : Int) - st.bytes := by
  obtain ⟨cs1, t1, hs1, hp1, _⟩ := Utf8.ncountmore_c07 s none {} (some (Utf8.limitColumns k)) (Int.le_refl _) (Or.inl rfl)
    (fun l h => by cases h; simp [Utf8.limitColumns])
  have hz : Utf8.toPos {} = Tickit.Utf8.Pos.zero := rfl
  have hl1 : (some (Utf8.limitColumns k)).map Utf8.toLimit = some (⟨none, -1, -1, k⟩ : Tickit.Utf8.Limit) := by
    simp [Utf8.limitColumns, Utf8.toLimit]
  rw [hz] at hs1
  rw [hz, hl1] at hp1
  generalize hst : (specRun (some ⟨none, -1, -1, k⟩) (graphemes cs1) t1 Tickit.Utf8.Pos.zero).pos = st at hp1
  obtain ⟨cs2, t2, hs2, hp2, _⟩ := Utf8.ncountmore_c07 s none (Utf8.ofPos st) (some (Utf8.limitColumns (k + n)))
    (by show (0 : Int) ≤ (st.bytes : Int); omega) (Or.inl rfl) (fun l h => by cases h; simp [Utf8.limitColumns])
  have hl2 : (some (Utf8.limitColumns (k + n))).map Utf8.toLimit = some (⟨none, -1, -1, k + n⟩ : Tickit.Utf8.Limit) := by
    simp [Utf8.limitColumns, Utf8.toLimit]
  rw [toPos_ofPos] at hs2
  rw [toPos_ofPos, hl2] at hp2
  generalize hen : (specRun (some ⟨none, -1, -1, k + n⟩) (graphemes cs2) t2 st).pos = en at hp2
  refine ⟨cs1, t1, cs2, t2, st, en, hs1, hst.symm, hs2, hen.symm, ?_, ?_⟩
  · unfold specSpanBytes
    simp only
    rw [hp1, hp2]
    show (s.drop (((st.bytes : Nat) : Int)).toNat).take (((en.bytes : Nat) : Int) - ((st.bytes : Nat) : Int)).toNat = _
    have e1 : (((st.bytes : Nat) : Int)).toNat = st.bytes := by omega
    have e2 : (((en.bytes : Nat) : Int) - ((st.bytes : Nat) : Int)).toNat = en.bytes - st.bytes := by omega
    rw [e1, e2]
  · unfold specSpanLen
    simp only
    rw [hp1, hp2]
    rfl

open Tickit.Utf8 (specRun) in
open Tickit.Props.C07 (Scans graphemes) in
/-- **The text of a piece lies between two counts from the start of the string.**  For `0 ≤ k`, `0 ≤ n`: with the
    characters `cs` of `s` scanned once from its start, `st` = where C07's specification stops under the limit
    "`k` columns" and `en` = where it stops under the limit "`k + n` columns" — both from the start —, the text of
    the `n` columns from column `k` on is `s[st.bytes, en.bytes)`.  (The code counts the second time from `st`;
    `Props.C07.count_resumable` says that this ends where a single count would.) -/
theorem spanText_between_counts (p : Pen) (s : List UInt8) (k n : Int) (hk : 0 ≤ k) (hn : 0 ≤ n) :
    ∃ cs t st en,
      Scans (Utf8.memOf s) (s.length + 1) none Tickit.Utf8.Pos.zero cs t ∧
      st = (specRun (some ⟨none, -1, -1, k⟩) (graphemes cs) t Tickit.Utf8.Pos.zero).pos ∧
      en = (specRun (some ⟨none, -1, -1, k + n⟩) (graphemes cs) t Tickit.Utf8.Pos.zero).pos ∧
      st.bytes ≤ en.bytes ∧
      specSpanBytes (.text p s k) n = (s.drop st.bytes).take (en.bytes - st.bytes) ∧
      specSpanLen (.text p s k) n = (en.bytes : Int) - st.bytes := by
  obtain ⟨cs1, t1, cs2, t2, st, en, hs1, hst, hs2, hen, hb, hl⟩ := spanText_text_c07 p s k n
  have hle : Tickit.Utf8.LimitLe (some ⟨none, -1, -1, k⟩) (some ⟨none, -1, -1, k + n⟩) := by
    intro q h
    simp [Tickit.Utf8.Within, Tickit.Utf8.leOpt] at h ⊢
    omega
  obtain ⟨h1, hc1⟩ := Props.C07.count_spec (Utf8.memOf s) (s.length + 1) none Tickit.Utf8.Pos.zero (some ⟨none, -1, -1, k⟩) cs1 t1 hs1
  rw [← hst] at hc1
  obtain ⟨r2, r3, q, h2, h3, e2, e3, _, _⟩ := Props.C07.count_resumable (Utf8.memOf s) (s.length + 1) none Tickit.Utf8.Pos.zero
    (some ⟨none, -1, -1, k⟩) (some ⟨none, -1, -1, k + n⟩) cs1 t1 hs1 hle (fun l h => by cases h) _ st h1 hc1
  obtain ⟨h4, hc4⟩ := Props.C07.count_spec (Utf8.memOf s) (s.length + 1) none st (some ⟨none, -1, -1, k + n⟩) cs2 t2 hs2
  rw [← hen] at hc4
  obtain ⟨h5, hc5⟩ := Props.C07.count_spec (Utf8.memOf s) (s.length + 1) none Tickit.Utf8.Pos.zero (some ⟨none, -1, -1, k + n⟩) cs1 t1 hs1
  have q1 : q = en := by
    rw [e2] at hc4
    injection hc4 with _ a _
  have q2 : q = (specRun (some ⟨none, -1, -1, k + n⟩) (graphemes cs1) t1 Tickit.Utf8.Pos.zero).pos := by
    rw [e3] at hc5
    injection hc5 with _ a _
  have hge : st.bytes ≤ en.bytes := by
    rw [hen]
    exact Tickit.Utf8.specRun_bytes_ge _ t2 _ st
  exact ⟨cs1, t1, st, en, hs1, hst, by rw [← q1, q2], hge, hb, hl⟩

end Tickit.RB
