import Tickit.Proof.EvLoopFbPipe
/-
  The self-pipe configuration, end to end (C18): a signal recorded by tickit.c's handler reaches, in the iteration
  whose wait begins next, every watcher of it that is linked then and not cancelled meanwhile.

  `onSigpipeReadable_logged`   `on_sigpipe_readable` (repaired: every signal of the snapshot is handed to
                                `tickit_evloop_invoke_sigwatches`): the analogue of `dispatchSignals_logged`;
  `ioLoop_reaches`             the descriptor loop of `evloop_run` gets to the pipe watch's entry with the signal still
                                recorded and the entry still reporting POLLIN, whatever the io callbacks before it did
                                (`FStep true`), and what is logged there stays in the log (`LogExt`);
  `tick_reaches`               the wait reports the pipe readable because a recorded signal has its byte in the pipe
                                (`FInv.bytes`), timers and deferred callbacks keep all of it (`FStep true`).
-/
namespace Tickit.EvLoop.Fb
open Tickit.EvLoop

variable {N p : Nat}

theorem sigpipeInvoke_not_ok (fuel : Nat) (pending : List Int) : ∀ (l : List Int) (st : St), st.isOk = false →
    sigpipeInvoke fuel st pending l = st := by
  intro l
  induction l with
  | nil => intro st _; rfl
  | cons x rest ih =>
    intro st h
    unfold sigpipeInvoke
    simp only [h, Bool.false_and, Bool.false_eq_true, if_false]
    exact ih st h

/-- One walk (`tickit_evloop_invoke_sigwatches`, repaired: over a snapshot). -/
theorem sigDispatch_logged (fuel : Nat) (st : St) (s : Int) (hsn : st.cfg.sigSnapshot = true) (i : SInv st)
    (hok : (sigDispatch fuel st s).status = .ok) :
    ∀ b ∈ st.signals, b ∈ (sigDispatch fuel st s).signals → (st.getW b).signum = s → (st.getW b).slot ≥ 0 →
      Ev.cb (st.getW b).slot EV_FIRE .none ∈ (sigDispatch fuel st s).log := by
  unfold sigDispatch at hok ⊢
  rw [if_pos hsn] at hok ⊢
  split
  · rename_i hl
    rw [if_pos hl] at hok
    exact absurd hok (St.status_fail_ne _ _)
  · rename_i hl
    rw [if_neg hl] at hok
    exact fun b hb hfin hsig hslot => sigsnap_logged fuel s st.signals st i hok b hb (i.alloc b hb) hfin hsig hslot

/-- The `for(signum …)` loop of the repaired `on_sigpipe_readable`. -/
theorem sigpipeInvoke_logged (fuel : Nat) (pending : List Int) : ∀ (l : List Int) (st : St), FInv N p st → SInv st →
    st.cfg.sigSnapshot = true → (sigpipeInvoke fuel st pending l).status = .ok →
    ∀ s ∈ l, pending.contains s = true → ∀ b ∈ st.signals, b ∈ (sigpipeInvoke fuel st pending l).signals →
      (st.getW b).signum = s → (st.getW b).slot ≥ 0 →
      Ev.cb (st.getW b).slot EV_FIRE .none ∈ (sigpipeInvoke fuel st pending l).log := by
  intro l
  induction l with
  | nil => intro st _ _ _ _ s hs; cases hs
  | cons x rest ih =>
    intro st fi sv hsn hok s hs hpend b hb hfin hsig hslot
    unfold sigpipeInvoke at hok hfin ⊢
    have hstok : st.isOk = true := by
      cases h : st.isOk
      · exfalso
        simp only [h, Bool.false_and, Bool.false_eq_true, if_false] at hok
        rw [sigpipeInvoke_not_ok fuel pending rest st h] at hok
        exact absurd ((St.isOk_iff st).mpr hok) (by simp [h])
      · rfl
    have fst : FStep true N p st (if st.isOk && pending.contains x then sigDispatch fuel st x else st) := by
      split
      · exact f_sigDispatch _ _ _
      · exact FStep.refl _ _ _ _
    have sst : SigStep st (if st.isOk && pending.contains x then sigDispatch fuel st x else st) := by
      split
      · exact step_sigDispatch _ _ _
      · exact SigStep.refl _
    have f1 := sst sv
    have g1 := fst fi
    have hblt : b < st.heap.length := sv.alloc b hb
    have hsame := f1.ext.same b hblt
    by_cases hsx : s = x
    · subst hsx
      simp only [hstok, hpend, Bool.and_self, if_true] at hok hfin ⊢ f1
      have hok1 : (sigDispatch fuel st s).status = .ok := by
        cases h : (sigDispatch fuel st s).isOk
        · rw [sigpipeInvoke_not_ok fuel pending rest _ h] at hok
          exact absurd ((St.isOk_iff _).mpr hok) (by simp [h])
        · exact (St.isOk_iff _).mp h
      have f2 := step_sigpipeInvoke fuel pending rest (sigDispatch fuel st s) f1.inv
      have hb1 : b ∈ (sigDispatch fuel st s).signals := by
        cases f2.fresh b hfin with
        | inl h => exact h
        | inr h => have := f1.ext.len; omega
      exact (lg_sigpipeInvoke fuel pending rest _).mem (sigDispatch_logged fuel st s hsn sv hok1 b hb hb1 hsig hslot)
    · have hsr : s ∈ rest := by
        simp only [List.mem_cons] at hs
        cases hs with
        | inl h => exact absurd h hsx
        | inr h => exact h
      generalize (if st.isOk && pending.contains x then sigDispatch fuel st x else st) = st1 at *
      have f2 := step_sigpipeInvoke fuel pending rest st1 f1.inv
      have hb1 : b ∈ st1.signals := by
        cases f2.fresh b hfin with
        | inl h => exact h
        | inr h => have := f1.ext.len; omega
      rw [← hsame.2]
      apply ih st1 g1.inv f1.inv (by rw [g1.cfg]; exact hsn) hok s hsr hpend b hb1 hfin
      · rw [hsame.1]; exact hsig
      · rw [hsame.2]; exact hslot

/-- The repaired `on_sigpipe_readable`: for every signal recorded in `t->signal.pending`, every harness watch of it
    that is linked when the callback starts and still linked when it returns has its FIRE entry in the log. -/
theorem onSigpipeReadable_logged (fuel : Nat) (st : St) (fi : FInv N p st) (sv : SInv st)
    (hv : st.cfg.sigpipeViaInvoke = true) (hsn : st.cfg.sigSnapshot = true)
    (hok : (onSigpipeReadable fuel st).status = .ok) :
    ∀ s ∈ signalRange, s ∈ st.pendingSig → ∀ b ∈ st.signals, b ∈ (onSigpipeReadable fuel st).signals →
      (st.getW b).signum = s → (st.getW b).slot ≥ 0 →
      Ev.cb (st.getW b).slot EV_FIRE .none ∈ (onSigpipeReadable fuel st).log := by
  intro s hs hp b hb hfin hsig hslot
  unfold onSigpipeReadable at hok hfin ⊢
  rw [if_pos hv] at hok hfin ⊢
  have hp' : st.pendingSig.contains s = true := by simpa using hp
  exact sigpipeInvoke_logged fuel st.pendingSig signalRange _ (f_takePending st fi).inv (SInv.of_same (st := st) rfl rfl sv)
    hsn hok s hs hp' b hb hfin hsig hslot

theorem ioLoop_not_ok (fuel : Nat) (st : St) (idx : Nat) (h : st.isOk = false) : ioLoop fuel st idx = st := by
  cases fuel with
  | zero => unfold ioLoop; simp [h]
  | succ n => unfold ioLoop; simp [h]

theorem status_of_not_ok {st : St} (h : st.isOk = false) : st.status ≠ .ok := by
  intro hs
  rw [(St.isOk_iff st).mpr hs] at h
  cases h

/-- The descriptor loop of `evloop_run`, entered at or before the pipe watch's entry while that entry reports
    something and signal `s` is recorded: every harness watch of `s` linked now and still linked when the loop ends
    has its FIRE entry in the log. -/
theorem ioLoop_reaches (s : Int) (hs : s ∈ signalRange) (fuel : Nat) : ∀ (st : St) (idx : Nat), FInv N p st → SInv st →
    st.cfg.sigpipeViaInvoke = true → st.cfg.sigSnapshot = true → idx ≤ (st.getW p).evi → s ∈ st.pendingSig →
    slotRevents (st.pfd.getD (st.getW p).evi default) ≠ 0 →
    (ioLoop fuel st idx).status = .ok →
    ∀ b ∈ st.signals, b ∈ (ioLoop fuel st idx).signals → (st.getW b).signum = s → (st.getW b).slot ≥ 0 →
      Ev.cb (st.getW b).slot EV_FIRE .none ∈ (ioLoop fuel st idx).log := by
  induction fuel with
  | zero =>
    intro st idx _ _ _ _ _ _ _ hok
    exfalso
    unfold ioLoop at hok
    split at hok
    · cases hok
    · rename_i h; exact h ((St.isOk_iff st).mpr hok)
  | succ n ih =>
    intro st idx fi sv hv hsn hidx hp hrev hok b hb hfin hsig hslot
    have hblt : b < st.heap.length := sv.alloc b hb
    unfold ioLoop at hok hfin ⊢
    by_cases c1 : (!st.isOk) = true
    · rw [if_pos c1] at hok; exact St.not_ok_absurd c1 hok
    · rw [if_neg c1] at hok hfin ⊢
      by_cases c2 : idx ≥ st.pfd.length
      · have := fi.pidx; omega
      · rw [if_neg c2] at hok hfin ⊢
        by_cases c3 : (st.pfd.getD idx default).fd = -1
        · rw [if_pos c3] at hok hfin ⊢
          have hne : idx ≠ (st.getW p).evi := by
            intro h; rw [h, fi.pfd_fd] at c3; cases c3
          exact ih st (idx + 1) fi sv hv hsn (by omega) hp hrev hok b hb hfin hsig hslot
        · rw [if_neg c3] at hok hfin ⊢
          by_cases c4 : slotRevents (st.pfd.getD idx default) = 0
          · rw [if_pos c4] at hok hfin ⊢
            have hne : idx ≠ (st.getW p).evi := by
              intro h; rw [h] at c4; exact hrev c4
            exact ih st (idx + 1) fi sv hv hsn (by omega) hp hrev hok b hb hfin hsig hslot
          · rw [if_neg c4] at hok hfin ⊢
            -- the callback of entry `idx`
            have hcbok : (ioCb n st (st.pfd.getD idx default)).isOk = true := by
              cases h : (ioCb n st (st.pfd.getD idx default)).isOk
              · rw [ioLoop_not_ok n _ _ h] at hok
                exact absurd hok (status_of_not_ok h)
              · rfl
            have srest := step_ioLoop n (ioCb n st (st.pfd.getD idx default)) (idx + 1)
            have lrest := lg_ioLoop n (ioCb n st (st.pfd.getD idx default)) (idx + 1)
            have scb := step_ioCb n st (st.pfd.getD idx default) sv
            have hb1 : b ∈ (ioCb n st (st.pfd.getD idx default)).signals := by
              cases (srest scb.inv).fresh b hfin with
              | inl h => exact h
              | inr h => have := scb.ext.len; omega
            have hsame := scb.ext.same b hblt
            unfold ioCb at hcbok hb1 hok hfin hsame lrest srest scb ⊢
            cases hw : (st.pfd.getD idx default).watch with
            | none =>
              rw [hw] at hcbok hb1 hok hfin hsame lrest srest scb
              simp only [] at hok hfin ⊢
              have hne : idx ≠ (st.getW p).evi := by
                intro h; rw [h, fi.pfd_w] at hw; cases hw
              exact ih st (idx + 1) fi sv hv hsn (by omega) hp hrev hok b hb hfin hsig hslot
            | some w =>
              rw [hw] at hcbok hb1 hok hfin hsame lrest srest scb
              simp only [] at hcbok hb1 hok hfin hsame lrest srest scb ⊢
              by_cases c5 : (!st.live w) = true
              · rw [if_pos c5] at hcbok
                rw [St.isOk_fail] at hcbok; cases hcbok
              · rw [if_neg c5] at hcbok hb1 hok hfin hsame lrest srest scb ⊢
                by_cases c6 : (st.getW w).slot = -6
                · -- `on_sigpipe_readable`
                  rw [if_pos c6] at hcbok hb1 hok hfin hsame lrest srest scb ⊢
                  have hok1 : (onSigpipeReadable n st).status = .ok := (St.isOk_iff _).mp hcbok
                  exact lrest.mem (onSigpipeReadable_logged n st fi sv hv hsn hok1 s hs hp b hb hb1 hsig hslot)
                · -- somebody else's callback: everything is kept
                  rw [if_neg c6] at hcbok hb1 hok hfin hsame lrest srest scb ⊢
                  have hne : idx ≠ (st.getW p).evi := by
                    intro h
                    rw [h, fi.pfd_w] at hw
                    cases hw
                    exact c6 fi.pslot
                  have g := f_invokeWatch (m := true) (N := N) (p := p) st w EV_FIRE
                    (.io (st.getW w).fd (condOfRevents (slotRevents (st.pfd.getD idx default)))) fi
                  generalize invokeWatch st w EV_FIRE (.io (st.getW w).fd (condOfRevents (slotRevents (st.pfd.getD idx default)))) = st1
                    at hcbok hb1 hok hfin hsame lrest srest scb g ⊢
                  have he : (st1.getW p).evi = (st.getW p).evi := fi.evi_p g.ext
                  rw [← hsame.2]
                  apply ih st1 (idx + 1) g.inv scb.inv (by rw [g.cfg]; exact hv) (by rw [g.cfg]; exact hsn) (by omega)
                    (g.pend rfl s hp) (by rw [he, g.slotp rfl]; exact hrev) hok b hb1 hfin
                  · rw [hsame.1]; exact hsig
                  · rw [hsame.2]; exact hslot

theorem mem_of_getD_slot (l : List PollSlot) (e : Nat) (h : e < l.length) : l.getD e default ∈ l := by
  simp only [List.getD_eq_getElem?_getD, List.getElem?_eq_getElem h, Option.getD_some]
  exact List.getElem_mem h

/-- The kernel reports the read end of the pipe readable while a byte is in it: the wait does not time out. -/
theorem pollScan_pipe (st : St) (fi : FInv N p st) (hb : st.pipeBytes > 0) :
    slotRevents ((pollScan st).pfd.getD (st.getW p).evi default) ≠ 0 ∧ pollCount st > 0 := by
  have hg : (pollScan st).pfd.getD (st.getW p).evi default =
      { st.pfd.getD (st.getW p).evi default with revents := some (pollRevents st (st.pfd.getD (st.getW p).evi default)) } := by
    unfold pollScan
    exact getD_map_slot st.pfd (fun s => { s with revents := some (pollRevents st s) }) _ fi.pidx
  have hr : pollRevents st (st.pfd.getD (st.getW p).evi default) = 1 := by
    unfold pollRevents pipeFd
    rw [fi.pfd_fd, fi.pfd_ev, fi.made]
    have : decide (st.pipeBytes > 0) = true := by simpa using hb
    simp only [this]
    rw [if_neg (by decide), if_pos (by decide)]
    decide
  have h1 : slotRevents ((pollScan st).pfd.getD (st.getW p).evi default) ≠ 0 := by
    rw [hg]; unfold slotRevents; simp only [hr]; decide
  refine ⟨h1, ?_⟩
  unfold pollCount
  apply List.length_pos_of_mem (a := (pollScan st).pfd.getD (st.getW p).evi default)
  rw [List.mem_filter]
  refine ⟨mem_of_getD_slot _ _ (by unfold pollScan; simp only [List.length_map]; exact fi.pidx), ?_⟩
  rw [hg]
  simp only [hr]
  decide

/-- One iteration of `evloop_run` in the self-pipe configuration: a signal recorded by the handler before the wait
    begins reaches every harness watch of it that is linked then and still linked when the iteration ends. -/
theorem tick_reaches (fuel : Nat) (st : St) (nohang : Bool) (fi : FInv N p st) (sv : SInv st)
    (hv : st.cfg.sigpipeViaInvoke = true) (hsn : st.cfg.sigSnapshot = true) (s : Int) (hs : s ∈ signalRange)
    (hp : s ∈ st.pendingSig) (hok : (tick fuel st nohang).status = .ok) :
    ∀ b ∈ st.signals, b ∈ (tick fuel st nohang).signals → (st.getW b).signum = s → (st.getW b).slot ≥ 0 →
      Ev.cb (st.getW b).slot EV_FIRE .none ∈ (tick fuel st nohang).log := by
  intro b hb hfin hsig hslot
  have hblt : b < st.heap.length := sv.alloc b hb
  unfold tick at hok hfin ⊢
  by_cases c1 : (!st.isOk) = true
  · rw [if_pos c1] at hok; exact St.not_ok_absurd c1 hok
  · rw [if_neg c1] at hok hfin ⊢
    by_cases c2 : (!(nextTimerMsec st).1.isOk) = true
    · rw [if_pos c2] at hok; exact St.not_ok_absurd c2 hok
    · rw [if_neg c2] at hok hfin ⊢
      by_cases c3 : (!(ppoll (nextTimerMsec st).1 (tickTimeout nohang (nextTimerMsec st).2)).1.isOk) = true
      · rw [if_pos c3] at hok; exact St.not_ok_absurd c3 hok
      · rw [if_neg c3] at hok hfin ⊢
        -- before the wait
        have gA := f_nextTimerMsec (m := true) (N := N) (p := p) st fi
        have sA := (g2_nextTimerMsec st).step sv
        generalize (nextTimerMsec st).1 = n1 at c3 hok hfin gA sA ⊢
        generalize tickTimeout nohang (nextTimerMsec st).2 = tmo at c3 hok hfin ⊢
        have hp1 : s ∈ n1.pendingSig := gA.pend rfl s hp
        have hbytes : n1.pipeBytes > 0 := gA.inv.bytes (fun h => by rw [h] at hp1; cases hp1)
        obtain ⟨hrev, hcount⟩ := pollScan_pipe n1 gA.inv hbytes
        -- the wait
        have gB := f_pollScan n1 gA.inv
        have gC := ((f_pollRaise (m := true) (N := N) (p := p) (pollScan n1)).trans
          (f_emit _ (.poll tmo (pollSlots n1) (some (pollCount n1))))) gB.inv
        have sB := ((g2_pollScan n1).trans (g2_pollRaise _)).trans (g2_emit _ (.poll tmo (pollSlots n1) (some (pollCount n1))))
        have hq : ppoll n1 tmo = ((pollRaise (pollScan n1)).emit (.poll tmo (pollSlots n1) (some (pollCount n1))), some (pollCount n1)) := by
          unfold ppoll
          by_cases d1 : (!(pollRaise (pollScan n1)).isOk) = true
          · exfalso
            apply c3
            unfold ppoll
            rw [if_pos d1]
            exact d1
          · rw [if_neg d1, if_pos hcount]
        rw [hq] at c3 hok hfin ⊢
        simp only [] at c3 hok hfin ⊢
        generalize (pollRaise (pollScan n1)).emit (.poll tmo (pollSlots n1) (some (pollCount n1))) = q1 at c3 hok hfin gC sB ⊢
        have hpS : s ∈ (pollScan n1).pendingSig := hp1
        have heS : ((pollScan n1).getW p).evi = (n1.getW p).evi := rfl
        have hp2 : s ∈ q1.pendingSig := gC.pend rfl s hpS
        have he2 : (q1.getW p).evi = (n1.getW p).evi := (gB.inv.evi_p gC.ext).trans heS
        have hrev2 : slotRevents (q1.pfd.getD (q1.getW p).evi default) ≠ 0 := by
          rw [he2, ← heS, gC.slotp rfl, heS]; exact hrev
        -- timers and deferred callbacks, then the descriptors
        unfold tickAfterPoll at hok hfin ⊢
        by_cases c4 : (!(invokeTimers fuel q1).isOk) = true
        · rw [if_pos c4] at hok; exact St.not_ok_absurd c4 hok
        · rw [if_neg c4] at hok hfin ⊢
          simp only [hcount, if_true] at hok hfin ⊢
          have gD := f_invokeTimers (m := true) (N := N) (p := p) fuel q1 gC.inv
          have sAB : SigFacts st q1 := (SigStep.trans (fun _ => sA) sB.step) sv
          have sD := step_invokeTimers fuel q1 sAB.inv
          generalize invokeTimers fuel q1 = it at c4 hok hfin gD sD ⊢
          have he3 : (it.getW p).evi = (q1.getW p).evi := gC.inv.evi_p gD.ext
          have hsameAB := sAB.ext.same b hblt
          have hblt2 : b < q1.heap.length := Nat.lt_of_lt_of_le hblt sAB.ext.len
          have hsameD := sD.ext.same b hblt2
          have hcfg : it.cfg = st.cfg := by rw [gD.cfg, gC.cfg, gB.cfg, gA.cfg]
          have hb3 : b ∈ it.signals := by
            cases (step_ioLoop fuel it 0 sD.inv).fresh b hfin with
            | inl h => exact h
            | inr h => have := sD.ext.len; omega
          rw [← hsameAB.2, ← hsameD.2]
          apply ioLoop_reaches s hs fuel it 0 gD.inv sD.inv (by rw [hcfg]; exact hv) (by rw [hcfg]; exact hsn) (Nat.zero_le _)
            (gD.pend rfl s hp2) (by rw [he3, gD.slotp rfl]; exact hrev2) hok b hb3 hfin
          · rw [hsameD.1, hsameAB.1]; exact hsig
          · rw [hsameD.2, hsameAB.2]; exact hslot

end Tickit.EvLoop.Fb
