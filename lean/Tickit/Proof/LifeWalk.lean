import Tickit.Proof.LifeBase
/-
  C08 proofs: the walks up the parent chain (`_get_root`, the walks of the repaired `_purge_hierarchy_changes`,
  `tickit_window_expose`, `tickit_window_get_abs_geometry`, `_is_shown`) never leave the live windows, finish
  within the budget `chainFuel`, and compute the ancestor relation.
-/
namespace Tickit.Life
open WinTree (Id Win Req Change Tree)

theorem chainFuel_gt {t : Tree} {i : Nat} {w : Win} (h : LiveW t i w) : i < chainFuel t := by
  have := h.lt; unfold chainFuel; omega

/-- `within` decides `Reach`. -/
theorem within_spec {t : Tree} (inv : TInv t) (top : Nat) :
    ∀ (w : Nat) (ww : Win), LiveW t w ww → ∀ fuel, w < fuel →
      ∃ b, within t fuel w top = .ok b ∧ (b = true ↔ Reach t w top) := by
  intro w
  induction w using Nat.strongRecOn with
  | ind w ih =>
    intro ww hl fuel hf
    cases fuel with
    | zero => omega
    | succ f =>
      unfold within
      by_cases hwt : w = top
      · subst hwt
        exact ⟨true, by simp, by simp [Reach.refl]⟩
      · simp only [hwt, if_false, get_live hl, bind_ok]
        cases hp : ww.parent with
        | none =>
          refine ⟨false, rfl, ?_⟩
          simp only [Bool.false_eq_true, false_iff]
          intro hr
          exact hwt (hr.eq_of_no_parent hl.1 hp)
        | some p =>
          obtain ⟨hlt, pw, hpl, _⟩ := inv.parent_ok w ww hl p hp
          obtain ⟨b, hb, hiff⟩ := ih p hlt pw hpl f (by omega)
          refine ⟨b, hb, ?_⟩
          rw [hiff]
          constructor
          · intro hr; exact .step hl.1 hp hr
          · intro hr; exact hr.of_ne hwt hl.1 hp

/-- A live window reaches the root or it does not; `findRoot` says which. -/
theorem findRoot_spec {t : Tree} (inv : TInv t) :
    ∀ (w : Nat) (ww : Win), LiveW t w ww → ∀ fuel, w < fuel →
      (Reach t w 0 ∧ findRoot t fuel w = .ok (some 0)) ∨ (¬ Reach t w 0 ∧ findRoot t fuel w = .ok none) := by
  intro w
  induction w using Nat.strongRecOn with
  | ind w ih =>
    intro ww hl fuel hf
    cases fuel with
    | zero => omega
    | succ f =>
      unfold findRoot
      simp only [get_live hl, bind_ok]
      cases hp : ww.parent with
      | none =>
        by_cases hr : ww.isRoot = true
        · have h0 := inv.only_root w ww hl.1 hr
          subst h0
          exact .inl ⟨.refl _, by simp [hr]⟩
        · refine .inr ⟨?_, by simp [hr]⟩
          intro hreach
          have h0 := hreach.eq_of_no_parent hl.1 hp
          subst h0
          obtain ⟨r, h1, h2, _⟩ := inv.root_ex
          rw [hl.1] at h1; cases h1
          exact hr h2
      | some p =>
        obtain ⟨hlt, pw, hpl, _⟩ := inv.parent_ok w ww hl p hp
        have hw0 : w ≠ 0 := by omega
        rcases ih p hlt pw hpl f (by omega) with ⟨hr, hf'⟩ | ⟨hr, hf'⟩
        · exact .inl ⟨.step hl.1 hp hr, hf'⟩
        · exact .inr ⟨fun h => hr (h.of_ne hw0 hl.1 hp), hf'⟩

/-- `_get_root` on a window below the root. -/
theorem getRootA_ok {t : Tree} (inv : TInv t) :
    ∀ (w : Nat) (ww : Win), LiveW t w ww → Reach t w 0 → ∀ fuel, w < fuel → getRootA t fuel w = .ok 0 := by
  intro w
  induction w using Nat.strongRecOn with
  | ind w ih =>
    intro ww hl hr fuel hf
    cases fuel with
    | zero => omega
    | succ f =>
      unfold getRootA
      simp only [get_live hl, bind_ok]
      by_cases hroot : ww.isRoot = true
      · have h0 := inv.only_root w ww hl.1 hroot
        subst h0
        simp [hroot]
      · simp only [hroot, Bool.false_eq_true, if_false]
        cases hp : ww.parent with
        | none =>
          have h0 := hr.eq_of_no_parent hl.1 hp
          subst h0
          obtain ⟨r, h1, h2, _⟩ := inv.root_ex
          rw [hl.1] at h1; cases h1
          exact absurd h2 hroot
        | some p =>
          obtain ⟨hlt, pw, hpl, _⟩ := inv.parent_ok w ww hl p hp
          have hw0 : w ≠ 0 := by omega
          exact ih p hlt pw hpl (hr.of_ne hw0 hl.1 hp) f (by omega)

/-- `tickit_window_expose` reads live windows only. -/
theorem exposeWalk_ok {t : Tree} (inv : TInv t) :
    ∀ (w : Nat) (ww : Win), LiveW t w ww → ∀ fuel, w < fuel → ∀ e, exposeWalk t fuel w e = .ok () := by
  intro w
  induction w using Nat.strongRecOn with
  | ind w ih =>
    intro ww hl fuel hf e
    cases fuel with
    | zero => omega
    | succ f =>
      unfold exposeWalk
      simp only [get_live hl, bind_ok]
      split
      · rfl
      · split
        · rfl
        · split
          · rfl
          · split
            · rfl
            · rename_i p hp
              obtain ⟨hlt, pw, hpl, _⟩ := inv.parent_ok w ww hl p hp
              exact ih p hlt pw hpl f (by omega) _

/-- `_is_shown` reads live windows only. -/
theorem isShown_ok {t : Tree} (inv : TInv t) :
    ∀ (w : Nat) (ww : Win), LiveW t w ww → ∀ fuel, w < fuel → ∃ b, isShown t fuel w = .ok b := by
  intro w
  induction w using Nat.strongRecOn with
  | ind w ih =>
    intro ww hl fuel hf
    cases fuel with
    | zero => omega
    | succ f =>
      unfold isShown
      simp only [get_live hl, bind_ok]
      split
      · exact ⟨false, rfl⟩
      · split
        · exact ⟨true, rfl⟩
        · rename_i p hp
          obtain ⟨hlt, pw, hpl, _⟩ := inv.parent_ok w ww hl p hp
          exact ih p hlt pw hpl f (by omega)

/-- The upward part of `tickit_window_get_abs_geometry`. -/
theorem absGeom_up_ok {t : Tree} (inv : TInv t) :
    ∀ (w : Nat) (ww : Win), LiveW t w ww → ∀ fuel, w + 1 < fuel → ∀ g, ∃ r, absGeom.up t fuel (some w) g = .ok r := by
  intro w
  induction w using Nat.strongRecOn with
  | ind w ih =>
    intro ww hl fuel hf g
    cases fuel with
    | zero => omega
    | succ f =>
      unfold absGeom.up
      simp only [get_live hl, bind_ok]
      cases hp : ww.parent with
      | none =>
        cases f with
        | zero => omega
        | succ f' => exact ⟨_, by unfold absGeom.up; rfl⟩
      | some p =>
        obtain ⟨hlt, pw, hpl, _⟩ := inv.parent_ok w ww hl p hp
        exact ih p hlt pw hpl f (by omega) _

/-- `tickit_window_get_abs_geometry` of a live window. -/
theorem absGeom_ok {t : Tree} (inv : TInv t) {w : Nat} {ww : Win} (hl : LiveW t w ww) : ∃ r, absGeom t w = .ok r := by
  unfold absGeom
  simp only [get_live hl, bind_ok]
  cases hp : ww.parent with
  | none => exact ⟨_, by unfold absGeom.up chainFuel; rfl⟩
  | some p =>
    obtain ⟨hlt, pw, hpl, _⟩ := inv.parent_ok w ww hl p hp
    have := hl.lt
    exact absGeom_up_ok inv p pw hpl _ (by unfold chainFuel; omega) _

end Tickit.Life
