import Tickit.Proof.WinFocusHist
/-
  C15 over histories, part 4b: the terminal's resize event (`on_term_resize`, model `termResize`).

  The root window follows the terminal: its rectangle keeps its origin and takes the new size; the area gained is exposed.
  Nothing is done about an area lost — unless the source carries the repair `resizeRestore`, which requests a restore.
  Here: the invariant `Good15` survives the event (for a terminal of at least one cell), flags only go up, and with
  the repair a restore is pending afterwards.
-/
namespace Tickit
namespace WinFocus
open WinTree WinSpec WinFlush

/-- Rewriting the root window with the same links and origin and a size of at least one cell keeps the invariants. -/
theorem rootSet_good {t : Tree} {w w' : Win} (hg : Good15 t) (hw : Live t 0 w) (hs : linkShape w' = linkShape w)
    (hfc : w'.focusedChild = w.focusedChild) (hr : w'.isRoot = w.isRoot) (htop : w'.rect.top = w.rect.top)
    (hleft : w'.rect.left = w.rect.left) (hl : 0 < w'.rect.lines) (hc : 0 < w'.rect.cols) :
    Good15 (WinTree.set t 0 w') := by
  have hsh : w'.parent = w.parent ∧ w'.children = w.children ∧ w'.isVisible = w.isVisible ∧ w'.freed = w.freed := by
    unfold linkShape at hs; simpa using hs
  have hlk : ∀ j : Nat, (WinTree.set t 0 w').wins[j]? = if 0 = j then some w' else t.wins[j]? :=
    fun j => set_lookup hw.1
  have h00 : (WinTree.set t 0 w').wins[0]? = some w' := by rw [hlk]; rfl
  -- every window of the new store is a window of the old one with the same links, and the other way round
  have back : ∀ (x : Nat) (v' : Win), (WinTree.set t 0 w').wins[x]? = some v' →
      ∃ v, t.wins[x]? = some v ∧ v'.children = v.children ∧ v'.parent = v.parent ∧ v'.isRoot = v.isRoot ∧
        (x ≠ 0 → v'.rect = v.rect) ∧ (x = 0 → v' = w') := by
    intro x v' hx
    rw [hlk] at hx
    by_cases h0 : 0 = x
    · subst h0
      simp only [if_true, Option.some.injEq] at hx
      subst hx
      exact ⟨w, hw.1, hsh.2.1, hsh.1, hr, fun h => absurd rfl h, fun _ => rfl⟩
    · simp only [h0, if_false] at hx
      exact ⟨v', hx, rfl, rfl, rfl, fun _ => rfl, fun h => absurd h.symm h0⟩
  have fwd : ∀ (x : Nat) (v : Win), t.wins[x]? = some v →
      ∃ v', (WinTree.set t 0 w').wins[x]? = some v' ∧ v'.parent = v.parent ∧ v'.isRoot = v.isRoot := by
    intro x v hx
    by_cases h0 : 0 = x
    · subst h0
      rw [hw.1] at hx; cases hx
      exact ⟨w', h00, hsh.1, hr⟩
    · refine ⟨v, ?_, rfl, rfl⟩
      rw [hlk]; simp only [h0, if_false]; exact hx
  exact
    { wf := wfB_set_same hg.wf hw.1 hs hfc hr
      wfp := ⟨by
        intro cur v' hv' ch hch
        obtain ⟨v, hv, hc0, _⟩ := back cur v' hv'
        obtain ⟨cw, hcw, hcp, hcr⟩ := hg.wfp.child cur v hv ch (by rw [← hc0]; exact hch)
        obtain ⟨cw', hcw', hp', hr'⟩ := fwd ch cw hcw
        exact ⟨cw', hcw', by rw [hp']; exact hcp, by rw [hr']; exact hcr⟩⟩
      rootWin := by
        obtain ⟨r, hr0, hf, hroot, hp, htop0, hleft0⟩ := hg.rootWin.ex
        rw [hw.1] at hr0; cases hr0
        exact ⟨⟨w', h00, by rw [hsh.2.2.2]; exact hf, by rw [hr]; exact hroot, by rw [hsh.1]; exact hp,
          by rw [htop]; exact htop0, by rw [hleft]; exact hleft0⟩⟩
      onlyRoot := by
        intro x v' hv' hrt
        obtain ⟨v, hv, _, _, hr0, _⟩ := back x v' hv'
        exact hg.onlyRoot x v hv (by rw [← hr0]; exact hrt)
      nodup := by
        intro cur v' hv'
        obtain ⟨v, hv, hc0, _⟩ := back cur v' hv'
        rw [hc0]; exact hg.nodup cur v hv
      noSelf := by
        intro x v' hv'
        obtain ⟨v, hv, _, hp0, _⟩ := back x v' hv'
        rw [hp0]; exact hg.noSelf x v hv
      pos := by
        intro x v' hv' hrt
        obtain ⟨v, hv, _, _, hr0, hne, he⟩ := back x v' hv'
        by_cases hx : x = 0
        · rw [he hx]; exact ⟨hl, hc⟩
        · rw [hne hx]; exact hg.pos x v hv (by rw [← hr0]; exact hrt)
      nonempty := hg.nonempty
      flagged := hg.flagged
      later := hg.later }

/-- Giving the root window a new size (same origin, at least one cell) keeps the invariants. -/
theorem rootRect_good {t : Tree} {w : Win} {l c : Int} (hg : Good15 t) (hw : Live t 0 w) (hl : 0 < l) (hc : 0 < c) :
    Good15 (WinTree.set t 0 { w with rect := ⟨w.rect.top, w.rect.left, l, c⟩ }) :=
  rootSet_good hg hw rfl rfl rfl rfl rfl hl hc

/-- `tickit_window_resize` of the root window: the store is untouched or the root window has the new size. -/
theorem resize_root {t t1 : Tree} {l c : Int} (h : resize t 0 l c = .ok t1) :
    ∃ w, Live t 0 w ∧ (t1 = t ∨ t1 = WinTree.set t 0 { w with rect := ⟨w.rect.top, w.rect.left, l, c⟩ }) := by
  unfold resize at h
  simp only [bind_ok] at h
  obtain ⟨w, hgw, x, hx, h⟩ := h
  obtain ⟨ta, b⟩ := x
  simp only [pure_ok] at h
  subst h
  refine ⟨w, get_ok.mp hgw, ?_⟩
  unfold setGeometry at hx
  simp only [bind_ok] at hx
  obtain ⟨w2, hgw2, hx⟩ := hx
  rw [hgw] at hgw2; cases hgw2
  split at hx
  · simp only [pure_ok, Prod.mk.injEq] at hx; exact .inr hx.1.symm
  · simp only [pure_ok, Prod.mk.injEq] at hx; exact .inl hx.1.symm

theorem resize_root_good {t t1 : Tree} {l c : Int} (hg : Good15 t) (hl : 0 < l) (hc : 0 < c)
    (h : resize t 0 l c = .ok t1) : Good15 t1 := by
  obtain ⟨w, hw, h1 | h1⟩ := resize_root h
  · rw [h1]; exact hg
  · rw [h1]; exact rootRect_good hg hw hl hc

theorem resize_root_keeps {t t1 : Tree} {l c : Int} (h : resize t 0 l c = .ok t1) : t1.root = t.root := by
  obtain ⟨w, _, h1 | h1⟩ := resize_root h
  · rw [h1]
  · rw [h1]; rfl

theorem resizeExposeLines_good {t t' : Tree} {ol l c : Int} (hg : Good15 t) (h : resizeExposeLines t ol l c = .ok t') :
    Good15 t' ∧ RootKeeps t.root t'.root := by
  unfold resizeExposeLines at h
  split at h
  · exact ⟨expose_good hg h, expose_keeps _ _ _ _ _ h⟩
  · simp only [pure_ok] at h; subst h; exact ⟨hg, rootKeeps_refl _⟩

theorem resizeExposeCols_good {t t' : Tree} {ol oc c : Int} (hg : Good15 t) (h : resizeExposeCols t ol oc c = .ok t') :
    Good15 t' ∧ RootKeeps t.root t'.root := by
  unfold resizeExposeCols at h
  split at h
  · exact ⟨expose_good hg h, expose_keeps _ _ _ _ _ h⟩
  · simp only [pure_ok] at h; subst h; exact ⟨hg, rootKeeps_refl _⟩

theorem requestRestore_good {t : Tree} (hg : Good15 t) : Good15 (requestRestore t) :=
  good15_rootStep hg (wfB_root_only hg.wf _) (fun _ => rfl) (.inr rfl)

/-- `on_term_resize` in pieces: the tree before the final restore request. -/
theorem termResize_pieces {fx : Fixes} {t t' : Tree} {l c : Int} (hg : Good15 t) (hl : 0 < l) (hc : 0 < c)
    (h : termResize fx t l c = .ok t') :
    ∃ t3, Good15 t3 ∧ RootKeeps t.root t3.root ∧ t' = (if fx.resizeRestore then requestRestore t3 else t3) := by
  unfold termResize at h
  simp only [bind_ok, pure_ok] at h
  obtain ⟨w, _, t1, h1, t2, h2, t3, h3, h⟩ := h
  have g1 := resize_root_good hg hl hc h1
  obtain ⟨g2, k2⟩ := resizeExposeLines_good g1 h2
  obtain ⟨g3, k3⟩ := resizeExposeCols_good g2 h3
  refine ⟨t3, g3, ?_, h.symm⟩
  have k1 : RootKeeps t.root t1.root := by rw [resize_root_keeps h1]; exact rootKeeps_refl _
  exact rootKeeps_trans k1 (rootKeeps_trans k2 k3)

/-- The resize event of a terminal of at least one cell keeps the invariant (every state of the source). -/
theorem termResize_good {fx : Fixes} {t t' : Tree} {l c : Int} (hg : Good15 t) (hl : 0 < l) (hc : 0 < c)
    (h : termResize fx t l c = .ok t') : Good15 t' := by
  obtain ⟨t3, g3, _, ht⟩ := termResize_pieces hg hl hc h
  subst ht
  split
  · exact requestRestore_good g3
  · exact g3

/-- … flags only go up and nothing is queued … -/
theorem termResize_keeps {fx : Fixes} {t t' : Tree} {l c : Int} (hg : Good15 t) (hl : 0 < l) (hc : 0 < c)
    (h : termResize fx t l c = .ok t') : RootKeeps t.root t'.root := by
  obtain ⟨t3, _, k3, ht⟩ := termResize_pieces hg hl hc h
  subst ht
  split
  · exact rootKeeps_trans k3 (rootKeeps_of_step (.inr rfl))
  · exact k3

/-- … and with the repair `resizeRestore` a restore is pending afterwards, so the next flush re-establishes the cursor. -/
theorem termResize_pending {fx : Fixes} (hfx : fx.resizeRestore = true) {t t' : Tree} {l c : Int} (hg : Good15 t)
    (hl : 0 < l) (hc : 0 < c) (h : termResize fx t l c = .ok t') : Pending t' := by
  obtain ⟨t3, _, _, ht⟩ := termResize_pieces hg hl hc h
  subst ht
  rw [hfx]
  exact ⟨.inl rfl, rfl⟩

end WinFocus
end Tickit
